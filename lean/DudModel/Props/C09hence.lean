import DudModel.PipeSpec
import DudModel.Lemmas.PipeRun
import DudModel.Lemmas.PipeCommit
import DudModel.Lemmas.PipeHence
import DudModel.Lemmas.Codec
/-!
# C09, the `Hence` clause — "when commits are made only after successful runs, every output equals
what its command produces from the current sources, and a `dud run` straight after
`dud run; dud commit` executes no stage that has inputs"

Vocabulary (`PipeSpec.lean`): a functional semantics `F : Fun κ` of the stage commands, `ExecIs cfg F
exec` (the interpretation `exec` of the commands implements `F`), `logicalAt` (logical content of a
workspace path, links into the cache followed), `FreshStage` / `Fresh` (each output is what `F` yields
from what is found NOW at the inputs), `Recorded` (unchanged since the last commit, as in
`run_sound`), `PipeOK` / `FilePipe` (well-formed index / of file artifacts), `AllFilesAt`.

Main statements

* (a) `run_establishes_fresh` (and its core `run_fresh_core`): a successful recursive run of all
  stages makes every command stage fresh, provided the stages that do not run were fresh — any
  artifacts, files or directories; only `PipeOK` and `ExecIs` are needed.
* (b) `commit_preserves_fresh`: `dud commit` changes the logical content of no input and no output, so
  `Fresh` is preserved, and afterwards every stage is `Recorded` — for pipelines of FILE artifacts.
* (c) `Hist` (histories `run; commit; edits*; run; commit; …` in which every commit directly follows a
  successful run; the edits are ARBITRARY changes of the workspace and of the stage definitions),
  `hence_fresh`: `Fresh` holds after every run of every history; `hence_second_run_idle`: a run
  straight after `run; commit` executes nothing, provided no command stage without inputs is upstream
  (the known finding of C09, kept as a hypothesis); `run_commit_edit_run`: the two-step instance.
* Non-vacuity: `execOf` / `execOf_is` (every `F` has an implementation satisfying `ExecIs`), and the
  namespace `Pipe`: a three-stage diamond over a tiny command language, every hypothesis proved, the
  theorems instantiated, the concrete worlds computed by `rfl`; `Pipe.commit_after_edit_is_stale`
  shows that the proviso "commits only after successful runs" cannot be dropped.

How the proof of (c) goes: the invariant of a history is `SoundIdx` (`Lemmas/PipeHence.lean`) — "for
every command stage whose definition checksum is current, in EVERY world in which the files found at
its inputs and outputs hash to the checksums it records, its outputs are what `F` yields from its
inputs". It mentions neither workspace nor cache, so runs and workspace edits keep it; a commit after
a run establishes it (hash injectivity); an edit of a definition falsifies the premise "definition
checksum current". After a run a stage either executed — then it is fresh by `ExecIs` and the order
theorem of C08 — or is unchanged since its last commit together with all its owners (`run_sound`) —
then the files found hash to what it records, and `SoundIdx` applies.

What is NOT covered: directory artifacts in (b) and (c); runs / commits restricted to targets or with
`--single-stage` (except in `hence_second_run_idle`); edits of the cache; `exec` is a deterministic
function of the logical content of the inputs (a command that reads anything else is not an `ExecIs`).
-/
namespace Dud

open WT

variable {κ : Type} [DecidableEq κ]

/-! ## (a) a successful run establishes `Fresh` -/

/-- `Recorded` is `UpToDate` (`Props/C09.lean`) of the stage found in the index -/
theorem recorded_iff (cfg : Cfg κ) (w : World κ) (sp : Bytes) :
    Recorded cfg w sp ↔ ∃ stg, alookup w.idx sp = some stg ∧ UpToDate cfg w stg := Iff.rfl

/-- **`ExecIs` implies the frame condition of `run_sound`** (`ExecFrame'` of `Props/C09.lean`), for the
stages of a `PipeOK` index: the command of one stage changes the status of no output and of no
un-owned input of a stage with another stage path. The unrelativised `ExecFrame'` quantifies over
ALL indexes and cannot hold for an `exec` that writes its outputs: in an index where two stages
share an output, running one changes the status of the other's output. `cmdRun_sound_on`
(`Lemmas/PipeRun.lean`) is `cmdRun_sound` under the relativised condition. -/
theorem execIs_implies_frame (cfg : Cfg κ) (F : Fun κ) (exec : Exec κ) (hex : ExecIs cfg F exec)
    (idx : Index) (hok : PipeOK cfg idx) : ExecFrameOn cfg exec idx := hex.frameOn hok

/-- The run traversal, once and for all (`dud run`, recursive, all stages, from `w` to `w'`; `exec`
implements `F`, the index is `PipeOK`): index and cache are untouched; `run_sound` holds for EVERY
stage of the index; a stage whose command was executed is `FreshStage` in the final world; a stage
that was not executed, and none of whose owners was, is as fresh in `w'` as it was in `w`. -/
theorem run_fresh_core (cfg : Cfg κ) (F : Fun κ) (exec : Exec κ) (hex : ExecIs cfg F exec)
    (w w' : World κ) (hok : PipeOK cfg w.idx) (h : cmdRun cfg exec false [] w = .ok w') :
    w'.idx = w.idx ∧ w'.store = w.store ∧
    (∀ x stg, alookup w.idx x = some stg → RunSound cfg w.idx w' x stg) ∧
    (∀ x stg, alookup w.idx x = some stg → x ∈ w'.log → FreshStage cfg F w' stg) ∧
    (∀ x stg, alookup w.idx x = some stg → x ∉ w'.log →
      (∀ o, o ∈ ownIdx cfg w.idx x → o ∉ w'.log) → FreshStage cfg F w stg → FreshStage cfg F w' stg) ∧
    (∀ o, didRun w' o = false → o ∉ w'.log) := by
  have hfo := hex.frameOn hok
  obtain ⟨l', hl, hidx, _, _, hts, hdone, _⟩ := cmdRun_spec cfg exec hfo.1 false [] w w' h
  simp only [Bool.not_false, List.isEmpty_nil, if_true] at hl hts
  have hr0 : RunInv cfg w.idx (fresh w, []) := by
    refine ⟨by simp, by simp, ?_, by simp, by simp⟩
    simp [fresh]
  have hf0 : FInv cfg F w.idx w (fresh w, []) := by
    refine ⟨rfl, ?_, fun _ _ => rfl, ?_⟩ <;> simp [fresh]
  have hq := perTarget_preserves
    (Q := fun p => RunInv cfg w.idx p ∧ FInv cfg F w.idx w p)
    (runTrav_lawfulOn cfg exec hfo.1 true w.idx) (fun w => w.idx.length + 1) allStages _
    (fun sp p p' _ hi hq hnd hown hact =>
      ⟨runInv_step_on cfg exec w.idx hfo sp p p' hi hq.1 hnd (hown rfl) hact,
        fInv_step cfg F exec hex w.idx hok w sp p p' hi hq.1 hq.2 hnd (hown rfl) hact⟩)
    (fresh w, []) (w', l') rfl ⟨hr0, hf0⟩ hl
  obtain ⟨hr, hf⟩ := hq
  have hmemo : ∀ x stg, alookup w.idx x = some stg → x ∈ l' := fun x stg hsx =>
    hts x (by simpa [allStages] using WT.mem_keys_of_alookup hsx)
  refine ⟨hidx, hf.1, fun x stg hsx => hr.sound x stg (hmemo x stg hsx) hsx,
    fun x stg hsx hxl => hf.2.2.2 x hxl stg hsx,
    fun x stg hsx hxl hown h0 => hf.not_run hok hsx hxl hown h0, ?_⟩
  intro o hd hl
  have := hr.2.2.1 o hl
  simp only at this
  rw [hd] at this; cases this

/-- **(a) A successful run establishes `Fresh`.** Let `exec` implement `F` (`ExecIs`), let the index
be well-formed (`PipeOK`: outputs do not overlap, un-owned inputs lie apart from all outputs, owned
inputs lie at or below the owning output), and let `dud run` (recursive, all stages) succeed from
`w` in `w'`. If every command stage that does NOT run in this invocation is `FreshStage` in `w` (the
induction hypothesis of the `Hence` clause), then in `w'`

* every stage with a command is `FreshStage`: each output is what `F` yields from what is found at
  the inputs in the FINAL state `w'`;
* and (`run_sound` for all stages) every stage either has memo entry `true` — and then, if it has a
  command, the command was executed in this run — or was not executed, has inputs (or no command),
  none of its owners ran, and it is `Recorded` in `w'`.

The proof uses `run_sound` (via `cmdRun_sound_on`), the order theorem of C08 (when a stage is acted
on its owners are in the memo, so a stage that executes later is never an owner of a stage that
executed earlier) and `ExecIs`. Acyclicity of the index is not a hypothesis: a cycle makes the run
fail. Not covered: `--single-stage`, and runs restricted to targets. -/
theorem run_establishes_fresh (cfg : Cfg κ) (F : Fun κ) (exec : Exec κ) (hex : ExecIs cfg F exec)
    (w w' : World κ) (hok : PipeOK cfg w.idx) (h : cmdRun cfg exec false [] w = .ok w')
    (hind : ∀ x stg, alookup w.idx x = some stg → stg.hasCmd = true → didRun w' x = false →
      FreshStage cfg F w stg) :
    w'.idx = w.idx ∧ Fresh cfg F w' ∧
    ∀ x stg, alookup w.idx x = some stg →
      (didRun w' x = true ∧ (stg.hasCmd = true → x ∈ w'.log)) ∨
      (didRun w' x = false ∧ x ∉ w'.log ∧ stg.noInputs = false ∧ Recorded cfg w' x ∧
        ∀ o, o ∈ ownIdx cfg w.idx x → didRun w' o = false) := by
  obtain ⟨hidx, _, hsound, hexec, hkeep, hnotlog⟩ := run_fresh_core cfg F exec hex w w' hok h
  refine ⟨hidx, ?_, ?_⟩
  · intro x stg hsx hc
    rw [hidx] at hsx
    rcases hsound x stg hsx with ⟨_, hlog⟩ | ⟨hd, hxl, _, _, hown⟩
    · exact hexec x stg hsx (hlog hc)
    · exact hkeep x stg hsx hxl (fun o ho => hnotlog o (hown o ho).2) (hind x stg hsx hc hd)
  · intro x stg hsx
    rcases hsound x stg hsx with h1 | ⟨hd, hxl, hni, hup, hown⟩
    · exact .inl h1
    · exact .inr ⟨hd, hxl, hni, ⟨stg, by rw [hidx]; exact hsx, hup⟩, fun o ho => (hown o ho).2⟩

/-! ## (b) `dud commit` preserves `Fresh` and records every stage -/

/-- **(b) `dud commit` preserves `Fresh`, and afterwards every stage is `Recorded`.** For a
well-formed pipeline of FILE artifacts (`PipeOK`, `FilePipe`) in a world `w` with a consistent cache
in which every output and every un-owned input is, logically, a regular file (`AllFilesAt`), and a
`Stable` function `F`: after a successful `dud commit` (all stages, either strategy)

* the logical content (`deref`) at every input and at every output of every stage is unchanged —
  so `Fresh` is preserved (the stage definitions are rewritten by the commit: artifacts re-sorted,
  checksums and `skip-cache` flags set; `F.Stable` says the command does not see any of that);
* every stage is `Recorded` (what `dud status` reports as up to date, C05) and, more precisely,
  records the hashes of the files found (`HashRec`);
* the index has the same shape and is again a well-formed pipeline of files; the cache is consistent.

Not covered: directory artifacts (re-commits of directories are C15/C16), commits restricted to
targets. -/
theorem commit_preserves_fresh (cfg : Cfg κ) (g : Good cfg.ctx) (F : Fun κ) (hF : F.Stable)
    (strat : Strat) (w w' : World κ) (hc : Consistent cfg.ctx w.store) (hok : PipeOK cfg w.idx)
    (hfp : FilePipe cfg w.idx) (hfiles : AllFilesAt cfg w) (h : cmdCommit cfg strat [] w = .ok w')
    (hfr : Fresh cfg F w) :
    Fresh cfg F w' ∧
    (∀ x stg, alookup w.idx x = some stg → Recorded cfg w' x) ∧
    (∀ x stg', alookup w'.idx x = some stg' → HashRec cfg w' stg') ∧
    (∀ sp stg, alookup w.idx sp = some stg →
      (∀ a, a ∈ stg.inputs → logicalAt cfg w' a.path = logicalAt cfg w a.path) ∧
      (∀ b, b ∈ stg.outputs → logicalAt cfg w' b.path = logicalAt cfg w b.path)) ∧
    SameShape w'.idx w.idx ∧ Consistent cfg.ctx w'.store ∧ PipeOK cfg w'.idx ∧ FilePipe cfg w'.idx := by
  obtain ⟨hsh, hc', hok', hfp', hlog, hrec, hfresh⟩ :=
    commit_package cfg g F hF strat w w' hc hok hfp hfiles h
  refine ⟨hfresh hfr, ?_, fun x stg' hs' => (hrec x stg' hs').2, hlog, hsh, hc', hok', hfp'⟩
  intro x stg hsx
  rcases alookup_sim hsh x with ⟨_, h0⟩ | ⟨s, s0, h1, _, _⟩
  · rw [hsx] at h0; cases h0
  · exact ⟨s, h1, upToDate_of_direct (hrec x s h1).1⟩

/-! ## (c) the `Hence` clause -/

/-- **Histories in which every commit directly follows a successful recursive run of all stages.**
`Hist cfg exec b w`: the world `w` is reachable, and `b` says whether the last step was a run.

* `init`: a project in which nothing is committed yet (no stage has a current definition checksum),
  with a consistent cache and a well-formed index of file artifacts;
* `run`: `dud run` (recursive, all stages) succeeds;
* `commit`: `dud commit` (all stages, any strategy) succeeds — allowed only directly after a run, in a
  world where every output and every un-owned input is a regular file (`AllFilesAt`; for the outputs
  of command stages this says that the commands did produce their outputs);
* `editWs`: ANY change of the workspace (edit sources, damage or delete outputs, …);
* `editIdx`: ANY change of the index (edit, add, remove, rename stage definitions) after which the
  index is again a well-formed pipeline of files and in which every stage whose definition checksum
  is current is a stage of the old index — i.e. an edit of a definition is visible in the definition
  checksum (the user does not forge checksums). -/
inductive Hist (cfg : Cfg κ) (exec : Exec κ) : Bool → World κ → Prop
  | init (w : World κ) : Consistent cfg.ctx w.store → PipeOK cfg w.idx → FilePipe cfg w.idx →
      (∀ x stg, alookup w.idx x = some stg → stg.sumOk cfg = false) → Hist cfg exec false w
  | run {b : Bool} {w w' : World κ} : Hist cfg exec b w → cmdRun cfg exec false [] w = .ok w' →
      Hist cfg exec true w'
  | commit {w w' : World κ} (strat : Strat) : Hist cfg exec true w → AllFilesAt cfg w →
      cmdCommit cfg strat [] w = .ok w' → Hist cfg exec false w'
  | editWs {b : Bool} {w : World κ} (ws' : Node κ) : Hist cfg exec b w →
      Hist cfg exec false { w with ws := ws' }
  | editIdx {b : Bool} {w : World κ} (idx' : Index) : Hist cfg exec b w →
      PipeOK cfg idx' → FilePipe cfg idx' →
      (∀ x stg', alookup idx' x = some stg' → stg'.sumOk cfg = true →
        ∃ y, alookup w.idx y = some stg') →
      Hist cfg exec false { w with idx := idx' }

/-- what holds along a history -/
structure HInv (cfg : Cfg κ) (F : Fun κ) (b : Bool) (w : World κ) : Prop where
  cons : Consistent cfg.ctx w.store
  pipe : PipeOK cfg w.idx
  files : FilePipe cfg w.idx
  sound : SoundIdx cfg F w.idx
  fresh : b = true → Fresh cfg F w

theorem hist_inv (cfg : Cfg κ) (g : Good cfg.ctx) (F : Fun κ) (hF : F.Stable) (exec : Exec κ)
    (hex : ExecIs cfg F exec) {b : Bool} {w : World κ} (h : Hist cfg exec b w) : HInv cfg F b w := by
  induction h with
  | init w hc hok hfp hno =>
    refine ⟨hc, hok, hfp, ?_, fun hb => by cases hb⟩
    intro x stg hs _ hsum
    rw [hno x stg hs] at hsum; cases hsum
  | @run b w w' _ hrun ih =>
    obtain ⟨hidx, hstore, hsound, hexec, _, _⟩ := run_fresh_core cfg F exec hex w w' ih.pipe hrun
    have hok' : PipeOK cfg w'.idx := by rw [hidx]; exact ih.pipe
    have hfp' : FilePipe cfg w'.idx := by rw [hidx]; exact ih.files
    have hc' : Consistent cfg.ctx w'.store := by rw [hstore]; exact ih.cons
    refine ⟨hc', hok', hfp', by rw [hidx]; exact ih.sound, fun _ => ?_⟩
    intro x stg hs' hcmd
    have hs : alookup w.idx x = some stg := by rw [← hidx]; exact hs'
    rcases hsound x stg hs with ⟨_, hlog⟩ | ⟨_, _, _, hup, hown⟩
    · exact hexec x stg hs (hlog hcmd)
    · -- not executed: unchanged since its last commit, and so are its owners
      have hrd := direct_of_upToDate hok' hfp' hs' hup
      have hh : HashRec cfg w' stg := by
        refine hashRec_of_direct hok' hfp' hc' hs' hrd (fun o stgo ho hso => ?_)
        have ho' : o ∈ ownIdx cfg w.idx x := by rw [← hidx]; exact ho
        have hso0 : alookup w.idx o = some stgo := by rw [← hidx]; exact hso
        rcases hsound o stgo hso0 with ⟨hd, _⟩ | ⟨_, _, _, hupo, _⟩
        · rw [(hown o ho').2] at hd; cases hd
        · exact direct_of_upToDate hok' hfp' hso hupo
      exact ih.sound x stg hs hcmd hup.1 w' hh
  | @commit w w' strat _ hfiles hcom ih =>
    obtain ⟨hsh, hc', hok', hfp', _, hrec, hfresh⟩ :=
      commit_package cfg g F hF strat w w' ih.cons ih.pipe ih.files hfiles hcom
    have hfr' := hfresh (ih.fresh rfl)
    refine ⟨hc', hok', hfp', ?_, fun hb => by cases hb⟩
    intro x stg' hs' hcmd _
    exact soundStage_of_fresh cfg g F w' stg' (hfr' x stg' hs' hcmd) (hrec x stg' hs').2
  | @editWs b w ws' _ ih =>
    exact ⟨ih.cons, ih.pipe, ih.files, ih.sound, fun hb => by cases hb⟩
  | @editIdx b w idx' _ hok' hfp' hold ih =>
    refine ⟨ih.cons, hok', hfp', ?_, fun hb => by cases hb⟩
    intro x stg' hs' hcmd hsum
    obtain ⟨y, hy⟩ := hold x stg' hs' hsum
    exact ih.sound y stg' hy hcmd hsum

/-- **The `Hence` clause of C09, first half.** Let the hash be injective (`Good`), let `exec`
implement a `Stable` function `F`. In every history in which commits are made only directly after
successful recursive runs of all stages — with arbitrary edits of the workspace (sources edited,
outputs damaged or deleted) and of the stage definitions in between — after EVERY run of the history
every stage that has a command is `FreshStage`: each of its outputs is, logically, what its command
produces from what is found NOW at its inputs — for an un-owned input the current source, for an
owned input the output of the owning stage, which is itself fresh.

What is NOT covered: directory artifacts (the histories are over pipelines of file artifacts,
`FilePipe`); runs and commits restricted to targets or with `--single-stage`; edits of the cache;
and, as C09 says, commits that do not directly follow a successful run (a commit after an edit
records outputs that were not made from the inputs it records: that is the stale-output finding). -/
theorem hence_fresh (cfg : Cfg κ) (g : Good cfg.ctx) (F : Fun κ) (hF : F.Stable) (exec : Exec κ)
    (hex : ExecIs cfg F exec) {w : World κ} (h : Hist cfg exec true w) : Fresh cfg F w :=
  (hist_inv cfg g F hF exec hex h).fresh rfl

/-- **The `Hence` clause of C09, second half: a `dud run` straight after `dud run; dud commit`
executes nothing** — provided no command stage without inputs is upstream of a target. That proviso
is the known finding of C09 (`Toy.noinput_upstream_reruns_downstream`: a command stage without
inputs always runs and drags its dependants along) and cannot be dropped. Any targets, with or
without `--single-stage`: empty command log, workspace, cache and index untouched, every memo entry
`false`. -/
theorem hence_second_run_idle (cfg : Cfg κ) (g : Good cfg.ctx) (F : Fun κ) (hF : F.Stable)
    (exec : Exec κ) (hex : ExecIs cfg F exec) {w1 w2 w3 : World κ} (strat : Strat)
    (h : Hist cfg exec true w1) (hfiles : AllFilesAt cfg w1)
    (hcom : cmdCommit cfg strat [] w1 = .ok w2) (single : Bool) (targets : List Bytes)
    (hni : ∀ x stg, (∃ t, t ∈ (if targets.isEmpty then allStages w2 else targets) ∧
        Reach (ownIdx cfg w2.idx) t x) → alookup w2.idx x = some stg → stg.noInputs = false)
    (hrun : cmdRun cfg exec single targets w2 = .ok w3) :
    w3.log = [] ∧ w3.ws = w2.ws ∧ w3.store = w2.store ∧ w3.idx = w2.idx ∧
      ∀ x, didRun w3 x = false := by
  have hi := hist_inv cfg g F hF exec hex h
  obtain ⟨_, _, _, _, _, hrec, _⟩ :=
    commit_package cfg g F hF strat w1 w2 hi.cons hi.pipe hi.files hfiles hcom
  exact second_run_idle cfg exec hex.frame single targets w2 w3 hni
    (fun x stg _ hs => upToDate_of_direct (hrec x stg hs).1) hrun

/-- the two-step instance, spelled out: `run; commit; edit one source; run` -/
theorem run_commit_edit_run (cfg : Cfg κ) (g : Good cfg.ctx) (F : Fun κ) (hF : F.Stable)
    (exec : Exec κ) (hex : ExecIs cfg F exec) (strat : Strat) (w0 w1 w2 w4 : World κ) (ws' : Node κ)
    (hc : Consistent cfg.ctx w0.store) (hok : PipeOK cfg w0.idx) (hfp : FilePipe cfg w0.idx)
    (hno : ∀ x stg, alookup w0.idx x = some stg → stg.sumOk cfg = false)
    (h1 : cmdRun cfg exec false [] w0 = .ok w1) (hfiles : AllFilesAt cfg w1)
    (h2 : cmdCommit cfg strat [] w1 = .ok w2)
    (h4 : cmdRun cfg exec false [] { w2 with ws := ws' } = .ok w4) :
    Fresh cfg F w1 ∧ Fresh cfg F w4 :=
  have hh1 : Hist cfg exec true w1 := .run (.init w0 hc hok hfp hno) h1
  ⟨hence_fresh cfg g F hF exec hex hh1,
    hence_fresh cfg g F hF exec hex (.run (.editWs ws' (.commit strat hh1 hfiles h2)) h4)⟩

omit [DecidableEq κ]

/-! ## every `Fun` has an implementation -/

def apartB (p q : List Name) : Bool := !(p.isPrefixOf q) && !(q.isPrefixOf p)

theorem apartB_iff (p q : List Name) : apartB p q = true ↔ Apart p q := by
  simp only [apartB, Apart, Bool.and_eq_true, Bool.not_eq_true', ← List.isPrefixOf_iff_prefix,
    Bool.not_eq_true]

def apartArtsB : List Art → Bool
  | [] => true
  | a :: r => r.all (fun b => apartB (Path.comps a.path) (Path.comps b.path)) && apartArtsB r

theorem apartArtsB_iff : ∀ l : List Art, apartArtsB l = true ↔ ApartArts l
  | [] => by simp [apartArtsB, ApartArts]
  | a :: r => by
    simp only [apartArtsB, Bool.and_eq_true, List.all_eq_true, apartB_iff, apartArtsB_iff r, ApartArts,
      List.pairwise_cons]

/-- write what `F` yields (`res`) at the output paths, one after the other; fails if an output is
not produced, is not a plain tree, or cannot be written -/
def writeOuts (res : List (Bytes × Node κ)) : List Art → Node κ → Option (Node κ)
  | [], ws => some ws
  | a :: r, ws =>
    match alookup res a.path with
    | none => none
    | some n =>
      if n.plain then
        match setPath ws (Path.comps a.path) n with
        | none => none
        | some ws' => writeOuts res r ws'
      else none

/-- the canonical implementation of `F`: read the inputs (links followed), compute, write the outputs;
the command fails if its outputs overlap -/
def execOf (cfg : Cfg κ) (F : Fun κ) : Exec κ := fun stg w =>
  if apartArtsB stg.outputs then
    match writeOuts (F stg (insOf cfg w stg)) stg.outputs w.ws with
    | some ws' => .ok { w with ws := ws' }
    | none => .error .other
  else .error .other

theorem writeOuts_spec (res : List (Bytes × Node κ)) : ∀ (outs : List Art) (ws ws' : Node κ),
    ApartArts outs → writeOuts res outs ws = some ws' →
    (∀ a, a ∈ outs → ∃ n, alookup res a.path = some n ∧ n.plain = true ∧
      getPath ws' (Path.comps a.path) = some n) ∧
    (∀ q, (∀ a, a ∈ outs → Apart (Path.comps a.path) q) → getPath ws' q = getPath ws q)
  | [], ws, ws', _, h => by
    simp only [writeOuts, Option.some.injEq] at h
    subst h
    exact ⟨by simp, fun _ _ => rfl⟩
  | a :: r, ws, ws', hap, h => by
    have hap' := List.pairwise_cons.1 hap
    simp only [writeOuts] at h
    split at h
    · cases h
    rename_i n hn
    split at h
    · rename_i hpl
      split at h
      · cases h
      rename_i ws1 hs
      obtain ⟨ih1, ih2⟩ := writeOuts_spec res r ws1 ws' hap'.2 h
      refine ⟨?_, ?_⟩
      · intro b hb
        rcases List.mem_cons.1 hb with rfl | hb
        · refine ⟨n, hn, hpl, ?_⟩
          rw [ih2 _ (fun c hc => (hap'.1 c hc).symm)]
          exact WT.getPath_setPath_self _ _ _ _ hs
        · exact ih1 b hb
      · intro q hq
        rw [ih2 q (fun b hb => hq b (List.mem_cons_of_mem _ hb))]
        exact WT.getPath_setPath_apart (hq a List.mem_cons_self) hs
    · cases h

theorem writeOuts_total (res : List (Bytes × Node κ)) : ∀ (outs : List Art) (ws : Node κ),
    ApartArts outs → (∀ a, a ∈ outs → Writable ws (Path.comps a.path)) →
    (∀ a, a ∈ outs → ∃ n, alookup res a.path = some n ∧ n.plain = true) →
    ∃ ws', writeOuts res outs ws = some ws'
  | [], ws, _, _, _ => ⟨ws, rfl⟩
  | a :: r, ws, hap, hw, hres => by
    have hap' := List.pairwise_cons.1 hap
    obtain ⟨n, hn, hpl⟩ := hres a List.mem_cons_self
    obtain ⟨ws1, hs⟩ := hw a List.mem_cons_self n
    obtain ⟨ws', h'⟩ := writeOuts_total res r ws1 hap'.2
      (fun b hb => WT.writable_setPath_apart (hap'.1 b hb) hs (hw b (List.mem_cons_of_mem _ hb)))
      (fun b hb => hres b (List.mem_cons_of_mem _ hb))
    exact ⟨ws', by simp only [writeOuts, hn, hpl, if_true, hs, h']⟩

/-- **Every `Fun` is implemented by some `exec`**: `ExecIs` is satisfiable for every `F`. -/
theorem execOf_is (cfg : Cfg κ) (F : Fun κ) : ExecIs cfg F (execOf cfg F) := by
  have inv : ∀ stg w w', execOf cfg F stg w = .ok w' → ApartArts stg.outputs ∧
      ∃ ws', writeOuts (F stg (insOf cfg w stg)) stg.outputs w.ws = some ws' ∧
        w' = { w with ws := ws' } := by
    intro stg w w' h
    simp only [execOf] at h
    split at h
    · rename_i hap
      split at h
      · rename_i ws' hw
        cases h
        exact ⟨(apartArtsB_iff _).1 hap, ws', hw, rfl⟩
      · cases h
    · cases h
  refine ⟨?_, ?_, ?_, ?_⟩
  · intro stg w w' h
    obtain ⟨_, ws', _, rfl⟩ := inv stg w w' h
    exact ⟨rfl, rfl, rfl, rfl, rfl⟩
  · intro stg w w' h a ha
    obtain ⟨hap, ws', hw, rfl⟩ := inv stg w w' h
    obtain ⟨n, hn, hpl, hg⟩ := (writeOuts_spec _ _ _ _ hap hw).1 a ha
    simp only [logicalAt, hg, Option.map_some, hn, deref_plain _ _ n hpl]
  · intro stg w w' h q hq
    obtain ⟨hap, ws', hw, rfl⟩ := inv stg w w' h
    exact (writeOuts_spec _ _ _ _ hap hw).2 q hq
  · intro stg w hap hwr hres
    obtain ⟨ws', hw⟩ := writeOuts_total _ _ _ hap hwr hres
    exact ⟨{ w with ws := ws' }, by simp only [execOf, (apartArtsB_iff _).2 hap, if_true, hw]⟩

/-! ## non-vacuity: a three-stage diamond

Sources `s` and `t`; stage A: `a := s + 1`; stage B: `b := 2 * (s + t)`; stage C: `c := a + b` (the
diamond `s → A, B → C`). History: `run; commit; edit t; run` — the second run executes B and C and
leaves A alone. -/

namespace Pipe

/-- file contents of the example: a number, or a typed manifest (never used: only files) -/
inductive KK where
  | raw (n : Nat)
  | man (sch : Schema) (p : Bytes) (cs : List Child)
deriving DecidableEq, Repr, Inhabited

/-- an injective toy hash that the kernel evaluates quickly on numbers: `n ↦ "aaa" ++ "a"^n` -/
def hashK : KK → Digest
  | .raw n => String.ofList (List.replicate (n + 3) 'a')
  | .man sch p cs => Example.ctx.H (.man sch p cs)

def ctx : Ctx KK where
  H := hashK
  encMan := KK.man
  decBlob := fun k => match k with
    | .man _ _ cs => some cs
    | .raw _ => none
  reload := fun _ c => c
  nameOK := fun _ => true

theorem good : Good ctx where
  inj := by
    intro a b h
    cases a with
    | raw n =>
      cases b with
      | raw m =>
        have h' := congrArg List.length (String.ofList_injective h)
        simp only [List.length_replicate] at h'
        have : n = m := by omega
        rw [this]
      | man sch p cs =>
        have h' := String.ofList_injective h
        simp [List.replicate_succ] at h'
    | man sch p cs =>
      cases b with
      | raw m =>
        have h' := String.ofList_injective h
        simp [List.replicate_succ] at h'
      | man sch' p' cs' =>
        have := Example.good.inj _ _ h
        cases this
        rfl
  len := by
    intro a
    cases a with
    | raw n =>
      show 3 ≤ (String.ofList (List.replicate (n + 3) 'a')).length
      rw [String.length_ofList, List.length_replicate]
      omega
    | man sch p cs => exact Example.good.len _
  dec := by
    intro sch p cs
    simp [ctx]

/-- the example hashes every stage definition to the same value (the kernel cannot evaluate
`GoJson.str`); definitions never change in the example, so this is immaterial -/
def cfg : Cfg KK :=
  { ctx := ctx, ofBytes := fun _ => .raw 0, toBytes := fun _ => [], walkAccumulates := true, fuel := 8 }

/-- the number in a file (0 if there is none) -/
def val : Option (Node KK) → Nat
  | some (.file (.raw n)) => n
  | _ => 0

/-- A tiny command language: the command line is `op out in₁ in₂ …` (one byte each, the paths are
one-letter file names); the command writes to `out` the sum of the numbers in the inputs it names —
plus one for `i`, doubled for `d`. -/
def toyF : Fun KK := fun stg ins =>
  match stg.cmd with
  | op :: out :: args =>
    let s := (args.map fun p => val (alookup ins [p])).sum
    [([out], .file (.raw (if op = 105 then s + 1 else if op = 100 then 2 * s else s)))]
  | _ => []

theorem toyF_stable : Fun.Stable toyF := by
  intro stg stg' ins ins' hc _ hi p
  have : (fun p : UInt8 => val (alookup ins [p])) = (fun p => val (alookup ins' [p])) :=
    funext fun p => by rw [hi]
  simp only [toyF, ← hc, this]

def exec : Exec KK := execOf cfg toyF

theorem exec_is : ExecIs cfg toyF exec := execOf_is cfg toyF

def pS : Bytes := [115]
def pT : Bytes := [116]
def pA : Bytes := [97]
def pB : Bytes := [98]
def pC : Bytes := [99]

/-- A: `a := s + 1` -/
def stA : Stage := { cmd := [105, 97, 115], inputs := [{ path := pS }], outputs := [{ path := pA }] }
/-- B: `b := 2 * (s + t)` -/
def stB : Stage :=
  { cmd := [100, 98, 115, 116], inputs := [{ path := pS }, { path := pT }], outputs := [{ path := pB }] }
/-- C: `c := a + b` -/
def stC : Stage :=
  { cmd := [112, 99, 97, 98], inputs := [{ path := pA }, { path := pB }], outputs := [{ path := pC }] }

def idx0 : Index := [([65], stA), ([66], stB), ([67], stC)]

/-- a fresh project: the sources `s = 3` and `t = 1`, nothing generated, nothing committed -/
def w0 : World KK := { ws := .dir [(pS, .file (.raw 3)), (pT, .file (.raw 1))], idx := idx0 }

/-- after the first run: `a = 4`, `b = 8`, `c = 12` -/
def w1 : World KK :=
  { ws := .dir [(pS, .file (.raw 3)), (pT, .file (.raw 1)), (pA, .file (.raw 4)), (pB, .file (.raw 8)),
      (pC, .file (.raw 12))]
    idx := idx0
    ran := [([67], true), ([66], true), ([65], true)]
    log := [[65], [66], [67]] }

theorem run1 : cmdRun cfg exec false [] w0 = .ok w1 := by rfl

def stA2 : Stage :=
  { sum := "aaa", cmd := [105, 97, 115], inputs := [{ path := pS, sum := "aaaaaa", skip := true }],
    outputs := [{ path := pA, sum := "aaaaaaa" }] }
def stB2 : Stage :=
  { sum := "aaa", cmd := [100, 98, 115, 116],
    inputs := [{ path := pS, sum := "aaaaaa", skip := true }, { path := pT, sum := "aaaa", skip := true }],
    outputs := [{ path := pB, sum := "aaaaaaaaaaa" }] }
def stC2 : Stage :=
  { sum := "aaa", cmd := [112, 99, 97, 98],
    inputs := [{ path := pA, sum := "aaaaaaa" }, { path := pB, sum := "aaaaaaaaaaa" }],
    outputs := [{ path := pC, sum := "aaaaaaaaaaaaaaa" }] }

/-- after `dud commit` (links): the outputs are links into the cache, every checksum is recorded -/
def w2 : World KK :=
  { ws := .dir [(pS, .file (.raw 3)), (pT, .file (.raw 1)), (pA, .link (.obj "aaaaaaa")),
      (pB, .link (.obj "aaaaaaaaaaa")), (pC, .link (.obj "aaaaaaaaaaaaaaa"))]
    store := [("aaaaaaaaaaaaaaa", .blob (.raw 12)), ("aaaaaaaaaaa", .blob (.raw 8)),
      ("aaaaaaa", .blob (.raw 4))]
    idx := [([65], stA2), ([66], stB2), ([67], stC2)]
    done := [[67], [66], [65]] }

theorem commit1 : cmdCommit cfg .link [] w1 = .ok w2 := by rfl

/-- the source `t` is edited: `t = 2` -/
def ws3 : Node KK :=
  .dir [(pS, .file (.raw 3)), (pT, .file (.raw 2)), (pA, .link (.obj "aaaaaaa")),
    (pB, .link (.obj "aaaaaaaaaaa")), (pC, .link (.obj "aaaaaaaaaaaaaaa"))]

/-- after the second run: A did not run (`a` is still the link to `4`), `b = 10`, `c = 14` -/
def w4 : World KK :=
  { w2 with
    ws := .dir [(pS, .file (.raw 3)), (pT, .file (.raw 2)), (pA, .link (.obj "aaaaaaa")),
      (pB, .file (.raw 10)), (pC, .file (.raw 14))]
    done := []
    ran := [([67], true), ([66], true), ([65], false)]
    log := [[66], [67]] }

theorem run2 : cmdRun cfg exec false [] { w2 with ws := ws3 } = .ok w4 := by rfl

/-- a run straight after `run; commit`: nothing happens -/
theorem run_idle : (cmdRun cfg exec false [] w2).map (fun w => (w.log, w.ran, w.ws)) =
    .ok ([], [([67], false), ([66], false), ([65], false)], w2.ws) := by rfl

/-! ### the hypotheses hold -/

theorem idx0_cases {sp : Bytes} {stg : Stage} (h : alookup idx0 sp = some stg) :
    (sp = [65] ∧ stg = stA) ∨ (sp = [66] ∧ stg = stB) ∨ (sp = [67] ∧ stg = stC) := by
  simp only [idx0, alookup] at h
  split at h
  · rename_i h1; cases h; exact .inl ⟨(by simpa using h1 : [65] = sp).symm, rfl⟩
  · split at h
    · rename_i h1; cases h; exact .inr (.inl ⟨(by simpa using h1 : [66] = sp).symm, rfl⟩)
    · split at h
      · rename_i h1; cases h; exact .inr (.inr ⟨(by simpa using h1 : [67] = sp).symm, rfl⟩)
      · cases h

theorem ownS : findOwner cfg.walkAccumulates idx0 pS = none := by rfl
theorem ownT : findOwner cfg.walkAccumulates idx0 pT = none := by rfl
theorem ownA : findOwner cfg.walkAccumulates idx0 pA = some ([65], { path := pA }) := by rfl
theorem ownB : findOwner cfg.walkAccumulates idx0 pB = some ([66], { path := pB }) := by rfl

theorem apart_of {p q : List Name} (h : apartB p q = true) : Apart p q := (apartB_iff p q).1 h

theorem pipeOK0 : PipeOK cfg idx0 where
  keys := by decide
  apart_in := by
    intro sp stg hs
    rcases idx0_cases hs with ⟨_, rfl⟩ | ⟨_, rfl⟩ | ⟨_, rfl⟩ <;> exact List.pairwise_singleton _ _
  apart_across := by
    intro sp1 sp2 stg1 stg2 hne h1 h2 a ha b hb
    rcases idx0_cases h1 with ⟨rfl, rfl⟩ | ⟨rfl, rfl⟩ | ⟨rfl, rfl⟩ <;>
      rcases idx0_cases h2 with ⟨rfl, rfl⟩ | ⟨rfl, rfl⟩ | ⟨rfl, rfl⟩ <;>
      first
        | exact absurd rfl hne
        | (simp only [stA, stB, stC, List.mem_singleton] at ha hb
           subst ha; subst hb
           exact apart_of (by rfl))
  plain_apart := by
    intro sp stg hs a ha hn sp' stg' hs' b hb
    rcases idx0_cases hs with ⟨rfl, rfl⟩ | ⟨rfl, rfl⟩ | ⟨rfl, rfl⟩
    · simp only [stA, List.mem_singleton] at ha
      subst ha
      rcases idx0_cases hs' with ⟨rfl, rfl⟩ | ⟨rfl, rfl⟩ | ⟨rfl, rfl⟩ <;>
        (simp only [stA, stB, stC, List.mem_singleton] at hb; subst hb; exact apart_of (by rfl))
    · simp only [stB, List.mem_cons, List.not_mem_nil, or_false] at ha
      rcases ha with rfl | rfl <;>
        rcases idx0_cases hs' with ⟨rfl, rfl⟩ | ⟨rfl, rfl⟩ | ⟨rfl, rfl⟩ <;>
        (simp only [stA, stB, stC, List.mem_singleton] at hb; subst hb; exact apart_of (by rfl))
    · simp only [stC, List.mem_cons, List.not_mem_nil, or_false] at ha
      rcases ha with rfl | rfl
      · rw [show findOwner cfg.walkAccumulates idx0 pA = _ from ownA] at hn; cases hn
      · rw [show findOwner cfg.walkAccumulates idx0 pB = _ from ownB] at hn; cases hn
  owner_contains := by
    intro sp stg hs a ha o oa ho
    rcases idx0_cases hs with ⟨rfl, rfl⟩ | ⟨rfl, rfl⟩ | ⟨rfl, rfl⟩
    · simp only [stA, List.mem_singleton] at ha
      subst ha
      rw [show findOwner cfg.walkAccumulates idx0 pS = _ from ownS] at ho; cases ho
    · simp only [stB, List.mem_cons, List.not_mem_nil, or_false] at ha
      rcases ha with rfl | rfl
      · rw [show findOwner cfg.walkAccumulates idx0 pS = _ from ownS] at ho; cases ho
      · rw [show findOwner cfg.walkAccumulates idx0 pT = _ from ownT] at ho; cases ho
    · simp only [stC, List.mem_cons, List.not_mem_nil, or_false] at ha
      rcases ha with rfl | rfl
      · rw [show findOwner cfg.walkAccumulates idx0 pA = _ from ownA] at ho
        cases ho
        exact List.prefix_refl _
      · rw [show findOwner cfg.walkAccumulates idx0 pB = _ from ownB] at ho
        cases ho
        exact List.prefix_refl _

theorem filePipe0 : FilePipe cfg idx0 where
  ins_nodup := by
    intro sp stg hs
    rcases idx0_cases hs with ⟨_, rfl⟩ | ⟨_, rfl⟩ | ⟨_, rfl⟩ <;> simp [stA, stB, stC, pA, pB, pS, pT]
  ins_files := by
    intro sp stg hs a ha
    rcases idx0_cases hs with ⟨_, rfl⟩ | ⟨_, rfl⟩ | ⟨_, rfl⟩ <;>
      (simp only [stA, stB, stC, List.mem_cons, List.not_mem_nil, or_false] at ha
       rcases ha with rfl | rfl <;> rfl)
  outs_files := by
    intro sp stg hs a ha
    rcases idx0_cases hs with ⟨_, rfl⟩ | ⟨_, rfl⟩ | ⟨_, rfl⟩ <;>
      (simp only [stA, stB, stC, List.mem_singleton] at ha; subst ha; rfl)
  owner_same := by
    intro sp stg hs a ha o oa ho
    rcases idx0_cases hs with ⟨rfl, rfl⟩ | ⟨rfl, rfl⟩ | ⟨rfl, rfl⟩
    · simp only [stA, List.mem_singleton] at ha
      subst ha
      rw [show findOwner cfg.walkAccumulates idx0 pS = _ from ownS] at ho; cases ho
    · simp only [stB, List.mem_cons, List.not_mem_nil, or_false] at ha
      rcases ha with rfl | rfl
      · rw [show findOwner cfg.walkAccumulates idx0 pS = _ from ownS] at ho; cases ho
      · rw [show findOwner cfg.walkAccumulates idx0 pT = _ from ownT] at ho; cases ho
    · simp only [stC, List.mem_cons, List.not_mem_nil, or_false] at ha
      rcases ha with rfl | rfl
      · rw [show findOwner cfg.walkAccumulates idx0 pA = _ from ownA] at ho
        cases ho; rfl
      · rw [show findOwner cfg.walkAccumulates idx0 pB = _ from ownB] at ho
        cases ho; rfl

theorem nothing_committed : ∀ x stg, alookup w0.idx x = some stg → stg.sumOk cfg = false := by
  intro x stg hs
  rcases idx0_cases hs with ⟨_, rfl⟩ | ⟨_, rfl⟩ | ⟨_, rfl⟩ <;> rfl

theorem allFiles1 : AllFilesAt cfg w1 := by
  intro sp stg hs
  rcases idx0_cases hs with ⟨rfl, rfl⟩ | ⟨rfl, rfl⟩ | ⟨rfl, rfl⟩
  · refine ⟨fun b hb => ?_, fun a ha _ => ?_⟩
    · simp only [stA, List.mem_singleton] at hb; subst hb; exact ⟨.raw 4, rfl⟩
    · simp only [stA, List.mem_singleton] at ha; subst ha; exact ⟨.raw 3, rfl⟩
  · refine ⟨fun b hb => ?_, fun a ha _ => ?_⟩
    · simp only [stB, List.mem_singleton] at hb; subst hb; exact ⟨.raw 8, rfl⟩
    · simp only [stB, List.mem_cons, List.not_mem_nil, or_false] at ha
      rcases ha with rfl | rfl
      · exact ⟨.raw 3, rfl⟩
      · exact ⟨.raw 1, rfl⟩
  · refine ⟨fun b hb => ?_, fun a ha hn => ?_⟩
    · simp only [stC, List.mem_singleton] at hb; subst hb; exact ⟨.raw 12, rfl⟩
    · simp only [stC, List.mem_cons, List.not_mem_nil, or_false] at ha
      rcases ha with rfl | rfl
      · rw [show findOwner cfg.walkAccumulates w1.idx pA = _ from ownA] at hn; cases hn
      · rw [show findOwner cfg.walkAccumulates w1.idx pB = _ from ownB] at hn; cases hn

/-! ### the theorems instantiated -/

theorem hist1 : Hist cfg exec true w1 :=
  .run (.init w0 (by intro d o h; simp [w0, Store.get, alookup] at h) pipeOK0 filePipe0
    nothing_committed) run1

/-- the history `run; commit; edit the source `t`; run` -/
theorem hist4 : Hist cfg exec true w4 :=
  .run (.editWs ws3 (.commit .link hist1 allFiles1 commit1)) run2

/-- **`hence_fresh` instantiated**: after the second run every output is what its command yields
from the current inputs … -/
theorem fresh4 : Fresh cfg toyF w4 := hence_fresh cfg good toyF toyF_stable exec exec_is hist4

/-- … e.g. `c` is what `p c a b` yields from the old `a` (stage A did NOT run: nothing it reads has
changed, and `a`, a link into the cache, is still `3 + 1`) and the regenerated `b = 2 * (3 + 2)`,
namely `14` -/
example : logicalAt cfg w4 pC = alookup (toyF stC2 (insOf cfg w4 stC2)) pC ∧
    logicalAt cfg w4 pC = some (.file (.raw 14)) ∧
    insOf cfg w4 stC2 = [(pA, .file (.raw 4)), (pB, .file (.raw 10))] ∧
    didRun w4 [65] = false ∧ w4.log = [[66], [67]] ∧
    logicalAt cfg w4 pA = alookup (toyF stA2 (insOf cfg w4 stA2)) pA :=
  ⟨fresh4 [67] stC2 rfl rfl { path := pC, sum := "aaaaaaaaaaaaaaa" } (by simp [stC2]), rfl, rfl, rfl,
    rfl, fresh4 [65] stA2 rfl rfl { path := pA, sum := "aaaaaaa" } (by simp [stA2])⟩

/-- **`hence_second_run_idle` instantiated** (every stage of the diamond has inputs) -/
theorem idle2 (w3 : World KK) (h : cmdRun cfg exec false [] w2 = .ok w3) :
    w3.log = [] ∧ w3.ws = w2.ws ∧ w3.store = w2.store ∧ w3.idx = w2.idx ∧ ∀ x, didRun w3 x = false := by
  refine hence_second_run_idle cfg good toyF toyF_stable exec exec_is .link hist1 allFiles1 commit1
    false [] ?_ h
  intro x stg _ hs
  simp only [w2, alookup] at hs
  split at hs
  · cases hs; rfl
  · split at hs
    · cases hs; rfl
    · split at hs
      · cases hs; rfl
      · cases hs

/-- **(b) instantiated**: after the commit every stage is `Recorded` -/
example : ∀ x stg, alookup w1.idx x = some stg → Recorded cfg w2 x :=
  (commit_preserves_fresh cfg good toyF toyF_stable .link w1 w2
    (by intro d o h; simp [w1, Store.get, alookup] at h) pipeOK0 filePipe0 allFiles1 commit1
    (hence_fresh cfg good toyF toyF_stable exec exec_is hist1)).2.1

/-! ### the proviso "commits are made only after successful runs" cannot be dropped -/

def getW (x : Except Err (World KK)) : World KK :=
  match x with
  | .ok w => w
  | .error _ => default

/-- `run; commit; edit the source `t`; COMMIT; run`: the second commit records the edited source next
to the outputs made from the old one, the run finds everything up to date and executes nothing, and
`b` is still `8`, not `2 * (3 + 2)`. -/
theorem commit_after_edit_is_stale :
    ∃ w3 w5, cmdCommit cfg .link [] { w2 with ws := ws3 } = .ok w3 ∧
      cmdRun cfg exec false [] w3 = .ok w5 ∧ w5.log = [] ∧
      logicalAt cfg w5 pB = some (.file (.raw 8)) ∧
      alookup (toyF stB2 (insOf cfg w5 stB2)) pB = some (.file (.raw 10)) := by
  refine ⟨getW (cmdCommit cfg .link [] { w2 with ws := ws3 }),
    getW (cmdRun cfg exec false [] (getW (cmdCommit cfg .link [] { w2 with ws := ws3 }))), ?_⟩
  refine ⟨by rfl, by rfl, by rfl, by rfl, by rfl⟩

end Pipe


/-! ## axioms -/

#print axioms execIs_implies_frame
#print axioms run_fresh_core
#print axioms run_establishes_fresh
#print axioms commit_preserves_fresh
#print axioms hist_inv
#print axioms hence_fresh
#print axioms hence_second_run_idle
#print axioms run_commit_edit_run
#print axioms execOf_is
#print axioms Pipe.good
#print axioms Pipe.toyF_stable
#print axioms Pipe.run1
#print axioms Pipe.commit1
#print axioms Pipe.run2
#print axioms Pipe.run_idle
#print axioms Pipe.pipeOK0
#print axioms Pipe.filePipe0
#print axioms Pipe.allFiles1
#print axioms Pipe.hist4
#print axioms Pipe.fresh4
#print axioms Pipe.idle2
#print axioms Pipe.commit_after_edit_is_stale

end Dud
