import DudModel.Spec
import DudModel.Lemmas.Tree
import DudModel.Lemmas.Holds
import DudModel.Lemmas.Compat
import DudModel.Lemmas.Idem
import DudModel.Lemmas.Codec
import DudModel.Props.C01
import DudModel.Props.C16
/-!
# C15 — idempotence of commit and checkout

* `commit_idem`: committing the workspace a commit left, with the child artifact it recorded,
  records the same artifact again and adds nothing to the store.
* `checkout_idem_link`, `checkout_after_commit_noop`: link checkout is repeatable.
* `checkout_idem`, `checkout_idem_copy`: so is every other strategy pair (an up-to-date copy is
  left alone); `checkout_over_different_file_fails`: other bytes are still refused.
* `commit_checkout_sequence_partial`: any sequence of commits and checkouts.
* `commit_after_checkout`: commit of a checked-out workspace records the same artifact.
-/
namespace Dud

variable {κ : Type}

/-- the workspace after committing (strategy `strat2`) the workspace `wsAfter ctx strat1 t`:
links stay links, regular files follow `strat2` -/
def wsAfter2 (ctx : Ctx κ) (strat1 strat2 : Strat) (t : Node κ) : Node κ :=
  match strat1 with
  | .link => linked ctx t
  | .copy => wsAfter ctx strat2 t

theorem wsAfter2_link (ctx : Ctx κ) (strat2 : Strat) (t : Node κ) :
    wsAfter2 ctx .link strat2 t = wsAfter ctx .link t := rfl
theorem wsAfter2_copy_copy (ctx : Ctx κ) (t : Node κ) :
    wsAfter2 ctx .copy .copy t = wsAfter ctx .copy t := rfl
theorem wsAfter2_copy_link (ctx : Ctx κ) (t : Node κ) :
    wsAfter2 ctx .copy .link t = linked ctx t := rfl

/-- **Commit in a store that already holds the tree**, of either workspace form (`strat1`), with
either strategy (`strat2`): records the same artifact, the store gains nothing (up to bytes). -/
theorem commit_idem_holding (ctx : Ctx κ) (g : Good ctx) (t : Node κ) (nm : Bytes)
    (hp : t.plain = true) (hs : t.sorted = true) (hn : NamesOK ctx t)
    (s : Store κ) (hc : Consistent ctx s) (hh : HoldsNode ctx s newChoice nm t)
    (strat1 strat2 : Strat) :
    ∃ s', commitNode ctx strat2 (wsAfter ctx strat1 t) ⟨nm, treeDigest ctx nm t, t.isDir⟩ s =
        .ok (wsAfter2 ctx strat1 strat2 t, ⟨nm, treeDigest ctx nm t, t.isDir⟩, s') ∧
      Consistent ctx s' ∧ Store.le ctx s s' ∧ Store.le ctx s' s ∧
      HoldsNode ctx s' newChoice nm t ∧ deref ctx s' (wsAfter2 ctx strat1 strat2 t) = t := by
  cases strat1 with
  | link =>
    obtain ⟨s', h, hc', hle, hh', hback⟩ :=
      commitNode_linked g t hp hs hn newChoice nm s strat2 hh hc
    rw [digestAs_new] at h
    exact ⟨s', h, hc', hle, hback hh, hh', deref_linked t _ nm hp hh'⟩
  | copy =>
    have hk : CompatNode ctx s t (treeDigest ctx nm t) := by
      have := compatNode_of_holds g t newChoice nm hs hn hh
      rwa [digestAs_new] at this
    obtain ⟨s', h, hc', hle, hh', hback, _⟩ := recommitNode_post g t hp hn
      ⟨nm, treeDigest ctx nm t, t.isDir⟩ s strat2 rfl hk hc
    exact ⟨s', h, hc', hle, hback hh, hh', deref_wsAfter hp hh' strat2⟩

/-- **C15 (a).** Commit twice.  The second commit (any strategy) of the workspace and child the
first (fresh) commit produced returns the same child; the store is unchanged up to bytes; the
workspace is unchanged if the first commit linked, or both copied; after copy-then-link it is the
all-links version (same logical content). -/
theorem commit_idem (ctx : Ctx κ) (g : Good ctx) (t : Node κ) (nm : Bytes)
    (hp : t.plain = true) (hs : t.sorted = true) (hn : NamesOK ctx t)
    (s : Store κ) (hc : Consistent ctx s) (strat strat2 : Strat) :
    ∃ t' c' s', commitNode ctx strat t ⟨nm, "", t.isDir⟩ s = .ok (t', c', s') ∧
      ∃ t'' s'', commitNode ctx strat2 t' c' s' = .ok (t'', c', s'') ∧
        deref ctx s'' t'' = t ∧ Consistent ctx s'' ∧ Store.le ctx s' s'' ∧ Store.le ctx s'' s' ∧
        (strat = .link → t'' = t') ∧ (strat = .copy → strat2 = .copy → t'' = t') ∧
        (strat = .copy → strat2 = .link → t'' = linked ctx t) := by
  obtain ⟨s', h, hc', _, hh, _⟩ := recommitNode_post g t hp hn ⟨nm, "", t.isDir⟩ s strat rfl
    (compatNode_empty ctx s t) hc
  obtain ⟨s'', h2, hc'', hle, hback, _, hd⟩ :=
    commit_idem_holding ctx g t nm hp hs hn s' hc' hh strat strat2
  refine ⟨_, _, s', h, _, s'', h2, hd, hc'', hle, hback, ?_, ?_, ?_⟩
  · rintro rfl; rfl
  · rintro rfl rfl; rfl
  · rintro rfl rfl; rfl

/-- **C15 (b).** Link checkout of a committed artifact is repeatable: what it produced from an
absent workspace it leaves alone the second time. -/
theorem checkout_idem_link (ctx : Ctx κ) (g : Good ctx) (t : Node κ) (nm : Bytes)
    (hp : t.plain = true) (hs : t.sorted = true) (hn : NamesOK ctx t)
    (s : Store κ) (ch : Choice) (hh : HoldsNode ctx s ch nm t) (fuel : Nat) (hf : depth t ≤ fuel)
    {r : Node κ}
    (h : checkoutNode ctx .link s fuel none ⟨nm, digestAs ctx ch nm t, t.isDir⟩ = .ok r) :
    checkoutNode ctx .link s fuel (some r) ⟨nm, digestAs ctx ch nm t, t.isDir⟩ = .ok r := by
  rw [checkoutNode_holds g s .link t ch nm fuel hp hs hn hh hf] at h
  cases h
  exact checkoutNode_linked g s t ch nm fuel hp hs hn hh hf

/-- Link checkout right after a link commit (from any later store) is a no-op on the workspace
the commit left. -/
theorem checkout_after_commit_noop (ctx : Ctx κ) (g : Good ctx) (t : Node κ) (nm : Bytes)
    (hp : t.plain = true) (hs : t.sorted = true) (hn : NamesOK ctx t)
    (s : Store κ) (hc : Consistent ctx s) :
    ∃ t' c' s', commitNode ctx .link t ⟨nm, "", t.isDir⟩ s = .ok (t', c', s') ∧
      ∀ s'', Store.le ctx s' s'' → ∀ fuel, depth t ≤ fuel →
        checkoutNode ctx .link s'' fuel (some t') c' = .ok t' := by
  obtain ⟨s', h, _, _, hh, _⟩ := recommitNode_post g t hp hn ⟨nm, "", t.isDir⟩ s .link rfl
    (compatNode_empty ctx s t) hc
  refine ⟨_, _, s', h, ?_⟩
  intro s'' hle fuel hf
  have := checkoutNode_linked g s'' t newChoice nm fuel hp hs hn (HoldsNode.mono hle t _ nm hh) hf
  rwa [digestAs_new] at this

/-! ## (c) checkout over a workspace that is already there -/

/-- **Checkout twice, all four strategy pairs.**  In a store holding the tree, checkout with
`strat2` over what a `strat1` checkout (or commit) left succeeds and returns
`wsAfter ctx (coStrat strat1 strat2) t`: regular copies are up to date and are left alone by both
strategies; exact links are kept by a link checkout and replaced by copies by a copy checkout. -/
theorem checkout_idem (ctx : Ctx κ) (g : Good ctx) (t : Node κ) (nm : Bytes)
    (hp : t.plain = true) (hs : t.sorted = true) (hn : NamesOK ctx t)
    (s : Store κ) (ch : Choice) (hh : HoldsNode ctx s ch nm t) (fuel : Nat) (hf : depth t ≤ fuel)
    (strat1 strat2 : Strat) :
    ∃ r, checkoutNode ctx strat1 s fuel none ⟨nm, digestAs ctx ch nm t, t.isDir⟩ = .ok r ∧
      r = wsAfter ctx strat1 t ∧
      checkoutNode ctx strat2 s fuel (some r) ⟨nm, digestAs ctx ch nm t, t.isDir⟩
        = .ok (wsAfter ctx (coStrat strat1 strat2) t) ∧
      deref ctx s (wsAfter ctx (coStrat strat1 strat2) t) = t :=
  ⟨_, checkoutNode_holds g s strat1 t ch nm fuel hp hs hn hh hf, rfl,
    checkoutNode_over g s strat1 strat2 t ch nm fuel hp hs hn hh hf, deref_wsAfter hp hh _⟩

theorem coStrat_copy (strat2 : Strat) : coStrat .copy strat2 = .copy := rfl
theorem coStrat_link (strat2 : Strat) : coStrat .link strat2 = strat2 := rfl
theorem coStrat_self (strat : Strat) : coStrat strat strat = strat := by cases strat <;> rfl

/-- **C15 (c), positive.**  What a copy checkout produced is left alone by a second checkout with
either strategy. -/
theorem checkout_idem_copy (ctx : Ctx κ) (g : Good ctx) (t : Node κ) (nm : Bytes)
    (hp : t.plain = true) (hs : t.sorted = true) (hn : NamesOK ctx t)
    (s : Store κ) (ch : Choice) (hh : HoldsNode ctx s ch nm t) (fuel : Nat) (hf : depth t ≤ fuel)
    (strat2 : Strat) {r : Node κ}
    (h : checkoutNode ctx .copy s fuel none ⟨nm, digestAs ctx ch nm t, t.isDir⟩ = .ok r) :
    checkoutNode ctx strat2 s fuel (some r) ⟨nm, digestAs ctx ch nm t, t.isDir⟩ = .ok r := by
  rw [checkoutNode_holds g s .copy t ch nm fuel hp hs hn hh hf] at h
  cases h
  exact checkoutNode_over g s .copy strat2 t ch nm fuel hp hs hn hh hf

/-- Every checkout is repeatable with the same strategy. -/
theorem checkout_idem_same (ctx : Ctx κ) (g : Good ctx) (t : Node κ) (nm : Bytes)
    (hp : t.plain = true) (hs : t.sorted = true) (hn : NamesOK ctx t)
    (s : Store κ) (ch : Choice) (hh : HoldsNode ctx s ch nm t) (fuel : Nat) (hf : depth t ≤ fuel)
    (strat : Strat) {r : Node κ}
    (h : checkoutNode ctx strat s fuel none ⟨nm, digestAs ctx ch nm t, t.isDir⟩ = .ok r) :
    checkoutNode ctx strat s fuel (some r) ⟨nm, digestAs ctx ch nm t, t.isDir⟩ = .ok r := by
  rw [checkoutNode_holds g s strat t ch nm fuel hp hs hn hh hf] at h
  cases h
  have := checkoutNode_over g s strat strat t ch nm fuel hp hs hn hh hf
  rwa [coStrat_self] at this

/-- **Negative witness: what is still refused.**  A regular file with *other* bytes is in the way
of a checkout, with either strategy. -/
theorem checkout_over_different_file_fails (ctx : Ctx κ) (g : Good ctx) (s : Store κ) (x y : κ)
    (hxy : y ≠ x) (nm : Bytes) {o : Obj κ} (ho : s.get (ctx.H x) = some o) (strat : Strat)
    (fuel : Nat) :
    checkoutNode ctx strat s (fuel + 1) (some (.file y)) ⟨nm, ctx.H x, false⟩ = .error .exists_ := by
  have hne : ctx.H y ≠ ctx.H x := fun h => hxy (g.inj _ _ h)
  cases strat <;>
    simp [checkoutNode, checkoutFile, upToDateCopy, quick, hasSum_H g, Store.has_of_get ho, ho, hne]

/-- The same one level up: a directory whose first entry is a regular file with other bytes. -/
theorem checkout_over_different_file_dir_fails (ctx : Ctx κ) (g : Good ctx) (s : Store κ)
    (ch : Choice) (nm : Bytes) (x : Name) (y y' : κ) (hy : y' ≠ y) (r r' : List (Name × Node κ))
    (hs : sortedList ((x, .file y) :: r) = true) (hn : NamesOKList ctx ((x, .file y) :: r))
    (hh : HoldsNode ctx s ch nm (.dir ((x, .file y) :: r))) (strat : Strat) (fuel : Nat) :
    checkoutNode ctx strat s (fuel + 2) (some (.dir ((x, .file y') :: r')))
      ⟨nm, digestAs ctx ch nm (.dir ((x, .file y) :: r)), true⟩ = .error .exists_ := by
  obtain ⟨hhas, hread⟩ := readManifest_holds g hs hn hh
  have hsum := hasSum_digestAs_dir g ch nm ((x, .file y) :: r)
  simp only [HoldsNode, HoldsList] at hh
  obtain ⟨o, ho, _⟩ := hh.2.1
  have h1 := checkout_over_different_file_fails ctx g s y y' hy x ho strat fuel
  generalize digestAs ctx ch nm (.dir ((x, .file y) :: r)) = d at hhas hread hsum ⊢
  have hstep : checkoutChildren (checkoutNode ctx strat s (fuel + 1)) ((x, Node.file y') :: r')
      (childrenAs ctx ch ((x, .file y) :: r)) = .error .exists_ := by
    simp only [childrenAs, checkoutChildren, alookup, beq_self_eq_true, if_true, digestAs,
      Node.isDir, h1]
  rw [checkoutNode]
  simp only [if_true, hsum, hhas, hread, hstep, Bool.not_true, Bool.false_eq_true, if_false]

/-! ## (d) commit after checkout -/

/-- **C15 (d).** Check an artifact out (either strategy) into an absent workspace, from a
consistent store holding it, and commit the result (either strategy): the same child artifact is
recorded, the logical content is unchanged, the store gains nothing. -/
theorem commit_after_checkout (ctx : Ctx κ) (g : Good ctx) (t : Node κ) (nm : Bytes)
    (hp : t.plain = true) (hs : t.sorted = true) (hn : NamesOK ctx t)
    (s : Store κ) (hc : Consistent ctx s) (hh : HoldsNode ctx s newChoice nm t)
    (fuel : Nat) (hf : depth t ≤ fuel) (strat1 strat2 : Strat) :
    ∃ w, checkoutNode ctx strat1 s fuel none ⟨nm, treeDigest ctx nm t, t.isDir⟩ = .ok w ∧
      ∃ w' s', commitNode ctx strat2 w ⟨nm, treeDigest ctx nm t, t.isDir⟩ s =
          .ok (w', ⟨nm, treeDigest ctx nm t, t.isDir⟩, s') ∧
        deref ctx s' w' = t ∧ Consistent ctx s' ∧ Store.le ctx s s' ∧ Store.le ctx s' s := by
  have hco := checkoutNode_holds g s strat1 t newChoice nm fuel hp hs hn hh hf
  rw [digestAs_new] at hco
  obtain ⟨s', h, hc', hle, hback, _, hd⟩ :=
    commit_idem_holding ctx g t nm hp hs hn s hc hh strat1 strat2
  exact ⟨_, hco, _, s', h, hd, hc', hle, hback⟩

/-- the full cycle from a fresh commit: commit, checkout elsewhere, commit again -/
theorem commit_checkout_commit (ctx : Ctx κ) (g : Good ctx) (t : Node κ) (nm : Bytes)
    (hp : t.plain = true) (hs : t.sorted = true) (hn : NamesOK ctx t)
    (s : Store κ) (hc : Consistent ctx s) (strat strat1 strat2 : Strat) :
    ∃ t' c' s', commitNode ctx strat t ⟨nm, "", t.isDir⟩ s = .ok (t', c', s') ∧
      ∃ w, checkoutNode ctx strat1 s' (depth t) none c' = .ok w ∧
        ∃ w' s'', commitNode ctx strat2 w c' s' = .ok (w', c', s'') ∧
          deref ctx s'' w' = t ∧ Store.le ctx s'' s' := by
  obtain ⟨s', h, hc', _, hh, _⟩ := recommitNode_post g t hp hn ⟨nm, "", t.isDir⟩ s strat rfl
    (compatNode_empty ctx s t) hc
  obtain ⟨w, hw, w', s'', h2, hd, _, _, hback⟩ := commit_after_checkout ctx g t nm hp hs hn s' hc'
    hh (depth t) (Nat.le_refl _) strat1 strat2
  exact ⟨_, _, s', h, w, hw, w', s'', h2, hd, hback⟩

/-! ## any sequence of commits and checkouts -/

/-- the four commands (on the workspace entry and the recorded child artifact) -/
inductive Cmd where
  | commit (strat : Strat)
  | checkout (strat : Strat)
deriving DecidableEq, Repr

/-- one command on (workspace node, recorded child, cache) -/
def runCmd (ctx : Ctx κ) (fuel : Nat) : Cmd → Node κ × Child × Store κ →
    Except Err (Node κ × Child × Store κ)
  | .commit strat, (w, c, s) => commitNode ctx strat w c s
  | .checkout strat, (w, c, s) =>
    match checkoutNode ctx strat s fuel (some w) c with
    | .error e => .error e
    | .ok r => .ok (r, c, s)

def runCmds (ctx : Ctx κ) (fuel : Nat) : List Cmd → Node κ × Child × Store κ →
    Except Err (Node κ × Child × Store κ)
  | [], st => .ok st
  | cmd :: r, st =>
    match runCmd ctx fuel cmd st with
    | .error e => .error e
    | .ok st' => runCmds ctx fuel r st'

/-- the workspace is all links or all copies, the child is the one first recorded, the store is
consistent and holds the tree -/
def SeqInv (ctx : Ctx κ) (t : Node κ) (nm : Bytes) (st : Node κ × Child × Store κ) : Prop :=
  (∃ σ, st.1 = wsAfter ctx σ t) ∧ st.2.1 = ⟨nm, treeDigest ctx nm t, t.isDir⟩ ∧
    Consistent ctx st.2.2 ∧ HoldsNode ctx st.2.2 newChoice nm t

theorem runCmd_inv (ctx : Ctx κ) (g : Good ctx) (t : Node κ) (nm : Bytes)
    (hp : t.plain = true) (hs : t.sorted = true) (hn : NamesOK ctx t) (fuel : Nat)
    (hf : depth t ≤ fuel) (cmd : Cmd) (st : Node κ × Child × Store κ) (hinv : SeqInv ctx t nm st) :
    ∃ st', runCmd ctx fuel cmd st = .ok st' ∧ SeqInv ctx t nm st' := by
  obtain ⟨w, c, s⟩ := st
  obtain ⟨⟨σ, hw⟩, hc, hcons, hh⟩ := hinv
  simp only at hw hc hcons hh
  subst hw hc
  cases cmd with
  | commit strat =>
    obtain ⟨s', h, hc', _, _, hh', _⟩ := commit_idem_holding ctx g t nm hp hs hn s hcons hh σ strat
    refine ⟨_, h, ⟨?_, rfl, hc', hh'⟩⟩
    cases σ
    · exact ⟨.link, rfl⟩
    · exact ⟨strat, rfl⟩
  | checkout strat =>
    have h := checkoutNode_over g s σ strat t newChoice nm fuel hp hs hn hh hf
    rw [digestAs_new] at h
    exact ⟨(wsAfter ctx (coStrat σ strat) t, ⟨nm, treeDigest ctx nm t, t.isDir⟩, s),
      by simp [runCmd, h], ⟨⟨_, rfl⟩, rfl, hcons, hh⟩⟩

theorem runCmds_inv (ctx : Ctx κ) (g : Good ctx) (t : Node κ) (nm : Bytes)
    (hp : t.plain = true) (hs : t.sorted = true) (hn : NamesOK ctx t) (fuel : Nat)
    (hf : depth t ≤ fuel) : ∀ (cmds : List Cmd) (st : Node κ × Child × Store κ),
    SeqInv ctx t nm st → ∃ st', runCmds ctx fuel cmds st = .ok st' ∧ SeqInv ctx t nm st'
  | [], st, hinv => ⟨st, rfl, hinv⟩
  | cmd :: r, st, hinv => by
    obtain ⟨st1, h1, hinv1⟩ := runCmd_inv ctx g t nm hp hs hn fuel hf cmd st hinv
    obtain ⟨st2, h2, hinv2⟩ := runCmds_inv ctx g t nm hp hs hn fuel hf r st1 hinv1
    exact ⟨st2, by simp [runCmds, h1, h2], hinv2⟩

/-- **Any sequence of commits and checkouts (either strategy each) after a first commit** of a
plain sorted tree succeeds, keeps the recorded child artifact and the logical content of the
workspace; the workspace is always all-links or all-copies.  (Checkouts here are over the existing
workspace; "partial": commands that delete the workspace in between are not modelled.) -/
theorem commit_checkout_sequence_partial (ctx : Ctx κ) (g : Good ctx) (t : Node κ) (nm : Bytes)
    (hp : t.plain = true) (hs : t.sorted = true) (hn : NamesOK ctx t)
    (s : Store κ) (hc : Consistent ctx s) (strat : Strat) (cmds : List Cmd) (fuel : Nat)
    (hf : depth t ≤ fuel) :
    ∃ t' c' s', commitNode ctx strat t ⟨nm, "", t.isDir⟩ s = .ok (t', c', s') ∧
      ∃ w s'', runCmds ctx fuel cmds (t', c', s') = .ok (w, c', s'') ∧
        deref ctx s'' w = t ∧ (∃ σ, w = wsAfter ctx σ t) ∧ Consistent ctx s'' ∧
        c'.sum = treeDigest ctx nm t := by
  obtain ⟨s', h, hc', _, hh, _⟩ := recommitNode_post g t hp hn ⟨nm, "", t.isDir⟩ s strat rfl
    (compatNode_empty ctx s t) hc
  obtain ⟨⟨w, c2, s''⟩, hrun, ⟨σ, hw⟩, hc2, hcons, hh''⟩ :=
    runCmds_inv ctx g t nm hp hs hn fuel hf cmds
      (wsAfter ctx strat t, ⟨nm, treeDigest ctx nm t, t.isDir⟩, s') ⟨⟨strat, rfl⟩, rfl, hc', hh⟩
  simp only at hw hc2 hcons hh''
  subst hw hc2
  exact ⟨_, _, s', h, _, s'', hrun, deref_wsAfter hp hh'' σ, ⟨σ, rfl⟩, hcons, rfl⟩

/-! ## Non-vacuity over `Dud.Example.ctx` -/

namespace Example

/-- (a) on the example tree -/
example (strat strat2 : Strat) :
    ∃ t' c' s', commitNode ctx strat tree ⟨[116], "", true⟩ [] = .ok (t', c', s') ∧
      ∃ t'' s'', commitNode ctx strat2 t' c' s' = .ok (t'', c', s'') ∧ deref ctx s'' t'' = tree ∧
        Store.le ctx s'' s' := by
  obtain ⟨t', c', s', h, t'', s'', h2, hd, _, _, hback, _⟩ :=
    commit_idem ctx good tree [116] tree_plain tree_sorted tree_names [] empty_consistent strat strat2
  exact ⟨t', c', s', h, t'', s'', h2, hd, hback⟩

/-- (c) on the example tree: every second checkout succeeds and keeps the logical content -/
example (strat strat1 strat2 : Strat) :
    ∃ t' c' s', commitNode ctx strat tree ⟨[116], "", true⟩ [] = .ok (t', c', s') ∧
      ∃ w w', checkoutNode ctx strat1 s' 3 none c' = .ok w ∧
        checkoutNode ctx strat2 s' 3 (some w) c' = .ok w' ∧ deref ctx s' w' = tree := by
  obtain ⟨s', h, _, _, hh, _⟩ := recommitNode_post good tree tree_plain tree_names
    ⟨[116], "", true⟩ [] strat rfl (compatNode_empty ctx [] _) empty_consistent
  obtain ⟨w, hw, _, hw2, hd⟩ := checkout_idem ctx good tree [116] tree_plain tree_sorted tree_names
    s' newChoice hh 3 (Nat.le_of_eq tree_depth) strat1 strat2
  rw [digestAs_new] at hw hw2
  exact ⟨_, _, s', h, w, _, hw, hw2, hd⟩

/-- the example tree with other bytes in `a` -/
def treeOther : Node K :=
  .dir [([97], .file (.raw "something else")),
        ([98], .dir [([99], .file (.raw "gamma")), ([100], .dir [])]),
        ([101], .file (.raw "alpha"))]

/-- negative witness on the example tree: a file with other bytes is in the way -/
example (strat strat2 : Strat) :
    ∃ t' c' s', commitNode ctx strat tree ⟨[116], "", true⟩ [] = .ok (t', c', s') ∧
      checkoutNode ctx strat2 s' 3 (some treeOther) c' = .error .exists_ := by
  obtain ⟨s', h, _, _, hh, _⟩ := recommitNode_post good tree tree_plain tree_names
    ⟨[116], "", true⟩ [] strat rfl (compatNode_empty ctx [] _) empty_consistent
  have := checkout_over_different_file_dir_fails ctx good s' newChoice [116] [97] (.raw "alpha")
    (.raw "something else") (by simp)
    [([98], .dir [([99], .file (.raw "gamma")), ([100], .dir [])]), ([101], .file (.raw "alpha"))]
    [([98], .dir [([99], .file (.raw "gamma")), ([100], .dir [])]), ([101], .file (.raw "alpha"))]
    (by have h := tree_sorted; simp only [tree, Node.sorted] at h; exact h)
    (namesOK_dir tree_names) hh strat2 1
  rw [digestAs_new] at this
  exact ⟨_, _, s', h, this⟩

def show_ (r : Except Err (Node K)) (s : Store K) : String :=
  match r with
  | .error e => s!"error {e}"
  | .ok w => s!"ok, logical content = tree: {nodeBEq (deref ctx s w) tree}"

/-- executable evidence: commit, commit again, checkout twice -/
def idem (strat strat2 : Strat) : String :=
  match commitNode ctx strat tree ⟨[116], "", true⟩ [] with
  | .error e => s!"commit error {e}"
  | .ok (t', c', s') =>
    match commitNode ctx strat2 t' c' s' with
    | .error e => s!"second commit error {e}"
    | .ok (t'', c'', s'') =>
      s!"second commit: same child {c'' == c'}, workspace unchanged {nodeBEq t'' t'}, " ++
      s!"logical {nodeBEq (deref ctx s'' t'') tree}; " ++
      (match checkoutNode ctx strat s'' 3 none c' with
       | .error e => s!"checkout error {e}"
       | .ok w =>
         s!"checkout ({repr strat2}) over the ({repr strat}) checkout: " ++
         s!"{show_ (checkoutNode ctx strat2 s'' 3 (some w) c') s''}, " ++
         (match checkoutNode ctx strat2 s'' 3 (some w) c' with
          | .ok w' => s!"workspace unchanged {nodeBEq w' w}; "
          | .error _ => "; ") ++
         s!"over other bytes: {show_ (checkoutNode ctx strat2 s'' 3 (some treeOther) c') s''}; " ++
         s!"commit of the checkout records the same child: " ++
         (match commitNode ctx strat w c' s'' with
          | .ok (_, c3, _) => s!"{c3 == c'}"
          | .error e => s!"error {e}"))

#eval idem .link .link
#eval idem .link .copy
#eval idem .copy .link
#eval idem .copy .copy

/-- executable evidence for the sequence theorem -/
def seqDemo (cmds : List Cmd) : String :=
  match commitNode ctx .copy tree ⟨[116], "", true⟩ [] with
  | .error e => s!"commit error {e}"
  | .ok (t', c', s') =>
    match runCmds ctx 3 cmds (t', c', s') with
    | .error e => s!"error {e}"
    | .ok (w, c, s) => s!"child kept: {c == c'}; logical content kept: {nodeBEq (deref ctx s w) tree}"

#eval seqDemo [.checkout .link, .commit .link, .checkout .copy, .commit .copy, .checkout .link,
  .checkout .copy, .commit .link, .commit .copy]

end Example

#print axioms wsAfter2_link
#print axioms wsAfter2_copy_copy
#print axioms wsAfter2_copy_link
#print axioms commit_idem_holding
#print axioms commit_idem
#print axioms checkout_idem_link
#print axioms checkout_after_commit_noop
#print axioms checkout_idem
#print axioms coStrat_copy
#print axioms coStrat_link
#print axioms coStrat_self
#print axioms checkout_idem_copy
#print axioms checkout_idem_same
#print axioms checkout_over_different_file_fails
#print axioms checkout_over_different_file_dir_fails
#print axioms commit_after_checkout
#print axioms commit_checkout_commit
#print axioms runCmd_inv
#print axioms runCmds_inv
#print axioms commit_checkout_sequence_partial
#print axioms commitNode_linked
#print axioms commitEntries_linked
#print axioms checkoutNode_linked
#print axioms checkoutChildren_linked
#print axioms checkoutNode_over
#print axioms checkoutChildren_over
#print axioms childrenOK_childrenAs
#print axioms readManifest_holds
#print axioms checkoutNode_holds
#print axioms checkoutChildren_holds
#print axioms compatNode_of_holds
#print axioms compatList_of_holds

end Dud
