import DudModel.Spec
import DudModel.Lemmas.Tree
import DudModel.Lemmas.Holds
import DudModel.Lemmas.Compat
import DudModel.Lemmas.Idem
import DudModel.Lemmas.Codec
import DudModel.Props.C01
import DudModel.Props.C16
/-!
# C15 — idempotence of commit and checkout

* `commit_idem`: committing the workspace a commit left, with the child artifact it recorded,
  records the same artifact again and adds nothing to the store.
* `checkout_idem_link`, `checkout_after_commit_noop`: link checkout is repeatable.
* `copy_checkout_not_repeatable*`: copy checkout is *not* (negative witness).
* `commit_after_checkout`: commit of a checked-out workspace records the same artifact.
-/
namespace Dud

variable {κ : Type}

/-- the workspace after committing (strategy `strat2`) the workspace `wsAfter ctx strat1 t`:
links stay links, regular files follow `strat2` -/
def wsAfter2 (ctx : Ctx κ) (strat1 strat2 : Strat) (t : Node κ) : Node κ :=
  match strat1 with
  | .link => linked ctx t
  | .copy => wsAfter ctx strat2 t

theorem wsAfter2_link (ctx : Ctx κ) (strat2 : Strat) (t : Node κ) :
    wsAfter2 ctx .link strat2 t = wsAfter ctx .link t := rfl
theorem wsAfter2_copy_copy (ctx : Ctx κ) (t : Node κ) :
    wsAfter2 ctx .copy .copy t = wsAfter ctx .copy t := rfl
theorem wsAfter2_copy_link (ctx : Ctx κ) (t : Node κ) :
    wsAfter2 ctx .copy .link t = linked ctx t := rfl

/-- **Commit in a store that already holds the tree**, of either workspace form (`strat1`), with
either strategy (`strat2`): records the same artifact, the store gains nothing (up to bytes). -/
theorem commit_idem_holding (ctx : Ctx κ) (g : Good ctx) (t : Node κ) (nm : Bytes)
    (hp : t.plain = true) (hs : t.sorted = true) (hn : NamesOK ctx t)
    (s : Store κ) (hc : Consistent ctx s) (hh : HoldsNode ctx s newChoice nm t)
    (strat1 strat2 : Strat) :
    ∃ s', commitNode ctx strat2 (wsAfter ctx strat1 t) ⟨nm, treeDigest ctx nm t, t.isDir⟩ s =
        .ok (wsAfter2 ctx strat1 strat2 t, ⟨nm, treeDigest ctx nm t, t.isDir⟩, s') ∧
      Consistent ctx s' ∧ Store.le ctx s s' ∧ Store.le ctx s' s ∧
      HoldsNode ctx s' newChoice nm t ∧ deref ctx s' (wsAfter2 ctx strat1 strat2 t) = t := by
  cases strat1 with
  | link =>
    obtain ⟨s', h, hc', hle, hh', hback⟩ :=
      commitNode_linked g t hp hs hn newChoice nm s strat2 hh hc
    rw [digestAs_new] at h
    exact ⟨s', h, hc', hle, hback hh, hh', deref_linked t _ nm hp hh'⟩
  | copy =>
    have hk : CompatNode ctx s t (treeDigest ctx nm t) := by
      have := compatNode_of_holds g t newChoice nm hs hn hh
      rwa [digestAs_new] at this
    obtain ⟨s', h, hc', hle, hh', hback, _⟩ := recommitNode_post g t hp hn
      ⟨nm, treeDigest ctx nm t, t.isDir⟩ s strat2 rfl hk hc
    exact ⟨s', h, hc', hle, hback hh, hh', deref_wsAfter hp hh' strat2⟩

/-- **C15 (a).** Commit twice.  The second commit (any strategy) of the workspace and child the
first (fresh) commit produced returns the same child; the store is unchanged up to bytes; the
workspace is unchanged if the first commit linked, or both copied; after copy-then-link it is the
all-links version (same logical content). -/
theorem commit_idem (ctx : Ctx κ) (g : Good ctx) (t : Node κ) (nm : Bytes)
    (hp : t.plain = true) (hs : t.sorted = true) (hn : NamesOK ctx t)
    (s : Store κ) (hc : Consistent ctx s) (strat strat2 : Strat) :
    ∃ t' c' s', commitNode ctx strat t ⟨nm, "", t.isDir⟩ s = .ok (t', c', s') ∧
      ∃ t'' s'', commitNode ctx strat2 t' c' s' = .ok (t'', c', s'') ∧
        deref ctx s'' t'' = t ∧ Consistent ctx s'' ∧ Store.le ctx s' s'' ∧ Store.le ctx s'' s' ∧
        (strat = .link → t'' = t') ∧ (strat = .copy → strat2 = .copy → t'' = t') ∧
        (strat = .copy → strat2 = .link → t'' = linked ctx t) := by
  obtain ⟨s', h, hc', _, hh, _⟩ := recommitNode_post g t hp hn ⟨nm, "", t.isDir⟩ s strat rfl
    (compatNode_empty ctx s t) hc
  obtain ⟨s'', h2, hc'', hle, hback, _, hd⟩ :=
    commit_idem_holding ctx g t nm hp hs hn s' hc' hh strat strat2
  refine ⟨_, _, s', h, _, s'', h2, hd, hc'', hle, hback, ?_, ?_, ?_⟩
  · rintro rfl; rfl
  · rintro rfl rfl; rfl
  · rintro rfl rfl; rfl

/-- **C15 (b).** Link checkout of a committed artifact is repeatable: what it produced from an
absent workspace it leaves alone the second time. -/
theorem checkout_idem_link (ctx : Ctx κ) (g : Good ctx) (t : Node κ) (nm : Bytes)
    (hp : t.plain = true) (hs : t.sorted = true) (hn : NamesOK ctx t)
    (s : Store κ) (ch : Choice) (hh : HoldsNode ctx s ch nm t) (fuel : Nat) (hf : depth t ≤ fuel)
    {r : Node κ}
    (h : checkoutNode ctx .link s fuel none ⟨nm, digestAs ctx ch nm t, t.isDir⟩ = .ok r) :
    checkoutNode ctx .link s fuel (some r) ⟨nm, digestAs ctx ch nm t, t.isDir⟩ = .ok r := by
  rw [checkoutNode_holds g s .link t ch nm fuel hp hs hn hh hf] at h
  cases h
  exact checkoutNode_linked g s t ch nm fuel hp hs hn hh hf

/-- Link checkout right after a link commit (from any later store) is a no-op on the workspace
the commit left. -/
theorem checkout_after_commit_noop (ctx : Ctx κ) (g : Good ctx) (t : Node κ) (nm : Bytes)
    (hp : t.plain = true) (hs : t.sorted = true) (hn : NamesOK ctx t)
    (s : Store κ) (hc : Consistent ctx s) :
    ∃ t' c' s', commitNode ctx .link t ⟨nm, "", t.isDir⟩ s = .ok (t', c', s') ∧
      ∀ s'', Store.le ctx s' s'' → ∀ fuel, depth t ≤ fuel →
        checkoutNode ctx .link s'' fuel (some t') c' = .ok t' := by
  obtain ⟨s', h, _, _, hh, _⟩ := recommitNode_post g t hp hn ⟨nm, "", t.isDir⟩ s .link rfl
    (compatNode_empty ctx s t) hc
  refine ⟨_, _, s', h, ?_⟩
  intro s'' hle fuel hf
  have := checkoutNode_linked g s'' t newChoice nm fuel hp hs hn (HoldsNode.mono hle t _ nm hh) hf
  rwa [digestAs_new] at this

/-! ## (c) negative witness: copy checkout is not repeatable -/

/-- An up-to-date regular copy is "in the way" of a second checkout, with either strategy. -/
theorem checkout_over_copy_fails (ctx : Ctx κ) (g : Good ctx) (s : Store κ) (x : κ) (nm : Bytes)
    {o : Obj κ} (ho : s.get (ctx.H x) = some o) (strat : Strat) (fuel : Nat) :
    checkoutNode ctx strat s (fuel + 1) (some (.file x)) ⟨nm, ctx.H x, false⟩ = .error .exists_ := by
  cases strat <;>
    simp [checkoutNode, checkoutFile, quick, hasSum_H g, Store.has_of_get ho, ho]

/-- The same one level up: a directory whose first entry is an (up-to-date) regular file. -/
theorem checkout_over_copy_dir_fails (ctx : Ctx κ) (g : Good ctx) (s : Store κ) (ch : Choice)
    (nm : Bytes) (x : Name) (y : κ) (r : List (Name × Node κ))
    (hs : sortedList ((x, .file y) :: r) = true) (hn : NamesOKList ctx ((x, .file y) :: r))
    (hh : HoldsNode ctx s ch nm (.dir ((x, .file y) :: r))) (strat : Strat) (fuel : Nat) :
    checkoutNode ctx strat s (fuel + 2) (some (.dir ((x, .file y) :: r)))
      ⟨nm, digestAs ctx ch nm (.dir ((x, .file y) :: r)), true⟩ = .error .exists_ := by
  obtain ⟨hhas, hread⟩ := readManifest_holds g hs hn hh
  have hsum := hasSum_digestAs_dir g ch nm ((x, .file y) :: r)
  simp only [HoldsNode, HoldsList] at hh
  obtain ⟨o, ho, _⟩ := hh.2.1
  have h1 := checkout_over_copy_fails ctx g s y x ho strat fuel
  generalize digestAs ctx ch nm (.dir ((x, .file y) :: r)) = d at hhas hread hsum ⊢
  have hstep : checkoutChildren (checkoutNode ctx strat s (fuel + 1)) ((x, Node.file y) :: r)
      (childrenAs ctx ch ((x, .file y) :: r)) = .error .exists_ := by
    simp only [childrenAs, checkoutChildren, alookup, beq_self_eq_true, if_true, digestAs,
      Node.isDir, h1]
  rw [checkoutNode]
  simp only [if_true, hsum, hhas, hread, hstep, Bool.not_true, Bool.false_eq_true, if_false]

/-- **C15 (c).** Copy checkout, then copy checkout again: the first succeeds, the second fails
with "exists" although the workspace is exactly what the checkout would produce. -/
theorem copy_checkout_not_repeatable (ctx : Ctx κ) (g : Good ctx) (nm : Bytes) (x : Name) (y : κ)
    (r : List (Name × Node κ))
    (hp : (Node.dir ((x, .file y) :: r)).plain = true)
    (hs : (Node.dir ((x, .file y) :: r)).sorted = true)
    (hn : NamesOK ctx (.dir ((x, .file y) :: r)))
    (s : Store κ) (ch : Choice) (hh : HoldsNode ctx s ch nm (.dir ((x, .file y) :: r)))
    (fuel : Nat) (hf : depth (Node.dir ((x, .file y) :: r)) ≤ fuel + 2) (strat2 : Strat) :
    ∃ w, checkoutNode ctx .copy s (fuel + 2) none
          ⟨nm, digestAs ctx ch nm (.dir ((x, .file y) :: r)), true⟩ = .ok w ∧
      checkoutNode ctx strat2 s (fuel + 2) (some w)
          ⟨nm, digestAs ctx ch nm (.dir ((x, .file y) :: r)), true⟩ = .error .exists_ := by
  refine ⟨_, checkoutNode_holds g s .copy _ ch nm _ hp hs hn hh hf, ?_⟩
  exact checkout_over_copy_dir_fails ctx g s ch nm x y r (by simpa [Node.sorted] using hs)
    (namesOK_dir hn) hh strat2 fuel

/-! ## (d) commit after checkout -/

/-- **C15 (d).** Check an artifact out (either strategy) into an absent workspace, from a
consistent store holding it, and commit the result (either strategy): the same child artifact is
recorded, the logical content is unchanged, the store gains nothing. -/
theorem commit_after_checkout (ctx : Ctx κ) (g : Good ctx) (t : Node κ) (nm : Bytes)
    (hp : t.plain = true) (hs : t.sorted = true) (hn : NamesOK ctx t)
    (s : Store κ) (hc : Consistent ctx s) (hh : HoldsNode ctx s newChoice nm t)
    (fuel : Nat) (hf : depth t ≤ fuel) (strat1 strat2 : Strat) :
    ∃ w, checkoutNode ctx strat1 s fuel none ⟨nm, treeDigest ctx nm t, t.isDir⟩ = .ok w ∧
      ∃ w' s', commitNode ctx strat2 w ⟨nm, treeDigest ctx nm t, t.isDir⟩ s =
          .ok (w', ⟨nm, treeDigest ctx nm t, t.isDir⟩, s') ∧
        deref ctx s' w' = t ∧ Consistent ctx s' ∧ Store.le ctx s s' ∧ Store.le ctx s' s := by
  have hco := checkoutNode_holds g s strat1 t newChoice nm fuel hp hs hn hh hf
  rw [digestAs_new] at hco
  obtain ⟨s', h, hc', hle, hback, _, hd⟩ :=
    commit_idem_holding ctx g t nm hp hs hn s hc hh strat1 strat2
  exact ⟨_, hco, _, s', h, hd, hc', hle, hback⟩

/-- the full cycle from a fresh commit: commit, checkout elsewhere, commit again -/
theorem commit_checkout_commit (ctx : Ctx κ) (g : Good ctx) (t : Node κ) (nm : Bytes)
    (hp : t.plain = true) (hs : t.sorted = true) (hn : NamesOK ctx t)
    (s : Store κ) (hc : Consistent ctx s) (strat strat1 strat2 : Strat) :
    ∃ t' c' s', commitNode ctx strat t ⟨nm, "", t.isDir⟩ s = .ok (t', c', s') ∧
      ∃ w, checkoutNode ctx strat1 s' (depth t) none c' = .ok w ∧
        ∃ w' s'', commitNode ctx strat2 w c' s' = .ok (w', c', s'') ∧
          deref ctx s'' w' = t ∧ Store.le ctx s'' s' := by
  obtain ⟨s', h, hc', _, hh, _⟩ := recommitNode_post g t hp hn ⟨nm, "", t.isDir⟩ s strat rfl
    (compatNode_empty ctx s t) hc
  obtain ⟨w, hw, w', s'', h2, hd, _, _, hback⟩ := commit_after_checkout ctx g t nm hp hs hn s' hc'
    hh (depth t) (Nat.le_refl _) strat1 strat2
  exact ⟨_, _, s', h, w, hw, w', s'', h2, hd, hback⟩

/-! ## Non-vacuity over `Dud.Example.ctx` -/

namespace Example

/-- (a) on the example tree -/
example (strat strat2 : Strat) :
    ∃ t' c' s', commitNode ctx strat tree ⟨[116], "", true⟩ [] = .ok (t', c', s') ∧
      ∃ t'' s'', commitNode ctx strat2 t' c' s' = .ok (t'', c', s'') ∧ deref ctx s'' t'' = tree ∧
        Store.le ctx s'' s' := by
  obtain ⟨t', c', s', h, t'', s'', h2, hd, _, _, hback, _⟩ :=
    commit_idem ctx good tree [116] tree_plain tree_sorted tree_names [] empty_consistent strat strat2
  exact ⟨t', c', s', h, t'', s'', h2, hd, hback⟩

/-- (c) on the example tree: the second copy checkout fails -/
example (strat strat2 : Strat) :
    ∃ t' c' s', commitNode ctx strat tree ⟨[116], "", true⟩ [] = .ok (t', c', s') ∧
      ∃ w, checkoutNode ctx .copy s' 3 none c' = .ok w ∧
        checkoutNode ctx strat2 s' 3 (some w) c' = .error .exists_ := by
  obtain ⟨s', h, _, _, hh, _⟩ := recommitNode_post good tree tree_plain tree_names
    ⟨[116], "", true⟩ [] strat rfl (compatNode_empty ctx [] _) empty_consistent
  obtain ⟨w, hw, hw2⟩ := copy_checkout_not_repeatable ctx good [116] [97] (.raw "alpha") _
    tree_plain tree_sorted tree_names s' newChoice hh 1 (Nat.le_of_eq tree_depth) strat2
  rw [digestAs_new] at hw hw2
  exact ⟨_, _, s', h, w, hw, hw2⟩

def show_ (r : Except Err (Node K)) (s : Store K) : String :=
  match r with
  | .error e => s!"error {e}"
  | .ok w => s!"ok, logical content = tree: {nodeBEq (deref ctx s w) tree}"

/-- executable evidence: commit, commit again, checkout twice -/
def idem (strat strat2 : Strat) : String :=
  match commitNode ctx strat tree ⟨[116], "", true⟩ [] with
  | .error e => s!"commit error {e}"
  | .ok (t', c', s') =>
    match commitNode ctx strat2 t' c' s' with
    | .error e => s!"second commit error {e}"
    | .ok (t'', c'', s'') =>
      s!"second commit: same child {c'' == c'}, workspace unchanged {nodeBEq t'' t'}, " ++
      s!"logical {nodeBEq (deref ctx s'' t'') tree}; " ++
      (match checkoutNode ctx strat2 s'' 3 none c' with
       | .error e => s!"checkout error {e}"
       | .ok w =>
         s!"checkout again over the result: {show_ (checkoutNode ctx strat2 s'' 3 (some w) c') s''}; " ++
         s!"commit of the checkout records the same child: " ++
         (match commitNode ctx strat w c' s'' with
          | .ok (_, c3, _) => s!"{c3 == c'}"
          | .error e => s!"error {e}"))

#eval idem .link .link
#eval idem .link .copy
#eval idem .copy .link
#eval idem .copy .copy

end Example

#print axioms wsAfter2_link
#print axioms wsAfter2_copy_copy
#print axioms wsAfter2_copy_link
#print axioms commit_idem_holding
#print axioms commit_idem
#print axioms checkout_idem_link
#print axioms checkout_after_commit_noop
#print axioms checkout_over_copy_fails
#print axioms checkout_over_copy_dir_fails
#print axioms copy_checkout_not_repeatable
#print axioms commit_after_checkout
#print axioms commit_checkout_commit
#print axioms commitNode_linked
#print axioms commitEntries_linked
#print axioms checkoutNode_linked
#print axioms checkoutChildren_linked
#print axioms checkoutNode_holds
#print axioms checkoutChildren_holds
#print axioms compatNode_of_holds
#print axioms compatList_of_holds

end Dud
