import DudModel.Lemmas.Json
import DudModel.Lemmas.StageFile
import DudModel.Lemmas.Run
import DudModel.Spec
/-!
# C17 — the stage file round-trips, and the definition checksum identifies the definition

(A) `stage.FromFile` normalises (`fromDoc_normal`), and writing a normal-form stage and loading it
again is the identity (`load_write_id`, `normalise_idem`, `write_load_write`); the YAML library is a
trusted parameter, the model starts at the typed document (`DudModel/StageFile.lean`).

(B) The bytes hashed by `Stage.CalculateChecksum` ignore every checksum and the order of the
artifact maps (`defBytes_ignores_sums`, `defBytes_ignores_order`) and, on valid UTF-8, determine
command, working directory and the artifact maps with their flags (`defBytes_injective`).

(C) Right after a commit the recorded definition checksum is up to date
(`status_after_commit_def`); any edit of the definition changes it (`defsum_changes_on_edit`).
-/
namespace Dud
open Path GoJson

/-! ## (A) file-format conversion -/

/-- `filepath.Clean` is idempotent -/
theorem clean_idempotent (s : Bytes) : Path.clean (Path.clean s) = Path.clean s := clean_idem s

/-- `strings.TrimSpace` is idempotent -/
theorem trimSpace_idempotent (b : Bytes) : trimSpace (trimSpace b) = trimSpace b := trimSpace_idem b

/-- Loading normalises: command trimmed, working directory and paths cleaned, inputs flagged
`skip-cache`, one entry per path, sorted.  Holds for every document.  (When two keys clean to the
same path the *model* keeps the first; Go's map keeps a random one — see `fromDoc_perm` for the
hypothesis `KeysOK` under which model and Go agree.) -/
theorem fromDoc_normal (d : StageDoc) : NormalForm (fromDoc d) := fromDoc_normal' d

/-- Under `KeysOK` (cleaning is injective on the keys of each map) the loaded stage does not depend
on the order of the entries of the YAML mappings — the nondeterministic iteration order of Go's
maps is immaterial … -/
theorem fromDoc_perm {d d' : StageDoc} (hs : d.sum = d'.sum) (hc : d.cmd = d'.cmd) (hw : d.wd = d'.wd)
    (hi : d.inputs.Perm d'.inputs) (ho : d.outputs.Perm d'.outputs)
    (hki : KeysOK d.inputs) (hko : KeysOK d.outputs) : fromDoc d = fromDoc d' :=
  fromDoc_perm' hs hc hw hi ho hki hko

/-- … and every entry of the document is an artifact of the loaded stage -/
theorem fromDoc_complete {d : StageDoc} (hki : KeysOK d.inputs) (hko : KeysOK d.outputs) :
    (fromDoc d).inputs.Perm (d.inputs.map (docArt true)) ∧
    (fromDoc d).outputs.Perm (d.outputs.map (docArt false)) := fromDoc_keeps_all hki hko

/-- Writing a normal-form stage and loading it again yields exactly the same stage: same stage
checksum, command, working directory, inputs and outputs with the same paths, flags and checksums. -/
theorem load_write_id {stg : Stage} (h : NormalForm stg) : fromDoc (toDoc stg) = stg :=
  load_write_id' h

/-- the same, field by field -/
theorem load_write_fields {stg : Stage} (h : NormalForm stg) :
    (fromDoc (toDoc stg)).sum = stg.sum ∧ (fromDoc (toDoc stg)).cmd = stg.cmd ∧
    (fromDoc (toDoc stg)).wd = stg.wd ∧ (fromDoc (toDoc stg)).inputs = stg.inputs ∧
    (fromDoc (toDoc stg)).outputs = stg.outputs := by
  rw [load_write_id h]; exact ⟨rfl, rfl, rfl, rfl, rfl⟩

/-- Any loaded stage survives write + load: normalisation is idempotent -/
theorem normalise_idem (d : StageDoc) : fromDoc (toDoc (fromDoc d)) = fromDoc d :=
  load_write_id (fromDoc_normal d)

/-- the file written for a normal-form stage is reproduced by load + write -/
theorem write_load_write {stg : Stage} (h : NormalForm stg) :
    toDoc (fromDoc (toDoc stg)) = toDoc stg := by rw [load_write_id h]

/-- what a written file contains: the paths as keys, every value present, inputs without
`skip-cache` (it is implicit) -/
theorem toDoc_shape (stg : Stage) :
    (toDoc stg).inputs.map (·.1) = stg.inputs.map (·.path) ∧
    (toDoc stg).outputs.map (·.1) = stg.outputs.map (·.path) ∧
    (∀ e ∈ (toDoc stg).inputs, ∃ fa, e.2 = some fa ∧ fa.skip = false) := by
  refine ⟨by simp [toDoc, artDoc, List.map_map, Function.comp_def],
    by simp [toDoc, artDoc, List.map_map, Function.comp_def], ?_⟩
  intro e he
  simp only [toDoc, List.mem_map] at he
  obtain ⟨a, _, rfl⟩ := he
  exact ⟨_, rfl, rfl⟩

/-- the keys of a written normal-form stage are clean and distinct, so re-loading is deterministic -/
theorem toDoc_keysOK {stg : Stage} (h : NormalForm stg) :
    KeysOK (toDoc stg).inputs ∧ KeysOK (toDoc stg).outputs := by
  have hi : (toDoc stg).inputs.map (fun e => Path.clean e.1) = stg.inputs.map (·.path) := by
    simp only [toDoc, List.map_map]
    exact List.map_congr_left fun a ha => h.pathsClean a (List.mem_append_left _ ha)
  have ho : (toDoc stg).outputs.map (fun e => Path.clean e.1) = stg.outputs.map (·.path) := by
    simp only [toDoc, List.map_map]
    exact List.map_congr_left fun a ha => h.pathsClean a (List.mem_append_right _ ha)
  exact ⟨by rw [KeysOK, hi]; exact h.inSorted.nodup, by rw [KeysOK, ho]; exact h.outSorted.nodup⟩

/-! ## (B) the definition checksum -/

/-- `defBytes` only looks at command, working directory and the artifacts without their checksums -/
theorem defBytes_congr {s1 s2 : Stage} (hc : s1.cmd = s2.cmd) (hw : s1.wd = s2.wd)
    (hi : s1.inputs.map Art.defArt = s2.inputs.map Art.defArt)
    (ho : s1.outputs.map Art.defArt = s2.outputs.map Art.defArt) : s1.defBytes = s2.defBytes := by
  simp only [Stage.defBytes, sortArts_defArt, hc, hw, hi, ho]

/-- changing the stage checksum and any artifact checksum leaves the hashed bytes unchanged -/
theorem defBytes_ignores_sums (stg : Stage) (s : Digest) (f g : Art → Digest) :
    ({ stg with sum := s,
                inputs := stg.inputs.map (fun a => { a with sum := f a }),
                outputs := stg.outputs.map (fun a => { a with sum := g a }) } : Stage).defBytes
      = stg.defBytes :=
  defBytes_congr rfl rfl (by simp [List.map_map, Function.comp_def, Art.defArt])
    (by simp [List.map_map, Function.comp_def, Art.defArt])

theorem defBytes_ignores_stage_sum (stg : Stage) (s : Digest) :
    ({ stg with sum := s } : Stage).defBytes = stg.defBytes := rfl

/-- on maps (one entry per path) `sortArts` is insensitive to the order of the entries -/
theorem sortArts_perm_eq {l1 l2 : List Art} (hp : l1.Perm l2) (hnd : (l1.map (·.path)).Nodup) :
    sortArts l1 = sortArts l2 := sortArts_perm hp hnd

/-- the hashed bytes do not depend on map ordering -/
theorem defBytes_ignores_order {s1 s2 : Stage} (hc : s1.cmd = s2.cmd) (hw : s1.wd = s2.wd)
    (hi : s1.inputs.Perm s2.inputs) (ho : s1.outputs.Perm s2.outputs)
    (hni : (s1.inputs.map (·.path)).Nodup) (hno : (s1.outputs.map (·.path)).Nodup) :
    s1.defBytes = s2.defBytes := by
  simp only [Stage.defBytes, hc, hw, sortArts_perm hi hni, sortArts_perm ho hno]

theorem Utf8.valid {b : Bytes} (h : Utf8 b) : ValidU b := validU_of_validUtf8 _ _ h

/-- Go's JSON string encoder is injective on valid UTF-8 … -/
theorem jstr_injective {u v : Bytes} (hu : Utf8 u) (hv : Utf8 v) (h : jstr u = jstr v) : u = v :=
  jstr_injective' hu.valid hv.valid h

/-- … and self-delimiting -/
theorem jstr_self_delimiting {u v r r' : Bytes} (hu : Utf8 u) (hv : Utf8 v)
    (h : jstr u ++ r = jstr v ++ r') : u = v ∧ r = r' := jstr_selfdelim hu.valid hv.valid h

/-- … but not on arbitrary bytes: every invalid byte becomes U+FFFD -/
theorem jstr_not_injective_invalid_utf8 :
    jstr [0xFF] = jstr [0xFE] ∧ ([0xFF] : Bytes) ≠ [0xFE] ∧
    jstr [0xFF] = [0x22, 0x5C, 0x75, 0x66, 0x66, 0x66, 0x64, 0x22] ∧ ¬ Utf8 [0xFF] := by
  have h1 : jstr [0xFF] = [0x22] ++ (str "\\ufffd" ++ []) ++ [0x22] := by
    simp [jstr, escBody, runeLen]
  have h2 : jstr [0xFE] = [0x22] ++ (str "\\ufffd" ++ []) ++ [0x22] := by
    simp [jstr, escBody, runeLen]
  refine ⟨by rw [h1, h2], by decide, ?_, by decide⟩
  rw [h1, str_ufffd]; rfl

/-- The hashed bytes determine the definition: on valid UTF-8, equal `defBytes` force equal command,
working directory and equal artifact maps (paths and flags; canonical order). -/
theorem defBytes_injective {s1 s2 : Stage} (h1 : Utf8Stage s1) (h2 : Utf8Stage s2)
    (h : s1.defBytes = s2.defBytes) :
    s1.cmd = s2.cmd ∧ s1.wd = s2.wd ∧
    (sortArts s1.inputs).map Art.defArt = (sortArts s2.inputs).map Art.defArt ∧
    (sortArts s1.outputs).map Art.defArt = (sortArts s2.outputs).map Art.defArt := by
  have hv : ∀ (s : Stage), Utf8Stage s →
      (∀ a ∈ (sortArts s.inputs).map Art.defArt, ValidU a.path) ∧
      (∀ a ∈ (sortArts s.outputs).map Art.defArt, ValidU a.path) := by
    intro s hs
    constructor
    · intro a ha
      obtain ⟨x, hx, rfl⟩ := List.mem_map.1 ha
      exact (hs.paths x (List.mem_append_left _ (mem_of_mem_sortArts' hx))).valid
    · intro a ha
      obtain ⟨x, hx, rfl⟩ := List.mem_map.1 ha
      exact (hs.paths x (List.mem_append_right _ (mem_of_mem_sortArts' hx))).valid
  exact stageDef_injective h1.cmd.valid h2.cmd.valid h1.wd.valid h2.wd.valid
    (hv s1 h1).1 (hv s2 h2).1 (hv s1 h1).2 (hv s2 h2).2 h

/-- for stages in normal form (lists already canonical): equal hashed bytes ⇒ the two definitions
agree in everything but checksums -/
theorem defBytes_injective_normal {s1 s2 : Stage} (n1 : NormalForm s1) (n2 : NormalForm s2)
    (h1 : Utf8Stage s1) (h2 : Utf8Stage s2) (h : s1.defBytes = s2.defBytes) :
    s1.cmd = s2.cmd ∧ s1.wd = s2.wd ∧
    s1.inputs.map Art.defArt = s2.inputs.map Art.defArt ∧
    s1.outputs.map Art.defArt = s2.outputs.map Art.defArt := by
  have := defBytes_injective h1 h2 h
  rwa [sortArts_of_sorted n1.inSorted, sortArts_of_sorted n2.inSorted,
    sortArts_of_sorted n1.outSorted, sortArts_of_sorted n2.outSorted] at this

/-- … so `defBytes` is a complete invariant of the definition of normal-form stages -/
theorem defBytes_eq_iff_normal {s1 s2 : Stage} (n1 : NormalForm s1) (n2 : NormalForm s2)
    (h1 : Utf8Stage s1) (h2 : Utf8Stage s2) :
    s1.defBytes = s2.defBytes ↔
      s1.cmd = s2.cmd ∧ s1.wd = s2.wd ∧ s1.inputs.map Art.defArt = s2.inputs.map Art.defArt ∧
      s1.outputs.map Art.defArt = s2.outputs.map Art.defArt :=
  ⟨defBytes_injective_normal n1 n2 h1 h2, fun ⟨a, b, c, d⟩ => defBytes_congr a b c d⟩

/-- equal definition artifacts = same paths and same flags, entry by entry -/
theorem defArt_eq_iff (a b : Art) :
    a.defArt = b.defArt ↔ a.path = b.path ∧ a.isDir = b.isDir ∧ a.noRec = b.noRec ∧ a.skip = b.skip := by
  simp [Art.defArt]

/-! ## (C) the recorded definition checksum -/

variable {κ : Type}

theorem defSum_ignores_sums (cfg : Cfg κ) (stg : Stage) (s : Digest) (f g : Art → Digest) :
    ({ stg with sum := s,
                inputs := stg.inputs.map (fun a => { a with sum := f a }),
                outputs := stg.outputs.map (fun a => { a with sum := g a }) } : Stage).defSum cfg
      = stg.defSum cfg := by
  simp only [Stage.defSum, defBytes_ignores_sums]

theorem alookup_setStage_self {idx : Index} {sp : Bytes} {s s0 : Stage}
    (h : alookup idx sp = some s0) : alookup (setStage idx sp s) sp = some s := by
  induction idx with
  | nil => simp [alookup] at h
  | cons e r ih =>
    obtain ⟨k, v⟩ := e
    by_cases hk : k = sp
    · subst hk; simp [setStage, alookup]
    · have hk' : (k == sp) = false := by simpa using hk
      simp only [alookup, hk', Bool.false_eq_true, if_false] at h
      simp only [setStage, List.map_cons, hk', Bool.false_eq_true, if_false, alookup]
      exact ih h

theorem commitArtW_idx (cfg : Cfg κ) (strat : Strat) (a a' : Art) (w w' : World κ)
    (h : commitArtW cfg strat a w = .ok (a', w')) : w'.idx = w.idx := by
  simp only [commitArtW] at h
  split at h
  · cases h
  · split at h
    · cases h
    · cases h; rfl

theorem commitArts_idx (cfg : Cfg κ) (strat : Strat) : ∀ (as as' : List Art) (w w' : World κ),
    commitArts cfg strat as w = .ok (as', w') → w'.idx = w.idx
  | [], as', w, w', h => by simp only [commitArts] at h; cases h; rfl
  | a :: as, as', w, w', h => by
    simp only [commitArts] at h
    cases h1 : commitArtW cfg strat a w with
    | error e => rw [h1] at h; cases h
    | ok r1 =>
      obtain ⟨a1, w1⟩ := r1
      rw [h1] at h
      simp only at h
      cases h2 : commitArts cfg strat as w1 with
      | error e => rw [h2] at h; cases h
      | ok r2 =>
        obtain ⟨as2, w2⟩ := r2
        rw [h2] at h
        have e := (commitArts_idx cfg strat as as2 w1 w2 h2).trans (commitArtW_idx cfg strat a a1 w w1 h1)
        cases h
        exact e

/-- Right after `dud commit` the stage recorded in the index carries the checksum of its own
definition: `dud status` reports the definition as up to date. -/
theorem status_after_commit_def (cfg : Cfg κ) (strat : Strat) (sp : Bytes) (w w' : World κ)
    (h : commitAct cfg strat sp w = .ok w') :
    ∃ stg, alookup w'.idx sp = some stg ∧ stg.defSum cfg = stg.sum := by
  simp only [commitAct] at h
  cases hs : w.stage sp with
  | error e => rw [hs] at h; cases h
  | ok stg =>
    rw [hs] at h
    simp only at h
    have hl := World.stage_eq_ok.1 hs
    split at h
    · cases h
    rename_i plain' w1 hc1
    split at h
    · cases h
    rename_i _ outs' w2 hc2
    cases h
    have f1 := commitArts_idx cfg strat _ _ w w1 hc1
    have g1 := commitArts_idx cfg strat _ _ w1 w2 hc2
    refine ⟨_, alookup_setStage_self (s0 := stg) (by rw [g1, f1]; exact hl), ?_⟩
    rfl

/-- Whenever the definition of a stage is edited — command, working directory, or the set, paths or
flags of inputs / outputs — its definition checksum changes, provided the hash does not collide on
the two definitions.  (`hinj` is collision-freedom of `H ∘ ofBytes` on these two byte strings, as
`Good.inj` is for `H`.) -/
theorem defsum_changes_on_edit (cfg : Cfg κ) {s1 s2 : Stage} (h1 : Utf8Stage s1) (h2 : Utf8Stage s2)
    (hinj : cfg.ctx.H (cfg.ofBytes s1.defBytes) = cfg.ctx.H (cfg.ofBytes s2.defBytes) →
      s1.defBytes = s2.defBytes)
    (hedit : s1.cmd ≠ s2.cmd ∨ s1.wd ≠ s2.wd ∨
      (sortArts s1.inputs).map Art.defArt ≠ (sortArts s2.inputs).map Art.defArt ∨
      (sortArts s1.outputs).map Art.defArt ≠ (sortArts s2.outputs).map Art.defArt) :
    s1.defSum cfg ≠ s2.defSum cfg := by
  intro e
  obtain ⟨a, b, c, d⟩ := defBytes_injective h1 h2 (hinj e)
  rcases hedit with h | h | h | h
  · exact h a
  · exact h b
  · exact h c
  · exact h d

/-- with `Good.inj` for `H` and an injective content encoding `ofBytes` -/
theorem defsum_changes_on_edit_good (cfg : Cfg κ) (hg : Good cfg.ctx)
    (hof : ∀ x y, cfg.ofBytes x = cfg.ofBytes y → x = y)
    {s1 s2 : Stage} (h1 : Utf8Stage s1) (h2 : Utf8Stage s2)
    (hedit : s1.cmd ≠ s2.cmd ∨ s1.wd ≠ s2.wd ∨
      (sortArts s1.inputs).map Art.defArt ≠ (sortArts s2.inputs).map Art.defArt ∨
      (sortArts s1.outputs).map Art.defArt ≠ (sortArts s2.outputs).map Art.defArt) :
    s1.defSum cfg ≠ s2.defSum cfg :=
  defsum_changes_on_edit cfg h1 h2 (fun e => hof _ _ (hg.inj _ _ e)) hedit

/-- and conversely the definition checksum is unchanged by checksums and by map order -/
theorem defsum_stable (cfg : Cfg κ) {s1 s2 : Stage} (hc : s1.cmd = s2.cmd) (hw : s1.wd = s2.wd)
    (hi : s1.inputs.Perm s2.inputs) (ho : s1.outputs.Perm s2.outputs)
    (hni : (s1.inputs.map (·.path)).Nodup) (hno : (s1.outputs.map (·.path)).Nodup) :
    s1.defSum cfg = s2.defSum cfg := by
  simp only [Stage.defSum, defBytes_ignores_order hc hw hi ho hni hno]

/-! ## non-vacuity -/

namespace C17ex

def pNull : Bytes := [0x6E, 0x75, 0x6C, 0x6C]          -- "null"
def pTilde : Bytes := [0x7E]                           -- "~"
def pColon : Bytes := [0x61, 0x3A, 0x20, 0x62]        -- "a: b"
/-- a two-line command with YAML-significant characters:
```
printf 'k: v\n' > '~'
# null
``` -/
def cmd1 : Bytes := [0x70, 0x72, 0x69, 0x6E, 0x74, 0x66, 0x20, 0x27, 0x6B, 0x3A, 0x20, 0x76, 0x5C, 0x6E, 0x27, 0x20, 0x3E, 0x20, 0x27, 0x7E, 0x27, 0x0A, 0x23, 0x20, 0x6E, 0x75, 0x6C, 0x6C]

/-- a normal-form stage with YAML-hostile strings -/
def stg1 : Stage :=
  { sum := "abc", cmd := cmd1, wd := [0x2E],
    inputs := [{ path := pNull, sum := "111", skip := true }],
    outputs := [{ path := pColon, sum := "222", isDir := true, noRec := true },
                { path := pTilde, sum := "333", skip := true }] }

theorem stg1_normal : NormalForm stg1 :=
  ⟨by decide, by decide, by decide, by decide, by decide, by decide⟩

theorem stg1_utf8 : Utf8Stage stg1 := ⟨by decide, by decide, by decide⟩

example : fromDoc (toDoc stg1) = stg1 := load_write_id stg1_normal
example : fromDoc (toDoc stg1) = stg1 := by decide

/-- a messy document that loads to `stg1`: white space (ASCII, U+2028, U+00A0, U+3000) around the
command, unclean working directory and keys, a nil artifact value, an input carrying a stale
`skip-cache: false`, the outputs in the "wrong" order -/
def doc1 : StageDoc :=
  { sum := "abc", cmd := [0x09, 0x20, 0xE2, 0x80, 0xA8, 0x70, 0x72, 0x69, 0x6E, 0x74, 0x66, 0x20, 0x27, 0x6B, 0x3A, 0x20, 0x76, 0x5C, 0x6E, 0x27, 0x20, 0x3E, 0x20, 0x27, 0x7E, 0x27, 0x0A, 0x23, 0x20, 0x6E, 0x75, 0x6C, 0x6C, 0xC2, 0xA0, 0x0A, 0xE3, 0x80, 0x80],
    wd := [0x2E, 0x2F, 0x78, 0x2F, 0x2E, 0x2E, 0x2F, 0x2F],
    inputs := [([0x2E, 0x2F, 0x6E, 0x75, 0x6C, 0x6C], some { sum := "111" })],
    outputs := [([0x78, 0x2F, 0x2E, 0x2E, 0x2F, 0x7E], some { sum := "333", skip := true }),
                ([0x61, 0x3A, 0x20, 0x62, 0x2F], some { sum := "222", isDir := true, noRec := true })] }

example : fromDoc doc1 = stg1 := by decide
example : KeysOK doc1.inputs ∧ KeysOK doc1.outputs := by decide
example : NormalForm (fromDoc doc1) := fromDoc_normal doc1
example : fromDoc (toDoc (fromDoc doc1)) = fromDoc doc1 := normalise_idem doc1
/-- a nil map value is the zero artifact -/
example : fromDoc { outputs := [(pTilde, none)] } = { wd := [0x2E], outputs := [{ path := pTilde }] } := by
  decide
/-- `KeysOK` can fail: `x` and `./x` are two YAML keys for one path -/
example : ¬ KeysOK [([0x78], none), ([0x2E, 0x2F, 0x78], none)] := by decide

/-- an edit of a flag changes the hashed bytes (instance of `defBytes_injective`) -/
def stg2 : Stage := { stg1 with outputs := [{ path := pColon, isDir := true }, { path := pTilde, skip := true }] }
example : stg1.defBytes ≠ stg2.defBytes := by
  intro h
  have := (defBytes_injective stg1_utf8 ⟨by decide, by decide, by decide⟩ h).2.2.2
  revert this; decide

/-- a change of checksums only does not (instance of `defBytes_ignores_sums`) -/
example : ({ stg1 with sum := "zzz", outputs := stg1.outputs.map fun a => { a with sum := "" } } : Stage).defBytes
    = stg1.defBytes := by
  have := defBytes_ignores_sums stg1 "zzz" (fun a => a.sum) (fun _ => "")
  simpa using this

example : trimSpace [0x09, 0x20, 0xE2, 0x80, 0xA8, 0x70, 0x72, 0x69, 0x6E, 0x74, 0x66, 0x20, 0x27, 0x6B, 0x3A, 0x20, 0x76, 0x5C, 0x6E, 0x27, 0x20, 0x3E, 0x20, 0x27, 0x7E, 0x27, 0x0A, 0x23, 0x20, 0x6E, 0x75, 0x6C, 0x6C, 0xC2, 0xA0, 0x0A, 0xE3, 0x80, 0x80] = cmd1 := by decide
/-- invalid UTF-8 and a lone continuation byte are not white space -/
example : trimSpace [0x85, 0x61, 0xA0] = [0x85, 0x61, 0xA0] := by decide

end C17ex

end Dud

/-! ## axioms -/
#print axioms Dud.clean_idempotent
#print axioms Dud.trimSpace_idempotent
#print axioms Dud.fromDoc_normal
#print axioms Dud.fromDoc_perm
#print axioms Dud.fromDoc_complete
#print axioms Dud.load_write_id
#print axioms Dud.load_write_fields
#print axioms Dud.normalise_idem
#print axioms Dud.write_load_write
#print axioms Dud.toDoc_shape
#print axioms Dud.toDoc_keysOK
#print axioms Dud.defBytes_congr
#print axioms Dud.defBytes_ignores_sums
#print axioms Dud.defBytes_ignores_stage_sum
#print axioms Dud.sortArts_perm_eq
#print axioms Dud.defBytes_ignores_order
#print axioms Dud.jstr_injective
#print axioms Dud.jstr_self_delimiting
#print axioms Dud.jstr_not_injective_invalid_utf8
#print axioms Dud.defBytes_injective
#print axioms Dud.defBytes_injective_normal
#print axioms Dud.defBytes_eq_iff_normal
#print axioms Dud.defArt_eq_iff
#print axioms Dud.defSum_ignores_sums
#print axioms Dud.status_after_commit_def
#print axioms Dud.defsum_changes_on_edit
#print axioms Dud.defsum_changes_on_edit_good
#print axioms Dud.defsum_stable
#print axioms Dud.C17ex.stg1_normal
#print axioms Dud.C17ex.stg1_utf8
#print axioms Dud.GoJson.stageDef_injective
#print axioms Dud.GoJson.defArts_selfdelim
#print axioms Dud.GoJson.Dec.escBody
