import DudModel.Lemmas.CrashTree
import DudModel.Lemmas.Codec
/-!
# C03 — killing dud at any instant loses no data and tears no metadata

Crash model: the process is killed after the k-th file-system mutating call, for every k; the state
is `replay emp fs (calls.take k)` (`DudModel/Sys.lean`).

* `commitNodeT_refines`, `commitEntriesT_refines`, `commitArtT_refines` (in `Lemmas/CrashTree.lean`):
  erasing the trace of the traced commit gives exactly the logical commit of `Model.lean`.
* `Safe ctx tracked fs` (`Lemmas/Crash.lean`): every recorded (path, bytes) is retrievable (`Retr`) and
  nothing incomplete or foreign sits under a digest name (`NoTorn`).
* `Allowed` is the per-call discipline; `Safe.apply : Safe → Allowed → Safe (apply …)`;
  `AllowedTrace.prefixSafe` is the compositional lemma.
* file level: `copyIntoCache_crash_safe`, `commitFile_crash_safe` (all three variants).
* tree level: `commitNodeT_crash_safe`, `commitEntriesT_crash_safe`, `commitArtT_crash_safe` for ANY
  tree (not only plain ones) with duplicate-free entry names, from any safe state in which the
  regular files are in place and the temp names unused; `…_fsOf` instantiate the state with the
  abstraction `fsOf` of a workspace tree and a consistent store.
* metadata: `meta_atomic` (temp + rename) and the negative witness `meta_torn_in_place`
  (create-truncate).  The obligation that the Go code uses the atomic variant is in `C03meta.lean`.
* checkout: `checkoutFileCalls_crash_safe`.

Hypotheses worth knowing:
* `Good ctx` (collision-free hash) — used exactly where a rename lands on an existing object.
* `hemp : ∀ c, isEmp c = true → c = emp`: the "is empty" test of the trace generator is sound
  (an empty file gets no `write` call, it holds `emp` right after `createExcl`).
* `TrackedWs tracked`: the recorded paths are workspace paths (so temp files, shard directories …
  carry no recorded content).
* a successful run: the traced functions return `.ok`; a run that fails at the logical level has no
  trace in this model (its real trace is a prefix of the calls before the failing check).
-/
namespace Dud.Sys

open Dud

variable {κ : Type}

/-! ## file level -/

/-- **`commitBytes(reader, "")`** (also used for manifests): tee into a fresh temp file, rename onto
the digest name, chmod.  Safe after every prefix. -/
theorem copyIntoCache_crash_safe {ctx : Ctx κ} (g : Good ctx) {tracked : List (P × κ)}
    (htw : TrackedWs tracked) {emp : κ} {isEmp : κ → Bool} (hemp : ∀ c, isEmp c = true → c = emp)
    {fs : FS κ} (hs : Safe ctx tracked fs) {n : Nat} (hfresh : fs.get (.ctmp n) = none) (c : κ) :
    ∀ k, Safe ctx tracked (replay emp fs ((copyIntoCache isEmp n c (ctx.H c)).take k)) :=
  (copyIntoCache_spec htw hemp hfresh c).1.prefixSafe g hs

/-- … and afterwards the bytes are in the cache under their digest, read-only. -/
theorem copyIntoCache_stores {ctx : Ctx κ} {tracked : List (P × κ)}
    (htw : TrackedWs tracked) {emp : κ} {isEmp : κ → Bool} (hemp : ∀ c, isEmp c = true → c = emp)
    {fs : FS κ} {n : Nat} (hfresh : fs.get (.ctmp n) = none) (c : κ) :
    (replay emp fs (copyIntoCache isEmp n c (ctx.H c))).get (.obj (ctx.H c)) = some (.file c 0o444) :=
  (copyIntoCache_spec (ctx := ctx) htw hemp hfresh c).2

/-- **`commitFileArtifact`**, all three variants (`.link, true`: mkdir + rename + chmod + symlink;
`.link, false`: copy + unlink + symlink; `.copy, _`: copy): from any safe state in which the workspace
file holds `c` and the temp name is unused, the state after every prefix is safe. -/
theorem commitFile_crash_safe {ctx : Ctx κ} (g : Good ctx) {tracked : List (P × κ)}
    (htw : TrackedWs tracked) {emp : κ} {isEmp : κ → Bool} (hemp : ∀ c, isEmp c = true → c = emp)
    {fs : FS κ} (hs : Safe ctx tracked fs) {q : List Name} {c : κ} {m : Nat}
    (hw : fs.get (.ws q) = some (.file c m)) {n : Nat} (hfresh : fs.get (.ctmp n) = none)
    (strat : Strat) (canRename : Bool) :
    ∀ k, Safe ctx tracked
      (replay emp fs ((commitFileCalls isEmp strat canRename (.ws q) n c (ctx.H c)).take k)) :=
  (commitFileCalls_spec g htw hemp hs hw hfresh strat canRename).1.prefixSafe g hs

/-- the same for a file at ANY path `w` that is not an object name (nor a shard directory) -/
theorem commitFile_crash_safe_gen {ctx : Ctx κ} (g : Good ctx) {tracked : List (P × κ)}
    (htw : TrackedWs tracked) {emp : κ} {isEmp : κ → Bool} (hemp : ∀ c, isEmp c = true → c = emp)
    {fs : FS κ} (hs : Safe ctx tracked fs) {w : P} (hwo : ∀ d, w ≠ .obj d) (hwsh : ∀ h, w ≠ .shard h)
    {c : κ} {m : Nat} (hw : fs.get w = some (.file c m)) {n : Nat} (hfresh : fs.get (.ctmp n) = none)
    (strat : Strat) (canRename : Bool) :
    ∀ k, Safe ctx tracked
      (replay emp fs ((commitFileCalls isEmp strat canRename w n c (ctx.H c)).take k)) := by
  have hwo' : w.isObj = false := by
    cases hb : w.isObj with
    | false => rfl
    | true => obtain ⟨d, hd⟩ := P.isObj_true hb; exact absurd hd (hwo d)
  exact (commitFileCalls_spec_gen g htw hemp hs hwo' hwsh hw hfresh strat canRename).1.prefixSafe g hs

theorem commitFile_stores {ctx : Ctx κ} (g : Good ctx) {tracked : List (P × κ)}
    (htw : TrackedWs tracked) {emp : κ} {isEmp : κ → Bool} (hemp : ∀ c, isEmp c = true → c = emp)
    {fs : FS κ} (hs : Safe ctx tracked fs) {q : List Name} {c : κ} {m : Nat}
    (hw : fs.get (.ws q) = some (.file c m)) {n : Nat} (hfresh : fs.get (.ctmp n) = none)
    (strat : Strat) (canRename : Bool) :
    (replay emp fs (commitFileCalls isEmp strat canRename (.ws q) n c (ctx.H c))).get (.obj (ctx.H c))
      = some (.file c 0o444) :=
  (commitFileCalls_spec g htw hemp hs hw hfresh strat canRename).2

/-! ## tree level -/

/-- **Traced commit of a tree**: from any safe state in which the regular files of the tree are in
place and the temp names from `n` on are unused, the state after every prefix of the trace is safe. -/
theorem commitNodeT_crash_safe {t : TCfg κ} (g : Good t.ctx) {tracked : List (P × κ)}
    (htw : TrackedWs tracked) {emp : κ} (hemp : ∀ c, t.isEmp c = true → c = emp)
    {nd : Node κ} {pre : List Name} {c : Child} {s : Store κ} {n : Nat}
    {res : Node κ × Child × Store κ} {calls : List (Call κ)} {n' : Nat}
    (hu : uniqNode nd) (h : commitNodeT t pre nd c s n = .ok (res, calls, n'))
    {fs : FS κ} (hs : Safe t.ctx tracked fs)
    (hin : ∀ p ∈ trackedOf pre nd, ∃ m, fs.get p.1 = some (.file p.2 m))
    (hfr : ∀ k, n ≤ k → fs.get (.ctmp k) = none) :
    ∀ k, Safe t.ctx tracked (replay emp fs (calls.take k)) :=
  (commitNodeT_allowed g htw hemp nd pre c s n res calls n' hu h fs hs hin hfr).prefixSafe g hs

theorem commitEntriesT_crash_safe {t : TCfg κ} (g : Good t.ctx) {tracked : List (P × κ)}
    (htw : TrackedWs tracked) {emp : κ} (hemp : ∀ c, t.isEmp c = true → c = emp)
    {es : List (Name × Node κ)} {pre : List Name} {skipDirs : Bool} {old : List Child} {s : Store κ}
    {n : Nat} {res : List (Name × Node κ) × List Child × Store κ} {calls : List (Call κ)} {n' : Nat}
    (hu : uniqList es) (h : commitEntriesT t pre skipDirs es old s n = .ok (res, calls, n'))
    {fs : FS κ} (hs : Safe t.ctx tracked fs)
    (hin : ∀ p ∈ trackedList pre es, ∃ m, fs.get p.1 = some (.file p.2 m))
    (hfr : ∀ k, n ≤ k → fs.get (.ctmp k) = none) :
    ∀ k, Safe t.ctx tracked (replay emp fs (calls.take k)) :=
  (commitEntriesT_allowed g htw hemp es pre skipDirs old s n res calls n' hu h fs hs hin hfr).prefixSafe g hs

/-- **The whole `LocalCache.Commit`** (MkdirAll, rename probe, artifact, manifest). -/
theorem commitArtT_crash_safe {t : TCfg κ} (g : Good t.ctx) {tracked : List (P × κ)}
    (htw : TrackedWs tracked) {emp : κ} (hemp : ∀ c, t.isEmp c = true → c = emp)
    {a : Art} {pre : List Name} {nd : Option (Node κ)} {s : Store κ}
    {res : Node κ × Digest × Store κ} {calls : List (Call κ)}
    (hu : uniqOpt nd) (h : commitArtT t a pre nd s = .ok (res, calls))
    {fs : FS κ} (hs : Safe t.ctx tracked fs)
    (hin : ∀ p ∈ trackedOpt pre nd, ∃ m, fs.get p.1 = some (.file p.2 m))
    (hfr : ∀ k, 1 ≤ k → fs.get (.ctmp k) = none) :
    ∀ k, Safe t.ctx tracked (replay emp fs (calls.take k)) :=
  (commitArtT_allowed g htw hemp hu h hs hin hfr).prefixSafe g hs

/-- Instance: the state is the abstraction of the workspace tree next to a consistent cache, the
recorded contents are the regular files of the tree. -/
theorem commitNodeT_crash_safe_fsOf {t : TCfg κ} (g : Good t.ctx) {emp : κ}
    (hemp : ∀ c, t.isEmp c = true → c = emp)
    {nd : Node κ} {pre : List Name} {c : Child} {s : Store κ} {n : Nat}
    {res : Node κ × Child × Store κ} {calls : List (Call κ)} {n' : Nat}
    (hu : uniqNode nd) (hc : Consistent t.ctx s)
    (h : commitNodeT t pre nd c s n = .ok (res, calls, n')) :
    ∀ k, Safe t.ctx (trackedOf pre nd) (replay emp (fsOf t.ctx pre nd s) (calls.take k)) :=
  commitNodeT_crash_safe g (trackedOf_ws pre nd) hemp hu h (fsOf_safe t.ctx pre nd s hu hc)
    (fun p hp => ⟨_, fsOf_get_tracked t.ctx pre nd s hu p hp⟩)
    (fun k _ => fsOf_get_ctmp t.ctx pre nd s k)

theorem commitArtT_crash_safe_fsOf {t : TCfg κ} (g : Good t.ctx) {emp : κ}
    (hemp : ∀ c, t.isEmp c = true → c = emp)
    {a : Art} {nd : Node κ} {pre : List Name} {s : Store κ}
    {res : Node κ × Digest × Store κ} {calls : List (Call κ)}
    (hu : uniqNode nd) (hc : Consistent t.ctx s)
    (h : commitArtT t a pre (some nd) s = .ok (res, calls)) :
    ∀ k, Safe t.ctx (trackedOf pre nd) (replay emp (fsOf t.ctx pre nd s) (calls.take k)) :=
  commitArtT_crash_safe (nd := some nd) g (trackedOf_ws pre nd) hemp hu h
    (fsOf_safe t.ctx pre nd s hu hc)
    (fun p hp => ⟨_, fsOf_get_tracked t.ctx pre nd s hu p hp⟩)
    (fun k _ => fsOf_get_ctmp t.ctx pre nd s k)

/-- sorted trees (the canonical representation used by C01 …) have duplicate-free names -/
theorem commitNodeT_crash_safe_sorted {t : TCfg κ} (g : Good t.ctx) {emp : κ}
    (hemp : ∀ c, t.isEmp c = true → c = emp)
    {nd : Node κ} {pre : List Name} {c : Child} {s : Store κ} {n : Nat}
    {res : Node κ × Child × Store κ} {calls : List (Call κ)} {n' : Nat}
    (hsrt : nd.sorted = true) (hc : Consistent t.ctx s)
    (h : commitNodeT t pre nd c s n = .ok (res, calls, n')) :
    ∀ k, Safe t.ctx (trackedOf pre nd) (replay emp (fsOf t.ctx pre nd s) (calls.take k)) :=
  commitNodeT_crash_safe_fsOf g hemp (uniqNode_of_sorted nd hsrt) hc h


/-! ## metadata files (stage files, the index) -/

theorem take_append_singleton_le {α : Type} (l : List α) (a : α) {k : Nat} (h : k ≤ l.length) :
    (l ++ [a]).take k = l.take k := by
  rw [List.take_append]
  have : k - l.length = 0 := by omega
  simp [this]

theorem take_append_singleton_gt {α : Type} (l : List α) (a : α) {k : Nat} (h : l.length < k) :
    (l ++ [a]).take k = l ++ [a] :=
  List.take_of_length_le (by simp; omega)

/-- **temp + rename is atomic**: after every prefix of the calls the metadata file is either exactly
what it was or the complete new version. -/
theorem meta_atomic (emp : κ) (isEmp : κ → Bool) (hemp : ∀ c, isEmp c = true → c = emp)
    (fs : FS κ) (p tmp : P) (hne : tmp ≠ p) (habs : fs.get tmp = none) (new : κ) :
    ∀ k, (replay emp fs ((metaWriteCalls true p tmp isEmp new).take k)).get p = fs.get p ∨
      ∃ m, (replay emp fs ((metaWriteCalls true p tmp isEmp new).take k)).get p = some (.file new m) := by
  intro k
  -- the calls before the rename only touch `tmp`
  let body : List (Call κ) :=
    [.createExcl tmp] ++ (if isEmp new then [] else [.writePart tmp, .write tmp new])
  have hcalls : metaWriteCalls true p tmp isEmp new = body ++ [.rename tmp p] := by
    simp [metaWriteCalls, body]
  have hbody : ∀ c ∈ body, p ∉ callWrites c := by
    intro c hc
    have hne' : ¬ p = tmp := fun h => hne h.symm
    cases he : isEmp new <;> simp [body, he] at hc
    · rcases hc with rfl | rfl | rfl <;> simp [callWrites, callPaths, hne']
    · subst hc; simp [callWrites, callPaths, hne']
  have htmp : (replay emp fs body).get tmp = some (.file new 0o600) := by
    have h1 : (apply emp fs (.createExcl tmp)).get tmp = some (.file emp 0o600) :=
      get_createExcl_self habs
    cases he : isEmp new with
    | true =>
      have := hemp new he; subst this
      simpa [body, he, replay] using h1
    | false =>
      have h2 := get_writePart_self (emp := emp) h1
      have h3 := get_write_self_torn (emp := emp) new h2
      simpa [body, he, replay] using h3
  rw [hcalls]
  by_cases hk : k ≤ body.length
  · left
    rw [take_append_singleton_le _ _ hk]
    exact replay_get_frame emp _ p fs (fun c hc => hbody c (List.mem_of_mem_take hc))
  · right
    rw [take_append_singleton_gt _ _ (by omega), replay_append]
    exact ⟨_, by simpa [replay] using get_rename_dst (emp := emp) (d := p) htmp⟩

/-- **create-truncate is not**: killed right after the first call (`os.Create`), the file is neither
the old nor the new version — it is empty. -/
theorem meta_torn_in_place (emp : κ) (isEmp : κ → Bool) (fs : FS κ) (p tmp : P) (old new : κ) (m : Nat)
    (hold : fs.get p = some (.file old m)) (ho : old ≠ emp) (hn : new ≠ emp) :
    ∃ k, (replay emp fs ((metaWriteCalls false p tmp isEmp new).take k)).get p ≠ fs.get p ∧
      ∀ m', (replay emp fs ((metaWriteCalls false p tmp isEmp new).take k)).get p
        ≠ some (.file new m') := by
  refine ⟨1, ?_, ?_⟩
  · simp [metaWriteCalls, replay, apply, FS.get_set, hold, Ne.symm ho]
  · intro m'
    simp [metaWriteCalls, replay, apply, FS.get_set, Ne.symm hn]

/-- with a non-empty new version there is a second bad instant: the partially written file -/
theorem meta_torn_in_place_partial_write (emp : κ) (isEmp : κ → Bool) (fs : FS κ) (p tmp : P) (new : κ)
    (he : isEmp new = false) :
    (replay emp fs ((metaWriteCalls false p tmp isEmp new).take 2)).get p = some (.torn 0o644) := by
  simp [metaWriteCalls, he, replay, apply, FS.get_set]

/-! ## checkout of one file -/

theorem Backed.frame {ctx : Ctx κ} {tracked : List (P × κ)} {fs fs' : FS κ} {p : P}
    (h : Backed ctx tracked fs p) (hobj : ∀ d, fs'.get (.obj d) = fs.get (.obj d)) :
    Backed ctx tracked fs' p := by
  intro c hc
  obtain ⟨m, hm⟩ := h c hc
  exact ⟨m, by rw [hobj]; exact hm⟩

/-- creating and filling a file at a backed, absent, non-object path -/
theorem createAndFill_allowed {ctx : Ctx κ} {tracked : List (P × κ)} {emp : κ} (isEmp : κ → Bool)
    {fs : FS κ} {w : P} (hwo : w.isObj = false) (hb : Backed ctx tracked fs w) (c : κ) :
    AllowedTrace ctx emp tracked fs
      ([.createExcl w] ++ (if isEmp c then [] else [.writePart w, .write w c])) := by
  have hfr : ∀ (fs0 : FS κ) (call : Call κ), callWrites call = [w] → ∀ d,
      (apply emp fs0 call).get (.obj d) = fs0.get (.obj d) := by
    intro fs0 call hcw d
    apply apply_get_frame
    rw [hcw]; simp; exact Ne.symm (P.isObj_false hwo d)
  cases he : isEmp c with
  | true => exact ⟨hwo, trivial⟩
  | false =>
    have hb1 := hb.frame (hfr fs (.createExcl w) rfl)
    have hb2 := hb1.frame (hfr _ (.writePart w) rfl)
    exact ⟨hwo, ⟨hwo, hb1⟩, ⟨hwo, hb2⟩, trivial⟩

/-- **`checkoutFile`**, both strategies.  `wasExactLink = true`: the workspace path is a link to the
very object being checked out (the only case in which something is removed); otherwise the path is
absent.  The state after every prefix is safe: every recorded content stays retrievable through the
cache object, the partially written copy sits at a NEW path. -/
theorem checkoutFileCalls_crash_safe {ctx : Ctx κ} (g : Good ctx) {tracked : List (P × κ)} {emp : κ}
    (isEmp : κ → Bool) {fs : FS κ} (hs : Safe ctx tracked fs) (strat : Strat) {w : P}
    (hwo : w.isObj = false) (wasExactLink : Bool) (c : κ) (d : Digest)
    (hpre : if wasExactLink then fs.get w = some (.link (.obj d)) else fs.get w = none) :
    ∀ k, Safe ctx tracked
      (replay emp fs ((checkoutFileCalls isEmp strat w wasExactLink c d).take k)) := by
  refine AllowedTrace.prefixSafe g hs ?_
  cases strat with
  | link =>
    cases wasExactLink with
    | true => trivial
    | false => exact ⟨hwo, trivial⟩
  | copy =>
    cases wasExactLink with
    | false =>
      simp only [Bool.false_eq_true, if_false] at hpre
      simpa [checkoutFileCalls] using
        createAndFill_allowed (emp := emp) isEmp hwo (backed_of_absent hs hpre) c
    | true =>
      simp only [if_true] at hpre
      have hb : Backed ctx tracked fs w := backed_of_link hs hpre
      have hb1 : Backed ctx tracked (apply emp fs (.unlink w)) w :=
        hb.frame (fun d' => apply_get_frame _ _ _ _ (by
          simp [callWrites, callPaths]; exact Ne.symm (P.isObj_false hwo d')))
      have := createAndFill_allowed (emp := emp) isEmp hwo hb1 c
      simp only [checkoutFileCalls, if_true]
      exact ⟨⟨hwo, hb⟩, by simpa using this⟩

/-- the copy is written to a path that does not exist at that moment -/
theorem checkout_copy_new_path (emp : κ) (fs : FS κ) (w : P) :
    (apply emp fs (.unlink w)).get w = none := get_unlink_self


/-! ## non-vacuity: concrete instances -/

namespace Example
open Dud Dud.Sys Dud.Example

def emp : K := .raw ""
def isEmp (k : K) : Bool := k == .raw ""
theorem hemp : ∀ c, isEmp c = true → c = emp := by
  intro c h; simpa [isEmp, emp] using h

def tc (strat : Strat) (canRename : Bool) : TCfg K :=
  { ctx := ctx, isEmp := isEmp, strat := strat, canRename := canRename }

/-- two levels, an empty file, an empty directory, the same content twice -/
def tree : Node K :=
  .dir [([97], .file (.raw "alpha")),
        ([98], .dir [([99], .file (.raw "")), ([100], .dir [])]),
        ([101], .file (.raw "alpha"))]

def art : Art := { path := [116], isDir := true }

theorem tree_uniq : uniqNode tree := by
  simp [tree, uniqNode, uniqList]

theorem empty_consistent : Consistent ctx ([] : Store K) := by
  intro d o h; simp [Store.get, alookup] at h

/-- All hypotheses of the tree-level theorem are satisfiable together, the traced commit succeeds
(for every strategy / rename capability), and every crash prefix is safe. -/
example (strat : Strat) (canRename : Bool) :
    ∃ res calls, commitArtT (tc strat canRename) art [[116]] (some tree) [] = .ok (res, calls) ∧
      ∀ k, Safe ctx (trackedOf [[116]] tree) (replay emp (fsOf ctx [[116]] tree []) (calls.take k)) := by
  have h : ∃ res calls, commitArtT (tc strat canRename) art [[116]] (some tree) [] = .ok (res, calls) := by
    cases strat <;> cases canRename <;> exact ⟨_, _, rfl⟩
  obtain ⟨res, calls, h⟩ := h
  exact ⟨res, calls, h, commitArtT_crash_safe_fsOf (t := tc strat canRename) good hemp tree_uniq
    empty_consistent h⟩

/-- the file-level theorem on a concrete state -/
example (strat : Strat) (canRename : Bool) (k : Nat) :
    Safe ctx [(.ws [[102]], .raw "data")]
      (replay emp [(.ws [[102]], .file (.raw "data") 0o644)]
        ((commitFileCalls isEmp strat canRename (.ws [[102]]) 7 (.raw "data") (ctx.H (.raw "data"))).take k)) := by
  have hs : Safe ctx [(.ws [[102]], K.raw "data")] [(.ws [[102]], .file (.raw "data") 0o644)] := by
    refine ⟨fun p hp => ?_, fun d e he => ?_⟩
    · simp at hp; subst hp; exact Or.inl ⟨0o644, by simp [FS.get, alookup]⟩
    · simp [FS.get, alookup] at he
  exact commitFile_crash_safe good (fun p hp => by simp at hp; subst hp; exact ⟨_, rfl⟩) hemp hs
    (m := 0o644) (by simp [FS.get, alookup]) (by simp [FS.get, alookup]) strat canRename k

/-! executable evidence: a Boolean checker of `Safe` run on every prefix -/

def fileAt (fs : FS K) (p : P) (c : K) : Bool :=
  match fs.get p with
  | some (.file c' _) => c' == c
  | _ => false

def retrB (fs : FS K) (w : P) (c : K) : Bool :=
  fileAt fs w c ||
  (match fs.get w with
   | some (.link (.obj d)) => fileAt fs (.obj d) c
   | _ => false) ||
  fileAt fs (.obj (ctx.H c)) c

def noTornB (fs : FS K) : Bool :=
  fs.all (fun e => match e.1 with
    | .obj d => (match fs.get (.obj d) with
      | some (.file c _) => ctx.H c == d
      | some _ => false
      | none => true)
    | _ => true)

def safeB (tracked : List (P × K)) (fs : FS K) : Bool :=
  tracked.all (fun p => retrB fs p.1 p.2) && noTornB fs

def showP : P → String
  | .ws rel => "ws:" ++ "/".intercalate (rel.map (fun n => String.ofList (n.map (fun b => Char.ofNat b.toNat))))
  | .obj d => s!"obj#{d.length}"
  | .shard h => s!"shard:{h}"
  | .ctmp n => s!"ctmp{n}"
  | .wtmp n => s!"wtmp{n}"
  | .cacheRoot => "cache"
  | .lock => "lock"
  | .stageFile _ => "stage"
  | .stageTmp _ => "stageTmp"
  | .index => "index"
  | .indexTmp => "indexTmp"

def showCall : Call K → String
  | .mkdir p => s!"mkdir {showP p}"
  | .createExcl p => s!"createExcl {showP p}"
  | .createTrunc p => s!"createTrunc {showP p}"
  | .writePart p => s!"writePart {showP p}"
  | .write p _ => s!"write {showP p}"
  | .rename s d => s!"rename {showP s} {showP d}"
  | .chmod p m => s!"chmod {showP p} {m}"
  | .unlink p => s!"unlink {showP p}"
  | .symlink t p => s!"symlink {showP t} {showP p}"

/-- trace of the whole commit, and whether every crash prefix passes the Boolean checker -/
def report (strat : Strat) (canRename : Bool) : String :=
  match commitArtT (tc strat canRename) art [[116]] (some tree) [] with
  | .error e => s!"error {e}"
  | .ok (_, calls) =>
    let fs0 := fsOf ctx [[116]] tree []
    let tracked := trackedOf [[116]] tree
    let ok := (List.range (calls.length + 1)).all (fun k => safeB tracked (replay emp fs0 (calls.take k)))
    s!"{calls.length} calls, every prefix safe: {ok}; " ++ "; ".intercalate (calls.map showCall)

#eval report .link true
#eval report .link false
#eval report .copy false

-- the checker does reject bad traces: removing a tracked file that is not in the cache
#eval safeB (trackedOf [[116]] tree) (replay emp (fsOf ctx [[116]] tree []) [.unlink (.ws [[116], [97]])])
-- … and a torn object: writing in place under a digest name
#eval safeB (trackedOf [[116]] tree)
  (replay emp (fsOf ctx [[116]] tree []) [.createExcl (.obj "xxx00"), .writePart (.obj "xxx00")])

/-- metadata: every prefix of the atomic variant shows the old or the new version; the in-place
variant shows an empty file after its first call -/
def metaReport (atomic : Bool) : List String :=
  let fs0 : FS K := [(.index, .file (.raw "old") 0o644)]
  let calls := metaWriteCalls atomic .index .indexTmp isEmp (K.raw "new")
  (List.range (calls.length + 1)).map (fun k =>
    match (replay emp fs0 (calls.take k)).get .index with
    | some (.file (.raw s) _) => s!"k={k}: \"{s}\""
    | some (.torn _) => s!"k={k}: TORN"
    | _ => s!"k={k}: ?")

#eval metaReport true
#eval metaReport false

example : ∀ k, (replay emp [(.index, .file (.raw "old") 0o644)]
      ((metaWriteCalls true .index .indexTmp isEmp (K.raw "new")).take k)).get .index
        = some (.file (.raw "old") 0o644) ∨
    ∃ m, (replay emp [(.index, .file (.raw "old") 0o644)]
      ((metaWriteCalls true .index .indexTmp isEmp (K.raw "new")).take k)).get .index
        = some (.file (.raw "new") m) :=
  meta_atomic emp isEmp hemp _ .index .indexTmp (by decide) (by simp [FS.get, alookup]) (.raw "new")

example : ∃ k, (replay emp [(.index, .file (.raw "old") 0o644)]
      ((metaWriteCalls false .index .indexTmp isEmp (K.raw "new")).take k)).get .index
        ≠ some (.file (.raw "old") 0o644) ∧
    ∀ m', (replay emp [(.index, .file (.raw "old") 0o644)]
      ((metaWriteCalls false .index .indexTmp isEmp (K.raw "new")).take k)).get .index
        ≠ some (.file (.raw "new") m') :=
  meta_torn_in_place emp isEmp [(.index, .file (.raw "old") 0o644)] .index .indexTmp (.raw "old")
    (.raw "new") 0o644 (by simp [FS.get, alookup]) (by simp [emp]) (by simp [emp])

/-- checkout by copy over a link to the very object: every prefix safe -/
example (k : Nat) :
    Safe ctx [(.ws [[102]], .raw "data")]
      (replay emp [(.ws [[102]], .link (.obj (ctx.H (.raw "data")))),
                   (.obj (ctx.H (.raw "data")), .file (.raw "data") 0o444)]
        ((checkoutFileCalls isEmp .copy (.ws [[102]]) true (.raw "data") (ctx.H (.raw "data"))).take k)) := by
  refine checkoutFileCalls_crash_safe good isEmp ?_ .copy rfl true _ _ (by simp [FS.get, alookup]) k
  refine ⟨fun p hp => ?_, fun d e he => ?_⟩
  · simp at hp; subst hp
    exact Or.inr (Or.inr ⟨0o444, by simp [FS.get, alookup]⟩)
  · simp [FS.get, alookup] at he
    obtain ⟨hd, rfl⟩ := he
    exact ⟨_, _, rfl, hd⟩

end Example

#print axioms commitFileT_refines
#print axioms commitNodeT_refines
#print axioms commitEntriesT_refines
#print axioms commitArtT_refines
#print axioms Safe.apply
#print axioms AllowedTrace.prefixSafe
#print axioms AllowedTrace.append
#print axioms PrefixSafe.append
#print axioms copyIntoCache_crash_safe
#print axioms copyIntoCache_stores
#print axioms commitFile_crash_safe
#print axioms commitFile_crash_safe_gen
#print axioms commitFile_stores
#print axioms commitNodeT_foot
#print axioms commitEntriesT_foot
#print axioms commitNodeT_allowed
#print axioms commitEntriesT_allowed
#print axioms commitArtT_allowed
#print axioms commitNodeT_crash_safe
#print axioms commitEntriesT_crash_safe
#print axioms commitArtT_crash_safe
#print axioms fsOf_safe
#print axioms commitNodeT_crash_safe_fsOf
#print axioms commitArtT_crash_safe_fsOf
#print axioms commitNodeT_crash_safe_sorted
#print axioms meta_atomic
#print axioms meta_torn_in_place
#print axioms meta_torn_in_place_partial_write
#print axioms checkoutFileCalls_crash_safe
#print axioms checkout_copy_new_path
#print axioms Example.hemp
#print axioms Example.tree_uniq

end Dud.Sys
