import DudModel.Lemmas.WorldRemote
/-!
# C11 at the world level — `dud push` and `dud fetch` over a multi-stage index

`Props/C11.lean` proves the closure properties for one stage (`pushAct`, `fetchAct`).  This file
lifts them through the index traversal of the commands `cmdPush` and `cmdFetch`: the statements are
about EVERY stage in the traversal scope `CmdScope cfg w single targets` (the requested targets — all
stages if none is given — plus, unless `--single-stage` comes with targets, everything upstream of
them through input ownership).

(`Props/C11.lean` itself cannot be imported next to `Props/C08.lean` — both declare
`Dud.mem_insertArt_of_mem` — nor its lemma file `Lemmas/Remote.lean` next to `Lemmas/Tree.lean`, on
which the world-level round trip `Props/C01world.lean` rests.  The file therefore builds on
`Lemmas/RemoteT.lean`, the same lemmas proved on top of `Lemmas/Tree.lean`; the stage-level steps
`pushInv_step` / `fetchInv_step` are `push_closure` resp. `fetch_mono` +
`fetch_closure_global_partial` of `Props/C11.lean` in invariant form.  The composition with commit
and checkout is in `Props/C11trip.lean`.)

Main statements:
* `cmdPush_world`: after a successful push the local cache, the index and the workspace are unchanged,
  the remote only grew, every new remote binding is a verbatim copy of a local one, and the remote
  holds the closure (`Reaches`) of every non-skip output of every stage in scope, all of it present
  locally; `cmdPush_world_bytes`: … with the same bytes as locally (consistent caches);
* `cmdPush_world_missing_fails`: if an object reachable from a non-skip output of a stage in scope is
  missing locally, push does not succeed;
* `cmdFetch_world_mono`: fetch changes neither remote, index nor workspace, the local cache only
  grows, by bindings taken verbatim from the remote;
* `cmdFetch_world_closure_partial`: after a successful fetch the whole closure of every non-skip
  output of every stage in scope is in the local cache — PARTIAL: under `KindsAgree` on the manifest
  entries readable from the local cache or the remote before the fetch (no checksum listed both as a
  file and as a directory); `fetch_skips_children` in `Props/C11.lean` shows that the stage-level
  statement is false without it; `ToyBad.fetch_world_skips_children` is the same witness as a world;
* `cmdFetch_world_checkout_partial`: … hence no `checkoutArt` of such an output can fail for want of
  a cache object;
* `push_fetch_world_partial` / `push_lose_fetch_world_partial`: push, then fetch into another (an
  empty) cache restores every object of these closures with the same bytes.
-/
namespace Dud

open WR RT

variable {κ : Type}

/-! ## 1. push -/

/-- invariant of the push traversal started in `w0` -/
structure PushInv (cfg : Cfg κ) (w0 u : World κ) : Prop where
  store : u.store = w0.store
  ws : u.ws = w0.ws
  grows : ∀ d o, w0.remote.get d = some o → u.remote.get d = some o
  prov : ∀ d o, u.remote.get d = some o → w0.remote.get d = some o ∨ w0.store.get d = some o
  finished : ∀ sp stg, u.done.contains sp = true → alookup w0.idx sp = some stg →
    ∀ a, a ∈ sortArts stg.outputs → a.skip = false → ∀ d, Reaches cfg.ctx w0.store a.child d →
      u.remote.has d = true ∧ w0.store.has d = true

theorem PushInv.init (cfg : Cfg κ) (w0 : World κ) : PushInv cfg w0 (fresh w0) where
  store := rfl
  ws := rfl
  grows := fun _ _ h => h
  prov := fun _ _ h => .inl h
  finished := fun sp _ h => by simp [fresh] at h

/-- one stage action of the push traversal keeps the invariant (`push_closure` of `Props/C11.lean`) -/
theorem pushInv_step (cfg : Cfg κ) (w0 : World κ) (sp : Bytes) (u u' : World κ) (hidx : u.idx = w0.idx)
    (hinv : PushInv cfg w0 u) (h : pushAct cfg sp u = .ok u') : PushInv cfg w0 u' := by
  obtain ⟨stg, ds, rem, hs, hg, hc, rfl⟩ := pushAct_inv h
  obtain ⟨c1, c2, c3⟩ := copyObjs_post u.store ds u.remote rem hc
  obtain ⟨_, g2, _⟩ := gatherArts_post cfg u.store _ [] ds hg
  refine ⟨hinv.store, hinv.ws, fun d o ho => c1 d o (hinv.grows d o ho), ?_, ?_⟩
  · intro d o ho
    rcases c3 d o ho with h | ⟨_, _, h⟩
    · exact hinv.prov d o h
    · exact .inr (by rw [← hinv.store]; exact h)
  · intro x stgx hx hsx a ha hsk d hr
    by_cases hxs : x = sp
    · subst hxs
      rw [← hidx, hs] at hsx
      cases hsx
      rw [← hinv.store] at hr ⊢
      obtain ⟨hmem, hhas⟩ := g2 d ⟨a, ha, hsk, hr⟩
      exact ⟨(c2 d hmem).1, hhas⟩
    · obtain ⟨p1, p2⟩ := hinv.finished x stgx (contains_cons_eq_false hx hxs) hsx a ha hsk d hr
      exact ⟨c1.has p1, p2⟩

/-- unfolding of `cmdPush` -/
theorem cmdPush_eq {cfg : Cfg κ} {single : Bool} {targets : List Bytes} {w w' : World κ}
    (h : cmdPush cfg single targets w = .ok w') :
    perTarget (fun t u => visit (simpleTrav cfg (pushAct cfg)) (targets.isEmpty || !single)
      (u.idx.length + 1) (allStages u) t u) (if targets.isEmpty then allStages w else targets)
      (fresh w) = .ok w' := by
  unfold cmdPush at h
  split at h
  · cases h
  · exact h

/-- **`dud push`, world level.** After a successful `cmdPush`: the local cache, the index and the
workspace are unchanged; the remote only grows, and every binding it holds was there before or is a
verbatim copy of a local one; for EVERY stage in scope, every non-skip output `a` of it and every
object `d` in the closure of `a` (in the local cache), `d` is on the remote afterwards and is present
locally. -/
theorem cmdPush_world (cfg : Cfg κ) (single : Bool) (targets : List Bytes) (w w' : World κ)
    (h : cmdPush cfg single targets w = .ok w') :
    w'.store = w.store ∧ w'.idx = w.idx ∧ w'.ws = w.ws ∧
    (∀ d o, w.remote.get d = some o → w'.remote.get d = some o) ∧
    (∀ d o, w'.remote.get d = some o → w.remote.get d = some o ∨ w.store.get d = some o) ∧
    ∀ sp stg, CmdScope cfg w single targets sp → alookup w.idx sp = some stg →
      ∀ a, a ∈ sortArts stg.outputs → a.skip = false → ∀ d, Reaches cfg.ctx w.store a.child d →
        w'.remote.has d = true ∧ w.store.has d = true := by
  obtain ⟨hidx, hinv, hdone⟩ := simpleCmd_lift cfg (pushAct cfg) (pushAct_frame cfg) _ _ w w'
    (PushInv cfg w) (PushInv.init cfg w)
    (fun sp u u' hi hq _ hact => pushInv_step cfg w sp u u' hi hq hact) (cmdPush_eq h)
  exact ⟨hinv.store, hidx, hinv.ws, hinv.grows, hinv.prov,
    fun sp stg hsc hs => hinv.finished sp stg (hdone sp hsc) hs⟩

/-- the same for the outputs as listed in the stage, when their paths are pairwise distinct (Go: the
outputs are a map keyed by path) -/
theorem cmdPush_world_outputs (cfg : Cfg κ) (single : Bool) (targets : List Bytes) (w w' : World κ)
    (h : cmdPush cfg single targets w = .ok w') (sp : Bytes) (stg : Stage)
    (hsc : CmdScope cfg w single targets sp) (hs : alookup w.idx sp = some stg)
    (huniq : stg.outputs.Pairwise (fun x y => x.path ≠ y.path)) :
    ∀ a, a ∈ stg.outputs → a.skip = false → ∀ d, Reaches cfg.ctx w.store a.child d →
      w'.remote.has d = true ∧ w.store.has d = true :=
  fun a ha => (cmdPush_world cfg single targets w w' h).2.2.2.2.2 sp stg hsc hs a
    (mem_sortArts_of_mem huniq ha)

/-- … and what the remote holds for a pushed digest has the bytes of the local object (consistent
caches, injective hash): push does not overwrite, an object already on the remote stays -/
theorem cmdPush_world_bytes {cfg : Cfg κ} (hg : Good cfg.ctx) (single : Bool) (targets : List Bytes)
    (w w' : World κ) (h : cmdPush cfg single targets w = .ok w')
    (hcs : Consistent cfg.ctx w.store) (hcr : Consistent cfg.ctx w.remote) :
    Consistent cfg.ctx w'.remote ∧
    ∀ sp stg, CmdScope cfg w single targets sp → alookup w.idx sp = some stg →
      ∀ a, a ∈ sortArts stg.outputs → a.skip = false → ∀ d, Reaches cfg.ctx w.store a.child d →
        ∃ o o', w.store.get d = some o ∧ w'.remote.get d = some o' ∧
          o'.bytes cfg.ctx = o.bytes cfg.ctx := by
  obtain ⟨_, _, _, _, hprov, hcl⟩ := cmdPush_world cfg single targets w w' h
  have hcr' : Consistent cfg.ctx w'.remote := by
    intro d o ho
    rcases hprov d o ho with h | h
    · exact hcr d o h
    · exact hcs d o h
  refine ⟨hcr', ?_⟩
  intro sp stg hsc hs a ha hsk d hr
  obtain ⟨h1, h2⟩ := hcl sp stg hsc hs a ha hsk d hr
  obtain ⟨o, ho⟩ := Store.has_eq_true.1 h2
  obtain ⟨o', ho'⟩ := Store.has_eq_true.1 h1
  exact ⟨o, o', ho, ho', hg.inj _ _ ((hcr' d o' ho').trans (hcs d o ho).symm)⟩

/-- **Failure direction** (`gather_missing_fails` lifted): if some object reachable from a non-skip
output of a stage in scope is missing from the local cache, `cmdPush` does not succeed. -/
theorem cmdPush_world_missing_fails (cfg : Cfg κ) (single : Bool) (targets : List Bytes) (w : World κ)
    (sp : Bytes) (stg : Stage) (hsc : CmdScope cfg w single targets sp)
    (hs : alookup w.idx sp = some stg) (a : Art) (ha : a ∈ sortArts stg.outputs) (hsk : a.skip = false)
    (d : Digest) (hr : Reaches cfg.ctx w.store a.child d) (hm : w.store.has d = false) :
    ∀ w', cmdPush cfg single targets w ≠ .ok w' := by
  intro w' h
  have := ((cmdPush_world cfg single targets w w' h).2.2.2.2.2 sp stg hsc hs a ha hsk d hr).2
  rw [this] at hm
  cases hm

/-! ## 2. fetch -/

/-- the hypothesis of `fetch_closure_global_partial`, on the world before the fetch: among the
entries of all manifests readable from the local cache or from the remote, equal checksums have
equal kinds -/
def KindsAgreeW (cfg : Cfg κ) (w : World κ) : Prop :=
  KindsAgree (fun c => Occurs cfg.ctx w.store c ∨ Occurs cfg.ctx w.remote c)

/-- invariant of the fetch traversal started in `w0` -/
structure FetchInv (cfg : Cfg κ) (w0 u : World κ) : Prop where
  remote : u.remote = w0.remote
  ws : u.ws = w0.ws
  grows : Store.ext w0.store u.store
  prov : ∀ d o, u.store.get d = some o → w0.store.get d = some o ∨ w0.remote.get d = some o
  finished : KindsAgreeW cfg w0 → ∀ sp stg, u.done.contains sp = true → alookup w0.idx sp = some stg →
    ∀ a, a ∈ sortArts stg.outputs → a.skip = false → ∀ d, Reaches cfg.ctx u.store a.child d →
      u.store.has d = true

theorem FetchInv.init (cfg : Cfg κ) (w0 : World κ) : FetchInv cfg w0 (fresh w0) where
  remote := rfl
  ws := rfl
  grows := Store.ext.refl _
  prov := fun _ _ h => .inl h
  finished := fun _ sp _ h => by simp [fresh] at h

/-- one stage action of the fetch traversal keeps the invariant (`fetch_mono` and
`fetch_closure_global_partial` of `Props/C11.lean`; a closure completed by an earlier stage stays
complete when the cache grows: `closed_mono`) -/
theorem fetchInv_step (cfg : Cfg κ) (w0 : World κ) (sp : Bytes) (u u' : World κ) (hidx : u.idx = w0.idx)
    (hinv : FetchInv cfg w0 u) (h : fetchAct cfg sp u = .ok u') : FetchInv cfg w0 u' := by
  obtain ⟨stg, loc, hs, hf, rfl⟩ := fetchAct_inv h
  obtain ⟨e1, p1⟩ := fetchFix_ext cfg.ctx u.remote cfg.fuel u.store _ loc hf
  have hprov : ∀ d o, loc.get d = some o → w0.store.get d = some o ∨ w0.remote.get d = some o := by
    intro d o ho
    rcases p1 d o ho with h | h
    · exact hinv.prov d o h
    · exact .inr (by rw [← hinv.remote]; exact h)
  refine ⟨hinv.remote, hinv.ws, hinv.grows.trans e1, hprov, ?_⟩
  intro hk x stgx hx hsx a ha hsk d hr
  by_cases hxs : x = sp
  · subst hxs
    rw [← hidx, hs] at hsx
    cases hsx
    have hk' : KindsAgree (Occurs cfg.ctx loc) :=
      fun c1 c2 h1 h2 => hk c1 c2 (Occurs.of_prov hprov h1) (Occurs.of_prov hprov h2)
    refine fetchFix_closed cfg.ctx u.remote cfg.fuel u.store _ loc hf hk' a.child ?_ d hr
    exact List.mem_map.2 ⟨a, List.mem_filter.2 ⟨ha, by simp [hsk]⟩, rfl⟩
  · exact closed_mono e1
      (hinv.finished hk x stgx (contains_cons_eq_false hx hxs) hsx a ha hsk) d hr

/-- **`dud fetch`, world level (unconditional part; `fetch_mono` lifted).** A successful `cmdFetch`
changes neither the remote, the index nor the workspace; the local cache only grows, and every
binding it holds was there before or is taken verbatim from the remote. -/
theorem cmdFetch_world_mono (cfg : Cfg κ) (single : Bool) (targets : List Bytes) (w w' : World κ)
    (h : cmdFetch cfg single targets w = .ok w') :
    w'.remote = w.remote ∧ w'.idx = w.idx ∧ w'.ws = w.ws ∧
    (∀ d o, w.store.get d = some o → w'.store.get d = some o) ∧
    (∀ d o, w'.store.get d = some o → w.store.get d = some o ∨ w.remote.get d = some o) := by
  obtain ⟨hidx, hinv, _⟩ := simpleCmd_lift cfg (fetchAct cfg) (fetchAct_frame cfg) _ _ w w'
    (FetchInv cfg w) (FetchInv.init cfg w)
    (fun sp u u' hi hq _ hact => fetchInv_step cfg w sp u u' hi hq hact) h
  exact ⟨hinv.remote, hidx, hinv.ws, hinv.grows, hinv.prov⟩

/-- **`dud fetch`, world level, closure — PARTIAL** (needs `KindsAgreeW`: no checksum is listed both
as a file and as a directory in a manifest readable from the local cache or the remote before the
fetch; Go keys the next level of `LocalCache.Fetch` by checksum, see `fetch_skips_children`).  After
a successful `cmdFetch`, for EVERY stage in scope and every non-skip output of it, the whole closure
(in the resulting cache) is in the resulting cache. -/
theorem cmdFetch_world_closure_partial (cfg : Cfg κ) (single : Bool) (targets : List Bytes)
    (w w' : World κ) (h : cmdFetch cfg single targets w = .ok w') (hk : KindsAgreeW cfg w) :
    ∀ sp stg, CmdScope cfg w single targets sp → alookup w.idx sp = some stg →
      ∀ a, a ∈ sortArts stg.outputs → a.skip = false → ∀ d, Reaches cfg.ctx w'.store a.child d →
        w'.store.has d = true := by
  obtain ⟨_, hinv, hdone⟩ := simpleCmd_lift cfg (fetchAct cfg) (fetchAct_frame cfg) _ _ w w'
    (FetchInv cfg w) (FetchInv.init cfg w)
    (fun sp u u' hi hq _ hact => fetchInv_step cfg w sp u u' hi hq hact) h
  exact fun sp stg hsc hs => hinv.finished hk sp stg (hdone sp hsc) hs

/-- … hence, after a successful `cmdFetch`, `checkoutArt` of a non-skip output of a stage in scope
cannot fail for want of a cache object (`fetch_then_checkout_partial` lifted) — PARTIAL for the same
reason. -/
theorem cmdFetch_world_checkout_partial (cfg : Cfg κ) (strat : Strat) (single : Bool)
    (targets : List Bytes) (w w' : World κ) (h : cmdFetch cfg single targets w = .ok w')
    (hk : KindsAgreeW cfg w) :
    ∀ sp stg, CmdScope cfg w single targets sp → alookup w.idx sp = some stg →
      ∀ a, a ∈ sortArts stg.outputs → ∀ cur,
        checkoutArt cfg.ctx strat cfg.fuel a cur w'.store ≠ .error .missingFromCache := by
  intro sp stg hsc hs a ha cur hc
  unfold checkoutArt at hc
  split at hc
  · cases hc
  rename_i hsk
  split at hc
  · rename_i e he
    injection hc with hc
    subst hc
    exact checkoutNode_not_missing cfg.ctx strat w'.store cfg.fuel cur a.child
      (cmdFetch_world_closure_partial cfg single targets w w' h hk sp stg hsc hs a ha
        (by simpa using hsk)) he
  · cases hc

/-! ## 3. push, then fetch elsewhere -/

/-- **Push then fetch, world level — PARTIAL** (`KindsAgreeW` on the fetching world, as above).
`dud push` in `w`, then `dud fetch` (same flags and targets) in any world `v` with the same index,
the remote the push left and any consistent cache (e.g. an empty one: `push_lose_fetch_world_partial`):
the fetched cache is consistent, and for EVERY stage in scope, every non-skip output `a` and every
object `d` in the closure of `a` in the ORIGINAL cache, `d` is in the closure of `a` in the fetched
cache and is held there with the bytes of the original object.

This is `Store.le cfg.ctx w.store v'.store` restricted to the objects reachable from the non-skip
outputs in scope.  `commit_checkout_world_roundtrip` (`Props/C01world.lean`) asks for `Store.le` on
ALL objects of the committed cache, and a fetch restores no object outside these closures
(`cmdFetch_world_mono`: it only copies what the remote holds; `cmdPush_world`: the remote gets only
what is gathered), so the two do not compose as stated; `Props/C11trip.lean` bridges the gap
(`commit_push_fetch_checkout_world_partial`). -/
theorem push_fetch_world_partial {cfg : Cfg κ} (hg : Good cfg.ctx) (single : Bool)
    (targets : List Bytes) (w w1 v v' : World κ)
    (hcs : Consistent cfg.ctx w.store) (hcr : Consistent cfg.ctx w.remote)
    (hpush : cmdPush cfg single targets w = .ok w1)
    (hvi : v.idx = w.idx) (hvr : v.remote = w1.remote) (hvs : Consistent cfg.ctx v.store)
    (hk : KindsAgreeW cfg v) (hfetch : cmdFetch cfg single targets v = .ok v') :
    Consistent cfg.ctx v'.store ∧
    ∀ sp stg, CmdScope cfg w single targets sp → alookup w.idx sp = some stg →
      ∀ a, a ∈ sortArts stg.outputs → a.skip = false → ∀ d, Reaches cfg.ctx w.store a.child d →
        Reaches cfg.ctx v'.store a.child d ∧
        ∃ o o', w.store.get d = some o ∧ v'.store.get d = some o' ∧
          o'.bytes cfg.ctx = o.bytes cfg.ctx := by
  obtain ⟨hcr1, _⟩ := cmdPush_world_bytes hg single targets w w1 hpush hcs hcr
  obtain ⟨_, _, _, _, _, hpc⟩ := cmdPush_world cfg single targets w w1 hpush
  obtain ⟨_, _, _, _, hprov⟩ := cmdFetch_world_mono cfg single targets v v' hfetch
  have hcv' : Consistent cfg.ctx v'.store := by
    intro d o ho
    rcases hprov d o ho with h | h
    · exact hvs d o h
    · exact hcr1 d o (by rw [← hvr]; exact h)
  refine ⟨hcv', ?_⟩
  intro sp stg hsc hs a ha hsk d hr
  have hcl := cmdFetch_world_closure_partial cfg single targets v v' hfetch hk sp stg
    ((cmdScope_congr cfg hvi single targets sp).2 hsc) (by rw [hvi]; exact hs) a ha hsk
  have hr' := reaches_transfer hg hcs hcv' a.child d hr hcl
  exact ⟨hr', same_bytes hg hcs hcv' (hpc sp stg hsc hs a ha hsk d hr).2 (hcl d hr')⟩

/-- the same after LOSING the local cache (`store := []`); `KindsAgree` is then a condition on the
remote the push left alone -/
theorem push_lose_fetch_world_partial {cfg : Cfg κ} (hg : Good cfg.ctx) (single : Bool)
    (targets : List Bytes) (w w1 v' : World κ)
    (hcs : Consistent cfg.ctx w.store) (hcr : Consistent cfg.ctx w.remote)
    (hpush : cmdPush cfg single targets w = .ok w1)
    (hk : KindsAgree (Occurs cfg.ctx w1.remote))
    (hfetch : cmdFetch cfg single targets { w1 with store := [] } = .ok v') :
    ∀ sp stg, CmdScope cfg w single targets sp → alookup w.idx sp = some stg →
      ∀ a, a ∈ sortArts stg.outputs → a.skip = false → ∀ d, Reaches cfg.ctx w.store a.child d →
        Reaches cfg.ctx v'.store a.child d ∧
        ∃ o o', w.store.get d = some o ∧ v'.store.get d = some o' ∧
          o'.bytes cfg.ctx = o.bytes cfg.ctx := by
  refine (push_fetch_world_partial hg single targets w w1 { w1 with store := [] } v' hcs hcr hpush
    (cmdPush_world cfg single targets w w1 hpush).2.1 rfl (Consistent.nil _) ?_ hfetch).2
  intro c1 c2 h1 h2
  have hno : ∀ c, ¬ Occurs cfg.ctx ([] : Store κ) c := by
    rintro c ⟨d, cs, hm, _⟩
    simp [readManifest, Store.get, alookup] at hm
  rcases h1 with h1 | h1
  · exact absurd h1 (hno _)
  rcases h2 with h2 | h2
  · exact absurd h2 (hno _)
  exact hk c1 c2 h1 h2

/-! ## non-vacuity: a three-stage index

Hash = identity on strings (as in `Props/C11.lean`).  Stage `[1]` owns the directory `a` (object
`"root"`, a manifest listing the directory `"xxx"`, itself a manifest listing the file `"leaf"`);
stage `[2]` reads `a` and writes the file `b` (object `"fileb"`); stage `[3]` writes `c`, whose object
`"zzz"` is NOT in the local cache.  `dud push [2]` acts on `[2]` and on its upstream stage `[1]`. -/
namespace ToyW

def ctx : Ctx String :=
  { H := id, encMan := fun _ _ _ => "", nameOK := fun _ => true,
    -- every entry read from any manifest is a directory iff its checksum is "xxx"
    reload := fun _ c => ⟨c.name, c.sum, c.sum == "xxx"⟩,
    decBlob := fun c =>
      if c = "root" then some [⟨[97], "xxx", true⟩]
      else if c = "xxx" then some [⟨[99], "leaf", false⟩] else none }

def cfg : Cfg String :=
  { ctx := ctx, ofBytes := fun _ => "", toBytes := fun _ => [], walkAccumulates := false, fuel := 5 }

def outA : Art := { path := [97], sum := "root", isDir := true }
def outB : Art := { path := [98], sum := "fileb" }
def outC : Art := { path := [99], sum := "zzz" }
def stageA : Stage := { cmd := [1], outputs := [outA] }
def stageB : Stage := { cmd := [2], inputs := [{ path := [97], isDir := true }], outputs := [outB] }
def stageC : Stage := { cmd := [3], outputs := [outC] }

def w0 : World String :=
  { store := [("root", .blob "root"), ("xxx", .blob "xxx"), ("leaf", .blob "leaf"),
      ("fileb", .blob "fileb")],
    idx := [([1], stageA), ([2], stageB), ([3], stageC)] }

/-- the world after `dud push [2]`, computed by the model -/
def w1 : World String :=
  match cmdPush cfg false [[2]] w0 with
  | .ok w => w
  | .error _ => default

theorem push_ok : cmdPush cfg false [[2]] w0 = .ok w1 := rfl

theorem scopeB : CmdScope cfg w0 false [[2]] [2] := TravScope.root (by simp)
/-- stage `[1]` is in scope of `dud push [2]`: it owns the input `a` of stage `[2]` -/
theorem scopeA : CmdScope cfg w0 false [[2]] [1] :=
  TravScope.up scopeB (show [1] ∈ ownIdx cfg w0.idx [2] by decide)
/-- … but not of `dud push --single-stage [2]` -/
theorem scopeA_single : ¬ CmdScope cfg w0 true [[2]] [1] := by
  rintro ⟨t, ht, h⟩
  simp only [List.isEmpty_cons, Bool.not_true, Bool.or_self, Bool.false_eq_true, if_false,
    List.mem_singleton] at ht h
  rw [ht] at h
  cases h

theorem outA_reaches_leaf : Reaches ctx w0.store outA.child "leaf" := by
  refine .child _ [⟨[97], "xxx", true⟩] ⟨[97], "xxx", true⟩ "leaf" rfl ?_ (by simp) ?_
  · rfl
  · refine .child _ [⟨[99], "leaf", false⟩] ⟨[99], "leaf", false⟩ "leaf" rfl ?_ (by simp) (.self _)
    rfl

/-- **`cmdPush_world` instantiated**: after `dud push [2]` the remote holds the objects of `a/`
(stage `[1]`, upstream), down to the leaf, and the object of `b` (stage `[2]`). -/
theorem push_two_stages :
    w1.remote.has "leaf" = true ∧ w1.remote.has "root" = true ∧ w1.remote.has "fileb" = true := by
  have h := (cmdPush_world cfg false [[2]] w0 w1 push_ok).2.2.2.2.2
  exact ⟨(h [1] stageA scopeA rfl outA (by simp [stageA, sortArts, insertArt]) rfl "leaf"
      outA_reaches_leaf).1,
    (h [1] stageA scopeA rfl outA (by simp [stageA, sortArts, insertArt]) rfl "root" (.self _)).1,
    (h [2] stageB scopeB rfl outB (by simp [stageB, sortArts, insertArt]) rfl "fileb" (.self _)).1⟩

/-- **`cmdPush_world_missing_fails` instantiated**: `dud push` of all stages does not succeed, the
object of `c` (stage `[3]`) is missing locally -/
theorem push_all_fails : ∀ w', cmdPush cfg false [] w0 ≠ .ok w' :=
  cmdPush_world_missing_fails cfg false [] w0 [3] stageC (TravScope.root (by decide)) rfl outC
    (by simp [stageC, sortArts, insertArt]) rfl "zzz" (.self _) rfl

/-- in this context every entry of every readable manifest is a directory iff its checksum is
`"xxx"`, so kinds agree whatever the caches hold -/
theorem kind_of_sum {s : Store String} {d : Digest} {cs : List Child}
    (h : readManifest ctx s d = .ok cs) : ∀ c, c ∈ cs → c.isDir = (c.sum == "xxx") := by
  rw [readManifest_eq] at h
  split at h
  · cases h
  · rename_i sch p cs0 _
    obtain ⟨rfl, _⟩ := checkedChildren_eq_ok h
    intro c hc
    obtain ⟨c0, _, rfl⟩ := List.mem_map.1 hc
    rfl
  · rename_i c0 _
    simp only [ctx] at h
    split at h
    · rename_i cs1 hd
      obtain ⟨rfl, _⟩ := checkedChildren_eq_ok h
      split at hd
      · cases hd
        intro c hc
        simp only [List.mem_singleton] at hc
        subst hc
        rfl
      · split at hd
        · cases hd
          intro c hc
          simp only [List.mem_singleton] at hc
          subst hc
          rfl
        · cases hd
    · cases h

theorem kindsAgree (P : Child → Prop) (hP : ∀ c, P c → ∃ s, Occurs ctx s c) : KindsAgree P := by
  intro c1 c2 h1 h2 hs
  obtain ⟨s1, d1, cs1, hm1, hc1⟩ := hP c1 h1
  obtain ⟨s2, d2, cs2, hm2, hc2⟩ := hP c2 h2
  rw [kind_of_sum hm1 c1 hc1, kind_of_sum hm2 c2 hc2, hs]

/-- the world after losing the cache and `dud fetch [2]`, computed by the model -/
def w2 : World String :=
  match cmdFetch cfg false [[2]] { w1 with store := [] } with
  | .ok w => w
  | .error _ => default

theorem fetch_ok : cmdFetch cfg false [[2]] { w1 with store := [] } = .ok w2 := rfl

/-- **`cmdFetch_world_closure_partial` instantiated** (`KindsAgreeW` holds): after the fetch the
closure of `a/` is complete in the new cache; since `"root"` and `"xxx"` are there, so is `"leaf"` -/
theorem fetch_two_stages : w2.store.has "leaf" = true := by
  have hk : KindsAgreeW cfg { w1 with store := [] } :=
    kindsAgree _ (fun c h => h.elim (fun h => ⟨_, h⟩) (fun h => ⟨_, h⟩))
  refine cmdFetch_world_closure_partial cfg false [[2]] _ w2 fetch_ok hk [1] stageA
    ((cmdScope_congr cfg (w := w0) rfl false [[2]] [1]).2 scopeA) rfl outA
    (by simp [stageA, sortArts, insertArt]) rfl "leaf" ?_
  refine .child _ [⟨[97], "xxx", true⟩] ⟨[97], "xxx", true⟩ "leaf" rfl ?_ (by simp) ?_
  · rfl
  · refine .child _ [⟨[99], "leaf", false⟩] ⟨[99], "leaf", false⟩ "leaf" rfl ?_ (by simp) (.self _)
    rfl

/-- the same by running the model: the fetched cache holds exactly the four pushed objects; the
index, and the object `"zzz"` nobody has, are as before -/
def fetchedKeys : List Digest := w2.store.map (·.1)

#eval fetchedKeys
#eval w1.remote.map (·.1)

end ToyW

/-! ## the hypothesis `KindsAgreeW` cannot be dropped

The witness of `fetch_skips_children` (`Props/C11.lean`) as a one-stage world: the manifest `"root"`
lists the checksum `"xxx"` once as a directory and once as a file; `dud fetch` succeeds, `"leaf"` is
reachable from the stage's output in the fetched cache and on the remote, but not in the cache. -/
namespace ToyBad

def ctx : Ctx String :=
  { H := id, encMan := fun _ _ _ => "", reload := fun _ c => c, nameOK := fun _ => true,
    decBlob := fun c =>
      if c = "root" then some [⟨[97], "xxx", true⟩, ⟨[98], "xxx", false⟩]
      else if c = "xxx" then some [⟨[99], "leaf", false⟩] else none }

def cfg : Cfg String :=
  { ctx := ctx, ofBytes := fun _ => "", toBytes := fun _ => [], walkAccumulates := false, fuel := 5 }

def out : Art := { path := [2], sum := "root", isDir := true }

def w0 : World String :=
  { remote := [("root", .blob "root"), ("xxx", .blob "xxx"), ("leaf", .blob "leaf")],
    idx := [([1], { cmd := [1], outputs := [out] })] }

def w1 : World String :=
  match cmdFetch cfg false [] w0 with
  | .ok w => w
  | .error _ => default

/-- **`cmdFetch` can succeed without transferring the closure** of an output in scope -/
theorem fetch_world_skips_children :
    cmdFetch cfg false [] w0 = .ok w1 ∧ CmdScope cfg w0 false [] [1] ∧
      Reaches ctx w1.store out.child "leaf" ∧ w1.store.has "leaf" = false ∧
      w0.remote.has "leaf" = true := by
  refine ⟨rfl, TravScope.root (by decide), ?_, rfl, rfl⟩
  refine .child _ [⟨[97], "xxx", true⟩, ⟨[98], "xxx", false⟩] ⟨[97], "xxx", true⟩ "leaf" rfl ?_
    (by simp) ?_
  · rfl
  · refine .child _ [⟨[99], "leaf", false⟩] ⟨[99], "leaf", false⟩ "leaf" rfl ?_ (by simp) (.self _)
    rfl

/-- … so `KindsAgreeW` fails there -/
theorem kinds_disagree : ¬ KindsAgreeW cfg w0 := by
  intro hk
  have hm : readManifest ctx w0.remote "root" = .ok [⟨[97], "xxx", true⟩, ⟨[98], "xxx", false⟩] := rfl
  have := hk ⟨[97], "xxx", true⟩ ⟨[98], "xxx", false⟩ (.inr ⟨"root", _, hm, by simp⟩)
    (.inr ⟨"root", _, hm, by simp⟩) rfl
  cases this

end ToyBad

/-! ## axioms -/

#print axioms PushInv.init
#print axioms pushInv_step
#print axioms cmdPush_eq
#print axioms cmdPush_world
#print axioms cmdPush_world_outputs
#print axioms cmdPush_world_bytes
#print axioms cmdPush_world_missing_fails
#print axioms FetchInv.init
#print axioms fetchInv_step
#print axioms cmdFetch_world_mono
#print axioms cmdFetch_world_closure_partial
#print axioms cmdFetch_world_checkout_partial
#print axioms push_fetch_world_partial
#print axioms push_lose_fetch_world_partial
#print axioms ToyW.push_ok
#print axioms ToyW.scopeB
#print axioms ToyW.scopeA
#print axioms ToyW.scopeA_single
#print axioms ToyW.outA_reaches_leaf
#print axioms ToyW.push_two_stages
#print axioms ToyW.push_all_fails
#print axioms ToyW.kind_of_sum
#print axioms ToyW.kindsAgree
#print axioms ToyW.fetch_ok
#print axioms ToyW.fetch_two_stages
#print axioms ToyBad.fetch_world_skips_children
#print axioms ToyBad.kinds_disagree

end Dud
