import DudModel.Props.C19
import DudModel.Props.C06world
import DudModel.Props.C07
/-!
# C19 at the world level — `dud checkout --copy` never succeeds with corrupted bytes

`Props/C19.lean` proves, for one manifest entry, that a successful copy checkout returns a
`Verified` node.  This file lifts the statement to the command, in two forms that need NO
hypothesis on the index, the cache or the workspace:

* `cmdCheckout_copy_verified` — after a successful `dud checkout --copy`, for every stage the
  traversal acted on (in particular every requested target, `cmdCheckout_targets_done`) and every
  output that is not skip-cache, the workspace holds at the output's path a node that is `Verified`
  against the recorded checksum: every file named by the (nested) manifests is a regular file whose
  bytes hash to the checksum its entry records.  Outputs checked out earlier in the same command
  stay verified whatever later stages write (`Verified_keeps` + the world frame of C06).
* `cmdCheckout_copy_provenance` — **every** regular file anywhere in the workspace after the command
  either was there before with the same bytes, or holds exactly the bytes of the cache object stored
  under the digest of these bytes: dud never places bytes in the workspace whose digest differs
  from the name of the object they were copied from.  Consequently
  (`cmdCheckout_copy_corrupt_absent`) a success is impossible when a file output of an acted-on
  stage is absent from the workspace … and the object under its checksum is corrupted, unless a
  DIFFERENT, intact object holds bytes with that digest (impossible in a cache keyed by digest).

With the link strategy nothing of this holds (`link_checkout_does_not_verify` in `Props/C19.lean`).
-/
namespace Dud

variable {κ : Type}

/-! ## 0. small helpers (local copies: `Lemmas/WorldTrip.lean` lives in the other import family) -/

theorem getPath_setPath_self' : ∀ (p : List Name) (ws v ws' : Node κ),
    setPath ws p v = some ws' → getPath ws' p = some v
  | [], _, _, _, h => by simp only [setPath, Option.some.injEq] at h; subst h; rfl
  | c :: r, ws, v, ws', h => by
    cases ws with
    | dir es =>
      simp only [setPath] at h
      split at h
      · rename_i n hn
        simp only [Option.some.injEq] at h; subst h
        simp only [getPath, alookup_setEntry_self]
        exact getPath_setPath_self' r _ v n hn
      · cases h
    | file _ => simp [setPath] at h
    | link _ => simp [setPath] at h
    | other => simp [setPath] at h

theorem stage_ok_alookup {w : World κ} {sp : Bytes} {stg : Stage} (h : w.stage sp = .ok stg) :
    alookup w.idx sp = some stg := by
  unfold World.stage at h
  split at h
  · simp only [Except.ok.injEq] at h; subst h; assumption
  · cases h

/-! ## 1. verified outputs -/

theorem checkoutArtW_done' {cfg : Cfg κ} {strat : Strat} {a : Art} {w w' : World κ}
    (h : checkoutArtW cfg strat a w = .ok w') : w'.done = w.done := by
  unfold checkoutArtW at h
  dsimp only at h
  split at h
  · cases h
  · simp only [Except.ok.injEq] at h; subst h; rfl
  · split at h
    · simp only [Except.ok.injEq] at h; subst h; rfl
    · split at h
      · cases h
      · simp only [Except.ok.injEq] at h; subst h; rfl

theorem checkoutArts_done' {cfg : Cfg κ} {strat : Strat} : ∀ (as : List Art) {w w' : World κ},
    checkoutArts cfg strat as w = .ok w' → w'.done = w.done
  | [], w, w', h => by simp only [checkoutArts, Except.ok.injEq] at h; subst h; rfl
  | a :: r, w, w', h => by
    rw [checkoutArts] at h
    split at h
    · cases h
    · rename_i w1 h1
      exact (checkoutArts_done' r h).trans (checkoutArtW_done' h1)

theorem checkoutAct_done' {cfg : Cfg κ} {strat : Strat} {sp : Bytes} {w w' : World κ}
    (h : checkoutAct cfg strat sp w = .ok w') : w'.done = sp :: w.done := by
  unfold checkoutAct at h
  split at h
  · cases h
  split at h
  · cases h
  · rename_i w1 h1
    simp only [Except.ok.injEq] at h; subst h
    show sp :: w1.done = sp :: w.done
    rw [checkoutArts_done' _ h1]

/-- the outputs of the finished stages are verified against the cache `s` -/
def OutputsVerified (cfg : Cfg κ) (s : Store κ) (w : World κ) : Prop :=
  ∀ sp, sp ∈ w.done → ∀ stg, alookup w.idx sp = some stg → ∀ a, a ∈ sortArts stg.outputs →
    a.skip = false →
      ∃ n, getPath w.ws (Path.comps a.path) = some n ∧ Verified cfg.ctx s cfg.fuel a.child n

/-- what a checkout step keeps verified stays verified -/
theorem verified_at_keeps {cfg : Cfg κ} {s : Store κ} {ws ws' : Node κ} {a : Art}
    (hk : Keeps cfg.ctx s .copy ws ws')
    (h : ∃ n, getPath ws (Path.comps a.path) = some n ∧ Verified cfg.ctx s cfg.fuel a.child n) :
    ∃ n, getPath ws' (Path.comps a.path) = some n ∧ Verified cfg.ctx s cfg.fuel a.child n := by
  obtain ⟨n, hn, hv⟩ := h
  obtain ⟨n', hn', hkn⟩ := Keeps_getPath _ _ _ _ hk hn
  exact ⟨n', hn', Verified_keeps _ _ _ _ hv hkn⟩

theorem checkoutArtW_copy_verified (cfg : Cfg κ) (a : Art) (w w' : World κ) (hs : a.skip = false)
    (h : checkoutArtW cfg .copy a w = .ok w') :
    ∃ n, getPath w'.ws (Path.comps a.path) = some n ∧ Verified cfg.ctx w.store cfg.fuel a.child n := by
  unfold checkoutArtW at h
  dsimp only at h
  split at h
  · cases h
  · rename_i hn
    simp only [checkoutArt, hs, Bool.false_eq_true, if_false] at hn
    split at hn <;> cases hn
  · rename_i n hn
    simp only [hs, Bool.false_eq_true, if_false] at h
    split at h
    · cases h
    · rename_i ws' hsp
      simp only [Except.ok.injEq] at h; subst h
      refine ⟨n, getPath_setPath_self' _ _ _ _ hsp, ?_⟩
      simp only [checkoutArt, hs, Bool.false_eq_true, if_false] at hn
      split at hn
      · cases hn
      · rename_i n1 hn1
        simp only [Except.ok.injEq, Option.some.injEq] at hn; subst hn
        exact checkoutNode_copy_verified _ _ _ _ hn1

theorem checkoutArts_copy_verified (cfg : Cfg κ) : ∀ (as : List Art) (w w' : World κ),
    checkoutArts cfg .copy as w = .ok w' → ∀ a, a ∈ as → a.skip = false →
      ∃ n, getPath w'.ws (Path.comps a.path) = some n ∧ Verified cfg.ctx w.store cfg.fuel a.child n
  | [], _, _, _, a, ha, _ => by cases ha
  | b :: r, w, w', h, a, ha, hs => by
    rw [checkoutArts] at h
    split at h
    · cases h
    rename_i w1 h1
    have f1 := checkoutArtW_frameW cfg .copy b w w1 h1
    have fr := checkoutArts_frameW cfg .copy r w1 w' h
    rcases List.mem_cons.1 ha with rfl | ha
    · have hk := fr.2
      rw [f1.1] at hk
      exact verified_at_keeps hk (checkoutArtW_copy_verified cfg a w w1 hs h1)
    · have := checkoutArts_copy_verified cfg r w1 w' h a ha hs
      rw [f1.1] at this
      exact this

/-- **one stage.** -/
theorem checkoutAct_copy_verified (cfg : Cfg κ) (s : Store κ) (sp : Bytes) (w w' : World κ)
    (hst : w.store = s) (hv : OutputsVerified cfg s w) (h : checkoutAct cfg .copy sp w = .ok w') :
    w'.store = s ∧ OutputsVerified cfg s w' := by
  have hf := checkoutAct_frameW cfg .copy sp w w' h
  have hi := checkoutAct_idx cfg .copy sp w w' h
  subst hst
  refine ⟨hf.1, ?_⟩
  unfold checkoutAct at h
  split at h
  · cases h
  rename_i stg hstg
  split at h
  · cases h
  rename_i w1 h1
  simp only [Except.ok.injEq] at h
  subst h
  intro sp' hsp' stg' hstg' a ha hs
  have hi' : w1.idx = w.idx := hi
  by_cases he : sp' = sp
  · subst he
    have : stg' = stg := by
      have h2 : alookup w1.idx sp' = some stg' := hstg'
      rw [hi', stage_ok_alookup hstg] at h2
      exact (Option.some.inj h2).symm
    subst this
    exact checkoutArts_copy_verified cfg _ w w1 h1 a ha hs
  · have hmem : sp' ∈ w.done := by
      have h2 : sp' ∈ sp :: w1.done := hsp'
      rcases List.mem_cons.1 h2 with h2 | h2
      · exact absurd h2 he
      · have hd : w1.done = w.done := by
          exact checkoutArts_done' _ h1
        rw [hd] at h2; exact h2
    have h2 : alookup w.idx sp' = some stg' := by
      have h3 : alookup w1.idx sp' = some stg' := hstg'
      rw [hi'] at h3; exact h3
    exact verified_at_keeps hf.2 (hv sp' hmem stg' h2 a ha hs)

/-- **C19, the command (verified outputs).** -/
theorem cmdCheckout_copy_verified (cfg : Cfg κ) (single : Bool) (targets : List Bytes) (w w' : World κ)
    (h : cmdCheckout cfg .copy single targets w = .ok w') :
    ∀ sp, sp ∈ w'.done → ∀ stg, alookup w.idx sp = some stg → ∀ a, a ∈ sortArts stg.outputs →
      a.skip = false →
        ∃ n, getPath w'.ws (Path.comps a.path) = some n ∧
          Verified cfg.ctx w.store cfg.fuel a.child n := by
  have hidx := cmdCheckout_keeps_index cfg .copy single targets w w' h
  unfold cmdCheckout at h
  split at h
  · cases h
  have hP := perTarget_keeps (fun x : World κ => x.store = w.store ∧ OutputsVerified cfg w.store x)
    (fun t a b hp hb =>
      visit_keeps (checkoutTrav cfg .copy) _
        (fun x : World κ => x.store = w.store ∧ OutputsVerified cfg w.store x)
        (fun sp a b hp hb => checkoutAct_copy_verified cfg w.store sp a b hp.1 hp.2 hb) _ _ t a b hp hb)
    _ (fresh w) w' ⟨rfl, fun sp hsp => by cases hsp⟩ h
  intro sp hsp stg hstg
  exact hP.2 sp hsp stg (by rw [hidx]; exact hstg)

/-! ### every requested stage has been acted on -/

/-- a successful visit leaves its stage done -/
theorem visit_checkout_done (cfg : Cfg κ) (strat : Strat) (r : Bool) :
    ∀ (fuel : Nat) (avail : List Bytes) (sp : Bytes) (w w' : World κ),
      visit (checkoutTrav cfg strat) r fuel avail sp w = .ok w' → sp ∈ w'.done := by
  intro fuel
  cases fuel with
  | zero => intro _ _ _ _ h; simp [visit] at h
  | succ fuel =>
    intro avail sp w w' h
    rw [visit] at h
    split at h
    · rename_i hd
      simp only [Except.ok.injEq] at h; subst h
      exact List.contains_iff_mem.1 hd
    split at h
    · cases h
    split at h
    · cases h
    dsimp only at h
    split at h
    · cases h
    rename_i w1 _
    have : w'.done = sp :: w1.done := checkoutAct_done' h
    rw [this]; exact List.mem_cons_self

/-- every requested stage (every stage of the index when none is named) has been acted on -/
theorem cmdCheckout_targets_done (cfg : Cfg κ) (strat : Strat) (single : Bool) (targets : List Bytes)
    (w w' : World κ) (h : cmdCheckout cfg strat single targets w = .ok w') :
    ∀ t, t ∈ (if targets.isEmpty then allStages w else targets) → t ∈ w'.done := by
  unfold cmdCheckout at h
  split at h
  · cases h
  dsimp only at h
  generalize (if targets.isEmpty then allStages w else targets) = ts at h ⊢
  generalize fresh w = w0 at h
  induction ts generalizing w0 with
  | nil => intro t ht; cases ht
  | cons t0 r ih =>
    intro t ht
    rw [perTarget] at h
    split at h
    · cases h
    split at h
    · cases h
    rename_i w1 h1
    rcases List.mem_cons.1 ht with rfl | ht
    · have hd := visit_checkout_done cfg strat _ _ _ _ _ _ h1
      -- `done` only grows along the remaining targets
      exact perTarget_keeps (fun x : World κ => t ∈ x.done)
        (fun t' a b hp hb => visit_keeps (checkoutTrav cfg strat) _ (fun x : World κ => t ∈ x.done)
          (fun sp a b hp hb => by
            have : b.done = sp :: a.done := checkoutAct_done' hb
            rw [this]; exact List.mem_cons_of_mem _ hp) _ _ t' a b hp hb)
        r w1 w' hd h
    · exact ih w1 h t ht

/-- a file output of a requested stage is, after `dud checkout --copy`, a regular file whose bytes
hash to the recorded checksum -/
theorem cmdCheckout_copy_file_output (cfg : Cfg κ) (single : Bool) (targets : List Bytes) (w w' : World κ)
    (h : cmdCheckout cfg .copy single targets w = .ok w') (t : Bytes)
    (ht : t ∈ (if targets.isEmpty then allStages w else targets)) (stg : Stage)
    (hstg : alookup w.idx t = some stg) (a : Art) (ha : a ∈ sortArts stg.outputs)
    (hs : a.skip = false) (hd : a.isDir = false) :
    ∃ b, getPath w'.ws (Path.comps a.path) = some (.file b) ∧ cfg.ctx.H b = a.sum := by
  obtain ⟨n, hn, hv⟩ := cmdCheckout_copy_verified cfg single targets w w' h t
    (cmdCheckout_targets_done cfg .copy single targets w w' h t ht) stg hstg a ha hs
  cases hf : cfg.fuel with
  | zero => rw [hf] at hv; exact hv.elim
  | succ f =>
    rw [hf] at hv
    unfold Verified at hv
    simp only [Art.child, hd, Bool.false_eq_true, if_false] at hv
    obtain ⟨b, rfl, hH⟩ := hv
    exact ⟨b, hn, hH⟩

/-! ## 2. provenance of every regular file -/

/-- the bytes `x` are exactly the bytes of the cache object stored under their own digest -/
def FromCache (ctx : Ctx κ) (s : Store κ) (x : κ) : Prop :=
  ∃ o, s.get (ctx.H x) = some o ∧ o.bytes ctx = x

/-- every regular file below `new` either sits at the same relative path below `old` with the same
bytes, or comes from the cache (`old = none`: nothing was there before) -/
def ProvP (ctx : Ctx κ) (s : Store κ) (old : Option (Node κ)) (new : Node κ) : Prop :=
  ∀ p x, getPath new p = some (.file x) →
    (∃ o, old = some o ∧ getPath o p = some (.file x)) ∨ FromCache ctx s x

theorem ProvP.refl (ctx : Ctx κ) (s : Store κ) (n : Node κ) : ProvP ctx s (some n) n :=
  fun _ _ h => .inl ⟨n, rfl, h⟩

theorem ProvP.of_none {ctx : Ctx κ} {s : Store κ} {n : Node κ} (h : ProvP ctx s none n)
    (old : Option (Node κ)) : ProvP ctx s old n := by
  intro p x hp
  rcases h p x hp with ⟨o, ho, _⟩ | hc
  · cases ho
  · exact .inr hc

theorem ProvP.trans {ctx : Ctx κ} {s : Store κ} {a : Option (Node κ)} {b c : Node κ}
    (h1 : ProvP ctx s a b) (h2 : ProvP ctx s (some b) c) : ProvP ctx s a c := by
  intro p x hp
  rcases h2 p x hp with ⟨o, ho, hg⟩ | hc
  · cases ho; exact h1 p x hg
  · exact .inr hc

theorem getPath_nil_dir' (q : List Name) (x : κ) : getPath (.dir [] : Node κ) q ≠ some (.file x) := by
  cases q with
  | nil => simp [getPath]
  | cons y q => simp [getPath, alookup]

/-- entry-wise provenance of a listing -/
def DirProv (ctx : Ctx κ) (s : Store κ) (es es' : List (Name × Node κ)) : Prop :=
  ∀ nm n', alookup es' nm = some n' → ProvP ctx s (alookup es nm) n'

theorem DirProv.refl (ctx : Ctx κ) (s : Store κ) (es : List (Name × Node κ)) : DirProv ctx s es es :=
  fun nm n' h => by rw [h]; exact .refl ctx s n'

theorem DirProv.toProvP {ctx : Ctx κ} {s : Store κ} {es es' : List (Name × Node κ)}
    (h : DirProv ctx s es es') : ProvP ctx s (some (.dir es)) (.dir es') := by
  intro p x hp
  cases p with
  | nil => simp [getPath] at hp
  | cons nm r =>
    simp only [getPath] at hp
    split at hp
    · rename_i n1 hn1
      rcases h nm n1 hn1 r x hp with ⟨o, ho, hg⟩ | hc
      · exact .inl ⟨.dir es, rfl, by simp only [getPath, ho]; exact hg⟩
      · exact .inr hc
    · cases hp

theorem DirProv.toProvP_none {ctx : Ctx κ} {s : Store κ} {es' : List (Name × Node κ)}
    (h : DirProv ctx s [] es') : ProvP ctx s none (.dir es') := by
  intro p x hp
  rcases h.toProvP p x hp with ⟨o, ho, hg⟩ | hc
  · cases ho; exact absurd hg (getPath_nil_dir' p x)
  · exact .inr hc

theorem checkoutChildren_prov {ctx : Ctx κ} {s : Store κ}
    {f : Option (Node κ) → Child → Except Err (Node κ)}
    (hf : ∀ cur c n, f cur c = .ok n → ProvP ctx s cur n) :
    ∀ (cs : List Child) (es es' : List (Name × Node κ)),
      checkoutChildren f es cs = .ok es' → DirProv ctx s es es' := by
  intro cs
  induction cs with
  | nil =>
    intro es es' h
    simp only [checkoutChildren, Except.ok.injEq] at h; subst h
    exact .refl ctx s es
  | cons c cs ih =>
    intro es es' h
    simp only [checkoutChildren] at h
    split at h
    · cases h
    rename_i n hn
    have h2 := ih _ _ h
    intro nm n' hn'
    have := h2 nm n' hn'
    by_cases he : c.name = nm
    · subst he
      rw [alookup_setEntry_self] at this
      exact (hf _ _ _ hn).trans this
    · rw [alookup_setEntry_ne es n he] at this
      exact this

/-- **checkoutFile, copy.** -/
theorem checkoutFile_copy_prov {ctx : Ctx κ} {cur : Option (Node κ)} {sum : Digest} {s : Store κ}
    {n' : Node κ} (h : checkoutFile ctx .copy cur sum s = .ok n') : ProvP ctx s cur n' := by
  cases hup : upToDateCopy ctx cur sum with
  | false =>
    obtain ⟨o, ho, rfl, hH⟩ := checkoutFile_copy_ok hup h
    intro p x hp
    cases p with
    | nil =>
      simp only [getPath, Option.some.injEq, Node.file.injEq] at hp; subst hp
      exact .inr ⟨o, by rw [hH]; exact ho, rfl⟩
    | cons y q => simp [getPath] at hp
  | true =>
    cases cur with
    | none => cases hup
    | some n =>
      obtain ⟨c, rfl, rfl, _⟩ := uptodate_copy_is_verified hup h
      exact .refl ctx s _

/-- **checkoutNode, copy**: for every fuel, workspace state and manifest nesting. -/
theorem checkoutNode_copy_prov {ctx : Ctx κ} {s : Store κ} :
    ∀ (fuel : Nat) (cur : Option (Node κ)) (c : Child) (n' : Node κ),
      checkoutNode ctx .copy s fuel cur c = .ok n' → ProvP ctx s cur n' := by
  intro fuel
  induction fuel with
  | zero => intro cur c n' h; simp [checkoutNode] at h
  | succ fuel ih =>
    intro cur c n' h
    simp only [checkoutNode] at h
    split at h
    · split at h; · cases h
      split at h; · cases h
      split at h
      · split at h; · cases h
        split at h; · cases h
        rename_i es _ _ _ es' hes
        simp only [Except.ok.injEq] at h; subst h
        exact (checkoutChildren_prov ih _ _ _ hes).toProvP
      · split at h; · cases h
        split at h; · cases h
        rename_i es' hes
        simp only [Except.ok.injEq] at h; subst h
        exact (checkoutChildren_prov ih _ _ _ hes).toProvP_none
      · cases h
    · exact checkoutFile_copy_prov h

/-- **addressing.** -/
theorem setPath_prov (ctx : Ctx κ) (s : Store κ) :
    ∀ (p : List Name) (ws v ws' : Node κ), setPath ws p v = some ws' →
      ProvP ctx s (getPath ws p) v → ProvP ctx s (some ws) ws'
  | [], ws, v, ws', h, hk => by
    simp only [setPath, Option.some.injEq] at h
    subst h
    exact hk
  | c :: r, ws, v, ws', h, hk => by
    cases ws with
    | dir es =>
      simp only [setPath] at h
      split at h
      · rename_i n hn
        simp only [Option.some.injEq] at h
        subst h
        refine DirProv.toProvP ?_
        intro nm n' hn'
        by_cases he : c = nm
        · subst he
          rw [alookup_setEntry_self] at hn'
          have e : n = n' := Option.some.inj hn'
          rw [← e]
          cases hl : alookup es c with
          | some m =>
            rw [hl, Option.getD_some] at hn
            exact setPath_prov ctx s r m v n hn (by simpa only [getPath, hl] using hk)
          | none =>
            rw [hl, Option.getD_none] at hn
            have hk' : ProvP ctx s none v := by simpa only [getPath, hl] using hk
            have := setPath_prov ctx s r (.dir []) v n hn (hk'.of_none _)
            intro q x hq
            rcases this q x hq with ⟨o, ho, hg⟩ | hc
            · cases ho; exact absurd hg (getPath_nil_dir' q x)
            · exact .inr hc
        · rw [alookup_setEntry_ne es n he] at hn'
          rw [hn']; exact .refl ctx s n'
      · cases h
    | file _ => simp [setPath] at h
    | link _ => simp [setPath] at h
    | other => simp [setPath] at h

/-- provenance relation of the whole command -/
def CheckoutProv (ctx : Ctx κ) (w w' : World κ) : Prop :=
  w'.store = w.store ∧ ProvP ctx w.store (some w.ws) w'.ws

theorem CheckoutProv.refl (ctx : Ctx κ) (w : World κ) : CheckoutProv ctx w w := ⟨rfl, .refl _ _ _⟩

theorem CheckoutProv.trans {ctx : Ctx κ} {a b c : World κ} (h1 : CheckoutProv ctx a b)
    (h2 : CheckoutProv ctx b c) : CheckoutProv ctx a c := by
  obtain ⟨s1, k1⟩ := h1
  obtain ⟨s2, k2⟩ := h2
  rw [s1] at s2 k2
  exact ⟨s2, k1.trans k2⟩

theorem checkoutArtW_copy_prov (cfg : Cfg κ) (a : Art) (w w' : World κ)
    (h : checkoutArtW cfg .copy a w = .ok w') : CheckoutProv cfg.ctx w w' := by
  unfold checkoutArtW at h
  dsimp only at h
  split at h
  · cases h
  · simp only [Except.ok.injEq] at h; subst h; exact .refl _ _
  · rename_i n hn
    split at h
    · simp only [Except.ok.injEq] at h; subst h; exact .refl _ _
    · rename_i hs
      split at h
      · cases h
      · rename_i ws' hsp
        simp only [Except.ok.injEq] at h; subst h
        refine ⟨rfl, setPath_prov cfg.ctx w.store _ _ _ _ hsp ?_⟩
        simp only [checkoutArt, hs, Bool.false_eq_true, if_false] at hn
        split at hn
        · cases hn
        · rename_i n1 hn1
          simp only [Except.ok.injEq, Option.some.injEq] at hn; subst hn
          exact checkoutNode_copy_prov _ _ _ _ hn1

theorem checkoutArts_copy_prov (cfg : Cfg κ) : ∀ (as : List Art) (w w' : World κ),
    checkoutArts cfg .copy as w = .ok w' → CheckoutProv cfg.ctx w w'
  | [], w, w', h => by
    simp only [checkoutArts, Except.ok.injEq] at h; subst h; exact .refl _ _
  | a :: r, w, w', h => by
    rw [checkoutArts] at h
    split at h
    · cases h
    · rename_i w1 h1
      exact (checkoutArtW_copy_prov cfg a w w1 h1).trans (checkoutArts_copy_prov cfg r w1 w' h)

theorem checkoutAct_copy_prov (cfg : Cfg κ) (sp : Bytes) (w w' : World κ)
    (h : checkoutAct cfg .copy sp w = .ok w') : CheckoutProv cfg.ctx w w' := by
  unfold checkoutAct at h
  split at h
  · cases h
  split at h
  · cases h
  · rename_i w1 h1
    simp only [Except.ok.injEq] at h; subst h
    exact checkoutArts_copy_prov cfg _ w w1 h1

/-- **C19, the command (provenance).**  After a successful `dud checkout --copy`, every regular
file anywhere in the workspace either was there before, at the same path with the same bytes, or
holds exactly the bytes of the cache object stored under the digest of these bytes. -/
theorem cmdCheckout_copy_provenance (cfg : Cfg κ) (single : Bool) (targets : List Bytes) (w w' : World κ)
    (h : cmdCheckout cfg .copy single targets w = .ok w') (p : List Name) (x : κ)
    (hp : getPath w'.ws p = some (.file x)) :
    getPath w.ws p = some (.file x) ∨ FromCache cfg.ctx w.store x := by
  unfold cmdCheckout at h
  split at h
  · cases h
  have := perTarget_visit_rel (CheckoutProv cfg.ctx) (.refl _) (fun _ _ _ => .trans)
    (checkoutTrav cfg .copy) (checkoutAct_copy_prov cfg) _ _ _ _ (fresh w) w' h
  rcases this.2 p x hp with ⟨o, ho, hg⟩ | hc
  · cases ho; exact .inl hg
  · exact .inr hc

/-- **C19, corrupted object.**  If a non-skip file output `a` of a requested stage is not already a
regular file in the workspace, and the cache holds under `a.sum` no object whose bytes hash to
`a.sum` (the object is corrupted — bit flip, truncation, extension — or missing), then
`dud checkout --copy` does not succeed: whatever the index, the other stages and the rest of the
workspace are. -/
theorem cmdCheckout_copy_corrupt_fails (cfg : Cfg κ) (single : Bool) (targets : List Bytes) (w : World κ)
    (t : Bytes) (ht : t ∈ (if targets.isEmpty then allStages w else targets)) (stg : Stage)
    (hstg : alookup w.idx t = some stg) (a : Art) (ha : a ∈ sortArts stg.outputs)
    (hs : a.skip = false) (hd : a.isDir = false)
    (hws : ∀ x, getPath w.ws (Path.comps a.path) ≠ some (.file x))
    (hbad : ∀ o, w.store.get a.sum = some o → cfg.ctx.H (o.bytes cfg.ctx) ≠ a.sum) :
    ∃ e, cmdCheckout cfg .copy single targets w = .error e := by
  cases h : cmdCheckout cfg .copy single targets w with
  | error e => exact ⟨e, rfl⟩
  | ok w' =>
    exfalso
    obtain ⟨b, hb, hH⟩ := cmdCheckout_copy_file_output cfg single targets w w' h t ht stg hstg a ha hs hd
    rcases cmdCheckout_copy_provenance cfg single targets w w' h _ b hb with hold | ⟨o, ho, hob⟩
    · exact hws b hold
    · rw [hH] at ho
      exact hbad o ho (by rw [hob]; exact hH)

/-! ## Non-vacuity -/
namespace C19Example
open ToyGood

/-- stage 1 owns the file `d`, recorded checksum "abcdata" -/
def good : World String :=
  { ws := .dir [([107], .file "keep")],
    store := [("abcdata", .blob "data")],
    idx := [([1], { cmd := [1], outputs := [{ path := [100], sum := "abcdata" }] })] }

/-- the same project with the object truncated in place -/
def bad : World String := { good with store := [("abcdata", .blob "dat")] }

def good' : World String :=
  match cmdCheckout cfg .copy false [] good with
  | .ok x => x
  | .error _ => default

theorem good_ok : cmdCheckout cfg .copy false [] good = .ok good' := rfl

example : getPath good'.ws [[100]] = some (.file "data") := rfl

/-- the hypotheses of `cmdCheckout_copy_corrupt_fails` hold of `bad` … -/
theorem bad_fails : ∃ e, cmdCheckout cfg .copy false [] bad = .error e :=
  cmdCheckout_copy_corrupt_fails cfg false [] bad [1] (by decide) _ rfl
    { path := [100], sum := "abcdata" } (by decide) rfl rfl
    (fun x h => by
      have e : getPath bad.ws (Path.comps [100]) = none := rfl
      rw [e] at h; cases h)
    (fun o ho => by
      simp only [bad, good, Store.get, alookup, beq_self_eq_true, if_true, Option.some.injEq] at ho
      subst ho
      decide)

/-- … and the model indeed answers "checksum mismatch" -/
example : cmdCheckout cfg .copy false [] bad = .error .sumMismatch := rfl

end C19Example

end Dud

#print axioms Dud.cmdCheckout_copy_verified
#print axioms Dud.cmdCheckout_targets_done
#print axioms Dud.cmdCheckout_copy_file_output
#print axioms Dud.checkoutNode_copy_prov
#print axioms Dud.setPath_prov
#print axioms Dud.cmdCheckout_copy_provenance
#print axioms Dud.cmdCheckout_copy_corrupt_fails
