import DudModel.Lemmas.Run
import DudModel.Props.C08
/-!
# C09 — after a pipeline run, outputs are consistent with inputs (what holds, and what does not)

* `runAct_decision`, `runAct_skips`, `runAct_runs`, `runAct_uptodate`: exactly when `Index.Run`
  executes the stage command;
* `second_run_idle_partial`: an up-to-date stage with inputs does not run;
* negative witnesses over a toy configuration: `stale_downstream_after_partial_commit`,
  `noinput_upstream_reruns_downstream`.
-/
namespace Dud

variable {κ : Type}

variable [DecidableEq κ]

/-! ## (a) when does the command execute -/

/-- Inversion of a successful `runAct`: the stage exists, the decision `d` (= `ran[sp]` unless the
command ran) was computed without error, and either the command was executed (iff
`d ∧ hasCmd`) and logged, or the world is unchanged except for the memo. -/
theorem runAct_decision (cfg : Cfg κ) (exec : Exec κ) (recursive : Bool) (sp : Bytes) (w w' : World κ)
    (h : runAct cfg exec recursive sp w = .ok w') :
    ∃ stg d, alookup w.idx sp = some stg ∧ runDecision cfg recursive w stg = .ok d ∧
      ((d && stg.hasCmd) = true →
        ∃ w1, exec stg w = .ok w1 ∧ w' = { w1 with ran := (sp, true) :: w1.ran, log := w1.log ++ [sp] }) ∧
      ((d && stg.hasCmd) = false → w' = { w with ran := (sp, d) :: w.ran }) :=
  runAct_inv cfg exec recursive sp w w' h

/-- the command is not executed: no command, or the decision is "up to date" -/
theorem runAct_skips (cfg : Cfg κ) (exec : Exec κ) (recursive : Bool) (sp : Bytes) (w : World κ)
    (stg : Stage) (d : Bool) (hs : alookup w.idx sp = some stg)
    (hd : runDecision cfg recursive w stg = .ok d) (hx : (d && stg.hasCmd) = false) :
    runAct cfg exec recursive sp w = .ok { w with ran := (sp, d) :: w.ran } := by
  rw [runAct_eq, World.stage_eq_ok.2 hs]
  simp only [hd, hx, Bool.false_eq_true, if_false]

/-- the command is executed: the stage has one and one of the five reasons holds
(`runDecision_eq_true_iff`) -/
theorem runAct_runs (cfg : Cfg κ) (exec : Exec κ) (recursive : Bool) (sp : Bytes) (w : World κ)
    (stg : Stage) (hs : alookup w.idx sp = some stg)
    (hd : runDecision cfg recursive w stg = .ok true) (hc : stg.hasCmd = true) :
    runAct cfg exec recursive sp w =
      match exec stg w with
      | .error e => .error e
      | .ok w1 => .ok { w1 with ran := (sp, true) :: w1.ran, log := w1.log ++ [sp] } := by
  rw [runAct_eq, World.stage_eq_ok.2 hs]
  simp only [hd, hc, Bool.and_self, if_true]
  rfl

/-- the five reasons, with `allMatch` spelled out -/
theorem runDecision_true (cfg : Cfg κ) (recursive : Bool) (w : World κ) (stg : Stage)
    (h : runDecision cfg recursive w stg = .ok true) :
    stg.noInputs = true ∨ stg.sumOk cfg = false ∨
      (∃ a, a ∈ sortArts (plainInputs cfg w.idx stg) ∧ matchShort cfg w a = .ok false) ∨
      upRan cfg recursive w stg = true ∨
      (∃ a, a ∈ sortArts stg.outputs ∧ matchShort cfg w a = .ok false) := by
  obtain ⟨plainOk, hp, h⟩ := (runDecision_eq_true_iff cfg recursive w stg).1 h
  rcases h with h | h | h | h | h
  · exact .inl h
  · exact .inr (.inl h)
  · subst h
    obtain ⟨l1, a, l2, hl, _, ha⟩ := (allMatch_eq_false_iff cfg w _).1 hp
    exact .inr (.inr (.inl ⟨a, by rw [hl]; simp, ha⟩))
  · exact .inr (.inr (.inr (.inl h)))
  · obtain ⟨l1, a, l2, hl, _, ha⟩ := (allMatch_eq_false_iff cfg w _).1 h
    exact .inr (.inr (.inr (.inr ⟨a, by rw [hl]; simp, ha⟩)))

/-- "up to date" means: inputs or no command, definition checksum current, every plain input and
every output matches its recorded checksum, no upstream stage ran -/
theorem runDecision_false (cfg : Cfg κ) (recursive : Bool) (w : World κ) (stg : Stage) :
    runDecision cfg recursive w stg = .ok false ↔
      stg.noInputs = false ∧ stg.sumOk cfg = true ∧
      (∀ a, a ∈ sortArts (plainInputs cfg w.idx stg) → matchShort cfg w a = .ok true) ∧
      upRan cfg recursive w stg = false ∧
      (∀ a, a ∈ sortArts stg.outputs → matchShort cfg w a = .ok true) := by
  rw [runDecision_eq_false_iff, allMatch_eq_true_iff, allMatch_eq_true_iff]

/-- a stage recorded as "did not run" was up to date in the state it was looked at -/
theorem runAct_uptodate (cfg : Cfg κ) (exec : Exec κ) (recursive : Bool) (sp : Bytes) (w w' : World κ)
    (h : runAct cfg exec recursive sp w = .ok w') (hr : didRun w' sp = false) :
    ∃ stg, alookup w.idx sp = some stg ∧ w' = { w with ran := (sp, false) :: w.ran } ∧
      stg.noInputs = false ∧ stg.sumOk cfg = true ∧
      (∀ a, a ∈ sortArts (plainInputs cfg w.idx stg) → matchShort cfg w a = .ok true) ∧
      upRan cfg recursive w stg = false ∧
      (∀ a, a ∈ sortArts stg.outputs → matchShort cfg w a = .ok true) := by
  obtain ⟨stg, d, hs, hd, h1, h2⟩ := runAct_decision cfg exec recursive sp w w' h
  cases hx : (d && stg.hasCmd) with
  | true =>
    obtain ⟨w1, _, hw⟩ := h1 hx
    subst hw
    simp [didRun, alookup] at hr
  | false =>
    have hw := h2 hx
    subst hw
    have : d = false := by simpa [didRun, alookup] using hr
    subst this
    exact ⟨stg, hs, rfl, (runDecision_false cfg recursive w stg).1 hd⟩

/-! ## (d) an up-to-date stage with inputs stays idle -/

/-- If a stage has inputs (or no command), its definition checksum is current, all its plain inputs
and its outputs match and no upstream stage ran, `Index.Run` leaves it alone.
Partial: says nothing about inputs owned by other stages beyond "the owner did not run". -/
theorem second_run_idle_partial (cfg : Cfg κ) (exec : Exec κ) (recursive : Bool) (sp : Bytes) (w : World κ)
    (stg : Stage) (hs : alookup w.idx sp = some stg)
    (hin : stg.noInputs = false) (hsum : stg.sumOk cfg = true)
    (hplain : ∀ a, a ∈ sortArts (plainInputs cfg w.idx stg) → matchShort cfg w a = .ok true)
    (hup : upRan cfg recursive w stg = false)
    (houts : ∀ a, a ∈ sortArts stg.outputs → matchShort cfg w a = .ok true) :
    runAct cfg exec recursive sp w = .ok { w with ran := (sp, false) :: w.ran } :=
  runAct_skips cfg exec recursive sp w stg false hs
    ((runDecision_false cfg recursive w stg).2 ⟨hin, hsum, hplain, hup, houts⟩) rfl

/-- conversely a command stage without inputs always runs -/
theorem noInputs_always_runs (cfg : Cfg κ) (exec : Exec κ) (recursive : Bool) (sp : Bytes) (w : World κ)
    (stg : Stage) (hs : alookup w.idx sp = some stg) (hin : stg.noInputs = true) :
    runAct cfg exec recursive sp w =
      match exec stg w with
      | .error e => .error e
      | .ok w1 => .ok { w1 with ran := (sp, true) :: w1.ran, log := w1.log ++ [sp] } := by
  have hplain : plainInputs cfg w.idx stg = [] := by
    simp only [Stage.noInputs, Bool.and_eq_true, List.isEmpty_iff] at hin
    simp [plainInputs, hin.2]
  refine runAct_runs cfg exec recursive sp w stg hs ?_ (by
    simp only [Stage.noInputs, Bool.and_eq_true] at hin; exact hin.1)
  rw [runDecision_eq_true_iff]
  exact ⟨true, by rw [hplain]; rfl, .inl hin⟩

/-! ## (b) what a successful recursive run guarantees in the final state -/

/-- the stage command leaves index, memo, log, `done` and cache alone, and does not change the status
of the outputs and plain inputs of any OTHER stage of the index -/
def ExecFrame' (cfg : Cfg κ) (exec : Exec κ) : Prop :=
  ExecFrame exec ∧
  ∀ stg w w1, exec stg w = .ok w1 → ∀ sp' stg', alookup w.idx sp' = some stg' → stg' ≠ stg →
    ∀ a, (a ∈ sortArts stg'.outputs ∨ a ∈ sortArts (plainInputs cfg w.idx stg')) →
      matchShort cfg w1 a = matchShort cfg w a

/-- definition checksum current, every plain input and every output matches its recorded checksum -/
def UpToDate (cfg : Cfg κ) (w : World κ) (stg : Stage) : Prop :=
  stg.sumOk cfg = true ∧
  (∀ a, a ∈ sortArts (plainInputs cfg w.idx stg) → matchShort cfg w a = .ok true) ∧
  (∀ a, a ∈ sortArts stg.outputs → matchShort cfg w a = .ok true)

omit [DecidableEq κ] in
theorem ownIdx_subset_upOwners (cfg : Cfg κ) (idx : Index) (sp : Bytes) (stg : Stage)
    (hs : alookup idx sp = some stg) (o : Bytes) (ho : o ∈ ownIdx cfg idx sp) :
    o ∈ upOwners cfg idx stg := by
  simp only [ownIdx, hs, List.mem_filterMap] at ho
  obtain ⟨a, ha, h⟩ := ho
  simp only [upOwners, List.mem_filterMap]
  exact ⟨a, mem_of_mem_sortArts ha, h⟩

omit [DecidableEq κ] in
theorem didRun_isSome {w : World κ} {x : Bytes} (h : didRun w x = true) : (alookup w.ran x).isSome = true := by
  simp only [didRun] at h
  cases hl : alookup w.ran x with
  | none => rw [hl] at h; cases h
  | some b => rfl

theorem alookup_cons_ne' (sp x : Bytes) (b : Bool) (ran : List (Bytes × Bool)) (h : x ≠ sp) :
    alookup ((sp, b) :: ran) x = alookup ran x := by
  have : (sp == x) = false := by simpa using fun h' => h h'.symm
  simp only [alookup, this, Bool.false_eq_true, if_false]

/-- the invariant of `run_sound_partial` -/
def RunInv (cfg : Cfg κ) (idx : Index) (p : World κ × List Bytes) : Prop :=
  (∀ x, x ∈ p.2 → (alookup p.1.ran x).isSome = true) ∧
  (∀ x, x ∈ p.2 → ∀ o, o ∈ ownIdx cfg idx x → (alookup p.1.ran o).isSome = true) ∧
  (∀ x, x ∈ p.1.log → didRun p.1 x = true) ∧
  (∀ x, x ∈ p.2 → ∀ stg, alookup idx x = some stg → stg.hasCmd = true →
    x ∈ p.1.log ∨ (UpToDate cfg p.1 stg ∧ ∀ o, o ∈ ownIdx cfg idx x → o ∉ p.1.log))

theorem runInv_step (cfg : Cfg κ) (exec : Exec κ) (hex : ExecFrame' cfg exec) (idx : Index)
    (hinj : ∀ x y s, alookup idx x = some s → alookup idx y = some s → x = y)
    (sp : Bytes) (p p' : World κ × List Bytes) (hi : p.1.idx = idx) (hq : RunInv cfg idx p)
    (hnd : (alookup p.1.ran sp).isSome = false)
    (hown : ∀ o, o ∈ ownIdx cfg idx sp → (alookup p.1.ran o).isSome = true)
    (h : (runTrav cfg exec true).logged.act sp p = .ok p') : RunInv cfg idx p' := by
  obtain ⟨w, l⟩ := p
  obtain ⟨s, hact, rfl⟩ := logged_act_inv h
  simp only at hi hnd hown hact ⊢
  subst hi
  obtain ⟨q1, q2, q3, q4⟩ := hq
  simp only at q1 q2 q3 q4
  have hact : runAct cfg exec true sp w = .ok s := hact
  obtain ⟨stg, d, hs, hd, h1, h2⟩ := runAct_inv cfg exec true sp w s hact
  -- facts common to both cases
  have hne_done : ∀ x, (alookup w.ran x).isSome = true → x ≠ sp := by
    intro x hx hxs; subst hxs; rw [hnd] at hx; cases hx
  have hran : ∃ b, s.ran = (sp, b) :: w.ran ∧ s.idx = w.idx := by
    obtain ⟨f1, _, b, f3⟩ := runAct_frame cfg exec hex.1 true sp w s hact
    exact ⟨b, f3, f1⟩
  obtain ⟨b, hran, hidx⟩ := hran
  have hmono : ∀ x, (alookup w.ran x).isSome = true → (alookup s.ran x).isSome = true := by
    intro x hx; rw [hran, isSome_alookup_cons, hx, Bool.or_true]
  have hsp : (alookup s.ran sp).isSome = true := by
    rw [hran, isSome_alookup_cons]; simp
  have hdid : ∀ x, x ≠ sp → didRun s x = didRun w x := by
    intro x hx; simp only [didRun, hran, alookup_cons_ne' sp x b w.ran hx]
  refine ⟨?_, ?_, ?_, ?_⟩
  · intro x hx
    rcases List.mem_append.1 hx with hx | hx
    · exact hmono x (q1 x hx)
    · rw [List.mem_singleton] at hx; subst hx; exact hsp
  · intro x hx o ho
    rcases List.mem_append.1 hx with hx | hx
    · exact hmono o (q2 x hx o ho)
    · rw [List.mem_singleton] at hx; subst hx; exact hmono o (hown o ho)
  · -- everything in the command log did run
    cases hx : (d && stg.hasCmd) with
    | true =>
      obtain ⟨w1, he, hw⟩ := h1 hx
      obtain ⟨_, _, f3, _, _⟩ := hex.1 stg w w1 he
      intro x hxl
      have hxl : x ∈ w.log ++ [sp] := by rw [hw] at hxl; simpa [f3] using hxl
      rcases List.mem_append.1 hxl with hxl | hxl
      · have := q3 x hxl
        rw [hdid x (hne_done x (didRun_isSome this))]; exact this
      · rw [List.mem_singleton] at hxl; subst hxl
        rw [hw]; simp [didRun, alookup]
    | false =>
      have hw := h2 hx
      intro x hxl
      have hxl : x ∈ w.log := by rw [hw] at hxl; exact hxl
      have := q3 x hxl
      rw [hdid x (hne_done x (didRun_isSome this))]; exact this
  · intro x hx stgx hsx hcx
    cases hxc : (d && stg.hasCmd) with
    | false =>
      have hw := h2 hxc
      have hlog : s.log = w.log := by rw [hw]
      have hup : ∀ st', UpToDate cfg s st' = UpToDate cfg w st' := by intro st'; rw [hw]; rfl
      rcases List.mem_append.1 hx with hx | hx
      · rw [hlog, hup]; exact q4 x hx stgx hsx hcx
      · rw [List.mem_singleton] at hx; subst hx
        have : stgx = stg := by rw [hs] at hsx; cases hsx; rfl
        subst this
        rw [hcx, Bool.and_true] at hxc
        subst hxc
        obtain ⟨_, g2, g3, g4, g5⟩ := (runDecision_false cfg true w stgx).1 hd
        refine .inr ⟨by rw [hup]; exact ⟨g2, g3, g5⟩, ?_⟩
        intro o ho hol
        rw [hlog] at hol
        have hdo := q3 o hol
        simp only [upRan, Bool.true_and, List.any_eq_false] at g4
        have := g4 o (ownIdx_subset_upOwners cfg w.idx x stgx hs o ho)
        rw [hdo] at this; exact this rfl
    | true =>
      obtain ⟨w1, he, hw⟩ := h1 hxc
      obtain ⟨f1, _, f3, _, _⟩ := hex.1 stg w w1 he
      have hlog : s.log = w.log ++ [sp] := by rw [hw]; simp only [f3]
      rcases List.mem_append.1 hx with hx | hx
      · have hxsp : x ≠ sp := hne_done x (q1 x hx)
        rcases q4 x hx stgx hsx hcx with hl | ⟨⟨u1, u2, u3⟩, hl⟩
        · exact .inl (by rw [hlog]; exact List.mem_append_left _ hl)
        · have hstg : stgx ≠ stg := by
            intro he'; subst he'; exact hxsp (hinj x sp stgx hsx hs)
          have hm : ∀ a, (a ∈ sortArts stgx.outputs ∨ a ∈ sortArts (plainInputs cfg w.idx stgx)) →
              matchShort cfg s a = matchShort cfg w a := by
            intro a ha
            rw [← hex.2 stg w w1 he x stgx hsx hstg a ha, hw]; rfl
          refine .inr ⟨⟨u1, ?_, ?_⟩, ?_⟩
          · intro a ha
            rw [hidx] at ha
            rw [hm a (.inr ha)]; exact u2 a ha
          · intro a ha
            rw [hm a (.inl ha)]; exact u3 a ha
          · intro o ho hol
            rw [hlog] at hol
            rcases List.mem_append.1 hol with hol | hol
            · exact hl o ho hol
            · exact hne_done o (q2 x hx o ho) (List.mem_singleton.1 hol)
      · rw [List.mem_singleton] at hx; subst hx
        exact .inl (by rw [hlog]; simp)

/-- **What `dud run` guarantees (partial).** After a successful recursive traversal from a world where
nothing ran, every command stage in the memo either executed, or is — in the FINAL state — up to date
(definition checksum current, plain inputs and outputs match their recorded checksums) and none of
its owners executed.

Missing w.r.t. "outputs are consistent with inputs": an input owned by another stage is never compared
with the checksum THIS stage recorded for it (nor with the owner's recorded output checksum); the only
evidence used for such inputs is "the owner did not execute in this run" — see
`Toy.stale_downstream_after_partial_commit`. Also needed: the frame hypothesis `ExecFrame'` on the
commands and distinct stages having distinct definitions (`hinj`). -/
theorem run_sound_partial (cfg : Cfg κ) (exec : Exec κ) (hex : ExecFrame' cfg exec) (idx : Index)
    (hinj : ∀ x y s, alookup idx x = some s → alookup idx y = some s → x = y)
    (fuel : Nat) (avail : List Bytes) (sp : Bytes) (w w' : World κ) (l' : List Bytes)
    (hi : w.idx = idx) (h0 : w.ran = []) (hlog : w.log = [])
    (h : visit (runTrav cfg exec true).logged true fuel avail sp (w, []) = .ok (w', l')) :
    ∀ x stg, (alookup w'.ran x).isSome = true → alookup idx x = some stg → stg.hasCmd = true →
      x ∈ w'.log ∨ (UpToDate cfg w' stg ∧ ∀ o, o ∈ ownIdx cfg idx x → o ∉ w'.log) := by
  have hT := runTrav_lawfulOn cfg exec hex.1 true idx
  have hq0 : RunInv cfg idx (w, []) := by
    refine ⟨by simp, by simp, ?_, by simp⟩
    simp [hlog]
  have hq := visit_preserves (Q := RunInv cfg idx) hT
    (fun sp p p' hi hq hnd hown hact =>
      runInv_step cfg exec hex idx hinj sp p p' hi hq hnd (hown rfl) hact)
    fuel avail sp (w, []) (w', l') hi hq0 h
  have h0' : ∀ x, (runTrav cfg exec true).isDone w x = false := by
    intro x; simp [runTrav, h0, alookup]
  have hspec := visit_spec_on _ _ _ hT true fuel avail sp w w' l' hi h0' h
  intro x stg hx hsx hcx
  have hxl : x ∈ l' := by
    have := hspec.2.2.2.2.1 x
    simp only [runTrav] at this
    rw [hx] at this
    simpa using this.symm
  exact hq.2.2.2 x hxl stg hsx hcx

/-- the same for the whole command `dud run` (recursive, any targets) -/
theorem cmdRun_sound_partial (cfg : Cfg κ) (exec : Exec κ) (hex : ExecFrame' cfg exec)
    (targets : List Bytes) (w w' : World κ)
    (hinj : ∀ x y s, alookup w.idx x = some s → alookup w.idx y = some s → x = y)
    (h : cmdRun cfg exec false targets w = .ok w') :
    ∀ x stg, (alookup w'.ran x).isSome = true → alookup w.idx x = some stg → stg.hasCmd = true →
      x ∈ w'.log ∨ (UpToDate cfg w' stg ∧ ∀ o, o ∈ ownIdx cfg w.idx x → o ∉ w'.log) := by
  obtain ⟨l', hl, _, _, _, _, hdone, _⟩ := cmdRun_spec cfg exec hex.1 false targets w w' h
  simp only [Bool.not_false] at hl
  have hq0 : RunInv cfg w.idx (fresh w, []) := by
    refine ⟨by simp, by simp, ?_, by simp⟩
    simp [fresh]
  have hq := perTarget_preserves (Q := RunInv cfg w.idx) (runTrav_lawfulOn cfg exec hex.1 true w.idx)
    (fun w => w.idx.length + 1) allStages _
    (fun sp p p' _ hi hq hnd hown hact =>
      runInv_step cfg exec hex w.idx hinj sp p p' hi hq hnd (hown rfl) hact)
    (fresh w, []) (w', l') rfl hq0 hl
  intro x stg hx hsx hcx
  have hxl : x ∈ l' := by
    have := hdone x
    rw [hx] at this
    simpa using this.symm
  exact hq.2.2.2 x hxl stg hsx hcx

/-! ## (d) at command level: an up-to-date pipeline stays idle -/

theorem matchShort_congr (cfg : Cfg κ) (w1 w2 : World κ) (h1 : w1.ws = w2.ws) (h2 : w1.store = w2.store)
    (a : Art) : matchShort cfg w1 a = matchShort cfg w2 a := by
  simp only [matchShort, h1, h2]

/-- If every stage upstream of a target has inputs (or no command) and is up to date, `dud run`
executes nothing: empty command log, workspace and cache untouched, every memo entry `false`.
Partial in the same sense as `second_run_idle_partial`; the hypothesis "has inputs or no command"
cannot be dropped (`Toy.noinput_upstream_reruns_downstream`). -/
theorem second_run_idle_cmd_partial (cfg : Cfg κ) (exec : Exec κ) (hex : ExecFrame exec) (single : Bool)
    (targets : List Bytes) (w w' : World κ)
    (hup : ∀ x stg, (∃ t, t ∈ (if targets.isEmpty then allStages w else targets) ∧
        Reach (ownIdx cfg w.idx) t x) → alookup w.idx x = some stg →
        stg.noInputs = false ∧ UpToDate cfg w stg)
    (h : cmdRun cfg exec single targets w = .ok w') :
    w'.log = [] ∧ w'.ws = w.ws ∧ w'.store = w.store ∧ ∀ x, didRun w' x = false := by
  obtain ⟨l', hl, _⟩ := cmdRun_spec cfg exec hex single targets w w' h
  let Q : World κ × List Bytes → Prop := fun p =>
    p.1.log = [] ∧ p.1.ws = w.ws ∧ p.1.store = w.store ∧ ∀ x, didRun p.1 x = false
  have hq0 : Q (fresh w, []) := ⟨rfl, rfl, rfl, fun x => by simp [didRun, fresh, alookup]⟩
  refine perTarget_preserves (Q := Q) (runTrav_lawfulOn cfg exec hex (!single) w.idx)
    (fun w => w.idx.length + 1) allStages _ ?_ (fresh w, []) (w', l') rfl hq0 hl
  intro sp p p' hR hi ⟨q1, q2, q3, q4⟩ _ _ hlact
  obtain ⟨v, l⟩ := p
  obtain ⟨s, hact', rfl⟩ := logged_act_inv hlact
  simp only at hi q1 q2 q3 q4 hact'
  have hact : runAct cfg exec (!single) sp v = .ok s := hact'
  obtain ⟨stg, d, hs, hd, _, h2⟩ := runAct_inv cfg exec (!single) sp v s hact
  rw [hi] at hs
  obtain ⟨hni, u1, u2, u3⟩ := hup sp stg hR hs
  have hdec : runDecision cfg (!single) v stg = .ok false := by
    rw [runDecision_false]
    refine ⟨hni, u1, ?_, ?_, ?_⟩
    · intro a ha
      rw [hi] at ha
      rw [matchShort_congr cfg v w q2 q3]; exact u2 a ha
    · simp only [upRan, Bool.and_eq_false_iff, List.any_eq_false]
      exact .inr fun o _ => by simp [q4 o]
    · intro a ha
      rw [matchShort_congr cfg v w q2 q3]; exact u3 a ha
  rw [hdec] at hd
  cases hd
  have hw := h2 rfl
  subst hw
  refine ⟨q1, q2, q3, fun x => ?_⟩
  by_cases hx : x = sp
  · subst hx; simp [didRun, alookup]
  · simp only [didRun, alookup_cons_ne' sp x false v.ran hx]
    exact q4 x

/-! ## (c) negative witnesses -/

namespace Toy

/-- toy hash on contents `Nat` -/
def H : Nat → Digest
  | 0 => "aaa" | 1 => "bbb" | 2 => "ccc" | 5 => "eee" | _ => "ddd"

def ctx : Ctx Nat :=
  { H := H, encMan := fun _ _ _ => 99, decBlob := fun _ => none, reload := fun _ c => c, nameOK := fun _ => true }

/-- the toy configuration hashes every stage definition to the same value (the kernel cannot evaluate
`GoJson.str`); definitions never change in the witnesses, so this is immaterial -/
def cfg : Cfg Nat :=
  { ctx := ctx, ofBytes := fun _ => 7, toBytes := fun _ => [], walkAccumulates := true, fuel := 8 }

/-- the stage command does nothing -/
def exec0 : Exec Nat := fun _ w => .ok w

def pa : Bytes := [97]
def pb : Bytes := [98]
def psrc : Bytes := [115]
def spA : Bytes := [65]
def spB : Bytes := [66]

/-- record the current definition checksum -/
def withSum (s : Stage) : Stage := { s with sum := s.defSum cfg }

/-- A: `src ↦ a`; the recorded checksum of `a` is that of its current content `1` -/
def stA : Stage :=
  withSum { cmd := [120], inputs := [{ path := psrc, sum := "eee" }], outputs := [{ path := pa, sum := "bbb" }] }
/-- B: `a ↦ b`; B still records the checksum of the OLD content `0` of `a` -/
def stB : Stage :=
  withSum { cmd := [121], inputs := [{ path := pa, sum := "aaa" }], outputs := [{ path := pb, sum := "ccc" }] }

/-- `a` was regenerated (content 1) and A committed; `b` is what B recorded -/
def w1 : World Nat :=
  { ws := .dir [(psrc, .file 5), (pa, .file 1), (pb, .file 2)]
    store := [("eee", .blob 5), ("bbb", .blob 1), ("aaa", .blob 0), ("ccc", .blob 2)]
    idx := [(spA, stA), (spB, stB)] }

#eval (cmdRun cfg exec0 false [] w1).map (fun w => (w.log, w.ran))

/-- **Stale downstream after a partial commit.** B's output `b` was made from the old `a`; `a` has been
regenerated and committed by A. `dud run` executes nothing: B never compares the checksum it recorded
for its input `a` (`"aaa"`) with A's recorded output checksum (`"bbb"`) nor with the workspace. -/
theorem stale_downstream_after_partial_commit :
    (cmdRun cfg exec0 false [] w1).map (fun w => (w.log, w.ran)) = .ok ([], [(spB, false), (spA, false)]) ∧
    ownersOf cfg w1 spB = .ok [spA] ∧
    (findArt stB.inputs pa).map (·.sum) = some "aaa" ∧ (findArt stA.outputs pa).map (·.sum) = some "bbb" ∧
    matchShort cfg w1 { path := pa, sum := "aaa" } = .ok false := by
  refine ⟨by rfl, by rfl, by rfl, by rfl, by rfl⟩

def stA2 : Stage := withSum { cmd := [120], inputs := [], outputs := [{ path := pa, sum := "bbb" }] }
def stB2 : Stage :=
  withSum { cmd := [121], inputs := [{ path := pa, sum := "bbb" }], outputs := [{ path := pb, sum := "ccc" }] }

/-- everything committed and up to date -/
def w2 : World Nat :=
  { ws := .dir [(pa, .file 1), (pb, .file 2)]
    store := [("bbb", .blob 1), ("ccc", .blob 2)]
    idx := [(spA, stA2), (spB, stB2)] }

#eval (cmdRun cfg exec0 false [] w2).map (fun w => (w.log, w.ran))

/-- **A command stage without inputs re-runs, and drags its dependants along**, although every
artifact matches its recorded checksum and every definition checksum is current. -/
theorem noinput_upstream_reruns_downstream :
    (cmdRun cfg exec0 false [] w2).map (fun w => (w.log, w.ran)) = .ok ([spA, spB], [(spB, true), (spA, true)]) ∧
    stA2.sumOk cfg = true ∧ stB2.sumOk cfg = true ∧
    matchShort cfg w2 { path := pa, sum := "bbb" } = .ok true ∧
    matchShort cfg w2 { path := pb, sum := "ccc" } = .ok true := by
  refine ⟨by rfl, by rfl, by rfl, by rfl, by rfl⟩

/-- … and with `--single-stage B` nothing runs: the same world is "up to date" for B alone -/
example : (cmdRun cfg exec0 true [spB] w2).map (fun w => (w.log, w.ran)) = .ok ([], [(spB, false)]) := by rfl

/-! ### non-vacuity of the hypotheses of the positive theorems -/

theorem exec0_frame : ExecFrame' cfg exec0 := by
  refine ⟨?_, ?_⟩
  · intro stg w w' h; cases h; exact ⟨rfl, rfl, rfl, rfl, rfl⟩
  · intro stg w w1 h; cases h; intros; rfl

theorem w1_inj : ∀ x y s, alookup w1.idx x = some s → alookup w1.idx y = some s → x = y := by
  have hne : stA ≠ stB := by decide
  intro x y s hx hy
  simp only [w1, alookup] at hx hy
  split at hx
  · split at hy
    · simp_all
    · split at hy
      · cases hx; cases hy
      · cases hy
  · split at hx
    · split at hy
      · cases hx; cases hy
      · split at hy
        · simp_all
        · cases hy
    · cases hx

/-- `cmdRun_sound_partial` applies to the stale world `w1`: B is "up to date" in the only sense `dud run`
knows, although its output was made from an input that has since changed -/
example : UpToDate cfg w1 stB ∧ ∀ o, o ∈ ownIdx cfg w1.idx spB → o ∉ ([] : List Bytes) := by
  have h : cmdRun cfg exec0 false [] w1 = .ok { w1 with ran := [(spB, false), (spA, false)] } := by rfl
  have := cmdRun_sound_partial cfg exec0 exec0_frame [] w1 _ w1_inj h spB stB (by rfl) (by rfl) (by rfl)
  rcases this with h | h
  · cases h
  · exact h

/-- `dud commit` on the toy pipeline: both stages, owner first -/
example : (cmdCommit cfg .copy [] w1).map (·.done) = .ok [spB, spA] := by rfl

end Toy

/-! ## axioms -/

#print axioms runAct_decision
#print axioms runAct_skips
#print axioms runAct_runs
#print axioms runDecision_true
#print axioms runDecision_false
#print axioms runAct_uptodate
#print axioms second_run_idle_partial
#print axioms run_sound_partial
#print axioms cmdRun_sound_partial
#print axioms second_run_idle_cmd_partial
#print axioms noInputs_always_runs
#print axioms Toy.stale_downstream_after_partial_commit
#print axioms Toy.noinput_upstream_reruns_downstream

end Dud
