import DudModel.Lemmas.Run
import DudModel.Props.C08
/-!
# C09 — after a pipeline run, outputs are consistent with inputs (what holds, and what does not)

* `runAct_decision`, `runAct_skips`, `runAct_runs`, `runAct_uptodate`: exactly when `Index.Run`
  executes the stage command (six reasons, among them "an owned input's recorded checksum differs from
  what its owner records");
* `run_sound`, `cmdRun_sound`, `run_sound_owned`: a stage that did not run is, in the final state,
  exactly as recorded — definition, plain inputs, outputs and (transitively) owned inputs;
* `second_run_idle_stage`, `second_run_idle`: an up-to-date pipeline without input-less command
  stages does not run;
* witnesses over a toy configuration: `stale_downstream_now_reruns`, `consistent_pipeline_idle`,
  `noinput_upstream_reruns_downstream`.
-/
namespace Dud

variable {κ : Type}

variable [DecidableEq κ]

/-! ## (a) when does the command execute -/

/-- Inversion of a successful `runAct`: the stage exists, the decision `d` (= `ran[sp]` unless the
command ran) was computed without error, and either the command was executed (iff
`d ∧ hasCmd`) and logged, or the world is unchanged except for the memo. -/
theorem runAct_decision (cfg : Cfg κ) (exec : Exec κ) (recursive : Bool) (sp : Bytes) (w w' : World κ)
    (h : runAct cfg exec recursive sp w = .ok w') :
    ∃ stg d, alookup w.idx sp = some stg ∧ runDecision cfg recursive w stg = .ok d ∧
      ((d && stg.hasCmd) = true →
        ∃ w1, exec stg w = .ok w1 ∧ w' = { w1 with ran := (sp, true) :: w1.ran, log := w1.log ++ [sp] }) ∧
      ((d && stg.hasCmd) = false → w' = { w with ran := (sp, d) :: w.ran }) :=
  runAct_inv cfg exec recursive sp w w' h

/-- the command is not executed: no command, or the decision is "up to date" -/
theorem runAct_skips (cfg : Cfg κ) (exec : Exec κ) (recursive : Bool) (sp : Bytes) (w : World κ)
    (stg : Stage) (d : Bool) (hs : alookup w.idx sp = some stg)
    (hd : runDecision cfg recursive w stg = .ok d) (hx : (d && stg.hasCmd) = false) :
    runAct cfg exec recursive sp w = .ok { w with ran := (sp, d) :: w.ran } := by
  rw [runAct_eq, World.stage_eq_ok.2 hs]
  simp only [hd, hx, Bool.false_eq_true, if_false]

/-- the command is executed: the stage has one and one of the five reasons holds
(`runDecision_eq_true_iff`) -/
theorem runAct_runs (cfg : Cfg κ) (exec : Exec κ) (recursive : Bool) (sp : Bytes) (w : World κ)
    (stg : Stage) (hs : alookup w.idx sp = some stg)
    (hd : runDecision cfg recursive w stg = .ok true) (hc : stg.hasCmd = true) :
    runAct cfg exec recursive sp w =
      match exec stg w with
      | .error e => .error e
      | .ok w1 => .ok { w1 with ran := (sp, true) :: w1.ran, log := w1.log ++ [sp] } := by
  rw [runAct_eq, World.stage_eq_ok.2 hs]
  simp only [hd, hc, Bool.and_self, if_true]
  rfl

/-- the six reasons, with `allMatch` spelled out -/
theorem runDecision_true (cfg : Cfg κ) (recursive : Bool) (w : World κ) (stg : Stage)
    (h : runDecision cfg recursive w stg = .ok true) :
    stg.noInputs = true ∨ stg.sumOk cfg = false ∨
      (∃ a, a ∈ sortArts (plainInputs cfg w.idx stg) ∧ matchShort cfg w a = .ok false) ∨
      upRan cfg recursive w stg = true ∨ ownedStale cfg w.idx stg = true ∨
      (∃ a, a ∈ sortArts stg.outputs ∧ matchShort cfg w a = .ok false) := by
  obtain ⟨plainOk, hp, h⟩ := (runDecision_eq_true_iff cfg recursive w stg).1 h
  rcases h with h | h | h | h | h | h
  · exact .inl h
  · exact .inr (.inl h)
  · subst h
    obtain ⟨l1, a, l2, hl, _, ha⟩ := (allMatch_eq_false_iff cfg w _).1 hp
    exact .inr (.inr (.inl ⟨a, by rw [hl]; simp, ha⟩))
  · exact .inr (.inr (.inr (.inl h)))
  · exact .inr (.inr (.inr (.inr (.inl h))))
  · obtain ⟨l1, a, l2, hl, _, ha⟩ := (allMatch_eq_false_iff cfg w _).1 h
    exact .inr (.inr (.inr (.inr (.inr ⟨a, by rw [hl]; simp, ha⟩))))

/-- "up to date" means: inputs or no command, definition checksum current, every plain input and
every output matches its recorded checksum, no upstream stage ran, and every input owned by another
stage carries the checksum that owner records now -/
theorem runDecision_false (cfg : Cfg κ) (recursive : Bool) (w : World κ) (stg : Stage) :
    runDecision cfg recursive w stg = .ok false ↔
      stg.noInputs = false ∧ stg.sumOk cfg = true ∧
      (∀ a, a ∈ sortArts (plainInputs cfg w.idx stg) → matchShort cfg w a = .ok true) ∧
      upRan cfg recursive w stg = false ∧
      (∀ a, a ∈ stg.inputs → ∀ sp' oa, findOwner cfg.walkAccumulates w.idx a.path = some (sp', oa) → a.sum = oa.sum) ∧
      (∀ a, a ∈ sortArts stg.outputs → matchShort cfg w a = .ok true) := by
  rw [runDecision_eq_false_iff, allMatch_eq_true_iff, allMatch_eq_true_iff, ownedStale_eq_false_iff]

/-- a stage recorded as "did not run" was up to date in the state it was looked at -/
theorem runAct_uptodate (cfg : Cfg κ) (exec : Exec κ) (recursive : Bool) (sp : Bytes) (w w' : World κ)
    (h : runAct cfg exec recursive sp w = .ok w') (hr : didRun w' sp = false) :
    ∃ stg, alookup w.idx sp = some stg ∧ w' = { w with ran := (sp, false) :: w.ran } ∧
      stg.noInputs = false ∧ stg.sumOk cfg = true ∧
      (∀ a, a ∈ sortArts (plainInputs cfg w.idx stg) → matchShort cfg w a = .ok true) ∧
      upRan cfg recursive w stg = false ∧
      (∀ a, a ∈ stg.inputs → ∀ sp' oa, findOwner cfg.walkAccumulates w.idx a.path = some (sp', oa) → a.sum = oa.sum) ∧
      (∀ a, a ∈ sortArts stg.outputs → matchShort cfg w a = .ok true) := by
  obtain ⟨stg, d, hs, hd, h1, h2⟩ := runAct_decision cfg exec recursive sp w w' h
  cases hx : (d && stg.hasCmd) with
  | true =>
    obtain ⟨w1, _, hw⟩ := h1 hx
    subst hw
    simp [didRun, alookup] at hr
  | false =>
    have hw := h2 hx
    subst hw
    have : d = false := by simpa [didRun, alookup] using hr
    subst this
    exact ⟨stg, hs, rfl, (runDecision_false cfg recursive w stg).1 hd⟩

/-! ## (d) an up-to-date stage with inputs stays idle -/

/-- If a stage has inputs (or no command), its definition checksum is current, all its plain inputs
and its outputs match, no upstream stage ran and its owned inputs carry their owners' current
checksums, `Index.Run` leaves it alone. -/
theorem second_run_idle_stage (cfg : Cfg κ) (exec : Exec κ) (recursive : Bool) (sp : Bytes) (w : World κ)
    (stg : Stage) (hs : alookup w.idx sp = some stg)
    (hin : stg.noInputs = false) (hsum : stg.sumOk cfg = true)
    (hplain : ∀ a, a ∈ sortArts (plainInputs cfg w.idx stg) → matchShort cfg w a = .ok true)
    (hup : upRan cfg recursive w stg = false)
    (howned : ∀ a, a ∈ stg.inputs → ∀ sp' oa,
      findOwner cfg.walkAccumulates w.idx a.path = some (sp', oa) → a.sum = oa.sum)
    (houts : ∀ a, a ∈ sortArts stg.outputs → matchShort cfg w a = .ok true) :
    runAct cfg exec recursive sp w = .ok { w with ran := (sp, false) :: w.ran } :=
  runAct_skips cfg exec recursive sp w stg false hs
    ((runDecision_false cfg recursive w stg).2 ⟨hin, hsum, hplain, hup, howned, houts⟩) rfl

/-- conversely a command stage without inputs always runs -/
theorem noInputs_always_runs (cfg : Cfg κ) (exec : Exec κ) (recursive : Bool) (sp : Bytes) (w : World κ)
    (stg : Stage) (hs : alookup w.idx sp = some stg) (hin : stg.noInputs = true) :
    runAct cfg exec recursive sp w =
      match exec stg w with
      | .error e => .error e
      | .ok w1 => .ok { w1 with ran := (sp, true) :: w1.ran, log := w1.log ++ [sp] } := by
  have hplain : plainInputs cfg w.idx stg = [] := by
    simp only [Stage.noInputs, Bool.and_eq_true, List.isEmpty_iff] at hin
    simp [plainInputs, hin.2]
  refine runAct_runs cfg exec recursive sp w stg hs ?_ (by
    simp only [Stage.noInputs, Bool.and_eq_true] at hin; exact hin.1)
  rw [runDecision_eq_true_iff]
  exact ⟨true, by rw [hplain]; rfl, .inl hin⟩

/-! ## (b) what a successful recursive run guarantees in the final state -/

/-- the stage command leaves index, memo, log, `done` and cache alone, and does not change the status
of the outputs and plain inputs of any OTHER stage of the index -/
def ExecFrame' (cfg : Cfg κ) (exec : Exec κ) : Prop :=
  ExecFrame exec ∧
  ∀ stg w w1, exec stg w = .ok w1 → ∀ sp' stg', alookup w.idx sp' = some stg' → stg' ≠ stg →
    ∀ a, (a ∈ sortArts stg'.outputs ∨ a ∈ sortArts (plainInputs cfg w.idx stg')) →
      matchShort cfg w1 a = matchShort cfg w a

/-- Everything the stage recorded is current: definition checksum; every plain input and every output
matches its recorded checksum in the workspace; every input owned by another stage carries the
checksum that owner records (now) for the owning artifact. -/
def UpToDate (cfg : Cfg κ) (w : World κ) (stg : Stage) : Prop :=
  stg.sumOk cfg = true ∧
  (∀ a, a ∈ sortArts (plainInputs cfg w.idx stg) → matchShort cfg w a = .ok true) ∧
  (∀ a, a ∈ sortArts stg.outputs → matchShort cfg w a = .ok true) ∧
  (∀ a, a ∈ stg.inputs → ∀ sp' oa, findOwner cfg.walkAccumulates w.idx a.path = some (sp', oa) →
    a.sum = oa.sum)

omit [DecidableEq κ] in
theorem ownIdx_subset_upOwners (cfg : Cfg κ) (idx : Index) (sp : Bytes) (stg : Stage)
    (hs : alookup idx sp = some stg) (o : Bytes) (ho : o ∈ ownIdx cfg idx sp) :
    o ∈ upOwners cfg idx stg := by
  simp only [ownIdx, hs, List.mem_filterMap] at ho
  obtain ⟨a, ha, h⟩ := ho
  simp only [upOwners, List.mem_filterMap]
  exact ⟨a, mem_of_mem_sortArts ha, h⟩

omit [DecidableEq κ] in
theorem didRun_isSome {w : World κ} {x : Bytes} (h : didRun w x = true) : (alookup w.ran x).isSome = true := by
  simp only [didRun] at h
  cases hl : alookup w.ran x with
  | none => rw [hl] at h; cases h
  | some b => rfl

theorem alookup_cons_ne' (sp x : Bytes) (b : Bool) (ran : List (Bytes × Bool)) (h : x ≠ sp) :
    alookup ((sp, b) :: ran) x = alookup ran x := by
  have : (sp == x) = false := by simpa using fun h' => h h'.symm
  simp only [alookup, this, Bool.false_eq_true, if_false]

/-- the invariant of `run_sound`, on the logged state `(w, l)`:
every stage in `l` is in the memo, so are its owners; the command log lists only stages whose memo
entry is `true`; a command stage whose memo entry is `true` is in the command log; a stage whose memo
entry is `false` has inputs (or no command), is up to date NOW, and none of its owners ran. -/
def RunInv (cfg : Cfg κ) (idx : Index) (p : World κ × List Bytes) : Prop :=
  (∀ x, x ∈ p.2 → (alookup p.1.ran x).isSome = true) ∧
  (∀ x, x ∈ p.2 → ∀ o, o ∈ ownIdx cfg idx x → (alookup p.1.ran o).isSome = true) ∧
  (∀ x, x ∈ p.1.log → didRun p.1 x = true) ∧
  (∀ x, x ∈ p.2 → ∀ stg, alookup idx x = some stg → didRun p.1 x = true → stg.hasCmd = true →
    x ∈ p.1.log) ∧
  (∀ x, x ∈ p.2 → ∀ stg, alookup idx x = some stg → didRun p.1 x = false →
    stg.noInputs = false ∧ UpToDate cfg p.1 stg ∧ ∀ o, o ∈ ownIdx cfg idx x → didRun p.1 o = false)

theorem runInv_step (cfg : Cfg κ) (exec : Exec κ) (hex : ExecFrame' cfg exec) (idx : Index)
    (hinj : ∀ x y s, alookup idx x = some s → alookup idx y = some s → x = y)
    (sp : Bytes) (p p' : World κ × List Bytes) (hi : p.1.idx = idx) (hq : RunInv cfg idx p)
    (hnd : (alookup p.1.ran sp).isSome = false)
    (hown : ∀ o, o ∈ ownIdx cfg idx sp → (alookup p.1.ran o).isSome = true)
    (h : (runTrav cfg exec true).logged.act sp p = .ok p') : RunInv cfg idx p' := by
  obtain ⟨w, l⟩ := p
  obtain ⟨s, hact', rfl⟩ := logged_act_inv h
  simp only at hi hnd hown hact' ⊢
  subst hi
  obtain ⟨q1, q2, q3, q4, q5⟩ := hq
  simp only at q1 q2 q3 q4 q5
  have hact : runAct cfg exec true sp w = .ok s := hact'
  obtain ⟨stg, d, hs, hd, h1, h2⟩ := runAct_inv cfg exec true sp w s hact
  -- facts common to both cases
  have hne_done : ∀ x, (alookup w.ran x).isSome = true → x ≠ sp := by
    intro x hx hxs; subst hxs; rw [hnd] at hx; cases hx
  obtain ⟨hidx, _, b, hran⟩ := runAct_frame cfg exec hex.1 true sp w s hact
  have hmono : ∀ x, (alookup w.ran x).isSome = true → (alookup s.ran x).isSome = true := by
    intro x hx; rw [hran, isSome_alookup_cons, hx, Bool.or_true]
  have hsp : (alookup s.ran sp).isSome = true := by
    rw [hran, isSome_alookup_cons]; simp
  have hdid : ∀ x, x ≠ sp → didRun s x = didRun w x := by
    intro x hx; simp only [didRun, hran, alookup_cons_ne' sp x b w.ran hx]
  have hdidsp : didRun s sp = b := by simp [didRun, hran, alookup]
  have hstg : ∀ x stgx, x ∈ l → alookup w.idx x = some stgx → stgx ≠ stg := by
    intro x stgx hx hsx he; subst he
    exact hne_done x (q1 x hx) (hinj x sp stgx hsx hs)
  -- how the command log and the statuses change
  have hcase : (s.log = w.log ∧ b = d ∧ (d && stg.hasCmd) = false ∧
        ∀ st', UpToDate cfg s st' = UpToDate cfg w st') ∨
      (s.log = w.log ++ [sp] ∧ b = true ∧
        ∀ x stgx, x ∈ l → alookup w.idx x = some stgx → UpToDate cfg w stgx → UpToDate cfg s stgx) := by
    cases hx : (d && stg.hasCmd) with
    | false =>
      have hw := h2 hx
      refine .inl ⟨by rw [hw], ?_, rfl, fun st' => by rw [hw]; rfl⟩
      rw [hw] at hran
      simp only [List.cons.injEq, Prod.mk.injEq] at hran
      exact hran.1.2.symm
    | true =>
      obtain ⟨w1, he, hw⟩ := h1 hx
      obtain ⟨_, _, f3, _, _⟩ := hex.1 stg w w1 he
      refine .inr ⟨by rw [hw]; simp only [f3], ?_, ?_⟩
      · rw [hw] at hran
        simp only [List.cons.injEq, Prod.mk.injEq] at hran
        exact hran.1.2.symm
      · intro x stgx hxl hsx ⟨u1, u2, u3, u4⟩
        have hm : ∀ a, (a ∈ sortArts stgx.outputs ∨ a ∈ sortArts (plainInputs cfg w.idx stgx)) →
            matchShort cfg s a = matchShort cfg w a := by
          intro a ha
          rw [← hex.2 stg w w1 he x stgx hsx (hstg x stgx hxl hsx) a ha, hw]; rfl
        refine ⟨u1, ?_, ?_, ?_⟩
        · intro a ha
          rw [hidx] at ha
          rw [hm a (.inr ha)]; exact u2 a ha
        · intro a ha
          rw [hm a (.inl ha)]; exact u3 a ha
        · rw [hidx]; exact u4
  refine ⟨?_, ?_, ?_, ?_, ?_⟩
  · intro x hx
    rcases List.mem_append.1 hx with hx | hx
    · exact hmono x (q1 x hx)
    · rw [List.mem_singleton] at hx; subst hx; exact hsp
  · intro x hx o ho
    rcases List.mem_append.1 hx with hx | hx
    · exact hmono o (q2 x hx o ho)
    · rw [List.mem_singleton] at hx; subst hx; exact hmono o (hown o ho)
  · -- everything in the command log has memo entry `true`
    intro x hxl
    rcases hcase with ⟨hlog, _⟩ | ⟨hlog, hb, _⟩
    · rw [hlog] at hxl
      have := q3 x hxl
      rw [hdid x (hne_done x (didRun_isSome this))]; exact this
    · rw [hlog] at hxl
      rcases List.mem_append.1 hxl with hxl | hxl
      · have := q3 x hxl
        rw [hdid x (hne_done x (didRun_isSome this))]; exact this
      · rw [List.mem_singleton] at hxl; rw [hxl, hdidsp, hb]
  · -- a command stage with memo entry `true` was executed
    intro x hx stgx hsx hdx hcx
    rcases List.mem_append.1 hx with hx | hx
    · have hxsp := hne_done x (q1 x hx)
      rw [hdid x hxsp] at hdx
      have := q4 x hx stgx hsx hdx hcx
      rcases hcase with ⟨hlog, _⟩ | ⟨hlog, _⟩
      · rw [hlog]; exact this
      · rw [hlog]; exact List.mem_append_left _ this
    · rw [List.mem_singleton] at hx
      rw [hx] at hsx hdx
      have : stgx = stg := by rw [hs] at hsx; cases hsx; rfl
      subst this
      rcases hcase with ⟨_, hb, hdc, _⟩ | ⟨hlog, _⟩
      · rw [hdidsp, hb] at hdx
        rw [hdx, hcx] at hdc; cases hdc
      · rw [hlog, hx]; simp
  · -- a stage with memo entry `false` is up to date now and none of its owners ran
    intro x hx stgx hsx hdx
    rcases List.mem_append.1 hx with hx | hx
    · have hxsp := hne_done x (q1 x hx)
      rw [hdid x hxsp] at hdx
      obtain ⟨g0, g1, g2⟩ := q5 x hx stgx hsx hdx
      refine ⟨g0, ?_, fun o ho => ?_⟩
      · rcases hcase with ⟨_, _, _, hup⟩ | ⟨_, _, hup⟩
        · rw [hup]; exact g1
        · exact hup x stgx hx hsx g1
      · rw [hdid o (hne_done o (q2 x hx o ho))]; exact g2 o ho
    · rw [List.mem_singleton] at hx
      rw [hx] at hsx hdx
      have : stgx = stg := by rw [hs] at hsx; cases hsx; rfl
      subst this
      rcases hcase with ⟨_, hb, _, hup⟩ | ⟨_, hb, _⟩
      · rw [hdidsp, hb] at hdx
        subst hdx
        obtain ⟨g1, g2, g3, g4, g5, g6⟩ := (runDecision_false cfg true w stgx).1 hd
        refine ⟨g1, by rw [hup]; exact ⟨g2, g3, g6, g5⟩, fun o ho => ?_⟩
        rw [hx] at ho
        rw [hdid o (hne_done o (hown o ho))]
        simp only [upRan, Bool.true_and, List.any_eq_false] at g4
        have := g4 o (ownIdx_subset_upOwners cfg w.idx sp stgx hs o ho)
        simpa using this
      · rw [hdidsp, hb] at hdx; cases hdx

/-- The conclusion of `run_sound` for one stage `x` (with definition `stg`) of the memo, in the final
world `w'`: either its memo entry is `true` — and then, if it has a command, the command was executed
in this run — or its memo entry is `false`, it was not executed, it has inputs (or no command), it is
up to date in the FINAL state, and all its owners are in the memo with entry `false` (so the same
holds for them, transitively). -/
def RunSound (cfg : Cfg κ) (idx : Index) (w' : World κ) (x : Bytes) (stg : Stage) : Prop :=
  (didRun w' x = true ∧ (stg.hasCmd = true → x ∈ w'.log)) ∨
  (didRun w' x = false ∧ x ∉ w'.log ∧ stg.noInputs = false ∧ UpToDate cfg w' stg ∧
    ∀ o, o ∈ ownIdx cfg idx x → (alookup w'.ran o).isSome = true ∧ didRun w' o = false)

omit [DecidableEq κ] in
theorem RunInv.sound {cfg : Cfg κ} {idx : Index} {w' : World κ} {l' : List Bytes}
    [DecidableEq κ] (hq : RunInv cfg idx (w', l')) (x : Bytes) (stg : Stage) (hxl : x ∈ l')
    (hsx : alookup idx x = some stg) : RunSound cfg idx w' x stg := by
  obtain ⟨q1, q2, q3, q4, q5⟩ := hq
  cases hd : didRun w' x with
  | true => exact .inl ⟨hd, q4 x hxl stg hsx hd⟩
  | false =>
    obtain ⟨g0, g1, g2⟩ := q5 x hxl stg hsx hd
    refine .inr ⟨hd, fun hl => ?_, g0, g1, fun o ho => ⟨q2 x hxl o ho, g2 o ho⟩⟩
    have := q3 x hl
    rw [hd] at this; cases this

/-- **What `dud run` guarantees.** After a successful recursive traversal from a world where nothing
ran, every stage of the memo either has memo entry `true` (and, if it has a command, executed), or was
not executed and is, in the FINAL state, exactly as recorded: definition checksum current, plain
inputs and outputs match their recorded checksums, every owned input carries the checksum its owner
records, and no owner executed — transitively, since the owners are in the memo with entry `false`.

Hypotheses: the frame condition `ExecFrame'` on the commands (in particular `exec` does not change
the index, so recorded checksums are stable during the run) and `hinj` (distinct stage paths carry
distinct definitions — `exec` only sees the definition). See `run_sound_owned` for what the owned-input
clause means in the workspace. -/
theorem run_sound (cfg : Cfg κ) (exec : Exec κ) (hex : ExecFrame' cfg exec) (idx : Index)
    (hinj : ∀ x y s, alookup idx x = some s → alookup idx y = some s → x = y)
    (fuel : Nat) (avail : List Bytes) (sp : Bytes) (w w' : World κ) (l' : List Bytes)
    (hi : w.idx = idx) (h0 : w.ran = []) (hlog : w.log = [])
    (h : visit (runTrav cfg exec true).logged true fuel avail sp (w, []) = .ok (w', l')) :
    ∀ x stg, (alookup w'.ran x).isSome = true → alookup idx x = some stg → RunSound cfg idx w' x stg := by
  have hT := runTrav_lawfulOn cfg exec hex.1 true idx
  have hq0 : RunInv cfg idx (w, []) := by
    refine ⟨by simp, by simp, ?_, by simp, by simp⟩
    simp [hlog]
  have hq := visit_preserves (Q := RunInv cfg idx) hT
    (fun sp p p' hi hq hnd hown hact =>
      runInv_step cfg exec hex idx hinj sp p p' hi hq hnd (hown rfl) hact)
    fuel avail sp (w, []) (w', l') hi hq0 h
  have h0' : ∀ x, (runTrav cfg exec true).isDone w x = false := by
    intro x; simp [runTrav, h0, alookup]
  have hspec := visit_spec_on _ _ _ hT true fuel avail sp w w' l' hi h0' h
  intro x stg hx hsx
  have hxl : x ∈ l' := by
    have := hspec.2.2.2.2.1 x
    simp only [runTrav] at this
    rw [hx] at this
    simpa using this.symm
  exact hq.sound x stg hxl hsx

/-- the same for the whole command `dud run` (recursive, any targets) -/
theorem cmdRun_sound (cfg : Cfg κ) (exec : Exec κ) (hex : ExecFrame' cfg exec)
    (targets : List Bytes) (w w' : World κ)
    (hinj : ∀ x y s, alookup w.idx x = some s → alookup w.idx y = some s → x = y)
    (h : cmdRun cfg exec false targets w = .ok w') :
    w'.idx = w.idx ∧
    ∀ x stg, (alookup w'.ran x).isSome = true → alookup w.idx x = some stg → RunSound cfg w.idx w' x stg := by
  obtain ⟨l', hl, hidx, _, _, _, hdone, _⟩ := cmdRun_spec cfg exec hex.1 false targets w w' h
  simp only [Bool.not_false] at hl
  have hq0 : RunInv cfg w.idx (fresh w, []) := by
    refine ⟨by simp, by simp, ?_, by simp, by simp⟩
    simp [fresh]
  have hq := perTarget_preserves (Q := RunInv cfg w.idx) (runTrav_lawfulOn cfg exec hex.1 true w.idx)
    (fun w => w.idx.length + 1) allStages _
    (fun sp p p' _ hi hq hnd hown hact =>
      runInv_step cfg exec hex w.idx hinj sp p p' hi hq hnd (hown rfl) hact)
    (fresh w, []) (w', l') rfl hq0 hl
  refine ⟨hidx, fun x stg hx hsx => ?_⟩
  have hxl : x ∈ l' := by
    have := hdone x
    rw [hx] at this
    simpa using this.symm
  exact hq.sound x stg hxl hsx

/-! ### what the owned-input clause means in the workspace -/

omit [DecidableEq κ] in
theorem ownerWalk_mem (wa : Bool) (arts : List Art) (full : Bytes) : ∀ (parts : List Bytes) (dir : Bytes) (o : Art),
    ownerWalk wa arts full dir parts = some o → o ∈ arts
  | [], _, _, h => by simp [ownerWalk] at h
  | part :: r, dir, o, h => by
    simp only [ownerWalk] at h
    generalize Path.join [if wa then dir else [], part] = d at h
    cases hf : findArt arts d with
    | none =>
      rw [hf] at h
      exact ownerWalk_mem wa arts full r _ o h
    | some o' =>
      rw [hf] at h
      simp only at h
      by_cases hc : (!o'.noRec || d == full) = true
      · rw [if_pos hc] at h
        cases h
        exact List.mem_of_find?_eq_some hf
      · rw [if_neg hc] at h
        exact ownerWalk_mem wa arts full r _ o h

omit [DecidableEq κ] in
/-- the owning artifact is an output of the owning stage, which is in the index -/
theorem findOwner_mem (wa : Bool) (idx : Index) (p : Bytes) (o : Bytes) (oa : Art)
    (h : findOwner wa idx p = some (o, oa)) : ∃ stg, (o, stg) ∈ idx ∧ oa ∈ stg.outputs := by
  induction idx with
  | nil => simp [findOwner] at h
  | cons e r ih =>
    obtain ⟨k, stg⟩ := e
    simp only [findOwner] at h
    split at h
    · rename_i a hf
      cases h
      exact ⟨stg, List.mem_cons_self, List.mem_of_find?_eq_some hf⟩
    · split at h
      · rename_i a hf
        cases h
        exact ⟨stg, List.mem_cons_self, ownerWalk_mem _ _ _ _ _ _ hf⟩
      · obtain ⟨stg', h1, h2⟩ := ih h
        exact ⟨stg', List.mem_cons_of_mem _ h1, h2⟩

omit [DecidableEq κ] in
theorem alookup_of_mem_nodup {idx : Index} (hn : (idx.map (·.1)).Nodup) {sp : Bytes} {stg : Stage}
    (hm : (sp, stg) ∈ idx) : alookup idx sp = some stg := by
  induction idx with
  | nil => cases hm
  | cons e r ih =>
    obtain ⟨k, v⟩ := e
    simp only [List.map_cons, List.nodup_cons] at hn
    simp only [alookup]
    rcases List.mem_cons.1 hm with h | h
    · cases h; simp
    · have : k ≠ sp := fun hk => hn.1 (hk ▸ List.mem_map.2 ⟨(sp, stg), h, rfl⟩)
      have hk' : (k == sp) = false := by simpa using this
      simp only [hk', Bool.false_eq_true, if_false]
      exact ih hn.2 h

/-- index well-formedness (Go: the index and the artifacts of a stage are maps): distinct stage paths,
and within a stage distinct output paths -/
def IdxWF (idx : Index) : Prop :=
  (idx.map (·.1)).Nodup ∧ ∀ sp stg, (sp, stg) ∈ idx → stg.outputs.Pairwise (fun a b => a.path ≠ b.path)

/-- **The owned inputs of a stage that did not run.** In the situation of `run_sound`, for a stage `x`
with memo entry `false` and any of its inputs `a` owned by stage `o` through the output artifact `oa`:
`o` is a stage of the index, was looked at and did not run either, `a` carries the checksum recorded in
`oa`, and `oa` matches the workspace. So what `x` recorded about its owned input is what is there. -/
theorem run_sound_owned (cfg : Cfg κ) (idx : Index) (hwf : IdxWF idx) (w' : World κ) (hi : w'.idx = idx)
    (hall : ∀ x stg, (alookup w'.ran x).isSome = true → alookup idx x = some stg → RunSound cfg idx w' x stg)
    (x : Bytes) (stg : Stage) (hx : (alookup w'.ran x).isSome = true) (hsx : alookup idx x = some stg)
    (hd : didRun w' x = false) (a : Art) (ha : a ∈ stg.inputs) (o : Bytes) (oa : Art)
    (ho : findOwner cfg.walkAccumulates idx a.path = some (o, oa)) :
    ∃ stgo, alookup idx o = some stgo ∧ oa ∈ stgo.outputs ∧ didRun w' o = false ∧
      a.sum = oa.sum ∧ matchShort cfg w' oa = .ok true := by
  rcases hall x stg hx hsx with ⟨h, _⟩ | ⟨_, _, _, ⟨_, _, _, u4⟩, hown⟩
  · rw [hd] at h; cases h
  obtain ⟨stgo, hm, hoa⟩ := findOwner_mem _ _ _ _ _ ho
  have hso := alookup_of_mem_nodup hwf.1 hm
  have hoo : o ∈ ownIdx cfg idx x := by
    rw [mem_ownIdx]
    exact ⟨stg, hsx, a.path, List.mem_map.2 ⟨a, ha, rfl⟩, by rw [ho]; rfl⟩
  obtain ⟨hos, hod⟩ := hown o hoo
  refine ⟨stgo, hso, hoa, hod, u4 a ha o oa (by rw [hi]; exact ho), ?_⟩
  rcases hall o stgo hos hso with ⟨h, _⟩ | ⟨_, _, _, ⟨_, _, v3, _⟩, _⟩
  · rw [hod] at h; cases h
  · exact v3 oa (mem_sortArts_of_mem (hwf.2 o stgo hm) hoa)

/-! ## (d) at command level: an up-to-date pipeline stays idle -/

theorem matchShort_congr (cfg : Cfg κ) (w1 w2 : World κ) (h1 : w1.ws = w2.ws) (h2 : w1.store = w2.store)
    (a : Art) : matchShort cfg w1 a = matchShort cfg w2 a := by
  simp only [matchShort, h1, h2]

/-- **A second `dud run` is idle.** If no command stage without inputs is upstream of a target and
every stage upstream of a target is up to date (definition, plain inputs, outputs, and owned inputs
carrying their owners' checksums), `dud run` executes nothing: empty command log, workspace and cache
untouched, every memo entry `false`. The hypothesis on input-less command stages cannot be dropped
(`Toy.noinput_upstream_reruns_downstream`). -/
theorem second_run_idle (cfg : Cfg κ) (exec : Exec κ) (hex : ExecFrame exec) (single : Bool)
    (targets : List Bytes) (w w' : World κ)
    (hni : ∀ x stg, (∃ t, t ∈ (if targets.isEmpty then allStages w else targets) ∧
        Reach (ownIdx cfg w.idx) t x) → alookup w.idx x = some stg → stg.noInputs = false)
    (hup : ∀ x stg, (∃ t, t ∈ (if targets.isEmpty then allStages w else targets) ∧
        Reach (ownIdx cfg w.idx) t x) → alookup w.idx x = some stg → UpToDate cfg w stg)
    (h : cmdRun cfg exec single targets w = .ok w') :
    w'.log = [] ∧ w'.ws = w.ws ∧ w'.store = w.store ∧ w'.idx = w.idx ∧ ∀ x, didRun w' x = false := by
  obtain ⟨l', hl, hidx, _⟩ := cmdRun_spec cfg exec hex single targets w w' h
  let Q : World κ × List Bytes → Prop := fun p =>
    p.1.log = [] ∧ p.1.ws = w.ws ∧ p.1.store = w.store ∧ ∀ x, didRun p.1 x = false
  have hq0 : Q (fresh w, []) := ⟨rfl, rfl, rfl, fun x => by simp [didRun, fresh, alookup]⟩
  suffices hQ : Q (w', l') from ⟨hQ.1, hQ.2.1, hQ.2.2.1, hidx, hQ.2.2.2⟩
  refine perTarget_preserves (Q := Q) (runTrav_lawfulOn cfg exec hex (!single) w.idx)
    (fun w => w.idx.length + 1) allStages _ ?_ (fresh w, []) (w', l') rfl hq0 hl
  intro sp p p' hR hi ⟨q1, q2, q3, q4⟩ _ _ hlact
  obtain ⟨v, l⟩ := p
  obtain ⟨s, hact', rfl⟩ := logged_act_inv hlact
  simp only at hi q1 q2 q3 q4 hact'
  have hact : runAct cfg exec (!single) sp v = .ok s := hact'
  obtain ⟨stg, d, hs, hd, _, h2⟩ := runAct_inv cfg exec (!single) sp v s hact
  rw [hi] at hs
  have hn := hni sp stg hR hs
  obtain ⟨u1, u2, u3, u4⟩ := hup sp stg hR hs
  have hdec : runDecision cfg (!single) v stg = .ok false := by
    rw [runDecision_false]
    refine ⟨hn, u1, ?_, ?_, ?_, ?_⟩
    · intro a ha
      rw [hi] at ha
      rw [matchShort_congr cfg v w q2 q3]; exact u2 a ha
    · simp only [upRan, Bool.and_eq_false_iff, List.any_eq_false]
      exact .inr fun o _ => by simp [q4 o]
    · rw [hi]; exact u4
    · intro a ha
      rw [matchShort_congr cfg v w q2 q3]; exact u3 a ha
  rw [hdec] at hd
  cases hd
  have hw := h2 rfl
  subst hw
  refine ⟨q1, q2, q3, fun x => ?_⟩
  by_cases hx : x = sp
  · subst hx; simp [didRun, alookup]
  · simp only [didRun, alookup_cons_ne' sp x false v.ran hx]
    exact q4 x

/-! ## (c) negative witnesses -/

namespace Toy

/-- toy hash on contents `Nat` -/
def H : Nat → Digest
  | 0 => "aaa" | 1 => "bbb" | 2 => "ccc" | 5 => "eee" | _ => "ddd"

def ctx : Ctx Nat :=
  { H := H, encMan := fun _ _ _ => 99, decBlob := fun _ => none, reload := fun _ c => c, nameOK := fun _ => true }

/-- the toy configuration hashes every stage definition to the same value (the kernel cannot evaluate
`GoJson.str`); definitions never change in the witnesses, so this is immaterial -/
def cfg : Cfg Nat :=
  { ctx := ctx, ofBytes := fun _ => 7, toBytes := fun _ => [], walkAccumulates := true, fuel := 8 }

/-- the stage command does nothing -/
def exec0 : Exec Nat := fun _ w => .ok w

def pa : Bytes := [97]
def pb : Bytes := [98]
def psrc : Bytes := [115]
def spA : Bytes := [65]
def spB : Bytes := [66]

/-- record the current definition checksum -/
def withSum (s : Stage) : Stage := { s with sum := s.defSum cfg }

/-- A: `src ↦ a`; the recorded checksum of `a` is that of its current content `1` -/
def stA : Stage :=
  withSum { cmd := [120], inputs := [{ path := psrc, sum := "eee" }], outputs := [{ path := pa, sum := "bbb" }] }
/-- B: `a ↦ b`; B still records the checksum of the OLD content `0` of `a` -/
def stB : Stage :=
  withSum { cmd := [121], inputs := [{ path := pa, sum := "aaa" }], outputs := [{ path := pb, sum := "ccc" }] }

/-- `a` was regenerated (content 1) and A committed; `b` is what B recorded -/
def w1 : World Nat :=
  { ws := .dir [(psrc, .file 5), (pa, .file 1), (pb, .file 2)]
    store := [("eee", .blob 5), ("bbb", .blob 1), ("aaa", .blob 0), ("ccc", .blob 2)]
    idx := [(spA, stA), (spB, stB)] }

#eval (cmdRun cfg exec0 false [] w1).map (fun w => (w.log, w.ran))

/-- **The stale downstream stage now re-runs.** B's output `b` was made from the old `a`; `a` has been
regenerated and committed by A (A records `"bbb"`), B still records `"aaa"` for its input `a`.
`dud run` leaves A alone and executes B ("owned input out-of-date"). Before the fix nothing ran. -/
theorem stale_downstream_now_reruns :
    (cmdRun cfg exec0 false [] w1).map (fun w => (w.log, w.ran)) = .ok ([spB], [(spB, true), (spA, false)]) ∧
    ownersOf cfg w1 spB = .ok [spA] ∧
    (findArt stB.inputs pa).map (·.sum) = some "aaa" ∧ (findArt stA.outputs pa).map (·.sum) = some "bbb" ∧
    ownedStale cfg w1.idx stB = true ∧ ownedStale cfg w1.idx stA = false := by
  refine ⟨by rfl, by rfl, by rfl, by rfl, by rfl, by rfl⟩

/-- the check does not depend on `--single-stage` -/
example : (cmdRun cfg exec0 true [spB] w1).map (fun w => (w.log, w.ran)) = .ok ([spB], [(spB, true)]) := by rfl

/-- B as it is after re-running and committing: it records A's current checksum for `a` -/
def stB3 : Stage :=
  withSum { cmd := [121], inputs := [{ path := pa, sum := "bbb" }], outputs := [{ path := pb, sum := "ccc" }] }

/-- a consistent pipeline -/
def w3 : World Nat := { w1 with idx := [(spA, stA), (spB, stB3)] }

#eval (cmdRun cfg exec0 false [] w3).map (fun w => (w.log, w.ran))

/-- on the consistent pipeline nothing runs -/
theorem consistent_pipeline_idle :
    (cmdRun cfg exec0 false [] w3).map (fun w => (w.log, w.ran)) = .ok ([], [(spB, false), (spA, false)]) := by
  rfl

def stA2 : Stage := withSum { cmd := [120], inputs := [], outputs := [{ path := pa, sum := "bbb" }] }
def stB2 : Stage :=
  withSum { cmd := [121], inputs := [{ path := pa, sum := "bbb" }], outputs := [{ path := pb, sum := "ccc" }] }

/-- everything committed and up to date -/
def w2 : World Nat :=
  { ws := .dir [(pa, .file 1), (pb, .file 2)]
    store := [("bbb", .blob 1), ("ccc", .blob 2)]
    idx := [(spA, stA2), (spB, stB2)] }

#eval (cmdRun cfg exec0 false [] w2).map (fun w => (w.log, w.ran))

/-- **A command stage without inputs re-runs, and drags its dependants along**, although every
artifact matches its recorded checksum and every definition checksum is current. -/
theorem noinput_upstream_reruns_downstream :
    (cmdRun cfg exec0 false [] w2).map (fun w => (w.log, w.ran)) = .ok ([spA, spB], [(spB, true), (spA, true)]) ∧
    stA2.sumOk cfg = true ∧ stB2.sumOk cfg = true ∧
    matchShort cfg w2 { path := pa, sum := "bbb" } = .ok true ∧
    matchShort cfg w2 { path := pb, sum := "ccc" } = .ok true := by
  refine ⟨by rfl, by rfl, by rfl, by rfl, by rfl⟩

/-- … and with `--single-stage B` nothing runs: the same world is "up to date" for B alone -/
example : (cmdRun cfg exec0 true [spB] w2).map (fun w => (w.log, w.ran)) = .ok ([], [(spB, false)]) := by rfl

/-! ### non-vacuity of the hypotheses of the positive theorems -/

theorem exec0_frame : ExecFrame' cfg exec0 := by
  refine ⟨?_, ?_⟩
  · intro stg w w' h; cases h; exact ⟨rfl, rfl, rfl, rfl, rfl⟩
  · intro stg w w1 h; cases h; intros; rfl

theorem w1_inj : ∀ x y s, alookup w1.idx x = some s → alookup w1.idx y = some s → x = y := by
  have hne : stA ≠ stB := by decide
  intro x y s hx hy
  simp only [w1, alookup] at hx hy
  split at hx
  · split at hy
    · simp_all
    · split at hy
      · cases hx; cases hy
      · cases hy
  · split at hx
    · split at hy
      · cases hx; cases hy
      · split at hy
        · simp_all
        · cases hy
    · cases hx

theorem w3_inj : ∀ x y s, alookup w3.idx x = some s → alookup w3.idx y = some s → x = y := by
  intro x y s hx hy
  simp only [w3, alookup] at hx hy
  split at hx
  · split at hy
    · simp_all
    · split at hy
      · cases hx; cases hy
      · cases hy
  · split at hx
    · split at hy
      · cases hx; cases hy
      · split at hy
        · simp_all
        · cases hy
    · cases hx

/-- `cmdRun_sound` on the consistent pipeline: B did not run, is up to date in the final state — in
particular records for `a` what A records — and its owner A did not run either -/
example : UpToDate cfg w3 stB3 ∧
    ∀ o, o ∈ ownIdx cfg w3.idx spB → (alookup [(spB, false), (spA, false)] o).isSome = true ∧
      didRun { w3 with ran := [(spB, false), (spA, false)] } o = false := by
  have h : cmdRun cfg exec0 false [] w3 = .ok { w3 with ran := [(spB, false), (spA, false)] } := by rfl
  have := (cmdRun_sound cfg exec0 exec0_frame [] w3 _ w3_inj h).2 spB stB3 (by rfl) (by rfl)
  rcases this with ⟨h, _⟩ | ⟨_, _, _, h1, h2⟩
  · cases h
  · exact ⟨h1, h2⟩

/-- the well-formedness hypothesis of `run_sound_owned` is satisfiable -/
example : IdxWF w3.idx := by
  refine ⟨by decide, ?_⟩
  intro sp stg h
  simp only [w3, List.mem_cons, Prod.mk.injEq, List.not_mem_nil, or_false] at h
  rcases h with ⟨_, rfl⟩ | ⟨_, rfl⟩ <;> simp [stA, stB3, withSum]

/-- `dud commit` on the toy pipeline: both stages, owner first -/
example : (cmdCommit cfg .copy [] w1).map (·.done) = .ok [spB, spA] := by rfl

end Toy

/-! ## axioms -/

#print axioms runAct_decision
#print axioms runAct_skips
#print axioms runAct_runs
#print axioms runDecision_true
#print axioms runDecision_false
#print axioms runAct_uptodate
#print axioms second_run_idle_stage
#print axioms run_sound
#print axioms cmdRun_sound
#print axioms run_sound_owned
#print axioms second_run_idle
#print axioms noInputs_always_runs
#print axioms Toy.stale_downstream_now_reruns
#print axioms Toy.consistent_pipeline_idle
#print axioms Toy.noinput_upstream_reruns_downstream

end Dud
