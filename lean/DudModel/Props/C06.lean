import DudModel.Lemmas.Checkout
import DudModel.Generated.Facts
/-!
# C06: checkout never overwrites or deletes workspace data

`Keeps ctx s strat n n'` (DudModel/FrameSpec.lean) is the frame relation: everything is unchanged,
except that under the copy strategy a link that resolves to a cache object may be replaced by a
regular file with exactly that object's bytes; directories keep every entry at its position and
may gain entries.  The relation is positional, so NO duplicate-freeness hypothesis on listings is
needed; the finite-map reading (`alookup`) is the corollary `checkoutNode_frame_lookup`.
-/
namespace Dud

variable {κ : Type}

/-- **checkoutFile, frame.**  A successful `checkoutFile` on an occupied path keeps the entry.
It succeeds only on a regular file whose bytes hash to `sum` (left alone) or on a link to exactly
`sum` (present in the cache); the only change ever made is, with the copy strategy, the replacement
of that link by a file holding the object's bytes. -/
theorem checkoutFile_frame {ctx : Ctx κ} {strat : Strat} {n n' : Node κ} {sum : Digest}
    {s : Store κ} (h : checkoutFile ctx strat (some n) sum s = .ok n') :
    Keeps ctx s strat n n' ∧
      ((∃ c, n = .file c ∧ ctx.H c = sum) ∨ n = .link (.obj sum)) ∧ (strat = .link → n' = n) ∧
      (n' ≠ n → strat = .copy ∧ n = .link (.obj sum) ∧
        ∃ o, s.get sum = some o ∧ n' = .file (o.bytes ctx)) := by
  refine ⟨checkoutFile_keeps h, ?_⟩
  rcases checkoutFile_some_ok h with ⟨hup, rfl⟩ | ⟨_, hn, _, h⟩
  · exact ⟨Or.inl (upToDateCopy_some hup), fun _ => rfl, fun hne => absurd rfl hne⟩
  · refine ⟨Or.inr hn, ?_, ?_⟩
    · intro hs; rcases h with ⟨_, h⟩ | ⟨h, _⟩
      · exact h
      · rw [hs] at h; cases h
    · intro hne; rcases h with ⟨_, h⟩ | ⟨hs, o, ho, hn', _⟩
      · exact absurd h hne
      · exact ⟨hs, hn, o, ho, hn'⟩

/-- **checkoutFile, blocked.**  Anything in the way that is neither a link to exactly `sum` (in the
cache) nor a regular file hashing to `sum` makes `checkoutFile` fail: it never succeeds over an
existing entry it would have to overwrite. -/
theorem checkoutFile_blocked {ctx : Ctx κ} {strat : Strat} {n n' : Node κ} {sum : Digest}
    {s : Store κ} (hq : (quick s sum (some n)).cm = false)
    (hup : upToDateCopy ctx (some n) sum = false)
    (h : checkoutFile ctx strat (some n) sum s = .ok n') : False := by
  rcases checkoutFile_some_ok h with ⟨h1, _⟩ | ⟨_, _, h1, _⟩
  · rw [hup] at h1; cases h1
  · rw [hq] at h1; cases h1

theorem checkoutFile_blocked_error {ctx : Ctx κ} {strat : Strat} {n : Node κ} {sum : Digest}
    {s : Store κ} (hq : (quick s sum (some n)).cm = false)
    (hup : upToDateCopy ctx (some n) sum = false) :
    ∃ e, checkoutFile ctx strat (some n) sum s = .error e := by
  cases h : checkoutFile ctx strat (some n) sum s with
  | error e => exact ⟨e, rfl⟩
  | ok n' => exact (checkoutFile_blocked hq hup h).elim

/-- in particular a directory, a foreign link, a special file, or a regular file with other bytes
blocks it -/
theorem checkoutFile_blocked_other {ctx : Ctx κ} {strat : Strat} {n : Node κ} {sum : Digest}
    {s : Store κ} (hn : ∀ d, n ≠ .link (.obj d)) (hf : ∀ c, n = .file c → ctx.H c ≠ sum) :
    ∃ e, checkoutFile ctx strat (some n) sum s = .error e := by
  apply checkoutFile_blocked_error
  · cases hq : (quick s sum (some n)).cm with
    | false => rfl
    | true => exact absurd (quick_cm_some hq).1 (hn sum)
  · cases hup : upToDateCopy ctx (some n) sum with
    | false => rfl
    | true =>
      obtain ⟨c, hc, hH⟩ := upToDateCopy_some hup
      exact absurd hH (hf c hc)

/-- **checkoutNode, frame.**  For every fuel, node and manifest nesting. -/
theorem checkoutNode_frame {ctx : Ctx κ} {strat : Strat} {s : Store κ} {fuel : Nat} {n n' : Node κ}
    {c : Child} (h : checkoutNode ctx strat s fuel (some n) c = .ok n') :
    Keeps ctx s strat n n' :=
  checkoutNode_keeps ctx strat s fuel n c n' h

/-- finite-map reading for a directory: every entry visible before is visible afterwards, kept. -/
theorem checkoutNode_frame_lookup {ctx : Ctx κ} {strat : Strat} {s : Store κ} {fuel : Nat}
    {es : List (Name × Node κ)} {n' : Node κ} {c : Child}
    (h : checkoutNode ctx strat s fuel (some (.dir es)) c = .ok n') :
    ∃ es', n' = .dir es' ∧ es.length ≤ es'.length ∧
      ∀ nm n, alookup es nm = some n → ∃ m, alookup es' nm = some m ∧ Keeps ctx s strat n m := by
  have hk := checkoutNode_frame h
  unfold Keeps at hk
  obtain ⟨es', rfl, hl⟩ := hk
  exact ⟨es', rfl, KeepsList_length hl, fun nm n hn => KeepsList_alookup hl hn⟩

/-- regular files, foreign links and special files anywhere below are literally unchanged -/
theorem Keeps_file {ctx : Ctx κ} {s : Store κ} {strat : Strat} {x : κ} {n' : Node κ}
    (h : Keeps ctx s strat (.file x) n') : n' = .file x := by unfold Keeps at h; exact h

/-- with the link strategy `Keeps` on link nodes is equality -/
theorem Keeps_link_strategy {ctx : Ctx κ} {s : Store κ} {l : Link} {n' : Node κ}
    (h : Keeps ctx s .link (.link l) n') : n' = .link l := by
  cases l with
  | obj d => unfold Keeps at h; rcases h with h | ⟨h, _⟩
             · exact h
             · cases h
  | foreign b => unfold Keeps at h; exact h

/-- **checkoutNode, blocked directory.**  Something that is not a directory where the manifest
entry expects a directory gives an error. -/
theorem checkoutNode_blocked_dir {ctx : Ctx κ} {strat : Strat} {s : Store κ} {fuel : Nat}
    {n : Node κ} {c : Child} (hc : c.isDir = true) (hn : n.isDir = false) :
    ∃ e, checkoutNode ctx strat s fuel (some n) c = .error e := by
  cases fuel with
  | zero => exact ⟨_, rfl⟩
  | succ fuel =>
    simp only [checkoutNode, hc, if_true]
    split; · exact ⟨_, rfl⟩
    split; · exact ⟨_, rfl⟩
    cases n with
    | dir es => cases hn
    | file _ => exact ⟨_, rfl⟩
    | link _ => exact ⟨_, rfl⟩
    | other => exact ⟨_, rfl⟩

/-- … and a directory (or anything but the matching link) where a file is expected as well. -/
theorem checkoutNode_blocked_file {ctx : Ctx κ} {strat : Strat} {s : Store κ} {fuel : Nat}
    {n : Node κ} {c : Child} (hc : c.isDir = false) (hq : (quick s c.sum (some n)).cm = false)
    (hup : upToDateCopy ctx (some n) c.sum = false) :
    ∃ e, checkoutNode ctx strat s fuel (some n) c = .error e := by
  cases fuel with
  | zero => exact ⟨_, rfl⟩
  | succ fuel => simp only [checkoutNode, hc]; exact checkoutFile_blocked_error hq hup

/-- **checkoutArt, frame.** -/
theorem checkoutArt_frame {ctx : Ctx κ} {strat : Strat} {s : Store κ} {fuel : Nat} {a : Art}
    {n : Node κ} {r : Option (Node κ)} (h : checkoutArt ctx strat fuel a (some n) s = .ok r) :
    ∃ n', r = some n' ∧ Keeps ctx s strat n n' := by
  unfold checkoutArt at h
  split at h
  · simp only [Except.ok.injEq] at h; subst h; exact ⟨n, rfl, Keeps_refl ctx s strat n⟩
  · split at h
    · cases h
    · rename_i n' hn
      simp only [Except.ok.injEq] at h; subst h
      exact ⟨n', rfl, checkoutNode_frame hn⟩

/-- entries of a directory that the manifest does not name are not touched at all -/
theorem checkoutNode_untracked {ctx : Ctx κ} {strat : Strat} {s : Store κ} {fuel : Nat}
    {es es' : List (Name × Node κ)} {c : Child} {cs : List Child}
    (hm : readManifest ctx s c.sum = .ok cs)
    (h : checkoutNode ctx strat s (fuel + 1) (some (.dir es)) c = .ok (.dir es'))
    (hc : c.isDir = true) (nm : Name) (hnm : ∀ k ∈ cs, k.name ≠ nm) :
    alookup es' nm = alookup es nm := by
  simp only [checkoutNode, hc, if_true, hm] at h
  split at h; · cases h
  split at h; · cases h
  split at h
  · cases h
  · rename_i es'' hes
    simp only [Except.ok.injEq, Node.dir.injEq] at h; subst h
    exact checkoutChildren_untracked cs es es'' nm hes hnm

/-- **Regenerated-fact obligation.**  The copy is created with `O_CREATE|O_EXCL`, the single
`os.Remove` of `checkoutFile` is guarded by `ContentsMatch`. -/
theorem copy_flags_obligation :
    "O_EXCL" ∈ Dud.Facts.copyFlags ∧ "O_CREATE" ∈ Dud.Facts.copyFlags ∧
    Dud.Facts.copyRemoveGuarded = true ∧ Dud.Facts.checkoutFileRemoves = 1 := by decide

/-! ## Non-vacuity -/

def C06.ctx : Ctx Nat :=
  { H := fun n => if n = 0 then "aaa" else if n = 1 then "bbb" else "ccc"
    encMan := fun _ _ _ => 99, decBlob := fun _ => none, reload := fun _ c => c
    nameOK := fun _ => true }
/-- objects `aaa` (blob 0), `bbb` (blob 1), manifest `mmm` = {x ↦ aaa, sub/ ↦ nnn},
manifest `nnn` = {z ↦ bbb} -/
def C06.store : Store Nat :=
  [("aaa", .blob 0), ("bbb", .blob 1),
   ("mmm", .man .new [] [⟨[120], "aaa", false⟩, ⟨[115], "nnn", true⟩]),
   ("nnn", .man .new [115] [⟨[122], "bbb", false⟩])]

open C06 in
-- copy checkout into a directory holding an untracked file `y`, a link `x → aaa`, and `sub/` with
-- an untracked file: `y` and `sub/w` stay, `x` becomes a file with the object's bytes, `sub/z` is new
example : checkoutNode ctx .copy store 3
    (some (.dir [([121], .file 5), ([120], .link (.obj "aaa")), ([115], .dir [([119], .file 6)])]))
    ⟨[], "mmm", true⟩
  = .ok (.dir [([121], .file 5), ([120], .file 0), ([115], .dir [([119], .file 6), ([122], .file 1)])]) := by
  rfl
open C06 in
-- same with links: the link stays a link
example : checkoutNode ctx .link store 3
    (some (.dir [([121], .file 5), ([120], .link (.obj "aaa"))])) ⟨[], "mmm", true⟩
  = .ok (.dir [([121], .file 5), ([120], .link (.obj "aaa")), ([115], .dir [([122], .link (.obj "bbb"))])]) := by
  rfl
open C06 in
-- a regular file with OTHER bytes in the way: error, for both strategies
example : checkoutNode ctx .copy store 3 (some (.dir [([120], .file 5)])) ⟨[], "mmm", true⟩
    = .error .exists_ := by rfl
open C06 in
example : checkoutNode ctx .link store 3 (some (.dir [([120], .file 5)])) ⟨[], "mmm", true⟩
    = .error .exists_ := by rfl
open C06 in
example : (quick store "aaa" (some (.file 5))).cm = false ∧
    upToDateCopy ctx (some (.file 5)) "aaa" = false := ⟨rfl, rfl⟩
open C06 in
-- a regular file with the right bytes is accepted and left alone (also by the link strategy)
example : checkoutNode ctx .link store 3 (some (.dir [([120], .file 0)])) ⟨[], "mmm", true⟩
    = .ok (.dir [([120], .file 0), ([115], .dir [([122], .link (.obj "bbb"))])]) := by rfl
open C06 in
-- a file where `sub/` should be: error
example : checkoutNode ctx .link store 3 (some (.dir [([115], .file 0)])) ⟨[], "mmm", true⟩
    = .error .exists_ := by rfl
open C06 in
example : checkoutFile ctx .copy (some (.link (.obj "aaa"))) "aaa" store = .ok (.file 0) := by rfl
open C06 in
example : checkoutArt ctx .copy 3 { path := [], sum := "mmm", isDir := true }
    (some (.dir [([121], .file 5)])) store
  = .ok (some (.dir [([121], .file 5), ([120], .file 0), ([115], .dir [([122], .file 1)])])) := by rfl

end Dud

#print axioms Dud.checkoutFile_frame
#print axioms Dud.checkoutFile_blocked
#print axioms Dud.checkoutFile_blocked_error
#print axioms Dud.checkoutFile_blocked_other
#print axioms Dud.checkoutNode_frame
#print axioms Dud.checkoutNode_frame_lookup
#print axioms Dud.Keeps_file
#print axioms Dud.Keeps_link_strategy
#print axioms Dud.checkoutNode_blocked_dir
#print axioms Dud.checkoutNode_blocked_file
#print axioms Dud.checkoutArt_frame
#print axioms Dud.checkoutNode_untracked
#print axioms Dud.copy_flags_obligation
