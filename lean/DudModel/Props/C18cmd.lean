import DudModel.Lemmas.ConfineCmd
import DudModel.Props.C06cmd
/-!
# C18 at the level of the whole command: `dud commit` and `dud checkout` of a validated index never
name a path outside the project, its cache and its `.dud` directory

`Props/C18.lean` confines the paths of ONE traced commit / checkout below a safe artifact path,
`Props/C18stage.lean` derives the safety of the artifact paths from `Stage.validate`.  This file lifts both
to the traces of the WHOLE commands (`cmdCommitGoT`, `cmdCommitT` of `SysCmd.lean`; `cmdCheckoutT` of
`SysCheckout.lean`):

* `IndexValidated wa idx`: every stage the index holds passes `Stage.validate` under its own path — what
  `index.FromFile` guarantees (`loadIndex_validated`: every index `loadIndex` returns is validated);
* `cmdCommitGoT_confined` (Go's order of the stage-file writes), `cmdCommitT_confined` (all stage files
  last): for a validated index and a workspace whose entry names are single safe components (what directory
  listings return: a hypothesis on `w.ws`), EVERY path of EVERY call of the trace is `Confined` — a
  workspace path that is a safe relative path below the project root (no empty, `.`, `..` component, no
  `/` inside a component), or a cache / temp / lock / stage-file class;
* `cmdCheckoutT_confined`: for a validated index, every path of every call of the checkout trace is
  `Confined` — WHATEVER the workspace holds and WHATEVER the manifests of the cache contain (entry names
  are validated when a manifest is read, `readManifest_safe`; the `MkdirAll` of the ancestors of an
  artifact names prefixes of its validated path);
* `ExampleC18cmd`: a validated two-stage index (commit and checkout traces are confined, also checked
  call by call by evaluation); a cache whose manifest has an entry `../../x` makes the whole
  `cmdCheckoutT` fail with `badManifest` — after the harmless first stage, and without any call naming
  `t/../../x` (a failing run has no trace in the model; the failing check, `readManifest`, precedes every
  call of the artifact: `checkout_rejects_entry_name`).

Hypotheses: the index is validated; for commit the entry names of the workspace are safe components; a
successful run.  NOT covered: what a stage's command does when `dud run` executes it; symlinked
directories inside the workspace (a path below the root is resolved by the kernel, `Confined` is about the
path strings dud passes); the index held by the world during a commit changes (checksums are recorded) but
its artifact paths do not (`PathsSafe` is the invariant, not `IndexValidated`).
-/
namespace Dud.Sys
open Dud Dud.Path
variable {κ : Type}

/-! ## validated indexes -/

/-- every stage the index holds passes `Stage.validate` under its own path -/
def IndexValidated (wa : Bool) (idx : Index) : Prop :=
  ∀ sp stg, alookup idx sp = some stg → stg.validate wa sp = true

theorem indexValidated_nil (wa : Bool) : IndexValidated wa [] := by
  intro sp stg h; simp [alookup] at h

/-- **`index.FromFile` returns validated indexes**: whatever `loadIndex` accepts, starting from a validated
index (e.g. the empty one), is validated -/
theorem loadIndex_validated {wa rev : Bool} : ∀ (l : List (Bytes × Stage)) (idx0 idx : Index),
    loadIndex wa rev l idx0 = .ok idx → IndexValidated wa idx0 → IndexValidated wa idx
  | [], idx0, idx, h, h0 => by
    simp only [loadIndex, Except.ok.injEq] at h; subst h; exact h0
  | (sp, stg) :: r, idx0, idx, h, h0 => by
    simp only [loadIndex] at h
    split at h
    · cases h
    · rename_i hv
      have hv : stg.validate wa sp = true := by simpa using hv
      cases ha : addStage wa rev idx0 sp stg with
      | error e => rw [ha] at h; cases h
      | ok idx1 =>
        rw [ha] at h
        simp only at h
        refine loadIndex_validated r idx1 idx h ?_
        unfold addStage at ha
        split at ha
        · cases ha
        split at ha
        · cases ha
        split at ha
        · cases ha
        simp only [Except.ok.injEq] at ha
        subst ha
        intro sp' stg' hl
        rw [alookup_append] at hl
        cases h1 : alookup idx0 sp' with
        | some b =>
          rw [h1] at hl
          simp only [Option.some.injEq] at hl
          subst hl
          exact h0 sp' _ h1
        | none =>
          rw [h1] at hl
          simp only [alookup] at hl
          split at hl
          · rename_i heq
            have heq : sp = sp' := by simpa using heq
            simp only [Option.some.injEq] at hl
            subst hl heq
            exact hv
          · cases hl

theorem loadIndex_validated' {wa rev : Bool} {l : List (Bytes × Stage)} {idx : Index}
    (h : loadIndex wa rev l [] = .ok idx) : IndexValidated wa idx :=
  loadIndex_validated l [] idx h (indexValidated_nil wa)

/-- the artifact paths of a validated index are safe relative paths -/
theorem IndexValidated.pathsSafe {wa : Bool} {idx : Index} (h : IndexValidated wa idx) : PathsSafe idx :=
  fun sp stg hl a ha => ((validate_paths_safe wa stg sp (h sp stg hl)).1 a ha).1

/-- a decidable sufficient condition, for concrete indexes -/
theorem indexValidated_of_all {wa : Bool} {idx : Index}
    (h : idx.all (fun e => e.2.validate wa e.1) = true) : IndexValidated wa idx := by
  intro sp stg hl
  simp only [List.all_eq_true] at h
  exact h _ (alookup_mem hl)

/-! ## commit -/

/-- invariant of the traced commit traversal -/
structure GInv (p : World κ × List (List (Call κ))) : Prop where
  paths : PathsSafe p.1.idx
  names : NamesSafe p.1.ws
  conf : ∀ call ∈ p.2.flatten, CallConfined call

theorem commitTravT_ginv {c : CmdCfg κ} {strat : Strat} (sp : Bytes)
    (p p' : World κ × List (List (Call κ))) (hi : GInv p)
    (h : (commitTravT c strat).act sp p = .ok p') : GInv p' := by
  simp only [commitTravT] at h
  cases hT : commitActT c strat sp p.1 with
  | error e => rw [hT] at h; cases h
  | ok v =>
    obtain ⟨w', segs⟩ := v
    rw [hT] at h
    simp only [Except.ok.injEq] at h
    subst h
    obtain ⟨hc, hn, hp⟩ := commitActT_confined hT hi.paths hi.names
    refine ⟨hp, hn, ?_⟩
    intro call hcall
    simp only [List.flatten_append, List.mem_append] at hcall
    rcases hcall with hcall | hcall
    · exact hi.conf call hcall
    · exact hc call hcall

theorem stageWriteCalls_confined (c : CmdCfg κ) (idx : Index) (sp : Bytes) :
    ∀ call ∈ stageWriteCalls c idx sp, CallConfined call := by
  intro call hc p hp
  rcases stageWriteCalls_paths c idx sp call hc p hp with rfl | rfl <;> trivial

theorem lockCalls_confined :
    CallConfined (Call.createExcl (κ := κ) .lock) ∧ CallConfined (Call.unlink (κ := κ) .lock) := by
  constructor <;> intro p hp <;> simp [callPaths] at hp <;> subst hp <;> trivial

/-- the loop over the targets of `cmd/commit.go` -/
theorem goTargets_confined {c : CmdCfg κ} {strat : Strat} :
    ∀ (ts : List Bytes) (p p' : World κ × List (Bool × List (Call κ))),
    goTargets c strat ts p = .ok p' → PathsSafe p.1.idx → NamesSafe p.1.ws →
    (∀ seg ∈ p.2, ∀ call ∈ seg.2, CallConfined call) →
    ∀ seg ∈ p'.2, ∀ call ∈ seg.2, CallConfined call
  | [], p, p', h, _, _, hc => by
    simp only [goTargets, Except.ok.injEq] at h; subst h; exact hc
  | t :: r, p, p', h, hi, hn, hc => by
    simp only [goTargets] at h
    split at h
    · cases h
    · cases hv : visit (commitTravT c strat) true (p.1.idx.length + 1) (allStages p.1) t (p.1, []) with
      | error e => rw [hv] at h; cases h
      | ok v =>
        obtain ⟨w', arts⟩ := v
        rw [hv] at h
        simp only at h
        have hg : GInv (w', arts) := visit_inv (commitTravT c strat)
          (fun sp a b ha hb => commitTravT_ginv sp a b ha hb) true _ _ t (p.1, []) (w', arts)
          ⟨hi, hn, by simp⟩ hv
        refine goTargets_confined r _ p' h hg.paths hg.names ?_
        intro seg hseg call hcall
        simp only [List.mem_append, List.mem_map] at hseg
        rcases hseg with (hseg | ⟨s, hs, rfl⟩) | ⟨sp, -, rfl⟩
        · exact hc seg hseg call hcall
        · exact hg.conf call (List.mem_flatten.2 ⟨s, hs, hcall⟩)
        · exact stageWriteCalls_confined c w'.idx sp call hcall

/-- **C18, the whole `dud commit` (stage files written after each target, Go's order).**  For a validated
index and a workspace whose entry names are single safe components, every path of every call of the
trace of `cmdCommitGoT` is confined. -/
theorem cmdCommitGoT_confined {c : CmdCfg κ} {strat : Strat} {targets : List Bytes} {w w' : World κ}
    {calls : List (Call κ)} (hv : IndexValidated c.cfg.walkAccumulates w.idx)
    (hn : ∀ x ∈ allNames w.ws, SafeComp x)
    (h : cmdCommitGoT c strat targets w = .ok (w', calls)) :
    ∀ call ∈ calls, ∀ p ∈ callPaths call, Confined p := by
  unfold cmdCommitGoT at h
  cases hs : cmdCommitGoSegs c strat targets w with
  | error e => rw [hs] at h; cases h
  | ok v =>
    obtain ⟨w1, segs⟩ := v
    rw [hs] at h
    simp only [Except.ok.injEq, Prod.mk.injEq] at h
    obtain ⟨rfl, rfl⟩ := h
    unfold cmdCommitGoSegs at hs
    simp only at hs
    generalize (if targets.isEmpty then allStages w else targets) = ts at hs
    by_cases hts : ts.isEmpty = true
    · rw [if_pos hts] at hs; cases hs
    · rw [if_neg hts] at hs
      have hc := goTargets_confined _ (fresh w, []) (w1, segs) hs hv.pathsSafe hn (by simp)
      intro call hcall
      simp only [goCalls, List.mem_append, List.mem_singleton, List.mem_flatten, List.mem_map] at hcall
      rcases hcall with (rfl | ⟨l, ⟨seg, hseg, rfl⟩, hcl⟩) | rfl
      · exact lockCalls_confined.1
      · exact hc seg hseg call hcl
      · exact lockCalls_confined.2

/-- **C18, the whole `dud commit` (all stage files after all artifacts).** -/
theorem cmdCommitT_confined {c : CmdCfg κ} {strat : Strat} {targets : List Bytes} {w w' : World κ}
    {calls : List (Call κ)} (hv : IndexValidated c.cfg.walkAccumulates w.idx)
    (hn : ∀ x ∈ allNames w.ws, SafeComp x)
    (h : cmdCommitT c strat targets w = .ok (w', calls)) :
    ∀ call ∈ calls, ∀ p ∈ callPaths call, Confined p := by
  obtain ⟨arts, hpt, rfl⟩ := cmdCommitT_ok_inv h
  have hg : GInv (w', arts) := perTargetP_inv (Q := GInv)
    (fun t q q' hq hvis => visit_inv (commitTravT c strat)
      (fun sp a b ha hb => commitTravT_ginv sp a b ha hb) true _ _ t q q' hq hvis)
    _ (fresh w, []) (w', arts) ⟨hv.pathsSafe, hn, by simp⟩ hpt
  intro call hcall
  simp only [List.mem_append, List.mem_singleton] at hcall
  rcases hcall with ((rfl | hcall) | hcall) | rfl
  · exact lockCalls_confined.1
  · exact hg.conf call hcall
  · simp only [List.mem_flatten, List.mem_map] at hcall
    obtain ⟨l, ⟨sp, -, rfl⟩, hcl⟩ := hcall
    exact stageWriteCalls_confined c w'.idx sp call hcl
  · exact lockCalls_confined.2

/-! ## checkout -/

/-- invariant of the traced checkout traversal -/
structure KInv (idx0 : Index) (p : World κ × List (List (Call κ))) : Prop where
  idx : p.1.idx = idx0
  conf : ∀ call ∈ p.2.flatten, CallConfined call

theorem checkoutTravT_kinv {c : CmdCfg κ} {strat : Strat} {idx0 : Index} (hi0 : PathsSafe idx0)
    (sp : Bytes) (p p' : World κ × List (List (Call κ))) (hi : KInv idx0 p)
    (h : (checkoutTravT c strat).act sp p = .ok p') : KInv idx0 p' := by
  simp only [checkoutTravT] at h
  cases hT : checkoutActT c strat sp p.1 with
  | error e => rw [hT] at h; cases h
  | ok v =>
    obtain ⟨w', segs⟩ := v
    rw [hT] at h
    simp only [Except.ok.injEq] at h
    subst h
    obtain ⟨hc, hidx⟩ := checkoutActT_confined hT (by rw [hi.idx]; exact hi0)
    refine ⟨by rw [hidx, hi.idx], ?_⟩
    intro call hcall
    simp only [List.flatten_append, List.mem_append] at hcall
    rcases hcall with hcall | hcall
    · exact hi.conf call hcall
    · exact hc call hcall

/-- **C18, the whole `dud checkout`.**  For a validated index, every path of every call of the trace of
`cmdCheckoutT` is confined — whatever the workspace holds and whatever the manifests of the cache
contain. -/
theorem cmdCheckoutT_confined {c : CmdCfg κ} {strat : Strat} {single : Bool} {targets : List Bytes}
    {w w' : World κ} {calls : List (Call κ)} (hv : IndexValidated c.cfg.walkAccumulates w.idx)
    (h : cmdCheckoutT c strat single targets w = .ok (w', calls)) :
    ∀ call ∈ calls, ∀ p ∈ callPaths call, Confined p := by
  obtain ⟨segs, hpt, rfl⟩ := cmdCheckoutT_ok_inv h
  have hg : KInv w.idx (w', segs) := perTargetP_inv (Q := KInv w.idx)
    (fun t q q' hq hvis => visit_inv (checkoutTravT c strat)
      (fun sp a b ha hb => checkoutTravT_kinv hv.pathsSafe sp a b ha hb) _ _ _ t q q' hq hvis)
    _ (fresh w, []) (w', segs) ⟨rfl, by simp⟩ hpt
  intro call hcall
  simp only [List.mem_append, List.mem_singleton] at hcall
  rcases hcall with (rfl | hcall) | rfl
  · exact lockCalls_confined.1
  · exact hg.conf call hcall
  · exact lockCalls_confined.2

/-- … for an index as `index.FromFile` returns it -/
theorem cmdCheckoutT_confined_loaded {c : CmdCfg κ} {strat : Strat} {single : Bool} {targets : List Bytes}
    {w w' : World κ} {calls : List (Call κ)} {rev : Bool} {l : List (Bytes × Stage)}
    (hl : loadIndex c.cfg.walkAccumulates rev l [] = .ok w.idx)
    (h : cmdCheckoutT c strat single targets w = .ok (w', calls)) :
    ∀ call ∈ calls, ∀ p ∈ callPaths call, Confined p :=
  cmdCheckoutT_confined (loadIndex_validated' hl) h

theorem cmdCommitGoT_confined_loaded {c : CmdCfg κ} {strat : Strat} {targets : List Bytes} {w w' : World κ}
    {calls : List (Call κ)} {rev : Bool} {l : List (Bytes × Stage)}
    (hl : loadIndex c.cfg.walkAccumulates rev l [] = .ok w.idx) (hn : ∀ x ∈ allNames w.ws, SafeComp x)
    (h : cmdCommitGoT c strat targets w = .ok (w', calls)) :
    ∀ call ∈ calls, ∀ p ∈ callPaths call, Confined p :=
  cmdCommitGoT_confined (loadIndex_validated' hl) hn h

/-! ## non-vacuity: a validated two-stage index; a hostile manifest -/

namespace ExampleC18cmd
open Dud Dud.Sys Dud.Example ExampleCmd ExampleCheckout

/-- Boolean form of `Confined` -/
def confinedB : P → Bool
  | .ws rel => rel.all (fun c => decide (SafeComp c))
  | _ => true

/-- the committed two-stage index of `ExampleCheckout` (outputs `a/` and `p/q/f`, the input `a/` of stage B
owned by stage A, a plain input `c`) passes validation -/
theorem wc_validated : IndexValidated ccS.cfg.walkAccumulates wc.idx :=
  indexValidated_of_all (by decide +kernel)

theorem wfresh_validated : IndexValidated ccS.cfg.walkAccumulates wfresh.idx := wc_validated

/-- the hypothesis of `cmdCheckoutT_confined` holds, the command succeeds (8 calls, among them the
`MkdirAll` of `p` and `p/q`), every path is confined -/
example : (callsOf .link wfresh []).length = 8 ∧
    ∀ call ∈ callsOf .link wfresh [], ∀ p ∈ callPaths call, Confined p := by
  obtain ⟨w', h⟩ := callsOf_ok callsOf_link_ne_nil
  exact ⟨by decide +kernel, cmdCheckoutT_confined (c := ccS) wfresh_validated h⟩

/-- the same by evaluation, call by call, for link and copy -/
example : (callsOf .link wfresh []).all (fun call => (callPaths call).all confinedB) = true ∧
    (callsOf .copy wc []).all (fun call => (callPaths call).all confinedB) = true := by decide +kernel

/-- the two-stage project before its first commit (same stages, regular files in place) -/
def w0c : World K :=
  { ws := .dir [([97], treeA), ([112], .dir [([113], .dir [([102], .file (.raw "deep"))])]),
                ([99], .file (.raw "i"))],
    idx := [([1], stageA), ([2], stageB2)] }

theorem w0c_names : ∀ x ∈ allNames w0c.ws, SafeComp x := by decide +kernel

theorem w0c_validated : IndexValidated (cc true).cfg.walkAccumulates w0c.idx :=
  indexValidated_of_all (by decide +kernel)

/-- the calls of the whole `dud commit` in Go's order (empty on failure) -/
def commitCalls : List (Call K) :=
  match cmdCommitGoT (cc true) .link [] w0c with
  | .ok (_, calls) => calls
  | .error _ => []

theorem commitCalls_ne_nil : commitCalls ≠ [] := by decide +kernel

/-- the hypotheses of `cmdCommitGoT_confined` hold together, the command succeeds with 46 calls, every
path is confined — by the theorem, and once more by evaluation -/
example : commitCalls.length = 46 ∧ (∀ call ∈ commitCalls, ∀ p ∈ callPaths call, Confined p) ∧
    commitCalls.all (fun call => (callPaths call).all confinedB) = true := by
  have h : ∃ w', cmdCommitGoT (cc true) .link [] w0c = .ok (w', commitCalls) := by
    have hne := commitCalls_ne_nil
    unfold commitCalls at hne ⊢
    cases hT : cmdCommitGoT (cc true) .link [] w0c with
    | error e => rw [hT] at hne; exact absurd rfl hne
    | ok v => exact ⟨v.1, rfl⟩
  obtain ⟨w', h⟩ := h
  exact ⟨by decide +kernel, cmdCommitGoT_confined (c := cc true) w0c_validated w0c_names h,
    by decide +kernel⟩

/-! ### a hostile manifest -/

def goodObj : K := .raw "good"

/-- a consistent cache in which the manifest of directory `t` has the single entry `../../x` (as an
attacker, or a buggy third-party tool, could place it in a shared cache or a remote) -/
def evilStore : Store K := escStore ctxS [116] Escape.evilName Escape.payload

def evilSum : Digest :=
  (Obj.man .new [116] [⟨Escape.evilName, ctxS.H Escape.payload, false⟩] : Obj K).digest ctxS

/-- two stages: the first checks out a harmless file `g`, the second the directory `t` with the hostile
manifest; empty workspace -/
def wEvil : World K :=
  { ws := .dir [],
    store := (ctxS.H goodObj, .blob goodObj) :: evilStore,
    idx := [([1], { cmd := [1], outputs := [{ path := [103], sum := ctxS.H goodObj }] }),
            ([2], { cmd := [2], outputs := [{ path := [116], isDir := true, sum := evilSum }] })] }

/-- the index is validated (the artifact paths `g`, `t` are fine) and the cache is consistent: neither
check is what stops the attack -/
theorem wEvil_validated : IndexValidated true wEvil.idx := indexValidated_of_all (by decide +kernel)
theorem wEvil_consistent : Consistent ctxS wEvil.store := consistent_of_consistentB (by decide +kernel)

/-- **The hostile manifest entry makes the whole command fail with `badManifest`**, with either strategy:
the first stage is harmless (alone it succeeds with 3 confined calls), the second stage fails when the
manifest is read — before the `MkdirAll` of `t` and before any call of the artifact, in particular
nothing names `t/../../x`.  (A failing run has no trace in the model; `checkout_rejects_entry_name` of
`Props/C18.lean` is the general statement about the failing check.) -/
theorem hostile_manifest_rejected :
    (match cmdCheckoutT ccS .link false [] wEvil with
      | .error .badManifest => true
      | _ => false) = true ∧
    (match cmdCheckoutT ccS .copy false [] wEvil with
      | .error .badManifest => true
      | _ => false) = true ∧
    (match cmdCheckoutT ccS .link false [[1]] wEvil with
      | .ok (_, calls) => calls.length == 3 && calls.all (fun call => (callPaths call).all confinedB)
      | .error _ => false) = true := by decide +kernel

/-- the entry name is not a safe component, the path it would have produced is not confined -/
example : ¬ Confined (.ws ([[116]] ++ [Escape.evilName])) := Escape.evil_not_safe

#eval match cmdCheckoutT ccS .link false [] wEvil with
  | .ok (_, calls) => "; ".intercalate (calls.map Example.showCall)
  | .error e => s!"error {e}"
#eval match cmdCheckoutT ccS .link false [[1]] wEvil with
  | .ok (_, calls) => "; ".intercalate (calls.map Example.showCall)
  | .error e => s!"error {e}"

end ExampleC18cmd

#print axioms loadIndex_validated
#print axioms IndexValidated.pathsSafe
#print axioms cmdCommitGoT_confined
#print axioms cmdCommitT_confined
#print axioms cmdCheckoutT_confined
#print axioms cmdCheckoutT_confined_loaded
#print axioms cmdCommitGoT_confined_loaded
#print axioms ExampleC18cmd.wc_validated
#print axioms ExampleC18cmd.w0c_names
#print axioms ExampleC18cmd.w0c_validated
#print axioms ExampleC18cmd.wEvil_validated
#print axioms ExampleC18cmd.wEvil_consistent
#print axioms ExampleC18cmd.hostile_manifest_rejected

end Dud.Sys
