import DudModel.Lemmas.WorldTripRe
/-!
# C01 for re-commits — `dud commit` (any, not just the first) then `dud checkout` in a clone

`Props/C01world.lean` proves the world-level commit→checkout round trip for FIRST commits: a
directory output must be fresh (`ArtPre.fresh`: no recorded checksum) and the workspace must be
plain (no links).  This file removes both restrictions:

* the artifact may record ANY checksum — of an older version of the tree, with entries added,
  removed, modified or changed between file and directory since; with the manifest in the cache or
  not — as long as the old manifests the commit reads are readable (`RecommitOK`, see below);
* the workspace may be full of links into the cache (the state a previous link commit or link
  checkout leaves): "content" always means logical content (`deref`: a link into the cache counts
  as a regular file with the object's bytes).

Vocabulary (defined in `Lemmas/WorldTripRe.lean`, namespace `Dud.Re`):

* `ArtPreRe ctx fuel s a n` — `ArtPre` without `fresh`: kinds agree; every link of `n` resolves in
  the cache `s` (`(deref ctx s n).plain`); `n` sorted, names acceptable; a skip-cache file artifact
  is a regular file (or the link to the very object it records); `RecommitOK` for the tracked part;
  fuel.
* `RecommitOK ctx s t sum` — in every consistent cache extending `s`, the old manifests a commit of
  `t` started from the recorded checksum `sum` reads are readable: the manifest of `sum` IF that
  checksum is in the cache (if it is not, the commit starts from an empty manifest), and below it
  the manifest recorded for every entry whose kind (file/directory) still agrees.  The
  quantification over later caches is needed because the cache grows while the entries of one
  directory (and the artifacts of one command) are committed, and an object that appears under a
  recorded checksum would be read.  Sufficient conditions: `RecommitOK.empty` (no checksum);
  `RecommitOK.of_digestAs` / `.of_treeDigest`: the checksum is that of SOME older version of the
  tree (sorted, acceptable names, same top-level kind, manifests of any schema) — whether its
  manifests are in the cache, in part, or not at all (in a consistent cache whatever sits under
  such a checksum is that manifest; `ArtPreRe.of_older` packages this); `RecommitOK.of_compat`
  (`CompatNode`, the hypothesis of `recommit_post`: present and readable); `RecommitOK.of_holds`
  (the cache holds the older version); `RecommitOK.of_never` (the checksum is the hash of nothing).
  In particular after ANY commit covered by the theorems below the hypothesis holds for the next
  commit, whatever the edit (`next_commit_recommitOK`).
* What if an old manifest is NOT readable?  Then `commitArt` fails with the error of
  `readManifest` (`commitArt_unreadable_fails`).  This is what the Go code does:
  `commitDirArtifact` (`/repo/src/cache/commit.go`) calls `readDirManifest` whenever
  `status.ChecksumInCache` and returns its error; `commitWorker` does the same for a sub-directory
  whose old child is reused.  So readability is a genuine precondition of `dud commit`, not an
  artefact of the proof; a damaged cache object is the only way to violate it after a successful
  earlier commit.

Main statements: `commitArt_roundtrip_re` (one artifact), `stage_commit_checkout_roundtrip_re`
(stage), `commit_checkout_world_roundtrip_re` and `commit_checkout_empty_workspace_re` (commands),
`next_commit_recommitOK` (the hypothesis `RecommitOK` of the NEXT commit follows from the conclusion
of this one, whatever the edit in between), `Example3.second_commit_roundtrip` (non-vacuity).

What the statements do NOT cover:
* a link that does not resolve to an object of the cache (dangling, or pointing elsewhere), FIFOs
  etc.: commit fails on them (C02/C07); a skip-cache FILE artifact whose workspace entry is a link
  other than the one it records (commit refuses it);
* `commit` success is a hypothesis at stage and command level (as in `Props/C01world.lean`; at
  artifact level it is proved); `--single-stage` is not considered;
* an un-owned input is committed by `commitAct` itself and has to be a file, or a directory that
  overlaps no output (as in `Props/C01world.lean`).
-/
namespace Dud

open WT Re

variable {κ : Type}

/-! ## 1. one artifact -/

/-- **C01, one artifact, any commit.** For an artifact `a` recording ANY checksum and ANY node `n`
at its path with `ArtPreRe` (links into the cache allowed), `commitArt` succeeds, records
`treeDigest` of the tracked part of the logical content, keeps the cache consistent and growing,
leaves the logical content of the workspace unchanged, and (unless `skip-cache`) has the `RoundTrip`
property: checkout of the committed artifact into an absent place, from any later cache, with either
strategy, reproduces the tracked tree. -/
theorem commitArt_roundtrip_re (cfg : Cfg κ) (g : Good cfg.ctx) (a : Art) (n : Node κ) (s : Store κ)
    (hpre : ArtPreRe cfg.ctx cfg.fuel s a n) (hc : Consistent cfg.ctx s) (strat : Strat) :
    ∃ t' s', commitArt cfg.ctx strat a (some n) s
        = .ok (t', treeDigest cfg.ctx a.path (trackedOf a (deref cfg.ctx s n)), s') ∧
      Consistent cfg.ctx s' ∧ Store.le cfg.ctx s s' ∧
      deref cfg.ctx s' t' = deref cfg.ctx s n ∧
      (a.skip = false → RoundTrip cfg a (trackedOf a (deref cfg.ctx s n)) s') ∧
      (a.isDir = true →
        HoldsNode cfg.ctx s' newChoice a.path (trackedOf a (deref cfg.ctx s n))) := by
  obtain ⟨t', s', h1, h2, h3, h4, h5, h6⟩ := commitArt_roundtrip_re' cfg g a n s hpre hc strat
  exact ⟨t', s', h1, h2, h3, h4, h5, h6⟩

/-- the first-commit theorem `commitArt_roundtrip` is the instance `ArtPreRe.of_artPre` -/
example (cfg : Cfg κ) (g : Good cfg.ctx) (a : Art) (n : Node κ)
    (hpre : ArtPre cfg.ctx cfg.fuel a n) (s : Store κ) (hc : Consistent cfg.ctx s) (strat : Strat) :
    ∃ t' s', commitArt cfg.ctx strat a (some n) s
        = .ok (t', treeDigest cfg.ctx a.path (trackedOf a n), s') ∧
      deref cfg.ctx s' t' = n := by
  obtain ⟨t', s', h1, _, _, h4, _⟩ :=
    commitArt_roundtrip_re cfg g a n s (ArtPreRe.of_artPre s hpre) hc strat
  rw [deref_plain cfg.ctx s n hpre.plain] at h1 h4
  exact ⟨t', s', h1, h4⟩

/-- **Unreadable old manifest.** If the recorded checksum of a directory artifact is in the cache
and `readManifest` fails on it, `commitArt` fails with that error (Go: `commitDirArtifact` returns
the error of `readDirManifest` when `status.ChecksumInCache`). -/
theorem commitArt_unreadable_fails (ctx : Ctx κ) (strat : Strat) (a : Art)
    (es : List (Name × Node κ)) (s : Store κ) (e : Err) (hd : a.isDir = true)
    (hsum : hasSum a.sum = true) (hin : s.has a.sum = true)
    (hbad : readManifest ctx s a.sum = .error e) :
    commitArt ctx strat a (some (.dir es)) s = .error e := by
  simp [commitArt, hd, oldManifest, hsum, hin, hbad]

/-- … whereas a recorded checksum that is NOT in the cache is no obstacle: the commit starts from an
empty old manifest (`RecommitOK` then only has to exclude that the object appears, unreadable,
later: e.g. `RecommitOK.of_never`). -/
theorem oldManifest_absent (ctx : Ctx κ) (s : Store κ) (sum : Digest) (h : s.has sum = false) :
    oldManifest ctx s sum = .ok [] := by
  simp [oldManifest, h]

/-! ## 2. a stage -/

/-- **C01, stage level, any commit.** `stage_commit_checkout_roundtrip` with `ArtPreRe` (w.r.t. the
cache of the world) in place of `ArtPre`; the reference is the logical content
`deref cfg.ctx w.store (origAt w.ws a)` of what is found at the output's path. -/
theorem stage_commit_checkout_roundtrip_re (cfg : Cfg κ) (g : Good cfg.ctx) (strat : Strat)
    (sp : Bytes) (w w' : World κ) (stg : Stage) (hs : alookup w.idx sp = some stg)
    (hap : ApartArts stg.outputs)
    (hpre : ∀ a, a ∈ stg.outputs → ∃ n, getPath w.ws (Path.comps a.path) = some n ∧
      ArtPreRe cfg.ctx cfg.fuel w.store a n)
    (hin : ∀ a, a ∈ stg.outputs → PlainInputsApart cfg w.idx stg (Path.comps a.path))
    (hc : Consistent cfg.ctx w.store) (h : commitAct cfg strat sp w = .ok w') :
    (Consistent cfg.ctx w'.store ∧ Store.le cfg.ctx w.store w'.store) ∧
    (∃ stg', alookup w'.idx sp = some stg' ∧
      ∀ a, a ∈ stg.outputs → ∃ a', a' ∈ stg'.outputs ∧ a'.path = a.path ∧
        a'.sum = treeDigest cfg.ctx a.path
          (trackedOf a (deref cfg.ctx w.store (origAt w.ws a)))) ∧
    (∀ a, a ∈ stg.outputs → ∃ t', getPath w'.ws (Path.comps a.path) = some t' ∧
      deref cfg.ctx w'.store t' = deref cfg.ctx w.store (origAt w.ws a)) ∧
    ∀ (v : World κ) (strat2 : Strat), v.idx = w'.idx → Store.le cfg.ctx w'.store v.store →
      (∀ a, a ∈ stg.outputs → a.skip = false →
        getPath v.ws (Path.comps a.path) = none ∧ Writable v.ws (Path.comps a.path)) →
      ∃ v', checkoutAct cfg strat2 sp v = .ok v' ∧ v'.store = v.store ∧
        ∀ a, a ∈ stg.outputs → a.skip = false → ∃ r, getPath v'.ws (Path.comps a.path) = some r ∧
          deref cfg.ctx v'.store r = trackedOf a (deref cfg.ctx w.store (origAt w.ws a)) := by
  obtain ⟨c', l', _, ⟨stg', _, hl', hout⟩, hlog, hrt, _⟩ :=
    commitAct_postR cfg g strat sp w w' stg hs hap hpre hin hc h
  have ho : ∀ a, origAt (logWs cfg w) a = deref cfg.ctx w.store (origAt w.ws a) :=
    fun a => origAt_deref cfg.ctx w.store w.ws a
  refine ⟨⟨c', l'⟩, ⟨stg', hl', ?_⟩, ?_, ?_⟩
  · intro a ha
    refine ⟨committedArt cfg.ctx (logWs cfg w) a, ?_, rfl, ?_⟩
    · rw [hout]
      exact List.mem_map.2 ⟨a, mem_sortArts_of_mem hap.paths_ne ha, rfl⟩
    · simp [committedArt, ho]
  · intro a ha
    obtain ⟨t', gt, dt⟩ := hlog a ha
    exact ⟨t', gt, by rw [dt, ho]⟩
  · intro v strat2 hidx hle habs
    obtain ⟨v', h1, h2, _, _, h5, _⟩ := checkoutAct_committed cfg strat2 sp (logWs cfg w) stg stg' v
      w'.store (by rw [hidx]; exact hl') hout hap (fun a ha hsk => (hrt a ha).1 hsk) hle habs
    exact ⟨v', h1, h2, fun a ha hsk => by rw [h2, ← ho]; exact h5 a ha hsk⟩

/-! ## 3. the commands -/

/-- **C01, command level, any commit.** `dud commit [targets]` on a pipeline satisfying
`PipelineOKRe` — every output in scope may record any checksum and may consist of links into the
cache; e.g. the SECOND and every later commit of a project, after files were edited, added,
removed or swapped between file and directory — followed by `dud checkout [targets]` (either
strategy) in ANY world `v` that has the committed index, a cache extending the committed cache,
and in which the non-skip outputs of the stages in scope are absent and writable: the checkout
succeeds, and at the path of every non-skip output of every stage in scope there is a node whose
logical content is the tracked part of the logical content of the original workspace.  Moreover
(a) the committed cache is consistent and extends the initial one; (b) every stage in scope is
recorded with the outputs `committedArt …` of the logical workspace, i.e. with
`sum = treeDigest` of the tracked logical subtree; (c) the logical content found at every output
after the commit is the original one; (d) the committed cache holds the tracked tree of every
directory output with current-format manifests — hence (`next_commit_recommitOK`) the `RecommitOK`
hypothesis of the next commit holds whatever the workspace is edited into. -/
theorem commit_checkout_world_roundtrip_re (cfg : Cfg κ) (g : Good cfg.ctx) (strat strat2 : Strat)
    (targets : List Bytes) (w0 w' : World κ) (hc : Consistent cfg.ctx w0.store)
    (hok : PipelineOKRe cfg (InScope cfg w0 targets) w0)
    (h : cmdCommit cfg strat targets w0 = .ok w') :
    (Consistent cfg.ctx w'.store ∧ Store.le cfg.ctx w0.store w'.store) ∧
    (∀ sp stg, InScope cfg w0 targets sp → alookup w0.idx sp = some stg →
      ∃ stg', alookup w'.idx sp = some stg' ∧
        stg'.outputs = (sortArts stg.outputs).map
          (committedArt cfg.ctx (deref cfg.ctx w0.store w0.ws))) ∧
    (∀ sp stg, InScope cfg w0 targets sp → alookup w0.idx sp = some stg →
      ∀ a, a ∈ stg.outputs → ∃ t', getPath w'.ws (Path.comps a.path) = some t' ∧
        deref cfg.ctx w'.store t' = deref cfg.ctx w0.store (origAt w0.ws a)) ∧
    (∀ sp stg, InScope cfg w0 targets sp → alookup w0.idx sp = some stg →
      ∀ a, a ∈ stg.outputs → a.isDir = true → HoldsNode cfg.ctx w'.store newChoice a.path
        (trackedOf a (deref cfg.ctx w0.store (origAt w0.ws a)))) ∧
    ∀ v : World κ, v.idx = w'.idx → Store.le cfg.ctx w'.store v.store →
      (∀ sp stg, InScope cfg w0 targets sp → alookup w0.idx sp = some stg →
        ∀ a, a ∈ stg.outputs → a.skip = false →
          getPath v.ws (Path.comps a.path) = none ∧ Writable v.ws (Path.comps a.path)) →
      ∃ v', cmdCheckout cfg strat2 false targets v = .ok v' ∧ v'.store = v.store ∧ v'.idx = v.idx ∧
        ∀ sp stg, InScope cfg w0 targets sp → alookup w0.idx sp = some stg →
          ∀ a, a ∈ stg.outputs → a.skip = false →
            ∃ r, getPath v'.ws (Path.comps a.path) = some r ∧
              deref cfg.ctx v'.store r =
                trackedOf a (deref cfg.ctx w0.store (origAt w0.ws a)) := by
  obtain ⟨hci, hsh, l', hnd, hiff, hdone, htop, hts, ⟨t0, ht0⟩⟩ :=
    cmdCommit_invR cfg g strat targets w0 w' hc hok h
  have ho : ∀ a, origAt (logWs cfg w0) a = deref cfg.ctx w0.store (origAt w0.ws a) :=
    fun a => origAt_deref cfg.ctx w0.store w0.ws a
  have hall : ∀ sp, InScope cfg w0 targets sp → w'.done.contains sp = true := by
    intro sp hsp
    rw [hdone]
    simpa using (hiff sp).2 hsp
  have hstage : ∀ sp, InScope cfg w0 targets sp → ∃ stg stg', alookup w0.idx sp = some stg ∧
      alookup w'.idx sp = some stg' ∧
      stg'.outputs = (sortArts stg.outputs).map (committedArt cfg.ctx (logWs cfg w0)) := by
    intro sp hsp
    obtain ⟨stg, stg', e0, e1, e2, _⟩ := hci.finished sp hsp (hall sp hsp)
    exact ⟨stg, stg', e0, e1, e2⟩
  refine ⟨⟨hci.cons, hci.le⟩, ?_, ?_, ?_, ?_⟩
  · intro sp stg hsp hs
    obtain ⟨stg0, stg', e0, e1, e2⟩ := hstage sp hsp
    rw [hs] at e0
    cases e0
    exact ⟨stg', e1, e2⟩
  · intro sp stg hsp hs a ha
    obtain ⟨stg0, _, e0, _, _, _, e4⟩ := hci.finished sp hsp (hall sp hsp)
    rw [hs] at e0
    cases e0
    obtain ⟨t', gt, dt⟩ := e4 a ha
    exact ⟨t', gt, by rw [dt, ho]⟩
  · intro sp stg hsp hs a ha hd
    obtain ⟨stg0, _, e0, _, _, e3, _⟩ := hci.finished sp hsp (hall sp hsp)
    rw [hs] at e0
    cases e0
    rw [← ho]
    exact (e3 a ha).2 hd
  intro v hv hle hfresh
  -- the traversal laws, w.r.t. the owner function of the original index
  have hown : ∀ sp x, x ∈ ownIdx cfg w'.idx sp ↔ x ∈ ownIdx cfg w0.idx sp :=
    fun sp x => ownIdx_sim cfg hsh sp x
  have hT : (checkoutTrav cfg strat2).LawfulOn (ownIdx cfg w0.idx) (fun u => u.idx = w'.idx) :=
    lawfulOn_congr_own (checkoutTrav_lawfulOn cfg strat2 w'.idx) hown
  have hts' : (if targets.isEmpty then allStages v else targets) =
      (if targets.isEmpty then allStages w0 else targets) := by
    have : allStages v = allStages w0 := by
      simp only [allStages, hv]
      exact hsh.keys
    rw [this]
  -- progress, with a fuel large enough for the rank
  obtain ⟨v', hrun, hi', hq'⟩ := WT.perTarget_progress (T := checkoutTrav cfg strat2)
    (Q := CheckoutInv cfg (InScope cfg w0 targets) (logWorld cfg w0) v.store) (S := (· ∈ l'))
    (rank := l'.idxOf) hT
    (fun x hx o ho => ⟨(htop x hx o ho).mem_left, WT.idxOf_lt_of_before hnd (htop x hx o ho)⟩)
    (fun st sp hi hsp => by
      obtain ⟨_, stg', _, e1, _⟩ := hstage sp ((hiff sp).1 hsp)
      have hi : st.idx = w'.idx := hi
      show ∃ os, ownersOf cfg st sp = .ok os
      simp only [ownersOf, World.stage, hi, e1]
      exact ⟨_, rfl⟩)
    (fun st sp hi hq hsp hndone _ =>
      checkoutInv_stepR cfg strat2 _ w0 w' hok hci hall v.store hle sp st ((hiff sp).1 hsp) hi hq
        hndone)
    (fun u => l'.length + u.idx.length + 1) allStages
    (fun u hi x hx => by
      have hi : u.idx = w'.idx := hi
      obtain ⟨_, stg', _, e1, _⟩ := hstage x ((hiff x).1 hx)
      have hl : alookup u.idx x = some stg' := by rw [hi]; exact e1
      refine ⟨?_, WT.mem_keys_of_alookup hl, by rw [hl]; rfl⟩
      have := List.idxOf_le_length (l := l') (a := x)
      omega)
    (if targets.isEmpty then allStages v else targets) (fresh v)
    (fun t ht => hts t (hts' ▸ ht)) hv
    { store := rfl
      pending := fun sp stg hsp _ hs a ha hsk => hfresh sp stg hsp hs a ha hsk
      finished := fun sp stg _ hd => by simp [fresh] at hd }
  -- the same run with the fuel `cmdCheckout` uses
  have hcmd : cmdCheckout cfg strat2 false targets v = .ok v' := by
    have hne : v.idx.isEmpty = false := by
      obtain ⟨_, stg', _, e1, _⟩ := hstage t0 ((hiff t0).1 ht0)
      rw [hv]
      cases hw : w'.idx with
      | nil => rw [hw] at e1; simp [alookup] at e1
      | cons _ _ => rfl
    simp only [cmdCheckout, hne, Bool.false_eq_true, if_false, Bool.not_false, Bool.or_true]
    rw [← hrun]
    refine WT.perTarget_congr (fun t u => ?_) _ _
    refine visit_fuel_irrelevant _ true _ _ (allStages u) t u ?_ ?_
    · simp [allStages]
    · simp only [allStages, List.length_map]; omega
  refine ⟨v', hcmd, hq'.store, hi'.trans hv.symm, ?_⟩
  -- every stage in scope has been acted on
  obtain ⟨l'', _, _, hnd'', _, hts'', hdone'', htop''⟩ :=
    cmdCheckout_spec cfg strat2 false targets v v' hcmd
  have htop2 := htop'' (by simp)
  intro sp stg hsp hs a ha hsk
  have hdn : v'.done.contains sp = true := by
    obtain ⟨t, ht, hr⟩ := hsp
    have hr' : Reach (ownIdx cfg v.idx) t sp :=
      reach_congr_own (fun s x hx => by rw [hv]; exact (hown s x).2 hx) hr
    have := reach_mem_log hnd'' htop2 hr' (hts'' t (hts' ▸ ht))
    rw [hdone'']
    simpa using this
  obtain ⟨r, hr, hd⟩ := hq'.finished sp stg hsp hdn hs a ha hsk
  exact ⟨r, hr, by rw [hq'.store, ← ho]; exact hd⟩

/-- **C01, command level, any commit, empty workspace.** The clone has the committed index, a cache
extending the committed one and an EMPTY workspace (no output path is "." itself): `dud checkout`
succeeds and reproduces the tracked part of the logical content of every output in scope. -/
theorem commit_checkout_empty_workspace_re (cfg : Cfg κ) (g : Good cfg.ctx) (strat strat2 : Strat)
    (targets : List Bytes) (w0 w' : World κ) (hc : Consistent cfg.ctx w0.store)
    (hok : PipelineOKRe cfg (InScope cfg w0 targets) w0)
    (hdot : ∀ sp stg, InScope cfg w0 targets sp → alookup w0.idx sp = some stg →
      ∀ a, a ∈ stg.outputs → a.skip = false → Path.comps a.path ≠ [])
    (h : cmdCommit cfg strat targets w0 = .ok w')
    (v : World κ) (hidx : v.idx = w'.idx) (hws : v.ws = .dir [])
    (hle : Store.le cfg.ctx w'.store v.store) :
    ∃ v', cmdCheckout cfg strat2 false targets v = .ok v' ∧ v'.store = v.store ∧
      ∀ sp stg, InScope cfg w0 targets sp → alookup w0.idx sp = some stg →
        ∀ a, a ∈ stg.outputs → a.skip = false →
          ∃ r, getPath v'.ws (Path.comps a.path) = some r ∧
            deref cfg.ctx v'.store r = trackedOf a (deref cfg.ctx w0.store (origAt w0.ws a)) := by
  obtain ⟨_, _, _, _, hco⟩ :=
    commit_checkout_world_roundtrip_re cfg g strat strat2 targets w0 w' hc hok h
  obtain ⟨v', h1, h2, _, h4⟩ := hco v hidx hle (fun sp stg hsp hs a ha hsk => by
    rw [hws]
    refine ⟨?_, WT.writable_empty _⟩
    cases hp : Path.comps a.path with
    | nil => exact absurd hp (hdot sp stg hsp hs a ha hsk)
    | cons c r => exact WT.getPath_nil_dir r c)
  exact ⟨v', h1, h2, h4⟩

/-- **The next commit's `RecommitOK` comes for free.** After a commit covered by
`commit_checkout_world_roundtrip_re`, let `a'` be the recorded version of a directory output `a` of
a stage in scope (`a' = committedArt … a`: the stage file now records the new checksum).  Whatever
directory `n'` the workspace is edited into at that path — entries modified, added, removed,
changed between file and directory — in every cache extending the committed one (later commits,
fetches) the hypothesis `old` of `ArtPreRe` for `a'` and `n'` holds.  (The remaining fields of
`ArtPreRe` concern the new workspace only.) -/
theorem next_commit_recommitOK (cfg : Cfg κ) (g : Good cfg.ctx) (strat : Strat)
    (targets : List Bytes) (w0 w' : World κ) (hc : Consistent cfg.ctx w0.store)
    (hok : PipelineOKRe cfg (InScope cfg w0 targets) w0)
    (h : cmdCommit cfg strat targets w0 = .ok w')
    (sp : Bytes) (stg : Stage) (hsp : InScope cfg w0 targets sp) (hs : alookup w0.idx sp = some stg)
    (a : Art) (ha : a ∈ stg.outputs) (hd : a.isDir = true)
    (s'' : Store κ) (hle : Store.le cfg.ctx w'.store s'') (n' : Node κ) (hn' : n'.isDir = true) :
    RecommitOK cfg.ctx s''
      (trackedOf (committedArt cfg.ctx (deref cfg.ctx w0.store w0.ws) a) n')
      (committedArt cfg.ctx (deref cfg.ctx w0.store w0.ws) a).sum := by
  obtain ⟨_, _, _, hh, _⟩ :=
    commit_checkout_world_roundtrip_re cfg g strat strat targets w0 w' hc hok h
  obtain ⟨n, hn, hp⟩ := hok.pre sp stg hsp hs a ha
  have ho : origAt (deref cfg.ctx w0.store w0.ws) a = deref cfg.ctx w0.store (origAt w0.ws a) :=
    origAt_deref cfg.ctx w0.store w0.ws a
  have hsum : (committedArt cfg.ctx (deref cfg.ctx w0.store w0.ws) a).sum =
      treeDigest cfg.ctx a.path (trackedOf a (deref cfg.ctx w0.store (origAt w0.ws a))) := by
    simp [committedArt, ho]
  rw [hsum, trackedOf_sum]
  have hon : origAt w0.ws a = n := origAt_of_getPath hn
  refine (RecommitOK.of_holds_new g (hh sp stg hsp hs a ha hd) ?_ ?_ _ ?_).mono hle
  · rw [hon, trackedOf_deref]
    exact sorted_deref _ _ _ (sorted_trackedOf a hp.sorted)
  · rw [hon, trackedOf_deref]
    exact namesOK_deref _ (namesOK_trackedOf a hp.names)
  · rw [hon, trackedOf_isDir, trackedOf_isDir, deref_isDir, hp.kind, hd, hn']

/-! ## 4. non-vacuity: the two-stage pipeline, committed, edited, committed again, cloned

The pipeline is the one of `Props/C01world.lean` (`Example2`: stage `[1]` writes a directory with a
file and a sub-directory, stage `[2]` reads that directory and writes a file).  It is committed
(link strategy), EDITED — one file modified, one added, one removed, one file turned into a
directory (into which the link the first commit left is moved) —, committed again with the OTHER
strategy (copy), and checked out into a clone with an empty workspace.

* `Example3` (below): the scenario in the context `Example.ctx` with the injective hash (`Good`), as an
  instance of the theorems: `second_commit_roundtrip`; both commits are evaluated by `rfl`, the
  clone's checkout by `decide +kernel`.  The entries are named by the bytes 1…7 instead of the
  letters `a`, `b`, `x`, … of `Example2`: the injective example hash codes every byte of a name in
  unary inside the digest strings, and kernel evaluation on the resulting digests (hundreds of
  characters) costs about 15 s per cache lookup with letters.  The `RecommitOK` hypothesis of the
  second commit is NOT evaluated: it is derived from the theorem for the first commit
  (`next_commit_recommitOK`).
* `ExampleQ`: literally `Example2.w0` (letters), the whole scenario evaluated by the kernel under a
  cheap (non-injective) hash, and by `#eval` under the injective one.
-/

namespace Example3
open Dud.Example

def cfg : Cfg K := Example2.cfg

def treeA : Node K := .dir [([4], .file (.raw "x")), ([5], .dir [([6], .file (.raw "z"))])]
def outA : Art := { path := [1], isDir := true }
def outB : Art := { path := [2] }
def stageA : Stage := { cmd := [1], outputs := [outA] }
def stageB : Stage := { cmd := [2], inputs := [{ path := [1], isDir := true }], outputs := [outB] }
def w0 : World K :=
  { ws := .dir [([1], treeA), ([2], .file (.raw "out"))],
    idx := [([1], stageA), ([2], stageB)] }
def w1 : World K :=
  match cmdCommit cfg .link [] w0 with
  | .ok w => w
  | .error _ => default
theorem commit_ok : cmdCommit cfg .link [] w0 = .ok w1 := rfl

theorem compsA : Path.comps outA.path = [[1]] := rfl
theorem compsB : Path.comps outB.path = [[2]] := rfl

theorem apartAB : Apart (Path.comps outA.path) (Path.comps outB.path) := by
  rw [compsA, compsB]
  exact WT.apart_iff_diverge.2 ⟨[], [1], [2], [], [], by decide, rfl, rfl⟩

/-- two stages `[1]`, `[2]` with one output each, at the paths of `outA` and `outB` -/
theorem idx_two {idx : Index} {sA sB : Stage} (h : idx = [([1], sA), ([2], sB)])
    {sp : Bytes} {stg : Stage} (hl : alookup idx sp = some stg) :
    (sp = [1] ∧ stg = sA) ∨ (sp = [2] ∧ stg = sB) := by
  subst h
  simp only [alookup] at hl
  split at hl
  · rename_i h1
    cases hl
    exact .inl ⟨(by simpa using h1 : [1] = sp).symm, rfl⟩
  · split at hl
    · rename_i h2
      cases hl
      exact .inr ⟨(by simpa using h2 : [2] = sp).symm, rfl⟩
    · cases hl

theorem names456 (t : Node K) (h : ∀ nm ∈ allNames t, nm ∈ [[3], [4], [5], [6], [7]]) :
    NamesOK ctx t := by
  intro nm hnm
  refine ⟨rfl, fun _ _ _ => rfl, ?_⟩
  have := h nm hnm
  simp only [List.mem_cons, List.not_mem_nil, or_false] at this
  rcases this with rfl | rfl | rfl | rfl | rfl <;> decide

theorem preA : ArtPre cfg.ctx cfg.fuel outA treeA where
  kind := rfl
  plain := by simp [treeA, Node.plain, plainList]
  sorted := by simp [treeA, Node.sorted, sortedList, headName]; decide
  names := names456 _ (by simp [treeA, allNames, allNamesList])
  fresh := fun _ => ⟨rfl, rfl⟩
  fuel := by simp [trackedOf, outA, treeA, depth, depthList, cfg, Example2.cfg]

theorem preB : ArtPre cfg.ctx cfg.fuel outB (.file (.raw "out")) where
  kind := rfl
  plain := rfl
  sorted := rfl
  names := by intro nm h; simp [allNames] at h
  fresh := fun h => by cases h
  fuel := by simp [trackedOf, depth, cfg, Example2.cfg]

/-- the pipeline hypotheses for a world with the two stages `[1]` (one output at `[1]`, no inputs) and
`[2]` (one output at `[2]`, all inputs owned) -/
theorem pipeline_two (Sc : Bytes → Prop) (w : World K) (sA sB : Stage) (oA oB : Art) (nA nB : Node K)
    (hidx : w.idx = [([1], sA), ([2], sB)]) (hoA : sA.outputs = [oA]) (hoB : sB.outputs = [oB])
    (hpA : oA.path = [1]) (hpB : oB.path = [2])
    (hgA : getPath w.ws [[1]] = some nA) (hgB : getPath w.ws [[2]] = some nB)
    (preA : ArtPreRe cfg.ctx cfg.fuel w.store oA nA) (preB : ArtPreRe cfg.ctx cfg.fuel w.store oB nB)
    (hinA : sA.inputs = [])
    (hinB : sB.inputs.all (fun b => !(findOwner cfg.walkAccumulates w.idx b.path).isNone) = true) :
    PipelineOKRe cfg Sc w where
  keys := by rw [hidx]; simp
  apart_in := by
    intro sp stg _ hs
    rcases idx_two hidx hs with ⟨_, rfl⟩ | ⟨_, rfl⟩
    · rw [hoA]; exact List.pairwise_singleton _ _
    · rw [hoB]; exact List.pairwise_singleton _ _
  apart_across := by
    have hAB : Apart (Path.comps oA.path) (Path.comps oB.path) := by
      rw [hpA, hpB]; exact apartAB
    intro sp1 sp2 stg1 stg2 _ _ hne h1 h2 a ha b hb
    rcases idx_two hidx h1 with ⟨rfl, rfl⟩ | ⟨rfl, rfl⟩ <;>
      rcases idx_two hidx h2 with ⟨rfl, rfl⟩ | ⟨rfl, rfl⟩
    · exact absurd rfl hne
    · rw [hoA] at ha; rw [hoB] at hb
      simp only [List.mem_singleton] at ha hb
      subst ha; subst hb; exact hAB
    · rw [hoB] at ha; rw [hoA] at hb
      simp only [List.mem_singleton] at ha hb
      subst ha; subst hb; exact hAB.symm
    · exact absurd rfl hne
  pre := by
    intro sp stg _ hs a ha
    rcases idx_two hidx hs with ⟨_, rfl⟩ | ⟨_, rfl⟩
    · rw [hoA] at ha
      simp only [List.mem_singleton] at ha
      subst ha
      exact ⟨nA, by rw [hpA]; exact hgA, preA⟩
    · rw [hoB] at ha
      simp only [List.mem_singleton] at ha
      subst ha
      exact ⟨nB, by rw [hpB]; exact hgB, preB⟩
  inputs := by
    intro sp stg _ hs sp' stg' _ _ a _ b hb hn
    rcases idx_two hidx hs with ⟨_, rfl⟩ | ⟨_, rfl⟩
    · rw [hinA] at hb; cases hb
    · have := List.all_eq_true.1 hinB b hb
      rw [hn] at this
      cases this

theorem scope_all {w : World K} {sA sB : Stage} (hidx : w.idx = [([1], sA), ([2], sB)]) (sp : Bytes)
    (h : sp = [1] ∨ sp = [2]) : InScope cfg w [] sp := by
  refine ⟨sp, ?_, .refl _⟩
  simp only [List.isEmpty_nil, if_true, allStages, hidx]
  rcases h with rfl | rfl <;> simp

theorem cons0 : Consistent ctx w0.store := by
  intro d o h; simp [w0, Store.get, alookup] at h

theorem pipeline0 (Sc : Bytes → Prop) : PipelineOKRe cfg Sc w0 :=
  pipeline_two Sc w0 stageA stageB outA outB treeA (.file (.raw "out")) rfl rfl rfl rfl rfl rfl rfl
    (ArtPreRe.of_artPre _ preA) (ArtPreRe.of_artPre _ preB) rfl rfl

/-- the theorem applied to the FIRST commit: the committed cache is consistent -/
theorem cons1 : Consistent ctx w1.store :=
  (commit_checkout_world_roundtrip_re cfg good .link .link [] w0 w1 cons0 (pipeline0 _) commit_ok).1.1

/-! ### the edit and the second commit -/

-- the evaluations below compare digest strings of some hundred characters
set_option maxRecDepth 100000

/-- the stages as the first commit recorded them -/
def stageA1 : Stage := (alookup w1.idx [1]).getD default
def stageB1 : Stage := (alookup w1.idx [2]).getD default
theorem w1_idx : w1.idx = [([1], stageA1), ([2], stageB1)] := rfl

/-- the outputs with the checksums of the first commit -/
def outA1 : Art := committedArt ctx (deref ctx w0.store w0.ws) outA
def outB1 : Art := committedArt ctx (deref ctx w0.store w0.ws) outB
theorem outsA1 : stageA1.outputs = [outA1] := rfl
theorem outsB1 : stageB1.outputs = [outB1] := rfl

/-- the directory `[1]` after the edit: `[3]` ADDED (a regular file), the file `[4]` turned into a
DIRECTORY containing (under the name `[7]`) the link the first commit left for it, `[5]/[6]`
REMOVED -/
def nE : Node K :=
  .dir [([3], .file (.raw "new")),
        ([4], .dir [([7], .link (.obj (ctx.H (.raw "x"))))]),
        ([5], .dir [])]
/-- … and the file `[2]` MODIFIED: the link replaced by a regular file with new content -/
def wsE : Node K := .dir [([1], nE), ([2], .file (.raw "out2"))]
def w1e : World K := { w1 with ws := wsE }

/-- the logical content of the edited directory -/
def treeA2 : Node K :=
  .dir [([3], .file (.raw "new")), ([4], .dir [([7], .file (.raw "x"))]), ([5], .dir [])]

theorem nE_logical : deref ctx w1e.store nE = treeA2 := rfl

theorem preA1 : ArtPreRe cfg.ctx cfg.fuel w1e.store outA1 nE where
  kind := rfl
  resolved := by rw [show cfg.ctx = ctx from rfl, nE_logical]; simp [treeA2, Node.plain, plainList]
  sorted := by simp [nE, Node.sorted, sortedList, headName]; decide
  names := names456 _ (by simp [nE, allNames, allNamesList])
  skipfile := fun h => by cases h
  old := next_commit_recommitOK cfg good .link [] w0 w1 cons0 (pipeline0 _) commit_ok [1] stageA
    (scope_all rfl _ (.inl rfl)) rfl outA (by simp [stageA]) rfl w1e.store (Store.le_refl _ _) nE rfl
  fuel := by simp [trackedOf, outA1, committedArt, outA, nE, depth, depthList, cfg, Example2.cfg]

theorem preB1 : ArtPreRe cfg.ctx cfg.fuel w1e.store outB1 (.file (.raw "out2")) where
  kind := rfl
  resolved := rfl
  sorted := rfl
  names := by intro nm h; simp [allNames] at h
  skipfile := fun h => by cases h
  old := RecommitOK.of_not_dir _ _ _ rfl
  fuel := by simp [trackedOf, depth, cfg, Example2.cfg]

theorem pipeline1 (Sc : Bytes → Prop) : PipelineOKRe cfg Sc w1e :=
  pipeline_two Sc w1e stageA1 stageB1 outA1 outB1 nE (.file (.raw "out2")) w1_idx outsA1 outsB1
    rfl rfl rfl rfl preA1 preB1 rfl rfl

/-- the world after the second `dud commit`, this time with the copy strategy -/
def w2 : World K :=
  match cmdCommit cfg .copy [] w1e with
  | .ok w => w
  | .error _ => default

theorem commit_ok2 : cmdCommit cfg .copy [] w1e = .ok w2 := rfl

/-- a fresh clone: index and cache of the second commit, empty workspace -/
def clone2 : World K := { idx := w2.idx, store := w2.store }

/-- **The command-level theorem instantiated for the SECOND commit**: the two-stage pipeline,
committed (link), edited (one file modified, one added, one removed, one file turned into a directory
that contains a link into the cache), committed again (copy), then `dud checkout` (either strategy)
in a fresh clone with an empty workspace rebuilds the edited directory and the modified file. -/
theorem second_commit_roundtrip (strat2 : Strat) :
    ∃ v', cmdCheckout cfg strat2 false [] clone2 = .ok v' ∧
      (∃ r, getPath v'.ws [[1]] = some r ∧ deref ctx v'.store r = treeA2) ∧
      (∃ r, getPath v'.ws [[2]] = some r ∧ deref ctx v'.store r = .file (.raw "out2")) := by
  obtain ⟨v', h1, _, h3⟩ := commit_checkout_empty_workspace_re cfg good .copy strat2 [] w1e w2
    cons1 (pipeline1 _)
    (by
      intro sp stg _ hs a ha _
      rcases idx_two w1_idx hs with ⟨_, rfl⟩ | ⟨_, rfl⟩
      · rw [outsA1] at ha
        simp only [List.mem_singleton] at ha
        subst ha; exact (by decide : Path.comps [1] ≠ [])
      · rw [outsB1] at ha
        simp only [List.mem_singleton] at ha
        subst ha; exact (by decide : Path.comps [2] ≠ []))
    commit_ok2 clone2 rfl rfl (Store.le_refl _ _)
  refine ⟨v', h1, ?_, ?_⟩
  · exact h3 [1] stageA1 (scope_all w1_idx _ (.inl rfl)) rfl outA1 (by rw [outsA1]; simp) rfl
  · exact h3 [2] stageB1 (scope_all w1_idx _ (.inr rfl)) rfl outB1 (by rw [outsB1]; simp) rfl


/-- the logical content of the edited workspace -/
def wsE_logical : Node K := .dir [([1], treeA2), ([2], .file (.raw "out2"))]

/-- the same by running the model (kernel evaluation): with the copy strategy the clone's workspace
IS the logical content of the edited workspace -/
theorem copy_exact2 :
    (match cmdCheckout cfg .copy false [] clone2 with
      | .ok v => nodeBEq v.ws wsE_logical
      | .error _ => false) = true := by decide +kernel

/-- … and with the link strategy it is a tree of links with that logical content -/
theorem link_logical2 :
    (match cmdCheckout cfg .link false [] clone2 with
      | .ok v => nodeBEq (deref ctx v.store v.ws) wsE_logical && !nodeBEq v.ws wsE_logical
      | .error _ => false) = true := by decide +kernel

/-- the checksum the second commit records for `[1]` is `treeDigest` of the edited logical tree
(clause (b), evaluated) -/
theorem second_sum : (alookup w2.idx [1]).map (fun s => s.outputs.map (·.sum)) =
    some [treeDigest ctx [1] treeA2] := rfl

#eval match cmdCheckout cfg .link false [] clone2 with
  | .ok v => repr v.ws
  | .error e => repr e

end Example3

/-! ### the example of `Props/C01world.lean` itself -/

namespace ExampleQ
open Dud.Example

/-- the example context with SHORT digests (not injective; cheap to compare by kernel evaluation) -/
def ctxQ : Ctx K :=
  { ctx with H := fun k => match k with
      | .raw s => "raw-" ++ s
      | .man _ _ cs => "man-" ++ String.join (cs.map (fun c => "/" ++ c.sum)) }

def cfgQ : Cfg K := { Example2.cfg with ctx := ctxQ }

/-- the edit of the workspace the first commit left: `a/w` ADDED, the file `a/x` turned into a
DIRECTORY into which the link found at `a/x` is moved (as `a/x/q`), `a/y/z` REMOVED, `b` MODIFIED -/
def edit (ws : Node K) : Node K :=
  .dir [([97], .dir [([119], .file (.raw "new")),
                     ([120], .dir [([113], (getPath ws [[97], [120]]).getD .other)]),
                     ([121], .dir [])]),
        ([98], .file (.raw "out2"))]

/-- the logical content of `a/` after the edit -/
def treeA2 : Node K :=
  .dir [([119], .file (.raw "new")), ([120], .dir [([113], .file (.raw "x"))]), ([121], .dir [])]

/-- `Example2.w0`: `dud commit`, edit, `dud commit --copy`, `dud checkout` (strategy `strat2`) in a
fresh clone; the result: the clone has the logical content of the edited workspace, and the second
commit recorded `treeDigest` of the edited `a/` -/
def scenario (c : Cfg K) (strat2 : Strat) : Bool :=
  match cmdCommit c .link [] Example2.w0 with
  | .error _ => false
  | .ok w1 =>
    match cmdCommit c .copy [] { w1 with ws := edit w1.ws } with
    | .error _ => false
    | .ok w2 =>
      match cmdCheckout c strat2 false [] { idx := w2.idx, store := w2.store } with
      | .error _ => false
      | .ok v =>
        nodeBEq (deref c.ctx v.store v.ws) (.dir [([97], treeA2), ([98], .file (.raw "out2"))]) &&
          ((alookup w2.idx [1]).map (fun s => s.outputs.map (·.sum)) ==
            some [treeDigest c.ctx [97] treeA2])

theorem scenario_copy : scenario cfgQ .copy = true := by decide +kernel
theorem scenario_link : scenario cfgQ .link = true := by decide +kernel

-- the same under the injective hash of `Example.ctx`
#eval scenario Example2.cfg .copy
#eval scenario Example2.cfg .link

end ExampleQ

/-! ## axioms -/

#print axioms commitArt_roundtrip_re
#print axioms commitArt_unreadable_fails
#print axioms oldManifest_absent
#print axioms stage_commit_checkout_roundtrip_re
#print axioms commit_checkout_world_roundtrip_re
#print axioms commit_checkout_empty_workspace_re
#print axioms next_commit_recommitOK
#print axioms Re.recommitNodeL_post
#print axioms Re.commitArt_roundtrip_re'
#print axioms Re.commitAct_postR
#print axioms Re.cmdCommit_invR
#print axioms Re.RecommitOK.of_compat
#print axioms Re.RecommitOK.of_holds
#print axioms Re.RecommitOK.of_holds_new
#print axioms Re.RecommitOK.of_never
#print axioms Re.RecommitOK.of_digestAs
#print axioms Re.RecommitOK.of_treeDigest
#print axioms Re.ArtPreRe.of_older
#print axioms Re.ArtPreRe.of_artPre
#print axioms Re.PipelineOKRe.of_pipelineOK
#print axioms Example3.commit_ok
#print axioms Example3.commit_ok2
#print axioms Example3.pipeline0
#print axioms Example3.pipeline1
#print axioms Example3.second_commit_roundtrip
#print axioms Example3.copy_exact2
#print axioms Example3.link_logical2
#print axioms Example3.second_sum
#print axioms ExampleQ.scenario_copy
#print axioms ExampleQ.scenario_link

end Dud
