import DudModel.Spec
import DudModel.Lemmas.Tree
import DudModel.Lemmas.Sort
import DudModel.Lemmas.Holds
import DudModel.Lemmas.Compat
import DudModel.Lemmas.Codec
import DudModel.Props.C01
import DudModel.Generated.Facts
/-!
# C16 — an artifact's checksum depends only on its path and content

* `recommit_post` / `recommit_digest`: committing a plain tree on top of *any* compatible old
  manifest records `treeDigest` — the digest of a from-scratch commit.
* `recommit_after_edit`, `type_swap_recommit_ok`: after any edit — in particular an entry that
  changed between file and directory — the recommit succeeds: `commitWorker` reuses the old child
  only if its kind agrees.
* `treeDigest_perm`, `commit_perm_digest`: the listing order is irrelevant.
* `treeDigest_injective`: different trees get different checksums (given an injective codec).
* `commit_keys`: which objects a commit adds (equal contents share one object).
-/
namespace Dud

variable {κ : Type}

/-! ## (a) recommit on top of an old manifest -/

mutual
/-- the digests of all objects a commit of the tree writes -/
def allDigests (ctx : Ctx κ) : Bytes → Node κ → List Digest
  | _, .file x => [ctx.H x]
  | nm, .dir es => treeDigest ctx nm (.dir es) :: allDigestsList ctx es
  | _, .link _ => []
  | _, .other => []
def allDigestsList (ctx : Ctx κ) : List (Name × Node κ) → List Digest
  | [] => []
  | (nm, n) :: r => allDigests ctx nm n ++ allDigestsList ctx r
end

theorem Store.has_put (s : Store κ) (d d' : Digest) (o : Obj κ) :
    (s.put d o).has d' = true ↔ d = d' ∨ s.has d' = true := by
  simp only [Store.has, Store.get_put]
  split
  · next h => simp [h]
  · next h => simp [h]

/-- Post-condition of `commitNode` for a child artifact recovered from an old manifest. -/
def RNodePost (ctx : Ctx κ) (t : Node κ) : Prop :=
  ∀ (c : Child) (s : Store κ) (strat : Strat), c.isDir = t.isDir → CompatNode ctx s t c.sum →
    Consistent ctx s →
    ∃ s', commitNode ctx strat t c s =
        .ok (wsAfter ctx strat t, ⟨c.name, treeDigest ctx c.name t, c.isDir⟩, s') ∧
      Consistent ctx s' ∧ Store.le ctx s s' ∧ HoldsNode ctx s' newChoice c.name t ∧
      (HoldsNode ctx s newChoice c.name t → Store.le ctx s' s) ∧
      (∀ d, s'.has d = true → s.has d = true ∨ d ∈ allDigests ctx c.name t)

def REntriesPost (ctx : Ctx κ) (es : List (Name × Node κ)) : Prop :=
  ∀ (old : List Child) (s : Store κ) (strat : Strat), CompatList ctx s es old →
    Consistent ctx s →
    ∃ s', commitEntries ctx strat false es old s =
        .ok (wsAfterList ctx strat es, childrenOf ctx es, s') ∧
      Consistent ctx s' ∧ Store.le ctx s s' ∧ HoldsList ctx s' newChoice es ∧
      (HoldsList ctx s newChoice es → Store.le ctx s' s) ∧
      (∀ d, s'.has d = true → s.has d = true ∨ d ∈ allDigestsList ctx es)

theorem rfile_post {ctx : Ctx κ} (g : Good ctx) (x : κ) : RNodePost ctx (.file x) := by
  intro c s strat hcd _ hc
  have hcd' : c.isDir = false := hcd
  have hq : (quick s c.sum (some (Node.file x))).cm = false := by simp [quick]
  refine ⟨s.put (ctx.H x) (.blob x), ?_, hc.put (.blob x), Store.le_put g hc (.blob x), ?_, ?_, ?_⟩
  · cases strat <;> simp [commitNode, commitFile, hq, hcd', wsAfter, linked, treeDigest]
  · simp only [HoldsNode]
    exact ⟨.blob x, Store.get_put_self _ _ _, rfl⟩
  · intro h
    simp only [HoldsNode] at h
    obtain ⟨o, ho, hb⟩ := h
    exact Store.put_le_of_present (Store.le_refl _ _) ho hb
  · intro d hd
    rcases (Store.has_put _ _ _ _).1 hd with rfl | hd
    · exact Or.inr (by simp [allDigests])
    · exact Or.inl hd

theorem rnil_post (ctx : Ctx κ) : REntriesPost ctx [] := by
  intro old s strat _ hc
  exact ⟨s, by simp [commitEntries, childrenOf, wsAfterList_nil], hc, Store.le_refl _ _,
    by simp [HoldsList], fun _ => Store.le_refl _ _, fun d hd => Or.inl hd⟩

/-- which child artifact `commitEntries` starts from for the first entry -/
theorem commitEntries_cons_eq (ctx : Ctx κ) (strat : Strat) (nm : Name) (n : Node κ)
    (r : List (Name × Node κ)) (old : List Child) (s : Store κ) (hnm : ctx.nameOK nm = true) :
    ∃ c, (c = ⟨nm, "", n.isDir⟩ ∨ ∃ k, findChild old nm = some k ∧ k.isDir = n.isDir ∧ c = k) ∧
      commitEntries ctx strat false ((nm, n) :: r) old s =
        match commitNode ctx strat n c s with
        | .error e => .error e
        | .ok (n', c', s1) =>
          match commitEntries ctx strat false r old s1 with
          | .error e => .error e
          | .ok (r', cs, s2) => .ok ((nm, n') :: r', c' :: cs, s2) := by
  cases hf : findChild old nm with
  | none =>
    refine ⟨⟨nm, "", n.isDir⟩, Or.inl rfl, ?_⟩
    simp only [commitEntries, Bool.false_and, Bool.false_eq_true, if_false, hnm, Bool.not_true, hf]
    rfl
  | some k =>
    by_cases hkd : k.isDir = n.isDir
    · refine ⟨k, Or.inr ⟨k, rfl, hkd, rfl⟩, ?_⟩
      simp only [commitEntries, Bool.false_and, Bool.false_eq_true, if_false, hnm, Bool.not_true,
        hf, hkd, beq_self_eq_true, if_true]
      rfl
    · refine ⟨⟨nm, "", n.isDir⟩, Or.inl rfl, ?_⟩
      have hb : (k.isDir == n.isDir) = false := by simpa using hkd
      simp only [commitEntries, Bool.false_and, Bool.false_eq_true, if_false, hnm, Bool.not_true,
        hf, hb]
      rfl

theorem rcons_post {ctx : Ctx κ} (g : Good ctx) {nm : Name} {n : Node κ}
    {r : List (Name × Node κ)} (hnm : ctx.nameOK nm = true)
    (hn : RNodePost ctx n) (hr : REntriesPost ctx r) : REntriesPost ctx ((nm, n) :: r) := by
  intro old s strat hcompat hc
  simp only [CompatList] at hcompat
  obtain ⟨hk, hcr⟩ := hcompat
  obtain ⟨c, hcase, hceq⟩ := commitEntries_cons_eq ctx strat nm n r old s hnm
  have hcprops : c.name = nm ∧ c.isDir = n.isDir ∧ CompatNode ctx s n c.sum := by
    rcases hcase with rfl | ⟨k, hf, hkd, rfl⟩
    · exact ⟨rfl, rfl, compatNode_empty ctx s n⟩
    · exact ⟨findChild_name hf, hkd, hk c hf hkd⟩
  obtain ⟨hcn, hcd, hcc⟩ := hcprops
  obtain ⟨s1, hcommit, hc1, hle1, hh1, hback1, hkeys1⟩ := hn c s strat hcd hcc hc
  obtain ⟨s2, hcr', hc2, hle2, hh2, hback2, hkeys2⟩ :=
    hr old s1 strat (CompatList.mono g hle1 r old hcr) hc1
  refine ⟨s2, ?_, hc2, Store.le_trans hle1 hle2, ?_, ?_, ?_⟩
  · rw [hceq]
    simp [hcommit, hcr', childrenOf, hcn, hcd, wsAfterList_cons]
  · simp only [HoldsList]
    rw [hcn] at hh1
    exact ⟨HoldsNode.mono hle2 n _ nm hh1, hh2⟩
  · intro h
    simp only [HoldsList] at h
    rw [hcn] at hback1
    have hb1 : Store.le ctx s1 s := hback1 h.1
    exact Store.le_trans (hback2 (HoldsList.mono hle1 r _ h.2)) hb1
  · intro d hd
    simp only [allDigestsList, List.mem_append]
    rcases hkeys2 d hd with hd | hd
    · rcases hkeys1 d hd with hd | hd
      · exact Or.inl hd
      · rw [hcn] at hd
        exact Or.inr (Or.inl hd)
    · exact Or.inr (Or.inr hd)

theorem rdir_post {ctx : Ctx κ} (g : Good ctx) {es : List (Name × Node κ)}
    (he : REntriesPost ctx es) : RNodePost ctx (.dir es) := by
  intro c s strat hcd hcompat hc
  have hcd' : c.isDir = true := hcd
  simp only [CompatNode] at hcompat
  obtain ⟨_, old, hold, hcl⟩ := hcompat
  obtain ⟨s2, hce, hc2, hle2, hh2, hback2, hkeys2⟩ := he old s strat hcl hc
  let m : Obj κ := .man .new c.name (sortChildren (childrenOf ctx es))
  have hlep : Store.le ctx s2 (s2.put (m.digest ctx) m) := Store.le_put g hc2 m
  refine ⟨s2.put (m.digest ctx) m, ?_, hc2.put m, Store.le_trans hle2 hlep, ?_, ?_, ?_⟩
  · simp [commitNode, hcd', hold, hce, wsAfter_dir, treeDigest, m]
  · simp only [HoldsNode, digestAs_new, childrenAs_new]
    refine ⟨⟨m, ?_, rfl⟩, HoldsList.mono hlep es _ hh2⟩
    simp only [treeDigest]
    exact Store.get_put_self _ _ _
  · intro h
    simp only [HoldsNode, digestAs_new, childrenAs_new] at h
    obtain ⟨⟨o, ho, hb⟩, hl⟩ := h
    simp only [treeDigest] at ho
    exact Store.put_le_of_present (hback2 hl) ho hb
  · intro d hd
    simp only [allDigests, List.mem_cons]
    rcases (Store.has_put _ _ _ _).1 hd with rfl | hd
    · exact Or.inr (Or.inl (by simp [treeDigest, m]))
    · rcases hkeys2 d hd with hd | hd
      · exact Or.inl hd
      · exact Or.inr (Or.inr hd)

mutual
theorem recommitNode_post {ctx : Ctx κ} (g : Good ctx) : ∀ (t : Node κ),
    t.plain = true → NamesOK ctx t → RNodePost ctx t
  | .file x, _, _ => rfile_post g x
  | .dir es, hp, hn =>
    rdir_post g (recommitEntries_post g es (by simpa [Node.plain] using hp) (namesOK_dir hn))
  | .link _, hp, _ => by simp [Node.plain] at hp
  | .other, hp, _ => by simp [Node.plain] at hp
theorem recommitEntries_post {ctx : Ctx κ} (g : Good ctx) : ∀ (es : List (Name × Node κ)),
    plainList es = true → NamesOKList ctx es → REntriesPost ctx es
  | [], _, _ => rnil_post ctx
  | (_, n) :: r, hp, hn =>
    rcons_post g (namesOK_head hn).1
      (recommitNode_post g n (plainList_cons hp).1 (namesOK_node hn))
      (recommitEntries_post g r (plainList_cons hp).2 (namesOK_tail hn))
end

/-- **C16 (a).** Commit of a plain tree with a child artifact recovered from a compatible old
manifest: succeeds, leaves the workspace `wsAfter`, records the from-scratch digest
`treeDigest ctx c.name t` (whatever `c.sum`, the store and the strategy are), keeps the store
consistent and growing; the new store holds the tree, and nothing is added (up to bytes) if the
store held the tree before.  (No sortedness is needed on the commit side.) -/
theorem recommit_post (ctx : Ctx κ) (g : Good ctx) (t : Node κ)
    (hp : t.plain = true) (hn : NamesOK ctx t)
    (c : Child) (hcd : c.isDir = t.isDir) (s : Store κ) (hc : Consistent ctx s)
    (hcompat : CompatNode ctx s t c.sum) (strat : Strat) :
    ∃ t' c' s', commitNode ctx strat t c s = .ok (t', c', s') ∧
      t' = wsAfter ctx strat t ∧
      c'.name = c.name ∧ c'.isDir = t.isDir ∧ c'.sum = treeDigest ctx c.name t ∧
      Consistent ctx s' ∧ Store.le ctx s s' ∧ deref ctx s' t' = t ∧
      HoldsNode ctx s' newChoice c.name t ∧
      (HoldsNode ctx s newChoice c.name t → Store.le ctx s' s) ∧
      (∀ d, s'.has d = true → s.has d = true ∨ d ∈ allDigests ctx c.name t) := by
  obtain ⟨s', h, hc', hle, hh, hback, hkeys⟩ :=
    recommitNode_post g t hp hn c s strat hcd hcompat hc
  exact ⟨_, _, s', h, rfl, rfl, hcd, rfl, hc', hle, deref_wsAfter hp hh strat, hh, hback, hkeys⟩

/-- the recorded checksum of a successful recommit -/
theorem recommit_digest (ctx : Ctx κ) (g : Good ctx) (t : Node κ)
    (hp : t.plain = true) (hn : NamesOK ctx t)
    (c : Child) (hcd : c.isDir = t.isDir) (s : Store κ) (hc : Consistent ctx s)
    (hcompat : CompatNode ctx s t c.sum) (strat : Strat)
    {t' : Node κ} {c' : Child} {s' : Store κ}
    (h : commitNode ctx strat t c s = .ok (t', c', s')) :
    c'.sum = treeDigest ctx c.name t := by
  obtain ⟨s₁, h₁, _⟩ := recommitNode_post g t hp hn c s strat hcd hcompat hc
  rw [h₁] at h
  cases h
  rfl

/-- **History independence.** Two commits of the same plain tree under the same name, from any
two consistent stores with compatible old manifests, with either strategy, record the same
checksum. -/
theorem digest_history_independent (ctx : Ctx κ) (g : Good ctx) (t : Node κ)
    (hp : t.plain = true) (hn : NamesOK ctx t)
    (c₁ c₂ : Child) (hname : c₁.name = c₂.name)
    (hd₁ : c₁.isDir = t.isDir) (hd₂ : c₂.isDir = t.isDir)
    (s₁ s₂ : Store κ) (hc₁ : Consistent ctx s₁) (hc₂ : Consistent ctx s₂)
    (hk₁ : CompatNode ctx s₁ t c₁.sum) (hk₂ : CompatNode ctx s₂ t c₂.sum)
    (strat₁ strat₂ : Strat) :
    ∃ t₁ t₂ c₁' c₂' s₁' s₂', commitNode ctx strat₁ t c₁ s₁ = .ok (t₁, c₁', s₁') ∧
      commitNode ctx strat₂ t c₂ s₂ = .ok (t₂, c₂', s₂') ∧ c₁'.sum = c₂'.sum := by
  obtain ⟨s₁', h₁, _⟩ := recommitNode_post g t hp hn c₁ s₁ strat₁ hd₁ hk₁ hc₁
  obtain ⟨s₂', h₂, _⟩ := recommitNode_post g t hp hn c₂ s₂ strat₂ hd₂ hk₂ hc₂
  exact ⟨_, _, _, _, s₁', s₂', h₁, h₂, by simp [hname]⟩

/-! ## (b) recommit after an arbitrary edit, in particular a file ↔ directory swap -/

/-- **Recommit after any edit.**  In a consistent store holding the committed tree `t1` (manifests
of any schemas), committing *any* plain tree `t2` of the same top-level kind, with the child
artifact recorded for `t1`, succeeds and records `treeDigest ctx nm t2`.  Entry by entry the old
child is reused only where the kinds still agree. -/
theorem recommit_after_edit (ctx : Ctx κ) (g : Good ctx) (t1 t2 : Node κ) (ch : Choice) (nm : Bytes)
    (hs1 : t1.sorted = true) (hn1 : NamesOK ctx t1)
    (hp2 : t2.plain = true) (hn2 : NamesOK ctx t2) (hd : t1.isDir = t2.isDir)
    (s : Store κ) (hc : Consistent ctx s) (hh : HoldsNode ctx s ch nm t1) (strat : Strat) :
    ∃ s', commitNode ctx strat t2 ⟨nm, digestAs ctx ch nm t1, t1.isDir⟩ s =
        .ok (wsAfter ctx strat t2, ⟨nm, treeDigest ctx nm t2, t1.isDir⟩, s') ∧
      Consistent ctx s' ∧ Store.le ctx s s' ∧ HoldsNode ctx s' newChoice nm t2 ∧
      deref ctx s' (wsAfter ctx strat t2) = t2 := by
  obtain ⟨s', h, hc', hle, hh', _⟩ := recommitNode_post g t2 hp2 hn2
    ⟨nm, digestAs ctx ch nm t1, t1.isDir⟩ s strat hd (compatNode_any g t2 t1 ch nm hs1 hn1 hh hd) hc
  exact ⟨s', h, hc', hle, hh', deref_wsAfter hp2 hh' strat⟩

/-- **C16 (b), positive (the Go fix).**  Commit a directory where `x` is a file (resp. a
directory); replace `x` by a directory (resp. a file), edit the rest at will; recommit with the
child artifact the first commit recorded: success, and the digest is that of the new tree. -/
theorem type_swap_recommit_ok (ctx : Ctx κ) (g : Good ctx) (nm : Bytes)
    (es1 es2 : List (Name × Node κ))
    (hp1 : (Node.dir es1).plain = true) (hs1 : (Node.dir es1).sorted = true)
    (hn1 : NamesOK ctx (.dir es1))
    (hp2 : (Node.dir es2).plain = true) (hn2 : NamesOK ctx (.dir es2))
    (s : Store κ) (hc : Consistent ctx s) (strat strat2 : Strat) :
    ∃ t' c' s', commitNode ctx strat (.dir es1) ⟨nm, "", true⟩ s = .ok (t', c', s') ∧
      ∃ t'' c'' s'', commitNode ctx strat2 (.dir es2) c' s' = .ok (t'', c'', s'') ∧
        c''.sum = treeDigest ctx nm (.dir es2) ∧ c''.name = nm ∧ c''.isDir = true ∧
        deref ctx s'' t'' = .dir es2 ∧ Consistent ctx s'' ∧ Store.le ctx s' s'' := by
  obtain ⟨s', h, hc', _, hh, _⟩ := recommitNode_post g _ hp1 hn1 ⟨nm, "", true⟩ s strat rfl
    (compatNode_empty ctx s _) hc
  obtain ⟨s'', h2, hc'', hle, _, hd⟩ := recommit_after_edit ctx g (.dir es1) (.dir es2) newChoice nm
    hs1 hn1 hp2 hn2 rfl s' hc' hh strat2
  rw [digestAs_new] at h2
  exact ⟨_, _, s', h, _, _, s'', h2, rfl, rfl, rfl, hd, hc'', hle⟩

/-- What is still refused: the *top-level* artifact's declared kind (the stage file's `is-dir`)
must agree with the workspace. -/
theorem commitNode_kind_mismatch (ctx : Ctx κ) (strat : Strat) (s : Store κ) (c : Child) :
    (∀ es, c.isDir = false → commitNode ctx strat (.dir es) c s = .error .notRegular) ∧
    (∀ x, c.isDir = true → commitNode ctx strat (.file x) c s = .error .notDir) := by
  constructor
  · intro es h; simp [commitNode, h]
  · intro x h; simp [commitNode, h]

/-! ## (e) listing order -/

theorem plainList_iff : ∀ {es : List (Name × Node κ)},
    plainList es = true ↔ ∀ e ∈ es, e.2.plain = true
  | [] => by simp [plainList]
  | (nm, n) :: r => by
    simp only [plainList, Bool.and_eq_true, List.mem_cons, forall_eq_or_imp, plainList_iff (es := r)]

theorem mem_allNamesList_iff : ∀ {es : List (Name × Node κ)} {x : Name},
    x ∈ allNamesList es ↔ ∃ e ∈ es, x = e.1 ∨ x ∈ allNames e.2
  | [], x => by simp [allNamesList]
  | (nm, n) :: r, x => by
    simp only [allNamesList, List.mem_cons, List.mem_append, mem_allNamesList_iff (es := r),
      exists_eq_or_imp]
    constructor
    · rintro (h | h | h)
      · exact Or.inl (Or.inl h)
      · exact Or.inl (Or.inr h)
      · exact Or.inr h
    · rintro ((h | h) | h)
      · exact Or.inl h
      · exact Or.inr (Or.inl h)
      · exact Or.inr (Or.inr h)

/-- **C16 (e).** Fresh commits of two listings of the same directory (a permutation of each
other, duplicate-free names) record the same checksum.  Assumed: the tree is plain with accepted
names; *no* sortedness anywhere. -/
theorem commit_perm_digest (ctx : Ctx κ) (g : Good ctx) (nm : Bytes)
    (es1 es2 : List (Name × Node κ)) (hperm : es1.Perm es2) (hnd : (es1.map (·.1)).Nodup)
    (hp : (Node.dir es1).plain = true) (hn : NamesOK ctx (.dir es1))
    (s1 s2 : Store κ) (hc1 : Consistent ctx s1) (hc2 : Consistent ctx s2)
    (strat1 strat2 : Strat) :
    ∃ t1 c1 s1' t2 c2 s2', commitNode ctx strat1 (.dir es1) ⟨nm, "", true⟩ s1 = .ok (t1, c1, s1') ∧
      commitNode ctx strat2 (.dir es2) ⟨nm, "", true⟩ s2 = .ok (t2, c2, s2') ∧
      c1.sum = c2.sum ∧ c1.sum = treeDigest ctx nm (.dir es1) := by
  have hp2 : (Node.dir es2).plain = true := by
    simp only [Node.plain, plainList_iff] at hp ⊢
    exact fun e he => hp e (hperm.mem_iff.2 he)
  have hn2 : NamesOK ctx (.dir es2) := by
    intro x hx
    refine hn x ?_
    simp only [allNames, mem_allNamesList_iff] at hx ⊢
    obtain ⟨e, he, h⟩ := hx
    exact ⟨e, hperm.mem_iff.2 he, h⟩
  obtain ⟨s1', h1, _⟩ := recommitNode_post g _ hp hn ⟨nm, "", true⟩ s1 strat1 rfl
    (compatNode_empty ctx s1 _) hc1
  obtain ⟨s2', h2, _⟩ := recommitNode_post g _ hp2 hn2 ⟨nm, "", true⟩ s2 strat2 rfl
    (compatNode_empty ctx s2 _) hc2
  exact ⟨_, _, s1', _, _, s2', h1, h2, treeDigest_perm ctx nm hperm hnd, rfl⟩

/-! ## (c) injectivity of the checksum -/

/-- the current-format manifest encoding is injective -/
structure GoodEnc (ctx : Ctx κ) : Prop where
  encInj : ∀ p cs p' cs', ctx.encMan .new p cs = ctx.encMan .new p' cs' → p = p' ∧ cs = cs'

theorem Example.goodEnc : GoodEnc Example.ctx where
  encInj := by
    intro p cs p' cs' h
    simpa [Example.ctx] using h

mutual
/-- **C16 (c).** Different plain sorted trees of the same kind (both files or both directories)
get different checksums under the same name. -/
theorem treeDigest_injective {ctx : Ctx κ} (g : Good ctx) (ge : GoodEnc ctx) :
    ∀ (t1 t2 : Node κ) (nm : Bytes), t1.plain = true → t2.plain = true →
      t1.sorted = true → t2.sorted = true → t1.isDir = t2.isDir →
      treeDigest ctx nm t1 = treeDigest ctx nm t2 → t1 = t2
  | .file a, .file b, _, _, _, _, _, _, h => by
    simp only [treeDigest] at h
    rw [g.inj a b h]
  | .file _, .dir _, _, _, _, _, _, hd, _ => by simp [Node.isDir] at hd
  | .dir _, .file _, _, _, _, _, _, hd, _ => by simp [Node.isDir] at hd
  | .dir es1, .dir es2, nm, hp1, hp2, hs1, hs2, _, h => by
    have hp1' : plainList es1 = true := by simpa [Node.plain] using hp1
    have hp2' : plainList es2 = true := by simpa [Node.plain] using hp2
    have hs1' : sortedList es1 = true := by simpa [Node.sorted] using hs1
    have hs2' : sortedList es2 = true := by simpa [Node.sorted] using hs2
    simp only [treeDigest, Obj.digest, Obj.bytes] at h
    have h' := (ge.encInj _ _ _ _ (g.inj _ _ h)).2
    rw [sortChildren_childrenOf ctx es1 hs1', sortChildren_childrenOf ctx es2 hs2'] at h'
    rw [childrenOf_injective g ge es1 es2 hp1' hp2' hs1' hs2' h']
  | .link _, _, _, hp, _, _, _, _, _ => by simp [Node.plain] at hp
  | .other, _, _, hp, _, _, _, _, _ => by simp [Node.plain] at hp
  | _, .link _, _, _, hp, _, _, _, _ => by simp [Node.plain] at hp
  | _, .other, _, _, hp, _, _, _, _ => by simp [Node.plain] at hp
/-- At entry level nothing has to be assumed about the kinds: the manifest records `IsDir`. -/
theorem childrenOf_injective {ctx : Ctx κ} (g : Good ctx) (ge : GoodEnc ctx) :
    ∀ (es1 es2 : List (Name × Node κ)), plainList es1 = true → plainList es2 = true →
      sortedList es1 = true → sortedList es2 = true →
      childrenOf ctx es1 = childrenOf ctx es2 → es1 = es2
  | [], [], _, _, _, _, _ => rfl
  | [], (_, _) :: _, _, _, _, _, h => by simp [childrenOf] at h
  | (_, _) :: _, [], _, _, _, _, h => by simp [childrenOf] at h
  | (nm1, n1) :: r1, (nm2, n2) :: r2, hp1, hp2, hs1, hs2, h => by
    simp only [childrenOf, List.cons.injEq, Child.mk.injEq] at h
    obtain ⟨⟨hnm, hdig, hdir⟩, htl⟩ := h
    subst hnm
    rw [treeDigest_injective g ge n1 n2 nm1 (plainList_cons hp1).1 (plainList_cons hp2).1
      (sortedList_cons hs1).1 (sortedList_cons hs2).1 hdir hdig,
      childrenOf_injective g ge r1 r2 (plainList_cons hp1).2 (plainList_cons hp2).2
      (sortedList_cons hs1).2 (sortedList_cons hs2).2 htl]
end

/-- Why `t1.isDir = t2.isDir` is needed: a regular file whose content is the manifest of a
directory has the checksum of that directory. -/
theorem file_dir_digest_collision (ctx : Ctx κ) (nm : Bytes) (es : List (Name × Node κ)) :
    treeDigest ctx nm (.file (ctx.encMan .new nm (sortChildren (childrenOf ctx es))))
      = treeDigest ctx nm (.dir es) := by
  simp [treeDigest, Obj.digest, Obj.bytes]

/-! ## (d) which objects a commit adds -/

mutual
def fileContents : Node κ → List κ
  | .file x => [x]
  | .dir es => fileContentsList es
  | .link _ => []
  | .other => []
def fileContentsList : List (Name × Node κ) → List κ
  | [] => []
  | (_, n) :: r => fileContents n ++ fileContentsList r
end

mutual
theorem holds_fileContents {ctx : Ctx κ} {s : Store κ} : ∀ (t : Node κ) (ch : Choice) (nm : Bytes),
    HoldsNode ctx s ch nm t → ∀ x ∈ fileContents t, ∃ o, s.get (ctx.H x) = some o ∧ o.bytes ctx = x
  | .file y, _, _, h, x, hx => by
    simp only [fileContents, List.mem_singleton] at hx
    subst hx
    simpa [HoldsNode] using h
  | .dir es, ch, _, h, x, hx => by
    simp only [HoldsNode] at h
    exact holdsList_fileContents es ch h.2 x (by simpa [fileContents] using hx)
  | .link _, _, _, _, x, hx => by simp [fileContents] at hx
  | .other, _, _, _, x, hx => by simp [fileContents] at hx
theorem holdsList_fileContents {ctx : Ctx κ} {s : Store κ} : ∀ (es : List (Name × Node κ))
    (ch : Choice), HoldsList ctx s ch es →
      ∀ x ∈ fileContentsList es, ∃ o, s.get (ctx.H x) = some o ∧ o.bytes ctx = x
  | [], _, _, x, hx => by simp [fileContentsList] at hx
  | (nm, n) :: r, ch, h, x, hx => by
    simp only [HoldsList] at h
    simp only [fileContentsList, List.mem_append] at hx
    rcases hx with hx | hx
    · exact holds_fileContents n _ nm h.1 x hx
    · exact holdsList_fileContents r ch h.2 x hx
end

mutual
theorem holds_allDigests {ctx : Ctx κ} {s : Store κ} : ∀ (t : Node κ) (nm : Bytes),
    HoldsNode ctx s newChoice nm t → ∀ d ∈ allDigests ctx nm t, s.has d = true
  | .file y, _, h, d, hd => by
    simp only [allDigests, List.mem_singleton] at hd
    subst hd
    simp only [HoldsNode] at h
    obtain ⟨o, ho, _⟩ := h
    exact Store.has_of_get ho
  | .dir es, nm, h, d, hd => by
    simp only [HoldsNode, digestAs_new] at h
    simp only [allDigests, List.mem_cons] at hd
    rcases hd with rfl | hd
    · obtain ⟨⟨o, ho, _⟩, _⟩ := h
      exact Store.has_of_get ho
    · exact holdsList_allDigests es h.2 d hd
  | .link _, _, _, d, hd => by simp [allDigests] at hd
  | .other, _, _, d, hd => by simp [allDigests] at hd
theorem holdsList_allDigests {ctx : Ctx κ} {s : Store κ} : ∀ (es : List (Name × Node κ)),
    HoldsList ctx s newChoice es → ∀ d ∈ allDigestsList ctx es, s.has d = true
  | [], _, d, hd => by simp [allDigestsList] at hd
  | (nm, n) :: r, h, d, hd => by
    simp only [HoldsList] at h
    simp only [allDigestsList, List.mem_append] at hd
    rcases hd with hd | hd
    · exact holds_allDigests n nm h.1 d hd
    · exact holdsList_allDigests r h.2 d hd
end

/-- **C16 (d).** After a (re)commit the keys of the store are exactly the old keys and the
digests of the tree's objects; every file content `x` of the tree sits (once: under the single
key `ctx.H x`, wherever and however often it occurs) in the store.  Hence at most
`(allDigests ctx nm t).eraseDups.length` keys are new. -/
theorem commit_keys (ctx : Ctx κ) (g : Good ctx) (t : Node κ)
    (hp : t.plain = true) (hn : NamesOK ctx t)
    (c : Child) (hcd : c.isDir = t.isDir) (s : Store κ) (hc : Consistent ctx s)
    (hcompat : CompatNode ctx s t c.sum) (strat : Strat) :
    ∃ t' c' s', commitNode ctx strat t c s = .ok (t', c', s') ∧
      (∀ d, s'.has d = true ↔ s.has d = true ∨ d ∈ allDigests ctx c.name t) ∧
      (∀ x ∈ fileContents t, ∃ o, s'.get (ctx.H x) = some o ∧ o.bytes ctx = x) := by
  obtain ⟨s', h, _, hle, hh, _, hkeys⟩ := recommitNode_post g t hp hn c s strat hcd hcompat hc
  refine ⟨_, _, s', h, fun d => ⟨hkeys d, ?_⟩, holds_fileContents t _ _ hh⟩
  rintro (hd | hd)
  · exact Store.has_le hle hd
  · exact holds_allDigests t _ hh d hd

/-! ## Non-vacuity over `Dud.Example.ctx` -/

namespace Example

/-- (a) the example tree committed twice: the second commit starts from the manifest of the
first and records the same, from-scratch digest -/
example (strat strat2 : Strat) :
    ∃ t' c' s', commitNode ctx strat tree ⟨[116], "", true⟩ [] = .ok (t', c', s') ∧
      ∃ t'' c'' s'', commitNode ctx strat2 tree c' s' = .ok (t'', c'', s'') ∧
        c''.sum = treeDigest ctx [116] tree ∧ Store.le ctx s'' s' := by
  obtain ⟨s', h, hc', _, hh, _⟩ := recommitNode_post good tree tree_plain tree_names
    ⟨[116], "", true⟩ [] strat rfl (compatNode_empty ctx [] _) empty_consistent
  have hk : CompatNode ctx s' tree (treeDigest ctx [116] tree) := by
    have := compatNode_of_holds good tree newChoice [116] tree_sorted tree_names hh
    rwa [digestAs_new] at this
  obtain ⟨s'', h2, _, _, _, hback, _⟩ := recommitNode_post good tree tree_plain tree_names
    ⟨[116], treeDigest ctx [116] tree, true⟩ s' strat2 rfl hk hc'
  exact ⟨_, _, s', h, _, _, s'', h2, rfl, hback hh⟩

/-- the tree after an edit: `a` changed, `b/c` removed, `b/e` and `f` added -/
def tree2 : Node K :=
  .dir [([97], .file (.raw "ALPHA")),
        ([98], .dir [([100], .dir []), ([101], .file (.raw "new"))]),
        ([101], .file (.raw "alpha")),
        ([102], .file (.raw "gamma"))]

/-- executable evidence for (a): recommit of the edited tree on top of the old manifest -/
def recommitEdited (strat strat2 : Strat) : String :=
  match commitNode ctx strat tree ⟨[116], "", true⟩ [] with
  | .error e => s!"commit error {e}"
  | .ok (_, c', s') =>
    match commitNode ctx strat2 tree2 c' s', commitNode ctx strat2 tree2 ⟨[116], "", true⟩ [] with
    | .ok (t'', c'', s''), .ok (_, c0, _) =>
      s!"sum = treeDigest: {c''.sum == treeDigest ctx [116] tree2}; " ++
      s!"same as from scratch: {c''.sum == c0.sum}; differs from old: {c''.sum != c'.sum}; " ++
      s!"logical content kept: {nodeBEq (deref ctx s'' t'') tree2}"
    | .error e, _ => s!"recommit error {e}"
    | _, .error e => s!"scratch commit error {e}"

#eval recommitEdited .link .copy
#eval recommitEdited .copy .link

/-- the example tree with `a` turned into a directory and `b` into a file -/
def treeSwapped : Node K :=
  .dir [([97], .dir [([120], .file (.raw "x"))]),
        ([98], .file (.raw "was a directory")),
        ([101], .file (.raw "alpha"))]

/-- (b) `a` was a file and is a directory now, `b` was a directory and is a file now: the
recommit on top of the old manifest succeeds with the digest of the new tree -/
example (strat strat2 : Strat) :
    ∃ t' c' s', commitNode ctx strat tree ⟨[116], "", true⟩ [] = .ok (t', c', s') ∧
      ∃ t'' c'' s'', commitNode ctx strat2 treeSwapped c' s' = .ok (t'', c'', s'') ∧
        c''.sum = treeDigest ctx [116] treeSwapped ∧ deref ctx s'' t'' = treeSwapped := by
  obtain ⟨t', c', s', h, t'', c'', s'', h2, hsum, _, _, hd, _⟩ :=
    type_swap_recommit_ok ctx good [116] _ _ tree_plain tree_sorted tree_names
      (show treeSwapped.plain = true by simp [treeSwapped, Node.plain, plainList])
      (fun nm h => ⟨rfl, fun _ _ _ => rfl, by
        simp only [allNames, allNamesList, List.mem_cons, List.mem_append,
          List.not_mem_nil, List.append_nil, or_false, List.nil_append] at h
        rcases h with rfl | rfl | rfl | rfl <;> decide⟩) [] empty_consistent strat strat2
  exact ⟨t', c', s', h, t'', c'', s'', h2, hsum, hd⟩

def typeSwap (t2 : Node K) : String :=
  match commitNode ctx .link tree ⟨[116], "", true⟩ [] with
  | .error e => s!"commit error {e}"
  | .ok (_, c', s') =>
    match commitNode ctx .link t2 c' s', commitNode ctx .link t2 ⟨[116], "", true⟩ [] with
    | .error e, _ => s!"recommit fails with {e}"
    | .ok (t'', c'', s''), .ok (_, c0, _) =>
      s!"recommit ok; sum = treeDigest of the new tree: {c''.sum == treeDigest ctx [116] t2}; " ++
      s!"same as from scratch: {c''.sum == c0.sum}; " ++
      s!"logical content kept: {nodeBEq (deref ctx s'' t'') t2}"
    | .ok _, .error e => s!"recommit ok, from scratch fails with {e}"

#eval typeSwap treeSwapped
#eval typeSwap (.dir [([97], .dir [([120], .file (.raw "x"))])])
#eval typeSwap (.dir [([97], .file (.raw "alpha")), ([98], .file (.raw "was a directory"))])

-- the top-level artifact's declared kind is still checked
#eval match commitNode ctx .link tree ⟨[116], "", false⟩ [] with
  | .error e => s!"top-level kind mismatch: error {e}"
  | .ok _ => "ok"

/-- (e) two listing orders of the example directory -/
def treeRev : Node K :=
  .dir [([101], .file (.raw "alpha")),
        ([97], .file (.raw "alpha")),
        ([98], .dir [([99], .file (.raw "gamma")), ([100], .dir [])])]

example : treeDigest ctx [116] tree = treeDigest ctx [116] treeRev := by
  refine treeDigest_perm ctx [116] ?_ (by decide)
  exact ((List.Perm.swap _ _ _).trans ((List.Perm.swap _ _ _).cons _)).symm

#eval match commitNode ctx .link tree ⟨[116], "", true⟩ [],
            commitNode ctx .copy treeRev ⟨[116], "", true⟩ [] with
  | .ok (_, c1, _), .ok (_, c2, _) => s!"same checksum for both listing orders: {c1.sum == c2.sum}"
  | _, _ => "commit error"

/-- (c) the example context has an injective manifest encoding; distinct trees, distinct sums -/
example : treeDigest ctx [116] tree ≠ treeDigest ctx [116] tree2 := by
  intro h
  have := treeDigest_injective good goodEnc tree tree2 [116] tree_plain
    (by simp [tree2, Node.plain, plainList])
    tree_sorted (by simp [tree2, Node.sorted, sortedList, headName]; decide) rfl h
  simp [tree, tree2] at this

end Example


/-! ## regenerated fact about the Go source (`commitWorker`) -/

/-- the worker reuses the old child artifact, and only when its kind agrees -/
theorem worker_kind_fact :
    Dud.Facts.workerChecksKind = true ∧ Dud.Facts.workerReusesOldChild = true := by decide

#print axioms Store.has_put
#print axioms rfile_post
#print axioms rnil_post
#print axioms commitEntries_cons_eq
#print axioms rcons_post
#print axioms rdir_post
#print axioms recommitNode_post
#print axioms recommitEntries_post
#print axioms recommit_post
#print axioms recommit_digest
#print axioms digest_history_independent
#print axioms recommit_after_edit
#print axioms type_swap_recommit_ok
#print axioms commitNode_kind_mismatch
#print axioms plainList_iff
#print axioms mem_allNamesList_iff
#print axioms commit_perm_digest
#print axioms Example.goodEnc
#print axioms treeDigest_injective
#print axioms childrenOf_injective
#print axioms file_dir_digest_collision
#print axioms holds_fileContents
#print axioms holdsList_fileContents
#print axioms holds_allDigests
#print axioms holdsList_allDigests
#print axioms commit_keys
#print axioms worker_kind_fact
#print axioms compatNode_any
#print axioms compatList_any

end Dud
