import DudModel.Lemmas.CrashCmdGo2
import DudModel.Props.C03cmd
/-!
# C03 at the level of the whole command, stage files written after each target (Go's order)

`cmdCommitT` (`Props/C03cmd.lean`) issues all stage-file writes after all artifacts.  The loop of
`src/cmd/commit.go` writes, after the traversal of EACH target, the stage files of the stages that
traversal committed; with several targets (or no target and several stages) stage-file writes and
artifact commits therefore alternate.  `cmdCommitGoT` (`SysCmd.lean`) follows that order.  This file
proves for it what `C03cmd.lean` proves for `cmdCommitT`:

* `cmdCommitGoT_refines` — erasing the trace gives `cmdCommit`;
* `cmdCommitGoT_single` — with one (effective) target the two traced commands are EQUAL, calls included;
* `cmdCommitGoT_crash_safe` — after every prefix: every byte sequence of a regular workspace file is
  retrievable, no object is torn;
* `cmdCommitGoT_stage_files_never_torn` — after every prefix every stage file holds what it held before
  the command or the COMPLETE encoding of a stage (no hypothesis on the index);
* `cmdCommitGoT_stage_files_atomic` — … of the stage the FINAL index holds, as for `cmdCommitT`; here this
  needs that a stage whose file has been written is not committed again by a later target, a fact about the
  traversal that holds when the stage paths of the index are pairwise distinct (hypothesis `hk`; Go: a map);
* `cmdCommitGoT_lock_window` — the lock exists exactly strictly between the first and the last call.

Same hypotheses as in `C03cmd.lean`; none on the index except `hk` in `cmdCommitGoT_stage_files_atomic`.
-/
namespace Dud.Sys
open Dud
variable {κ : Type}

/-- **Erasing the trace of `cmdCommitGoT` gives exactly `cmdCommit`.** -/
theorem cmdCommitGoT_refines (c : CmdCfg κ) (strat : Strat) (targets : List Bytes) (w : World κ) :
    (cmdCommitGoT c strat targets w).map (·.1) = cmdCommit c.cfg strat targets w :=
  cmdCommitGoT_erase c strat targets w

theorem newlyDone_nil (d : List Bytes) : newlyDone [] d = d.reverse := by
  simp [newlyDone]

/-- **One target: the two orders are the same call sequence.**  `targets = [t]`, or no target and a
single stage in the index. -/
theorem cmdCommitGoT_single (c : CmdCfg κ) (strat : Strat) (targets : List Bytes) (w : World κ) (t : Bytes)
    (h1 : (if targets.isEmpty then allStages w else targets) = [t]) :
    cmdCommitGoT c strat targets w = cmdCommitT c strat targets w := by
  unfold cmdCommitGoT cmdCommitGoSegs cmdCommitT cmdCommitSegs
  simp only [h1, List.isEmpty_cons, Bool.false_eq_true, if_false, goTargets, perTargetP]
  cases hb : (alookup (fresh w).idx t).isNone with
  | true => simp only [if_true]
  | false =>
    simp only [Bool.false_eq_true, if_false]
    cases visit (commitTravT c strat) true ((fresh w).idx.length + 1) (allStages (fresh w)) t (fresh w, []) with
    | error e => rfl
    | ok q =>
      obtain ⟨w', arts⟩ := q
      have : (fresh w).done = [] := rfl
      simp only [goCalls_eq, CmdTrace.calls, List.nil_append, flatSegs_append, flatSegs_arts, this,
        newlyDone_nil, flatSegs_metas, List.append_assoc]

/-- everything about a successful run, in one place -/
theorem cmdCommitGoT_run {c : CmdCfg κ} {strat : Strat} (g : Good c.cfg.ctx) {emp : κ}
    (hemp : ∀ x, c.isEmp x = true → x = emp) {targets : List Bytes} {w w' : World κ}
    {calls : List (Call κ)} (hu : uniqNode w.ws) (hc : Consistent c.cfg.ctx w.store)
    (h : cmdCommitGoT c strat targets w = .ok (w', calls)) :
    ∃ segs : List (Bool × List (Call κ)),
      calls = [.createExcl .lock] ++ flatSegs segs ++ [.unlink .lock] ∧
      GInv c emp (trackedOf [] w.ws) (replay emp (fsOfWorld c w) [.createExcl .lock]) (w', segs) ∧
      AllowedTrace c.cfg.ctx emp (trackedOf [] w.ws) (fsOfWorld c w) calls := by
  obtain ⟨segs, hgo, rfl⟩ := cmdCommitGoT_ok_inv h
  have htw := trackedOf_ws (κ := κ) [] w.ws
  have hs0 := fsOfWorld_safe c w hu hc
  have hlock : AllowedTrace c.cfg.ctx emp (trackedOf [] w.ws) (fsOfWorld c w) [.createExcl .lock] :=
    allowedTrace_of_harmless htw emp _ (by intro x hx; simp at hx; subst hx; exact lockCalls_harmless.1) _
  have hsb := hlock.safe_final g hs0
  have hfr : ∀ x ∈ ([Call.createExcl P.lock] : List (Call κ)), ∀ p ∈ callWrites x,
      (∀ q, p ≠ .ws q) ∧ ∀ k, p ≠ .ctmp k := by
    intro x hx p hp
    simp at hx; subst hx
    simp [callWrites, callPaths] at hp; subst hp
    simp
  have hrel : Rel (fresh w).ws (replay emp (fsOfWorld c w) [.createExcl .lock]) :=
    (Rel.init c w hu).frame emp _ hfr
  have htf : StageTmpFree (replay emp (fsOfWorld c w) [.createExcl .lock]) := by
    intro sp
    rw [replay_get_frame emp _ _ _ (by intro x hx; simp at hx; subst hx; simp [callWrites, callPaths])]
    exact fsOfWorld_get_stageTmp c w sp
  have hinv := goTargets_inv g stage_write_fact htw hemp hsb _ _ _ (GInv.init hrel htf) hgo
  refine ⟨segs, rfl, hinv, ?_⟩
  refine AllowedTrace.append (AllowedTrace.append hlock hinv.allowed) ?_
  exact allowedTrace_of_harmless htw emp _
    (by intro x hx; simp at hx; subst hx; exact lockCalls_harmless.2) _

/-- **Command-level crash safety, Go's order.**  After every prefix of the calls the file system is `Safe`
for all regular files the workspace held before the command. -/
theorem cmdCommitGoT_crash_safe {c : CmdCfg κ} {strat : Strat} (g : Good c.cfg.ctx) {emp : κ}
    (hemp : ∀ x, c.isEmp x = true → x = emp) {targets : List Bytes} {w w' : World κ}
    {calls : List (Call κ)} (hu : uniqNode w.ws) (hc : Consistent c.cfg.ctx w.store)
    (h : cmdCommitGoT c strat targets w = .ok (w', calls)) :
    ∀ k, Safe c.cfg.ctx (trackedOf [] w.ws) (replay emp (fsOfWorld c w) (calls.take k)) := by
  obtain ⟨segs, -, -, hall⟩ := cmdCommitGoT_run g hemp hu hc h
  exact hall.prefixSafe g (fsOfWorld_safe c w hu hc)

/-- … for the regular files below any list of artifacts (e.g. the outputs of the stages in scope) -/
theorem cmdCommitGoT_crash_safe_below {c : CmdCfg κ} {strat : Strat} (g : Good c.cfg.ctx) {emp : κ}
    (hemp : ∀ x, c.isEmp x = true → x = emp) {targets : List Bytes} {w w' : World κ}
    {calls : List (Call κ)} (hu : uniqNode w.ws) (hc : Consistent c.cfg.ctx w.store)
    (h : cmdCommitGoT c strat targets w = .ok (w', calls)) (arts : List Art) :
    ∀ k, Safe c.cfg.ctx (trackedBelow w.ws arts) (replay emp (fsOfWorld c w) (calls.take k)) := by
  intro k
  refine (cmdCommitGoT_crash_safe g hemp hu hc h k).mono (fun p hp => ?_)
  simp only [trackedBelow, List.mem_flatMap] at hp
  obtain ⟨a, -, hpa⟩ := hp
  exact trackedOpt_sub_tracked hu _ p hpa

/-- **Stage files are never torn, Go's order.**  After every prefix every stage file holds what it held
before the command or the complete encoding of a stage. -/
theorem cmdCommitGoT_stage_files_never_torn {c : CmdCfg κ} {strat : Strat} (g : Good c.cfg.ctx) {emp : κ}
    (hemp : ∀ x, c.isEmp x = true → x = emp) {targets : List Bytes} {w w' : World κ}
    {calls : List (Call κ)} (hu : uniqNode w.ws) (hc : Consistent c.cfg.ctx w.store)
    (h : cmdCommitGoT c strat targets w = .ok (w', calls)) (sp : Bytes) :
    ∀ k, (replay emp (fsOfWorld c w) (calls.take k)).get (.stageFile sp)
          = (fsOfWorld c w).get (.stageFile sp) ∨
      ∃ stg m, (replay emp (fsOfWorld c w) (calls.take k)).get (.stageFile sp)
          = some (.file (c.encStage stg) m) := by
  obtain ⟨segs, rfl, hinv, -⟩ := cmdCommitGoT_run g hemp hu hc h
  have hb : (replay emp (fsOfWorld c w) [Call.createExcl P.lock]).get (.stageFile sp)
      = (fsOfWorld c w).get (.stageFile sp) :=
    replay_get_frame emp _ _ _ (by intro x hx; simp at hx; subst hx; simp [callWrites, callPaths])
  have hst := hinv.stage sp
  rw [hb] at hst
  have h1 : PrefixAll (StageQ c sp ((fsOfWorld c w).get (.stageFile sp))) emp (fsOfWorld c w)
      [Call.createExcl P.lock] :=
    stageQ_frame c sp _ emp (.inl rfl) (by intro x hx; simp at hx; subst hx; simp [callWrites, callPaths])
  have h12 := PrefixAll.append h1 hst
  have h123 := PrefixAll.append h12 (stageQ_frame c sp _ emp h12.final
    (calls := [Call.unlink P.lock]) (by intro x hx; simp at hx; subst hx; simp [callWrites, callPaths]))
  exact h123

/-- **Stage files are never torn, Go's order, full strength.**  With pairwise distinct stage paths in the
index (Go: the index is a map): after every prefix every stage file holds what it held before the command
or the complete encoding of the stage the FINAL index holds — a stage whose file has been written is
never committed again, and committing other stages leaves its index entry alone
(`visit_commitTravT_stable`). -/
theorem cmdCommitGoT_stage_files_atomic {c : CmdCfg κ} {strat : Strat} (g : Good c.cfg.ctx) {emp : κ}
    (hemp : ∀ x, c.isEmp x = true → x = emp) {targets : List Bytes} {w w' : World κ}
    {calls : List (Call κ)} (hu : uniqNode w.ws) (hc : Consistent c.cfg.ctx w.store)
    (hk : (w.idx.map (·.1)).Nodup)
    (h : cmdCommitGoT c strat targets w = .ok (w', calls)) (sp : Bytes) :
    ∀ k, (replay emp (fsOfWorld c w) (calls.take k)).get (.stageFile sp)
          = (fsOfWorld c w).get (.stageFile sp) ∨
      ∃ stg m, alookup w'.idx sp = some stg ∧
        (replay emp (fsOfWorld c w) (calls.take k)).get (.stageFile sp)
          = some (.file (c.encStage stg) m) := by
  obtain ⟨segs, hgo, rfl⟩ := cmdCommitGoT_ok_inv h
  have htw := trackedOf_ws (κ := κ) [] w.ws
  have hs0 := fsOfWorld_safe c w hu hc
  have hlock : AllowedTrace c.cfg.ctx emp (trackedOf [] w.ws) (fsOfWorld c w) [.createExcl .lock] :=
    allowedTrace_of_harmless htw emp _ (by intro x hx; simp at hx; subst hx; exact lockCalls_harmless.1) _
  have hsb := hlock.safe_final g hs0
  have hrel : Rel (fresh w).ws (replay emp (fsOfWorld c w) [.createExcl .lock]) :=
    (Rel.init c w hu).frame emp _ (by
      intro x hx p hp
      simp at hx; subst hx
      simp [callWrites, callPaths] at hp; subst hp
      simp)
  have htf : StageTmpFree (replay emp (fsOfWorld c w) [.createExcl .lock]) := by
    intro sp
    rw [replay_get_frame emp _ _ _ (by intro x hx; simp at hx; subst hx; simp [callWrites, callPaths])]
    exact fsOfWorld_get_stageTmp c w sp
  obtain ⟨-, hinv2⟩ := goTargets_inv2 g stage_write_fact htw hemp hsb (idx0 := w.idx) hk _ _ _
    (GInv.init hrel htf) (GInv2.init (fresh w)) hgo
  have hb : (replay emp (fsOfWorld c w) [Call.createExcl P.lock]).get (.stageFile sp)
      = (fsOfWorld c w).get (.stageFile sp) :=
    replay_get_frame emp _ _ _ (by intro x hx; simp at hx; subst hx; simp [callWrites, callPaths])
  have hst := hinv2.stageF sp
  rw [hb] at hst
  have h1 : PrefixAll (StageQF c sp ((fsOfWorld c w).get (.stageFile sp)) w'.idx w'.done) emp (fsOfWorld c w)
      [Call.createExcl P.lock] :=
    stageQF_frame c sp _ _ _ emp (.inl rfl)
      (by intro x hx; simp at hx; subst hx; simp [callWrites, callPaths])
  have h12 := PrefixAll.append h1 hst
  have h123 := PrefixAll.append h12 (stageQF_frame c sp _ _ _ emp h12.final
    (calls := [Call.unlink P.lock]) (by intro x hx; simp at hx; subst hx; simp [callWrites, callPaths]))
  intro k
  rcases h123 k with h | ⟨-, stg, m, hst, hg⟩
  · exact .inl h
  · exact .inr ⟨stg, m, hst, hg⟩

/-- **The lock file exists exactly strictly between the first and the last call, Go's order.** -/
theorem cmdCommitGoT_lock_window {c : CmdCfg κ} {strat : Strat} (g : Good c.cfg.ctx) {emp : κ}
    (hemp : ∀ x, c.isEmp x = true → x = emp) {targets : List Bytes} {w w' : World κ}
    {calls : List (Call κ)} (hu : uniqNode w.ws) (hc : Consistent c.cfg.ctx w.store)
    (h : cmdCommitGoT c strat targets w = .ok (w', calls)) :
    2 ≤ calls.length ∧ calls.head? = some (.createExcl .lock) ∧ calls.getLast? = some (.unlink .lock) ∧
    ∀ k, (replay emp (fsOfWorld c w) (calls.take k)).get .lock =
      if 0 < k ∧ k < calls.length then some (.file emp 0o600) else none := by
  obtain ⟨segs, rfl, hinv, -⟩ := cmdCommitGoT_run g hemp hu hc h
  refine ⟨by simp, by simp, List.getLast?_concat, fun k => ?_⟩
  have hassoc : [Call.createExcl P.lock] ++ flatSegs segs ++ [Call.unlink P.lock] =
      Call.createExcl P.lock :: (flatSegs segs ++ [Call.unlink P.lock]) := by simp
  rw [hassoc, lock_window emp _ _ (fsOfWorld_get_lock c w) hinv.noLock k]
  have : (Call.createExcl P.lock :: (flatSegs segs ++ [Call.unlink P.lock])).length =
      (flatSegs segs).length + 2 := by simp
  rw [this]

/-- **After the last call, Go's order**: regular files of the final logical workspace in place, no temp
file left, lock gone. -/
theorem cmdCommitGoT_final {c : CmdCfg κ} {strat : Strat} (g : Good c.cfg.ctx) {emp : κ}
    (hemp : ∀ x, c.isEmp x = true → x = emp) {targets : List Bytes} {w w' : World κ}
    {calls : List (Call κ)} (hu : uniqNode w.ws) (hc : Consistent c.cfg.ctx w.store)
    (h : cmdCommitGoT c strat targets w = .ok (w', calls)) :
    Rel w'.ws (replay emp (fsOfWorld c w) calls) ∧
      StageTmpFree (replay emp (fsOfWorld c w) calls) ∧
      (replay emp (fsOfWorld c w) calls).get .lock = none := by
  have hlock := (cmdCommitGoT_lock_window g hemp hu hc h).2.2.2 calls.length
  rw [List.take_length] at hlock
  simp only [Nat.lt_irrefl, and_false, if_false] at hlock
  obtain ⟨segs, rfl, hinv, -⟩ := cmdCommitGoT_run g hemp hu hc h
  have hun : ∀ x ∈ ([Call.unlink P.lock] : List (Call κ)), ∀ p ∈ callWrites x,
      (∀ q, p ≠ .ws q) ∧ ∀ k, p ≠ .ctmp k := by
    intro x hx p hp
    simp at hx; subst hx
    simp [callWrites, callPaths] at hp; subst hp
    simp
  refine ⟨?_, ?_, hlock⟩
  · have hrel := hinv.rel
    simp only at hrel
    rw [← replay_append] at hrel
    rw [replay_append]
    exact Rel.frame hrel emp _ hun
  · have htf := hinv.tmpFree
    rw [← replay_append] at htf
    rw [replay_append]
    intro sp
    rw [replay_get_frame emp _ _ _ (by intro x hx; simp at hx; subst hx; simp [callWrites, callPaths])]
    exact htf sp

/-! ## non-vacuity: the order differs from `cmdCommitT` with two targets, the theorems apply to both -/

namespace ExampleCmd
open Dud Dud.Sys Dud.Example

/-- two independent stages: with no target each is a target of its own -/
def stageC : Stage := { cmd := [3], outputs := [{ path := [99] }] }
def w2 : World K :=
  { ws := .dir [([98], .file (.raw "o")), ([99], .file (.raw "i"))],
    idx := [([2], { cmd := [2], outputs := [{ path := [98] }] }), ([3], stageC)] }

theorem w2_uniq : uniqNode w2.ws := by simp [w2, uniqNode, uniqList]
theorem w2_consistent (cr : Bool) : Consistent (cc cr).cfg.ctx w2.store := by
  intro d o h; simp [w2, Store.get, alookup] at h

def goCallsOf (w : World K) (strat : Strat) (cr : Bool) (ts : List Bytes) : List (Call K) :=
  match cmdCommitGoT (cc cr) strat ts w with
  | .ok (_, calls) => calls
  | .error _ => []

def drvCallsOf (w : World K) (strat : Strat) (cr : Bool) (ts : List Bytes) : List (Call K) :=
  match cmdCommitT (cc cr) strat ts w with
  | .ok (_, calls) => calls
  | .error _ => []

/-- the stage file of the first target is written before the artifact of the second target is touched
(Go's order), after it in the driver's order; same multiset of calls -/
example : (goCallsOf w2 .link true []).length = 30 := by decide +kernel
example : (drvCallsOf w2 .link true []).length = 30 := by decide +kernel

theorem goCallsOf_ne_nil : goCallsOf w2 .link true [] ≠ [] := by decide +kernel

example :
    ∃ w' calls, cmdCommitGoT (cc true) .link [] w2 = .ok (w', calls) ∧ 10 < calls.length ∧
      (∀ k, Safe ctx (trackedOf [] w2.ws) (replay Example.emp (fsOfWorld (cc true) w2) (calls.take k))) ∧
      (∀ sp k, (replay Example.emp (fsOfWorld (cc true) w2) (calls.take k)).get (.stageFile sp)
            = (fsOfWorld (cc true) w2).get (.stageFile sp) ∨
          ∃ stg m, (replay Example.emp (fsOfWorld (cc true) w2) (calls.take k)).get (.stageFile sp)
              = some (.file (encStage stg) m)) := by
  have hne := goCallsOf_ne_nil
  unfold goCallsOf at hne
  cases hT : cmdCommitGoT (cc true) .link [] w2 with
  | error e => rw [hT] at hne; exact absurd rfl hne
  | ok v =>
    obtain ⟨w', calls⟩ := v
    have hlen : (goCallsOf w2 .link true []).length = 30 := by decide +kernel
    unfold goCallsOf at hlen
    rw [hT] at hlen
    simp only at hlen
    exact ⟨w', calls, rfl, by omega,
      cmdCommitGoT_crash_safe (c := cc true) good Example.hemp w2_uniq (w2_consistent true) hT,
      fun sp => cmdCommitGoT_stage_files_never_torn (c := cc true) good Example.hemp w2_uniq
        (w2_consistent true) hT sp⟩

theorem w2_keys : (w2.idx.map (·.1)).Nodup := by decide

/-- … and, the stage paths being distinct, every stage file shows old or FINAL new at every prefix -/
example :
    ∃ w' calls, cmdCommitGoT (cc true) .link [] w2 = .ok (w', calls) ∧
      ∀ sp k, (replay Example.emp (fsOfWorld (cc true) w2) (calls.take k)).get (.stageFile sp)
            = (fsOfWorld (cc true) w2).get (.stageFile sp) ∨
          ∃ stg m, alookup w'.idx sp = some stg ∧
            (replay Example.emp (fsOfWorld (cc true) w2) (calls.take k)).get (.stageFile sp)
              = some (.file (encStage stg) m) := by
  have hne := goCallsOf_ne_nil
  unfold goCallsOf at hne
  cases hT : cmdCommitGoT (cc true) .link [] w2 with
  | error e => rw [hT] at hne; exact absurd rfl hne
  | ok v =>
    obtain ⟨w', calls⟩ := v
    exact ⟨w', calls, rfl, fun sp => cmdCommitGoT_stage_files_atomic (c := cc true) good Example.hemp w2_uniq
      (w2_consistent true) w2_keys hT sp⟩

def showCalls (l : List (Call K)) : String := "; ".intercalate (l.map Example.showCall)

#eval showCalls (goCallsOf w2 .link true [])
#eval showCalls (drvCallsOf w2 .link true [])
-- one target: equal
#eval showCalls (goCallsOf w0 .link false [[2]]) == showCalls (drvCallsOf w0 .link false [[2]])

end ExampleCmd

#print axioms cmdCommitGoT_refines
#print axioms cmdCommitGoT_single
#print axioms cmdCommitGoT_run
#print axioms cmdCommitGoT_crash_safe
#print axioms cmdCommitGoT_crash_safe_below
#print axioms cmdCommitGoT_stage_files_never_torn
#print axioms cmdCommitGoT_stage_files_atomic
#print axioms cmdCommitGoT_lock_window
#print axioms cmdCommitGoT_final

end Dud.Sys
