import DudModel.Props.C06
import DudModel.Props.C02
/-!
# C06 at the world level — `dud checkout` keeps the whole workspace

`Props/C06.lean` proves the frame property for the node found at one artifact's path.  This file
lifts it through the workspace addressing (`getPath` / `setPath`, including the directories
`os.MkdirAll` creates on the way to an artifact), through the outputs of a stage
(`checkoutArts`), and through the index traversal of `cmdCheckout`, for every index (cyclic ones
included: a refused traversal is an error), every target list, both strategies and
`--single-stage`:

  `cmdCheckout … w = .ok w'  →  Keeps ctx w.store strat w.ws w'.ws ∧ w'.store = w.store`

`Keeps` (FrameSpec.lean) on the workspace ROOT is recursive, so the statement speaks about every
pre-existing entry at every depth, inside and outside the artifacts: it is unchanged, except that
under the copy strategy a link resolving to a cache object may have become a regular file with
exactly that object's bytes; no entry is removed, reordered or replaced, directories only gain
entries.  No hypothesis on the index (overlapping outputs, shared paths, unknown owners) is needed.

Not covered here: the state after a FAILED checkout (the logical model returns no world on error;
the entry "left intact" on failure is `checkoutFile_blocked` + the S1 oracle on the implementation).
-/
namespace Dud

variable {κ : Type}

/-- **addressing.**  Writing `v` at path `p` keeps the whole tree, provided `v` keeps whatever was
found at `p` (nothing is required when the path was absent: the intermediate directories are then
created, existing ones are entered, entries are replaced at their position or appended). -/
theorem setPath_keeps (ctx : Ctx κ) (s : Store κ) (strat : Strat) :
    ∀ (p : List Name) (ws v ws' : Node κ), setPath ws p v = some ws' →
      (∀ old, getPath ws p = some old → Keeps ctx s strat old v) → Keeps ctx s strat ws ws'
  | [], ws, v, ws', h, hk => by
    simp only [setPath, Option.some.injEq] at h
    subst h
    exact hk ws rfl
  | c :: r, ws, v, ws', h, hk => by
    cases ws with
    | dir es =>
      simp only [setPath] at h
      split at h
      · rename_i n hn
        simp only [Option.some.injEq] at h
        subst h
        unfold Keeps
        refine ⟨_, rfl, KeepsList_setEntry ctx s strat es c n ?_⟩
        intro old hold
        rw [hold, Option.getD_some] at hn
        refine setPath_keeps ctx s strat r old v n hn ?_
        intro o ho
        exact hk o (by simp only [getPath, hold]; exact ho)
      · cases h
    | file _ => simp [setPath] at h
    | link _ => simp [setPath] at h
    | other => simp [setPath] at h

/-- the frame relation of the whole command: same cache, workspace kept -/
def CheckoutFrame (ctx : Ctx κ) (strat : Strat) (w w' : World κ) : Prop :=
  w'.store = w.store ∧ Keeps ctx w.store strat w.ws w'.ws

theorem CheckoutFrame.refl (ctx : Ctx κ) (strat : Strat) (w : World κ) : CheckoutFrame ctx strat w w :=
  ⟨rfl, Keeps_refl ctx _ strat _⟩

theorem CheckoutFrame.trans {ctx : Ctx κ} {strat : Strat} {a b c : World κ}
    (h1 : CheckoutFrame ctx strat a b) (h2 : CheckoutFrame ctx strat b c) : CheckoutFrame ctx strat a c := by
  obtain ⟨s1, k1⟩ := h1
  obtain ⟨s2, k2⟩ := h2
  rw [s1] at s2 k2
  exact ⟨s2, Keeps_trans ctx a.store strat _ _ _ k1 k2⟩

/-- **one artifact in the world.** -/
theorem checkoutArtW_frameW (cfg : Cfg κ) (strat : Strat) (a : Art) (w w' : World κ)
    (h : checkoutArtW cfg strat a w = .ok w') : CheckoutFrame cfg.ctx strat w w' := by
  unfold checkoutArtW at h
  dsimp only at h
  split at h
  · cases h
  · simp only [Except.ok.injEq] at h; subst h; exact .refl _ _ _
  · rename_i n hn
    split at h
    · simp only [Except.ok.injEq] at h; subst h; exact .refl _ _ _
    · split at h
      · cases h
      · rename_i ws' hsp
        simp only [Except.ok.injEq] at h; subst h
        refine ⟨rfl, setPath_keeps cfg.ctx w.store strat _ _ _ _ hsp ?_⟩
        intro old hold
        rw [hold] at hn
        obtain ⟨n', hn', hk⟩ := checkoutArt_frame hn
        simp only [Option.some.injEq] at hn'
        subst hn'
        exact hk

theorem checkoutArts_frameW (cfg : Cfg κ) (strat : Strat) : ∀ (as : List Art) (w w' : World κ),
    checkoutArts cfg strat as w = .ok w' → CheckoutFrame cfg.ctx strat w w'
  | [], w, w', h => by
    simp only [checkoutArts, Except.ok.injEq] at h; subst h; exact .refl _ _ _
  | a :: r, w, w', h => by
    rw [checkoutArts] at h
    split at h
    · cases h
    · rename_i w1 h1
      exact (checkoutArtW_frameW cfg strat a w w1 h1).trans (checkoutArts_frameW cfg strat r w1 w' h)

/-- **one stage.** -/
theorem checkoutAct_frameW (cfg : Cfg κ) (strat : Strat) (sp : Bytes) (w w' : World κ)
    (h : checkoutAct cfg strat sp w = .ok w') : CheckoutFrame cfg.ctx strat w w' := by
  unfold checkoutAct at h
  split at h
  · cases h
  split at h
  · cases h
  · rename_i w1 h1
    simp only [Except.ok.injEq] at h; subst h
    exact checkoutArts_frameW cfg strat _ w w1 h1

/-- **C06, the command.**  A successful `dud checkout [--copy] [--single-stage] [targets]` keeps
every pre-existing workspace entry (see the header) and does not touch the cache. -/
theorem cmdCheckout_keeps_workspace (cfg : Cfg κ) (strat : Strat) (single : Bool) (targets : List Bytes)
    (w w' : World κ) (h : cmdCheckout cfg strat single targets w = .ok w') :
    Keeps cfg.ctx w.store strat w.ws w'.ws ∧ w'.store = w.store := by
  unfold cmdCheckout at h
  split at h
  · cases h
  have := perTarget_visit_rel (CheckoutFrame cfg.ctx strat) (.refl _ _) (fun _ _ _ => .trans)
    (checkoutTrav cfg strat) (checkoutAct_frameW cfg strat) _ _ _ _ (fresh w) w' h
  exact ⟨this.2, this.1⟩

/-- finite-map reading at any path: whatever was found at a path before is found there afterwards,
kept (for a regular file, a foreign link or a special file: literally the same node). -/
theorem Keeps_getPath {ctx : Ctx κ} {s : Store κ} {strat : Strat} :
    ∀ (p : List Name) (ws ws' n : Node κ), Keeps ctx s strat ws ws' → getPath ws p = some n →
      ∃ n', getPath ws' p = some n' ∧ Keeps ctx s strat n n'
  | [], ws, ws', n, hk, h => by
    simp only [getPath, Option.some.injEq] at h; subst h; exact ⟨ws', rfl, hk⟩
  | c :: r, ws, ws', n, hk, h => by
    cases ws with
    | dir es =>
      simp only [getPath] at h
      split at h
      · rename_i m hm
        unfold Keeps at hk
        obtain ⟨es', rfl, hl⟩ := hk
        obtain ⟨m', hm', hkm⟩ := KeepsList_alookup hl hm
        obtain ⟨n', hn', hkn⟩ := Keeps_getPath r m m' n hkm h
        exact ⟨n', by simp only [getPath, hm']; exact hn', hkn⟩
      · cases h
    | file _ => simp [getPath] at h
    | link _ => simp [getPath] at h
    | other => simp [getPath] at h

/-- **C06, per path.**  After a successful checkout, a regular file found anywhere in the workspace
before the command is found at the same path with the same bytes; with the link strategy every
link is unchanged as well. -/
theorem cmdCheckout_keeps_file (cfg : Cfg κ) (strat : Strat) (single : Bool) (targets : List Bytes)
    (w w' : World κ) (h : cmdCheckout cfg strat single targets w = .ok w') (p : List Name) (x : κ)
    (hp : getPath w.ws p = some (.file x)) : getPath w'.ws p = some (.file x) := by
  obtain ⟨n', hn', hk⟩ := Keeps_getPath p _ _ _ (cmdCheckout_keeps_workspace cfg strat single targets w w' h).1 hp
  rw [hn', Keeps_file hk]

theorem cmdCheckout_link_keeps_link (cfg : Cfg κ) (single : Bool) (targets : List Bytes)
    (w w' : World κ) (h : cmdCheckout cfg .link single targets w = .ok w') (p : List Name) (l : Link)
    (hp : getPath w.ws p = some (.link l)) : getPath w'.ws p = some (.link l) := by
  obtain ⟨n', hn', hk⟩ := Keeps_getPath p _ _ _ (cmdCheckout_keeps_workspace cfg .link single targets w w' h).1 hp
  rw [hn', Keeps_link_strategy hk]

/-- … and with the copy strategy a link either stays or became a regular file holding exactly the
bytes of the cache object it resolved to. -/
theorem cmdCheckout_copy_link (cfg : Cfg κ) (single : Bool) (targets : List Bytes)
    (w w' : World κ) (h : cmdCheckout cfg .copy single targets w = .ok w') (p : List Name) (d : Digest)
    (hp : getPath w.ws p = some (.link (.obj d))) :
    getPath w'.ws p = some (.link (.obj d)) ∨
      ∃ o, w.store.get d = some o ∧ getPath w'.ws p = some (.file (o.bytes cfg.ctx)) := by
  obtain ⟨n', hn', hk⟩ := Keeps_getPath p _ _ _ (cmdCheckout_keeps_workspace cfg .copy single targets w w' h).1 hp
  unfold Keeps at hk
  rcases hk with rfl | ⟨_, o, ho, rfl⟩
  · exact .inl hn'
  · exact .inr ⟨o, ho, hn'⟩

/-! ## Non-vacuity: a successful copy checkout over a workspace that already holds things -/
namespace C06Example
open ToyGood

/-- an unrelated file, the output as a link to its cache object, a dangling foreign link -/
def w : World String :=
  { ws := .dir [([107], .file "keep"), ([100], .link (.obj "abcdata")), ([108], .link (.foreign false))],
    store := [("abcdata", .blob "data")],
    idx := [([1], { cmd := [1], outputs := [{ path := [100], sum := "abcdata" }] })] }

def w' : World String :=
  match cmdCheckout cfg .copy false [] w with
  | .ok x => x
  | .error _ => default

theorem checkout_ok : cmdCheckout cfg .copy false [] w = .ok w' := rfl

/-- the link became a copy of the object's bytes, everything else is literally unchanged -/
example : getPath w'.ws [[100]] = some (.file "data") ∧ getPath w'.ws [[107]] = some (.file "keep") ∧
    getPath w'.ws [[108]] = some (.link (.foreign false)) := ⟨rfl, rfl, rfl⟩

example : Keeps cfg.ctx w.store .copy w.ws w'.ws :=
  (cmdCheckout_keeps_workspace cfg .copy false [] w w' checkout_ok).1

/-- a different regular file in the way: the command fails (and the model never reaches a state in
which the file is gone) -/
example : ∃ e, cmdCheckout cfg .copy false []
    { w with ws := .dir [([100], .file "other")] } = .error e := ⟨_, rfl⟩

end C06Example

end Dud

#print axioms Dud.setPath_keeps
#print axioms Dud.cmdCheckout_keeps_workspace
#print axioms Dud.cmdCheckout_keeps_file
#print axioms Dud.cmdCheckout_link_keeps_link
#print axioms Dud.cmdCheckout_copy_link
