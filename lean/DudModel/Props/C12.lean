import DudModel.Lock
/-!
# C12 (lock): the project lock

(a) With `O_CREATE|O_EXCL`, for every number of processes and every interleaving, at most one
process holds the lock, the lock file exists iff somebody holds it, a refused process never touches
it, and when everybody is done the file is gone.  Without `O_EXCL` mutual exclusion fails.

(b) A command that changes to the project root before locking (everything built on `prepare`)
always removes the lock it took.  `dud config get/set` does NOT chdir: run from a sub-directory it
exits non-zero and leaves `<root>/.dud/lock` behind (`config_subdir_leaves_lock`, a defect of the
current code: every later dud command in the project is then refused until the file is removed by
hand).
-/
namespace Dud.Lock

/-! ## (a) protocol -/

theorem count_set_holding (l : List PC) (i : Nat) (h : i < l.length) (a : PC) :
    (l.set i a).count .holding
      = l.count .holding - (if l[i] = .holding then 1 else 0) + (if a = .holding then 1 else 0) := by
  rw [List.count_set h]; simp only [beq_iff_eq]

/-- The invariant: the lock file exists iff exactly one process is holding; otherwise nobody is. -/
def Inv (st : State) : Prop :=
  (st.lockExists = true ∧ st.holdingCount = 1) ∨ (st.lockExists = false ∧ st.holdingCount = 0)

theorem inv_init (N : Nat) : Inv (init N) := by
  right; simp [init, State.holdingCount, List.count_replicate]

theorem stepX_length (excl : Bool) (st : State) (i : Nat) :
    (stepX excl st i).pcs.length = st.pcs.length := by
  unfold stepX
  split
  · rfl
  · split <;> simp
  · simp
  · rfl
  · rfl

theorem runX_length (excl : Bool) (st : State) (sched : List Nat) :
    (runX excl st sched).pcs.length = st.pcs.length := by
  induction sched generalizing st with
  | nil => rfl
  | cons i rest ih => simp only [runX, List.foldl_cons] at ih ⊢; rw [ih, stepX_length]

theorem step_inv (st : State) (i : Nat) (h : Inv st) : Inv (step st i) := by
  unfold step stepX
  split
  · exact h
  · -- idle: tryLock
    rename_i hi
    obtain ⟨hlt, hget⟩ := List.getElem?_eq_some_iff.mp hi
    simp only [Bool.true_and]
    split
    · rename_i hl
      rcases h with ⟨_, hc⟩ | ⟨hf, _⟩
      · left; refine ⟨hl, ?_⟩
        simp only [State.holdingCount] at hc ⊢
        rw [count_set_holding _ _ hlt, hget]; simp [hc]
      · rw [hl] at hf; cases hf
    · rename_i hl
      rcases h with ⟨ht, _⟩ | ⟨_, hc⟩
      · exact absurd ht hl
      · left; refine ⟨rfl, ?_⟩
        simp only [State.holdingCount] at hc ⊢
        rw [count_set_holding _ _ hlt, hget]; simp [hc]
  · -- holding: unlock
    rename_i hi
    obtain ⟨hlt, hget⟩ := List.getElem?_eq_some_iff.mp hi
    have hmem : PC.holding ∈ st.pcs := hget ▸ List.getElem_mem hlt
    have hpos : 0 < st.pcs.count .holding := List.count_pos_iff.mpr hmem
    rcases h with ⟨_, hc⟩ | ⟨_, hc⟩
    · right; refine ⟨rfl, ?_⟩
      simp only [State.holdingCount] at hc ⊢
      rw [count_set_holding _ _ hlt, hget]; simp [hc]
    · simp only [State.holdingCount] at hc; omega
  · exact h
  · exact h

theorem run_inv (st : State) (sched : List Nat) (h : Inv st) : Inv (run st sched) := by
  induction sched generalizing st with
  | nil => exact h
  | cons i rest ih =>
    simp only [run, runX, List.foldl_cons] at ih ⊢
    exact ih _ (step_inv st i h)

/-- **Mutual exclusion.**  For every `N` and every schedule at most one process holds the lock. -/
theorem mutex (N : Nat) (sched : List Nat) : (run (init N) sched).holdingCount ≤ 1 := by
  rcases run_inv _ sched (inv_init N) with ⟨_, h⟩ | ⟨_, h⟩ <;> omega

/-- The lock file exists iff exactly one process holds the lock. -/
theorem lock_iff_holder (N : Nat) (sched : List Nat) :
    (run (init N) sched).lockExists = true ↔ (run (init N) sched).holdingCount = 1 := by
  rcases run_inv _ sched (inv_init N) with ⟨h1, h2⟩ | ⟨h1, h2⟩
  · simp [h1, h2]
  · simp [h1, h2]

/-- A refused process never changes anything (in particular not `lockExists`): `fatal` skips
`unlockProject` on `projectLockedError`.  Holds for both variants of `tryLock`. -/
theorem refused_never_unlock (excl : Bool) (st : State) (i : Nat) (h : st.pc i = .refused) :
    stepX excl st i = st := by
  unfold State.pc at h
  rw [List.getD_eq_getElem?_getD] at h
  unfold stepX
  cases hi : st.pcs[i]? with
  | none => rfl
  | some p =>
    rw [hi] at h; simp only [Option.getD_some] at h; subst h; rfl

/-- When every process has either been refused or finished, the lock file is gone. -/
theorem no_lock_when_all_done (N : Nat) (sched : List Nat)
    (hdone : ∀ i, i < N →
      (run (init N) sched).pc i = .refused ∨ (run (init N) sched).pc i = .finished) :
    (run (init N) sched).lockExists = false := by
  rcases run_inv _ sched (inv_init N) with ⟨_, h2⟩ | ⟨h1, _⟩
  · exfalso
    have hpos : 0 < (run (init N) sched).pcs.count .holding := by
      simp only [State.holdingCount] at h2; omega
    obtain ⟨i, hlt, hget⟩ := List.mem_iff_getElem.mp (List.count_pos_iff.mp hpos)
    have hlen : (run (init N) sched).pcs.length = N := by
      simp [run, runX_length, init]
    have hpc : (run (init N) sched).pc i = .holding := by
      simp [State.pc, List.getD_eq_getElem?_getD, List.getElem?_eq_getElem hlt, hget]
    rcases hdone i (hlen ▸ hlt) with h | h <;> rw [hpc] at h <;> cases h
  · exact h1

/-- **Negative witness.**  Without `O_EXCL` two processes hold the lock at once. -/
theorem mutex_fails_without_excl : (runX false (init 2) [0, 1]).holdingCount = 2 := by decide

/-- ... and then the first unlock removes the file while the other process still holds. -/
theorem lock_iff_holder_fails_without_excl :
    (runX false (init 2) [0, 1, 0]).lockExists = false ∧
    (runX false (init 2) [0, 1, 0]).holdingCount = 1 := by decide

/-- **Regenerated-fact obligation.**  `lockProject` opens with `O_CREATE|O_EXCL`. -/
theorem lock_flags_obligation :
    "O_EXCL" ∈ Dud.Facts.lockFlags ∧ "O_CREATE" ∈ Dud.Facts.lockFlags := by decide

/-! ## (b) one command -/

theorem mem_singleton_append_iff (cwd root : List String) :
    (cwd ++ lockRel) ∈ [root ++ lockRel] ↔ cwd = root := by
  simp only [List.mem_singleton]
  exact ⟨List.append_cancel_right, fun h => h ▸ rfl⟩

/-- **Commands built on `prepare`** (they chdir to the root before locking) always release the
lock, from every starting directory and whatever the body does; the exit status is the body's. -/
theorem prepare_commands_release (root cwd : List String) (bodyOk : Bool) :
    runCommand true root cwd bodyOk false = (bodyOk, false) := by
  cases bodyOk <;> simp [runCommand, lockProject, unlockProject, fatal]

/-- Any command started IN the project root releases the lock. -/
theorem root_invocation_releases (chdirs : Bool) (root : List String) (bodyOk : Bool) :
    runCommand chdirs root root bodyOk false = (bodyOk, false) := by
  cases bodyOk <;> cases chdirs <;> simp [runCommand, lockProject, unlockProject, fatal]

/-- A command that finds the lock taken exits non-zero and leaves the lock alone. -/
theorem locked_is_refused (chdirs : Bool) (root cwd : List String) (bodyOk : Bool) :
    runCommand chdirs root cwd bodyOk true = (false, true) := by
  cases chdirs <;> simp [runCommand, lockProject, fatal]

/-- A command that does not chdir, started anywhere but in the root, exits non-zero and leaves
the lock file behind — even when its body succeeded. -/
theorem nochdir_nonroot_leaves_lock (root cwd : List String) (bodyOk : Bool) (h : cwd ≠ root) :
    runCommand false root cwd bodyOk false = (false, true) := by
  have h' : ¬ (cwd ++ lockRel = root ++ lockRel) := fun e => h (List.append_cancel_right e)
  cases bodyOk <;> simp [runCommand, lockProject, unlockProject, fatal, h']

/-- **Negative witness (defect of the current code).**  `dud config get cache` run from
`<root>/sub`: the body succeeds, yet the exit status is non-zero and `<root>/.dud/lock` stays. -/
theorem config_subdir_leaves_lock (root : List String) :
    runCommand false root (root ++ ["sub"]) true false = (false, true) :=
  nochdir_nonroot_leaves_lock root _ true (by
    intro h
    have := congrArg List.length h
    simp at this)

/-- **Regenerated-fact obligations** for the shape of the model: the lock is created at the
absolute `filepath.Join(rootDir, lockPath)`, removed at the relative `lockPath`, removal is guarded
by `projectLocked`, and `fatal` skips the unlock on `projectLockedError`. -/
theorem lock_path_obligation :
    Dud.Facts.lockPathExpr = "filepath.Join($param0, lockPath)" ∧
    Dud.Facts.unlockPathExpr = "lockPath" ∧ Dud.Facts.lockPath = ".dud/lock" ∧
    Dud.Facts.unlockGuarded = true ∧ Dud.Facts.fatalSkipsUnlockOnLocked = true ∧
    "os.Chdir" ∈ Dud.Facts.prepareCalls := by decide

theorem cmdChdirs_prepare : cmdChdirs true = true := by decide

/-- With the facts extracted from the current sources the `config` sub-commands do not chdir … -/
theorem cmdChdirs_config_current : cmdChdirs false = true := by decide

/-- With the regenerated fact `configChdirs = true` (the `config` sub-commands now change to the
project root before locking, like `prepare`), EVERY lock-taking command releases the lock from
every working directory and whatever its body does. If the Go sources lose the `os.Chdir`, the
fact flips, `cmdChdirs_config_current` stops building and `config_subdir_leaves_lock` describes
the behaviour again. -/
theorem all_commands_release (usesPrepare : Bool) (root cwd : List String) (bodyOk : Bool) :
    runCommand (cmdChdirs usesPrepare) root cwd bodyOk false = (bodyOk, false) := by
  have h : cmdChdirs usesPrepare = true := by cases usesPrepare <;> decide
  rw [h]; exact prepare_commands_release root cwd bodyOk

/-- Every `prepare`-based command is fine with the current facts. -/
theorem prepare_current (root cwd : List String) (bodyOk : Bool) :
    runCommand (cmdChdirs true) root cwd bodyOk false = (bodyOk, false) := by
  rw [cmdChdirs_prepare]; exact prepare_commands_release root cwd bodyOk

/-! ## Non-vacuity -/

-- three processes, interleaved: 0 locks, 1 refused, 0 unlocks, 2 locks; 1 tries to step again
example : run (init 3) [0, 1, 0, 2, 1] = ⟨[.finished, .refused, .holding], true⟩ := by decide
example : (run (init 3) [0, 1, 0, 2, 1]).holdingCount = 1 ∧
    (run (init 3) [0, 1, 0, 2, 1]).lockExists = true := by decide
-- hypothesis of `refused_never_unlock` is reachable
example : (run (init 3) [0, 1]).pc 1 = .refused ∧ (run (init 3) [0, 1]).lockExists = true := by
  decide
-- hypothesis of `no_lock_when_all_done` is satisfiable on a run where the lock WAS taken
example : ∀ i, i < 3 → (run (init 3) [0, 1, 2, 0]).pc i = .refused ∨
    (run (init 3) [0, 1, 2, 0]).pc i = .finished := by decide
example : (run (init 3) [0, 1, 2, 0]).lockExists = false :=
  no_lock_when_all_done 3 _ (by decide)
-- (b): from a sub-directory a prepare command releases, config does not; both lock paths differ
example : runCommand true ["home", "p"] ["home", "p", "data", "x"] false false = (false, false) := by
  decide
example : runCommand true ["home", "p"] ["home", "p", "data", "x"] true false = (true, false) := by
  decide
example : runCommand false ["home", "p"] ["home", "p", "sub"] true false = (false, true) := by decide
example : runCommand false ["home", "p"] ["home", "p"] true false = (true, false) := by decide
example : runCommand true ["home", "p"] ["home", "p", "sub"] true true = (false, true) := by decide

end Dud.Lock

#print axioms Dud.Lock.mutex
#print axioms Dud.Lock.lock_iff_holder
#print axioms Dud.Lock.refused_never_unlock
#print axioms Dud.Lock.no_lock_when_all_done
#print axioms Dud.Lock.mutex_fails_without_excl
#print axioms Dud.Lock.lock_iff_holder_fails_without_excl
#print axioms Dud.Lock.lock_flags_obligation
#print axioms Dud.Lock.prepare_commands_release
#print axioms Dud.Lock.root_invocation_releases
#print axioms Dud.Lock.locked_is_refused
#print axioms Dud.Lock.nochdir_nonroot_leaves_lock
#print axioms Dud.Lock.config_subdir_leaves_lock
#print axioms Dud.Lock.lock_path_obligation
#print axioms Dud.Lock.cmdChdirs_prepare
#print axioms Dud.Lock.cmdChdirs_config_current
#print axioms Dud.Lock.all_commands_release
#print axioms Dud.Lock.prepare_current
