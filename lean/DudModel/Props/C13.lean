import DudModel.Lemmas.Pool
import DudModel.Generated.Facts

/-!
# C13 — the worker pools terminate, process every entry once, and leave no goroutine behind

Model: `DudModel/Pool.lean`.  Helpers: `DudModel/Lemmas/Pool.lean`.

* §1 one instance: invariant, progress (never needing the shared pool), termination measure,
  completeness, all runs terminate;
* §2 why `0 < maxDedicatedWorkers` matters, tied to the regenerated facts;
* §3 errors and cancellation;
* §4 nesting (trees of instances sharing the shared pool);
* §5 the result does not depend on the order in which workers finish;
* §6 non-vacuity and axioms.
-/
namespace Dud.Pool

/-! ## 1. One instance -/

theorem wf_step {D : Nat} {p q : P} (h : Step D p q) (w : WF p) : WF q := by
  cases h with | mk l he => exact wf_fire he w

/-- Termination measure: every step (of the instance or of its environment) decreases `mu`. -/
theorem mu_decreases {D : Nat} {p q : P} (h : Step D p q) (w : WF p) : mu q < mu p := by
  cases h with | mk l he => exact mu_fire he w

/-- Progress: with at least one dedicated token, a non-terminal well-formed state can always make
    a *core* step — one that exists in all three Go variants and needs neither a shared token
    (`spawnS`), nor an ancestor (`cancel`), nor an I/O error (`fail*`). -/
theorem progress {D : Nat} {p : P} (hD : 0 < D) (w : WF p) (nt : ¬ Terminal p) :
    ∃ l, l.core = true ∧ l ≠ .spawnS ∧ enabled D l p = true := by
  cases hn : next D p with
  | none => exact absurd hn (next_ne_none hD w nt)
  | some l =>
    have hc := next_core hn
    exact ⟨l, hc, (by intro e; rw [e] at hc; cases hc), next_enabled w hn⟩

/-- Progress in the form of the prototype. -/
theorem progress_step {D : Nat} {p : P} (hD : 0 < D) (w : WF p) (nt : ¬ Terminal p) :
    ∃ q, Step D p q := by
  obtain ⟨l, _, _, he⟩ := progress hD w nt
  exact ⟨_, .mk l he⟩

/-- The same as a statement about the executable scheduler. -/
theorem next_total {D : Nat} {p : P} (hD : 0 < D) (w : WF p) (nt : ¬ Terminal p) :
    ∃ l, next D p = some l ∧ l.core = true ∧ enabled D l p = true := by
  cases hn : next D p with
  | none => exact absurd hn (next_ne_none hD w nt)
  | some l => exact ⟨l, rfl, next_core hn, next_enabled w hn⟩

/-- If no core step is enabled the instance has returned. -/
theorem stuck_core_terminal {D : Nat} {p : P} (hD : 0 < D) (w : WF p)
    (stuck : ∀ l, l.core = true → enabled D l p = false) : Terminal p := by
  apply Classical.byContradiction
  intro nt
  obtain ⟨l, hc, _, he⟩ := progress hD w nt
  rw [stuck l hc] at he; cases he

/-- Exactly once, at the level of counts: a run that ends without error fed every entry to a worker
    and collected every result. -/
theorem terminal_complete {p : P} (w : WF p) (t : Terminal p) (nf : p.failed = false) :
    p.fed = p.n ∧ p.got = p.n := by
  obtain ⟨_, _, tb, tf, _⟩ := t
  have h2 := w.fed_eq nf
  have h9 := w.feed_stop
  have : p.fed = p.n := by
    rcases tf with h | h
    · exact h
    · rw [h9 h] at nf; cases nf
  omega

/-- … and no result is collected twice, no entry fed twice, at any time. -/
theorem counts_bounded {p : P} (w : WF p) : p.got ≤ p.fed ∧ p.fed ≤ p.n ∧ p.spawned ≤ p.n := by
  have := w.got_busy_le; have := w.fed_le; have := w.spawned_le
  omega

theorem steps_wf_mu {D : Nat} {p q : P} {k : Nat} (w : WF p) (h : Steps D p k q) :
    WF q ∧ k + mu q ≤ mu p :=
  Run.bound (inv := WF) (m := mu) (fun _ _ w s => wf_step s w) (fun _ _ w s => mu_decreases s w) w h

/-- Every sequence of steps from `init n` has length ≤ `mu (init n) = 6 n + 4`, and a run that
    cannot be extended (even only by core steps) ends in a `Terminal` state. -/
theorem all_runs_terminate {D n : Nat} {c : Bool} {k : Nat} {q : P} (h : Steps D (init n c) k q) :
    k ≤ mu (init n c) ∧ mu (init n c) = 6 * n + 4 ∧
    (0 < D → (∀ r, ¬ Step D q r) → Terminal q) := by
  obtain ⟨w, hk⟩ := steps_wf_mu (wf_init n c) h
  refine ⟨by omega, mu_init n c, fun hD stuck => ?_⟩
  apply Classical.byContradiction
  intro nt
  obtain ⟨r, hr⟩ := progress_step hD w nt
  exact stuck r hr

/-- There is no infinite run. -/
theorem no_infinite_run {D n : Nat} {c : Bool} (f : Nat → P) (h0 : f 0 = init n c) :
    ¬ ∀ i, Step D (f i) (f (i + 1)) :=
  Run.no_infinite (inv := WF) (m := mu) (fun _ _ w s => wf_step s w)
    (fun _ _ w s => mu_decreases s w) f (h0 ▸ wf_init n c)

/-- The executable scheduler (`runToEnd`, usable by a driver) reaches, within `6 n + 4` steps, a
    terminal state in which every entry was fed and collected. -/
theorem runToEnd_init {D : Nat} (hD : 0 < D) (n : Nat) (c : Bool) :
    Terminal (runToEnd D (6 * n + 4) (init n c)) ∧ WF (runToEnd D (6 * n + 4) (init n c)) ∧
    (runToEnd D (6 * n + 4) (init n c)).failed = false ∧
    (runToEnd D (6 * n + 4) (init n c)).fed = n ∧ (runToEnd D (6 * n + 4) (init n c)).got = n := by
  obtain ⟨t, w⟩ :=
    runToEnd_terminal hD (6 * n + 4) (init n c) (wf_init n c) (by rw [mu_init]; omega)
  obtain ⟨hn, hf⟩ := runToEnd_n_failed D (6 * n + 4) (init n c)
  have hf' : (runToEnd D (6 * n + 4) (init n c)).failed = false := hf
  have := terminal_complete w t hf'
  rw [hn] at this
  exact ⟨t, w, hf', this⟩

/-! ## 2. Why the dedicated pool must not be empty -/

/-- With `D = 0` and a shared pool that never grants a token (all `S` tokens are held by ancestors
    waiting for this very directory) the instance is stuck in a non-terminal state: the only enabled
    steps are those of the environment (`spawnS`: a shared token; `cancel`: an ancestor fails), and
    no core step is enabled. -/
theorem deadlock_without_dedicated :
    WF (init 1) ∧ ¬ Terminal (init 1) ∧
    (∀ l, enabled 0 l (init 1) = true → l = .spawnS ∨ l = .cancel) ∧
    (∀ l, l.core = true → enabled 0 l (init 1) = false) ∧
    next 0 (init 1) = none := by
  refine ⟨wf_init 1 true, by decide, ?_, ?_, by decide⟩ <;> intro l <;> cases l <;> decide

/-- The same in every variant and for every non-empty directory. -/
theorem deadlock_without_dedicated_general (n : Nat) (c : Bool) (hn : 0 < n) :
    ¬ Terminal (init n c) ∧ ∀ l, l.core = true → enabled 0 l (init n c) = false := by
  constructor
  · intro t; exact absurd t.1 (by simp [init])
  · intro l hl
    cases l <;> first
      | (exact absurd hl (by decide))
      | (simp [enabled, init]; done)
      | (have := Nat.ne_of_lt hn; simp [enabled, init, this])

/-- The obligation on the Go constant (regenerated by factgen from `src/cache/cache.go`). -/
theorem dedicated_obligation : 0 < Dud.Facts.maxDedicatedWorkers := by decide

/-- The three spawn loops select on the shared pool, the dedicated pool and `ctx.Done`, and the three
    dedicated pools have capacity `maxDedicatedWorkers`. -/
theorem spawn_select_obligation :
    ("$param <- struct{}{}" ∈ Dud.Facts.commitSpawnSelect ∧
     "$local<make> <- struct{}{}" ∈ Dud.Facts.commitSpawnSelect ∧
     "<-$param.Done()" ∈ Dud.Facts.commitSpawnSelect) ∧
    ("$param <- struct{}{}" ∈ Dud.Facts.checkoutSpawnSelect ∧
     "$local<make> <- struct{}{}" ∈ Dud.Facts.checkoutSpawnSelect ∧
     "<-$param.Done()" ∈ Dud.Facts.checkoutSpawnSelect) ∧
    ("$param <- struct{}{}" ∈ Dud.Facts.statusSpawnSelect ∧
     "$local<make> <- struct{}{}" ∈ Dud.Facts.statusSpawnSelect ∧
     "<-$param.Done()" ∈ Dud.Facts.statusSpawnSelect) ∧
    Dud.Facts.dedicatedCaps =
      ["maxDedicatedWorkers", "maxDedicatedWorkers", "maxDedicatedWorkers"] := by
  decide

/-- The model instantiated with the Go constant makes progress. -/
theorem progress_with_go_constant {p : P} (w : WF p) (nt : ¬ Terminal p) :
    ∃ l, l.core = true ∧ l ≠ .spawnS ∧ enabled Dud.Facts.maxDedicatedWorkers l p = true :=
  progress dedicated_obligation w nt

/-! ## 3. Errors and cancellation -/

theorem failed_persists {D : Nat} {p q : P} (h : Step D p q) (hf : p.failed = true) :
    q.failed = true := by
  cases h with
  | mk l he => cases l <;> first | exact hf | rfl

/-- Once the context is cancelled, a non-terminal state can always move, by a core step that is not
    even a spawn: no token of any pool is needed (so no hypothesis on `D`). -/
theorem error_progress (D : Nat) {p : P} (w : WF p) (hf : p.failed = true) (nt : ¬ Terminal p) :
    ∃ l, l.core = true ∧ l ≠ .spawnS ∧ l ≠ .spawnD ∧ enabled D l p = true := by
  have hnn : next D p ≠ none ∧ next D p ≠ some .spawnD := by
    obtain ⟨h1, h2, h3, h4, h5, h6, h7, h8, h9, h10⟩ := w
    unfold Terminal at nt
    unfold next
    by_cases hb : 0 < p.busy
    · simp only [hb, if_true]; grind
    by_cases hi : 0 < p.idle
    · simp only [hb, hi, if_true, if_false]; grind
    simp only [hb, hi, if_false, hf]
    cases hl : p.loopDone with
    | false => simp only [if_true]; grind
    | true => simp only [Bool.true_eq_false, if_false]; grind
  cases hn : next D p with
  | none => exact absurd hn hnn.1
  | some l =>
    have hc := next_core hn
    exact ⟨l, hc, (by intro e; rw [e] at hc; cases hc), (by intro e; rw [e] at hn; exact hnn.2 hn),
      next_enabled w hn⟩

/-- After a failure every run is finite: at most `mu p` more steps, and the failure persists. -/
theorem error_terminates {D : Nat} {p q : P} {k : Nat} (w : WF p) (hf : p.failed = true)
    (h : Steps D p k q) : k + mu q ≤ mu p ∧ q.failed = true := by
  refine ⟨(steps_wf_mu w h).2, ?_⟩
  induction h with
  | refl => exact hf
  | cons s _ ih => exact ih (wf_step s w) (failed_persists s hf)

/-- A failing run that cannot be extended has returned. -/
theorem error_maximal_terminal {D : Nat} {p : P} (w : WF p) (hf : p.failed = true)
    (stuck : ∀ r, ¬ Step D p r) : Terminal p := by
  apply Classical.byContradiction
  intro nt
  obtain ⟨l, _, _, _, he⟩ := error_progress D w hf nt
  exact stuck _ (.mk l he)

/-- No goroutine outlives the call, failed or not: when `errGroup.Wait` returns every spawned worker
    has exited, every dedicated token is released, and the spawn loop, feeder and collector have
    returned. -/
theorem terminal_no_goroutine_left {p : P} (w : WF p) (t : Terminal p) :
    p.idle = 0 ∧ p.busy = 0 ∧ p.exited = p.spawned ∧ p.ded = 0 ∧ p.loopDone = true := by
  obtain ⟨tl, ti, tb, _, _⟩ := t
  have := w.workers; have := w.ded_le
  exact ⟨ti, tb, by omega, by omega, tl⟩

/-! ## 4. Nesting -/

/-- The key fact behind nesting: a nested instance can always move by itself, whatever the shared
    pool does, because the scheduler `next` never proposes `spawnS` (nor any non-core step). -/
theorem child_progress_independent_of_shared {D : Nat} {p : P} (hD : 0 < D) (w : WF p)
    (nt : ¬ Terminal p) :
    ∃ l, next D p = some l ∧ l.core = true ∧ l ≠ .spawnS ∧ l ≠ .cancel ∧ enabled D l p = true := by
  obtain ⟨l, hn, hc, he⟩ := next_total hD w nt
  exact ⟨l, hn, hc, (by intro e; rw [e] at hc; cases hc), (by intro e; rw [e] at hc; cases hc), he⟩

/-- Termination of a whole tree.  `level D coll ok d` is the composite system of depth `d` (every
    directory node carries its own `P` state, its pending entries and the running nested instances;
    steps are `DStep`).  `ok` is any set of permitted labels containing the needed ones — in
    particular the set without `spawnS`, i.e. a shared pool that never grants a token.
    For every directory `dir cs`:
    * every run from the initial state has at most `cost (dir cs)` steps;
    * there is no infinite run;
    * with `D ≥ 1` at every level, a run that cannot be extended has terminated. -/
theorem nested_terminates {D : Nat} (coll : Bool) (ok : Label → Bool) (d : Nat) (cs : List Shape) :
    (∀ k t, Run (level D coll ok d).step ((level D coll ok d).start cs) k t →
        k ≤ cost (.dir cs)) ∧
    (∀ f : Nat → (level D coll ok d).σ, f 0 = (level D coll ok d).start cs →
        ¬ ∀ i, (level D coll ok d).step (f i) (f (i + 1))) ∧
    (0 < D → (∀ l, l.needed = true → ok l = true) →
      ∀ k t, Run (level D coll ok d).step ((level D coll ok d).start cs) k t →
        (∀ t', ¬ (level D coll ok d).step t t') → (level D coll ok d).term t) := by
  have safe := level_safe D coll ok d
  refine ⟨fun k t h => ?_, fun f h0 => ?_, fun hD hok k t h stuck => ?_⟩
  · have := (Run.bound safe.inv_step safe.dec (safe.inv_start cs) h).2
    have := level_mu_start_le D coll ok d cs
    omega
  · exact Run.no_infinite safe.inv_step safe.dec f (h0 ▸ safe.inv_start cs)
  · have hi := (Run.bound safe.inv_step safe.dec (safe.inv_start cs) h).1
    apply Classical.byContradiction
    intro nt
    obtain ⟨t', ht'⟩ := (level_good hD coll hok d).prog t hi nt
    exact stuck t' ht'

/-- Instance: the shared pool never grants a token, nobody cancels from outside (`ok` = the needed
    labels only).  The tree still terminates: the dedicated token of every directory suffices. -/
theorem nested_terminates_shared_exhausted {D : Nat} (hD : 0 < D) (coll : Bool) (d : Nat)
    (cs : List Shape) (k : Nat) (t : (level D coll Label.needed d).σ)
    (h : Run (level D coll Label.needed d).step ((level D coll Label.needed d).start cs) k t) :
    k ≤ cost (.dir cs) ∧
    ((∀ t', ¬ (level D coll Label.needed d).step t t') → (level D coll Label.needed d).term t) :=
  ⟨(nested_terminates coll _ d cs).1 k t h,
   (nested_terminates coll _ d cs).2.2 hD (fun _ h => h) k t h⟩

/-- Some run of the tree does reach termination (the termination theorem is not vacuous). -/
theorem nested_reaches_terminal {D : Nat} (hD : 0 < D) (coll : Bool) (ok : Label → Bool)
    (hok : ∀ l, l.needed = true → ok l = true) (d : Nat) (cs : List Shape) :
    ∃ k t, Run (level D coll ok d).step ((level D coll ok d).start cs) k t ∧
      (level D coll ok d).term t :=
  have g := level_good hD coll hok d
  have ⟨k, t, hr, ht, _⟩ := g.reaches_term _ _ (Nat.le_refl _) (g.inv_start cs)
  ⟨k, t, hr, ht⟩

/-- The bound `cost` is exact for the measure as soon as the tower is as deep as the tree: no
    sub-directory is treated as atomic. -/
theorem nested_cost_exact (D : Nat) (coll : Bool) (ok : Label → Bool) (cs : List Shape) :
    (level D coll ok (depth (.dir cs))).mu ((level D coll ok (depth (.dir cs))).start cs) =
      cost (.dir cs) :=
  level_mu_start_eq D coll ok _ cs (Nat.le_refl _)

/-- When the call for a directory returns, none of its nested calls is still running, and if it did
    not fail every entry was taken. -/
theorem nested_terminal_clean {C : Sys} {s : DState C.σ} (i : DInv C s) (t : Terminal s.p) :
    s.act = [] ∧ s.p.exited = s.p.spawned ∧ (s.p.failed = false → s.pend = []) := by
  obtain ⟨w, hp, ha, _⟩ := i
  have hb : s.p.busy = 0 := t.2.2.1
  refine ⟨List.eq_nil_of_length_eq_zero (by omega), (terminal_no_goroutine_left w t).2.2.1, ?_⟩
  intro nf
  have := (terminal_complete w t nf).1
  exact List.eq_nil_of_length_eq_zero (by omega)

/-! ## 5. The result does not depend on the order in which workers finish -/

/-- Content-addressed puts commute as maps. -/
theorem lookup_put_comm (k1 k2 : String) (v1 v2 : Nat) (m : List (String × Nat))
    (h : k1 ≠ k2 ∨ (k1 = k2 ∧ v1 = v2)) (k : String) :
    lookup k (put k1 v1 (put k2 v2 m)) = lookup k (put k2 v2 (put k1 v1 m)) := by
  simp only [lookup_put]
  rcases h with h | ⟨h, hv⟩
  · by_cases a : k = k1
    · have : k ≠ k2 := fun e => h (a.symm.trans e)
      simp [a, h]
    · simp [a]
  · subst h; subst hv; rfl

/-- The store after a list of puts is, as a map: the value written for written keys (unambiguous by
    content addressing), the old value for the others. -/
theorem lookup_putAll (l : List (String × Nat)) (hc : Consistent l) (m : List (String × Nat))
    (k : String) :
    (∀ v, (k, v) ∈ l → lookup k (putAll m l) = some v) ∧
    ((∀ v, (k, v) ∉ l) → lookup k (putAll m l) = lookup k m) :=
  ⟨fun v h => lookup_putAll_of_mem k v l m hc h, lookup_putAll_of_not_mem k l m⟩

/-- Any two orders of the same content-addressed puts give the same map. -/
theorem lookup_foldl_perm {l1 l2 : List (String × Nat)} (hp : l1.Perm l2) (hc : Consistent l1)
    (m : List (String × Nat)) (k : String) :
    lookup k (l1.foldl (fun m kv => put kv.1 kv.2 m) m) =
    lookup k (l2.foldl (fun m kv => put kv.1 kv.2 m) m) := by
  show lookup k (putAll m l1) = lookup k (putAll m l2)
  by_cases hex : ∃ v, (k, v) ∈ l1
  · obtain ⟨v, hv⟩ := hex
    rw [lookup_putAll_of_mem k v l1 m hc hv,
      lookup_putAll_of_mem k v l2 m (hc.perm hp) (hp.mem_iff.1 hv)]
  · have h1 : ∀ v, (k, v) ∉ l1 := fun v hv => hex ⟨v, hv⟩
    have h2 : ∀ v, (k, v) ∉ l2 := fun v hv => hex ⟨v, hp.mem_iff.2 hv⟩
    rw [lookup_putAll_of_not_mem k l1 m h1, lookup_putAll_of_not_mem k l2 m h2]

/-- In particular: the order in which the workers finish (`done`, a permutation of the sequential
    order `seq`) does not change the cache. -/
theorem cache_independent_of_finish_order {seq done : List (String × Nat)} (hp : seq.Perm done)
    (hc : Consistent seq) (m : List (String × Nat)) :
    ∀ k, lookup k (putAll m done) = lookup k (putAll m seq) :=
  fun k => (lookup_foldl_perm hp hc m k).symm

/-! ## 6. Non-vacuity -/

/-- commit/status, one dedicated worker, two entries: an explicit schedule reaches `Terminal`. -/
theorem example_dedicated_only :
    runLabels 1 [.spawnD, .take, .deliver, .take, .deliver, .loopEndReady, .exitD] (init 2) =
      some { n := 2, coll := true, fed := 2, got := 2, idle := 0, busy := 0, spawned := 1, ded := 0,
             exited := 1, loopDone := true, failed := false, feedStop := false,
             collStop := false } := by decide

theorem example_dedicated_only_run :
    ∃ q, Steps 1 (init 2) 7 q ∧ Terminal q ∧ q.fed = 2 ∧ q.got = 2 :=
  ⟨_, runLabels_steps _ _ _ example_dedicated_only, by decide, rfl, rfl⟩

/-- A shared and a dedicated worker side by side. -/
theorem example_shared_and_dedicated :
    ∃ q, runLabels 1 [.spawnS, .spawnD, .take, .take, .deliver, .deliver, .loopEndN, .exitS, .exitD]
      (init 2) = some q ∧ Terminal q ∧ q.got = 2 ∧ q.exited = 2 := by decide

/-- checkout: no `ready` channel, so the spawn loop goes on acquiring the dedicated token and
    starting workers that find the channel closed, until it has run `n` iterations. -/
theorem example_checkout :
    ∃ q, runLabels 1 [.spawnD, .take, .deliver, .take, .deliver, .exitD, .spawnD, .exitD, .loopEndN]
      (init 2 false) = some q ∧ Terminal q ∧ q.got = 2 ∧ q.exited = 2 := by decide

/-- A failing run: the worker returns an error while holding the first entry; spawn loop, feeder and
    collector leave on `ctx.Done`; nothing is left behind. -/
theorem example_failure :
    ∃ q, runLabels 1 [.spawnD, .take, .failD, .loopEndCancel, .feedStop, .collStop] (init 2) = some q ∧
      Terminal q ∧ q.failed = true ∧ q.idle = 0 ∧ q.busy = 0 ∧ q.exited = q.spawned ∧ q.got = 0 := by
  decide

/-- The executable scheduler on a directory of 5 entries. -/
theorem example_runToEnd :
    (runToEnd 1 34 (init 5)).got = 5 ∧ Terminal (runToEnd 1 34 (init 5)) := by decide

/-- `cost` of a small tree: `dir [leaf, dir [leaf, leaf]]`. -/
theorem example_cost : cost (.dir [.leaf, .dir [.leaf, .leaf]]) = 32 := by decide

/-! ### A nested run, step by step: `dir [dir [leaf]]` -/

abbrev okAll : Label → Bool := fun _ => true
/-- trees of depth ≤ 1 / ≤ 2, `D = 1`, commit/status variant, all labels permitted -/
abbrev S1 : Sys := level 1 true okAll 1
abbrev S2 : Sys := level 1 true okAll 2

def doneP : P :=
  { n := 1, coll := true, fed := 1, got := 1, idle := 0, busy := 0, spawned := 1, ded := 0,
    exited := 1, loopDone := true, failed := false, feedStop := false, collStop := false }

def childDone : S1.σ := (⟨doneP, [], []⟩ : DState Unit)
def rootDone : S2.σ := (⟨doneP, [], []⟩ : DState S1.σ)

/-- the nested instance for `dir [leaf]` runs to completion in 5 steps -/
theorem example_child_run : Run S1.step (S1.start [.leaf]) 5 childDone := by
  refine .cons (DStep.loc .spawnD rfl (by decide) rfl (by decide)) ?_
  refine .cons (DStep.take .leaf [] rfl (by decide) rfl) ?_
  refine .cons (DStep.consume .deliver [] none [] rfl (by decide) rfl rfl trivial (fun _ => rfl)) ?_
  refine .cons (DStep.loc .loopEndReady rfl (by decide) rfl (by decide)) ?_
  refine .cons (DStep.loc .exitD rfl (by decide) rfl (by decide)) ?_
  exact .refl

/-- the root spawns its dedicated worker, which takes the sub-directory, runs the nested instance
    (5 inner steps), delivers; then the root winds down: 10 steps in all, `cost` allows 20. -/
theorem example_nested :
    Run S2.step (S2.start [.dir [.leaf]]) 10 rootDone ∧ S2.term rootDone ∧
    cost (.dir [.dir [.leaf]]) = 20 := by
  refine ⟨?_, by show Terminal doneP; decide, by decide⟩
  refine .cons (DStep.loc .spawnD rfl (by decide) rfl (by decide)) ?_
  refine .cons (DStep.take (.dir [.leaf]) [] rfl (by decide) rfl) ?_
  have h := inner_run (D := 1) (ok := okAll) (fire .take (fire .spawnD (init 1))) []
    example_child_run
  have tail : Run S2.step
      (⟨fire .take (fire .spawnD (init 1)), [], [some childDone]⟩ : DState S1.σ) 3 rootDone := by
    refine .cons (DStep.consume .deliver [] (some childDone) [] rfl (by decide) rfl rfl
      (by show Terminal doneP; decide) (fun _ => rfl)) ?_
    refine .cons (DStep.loc .loopEndReady rfl (by decide) rfl (by decide)) ?_
    refine .cons (DStep.loc .exitD rfl (by decide) rfl (by decide)) ?_
    exact .refl
  exact Run.append h tail

/-- The composite system really deadlocks when `D = 0` and the shared pool grants nothing: the
    initial state of `dir [leaf]` is not terminal and has no step at all. -/
theorem example_nested_deadlock :
    ¬ (dirSys 0 true Label.needed baseSys).term ((dirSys 0 true Label.needed baseSys).start [.leaf]) ∧
    ∀ t, ¬ (dirSys 0 true Label.needed baseSys).step
      ((dirSys 0 true Label.needed baseSys).start [.leaf]) t := by
  constructor
  · show ¬ Terminal (init 1); decide
  · intro t h
    cases h with
    | loc l hok he _ _ =>
      replace he : enabled 0 l (init 1) = true := he
      cases l <;> first | (exact absurd hok (by decide)) | (exact absurd he (by decide))
    | take sh rest _ he _ =>
      replace he : enabled 0 .take (init 1) = true := he
      exact absurd he (by decide)
    | consume l pre j post _ _ _ hact _ _ =>
      replace hact : ([] : List (Option Unit)) = pre ++ j :: post := hact
      cases pre <;> cases hact
    | inner pre c c' post hact _ =>
      replace hact : ([] : List (Option Unit)) = pre ++ some c :: post := hact
      cases pre <;> cases hact

/-! ## Axioms -/

#print axioms wf_init
#print axioms wf_step
#print axioms progress
#print axioms progress_step
#print axioms next_total
#print axioms stuck_core_terminal
#print axioms mu_decreases
#print axioms terminal_complete
#print axioms counts_bounded
#print axioms all_runs_terminate
#print axioms no_infinite_run
#print axioms runToEnd_init
#print axioms deadlock_without_dedicated
#print axioms deadlock_without_dedicated_general
#print axioms dedicated_obligation
#print axioms spawn_select_obligation
#print axioms progress_with_go_constant
#print axioms failed_persists
#print axioms error_progress
#print axioms error_terminates
#print axioms error_maximal_terminal
#print axioms terminal_no_goroutine_left
#print axioms child_progress_independent_of_shared
#print axioms nested_terminates
#print axioms nested_terminates_shared_exhausted
#print axioms nested_reaches_terminal
#print axioms nested_cost_exact
#print axioms nested_terminal_clean
#print axioms level_safe
#print axioms level_good
#print axioms lookup_put_comm
#print axioms lookup_putAll
#print axioms lookup_foldl_perm
#print axioms cache_independent_of_finish_order
#print axioms example_dedicated_only_run
#print axioms example_shared_and_dedicated
#print axioms example_checkout
#print axioms example_failure
#print axioms example_runToEnd
#print axioms example_child_run
#print axioms example_nested
#print axioms example_nested_deadlock

end Dud.Pool
