import DudModel.Props.C02
import DudModel.Generated.Facts
/-!
# C07 — only commit records data; inputs and read-only commands are side-effect free

* `status_pure`, `graph_pure`: `dud status` / `dud graph` leave workspace, both caches and the index
  unchanged;
* `noncommit_keeps_index`: run, checkout, push, fetch never alter a stage file;
* `noncommit_keeps_cache`: run, status, checkout, push never add, change or remove a cache object;
* `run_touches_only_via_exec`: dud itself never touches the workspace during a run;
* `commitArtW_skip_file`, `commitArtW_skip`, `commitAct_plain_inputs`: committing a skip-cache file /
  a plain file input changes neither the workspace nor the cache;
* `commit_moves_directory_input`: **negative witness** — a plain *directory* input is moved into
  the cache by `dud commit` (`commitDirArtifact` never looks at `SkipCache`).

(`Lemmas/Run.lean` has another `ExecFrame`, which clashes with the one of `Props/C02.lean`; the
hypotheses on the stage command are therefore stated here as `ExecKeeps π`.)
-/
namespace Dud

variable {κ : Type}

/-! ## generic lifting: a component of the world kept by every stage action is kept by the command -/

/-- the stage command keeps the component `π` of the world -/
def ExecKeeps {α : Type} (π : World κ → α) (exec : Exec κ) : Prop :=
  ∀ stg w w', exec stg w = .ok w' → π w' = π w

/-- `π` does not look at the traversal's bookkeeping (memo, run log, status report) -/
def Bookless {α : Type} (π : World κ → α) : Prop :=
  ∀ (w : World κ) done ran log stat, π { w with done := done, ran := ran, log := log, stat := stat } = π w

theorem traversal_keeps {α : Type} (π : World κ → α) (hπ : Bookless π) (T : Trav (World κ))
    (hact : ∀ sp w w', T.act sp w = .ok w' → π w' = π w) (r : Bool)
    (fuelOf : World κ → Nat) (availOf : World κ → List Bytes) (ts : List Bytes) (w w' : World κ)
    (h : perTarget (fun t w => visit T r (fuelOf w) (availOf w) t w) ts (fresh w) = .ok w') : π w' = π w := by
  have := perTarget_visit_rel (fun a b => π b = π a) (fun _ => rfl) (fun _ _ _ h1 h2 => h2.trans h1) T hact r
    fuelOf availOf ts (fresh w) w' h
  exact this.trans (hπ w [] [] [] [])

/-- the four components that make up the project on disk -/
def World.disk (w : World κ) : Node κ × Store κ × Store κ × Index := (w.ws, w.store, w.remote, w.idx)

theorem bookless_disk : Bookless (World.disk (κ := κ)) := fun _ _ _ _ _ => rfl
theorem bookless_idx : Bookless (fun w : World κ => w.idx) := fun _ _ _ _ _ => rfl
theorem bookless_store : Bookless (fun w : World κ => w.store) := fun _ _ _ _ _ => rfl
theorem bookless_ws : Bookless (fun w : World κ => w.ws) := fun _ _ _ _ _ => rfl

/-! ## the stage actions -/

theorem statusAct_disk [DecidableEq κ] (cfg : Cfg κ) (sp : Bytes) (w w' : World κ)
    (h : statusAct cfg sp w = .ok w') : w'.disk = w.disk := by
  unfold statusAct at h
  split at h
  · cases h
  dsimp only at h
  split at h
  · cases h
  simp only [Except.ok.injEq] at h
  subst h
  rfl

theorem checkoutArtW_idx {cfg : Cfg κ} {strat : Strat} {a : Art} {w w' : World κ}
    (h : checkoutArtW cfg strat a w = .ok w') : w'.idx = w.idx := by
  unfold checkoutArtW at h
  dsimp only at h
  repeat' split at h
  all_goals first | (cases h; done) | (simp only [Except.ok.injEq] at h; subst h; rfl)

theorem checkoutArts_idx {cfg : Cfg κ} {strat : Strat} : ∀ (as : List Art) {w w' : World κ},
    checkoutArts cfg strat as w = .ok w' → w'.idx = w.idx
  | [], w, w', h => by simp only [checkoutArts, Except.ok.injEq] at h; subst h; rfl
  | a :: r, w, w', h => by
    rw [checkoutArts] at h
    split at h
    · cases h
    rename_i h1
    exact (checkoutArts_idx r h).trans (checkoutArtW_idx h1)

theorem checkoutAct_idx (cfg : Cfg κ) (strat : Strat) (sp : Bytes) (w w' : World κ)
    (h : checkoutAct cfg strat sp w = .ok w') : w'.idx = w.idx := by
  unfold checkoutAct at h
  split at h
  · cases h
  split at h
  · cases h
  rename_i h1
  simp only [Except.ok.injEq] at h
  subst h
  have h2 := checkoutArts_idx _ h1
  exact h2

theorem pushAct_frame (cfg : Cfg κ) (sp : Bytes) (w w' : World κ) (h : pushAct cfg sp w = .ok w') :
    w'.ws = w.ws ∧ w'.store = w.store ∧ w'.idx = w.idx := by
  unfold pushAct at h
  split at h
  · cases h
  split at h
  · cases h
  split at h
  · cases h
  simp only [Except.ok.injEq] at h
  subst h
  exact ⟨rfl, rfl, rfl⟩

theorem fetchAct_frame (cfg : Cfg κ) (sp : Bytes) (w w' : World κ) (h : fetchAct cfg sp w = .ok w') :
    w'.ws = w.ws ∧ w'.remote = w.remote ∧ w'.idx = w.idx := by
  unfold fetchAct at h
  split at h
  · cases h
  dsimp only at h
  split at h
  · cases h
  simp only [Except.ok.injEq] at h
  subst h
  exact ⟨rfl, rfl, rfl⟩

/-- `runAct` changes the world only through `exec` and its own bookkeeping (`ran`, `log`) -/
theorem runAct_keeps [DecidableEq κ] {α : Type} (π : World κ → α) (hπ : Bookless π) (cfg : Cfg κ) (exec : Exec κ)
    (hexec : ExecKeeps π exec) (r : Bool) (sp : Bytes) (w w' : World κ)
    (h : runAct cfg exec r sp w = .ok w') : π w' = π w := by
  unfold runAct at h
  split at h
  · cases h
  dsimp only at h
  split at h
  · cases h
  split at h
  · cases h
  split at h
  · split at h
    · cases h
    rename_i w1 he
    simp only [Except.ok.injEq] at h
    subst h
    exact (hπ w1 w1.done _ _ w1.stat).trans (hexec _ _ _ he)
  · simp only [Except.ok.injEq] at h
    subst h
    exact hπ w w.done _ w.log w.stat

/-! ## 1. status and graph are pure -/

/-- `dud status` leaves the project unchanged: workspace, both caches, every stage file -/
theorem status_pure [DecidableEq κ] (cfg : Cfg κ) (targets : List Bytes) (w w' : World κ)
    (h : cmdStatus cfg targets w = .ok w') :
    w'.ws = w.ws ∧ w'.store = w.store ∧ w'.remote = w.remote ∧ w'.idx = w.idx := by
  unfold cmdStatus at h
  split at h
  · cases h
  have := traversal_keeps World.disk bookless_disk (statusTrav cfg) (statusAct_disk cfg) _ _ _ _ w w' h
  simp only [World.disk, Prod.mk.injEq] at this
  exact this

/-- `dud graph`: the status traversal with its report discarded (as the driver does) -/
def cmdGraph [DecidableEq κ] (cfg : Cfg κ) (targets : List Bytes) (w : World κ) : Except Err (World κ) :=
  (cmdStatus cfg targets w).map (fun _ => w)

theorem graph_pure [DecidableEq κ] (cfg : Cfg κ) (targets : List Bytes) (w w' : World κ)
    (h : cmdGraph cfg targets w = .ok w') : w' = w := by
  unfold cmdGraph at h
  cases hs : cmdStatus cfg targets w with
  | error e => rw [hs] at h; cases h
  | ok w1 =>
    rw [hs] at h
    simp only [Except.map, Except.ok.injEq] at h
    exact h.symm

/-! ## 2. stage files -/

theorem cmdRun_keeps [DecidableEq κ] {α : Type} (π : World κ → α) (hπ : Bookless π) (cfg : Cfg κ) (exec : Exec κ)
    (hexec : ExecKeeps π exec) (single : Bool) (targets : List Bytes) (w w' : World κ)
    (h : cmdRun cfg exec single targets w = .ok w') : π w' = π w := by
  unfold cmdRun at h
  split at h
  · cases h
  exact traversal_keeps π hπ (runTrav cfg exec (!single)) (runAct_keeps π hπ cfg exec hexec (!single)) _ _ _ _ w w' h

theorem cmdRun_keeps_index [DecidableEq κ] (cfg : Cfg κ) (exec : Exec κ)
    (hexec : ExecKeeps (fun w => w.idx) exec) (single : Bool) (targets : List Bytes) (w w' : World κ)
    (h : cmdRun cfg exec single targets w = .ok w') : w'.idx = w.idx :=
  cmdRun_keeps (fun w => w.idx) bookless_idx cfg exec hexec single targets w w' h

theorem cmdCheckout_keeps_index (cfg : Cfg κ) (strat : Strat) (single : Bool) (targets : List Bytes) (w w' : World κ)
    (h : cmdCheckout cfg strat single targets w = .ok w') : w'.idx = w.idx := by
  unfold cmdCheckout at h
  split at h
  · cases h
  exact traversal_keeps (fun w => w.idx) bookless_idx (checkoutTrav cfg strat) (checkoutAct_idx cfg strat) _ _ _ _ w w' h

theorem cmdPush_frame (cfg : Cfg κ) (single : Bool) (targets : List Bytes) (w w' : World κ)
    (h : cmdPush cfg single targets w = .ok w') : w'.ws = w.ws ∧ w'.store = w.store ∧ w'.idx = w.idx := by
  unfold cmdPush at h
  split at h
  · cases h
  have := traversal_keeps (fun w => (w.ws, w.store, w.idx)) (fun _ _ _ _ _ => rfl) (simpleTrav cfg (pushAct cfg))
    (fun sp a b hb => by
      obtain ⟨h1, h2, h3⟩ := pushAct_frame cfg sp a b hb
      show (b.ws, b.store, b.idx) = (a.ws, a.store, a.idx)
      rw [h1, h2, h3]) _ _ _ _ w w' h
  simp only [Prod.mk.injEq] at this
  exact this

theorem cmdFetch_frame (cfg : Cfg κ) (single : Bool) (targets : List Bytes) (w w' : World κ)
    (h : cmdFetch cfg single targets w = .ok w') : w'.ws = w.ws ∧ w'.remote = w.remote ∧ w'.idx = w.idx := by
  unfold cmdFetch at h
  have := traversal_keeps (fun w => (w.ws, w.remote, w.idx)) (fun _ _ _ _ _ => rfl) (simpleTrav cfg (fetchAct cfg))
    (fun sp a b hb => by
      obtain ⟨h1, h2, h3⟩ := fetchAct_frame cfg sp a b hb
      show (b.ws, b.remote, b.idx) = (a.ws, a.remote, a.idx)
      rw [h1, h2, h3]) _ _ _ _ w w' h
  simp only [Prod.mk.injEq] at this
  exact this

/-- **run, checkout, push and fetch never alter a stage file** (for run: provided the stage
commands themselves do not) -/
theorem noncommit_keeps_index [DecidableEq κ] (cfg : Cfg κ) (exec : Exec κ)
    (hexec : ExecKeeps (fun w => w.idx) exec) (strat : Strat) (single : Bool) (targets : List Bytes)
    (w w' : World κ) :
    (cmdRun cfg exec single targets w = .ok w' → w'.idx = w.idx) ∧
    (cmdCheckout cfg strat single targets w = .ok w' → w'.idx = w.idx) ∧
    (cmdPush cfg single targets w = .ok w' → w'.idx = w.idx) ∧
    (cmdFetch cfg single targets w = .ok w' → w'.idx = w.idx) :=
  ⟨cmdRun_keeps_index cfg exec hexec single targets w w',
   cmdCheckout_keeps_index cfg strat single targets w w',
   fun h => (cmdPush_frame cfg single targets w w' h).2.2,
   fun h => (cmdFetch_frame cfg single targets w w' h).2.2⟩

/-! ## 3. cache objects -/

theorem cmdRun_keeps_cache [DecidableEq κ] (cfg : Cfg κ) (exec : Exec κ)
    (hexec : ExecKeeps (fun w => w.store) exec) (single : Bool) (targets : List Bytes) (w w' : World κ)
    (h : cmdRun cfg exec single targets w = .ok w') : w'.store = w.store :=
  cmdRun_keeps (fun w => w.store) bookless_store cfg exec hexec single targets w w' h

/-- **run, status, checkout and push never add, change or remove a cache object** (for run:
provided the stage commands themselves do not) -/
theorem noncommit_keeps_cache [DecidableEq κ] (cfg : Cfg κ) (exec : Exec κ)
    (hexec : ExecKeeps (fun w => w.store) exec) (strat : Strat) (single : Bool) (targets : List Bytes)
    (w w' : World κ) :
    (cmdRun cfg exec single targets w = .ok w' → w'.store = w.store) ∧
    (cmdStatus cfg targets w = .ok w' → w'.store = w.store) ∧
    (cmdCheckout cfg strat single targets w = .ok w' → w'.store = w.store) ∧
    (cmdPush cfg single targets w = .ok w' → w'.store = w.store) :=
  ⟨cmdRun_keeps_cache cfg exec hexec single targets w w',
   fun h => (status_pure cfg targets w w' h).2.1,
   fun h => (cmdCheckout_rel cfg strat single targets w w' h).1,
   fun h => (cmdPush_frame cfg single targets w w' h).2.1⟩

/-! ## 4. run and the workspace -/

/-- if the stage commands do nothing, a run leaves the workspace alone: dud itself never touches an
artifact during `dud run` -/
theorem run_touches_only_via_exec [DecidableEq κ] (cfg : Cfg κ) (exec : Exec κ)
    (hexec : ∀ stg w, exec stg w = .ok w) (single : Bool) (targets : List Bytes) (w w' : World κ)
    (h : cmdRun cfg exec single targets w = .ok w') : w'.ws = w.ws := by
  refine cmdRun_keeps (fun w => w.ws) bookless_ws cfg exec ?_ single targets w w' h
  intro stg a b hb
  rw [hexec] at hb
  injection hb with hb
  rw [hb]

/-- more generally the workspace after a run is whatever the stage commands made of it -/
theorem run_keeps_workspace [DecidableEq κ] (cfg : Cfg κ) (exec : Exec κ)
    (hexec : ExecKeeps (fun w => w.ws) exec) (single : Bool) (targets : List Bytes) (w w' : World κ)
    (h : cmdRun cfg exec single targets w = .ok w') : w'.ws = w.ws :=
  cmdRun_keeps (fun w => w.ws) bookless_ws cfg exec hexec single targets w w' h

/-! ## 5. commit, skip-cache files and plain inputs -/

private theorem setEntry_same' : ∀ (es : List (Name × Node κ)) (nm : Name) (n : Node κ),
    alookup es nm = some n → setEntry es nm n = es
  | [], _, _, h => by simp [alookup] at h
  | (k, v) :: r, nm, n, h => by
    by_cases hk : k = nm
    · subst hk
      simp only [alookup, beq_self_eq_true, if_true, Option.some.injEq] at h
      simp [setEntry, h]
    · simp only [alookup, beq_iff_eq, hk, if_false] at h
      simp [setEntry, hk, setEntry_same' r nm n h]

/-- writing back the node found at a path changes nothing.  No duplicate-freeness is needed:
`alookup` reads and `setEntry` replaces the *first* binding of a name. -/
theorem setPath_getPath_same : ∀ (p : List Name) (ws n : Node κ),
    getPath ws p = some n → setPath ws p n = some ws
  | [], ws, n, h => by
    simp only [getPath, Option.some.injEq] at h
    subst h
    simp [setPath]
  | c :: r, .dir es, n, h => by
    rw [getPath] at h
    split at h
    · rename_i m hm
      rw [setPath, hm]
      simp only [Option.getD_some]
      rw [setPath_getPath_same r m n h]
      simp only
      rw [setEntry_same' es c m hm]
    · cases h
  | _ :: _, .file _, _, h => by simp [getPath] at h
  | _ :: _, .link _, _, h => by simp [getPath] at h
  | _ :: _, .other, _, h => by simp [getPath] at h

/-- `commitFileArtifact` with `SkipCache`: the node stays, nothing is stored -/
theorem commitFile_skip {ctx : Ctx κ} {strat : Strat} {n : Option (Node κ)} {sum : Digest} {s : Store κ}
    {n' : Node κ} {d : Digest} {s' : Store κ}
    (h : commitFile ctx strat true n sum s = .ok (n', d, s')) : n = some n' ∧ s' = s := by
  unfold commitFile at h
  repeat' split at h
  all_goals first | (cases h; done) | (simp only [Except.ok.injEq, Prod.mk.injEq] at h; obtain ⟨rfl, _, rfl⟩ := h)
  all_goals first | exact ⟨rfl, rfl⟩ | simp_all

/-- committing a skip-cache file artifact (in whatever state its workspace entry is) changes neither
the workspace nor the cache -/
theorem commitArtW_skip (cfg : Cfg κ) (strat : Strat) (a a' : Art) (w w' : World κ)
    (hskip : a.skip = true) (hfile : a.isDir = false) (h : commitArtW cfg strat a w = .ok (a', w')) :
    w' = w := by
  unfold commitArtW at h
  dsimp only at h
  split at h
  · cases h
  rename_i n d s hc
  unfold commitArt at hc
  rw [hfile, hskip] at hc
  simp only [Bool.false_eq_true, if_false] at hc
  obtain ⟨hn, rfl⟩ := commitFile_skip hc
  rw [setPath_getPath_same _ _ _ hn] at h
  simp only [Except.ok.injEq, Prod.mk.injEq] at h
  exact h.2.symm

/-- the case of a regular file: moreover the checksum recorded is the hash of its bytes -/
theorem commitArtW_skip_file (cfg : Cfg κ) (strat : Strat) (a a' : Art) (w w' : World κ) (c : κ)
    (hskip : a.skip = true) (hfile : a.isDir = false)
    (hnode : getPath w.ws (Path.comps a.path) = some (.file c))
    (h : commitArtW cfg strat a w = .ok (a', w')) :
    w'.ws = w.ws ∧ w'.store = w.store ∧ a'.sum = cfg.ctx.H c := by
  unfold commitArtW at h
  dsimp only at h
  rw [hnode] at h
  have hc : commitArt cfg.ctx strat a (some (.file c)) w.store = .ok (.file c, cfg.ctx.H c, w.store) := by
    simp [commitArt, hfile, hskip, commitFile, quick]
  rw [hc] at h
  dsimp only at h
  rw [setPath_getPath_same _ _ _ hnode] at h
  simp only [Except.ok.injEq, Prod.mk.injEq] at h
  obtain ⟨rfl, rfl⟩ := h
  exact ⟨rfl, rfl, rfl⟩

/-! ### what else a commit may touch: paths diverging from the artifact's are left alone -/

/-- the two paths part ways at some component (neither is a prefix of the other) -/
def Diverge (p q : List Name) : Prop :=
  ∃ (pre : List Name) (x y : Name) (p' q' : List Name), x ≠ y ∧ p = pre ++ x :: p' ∧ q = pre ++ y :: q'

private theorem alookup_setEntry_ne : ∀ (es : List (Name × Node κ)) (x y : Name) (n : Node κ), x ≠ y →
    alookup (setEntry es x n) y = alookup es y
  | [], x, y, n, h => by simp [setEntry, alookup, h]
  | (k, v) :: r, x, y, n, h => by
    by_cases hk : k = x
    · subst hk
      simp [setEntry, alookup, h]
    · by_cases hy : k = y
      · subst hy
        simp [setEntry, alookup, hk]
      · simp [setEntry, alookup, hk, hy, alookup_setEntry_ne r x y n h]

private theorem alookup_setEntry_self : ∀ (es : List (Name × Node κ)) (x : Name) (n : Node κ),
    alookup (setEntry es x n) x = some n
  | [], x, n => by simp [setEntry, alookup]
  | (k, v) :: r, x, n => by
    by_cases hk : k = x
    · subst hk; simp [setEntry, alookup]
    · simp [setEntry, alookup, hk, alookup_setEntry_self r x n]

private theorem getPath_nil_dir (q : List Name) (y : Name) : getPath (.dir [] : Node κ) (y :: q) = none := by
  simp [getPath, alookup]

/-- writing at `p` does not change what is found at a diverging path `q` -/
theorem getPath_setPath_diverge : ∀ (pre : List Name) (x y : Name) (p' q' : List Name) (ws ws' v : Node κ),
    x ≠ y → setPath ws (pre ++ x :: p') v = some ws' →
    getPath ws' (pre ++ y :: q') = getPath ws (pre ++ y :: q')
  | [], x, y, p', q', .dir es, ws', v, hne, h => by
    simp only [List.nil_append] at h ⊢
    rw [setPath] at h
    split at h
    · rename_i n hn
      injection h with h
      subst h
      simp only [getPath]
      rw [alookup_setEntry_ne es x y n hne]
    · cases h
  | c :: pre, x, y, p', q', .dir es, ws', v, hne, h => by
    simp only [List.cons_append] at h ⊢
    rw [setPath] at h
    split at h
    · rename_i n hn
      injection h with h
      subst h
      have ih := getPath_setPath_diverge pre x y p' q' _ n v hne hn
      simp only [getPath]
      rw [alookup_setEntry_self]
      simp only
      rw [ih]
      cases hl : alookup es c with
      | some m => simp
      | none =>
        simp only [Option.getD_none]
        cases pre with
        | nil => exact getPath_nil_dir _ _
        | cons c' pre' => exact getPath_nil_dir _ _
    · cases h
  | [], _, _, _, _, .file _, _, _, _, h => by simp [setPath] at h
  | [], _, _, _, _, .link _, _, _, _, h => by simp [setPath] at h
  | [], _, _, _, _, .other, _, _, _, h => by simp [setPath] at h
  | _ :: _, _, _, _, _, .file _, _, _, _, h => by simp [setPath] at h
  | _ :: _, _, _, _, _, .link _, _, _, _, h => by simp [setPath] at h
  | _ :: _, _, _, _, _, .other, _, _, _, h => by simp [setPath] at h

/-- committing an artifact changes the workspace only at and below the artifact's path -/
theorem commitArtW_elsewhere (cfg : Cfg κ) (strat : Strat) (a a' : Art) (w w' : World κ) (q : List Name)
    (hd : Diverge (Path.comps a.path) q) (h : commitArtW cfg strat a w = .ok (a', w')) :
    getPath w'.ws q = getPath w.ws q := by
  obtain ⟨pre, x, y, p', q', hne, hp, rfl⟩ := hd
  unfold commitArtW at h
  dsimp only at h
  split at h
  · cases h
  split at h
  · cases h
  rename_i ws' hs
  simp only [Except.ok.injEq, Prod.mk.injEq] at h
  obtain ⟨_, rfl⟩ := h
  rw [hp] at hs
  exact getPath_setPath_diverge pre x y p' q' _ _ _ hne hs

/-- a list of artifacts each of which is a skip-cache file or lies elsewhere -/
theorem commitArts_elsewhere (cfg : Cfg κ) (strat : Strat) (q : List Name) :
    ∀ (as : List Art) {as' : List Art} {w w' : World κ},
      (∀ b, b ∈ as → (b.skip = true ∧ b.isDir = false) ∨ Diverge (Path.comps b.path) q) →
      commitArts cfg strat as w = .ok (as', w') → getPath w'.ws q = getPath w.ws q
  | [], as', w, w', _, h => by
    simp only [commitArts, Except.ok.injEq, Prod.mk.injEq] at h
    rw [h.2]
  | a :: r, as', w, w', hall, h => by
    rw [commitArts] at h
    split at h
    · cases h
    rename_i a1 w1 h1
    split at h
    · cases h
    rename_i r2 w2 h2
    simp only [Except.ok.injEq, Prod.mk.injEq] at h
    obtain ⟨_, rfl⟩ := h
    rw [commitArts_elsewhere cfg strat q r (fun b hb => hall b (List.mem_cons_of_mem _ hb)) h2]
    rcases hall a List.mem_cons_self with ⟨hs, hf⟩ | hd
    · rw [commitArtW_skip cfg strat a a1 w w1 hs hf h1]
    · exact commitArtW_elsewhere cfg strat a a1 w w1 q hd h1

/-- only skip-cache files: nothing at all changes -/
theorem commitArts_skip_files (cfg : Cfg κ) (strat : Strat) :
    ∀ (as : List Art) {as' : List Art} {w w' : World κ},
      (∀ b, b ∈ as → b.skip = true ∧ b.isDir = false) →
      commitArts cfg strat as w = .ok (as', w') → w' = w
  | [], as', w, w', _, h => by
    simp only [commitArts, Except.ok.injEq, Prod.mk.injEq] at h
    exact h.2.symm
  | a :: r, as', w, w', hall, h => by
    rw [commitArts] at h
    split at h
    · cases h
    rename_i a1 w1 h1
    split at h
    · cases h
    rename_i r2 w2 h2
    simp only [Except.ok.injEq, Prod.mk.injEq] at h
    obtain ⟨_, rfl⟩ := h
    rw [commitArts_skip_files cfg strat r (fun b hb => hall b (List.mem_cons_of_mem _ hb)) h2]
    exact commitArtW_skip cfg strat a a1 w w1 (hall a List.mem_cons_self).1 (hall a List.mem_cons_self).2 h1

private theorem mem_insertArt' {a b : Art} : ∀ {l : List Art}, a ∈ insertArt b l → a = b ∨ a ∈ l
  | [], h => by simpa [insertArt] using h
  | x :: xs, h => by
    rw [insertArt] at h
    split at h
    · rcases List.mem_cons.1 h with h | h
      · exact .inl h
      · exact .inr (List.mem_cons_of_mem _ h)
    · split at h
      · rcases List.mem_cons.1 h with h | h
        · exact .inl h
        · exact .inr h
      · rcases List.mem_cons.1 h with h | h
        · exact .inr (h ▸ List.mem_cons_self)
        · rcases mem_insertArt' h with h | h
          · exact .inl h
          · exact .inr (List.mem_cons_of_mem _ h)

private theorem mem_of_mem_sortArts' {a : Art} : ∀ {l : List Art}, a ∈ sortArts l → a ∈ l
  | [], h => by simp [sortArts] at h
  | x :: xs, h => by
    have h' : a ∈ insertArt x (sortArts xs) := h
    rcases mem_insertArt' h' with h | h
    · exact h ▸ List.mem_cons_self
    · exact List.mem_cons_of_mem _ (mem_of_mem_sortArts' h)

/-- **Commit and plain inputs.**  `commitAct` commits the inputs no stage owns with `skip := true`.
Whatever path `q` diverges from the stage's outputs and from its plain *directory* inputs holds the
same node after the commit: the plain *file* inputs are committed without touching the workspace. -/
theorem commitAct_elsewhere (cfg : Cfg κ) (strat : Strat) (sp : Bytes) (w w' : World κ) (stg : Stage)
    (q : List Name) (hs : w.stage sp = .ok stg) (h : commitAct cfg strat sp w = .ok w')
    (hdirs : ∀ b, b ∈ stg.inputs → b.isDir = true → (findOwner cfg.walkAccumulates w.idx b.path).isNone = true →
      Diverge (Path.comps b.path) q)
    (houts : ∀ b, b ∈ stg.outputs → Diverge (Path.comps b.path) q) :
    getPath w'.ws q = getPath w.ws q := by
  unfold commitAct at h
  rw [hs] at h
  dsimp only at h
  split at h
  · cases h
  rename_i pl w1 h1
  split at h
  · cases h
  rename_i outs w2 h2
  simp only [Except.ok.injEq] at h
  subst h
  show getPath w2.ws q = getPath w.ws q
  rw [commitArts_elsewhere cfg strat q _ ?_ h2, commitArts_elsewhere cfg strat q _ ?_ h1]
  · intro b hb
    obtain ⟨b0, hb0, rfl⟩ := List.mem_map.1 (mem_of_mem_sortArts' hb)
    obtain ⟨hin, hown⟩ := List.mem_filter.1 hb0
    rcases Bool.eq_false_or_eq_true b0.isDir with hdir | hdir
    · exact .inr (hdirs b0 hin hdir hown)
    · exact .inl ⟨rfl, hdir⟩
  · intro b hb
    exact .inr (houts b (mem_of_mem_sortArts' hb))

/-- … in particular at the path of a plain file input `a` itself -/
theorem commitAct_plain_inputs (cfg : Cfg κ) (strat : Strat) (sp : Bytes) (w w' : World κ) (stg : Stage) (a : Art)
    (hs : w.stage sp = .ok stg) (h : commitAct cfg strat sp w = .ok w')
    (hdirs : ∀ b, b ∈ stg.inputs → b.isDir = true → (findOwner cfg.walkAccumulates w.idx b.path).isNone = true →
      Diverge (Path.comps b.path) (Path.comps a.path))
    (houts : ∀ b, b ∈ stg.outputs → Diverge (Path.comps b.path) (Path.comps a.path)) :
    getPath w'.ws (Path.comps a.path) = getPath w.ws (Path.comps a.path) :=
  commitAct_elsewhere cfg strat sp w w' stg _ hs h hdirs houts

/-- full frame: a stage without outputs whose plain inputs are all files — committing it changes
neither the workspace nor the cache (only the stage file gets its checksums) -/
theorem commitAct_inputs_only (cfg : Cfg κ) (strat : Strat) (sp : Bytes) (w w' : World κ) (stg : Stage)
    (hs : w.stage sp = .ok stg) (h : commitAct cfg strat sp w = .ok w') (houts : stg.outputs = [])
    (hfiles : ∀ b, b ∈ stg.inputs → (findOwner cfg.walkAccumulates w.idx b.path).isNone = true → b.isDir = false) :
    w'.ws = w.ws ∧ w'.store = w.store ∧ w'.remote = w.remote := by
  unfold commitAct at h
  rw [hs] at h
  dsimp only at h
  split at h
  · cases h
  rename_i pl w1 h1
  split at h
  · cases h
  rename_i outs w2 h2
  simp only [Except.ok.injEq] at h
  subst h
  have e1 : w1 = w := by
    refine commitArts_skip_files cfg strat _ ?_ h1
    intro b hb
    obtain ⟨b0, hb0, rfl⟩ := List.mem_map.1 (mem_of_mem_sortArts' hb)
    obtain ⟨hin, hown⟩ := List.mem_filter.1 hb0
    exact ⟨rfl, hfiles b0 hin hown⟩
  have e2 : w2 = w1 := by
    rw [houts] at h2
    simp only [sortArts, List.foldr_nil, commitArts, Except.ok.injEq, Prod.mk.injEq] at h2
    exact h2.2.symm
  subst e1
  subst e2
  exact ⟨rfl, rfl, rfl⟩

/-! ## 6. the negative witness: a plain directory input is moved into the cache -/

namespace ToyInput

/-- one stage with a command and a single plain *directory* input `d/` holding one file -/
def w0 : World String :=
  { ws := .dir [([100], .dir [([101], .file "data")])],
    idx := [([1], { cmd := [1], inputs := [{ path := [100], isDir := true }] })] }

end ToyInput

/-- **`dud commit` moves the files of a directory input into the cache.**  The input is not owned
by any stage, so `commitAct` commits it with `skip := true`; `commitArt` (Go `commitDirArtifact`)
ignores the flag for a directory: after the commit the file inside the input directory is a link
into the cache and the cache, empty before, holds its bytes. -/
theorem commit_moves_directory_input :
    ∃ w', cmdCommit ToyGood.cfg .link [] ToyInput.w0 = .ok w' ∧
      findOwner ToyGood.cfg.walkAccumulates ToyInput.w0.idx [100] = none ∧
      getPath ToyInput.w0.ws [[100], [101]] = some (.file "data") ∧
      getPath w'.ws [[100], [101]] = some (.link (.obj "abcdata")) ∧
      ToyInput.w0.store = [] ∧ w'.store.get "abcdata" = some (.blob "data") ∧ w'.store.length = 2 :=
  ⟨_, rfl, rfl, rfl, rfl, rfl, rfl, rfl⟩

/-- the code fact behind it: `commitDirArtifact` does not consult `SkipCache` -/
theorem dir_ignores_skip_fact : Dud.Facts.commitDirChecksSkip = false := by decide

/-! ## 7. regenerated facts -/

/-- `commitFileArtifact` returns for a skip-cache artifact before anything is written to the cache -/
theorem skip_before_cache_fact : Dud.Facts.commitFileSkipBeforeCache = true := by decide

/-! ## non-vacuity -/

section Examples
open ToyGood

theorem toy_exec_id : ∀ stg (w : World String), exec stg w = .ok w := fun _ _ => rfl

/-- status, graph, run, checkout, push, fetch all succeed on a committed toy project -/
example : ∃ w1 w2, cmdCommit cfg .copy [] w0 = .ok w1 ∧ cmdStatus cfg [] w1 = .ok w2 ∧ w2.stat ≠ [] ∧
    cmdGraph cfg [] w1 = .ok w1 := ⟨_, _, rfl, rfl, by simp, rfl⟩
example : ∃ w1 w2 w3 w4 w5, cmdCommit cfg .copy [] w0 = .ok w1 ∧ cmdRun cfg exec false [] w1 = .ok w2 ∧
    cmdPush cfg false [] w2 = .ok w3 ∧ cmdFetch cfg false [] w3 = .ok w4 ∧
    cmdCheckout cfg .link false [] w4 = .ok w5 := ⟨_, _, _, _, _, rfl, rfl, rfl, rfl, rfl⟩

/-- a plain file input is committed (its checksum recorded) without touching workspace or cache -/
def wIn : World String :=
  { ws := .dir [([100], .file "data")], idx := [([1], { cmd := [1], inputs := [{ path := [100] }] })] }
example : ∃ w', cmdCommit cfg .link [] wIn = .ok w' ∧ w'.ws = wIn.ws ∧ w'.store = [] ∧
    (alookup w'.idx [1]).map (fun s => s.inputs.map (·.sum)) = some ["abcdata"] := ⟨_, rfl, rfl, rfl, rfl⟩
example : ∃ a' w', commitArtW cfg .link { path := [100], skip := true } wIn = .ok (a', w') ∧
    a'.sum = "abcdata" := ⟨_, _, rfl, rfl⟩
example : Diverge [[100], [101]] [[100], [102], [103]] := ⟨[[100]], [101], [102], [], [[103]], by decide, rfl, rfl⟩

end Examples

/-! ## axioms -/

#print axioms traversal_keeps
#print axioms statusAct_disk
#print axioms checkoutAct_idx
#print axioms pushAct_frame
#print axioms fetchAct_frame
#print axioms runAct_keeps
#print axioms status_pure
#print axioms graph_pure
#print axioms cmdRun_keeps
#print axioms cmdRun_keeps_index
#print axioms cmdCheckout_keeps_index
#print axioms cmdPush_frame
#print axioms cmdFetch_frame
#print axioms noncommit_keeps_index
#print axioms cmdRun_keeps_cache
#print axioms noncommit_keeps_cache
#print axioms run_touches_only_via_exec
#print axioms run_keeps_workspace
#print axioms setPath_getPath_same
#print axioms commitFile_skip
#print axioms commitArtW_skip
#print axioms commitArtW_skip_file
#print axioms getPath_setPath_diverge
#print axioms commitArtW_elsewhere
#print axioms commitArts_elsewhere
#print axioms commitArts_skip_files
#print axioms commitAct_elsewhere
#print axioms commitAct_plain_inputs
#print axioms commitAct_inputs_only
#print axioms commit_moves_directory_input
#print axioms dir_ignores_skip_fact
#print axioms skip_before_cache_fact

end Dud
