import DudModel.Lemmas.StatusCommit
import DudModel.Lemmas.StoredStatus
import DudModel.Props.C01
import DudModel.Render
/-!
# C05: status tells the truth

The central notion is `UpToDate ctx s fuel isDir sum n` (DudModel/StatusSpec.lean): the node `n` is
what the store holds under the entry `(isDir, sum)` — defined from the store alone, order-insensitive
on listings.
* exact characterisation: `dirStatus_cm_iff`, `fileStatus_cm_iff'` (`ContentsMatch` and no type
  complaint ⇔ `UpToDate`), `status_complete` (no error);
* (b) `status_sound`, (c) `status_complete_tree`: the same in terms of `stored` (the tree the store
  holds) and `SameTree` (equality as finite maps) of the workspace read through its links;
* (a) `status_after_commit`, `status_after_checkout`;
* (d) `status_detects_deleted / _modified / _added / _nested / _edit`;
  `dir_upToDate_needs_manifest`: a directory is reported `ContentsMatch` only if its manifest is
  recorded and in the cache (`dir_uncommitted_not_upToDate`, and the toy witnesses
  `empty_dir_no_checksum_not_upToDate`, `empty_dir_manifest_missing_not_upToDate`);
* (e) `render_uptodate_iff`, `fileStatus_render_iff`, and two negative witnesses:
  `render_hides_missing_subdir` (flag false, rendering shows nothing stale) and
  `status_cm_link_to_manifest` (a link to the manifest object where a sub-directory should be:
  flag TRUE and rendering clean; only the spec predicate `Status.typed` sees it — this is the one
  caveat the soundness theorems carry as the hypothesis `st.typed = true`).
-/
namespace Dud

variable {κ : Type} [DecidableEq κ]

/-! ## (b)+(c) exact characterisation -/

/-- **sound and complete, directories.** -/
theorem dirStatus_cm_iff {ctx : Ctx κ} {s : Store κ} {fuel : Nat} {nm : Bytes} {sum : Digest}
    {cur : Option (Node κ)} {st : Status} (h : dirStatus ctx s fuel nm false sum cur = .ok st) :
    (st.cm = true ∧ st.typed = true) ↔ ∃ n, cur = some n ∧ UpToDate ctx s fuel true sum n :=
  dirStatus_iff ctx s fuel nm sum cur st h

/-- **sound and complete, files.** -/
theorem fileStatus_cm_iff' {ctx : Ctx κ} {s : Store κ} {nm : Bytes} {sum : Digest}
    {cur : Option (Node κ)} (fuel : Nat) :
    (fileStatus ctx s nm false sum cur).cm = true ↔
      ∃ n, cur = some n ∧ UpToDate ctx s fuel false sum n := by
  rw [fileStatus_cm_iff]; simp only [UpToDate_file]

/-- on a workspace DIRECTORY the typing side condition only concerns the children -/
theorem status_sound_dir {ctx : Ctx κ} {s : Store κ} {fuel : Nat} {nm : Bytes} {sum : Digest}
    {es : List (Name × Node κ)} {st : Status}
    (h : dirStatus ctx s fuel nm false sum (some (.dir es)) = .ok st)
    (hcm : st.cm = true) (hty : typedList st.children = true) :
    UpToDate ctx s fuel true sum (.dir es) := by
  have hws : st.ws = .directory := by
    cases fuel with
    | zero => simp [dirStatus] at h
    | succ fuel =>
      simp only [dirStatus] at h
      split at h; · cases h
      split at h; · cases h
      split at h; · cases h
      simp only [Except.ok.injEq] at h; subst h; rfl
  obtain ⟨n, hn, hu⟩ := (dirStatus_cm_iff h).mp ⟨hcm, by rw [Status.typed_eq, hws, hty]; simp⟩
  cases hn; exact hu

/-- **complete**: no error, `ContentsMatch = true`. -/
theorem status_complete {ctx : Ctx κ} {s : Store κ} {fuel : Nat} {sum : Digest} {n : Node κ}
    (nm : Bytes) (h : UpToDate ctx s fuel true sum n) :
    ∃ st, dirStatus ctx s fuel nm false sum (some n) = .ok st ∧ st.cm = true ∧ st.typed = true :=
  dirStatus_of_upToDate nm h

/-- **(b) status_sound.**  If status reports a (sorted, i.e. duplicate-free) workspace directory as
`ContentsMatch` with no type complaint, then the workspace, read through its links into the cache,
and the tree the store holds under the checksum agree as finite maps: the same entry names at every
level and equal file bytes.  No assumption on the hash or the codec is needed. -/
theorem status_sound {ctx : Ctx κ} {s : Store κ} {fuel : Nat} {nm : Bytes} {sum : Digest}
    {n t : Node κ} {st : Status} (h : dirStatus ctx s fuel nm false sum (some n) = .ok st)
    (hcm : st.cm = true) (hty : st.typed = true) (hs : n.sorted = true)
    (ht : stored ctx s fuel ⟨nm, sum, true⟩ = some t) :
    SameTree (deref ctx s n) t := by
  obtain ⟨n', hn', hu⟩ := (dirStatus_cm_iff h).mp ⟨hcm, hty⟩
  cases hn'
  exact upToDate_sameTree ctx s fuel ⟨nm, sum, true⟩ n t hu ht hs

/-- (b) for a file artifact -/
theorem status_sound_file {ctx : Ctx κ} {s : Store κ} {nm : Bytes} {sum : Digest}
    {n t : Node κ} (hcm : (fileStatus ctx s nm false sum (some n)).cm = true) (fuel : Nat)
    (ht : stored ctx s fuel ⟨nm, sum, false⟩ = some t) :
    SameTree (deref ctx s n) t := by
  obtain ⟨n', hn', hu⟩ := (fileStatus_cm_iff ctx s nm sum (some n)).mp hcm
  cases hn'
  exact fileOK_sameTree (c := ⟨nm, sum, false⟩) rfl hu ht

/-- **(c) status_complete.**  Conversely, if every object needed is in the cache (`stored = some t`)
and the workspace — regular files, directories, links into the cache — read through its links equals
the stored tree, status succeeds with `ContentsMatch = true`.  (Consistent cache; manifests list
every name once.) -/
theorem status_complete_tree {ctx : Ctx κ} {s : Store κ} (hcons : Consistent ctx s)
    (hnd : ManifestsNodup ctx s) {fuel : Nat} {nm : Bytes} {sum : Digest} {n t : Node κ}
    (ht : stored ctx s fuel ⟨nm, sum, true⟩ = some t) (hst : SameTree (deref ctx s n) t) :
    ∃ st, dirStatus ctx s fuel nm false sum (some n) = .ok st ∧ st.cm = true ∧ st.typed = true :=
  status_complete nm (sameTree_upToDate ctx s hcons hnd fuel ⟨nm, sum, true⟩ n t hst ht)

theorem status_complete_tree_file {ctx : Ctx κ} {s : Store κ} (hcons : Consistent ctx s)
    {fuel : Nat} {nm : Bytes} {sum : Digest} {n t : Node κ}
    (ht : stored ctx s fuel ⟨nm, sum, false⟩ = some t) (hst : SameTree (deref ctx s n) t) :
    (fileStatus ctx s nm false sum (some n)).cm = true :=
  (fileStatus_cm_iff ctx s nm sum (some n)).mpr
    ⟨n, rfl, sameTree_fileOK hcons (c := ⟨nm, sum, false⟩) rfl hst ht⟩

/-! ## (a) after commit, after checkout -/

section commit
omit [DecidableEq κ]

def NodeS (ctx : Ctx κ) (t : Node κ) : Prop :=
  ∀ (nm : Bytes) (s : Store κ) (strat : Strat), Consistent ctx s →
    ∃ t' s', commitNode ctx strat t ⟨nm, "", t.isDir⟩ s
        = .ok (t', ⟨nm, treeDigest ctx nm t, t.isDir⟩, s') ∧
      Consistent ctx s' ∧ Store.le ctx s s' ∧
      ∀ s'', Store.le ctx s' s'' → ∀ k : Nat,
        UpToDate ctx s'' (depth t + k) t.isDir (treeDigest ctx nm t) t'

def EntriesS (ctx : Ctx κ) (es : List (Name × Node κ)) : Prop :=
  ∀ (s : Store κ) (strat : Strat), Consistent ctx s →
    ∃ es' s', commitEntries ctx strat false es [] s = .ok (es', childrenOf ctx es, s') ∧
      Consistent ctx s' ∧ Store.le ctx s s' ∧
      ∀ s'', Store.le ctx s' s'' → ∀ fuel, depthList es ≤ fuel → Pointwise ctx s'' fuel es es'

theorem fileS {ctx : Ctx κ} (g : Good ctx) (x : κ) : NodeS ctx (.file x) := by
  intro nm s strat hc
  have hq : (quick s "" (some (Node.file x))).cm = false := by simp [quick]
  have hput : Consistent ctx (s.put (ctx.H x) (.blob x)) := hc.put (.blob x)
  have hle : Store.le ctx s (s.put (ctx.H x) (.blob x)) := Store.le_put g hc (.blob x)
  have hst : ∀ (t' : Node κ), (t' = .file x ∨ t' = .link (.obj (ctx.H x))) →
      ∀ s'', Store.le ctx (s.put (ctx.H x) (.blob x)) s'' → ∀ k : Nat,
        UpToDate ctx s'' (depth (Node.file x) + k) (Node.file x).isDir
          (treeDigest ctx nm (.file x)) t' := by
    intro t' ht' s'' hle'' k
    obtain ⟨o, ho, hb⟩ := hle'' (ctx.H x) (.blob x) (Store.get_put_self _ _ _)
    simp only [Node.isDir, treeDigest, UpToDate_file]
    refine ⟨hasSum_H g x, o, ho, ?_⟩
    have hb' : o.bytes ctx = x := hb
    rw [hb']; exact ht'
  cases strat with
  | link =>
    exact ⟨.link (.obj (ctx.H x)), s.put (ctx.H x) (.blob x),
      by simp [commitNode, commitFile, hq, Node.isDir, treeDigest], hput, hle, hst _ (Or.inr rfl)⟩
  | copy =>
    exact ⟨.file x, s.put (ctx.H x) (.blob x),
      by simp [commitNode, commitFile, hq, Node.isDir, treeDigest], hput, hle, hst _ (Or.inl rfl)⟩

theorem nilS (ctx : Ctx κ) : EntriesS ctx [] := by
  intro s strat hc
  exact ⟨[], s, by simp [commitEntries, childrenOf], hc, Store.le_refl _ _,
    fun _ _ _ _ => by simp [Pointwise]⟩

theorem consS {ctx : Ctx κ} {nm : Name} {n : Node κ} {r : List (Name × Node κ)}
    (hnm : ctx.nameOK nm = true) (hn : NodeS ctx n) (hr : EntriesS ctx r) :
    EntriesS ctx ((nm, n) :: r) := by
  intro s strat hc
  obtain ⟨n', s1, hcn, hc1, hle1, hu1⟩ := hn nm s strat hc
  obtain ⟨r', s2, hcr, hc2, hle2, hu2⟩ := hr s1 strat hc1
  refine ⟨(nm, n') :: r', s2, ?_, hc2, Store.le_trans hle1 hle2, ?_⟩
  · simp [commitEntries, findChild, hnm, hcn, hcr, childrenOf]
  · intro s'' hle'' fuel hfuel
    have hdn : depth n ≤ fuel := by simp only [depthList] at hfuel; omega
    have hdr : depthList r ≤ fuel := by simp only [depthList] at hfuel; omega
    have h1 := hu1 s'' (Store.le_trans hle2 hle'') (fuel - depth n)
    have hfe : depth n + (fuel - depth n) = fuel := by omega
    rw [hfe] at h1
    simp only [Pointwise]
    exact ⟨n', r', rfl, h1, hu2 s'' hle'' fuel hdr⟩

theorem dirS {ctx : Ctx κ} (g : Good ctx) {es : List (Name × Node κ)}
    (hs : sortedList es = true) (hn : NamesOKList ctx es) (he : EntriesS ctx es) :
    NodeS ctx (.dir es) := by
  intro nm s strat hc
  obtain ⟨es', s2, hce, hc2, hle2, hu2⟩ := he s strat hc
  have hsort := sortChildren_childrenOf ctx es hs
  let m : Obj κ := .man .new nm (childrenOf ctx es)
  have hput : Consistent ctx (s2.put (m.digest ctx) m) := hc2.put m
  have hlep : Store.le ctx s2 (s2.put (m.digest ctx) m) := Store.le_put g hc2 m
  refine ⟨.dir es', s2.put (m.digest ctx) m, ?_, hput, Store.le_trans hle2 hlep, ?_⟩
  · simp [commitNode, oldManifest, hasSum_empty, hce, hsort, Node.isDir, treeDigest, m]
  · intro s'' hle'' k
    obtain ⟨o, ho, hb⟩ := hle'' (m.digest ctx) m (Store.get_put_self _ _ _)
    have hread : readManifest ctx s'' (m.digest ctx) = .ok (childrenOf ctx es) := by
      have hmap := map_reload_childrenOf ctx .new es
        (fun e he sum isDir => (hn e.1 (mem_allNamesList_of_mem he)).2.1 .new sum isDir)
      rw [readManifest_of_bytes g ho (sch := .new) (p := nm) (cs := childrenOf ctx es) hb
        (by rw [hmap]; exact childrenOK_childrenOf hn), hmap]
    have hfuel : depth (Node.dir es) + k = (depthList es + k) + 1 := by
      simp only [depth]; omega
    have hp := hu2 s'' (Store.le_trans hlep hle'') (depthList es + k) (by omega)
    obtain ⟨h1, h2⟩ := pointwise_children ctx s'' (depthList es + k) es es' hs hp
    have hh : hasSum (m.digest ctx) = true := hasSum_H g _
    have htd : treeDigest ctx nm (Node.dir es) = m.digest ctx := by simp [treeDigest, hsort, m]
    rw [hfuel, htd]
    simp only [UpToDate, Node.isDir, if_true]
    exact ⟨es', childrenOf ctx es, rfl, ⟨hh, Store.has_of_get ho⟩, hread, h1, h2⟩

mutual
theorem commitNode_S {ctx : Ctx κ} (g : Good ctx) : ∀ (t : Node κ),
    t.plain = true → t.sorted = true → NamesOK ctx t → NodeS ctx t
  | .file x, _, _, _ => fileS g x
  | .dir es, hp, hs, hn =>
    have hp' : plainList es = true := by simpa [Node.plain] using hp
    have hs' : sortedList es = true := by simpa [Node.sorted] using hs
    have hn' : NamesOKList ctx es := fun x hx => hn x (by simpa [allNames] using hx)
    dirS g hs' hn' (commitEntries_S g es hp' hs' hn')
  | .link _, hp, _, _ => by simp [Node.plain] at hp
  | .other, hp, _, _ => by simp [Node.plain] at hp
theorem commitEntries_S {ctx : Ctx κ} (g : Good ctx) : ∀ (es : List (Name × Node κ)),
    plainList es = true → sortedList es = true → NamesOKList ctx es → EntriesS ctx es
  | [], _, _, _ => nilS ctx
  | (_, n) :: r, hp, hs, hn =>
    consS (hn _ mem_allNamesList_head).1
      (commitNode_S g n (plainList_cons hp).1 (sortedList_cons hs).1 (namesOK_node hn))
      (commitEntries_S g r (plainList_cons hp).2 (sortedList_cons hs).2 (namesOK_tail hn))
end

end commit

omit [DecidableEq κ] in
/-- the workspace node left by a fresh commit is up to date in every later store -/
theorem upToDate_after_commit (ctx : Ctx κ) (g : Good ctx) (t : Node κ) (nm : Bytes)
    (hp : t.plain = true) (hs : t.sorted = true) (hn : NamesOK ctx t)
    (s : Store κ) (hc : Consistent ctx s) (strat : Strat)
    {t' : Node κ} {c' : Child} {s' : Store κ}
    (h : commitNode ctx strat t ⟨nm, "", t.isDir⟩ s = .ok (t', c', s'))
    {s'' : Store κ} (hle : Store.le ctx s' s'') (k : Nat) :
    UpToDate ctx s'' (depth t + k) t.isDir c'.sum t' := by
  obtain ⟨t1, s1, h1, _, _, hu⟩ := commitNode_S g t hp hs hn nm s strat hc
  rw [h1] at h
  simp only [Except.ok.injEq, Prod.mk.injEq] at h
  obtain ⟨rfl, rfl, rfl⟩ := h
  exact hu s'' hle k

/-- **(a) status after commit.**  Right after committing a fresh plain tree (and in every later
store) status reports the artifact as up to date, without error. -/
theorem status_after_commit (ctx : Ctx κ) (g : Good ctx) (t : Node κ) (nm : Bytes)
    (hp : t.plain = true) (hs : t.sorted = true) (hn : NamesOK ctx t)
    (s : Store κ) (hc : Consistent ctx s) (strat : Strat)
    {t' : Node κ} {c' : Child} {s' : Store κ}
    (h : commitNode ctx strat t ⟨nm, "", t.isDir⟩ s = .ok (t', c', s'))
    {s'' : Store κ} (hle : Store.le ctx s' s'') (k : Nat) :
    (t.isDir = true → ∃ st, dirStatus ctx s'' (depth t + k) nm false c'.sum (some t') = .ok st ∧
        st.cm = true ∧ st.typed = true) ∧
    (t.isDir = false → (fileStatus ctx s'' nm false c'.sum (some t')).cm = true) := by
  have hu := upToDate_after_commit ctx g t nm hp hs hn s hc strat h hle k
  constructor
  · intro hd; rw [hd] at hu; exact status_complete nm hu
  · intro hd; rw [hd] at hu
    exact (fileStatus_cm_iff' (depth t + k)).mpr ⟨t', rfl, hu⟩

/-- **(a) status after checkout.**  The node a checkout creates in an absent place is reported up
to date (manifests list every name once, as Go maps do). -/
theorem status_after_checkout {ctx : Ctx κ} {s : Store κ} {strat : Strat}
    (hnd : ManifestsNodup ctx s) {fuel : Nat} {c : Child} {r : Node κ}
    (h : checkoutNode ctx strat s fuel none c = .ok r) :
    (c.isDir = true → ∃ st, dirStatus ctx s fuel c.name false c.sum (some r) = .ok st ∧
        st.cm = true ∧ st.typed = true) ∧
    (c.isDir = false → (fileStatus ctx s c.name false c.sum (some r)).cm = true) := by
  have hu := checkoutNode_fresh_upToDate hnd fuel c r h
  constructor
  · intro hd; rw [hd] at hu; exact status_complete c.name hu
  · intro hd; rw [hd] at hu
    exact (fileStatus_cm_iff' fuel).mpr ⟨r, rfl, hu⟩

/-! ## (d) status detects edits -/

theorem dirStatus_none_cm {ctx : Ctx κ} {s : Store κ} {fuel : Nat} {nm : Bytes} {sum : Digest}
    {st : Status} (h : dirStatus ctx s fuel nm false sum none = .ok st) : st.cm = false := by
  cases fuel with
  | zero => simp [dirStatus] at h
  | succ fuel =>
    simp only [dirStatus, Except.ok.injEq] at h
    subst h; rfl

/-- **deleting an entry** the manifest names makes `ContentsMatch = false`. -/
theorem status_detects_deleted {ctx : Ctx κ} {s : Store κ} {fuel : Nat} {nm : Bytes} {sum : Digest}
    {es : List (Name × Node κ)} {st : Status} {cs : List Child} {k : Child}
    (h : dirStatus ctx s (fuel + 1) nm false sum (some (.dir es)) = .ok st)
    (hm : statusManifest ctx s sum = .ok cs) (hk : k ∈ cs) (hdel : alookup es k.name = none) :
    st.cm = false := by
  obtain ⟨cs', hm', hiff⟩ := dirStatus_cm_step h
  rw [hm] at hm'; cases hm'
  cases hcm : st.cm with
  | false => rfl
  | true =>
    obtain ⟨st', hst', hcm'⟩ := (hiff.mp hcm).2.1 k hk
    unfold childStatus at hst'
    rw [hdel] at hst'
    split at hst'
    · rw [dirStatus_none_cm hst'] at hcm'; cases hcm'
    · simp only [Except.ok.injEq] at hst'; subst hst'
      obtain ⟨n, hn, _⟩ := (fileStatus_cm_iff ctx s k.name k.sum none).mp hcm'
      cases hn

/-- **replacing a file's bytes** by different bytes makes `ContentsMatch = false`. -/
theorem status_detects_modified {ctx : Ctx κ} {s : Store κ} {fuel : Nat} {nm : Bytes} {sum : Digest}
    {es : List (Name × Node κ)} {st : Status} {cs : List Child} {k : Child} {b : κ} {o : Obj κ}
    (h : dirStatus ctx s (fuel + 1) nm false sum (some (.dir es)) = .ok st)
    (hm : statusManifest ctx s sum = .ok cs) (hk : k ∈ cs) (hf : k.isDir = false)
    (hcur : alookup es k.name = some (.file b)) (ho : s.get k.sum = some o)
    (hne : b ≠ o.bytes ctx) : st.cm = false := by
  obtain ⟨cs', hm', hiff⟩ := dirStatus_cm_step h
  rw [hm] at hm'; cases hm'
  cases hcm : st.cm with
  | false => rfl
  | true =>
    obtain ⟨st', hst', hcm'⟩ := (hiff.mp hcm).2.1 k hk
    unfold childStatus at hst'
    simp only [hf, Bool.false_eq_true, if_false, Except.ok.injEq] at hst'
    subst hst'
    obtain ⟨n, hn, _, o', ho', hor⟩ := (fileStatus_cm_iff ctx s k.name k.sum _).mp hcm'
    rw [hcur] at hn; cases hn
    rw [ho] at ho'; cases ho'
    rcases hor with h1 | h1
    · simp only [Node.file.injEq] at h1; exact absurd h1 hne
    · cases h1

/-- **adding an entry** (a file, a link, an empty directory, anything) the manifest does not name
makes `ContentsMatch = false`. -/
theorem status_detects_added {ctx : Ctx κ} {s : Store κ} {fuel : Nat} {nm : Bytes} {sum : Digest}
    {es : List (Name × Node κ)} {st : Status} {cs : List Child} {e : Name × Node κ}
    (h : dirStatus ctx s (fuel + 1) nm false sum (some (.dir es)) = .ok st)
    (hm : statusManifest ctx s sum = .ok cs) (he : e ∈ es) (hnew : findChild cs e.1 = none) :
    st.cm = false := by
  obtain ⟨cs', hm', hiff⟩ := dirStatus_cm_step h
  rw [hm] at hm'; cases hm'
  cases hcm : st.cm with
  | false => rfl
  | true =>
    have := (hiff.mp hcm).2.2 e he
    rw [hnew] at this; cases this

/-- **an edit deeper down** propagates: a sub-directory entry whose own status is not
`ContentsMatch` makes the parent's `ContentsMatch = false`. -/
theorem status_detects_nested {ctx : Ctx κ} {s : Store κ} {fuel : Nat} {nm : Bytes} {sum : Digest}
    {es : List (Name × Node κ)} {st st' : Status} {cs : List Child} {k : Child}
    (h : dirStatus ctx s (fuel + 1) nm false sum (some (.dir es)) = .ok st)
    (hm : statusManifest ctx s sum = .ok cs) (hk : k ∈ cs) (hd : k.isDir = true)
    (hsub : dirStatus ctx s fuel k.name false k.sum (alookup es k.name) = .ok st')
    (hcm' : st'.cm = false) : st.cm = false := by
  obtain ⟨cs', hm', hiff⟩ := dirStatus_cm_step h
  rw [hm] at hm'; cases hm'
  cases hcm : st.cm with
  | false => rfl
  | true =>
    obtain ⟨st2, hst2, hcm2⟩ := (hiff.mp hcm).2.1 k hk
    unfold childStatus at hst2
    simp only [hd, if_true] at hst2
    rw [hsub] at hst2; cases hst2
    rw [hcm'] at hcm2; cases hcm2

/-- **a directory is up to date only if its manifest is recorded and in the cache** (the repaired
`dirArtifactStatus`: `ContentsMatch` starts from `HasChecksum && ChecksumInCache`).  Holds for every
fuel, recursive or not, and whatever sits in the workspace. -/
theorem dir_upToDate_needs_manifest {ctx : Ctx κ} {s : Store κ} {fuel : Nat} {nm : Bytes}
    {noRec : Bool} {sum : Digest} {cur : Option (Node κ)} {st : Status}
    (h : dirStatus ctx s fuel nm noRec sum cur = .ok st) (hcm : st.cm = true) :
    hasSum sum = true ∧ s.has sum = true := by
  cases fuel with
  | zero => simp [dirStatus] at h
  | succ fuel =>
    simp only [dirStatus] at h
    split at h
    · split at h; · cases h
      split at h; · cases h
      split at h; · cases h
      simp only [Except.ok.injEq] at h
      subst h
      simp only [quick, Bool.and_eq_true] at hcm
      exact ⟨hcm.1.1.1, hcm.1.1.2.2⟩
    · simp only [Except.ok.injEq] at h
      subst h
      simp only [quick] at hcm
      split at hcm
      · simp only [Bool.and_eq_true] at hcm
        exact hcm.1
      · cases hcm

/-- consequently a directory artifact that was never committed (`sum = ""`) is never reported
up to date, however empty the workspace directory is -/
theorem dir_uncommitted_not_upToDate {ctx : Ctx κ} {s : Store κ} {fuel : Nat} {nm : Bytes}
    {noRec : Bool} {cur : Option (Node κ)} {st : Status}
    (h : dirStatus ctx s fuel nm noRec "" cur = .ok st) : st.cm = false := by
  cases hcm : st.cm with
  | false => rfl
  | true =>
    have := (dir_upToDate_needs_manifest h hcm).1
    rw [hasSum_empty] at this; cases this

/-- in `UpToDate` terms: whatever is not up to date is never reported clean and well typed -/
theorem status_detects_edit {ctx : Ctx κ} {s : Store κ} {fuel : Nat} {nm : Bytes} {sum : Digest}
    {n : Node κ} {st : Status} (h : dirStatus ctx s fuel nm false sum (some n) = .ok st)
    (hne : ¬ UpToDate ctx s fuel true sum n) : st.cm = false ∨ st.typed = false := by
  cases hcm : st.cm with
  | false => exact Or.inl rfl
  | true =>
    cases hty : st.typed with
    | false => exact Or.inr rfl
    | true =>
      obtain ⟨n', hn', hu⟩ := (dirStatus_cm_iff h).mp ⟨hcm, hty⟩
      cases hn'; exact absurd hu hne

/-! ## (e) rendering -/

section render
omit [DecidableEq κ]

/-- the three renderings that claim "up to date" -/
def Status.saysUpToDate (st : Status) : Prop :=
  st.leafString = some "up-to-date" ∨ st.leafString = some "up-to-date (link)" ∨
    st.leafString = some "up-to-date (not cached)"

def leafOf (isDir skip : Bool) (ws : WS) (has inCache cm : Bool) : Option String :=
  Status.leafString ⟨[], isDir, skip, ws, has, inCache, cm, []⟩

theorem leafString_eq (st : Status) :
    st.leafString = leafOf st.isDir st.skip st.ws st.has st.inCache st.cm := by cases st; rfl

theorem leafOf_uptodate_iff (isDir skip : Bool) (ws : WS) (has inCache cm : Bool) :
    (leafOf isDir skip ws has inCache cm = some "up-to-date" ∨
      leafOf isDir skip ws has inCache cm = some "up-to-date (link)" ∨
      leafOf isDir skip ws has inCache cm = some "up-to-date (not cached)") ↔
      (isDir = false ∧ has = true ∧ cm = true ∧
        ((ws = .regular ∧ (inCache = true ∨ skip = true)) ∨
         (ws = .link ∧ skip = false ∧ inCache = true))) := by
  cases ws <;> cases isDir <;> cases skip <;> cases has <;> cases inCache <;> cases cm <;> decide

/-- **(e)** a non-directory status is rendered "up-to-date…" exactly when it is a file artifact
with a checksum whose `ContentsMatch` holds, on a regular file (object cached, or artifact skipped)
or — not skipped — on a link with the object cached. -/
theorem render_uptodate_iff (st : Status) :
    st.saysUpToDate ↔
      (st.isDir = false ∧ st.has = true ∧ st.cm = true ∧
        ((st.ws = .regular ∧ (st.inCache = true ∨ st.skip = true)) ∨
         (st.ws = .link ∧ st.skip = false ∧ st.inCache = true))) := by
  unfold Status.saysUpToDate
  rw [leafString_eq]
  exact leafOf_uptodate_iff ..

theorem render_leaf (st : Status) (str : String) (h : st.leafString = some str) : st.render = str := by
  simp [Status.render, h]

/-- for the statuses `fileStatus` computes (not skipped) the rendering is truthful:
"up-to-date…" iff `ContentsMatch` -/
theorem fileStatus_render_iff [DecidableEq κ] (ctx : Ctx κ) (s : Store κ) (nm : Bytes)
    (sum : Digest) (cur : Option (Node κ)) :
    (fileStatus ctx s nm false sum cur).saysUpToDate ↔ (fileStatus ctx s nm false sum cur).cm = true := by
  rw [render_uptodate_iff]
  constructor
  · exact fun h => h.2.2.1
  · intro hcm
    obtain ⟨n, rfl, hh, o, ho, hn⟩ := (fileStatus_cm_iff ctx s nm sum cur).mp hcm
    have hhas : s.has sum = true := by simp [Store.has, ho]
    rcases hn with rfl | rfl
    · refine ⟨?_, ?_, hcm, Or.inl ⟨?_, Or.inl ?_⟩⟩ <;> simp [fileStatus, quick, hh, hhas, ho, wsOf]
    · refine ⟨?_, ?_, hcm, Or.inr ⟨?_, ?_, ?_⟩⟩ <;> simp [fileStatus, quick, hh, hhas, wsOf]

end render

/-! ## Negative witnesses and non-vacuity -/

namespace C05
def ctx : Ctx Nat :=
  { H := fun n => if n = 0 then "aaa" else if n = 1 then "bbb" else "ccc"
    encMan := fun _ _ _ => 99, decBlob := fun _ => none, reload := fun _ c => c
    nameOK := fun _ => true }
/-- `mmm` = {x ↦ aaa, s/ ↦ nnn}, `nnn` = {z ↦ bbb} -/
def store : Store Nat :=
  [("aaa", .blob 0), ("bbb", .blob 1),
   ("mmm", .man .new [] [⟨[120], "aaa", false⟩, ⟨[115], "nnn", true⟩]),
   ("nnn", .man .new [115] [⟨[122], "bbb", false⟩])]
/-- the workspace `store` describes under `mmm` (x as a link, s/z as a copy) -/
def good : Node Nat := .dir [([120], .link (.obj "aaa")), ([115], .dir [([122], .file 1)])]
end C05

open C05 in
example : ∃ st, dirStatus ctx store 3 [] false "mmm" (some good) = .ok st ∧ st.cm = true ∧
    st.typed = true ∧ st.render = "2x directory, 1x up-to-date, 1x up-to-date (link)" :=
  ⟨_, rfl, rfl, rfl, by decide⟩
open C05 in
example : UpToDate ctx store 3 true "mmm" good := by
  have h : ∃ st, dirStatus ctx store 3 [] false "mmm" (some good) = .ok st ∧ st.cm = true ∧
      st.typed = true := ⟨_, rfl, rfl, rfl⟩
  obtain ⟨st, hst, hcm, hty⟩ := h
  obtain ⟨n, hn, hu⟩ := (dirStatus_cm_iff hst).mp ⟨hcm, hty⟩
  cases hn; exact hu

open C05 in
-- (b)/(c): the stored tree, and the hypotheses of `status_sound` on a workspace listed in ANOTHER
-- order than the manifest and mixing a link with a copy
example : stored ctx store 3 ⟨[], "mmm", true⟩
    = some (.dir [([120], .file 0), ([115], .dir [([122], .file 1)])]) := rfl
open C05 in
example : ∃ st, dirStatus ctx store 3 [] false "mmm"
      (some (.dir [([115], .dir [([122], .file 1)]), ([120], .link (.obj "aaa"))])) = .ok st ∧
    st.cm = true ∧ st.typed = true ∧
    (Node.dir [([115], .dir [([122], .file 1)]), ([120], .link (.obj "aaa"))] : Node Nat).sorted = true :=
  ⟨_, rfl, rfl, rfl, by decide⟩
open C05 in
example : SameTree (deref ctx store (.dir [([115], .dir [([122], .file 1)]), ([120], .link (.obj "aaa"))]))
    (.dir [([120], .file 0), ([115], .dir [([122], .file 1)])]) :=
  status_sound (st := _) (nm := []) (sum := "mmm") (fuel := 3) rfl rfl rfl (by decide) rfl
namespace C05
/-- a consistent toy cache: every object sits under the hash of its bytes
(`mm2` = {x ↦ aaa, y ↦ bbb}, all manifests encode to the bytes 99) -/
def ctx2 : Ctx Nat :=
  { H := fun n => if n = 0 then "aaa" else if n = 1 then "bbb" else if n = 99 then "mm2" else "ccc"
    encMan := fun _ _ _ => 99, decBlob := fun _ => none, reload := fun _ c => c
    nameOK := fun _ => true }
def store2 : Store Nat :=
  [("aaa", .blob 0), ("bbb", .blob 1),
   ("mm2", .man .new [] [⟨[120], "aaa", false⟩, ⟨[121], "bbb", false⟩])]
theorem store2_consistent : Consistent ctx2 store2 := by
  intro d o h
  have hmem := alookup_mem h
  simp only [store2, List.mem_cons, Prod.mk.injEq, List.not_mem_nil, or_false] at hmem
  rcases hmem with ⟨rfl, rfl⟩ | ⟨rfl, rfl⟩ | ⟨rfl, rfl⟩ <;> rfl
theorem store2_nodup : ManifestsNodup ctx2 store2 := by
  intro d cs h
  unfold readManifest at h
  cases hg : store2.get d with
  | none => rw [hg] at h; cases h
  | some o =>
    have hmem := alookup_mem hg
    rw [hg] at h
    simp only [store2, List.mem_cons, Prod.mk.injEq, List.not_mem_nil, or_false] at hmem
    rcases hmem with ⟨rfl, rfl⟩ | ⟨rfl, rfl⟩ | ⟨rfl, rfl⟩
    · cases h
    · cases h
    · obtain ⟨rfl, -⟩ := checkedChildren_eq_ok h; decide
end C05
open C05 in
-- (c): workspace in another order, one link and one copy; hypotheses hold, conclusion computed too
example : ∃ st, dirStatus ctx2 store2 2 [] false "mm2"
    (some (.dir [([121], .link (.obj "bbb")), ([120], .file 0)])) = .ok st ∧ st.cm = true ∧
    st.typed = true :=
  status_complete_tree store2_consistent store2_nodup
    (t := .dir [([120], .file 0), ([121], .file 1)]) rfl
    (by
      simp only [deref, derefList, store2, Store.get, alookup, Obj.bytes, SameTree, SameList]
      refine ⟨_, rfl, ⟨⟨_, rfl, rfl⟩, ⟨_, rfl, rfl⟩, trivial⟩, ?_⟩
      intro e he
      simp only [List.mem_cons, List.not_mem_nil, or_false] at he
      rcases he with rfl | rfl <;> rfl)
open C05 in
/-- **Negative witness (rendering is weaker than the flag).**  The manifest names a sub-directory
`s/` that is absent from the workspace: `ContentsMatch = false`, yet the human rendering shows no
stale word — the missing directory is counted as "1x empty directory". -/
theorem render_hides_missing_subdir :
    ∃ st, dirStatus ctx store 3 [] false "mmm" (some (.dir [([120], .file 0)])) = .ok st ∧
      st.cm = false ∧ st.render = "1x directory, 1x empty directory, 1x up-to-date" :=
  ⟨_, rfl, rfl, by decide⟩

open C05 in
/-- **Negative witness (the flag lies).**  A link to the manifest object where the directory `s/`
should be: `ContentsMatch = true` for the whole artifact although the workspace has no directory
`s/` at all, and the rendering is the same harmless-looking line as above (`dirStatusCounts` never
calls `String()` on a directory child, so its "incorrect file type" is not shown).  Only the spec
predicate `Status.typed` sees it. -/
theorem status_cm_link_to_manifest :
    ∃ st, dirStatus ctx store 3 [] false "mmm"
        (some (.dir [([120], .file 0), ([115], .link (.obj "nnn"))])) = .ok st ∧
      st.cm = true ∧ st.typed = false ∧
      st.render = "1x directory, 1x empty directory, 1x up-to-date" :=
  ⟨_, rfl, rfl, rfl, by decide⟩

open C05 in
-- the three edits of (d), concretely: modified bytes, deleted entry, added empty directory
example : ∃ st, dirStatus ctx store 3 [] false "mmm"
    (some (.dir [([120], .file 7), ([115], .dir [([122], .file 1)])])) = .ok st ∧ st.cm = false :=
  ⟨_, rfl, rfl⟩
open C05 in
example : ∃ st, dirStatus ctx store 3 [] false "mmm"
    (some (.dir [([120], .file 0), ([115], .dir [])])) = .ok st ∧ st.cm = false := ⟨_, rfl, rfl⟩
open C05 in
example : ∃ st, dirStatus ctx store 3 [] false "mmm"
    (some (.dir [([120], .file 0), ([115], .dir [([122], .file 1)]), ([101], .dir [])])) = .ok st ∧
    st.cm = false := ⟨_, rfl, rfl⟩
open C05 in
/-- **repaired behaviour, concretely (1).**  An EMPTY workspace directory whose artifact has no
checksum (never committed): `ContentsMatch = false`.  Before the repair of `dirArtifactStatus`
(`ContentsMatch` started from `true`) this was `true`. -/
theorem empty_dir_no_checksum_not_upToDate :
    ∃ st, dirStatus ctx store 3 [] false "" (some (.dir [])) = .ok st ∧ st.cm = false ∧
      st.has = false ∧ st.inCache = false ∧ st.children = [] ∧ st.render = "1x empty directory" :=
  ⟨_, rfl, rfl, rfl, rfl, rfl, by decide⟩
open C05 in
/-- **repaired behaviour, concretely (2).**  The same empty directory with a well-formed checksum
whose manifest is NOT in the store: `ContentsMatch = false` (was `true` before the repair). -/
theorem empty_dir_manifest_missing_not_upToDate :
    ∃ st, dirStatus ctx store 3 [] false "zzz" (some (.dir [])) = .ok st ∧ st.cm = false ∧
      st.has = true ∧ st.inCache = false ∧ st.children = [] ∧ st.render = "1x empty directory" :=
  ⟨_, rfl, rfl, rfl, rfl, rfl, by decide⟩
open C05 in
theorem C05.store_nodup : ManifestsNodup ctx store := by
  intro d cs h
  unfold readManifest at h
  cases hg : store.get d with
  | none => rw [hg] at h; cases h
  | some o =>
    have hmem := alookup_mem hg
    rw [hg] at h
    simp only [store, List.mem_cons, Prod.mk.injEq, List.not_mem_nil, or_false] at hmem
    rcases hmem with ⟨rfl, rfl⟩ | ⟨rfl, rfl⟩ | ⟨rfl, rfl⟩ | ⟨rfl, rfl⟩
    · cases h
    · cases h
    · obtain ⟨rfl, -⟩ := checkedChildren_eq_ok h; decide
    · obtain ⟨rfl, -⟩ := checkedChildren_eq_ok h; decide
open C05 in
example : ∃ st, dirStatus ctx store 3 [] false "mmm"
    (some (.dir [([120], .file 0), ([115], .dir [([122], .file 1)])])) = .ok st ∧ st.cm = true :=
  let ⟨st, h, hcm, _⟩ := (status_after_checkout store_nodup (strat := .copy) (fuel := 3)
    (c := ⟨[], "mmm", true⟩) rfl).1 rfl
  ⟨st, h, hcm⟩
open C05 in
example : checkoutNode ctx .copy store 3 none ⟨[], "mmm", true⟩
    = .ok (.dir [([120], .file 0), ([115], .dir [([122], .file 1)])]) := by rfl

-- (a): all hypotheses of `status_after_commit` hold for the example tree of C01
open Example in
example (strat : Strat) : ∃ t' c' s', commitNode ctx strat tree ⟨[116], "", true⟩ [] = .ok (t', c', s') ∧
    ∃ st, dirStatus ctx s' 3 [116] false c'.sum (some t') = .ok st ∧ st.cm = true := by
  obtain ⟨t', c', s', h, _⟩ :=
    commit_fresh_roundtrip ctx good tree [116] tree_plain tree_sorted tree_names [] empty_consistent
      strat
  obtain ⟨st, hst, hcm, _⟩ := (status_after_commit ctx good tree [116] tree_plain tree_sorted tree_names
    [] empty_consistent strat h (Store.le_refl _ _) 0).1 rfl
  rw [tree_depth] at hst
  exact ⟨t', c', s', h, st, hst, hcm⟩

end Dud

#print axioms Dud.dirStatus_cm_iff
#print axioms Dud.fileStatus_cm_iff'
#print axioms Dud.status_sound_dir
#print axioms Dud.status_complete
#print axioms Dud.status_sound
#print axioms Dud.status_sound_file
#print axioms Dud.status_complete_tree
#print axioms Dud.status_complete_tree_file
#print axioms Dud.upToDate_after_commit
#print axioms Dud.status_after_commit
#print axioms Dud.status_after_checkout
#print axioms Dud.status_detects_deleted
#print axioms Dud.status_detects_modified
#print axioms Dud.status_detects_added
#print axioms Dud.status_detects_nested
#print axioms Dud.status_detects_edit
#print axioms Dud.dir_upToDate_needs_manifest
#print axioms Dud.dir_uncommitted_not_upToDate
#print axioms Dud.empty_dir_no_checksum_not_upToDate
#print axioms Dud.empty_dir_manifest_missing_not_upToDate
#print axioms Dud.render_uptodate_iff
#print axioms Dud.fileStatus_render_iff
#print axioms Dud.render_hides_missing_subdir
#print axioms Dud.status_cm_link_to_manifest
