import DudModel.Model
/-!
# Specification vocabulary for the cache operations

Pure reference notions the property theorems are stated with: plain / sorted trees, the logical
content of a workspace node (links into the cache followed), the digest a tree *should* get.
-/
namespace Dud

variable {κ : Type}

mutual
/-- only regular files and directories -/
def Node.plain : Node κ → Bool
  | .file _ => true
  | .dir es => plainList es
  | .link _ => false
  | .other => false
def plainList : List (Name × Node κ) → Bool
  | [] => true
  | (_, n) :: r => n.plain && plainList r
end

/-- first name of a listing, if any -/
def headName (es : List (Name × Node κ)) : Option Name := es.head?.map (·.1)

mutual
/-- entry names strictly increasing (bytewise) in every directory: the canonical representation of
a tree as a finite map (hence also duplicate-free) -/
def Node.sorted : Node κ → Bool
  | .dir es => sortedList es
  | _ => true
def sortedList : List (Name × Node κ) → Bool
  | [] => true
  | (nm, n) :: r =>
    n.sorted && sortedList r &&
      (match headName r with
       | none => true
       | some nm2 => decide (nm < nm2))
end

mutual
def depth : Node κ → Nat
  | .dir es => depthList es + 1
  | _ => 1
def depthList : List (Name × Node κ) → Nat
  | [] => 0
  | (_, t) :: r => max (depth t) (depthList r)
end

mutual
/-- logical content: a link that resolves to a cache object counts as a regular file with the
object's bytes -/
def deref (ctx : Ctx κ) (s : Store κ) : Node κ → Node κ
  | .file c => .file c
  | .link (.obj d) => match s.get d with
    | some o => .file (o.bytes ctx)
    | none => .link (.obj d)
  | .link (.foreign l) => .link (.foreign l)
  | .other => .other
  | .dir es => .dir (derefList ctx s es)
def derefList (ctx : Ctx κ) (s : Store κ) : List (Name × Node κ) → List (Name × Node κ)
  | [] => []
  | (nm, n) :: r => (nm, deref ctx s n) :: derefList ctx s r
end

mutual
/-- the checksum a tree must get: a function of the (path, tree) alone -/
def treeDigest (ctx : Ctx κ) : Bytes → Node κ → Digest
  | _, .file c => ctx.H c
  | nm, .dir es => (Obj.man .new nm (sortChildren (childrenOf ctx es)) : Obj κ).digest ctx
  | _, .link _ => ""
  | _, .other => ""
def childrenOf (ctx : Ctx κ) : List (Name × Node κ) → List Child
  | [] => []
  | (nm, n) :: r => { name := nm, sum := treeDigest ctx nm n, isDir := n.isDir } :: childrenOf ctx r
end

mutual
def allNames : Node κ → List Name
  | .dir es => allNamesList es
  | _ => []
def allNamesList : List (Name × Node κ) → List Name
  | [] => []
  | (nm, n) :: r => nm :: (allNames n ++ allNamesList r)
end

/-- every object sits under the digest of its bytes -/
def Consistent (ctx : Ctx κ) (s : Store κ) : Prop := ∀ d o, s.get d = some o → o.digest ctx = d

/-- `s'` holds at least the bytes `s` holds, under the same names -/
def Store.le (ctx : Ctx κ) (s s' : Store κ) : Prop :=
  ∀ d o, s.get d = some o → ∃ o', s'.get d = some o' ∧ o'.bytes ctx = o.bytes ctx

/-- assumptions on the hash and the manifest codec -/
structure Good (ctx : Ctx κ) : Prop where
  inj : ∀ a b, ctx.H a = ctx.H b → a = b
  len : ∀ a, 3 ≤ (ctx.H a).length
  dec : ∀ sch p cs, ctx.decBlob (ctx.encMan sch p cs) = some (cs.map (ctx.reload sch))

/-- commit accepts every entry name of the tree (valid UTF-8), the decoder returns entries
with these names unchanged, and the names are what a directory listing can contain (not empty,
not "." or "..", no separator), so that `readManifest` accepts them -/
def NamesOK (ctx : Ctx κ) (t : Node κ) : Prop :=
  ∀ nm, nm ∈ allNames t → ctx.nameOK nm = true ∧
    (∀ sch sum isDir, ctx.reload sch ⟨nm, sum, isDir⟩ = ⟨nm, sum, isDir⟩) ∧
    entryNameOK nm = true

/-! ## manifests `readManifest` accepts -/

/-- every entry names a direct child (`entryNameOK`): what `readManifest` checks -/
def ChildrenOK (cs : List Child) : Prop := ∀ c ∈ cs, entryNameOK c.name = true

theorem childrenOK_iff_all (cs : List Child) :
    (cs.all fun c => entryNameOK c.name) = true ↔ ChildrenOK cs := by
  simp [ChildrenOK, List.all_eq_true]

theorem ChildrenOK.nil : ChildrenOK [] := fun _ h => by cases h

theorem ChildrenOK.cons {c : Child} {cs : List Child} (h : entryNameOK c.name = true)
    (hr : ChildrenOK cs) : ChildrenOK (c :: cs) := by
  intro x hx
  rcases List.mem_cons.1 hx with rfl | hx
  · exact h
  · exact hr x hx

theorem ChildrenOK.head {c : Child} {cs : List Child} (h : ChildrenOK (c :: cs)) :
    entryNameOK c.name = true := h c (by simp)

theorem ChildrenOK.tail {c : Child} {cs : List Child} (h : ChildrenOK (c :: cs)) :
    ChildrenOK cs := fun x hx => h x (by simp [hx])

/-- the validation step of `readManifest` -/
def checkedChildren (cs : List Child) : Except Err (List Child) :=
  if cs.all (fun c => entryNameOK c.name) then .ok cs else .error .badManifest

theorem checkedChildren_ok {cs : List Child} (h : ChildrenOK cs) : checkedChildren cs = .ok cs := by
  simp [checkedChildren, (childrenOK_iff_all cs).2 h]

theorem checkedChildren_bad {cs : List Child} (h : ¬ ChildrenOK cs) :
    checkedChildren cs = .error .badManifest := by
  have : ¬ (cs.all fun c => entryNameOK c.name) = true := fun h' => h ((childrenOK_iff_all cs).1 h')
  simp only [checkedChildren, this]
  rfl

theorem checkedChildren_eq_ok {cs cs' : List Child} (h : checkedChildren cs = .ok cs') :
    cs' = cs ∧ ChildrenOK cs := by
  unfold checkedChildren at h
  split at h
  · next hall => cases h; exact ⟨rfl, (childrenOK_iff_all _).1 hall⟩
  · cases h

/-- `readManifest` with the validation step named -/
theorem readManifest_eq (ctx : Ctx κ) (s : Store κ) (d : Digest) :
    readManifest ctx s d = match s.get d with
      | none => .error .missingFromCache
      | some (.man sch _ cs) => checkedChildren (cs.map (ctx.reload sch))
      | some (.blob c) => match ctx.decBlob c with
        | some cs => checkedChildren cs
        | none => .error .badManifest := rfl

/-- whatever `readManifest` returns has valid entry names only -/
theorem readManifest_childrenOK {ctx : Ctx κ} {s : Store κ} {d : Digest} {cs : List Child}
    (h : readManifest ctx s d = .ok cs) : ChildrenOK cs := by
  rw [readManifest_eq] at h
  split at h
  · cases h
  · exact (checkedChildren_eq_ok h).1 ▸ (checkedChildren_eq_ok h).2
  · split at h
    · exact (checkedChildren_eq_ok h).1 ▸ (checkedChildren_eq_ok h).2
    · cases h

/-- a stored manifest whose (reloaded) entries have valid names reads back as before -/
theorem readManifest_man {ctx : Ctx κ} {s : Store κ} {d : Digest} {sch : Schema} {p : Bytes}
    {cs : List Child} (h : s.get d = some (.man sch p cs))
    (hok : ChildrenOK (cs.map (ctx.reload sch))) :
    readManifest ctx s d = .ok (cs.map (ctx.reload sch)) := by
  rw [readManifest_eq, h]
  exact checkedChildren_ok hok

/-- a stored manifest with an invalid (reloaded) entry name is rejected -/
theorem readManifest_man_bad {ctx : Ctx κ} {s : Store κ} {d : Digest} {sch : Schema} {p : Bytes}
    {cs : List Child} (h : s.get d = some (.man sch p cs))
    (hbad : ¬ ChildrenOK (cs.map (ctx.reload sch))) :
    readManifest ctx s d = .error .badManifest := by
  rw [readManifest_eq, h]
  exact checkedChildren_bad hbad

end Dud
