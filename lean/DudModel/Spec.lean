import DudModel.Model
/-!
# Specification vocabulary for the cache operations

Pure reference notions the property theorems are stated with: plain / sorted trees, the logical
content of a workspace node (links into the cache followed), the digest a tree *should* get.
-/
namespace Dud

variable {κ : Type}

mutual
/-- only regular files and directories -/
def Node.plain : Node κ → Bool
  | .file _ => true
  | .dir es => plainList es
  | .link _ => false
  | .other => false
def plainList : List (Name × Node κ) → Bool
  | [] => true
  | (_, n) :: r => n.plain && plainList r
end

/-- first name of a listing, if any -/
def headName (es : List (Name × Node κ)) : Option Name := es.head?.map (·.1)

mutual
/-- entry names strictly increasing (bytewise) in every directory: the canonical representation of
a tree as a finite map (hence also duplicate-free) -/
def Node.sorted : Node κ → Bool
  | .dir es => sortedList es
  | _ => true
def sortedList : List (Name × Node κ) → Bool
  | [] => true
  | (nm, n) :: r =>
    n.sorted && sortedList r &&
      (match headName r with
       | none => true
       | some nm2 => decide (nm < nm2))
end

mutual
def depth : Node κ → Nat
  | .dir es => depthList es + 1
  | _ => 1
def depthList : List (Name × Node κ) → Nat
  | [] => 0
  | (_, t) :: r => max (depth t) (depthList r)
end

mutual
/-- logical content: a link that resolves to a cache object counts as a regular file with the
object's bytes -/
def deref (ctx : Ctx κ) (s : Store κ) : Node κ → Node κ
  | .file c => .file c
  | .link (.obj d) => match s.get d with
    | some o => .file (o.bytes ctx)
    | none => .link (.obj d)
  | .link (.foreign l) => .link (.foreign l)
  | .other => .other
  | .dir es => .dir (derefList ctx s es)
def derefList (ctx : Ctx κ) (s : Store κ) : List (Name × Node κ) → List (Name × Node κ)
  | [] => []
  | (nm, n) :: r => (nm, deref ctx s n) :: derefList ctx s r
end

mutual
/-- the checksum a tree must get: a function of the (path, tree) alone -/
def treeDigest (ctx : Ctx κ) : Bytes → Node κ → Digest
  | _, .file c => ctx.H c
  | nm, .dir es => (Obj.man .new nm (sortChildren (childrenOf ctx es)) : Obj κ).digest ctx
  | _, .link _ => ""
  | _, .other => ""
def childrenOf (ctx : Ctx κ) : List (Name × Node κ) → List Child
  | [] => []
  | (nm, n) :: r => { name := nm, sum := treeDigest ctx nm n, isDir := n.isDir } :: childrenOf ctx r
end

mutual
def allNames : Node κ → List Name
  | .dir es => allNamesList es
  | _ => []
def allNamesList : List (Name × Node κ) → List Name
  | [] => []
  | (nm, n) :: r => nm :: (allNames n ++ allNamesList r)
end

/-- every object sits under the digest of its bytes -/
def Consistent (ctx : Ctx κ) (s : Store κ) : Prop := ∀ d o, s.get d = some o → o.digest ctx = d

/-- `s'` holds at least the bytes `s` holds, under the same names -/
def Store.le (ctx : Ctx κ) (s s' : Store κ) : Prop :=
  ∀ d o, s.get d = some o → ∃ o', s'.get d = some o' ∧ o'.bytes ctx = o.bytes ctx

/-- assumptions on the hash and the manifest codec -/
structure Good (ctx : Ctx κ) : Prop where
  inj : ∀ a b, ctx.H a = ctx.H b → a = b
  len : ∀ a, 3 ≤ (ctx.H a).length
  dec : ∀ sch p cs, ctx.decBlob (ctx.encMan sch p cs) = some (cs.map (ctx.reload sch))

/-- commit accepts every entry name of the tree (valid UTF-8) and the decoder returns entries
with these names unchanged -/
def NamesOK (ctx : Ctx κ) (t : Node κ) : Prop :=
  ∀ nm, nm ∈ allNames t → ctx.nameOK nm = true ∧
    ∀ sch sum isDir, ctx.reload sch ⟨nm, sum, isDir⟩ = ⟨nm, sum, isDir⟩

end Dud
