import DudModel.Basic
/-!
# Logical model of the cache operations (`src/cache/{commit,checkout,status}.go`)

Workspace = tree of nodes, cache = finite map digest ↦ object.  The functions below follow the
Go code branch by branch (quickStatus, commitFileArtifact, commitDirArtifact/commitWorker,
checkoutFile/checkoutDir, fileArtifactStatus/dirArtifactStatus); worker-pool scheduling is
abstracted to "entries processed in list order" (C13 shows the order is irrelevant).
-/
namespace Dud

/-- A manifest entry: `artifact.Artifact` as stored inside a directory manifest. -/
structure Child where
  name : Bytes          -- `Path` (entry name; for a top-level artifact the artifact path)
  sum : Digest          -- `Checksum`
  isDir : Bool          -- `IsDir`
deriving DecidableEq, Repr, Inhabited

inductive Schema | new | old
deriving DecidableEq, Repr, Inhabited

/-- A cache object.  Manifests are kept typed; their bytes are `Ctx.encMan`. -/
inductive Obj (κ : Type) where
  | blob (c : κ)
  | man (schema : Schema) (path : Bytes) (cs : List Child)
deriving Repr, Inhabited

abbrev Store (κ : Type) := List (Digest × Obj κ)

inductive Link where
  | obj (d : Digest)           -- resolves to the cache path of digest `d`
  | foreign (live : Bool)      -- any other target; `live = false`: dangling
deriving DecidableEq, Repr, Inhabited

inductive Node (κ : Type) where
  | file (c : κ)
  | dir (es : List (Name × Node κ))
  | link (l : Link)
  | other                      -- FIFO, socket, device
deriving Repr, Inhabited

/-- `fsutil.FileStatus` -/
inductive WS | absent | regular | link | directory | other
deriving DecidableEq, Repr, Inhabited

def WS.toString : WS → String
  | .absent => "absent" | .regular => "regular file" | .link => "link"
  | .directory => "directory" | .other => "other"

def Node.isDir {κ} : Node κ → Bool | .dir _ => true | _ => false

def wsOf {κ} : Option (Node κ) → WS
  | none => .absent
  | some (.file _) => .regular
  | some (.dir _) => .directory
  | some (.link _) => .link
  | some .other => .other

/-- Parameters of the model: hash, manifest codec. -/
structure Ctx (κ : Type) where
  H : κ → Digest
  /-- bytes of a manifest (Go `encoding/json` of `directoryManifest`) -/
  encMan : Schema → Bytes → List Child → κ
  /-- what `readDirManifest` makes of an object that was not stored as a manifest -/
  decBlob : κ → Option (List Child)
  /-- what `Artifact.UnmarshalJSON` returns for a child dud itself encoded -/
  reload : Schema → Child → Child
  /-- entry names commit accepts (`utf8.ValidString` in `commitWorker`) -/
  nameOK : Bytes → Bool

variable {κ : Type}

def Obj.bytes (ctx : Ctx κ) : Obj κ → κ
  | .blob c => c
  | .man s p cs => ctx.encMan s p cs

def Obj.digest (ctx : Ctx κ) (o : Obj κ) : Digest := ctx.H (o.bytes ctx)

def Store.get (s : Store κ) (d : Digest) : Option (Obj κ) := alookup s d
/-- rename onto the digest path: replaces whatever was there -/
def Store.put (s : Store κ) (d : Digest) (o : Obj κ) : Store κ := (d, o) :: s
def Store.has (s : Store κ) (d : Digest) : Bool := (s.get d).isSome

/-- a manifest entry must name a direct child: not empty, not "." or "..", no path separator
(`readDirManifest` rejects anything else; in the typed model key and path coincide) -/
def entryNameOK (nm : Bytes) : Bool :=
  !nm.isEmpty && nm != [0x2E] && nm != [0x2E, 0x2E] && !nm.contains 0x2F

/-- `readDirManifest` + `Artifact.UnmarshalJSON` -/
def readManifest (ctx : Ctx κ) (s : Store κ) (d : Digest) : Except Err (List Child) :=
  let checked : List Child → Except Err (List Child) := fun cs =>
    if cs.all (fun c => entryNameOK c.name) then .ok cs else .error .badManifest
  match s.get d with
  | none => .error .missingFromCache
  | some (.man sch _ cs) => checked (cs.map (ctx.reload sch))
  | some (.blob c) => match ctx.decBlob c with
    | some cs => checked cs
    | none => .error .badManifest

/-- `PathForChecksum` accepts checksums of at least three characters. -/
def hasSum (d : Digest) : Bool := 3 ≤ d.length

/-- The part of `quickStatus` all operations share. -/
structure Quick where
  has : Bool
  inCache : Bool
  ws : WS
  cm : Bool            -- ContentsMatch as set by quickStatus: a link resolving to the very object
deriving DecidableEq, Repr, Inhabited

def quick (s : Store κ) (sum : Digest) (n : Option (Node κ)) : Quick :=
  let has := hasSum sum
  let inC := has && s.has sum
  let cm := match n with
    | some (.link (.obj d)) => inC && d == sum
    | _ => false
  { has := has, inCache := inC, ws := wsOf n, cm := cm }

def findChild (old : List Child) (nm : Bytes) : Option Child := old.find? (fun c => c.name == nm)

/-- insertion of a child into a list sorted by name (bytewise), replacing an equal name -/
def insertChild (c : Child) : List Child → List Child
  | [] => [c]
  | x :: xs => if c.name == x.name then c :: xs
               else if decide (c.name < x.name) then c :: x :: xs
               else x :: insertChild c xs

def sortChildren (cs : List Child) : List Child := cs.foldr insertChild []

/-! ## commit -/

/-- `commitFileArtifact` for the node found at the artifact's path. Returns the node left in the
workspace, the checksum recorded, the cache. -/
def commitFile (ctx : Ctx κ) (strat : Strat) (skip : Bool) (n : Option (Node κ)) (sum : Digest)
    (s : Store κ) : Except Err (Node κ × Digest × Store κ) :=
  match n with
  | none => .error .missing
  | some nd =>
    if (quick s sum n).cm then .ok (nd, sum, s)
    else match nd with
      | .file c =>
        if skip then .ok (.file c, ctx.H c, s)
        else
          let d := ctx.H c
          let s' := s.put d (.blob c)
          match strat with
          | .link => .ok (.link (.obj d), d, s')
          | .copy => .ok (.file c, d, s')
      -- a link to an existing object of this cache is committed already: record that object's checksum
      | .link (.obj d) => if !skip && s.has d then .ok (nd, d, s) else .error .notRegular
      | _ => .error .notRegular

/-- the old manifest `commitDirArtifact` starts from -/
def oldManifest (ctx : Ctx κ) (s : Store κ) (sum : Digest) : Except Err (List Child) :=
  if hasSum sum && s.has sum then readManifest ctx s sum else .ok []

mutual
/-- `commitWorker` body for one entry: recovered or fresh child artifact, then the directory or
the file path according to the *child's* `IsDir`. -/
def commitNode (ctx : Ctx κ) (strat : Strat) : Node κ → Child → Store κ →
    Except Err (Node κ × Child × Store κ)
  | .dir es, c, s =>
    if c.isDir then
      match oldManifest ctx s c.sum with
      | .error e => .error e
      | .ok old =>
        match commitEntries ctx strat false es old s with
        | .error e => .error e
        | .ok (es', cs, s') =>
          let m : Obj κ := .man .new c.name (sortChildren cs)
          let d := m.digest ctx
          .ok (.dir es', { c with sum := d }, s'.put d m)
    else .error .notRegular          -- "expected regular file, got directory"
  | .file x, c, s =>
    if c.isDir then .error .notDir     -- readDir on a regular file
    else match commitFile ctx strat false (some (.file x)) c.sum s with
      | .error e => .error e
      | .ok (n', d, s') => .ok (n', { c with sum := d }, s')
  | .link l, c, s =>
    if c.isDir then .error .notDir
    else match commitFile ctx strat false (some (.link l)) c.sum s with
      | .error e => .error e
      | .ok (n', d, s') => .ok (n', { c with sum := d }, s')
  | .other, c, s =>
    if c.isDir then .error .notDir
    else match commitFile ctx strat false (some .other) c.sum s with
      | .error e => .error e
      | .ok (n', d, s') => .ok (n', { c with sum := d }, s')
/-- the entries of one directory, in listing order; `skipDirs` is `DisableRecursion` -/
def commitEntries (ctx : Ctx κ) (strat : Strat) (skipDirs : Bool) :
    List (Name × Node κ) → List Child → Store κ →
    Except Err (List (Name × Node κ) × List Child × Store κ)
  | [], _, s => .ok ([], [], s)
  | (nm, n) :: r, old, s =>
    if skipDirs && n.isDir then
      match commitEntries ctx strat skipDirs r old s with
      | .error e => .error e
      | .ok (r', cs, s') => .ok ((nm, n) :: r', cs, s')
    else if !ctx.nameOK nm then .error .invalid
    else
      -- the child recovered from the old manifest is reused only if its kind still agrees
      let fresh : Child := { name := nm, sum := "", isDir := n.isDir }
      let c := match findChild old nm with
        | some k => if k.isDir == n.isDir then k else fresh
        | none => fresh
      match commitNode ctx strat n c s with
      | .error e => .error e
      | .ok (n', c', s1) =>
        match commitEntries ctx strat skipDirs r old s1 with
        | .error e => .error e
        | .ok (r', cs, s2) => .ok ((nm, n') :: r', c' :: cs, s2)
end

/-- A top-level artifact as the cache sees it. -/
structure Art where
  path : Bytes
  sum : Digest := ""
  isDir : Bool := false
  noRec : Bool := false
  skip : Bool := false
deriving DecidableEq, Repr, Inhabited

def Art.child (a : Art) : Child := { name := a.path, sum := a.sum, isDir := a.isDir }

/-- `LocalCache.Commit` on the node at the artifact's path (`none`: absent). -/
def commitArt (ctx : Ctx κ) (strat : Strat) (a : Art) (n : Option (Node κ)) (s : Store κ) :
    Except Err (Node κ × Digest × Store κ) :=
  if a.isDir then
    match n with
    | some (.dir es) =>
      match oldManifest ctx s a.sum with
      | .error e => .error e
      | .ok old =>
        match commitEntries ctx strat a.noRec es old s with
        | .error e => .error e
        | .ok (es', cs, s') =>
          let m : Obj κ := .man .new a.path (sortChildren cs)
          let d := m.digest ctx
          .ok (.dir es', d, s'.put d m)
    | none => .error .missing
    | some _ => .error .notDir
  else commitFile ctx strat a.skip n a.sum s

/-! ## checkout -/

/-- the workspace entry is a regular file whose bytes hash to the recorded checksum -/
def upToDateCopy (ctx : Ctx κ) (cur : Option (Node κ)) (sum : Digest) : Bool :=
  match cur with
  | some (.file c) => ctx.H c == sum
  | _ => false

/-- `checkoutFile` for the node currently at the path (`none`: absent); the result is the node
afterwards. On `sumMismatch` the real code leaves the bad copy behind (see `checkoutFileBad`). -/
def checkoutFile (ctx : Ctx κ) (strat : Strat) (cur : Option (Node κ)) (sum : Digest)
    (s : Store κ) : Except Err (Node κ) :=
  let q := quick s sum cur
  if !q.has then .error .invalidSum
  else if !q.inCache then .error .missingFromCache
  else match s.get sum with
    | none => .error .missingFromCache
    | some o =>
      -- a regular file whose bytes hash to the recorded checksum is already checked out
      if upToDateCopy ctx cur sum then .ok (cur.getD .other) else
      match strat with
      | .copy =>
        let cur' := if q.cm then none else cur
        match cur' with
        | some _ => .error .exists_
        | none =>
          let b := o.bytes ctx
          if ctx.H b == sum then .ok (.file b) else .error .sumMismatch
      | .link =>
        if q.cm then .ok (cur.getD (.link (.obj sum)))
        else match cur with
          | some _ => .error .exists_
          | none => .ok (.link (.obj sum))

def setEntry (es : List (Name × Node κ)) (nm : Name) (n : Node κ) : List (Name × Node κ) :=
  match es with
  | [] => [(nm, n)]
  | (k, v) :: r => if k == nm then (k, n) :: r else (k, v) :: setEntry r nm n

/-- `checkoutWorker` loop over the manifest entries; `f` is `checkoutNode` one level down. -/
def checkoutChildren (f : Option (Node κ) → Child → Except Err (Node κ)) :
    List (Name × Node κ) → List Child → Except Err (List (Name × Node κ))
  | es, [] => .ok es
  | es, c :: cs =>
    match f (alookup es c.name) c with
    | .error e => .error e
    | .ok n => checkoutChildren f (setEntry es c.name n) cs

/-- `checkoutDir` / `checkoutFile` dispatch; fuel bounds the manifest nesting. -/
def checkoutNode (ctx : Ctx κ) (strat : Strat) (s : Store κ) :
    Nat → Option (Node κ) → Child → Except Err (Node κ)
  | 0, _, _ => .error .other
  | fuel+1, cur, c =>
    if c.isDir then
      if !hasSum c.sum then .error .invalidSum
      else if !s.has c.sum then .error .missingFromCache
      else
        match cur with
        | some (.dir es) =>
          match readManifest ctx s c.sum with
          | .error e => .error e
          | .ok cs => match checkoutChildren (checkoutNode ctx strat s fuel) es cs with
            | .error e => .error e
            | .ok es' => .ok (.dir es')
        | none =>
          match readManifest ctx s c.sum with
          | .error e => .error e
          | .ok cs => match checkoutChildren (checkoutNode ctx strat s fuel) [] cs with
            | .error e => .error e
            | .ok es' => .ok (.dir es')
        | some _ => .error .exists_
    else checkoutFile ctx strat cur c.sum s

/-- `LocalCache.Checkout` -/
def checkoutArt (ctx : Ctx κ) (strat : Strat) (fuel : Nat) (a : Art) (cur : Option (Node κ))
    (s : Store κ) : Except Err (Option (Node κ)) :=
  if a.skip then .ok cur
  else match checkoutNode ctx strat s fuel cur a.child with
    | .error e => .error e
    | .ok n => .ok (some n)

/-! ## status -/

structure Status where
  name : Bytes
  isDir : Bool
  skip : Bool
  ws : WS
  has : Bool
  inCache : Bool
  cm : Bool
  children : List Status
deriving Repr, Inhabited

/-- `fileArtifactStatus` -/
def fileStatus [DecidableEq κ] (ctx : Ctx κ) (s : Store κ) (name : Bytes) (skip : Bool) (sum : Digest)
    (cur : Option (Node κ)) : Status :=
  let q := quick s sum cur
  let base : Status := { name := name, isDir := false, skip := skip, ws := q.ws, has := q.has,
                         inCache := q.inCache, cm := q.cm, children := [] }
  match cur with
  | some (.file c) =>
    if skip then
      if !q.has then base else { base with cm := ctx.H c == sum }
    else if !q.inCache then base
    else match s.get sum with
      | some o => { base with cm := decide (c = o.bytes ctx) }
      | none => base
  | _ => base

/-- statuses of the manifest entries; `fd` is `dirStatus` one level down -/
def childStatuses [DecidableEq κ] (ctx : Ctx κ) (s : Store κ)
    (fd : Bytes → Digest → Option (Node κ) → Except Err Status) :
    List (Name × Node κ) → List Child → Except Err (List Status)
  | _, [] => .ok []
  | es, c :: cs =>
    let one : Except Err Status :=
      if c.isDir then fd c.name c.sum (alookup es c.name)
      else .ok (fileStatus ctx s c.name false c.sum (alookup es c.name))
    match one with
    | .error e => .error e
    | .ok st => match childStatuses ctx s fd es cs with
      | .error e => .error e
      | .ok r => .ok (st :: r)

/-- statuses of listing entries that the manifest does not mention -/
def untrackedStatuses [DecidableEq κ] (ctx : Ctx κ) (s : Store κ)
    (fd : Bytes → Digest → Option (Node κ) → Except Err Status) :
    List (Name × Node κ) → Except Err (List Status)
  | [] => .ok []
  | (nm, n) :: r =>
    let one : Except Err Status :=
      if n.isDir then fd nm "" (some n)
      else .ok (fileStatus ctx s nm false "" (some n))
    match one with
    | .error e => .error e
    | .ok st => match untrackedStatuses ctx s fd r with
      | .error e => .error e
      | .ok rs => .ok (st :: rs)

/-- `dirArtifactStatus` with `shortCircuit = false`: manifest entries first, then untracked
entries of the listing. -/
def dirStatus [DecidableEq κ] (ctx : Ctx κ) (s : Store κ) :
    Nat → Bytes → Bool → Digest → Option (Node κ) → Except Err Status
  | 0, _, _, _, _ => .error .other
  | fuel+1, name, noRec, sum, cur =>
    let q := quick s sum cur
    let base : Status := { name := name, isDir := true, skip := false, ws := q.ws, has := q.has,
                           inCache := q.inCache, cm := q.cm, children := [] }
    match cur with
    | some (.dir es) =>
      let man : Except Err (List Child) := if q.inCache then readManifest ctx s sum else .ok []
      match man with
      | .error e => .error e
      | .ok cs =>
        let fd := fun nm sm cu => dirStatus ctx s fuel nm false sm cu
        match childStatuses ctx s fd es cs with
        | .error e => .error e
        | .ok tracked =>
          let listing := if noRec then es.filter (fun e => !e.2.isDir) else es
          let untracked := listing.filter (fun e => (findChild cs e.1).isNone)
          match untrackedStatuses ctx s fd untracked with
          | .error e => .error e
          | .ok un =>
            .ok { base with cm := q.has && q.inCache && tracked.all (·.cm) && untracked.isEmpty,
                            children := tracked ++ un }
    | _ => .ok base

/-- `LocalCache.Status` (full, i.e. `shortCircuit = false`) -/
def statusArt [DecidableEq κ] (ctx : Ctx κ) (s : Store κ) (fuel : Nat) (a : Art)
    (cur : Option (Node κ)) : Except Err Status :=
  if a.isDir then
    match dirStatus ctx s fuel a.path a.noRec a.sum cur with
    | .error e => .error e
    | .ok st => .ok { st with skip := a.skip }
  else .ok (fileStatus ctx s a.path a.skip a.sum cur)

end Dud
