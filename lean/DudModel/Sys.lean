import DudModel.Model
/-!
# System-call level model: the mutating calls dud issues, crash prefixes

`commitNodeT` / `commitEntriesT` / `commitArtT` are traced twins of the logical commit functions:
same decisions, same results, plus the list of file-system mutating calls in the order the Go code
issues them when directory entries are processed sequentially (one dedicated worker, no shared
ones).  `checkoutNodeT` likewise.  `replay` applies a prefix of a trace to a file system; crashing
at the k-th call is `replay fs (trace.take k)`.

Paths are canonical classes, so real traces can be compared after canonicalisation (stream S2).
-/
namespace Dud.Sys

open Dud

/-- canonical path classes -/
inductive P where
  | ws (rel : List Name)        -- a path inside the project, relative to its root
  | obj (d : Digest)            -- <cache>/<hh>/<rest>
  | shard (hh : String)         -- <cache>/<hh>
  | ctmp (n : Nat)              -- temp file in the cache root (os.CreateTemp(ch.dir, ""))
  | wtmp (n : Nat)              -- temp file in the workspace directory (rename probe)
  | cacheRoot
  | lock
  | stageFile (rel : Bytes)
  | stageTmp (rel : Bytes)
  | index
  | indexTmp
deriving DecidableEq, Repr, Inhabited

inductive Call (κ : Type) where
  | mkdir (p : P)
  | createExcl (p : P)               -- O_CREATE|O_EXCL: fails if the path exists
  | createTrunc (p : P)              -- os.Create: truncates an existing file
  | writePart (p : P)                -- some, not all, of the bytes are in the file
  | write (p : P) (c : κ)            -- after this call the file holds exactly `c`
  | rename (src dst : P)
  | chmod (p : P) (mode : Nat)
  | unlink (p : P)
  | symlink (target : P) (p : P)
deriving Repr, Inhabited

inductive Entry (κ : Type) where
  | file (c : κ) (mode : Nat)
  | torn (mode : Nat)                -- a regular file holding an incomplete byte sequence
  | dir
  | link (target : P)
deriving Repr, Inhabited

abbrev FS (κ : Type) := List (P × Entry κ)

variable {κ : Type}

def FS.get (fs : FS κ) (p : P) : Option (Entry κ) := alookup fs p
def FS.set (fs : FS κ) (p : P) (e : Entry κ) : FS κ := (p, e) :: aerase fs p
def FS.del (fs : FS κ) (p : P) : FS κ := aerase fs p

/-- effect of a call that succeeds; a call whose precondition fails leaves the file system as it
is. `emp` is the empty byte string. -/
def apply (emp : κ) (fs : FS κ) : Call κ → FS κ
  | .mkdir p => match fs.get p with
    | none => fs.set p .dir
    | some _ => fs
  | .createExcl p => match fs.get p with
    | none => fs.set p (.file emp 0o600)
    | some _ => fs
  | .createTrunc p => fs.set p (.file emp 0o644)
  | .writePart p => match fs.get p with
    | some (.file _ m) => fs.set p (.torn m)
    | some (.torn m) => fs.set p (.torn m)
    | _ => fs
  | .write p c => match fs.get p with
    | some (.file _ m) => fs.set p (.file c m)
    | some (.torn m) => fs.set p (.file c m)
    | _ => fs
  | .rename s d => match fs.get s with
    | some e => (fs.del s).set d e
    | none => fs
  | .chmod p m => match fs.get p with
    | some (.file c _) => fs.set p (.file c m)
    | some (.torn _) => fs.set p (.torn m)
    | _ => fs
  | .unlink p => fs.del p
  | .symlink t p => match fs.get p with
    | none => fs.set p (.link t)
    | some _ => fs

def replay (emp : κ) (fs : FS κ) (t : List (Call κ)) : FS κ := t.foldl (apply emp) fs

/-! ## traces of the cache operations -/

/-- first two characters of a digest -/
def shardOf (d : Digest) : String := String.ofList (d.toList.take 2)

/-- `commitBytes(reader, "")`: tee into a temp file in the cache root, then rename onto the digest path -/
def copyIntoCache (isEmp : κ → Bool) (n : Nat) (c : κ) (d : Digest) : List (Call κ) :=
  [.createExcl (.ctmp n)] ++ (if isEmp c then [] else [.writePart (.ctmp n), .write (.ctmp n) c]) ++
  [.mkdir (.shard (shardOf d)), .rename (.ctmp n) (.obj d), .chmod (.obj d) 0o444]

/-- `commitFileArtifact` on a regular file that has to be stored -/
def commitFileCalls (isEmp : κ → Bool) (strat : Strat) (canRename : Bool) (w : P) (n : Nat) (c : κ) (d : Digest) :
    List (Call κ) :=
  match strat, canRename with
  | .link, true => [.mkdir (.shard (shardOf d)), .rename w (.obj d), .chmod (.obj d) 0o444, .symlink (.obj d) w]
  | .link, false => copyIntoCache isEmp n c d ++ [.unlink w, .symlink (.obj d) w]
  | .copy, _ => copyIntoCache isEmp n c d

structure TCfg (κ : Type) where
  ctx : Ctx κ
  isEmp : κ → Bool
  strat : Strat
  canRename : Bool

/-- traced `commitFile`: same result as `commitFile`, plus the calls; `n` numbers the cache temp files -/
def commitFileT (t : TCfg κ) (skip : Bool) (w : P) (nd : Option (Node κ)) (sum : Digest) (s : Store κ) (n : Nat) :
    Except Err ((Node κ × Digest × Store κ) × List (Call κ) × Nat) :=
  match commitFile t.ctx t.strat skip nd sum s with
  | .error e => .error e
  | .ok r =>
    match nd with
    | some (.file c) =>
      if skip || (quick s sum nd).cm then .ok (r, [], n)
      else .ok (r, commitFileCalls t.isEmp t.strat t.canRename w n c (t.ctx.H c),
                if t.strat == .link && t.canRename then n else n + 1)
    | _ => .ok (r, [], n)

mutual
def commitNodeT (t : TCfg κ) (pre : List Name) : Node κ → Child → Store κ → Nat →
    Except Err ((Node κ × Child × Store κ) × List (Call κ) × Nat)
  | .dir es, c, s, n =>
    if c.isDir then
      match oldManifest t.ctx s c.sum with
      | .error e => .error e
      | .ok old =>
        match commitEntriesT t pre false es old s n with
        | .error e => .error e
        | .ok ((es', cs, s'), calls, n') =>
          let m : Obj κ := .man .new c.name (sortChildren cs)
          let d := m.digest t.ctx
          .ok ((.dir es', { c with sum := d }, s'.put d m),
               calls ++ copyIntoCache t.isEmp n' (m.bytes t.ctx) d, n' + 1)
    else .error .notRegular
  | .file x, c, s, n =>
    if c.isDir then .error .notDir
    else match commitFileT t false (.ws pre) (some (.file x)) c.sum s n with
      | .error e => .error e
      | .ok ((n', d, s'), calls, k) => .ok ((n', { c with sum := d }, s'), calls, k)
  | .link l, c, s, n =>
    if c.isDir then .error .notDir
    else match commitFileT t false (.ws pre) (some (.link l)) c.sum s n with
      | .error e => .error e
      | .ok ((n', d, s'), calls, k) => .ok ((n', { c with sum := d }, s'), calls, k)
  | .other, c, s, n =>
    if c.isDir then .error .notDir
    else match commitFileT t false (.ws pre) (some .other) c.sum s n with
      | .error e => .error e
      | .ok ((n', d, s'), calls, k) => .ok ((n', { c with sum := d }, s'), calls, k)
def commitEntriesT (t : TCfg κ) (pre : List Name) (skipDirs : Bool) :
    List (Name × Node κ) → List Child → Store κ → Nat →
    Except Err ((List (Name × Node κ) × List Child × Store κ) × List (Call κ) × Nat)
  | [], _, s, n => .ok (([], [], s), [], n)
  | (nm, nd) :: r, old, s, n =>
    if skipDirs && nd.isDir then
      match commitEntriesT t pre skipDirs r old s n with
      | .error e => .error e
      | .ok ((r', cs, s'), calls, k) => .ok (((nm, nd) :: r', cs, s'), calls, k)
    else if !t.ctx.nameOK nm then .error .invalid
    else
      let fresh : Child := { name := nm, sum := "", isDir := nd.isDir }
      let c := match findChild old nm with
        | some k => if k.isDir == nd.isDir then k else fresh
        | none => fresh
      match commitNodeT t (pre ++ [nm]) nd c s n with
      | .error e => .error e
      | .ok ((nd', c', s1), calls1, n1) =>
        match commitEntriesT t pre skipDirs r old s1 n1 with
        | .error e => .error e
        | .ok ((r', cs, s2), calls2, n2) => .ok (((nm, nd') :: r', c' :: cs, s2), calls1 ++ calls2, n2)
end

/-- the rename probe of `canRenameFileBetweenDirs` (workspace root and cache root) -/
def probeCalls : List (Call κ) :=
  [.createExcl (.wtmp 0), .createExcl (.ctmp 0), .rename (.wtmp 0) (.ctmp 0), .unlink (.wtmp 0), .unlink (.ctmp 0)]

/-- traced `LocalCache.Commit`: MkdirAll(cache), probe, then the artifact -/
def commitArtT (t : TCfg κ) (a : Art) (pre : List Name) (nd : Option (Node κ)) (s : Store κ) :
    Except Err ((Node κ × Digest × Store κ) × List (Call κ)) :=
  let head : List (Call κ) := [.mkdir .cacheRoot] ++ probeCalls
  if a.isDir then
    match nd with
    | some (.dir es) =>
      match oldManifest t.ctx s a.sum with
      | .error e => .error e
      | .ok old =>
        match commitEntriesT t pre a.noRec es old s 1 with
        | .error e => .error e
        | .ok ((es', cs, s'), calls, n') =>
          let m : Obj κ := .man .new a.path (sortChildren cs)
          let d := m.digest t.ctx
          .ok ((.dir es', d, s'.put d m), head ++ calls ++ copyIntoCache t.isEmp n' (m.bytes t.ctx) d)
    | none => .error .missing
    | some _ => .error .notDir
  else match commitFileT t a.skip (.ws pre) nd a.sum s 1 with
    | .error e => .error e
    | .ok (r, calls, _) => .ok (r, head ++ calls)

/-- how a metadata file (stage file, index) is rewritten; a regenerated fact selects the variant -/
def metaWriteCalls (atomic : Bool) (p tmp : P) (isEmp : κ → Bool) (c : κ) : List (Call κ) :=
  if atomic then
    [.createExcl tmp] ++ (if isEmp c then [] else [.writePart tmp, .write tmp c]) ++ [.rename tmp p]
  else
    [.createTrunc p] ++ (if isEmp c then [] else [.writePart p, .write p c])

/-- `checkoutFile` when something has to be created -/
def checkoutFileCalls (isEmp : κ → Bool) (strat : Strat) (w : P) (wasExactLink : Bool) (c : κ) (d : Digest) : List (Call κ) :=
  match strat with
  | .link => if wasExactLink then [] else [.symlink (.obj d) w]
  | .copy => (if wasExactLink then [.unlink w] else []) ++ [.createExcl w] ++
             (if isEmp c then [] else [.writePart w, .write w c])

/-! ## traced checkout (added for C18; mirrors `checkoutFile` / `checkoutChildren` / `checkoutNode`) -/

/-- traced `checkoutFile`: same result as `checkoutFile`, plus the calls -/
def checkoutFileT (t : TCfg κ) (w : P) (cur : Option (Node κ)) (sum : Digest) (s : Store κ) :
    Except Err (Node κ × List (Call κ)) :=
  match checkoutFile t.ctx t.strat cur sum s with
  | .error e => .error e
  | .ok r =>
    if upToDateCopy t.ctx cur sum then .ok (r, [])
    else match s.get sum with
      | none => .ok (r, [])
      | some o => .ok (r, checkoutFileCalls t.isEmp t.strat w (quick s sum cur).cm (o.bytes t.ctx) sum)

/-- traced `checkoutWorker` loop; `f` is `checkoutNodeT` one level down and receives the child's
workspace path: the directory's path joined with the manifest entry's `Path` AS IS
(`filepath.Join(workPath, childArt.Path)` without validation) -/
def checkoutChildrenT
    (f : List Name → Option (Node κ) → Child → Except Err (Node κ × List (Call κ)))
    (pre : List Name) :
    List (Name × Node κ) → List Child → Except Err (List (Name × Node κ) × List (Call κ))
  | es, [] => .ok (es, [])
  | es, c :: cs =>
    match f (pre ++ [c.name]) (alookup es c.name) c with
    | .error e => .error e
    | .ok (n, calls1) =>
      match checkoutChildrenT f pre (setEntry es c.name n) cs with
      | .error e => .error e
      | .ok (es', calls2) => .ok (es', calls1 ++ calls2)

/-- traced `checkoutDir` / `checkoutFile` dispatch; `MkdirAll(workPath)` issues a `mkdir` only when
the directory is absent -/
def checkoutNodeT (t : TCfg κ) (s : Store κ) :
    Nat → List Name → Option (Node κ) → Child → Except Err (Node κ × List (Call κ))
  | 0, _, _, _ => .error .other
  | fuel+1, pre, cur, c =>
    if c.isDir then
      if !hasSum c.sum then .error .invalidSum
      else if !s.has c.sum then .error .missingFromCache
      else
        match cur with
        | some (.dir es) =>
          match readManifest t.ctx s c.sum with
          | .error e => .error e
          | .ok cs => match checkoutChildrenT (checkoutNodeT t s fuel) pre es cs with
            | .error e => .error e
            | .ok (es', calls) => .ok (.dir es', calls)
        | none =>
          match readManifest t.ctx s c.sum with
          | .error e => .error e
          | .ok cs => match checkoutChildrenT (checkoutNodeT t s fuel) pre [] cs with
            | .error e => .error e
            | .ok (es', calls) => .ok (.dir es', .mkdir (.ws pre) :: calls)
        | some _ => .error .exists_
    else checkoutFileT t (.ws pre) cur c.sum s

end Dud.Sys
