import DudModel.Stage
/-!
# Spec vocabulary for artifact ownership / overlap (property C10)

Core-only.  `Inside` / `Overlaps` are the *lexical* relations on clean relative paths that
`stage.FindDirArtifactOwnerForPath`, `Stage.Validate` and `Index.AddStage` are meant to decide.
The Bool twins (`insideB`, `overlapsB`, `goodCompB`, `cleanRelB`) are executable and are used by the
test harness; their equivalence with the `Prop` versions is `insideB_iff`, `overlapsB_iff`
(here) and `goodCompB_iff`, `cleanRelB_iff` (`Lemmas/Owner.lean`).
-/
namespace Dud

/-- a path component as `filepath.Clean` leaves it inside a relative, non-escaping path:
not empty, not ".", not "..", no '/' -/
def GoodComp (c : Bytes) : Prop := c ≠ [] ∧ c ≠ [Path.dot] ∧ c ≠ Path.dotdot ∧ Path.slash ∉ c

/-- a clean, relative, non-escaping path as `filepath.Clean` returns it for stage artifacts:
non-empty list of components, none empty, ".", ".." or containing '/' -/
def CleanRel (p : Bytes) : Prop :=
  ∃ cs, cs ≠ [] ∧ (∀ c ∈ cs, GoodComp c) ∧ p = Path.intercalate cs

/-- x lies strictly inside directory artifact d (lexically), honouring disable-recursion -/
def Inside (x d : Art) : Prop :=
  let dc := Path.comps d.path; let xc := Path.comps x.path
  dc.length < xc.length ∧ xc.take dc.length = dc ∧ (d.noRec = false ∨ dc.length + 1 = xc.length)

def Overlaps (a b : Art) : Prop := a.path = b.path ∨ Inside a b ∨ Inside b a

instance (x d : Art) : Decidable (Inside x d) := by unfold Inside; exact inferInstance
instance (a b : Art) : Decidable (Overlaps a b) := by unfold Overlaps; exact inferInstance

/-! ## executable twins -/

def goodCompB (c : Bytes) : Bool :=
  !c.isEmpty && c != [Path.dot] && c != Path.dotdot && !c.contains Path.slash

def cleanRelB (p : Bytes) : Bool := (Path.splitSlash p).all goodCompB

def insideB (x d : Art) : Bool :=
  let dc := Path.comps d.path; let xc := Path.comps x.path
  decide (dc.length < xc.length) && xc.take dc.length == dc &&
    (!d.noRec || dc.length + 1 == xc.length)

def overlapsB (a b : Art) : Bool := a.path == b.path || insideB a b || insideB b a

theorem insideB_iff (x d : Art) : insideB x d = true ↔ Inside x d := by
  simp [insideB, Inside, and_assoc]

theorem overlapsB_iff (a b : Art) : overlapsB a b = true ↔ Overlaps a b := by
  simp [overlapsB, Overlaps, insideB_iff, or_assoc]

theorem insideB_eq_decide (x d : Art) : insideB x d = decide (Inside x d) := by
  rw [Bool.eq_iff_iff, insideB_iff]; simp

theorem overlapsB_eq_decide (a b : Art) : overlapsB a b = decide (Overlaps a b) := by
  rw [Bool.eq_iff_iff, overlapsB_iff]; simp

/-! ## the index invariant and the well-formedness bundle of a stage -/

/-- no output of stage `x` overlaps an output of stage `y` -/
def NoOverlap (x y : Bytes × Stage) : Prop :=
  ∀ a ∈ x.2.outputs, ∀ b ∈ y.2.outputs, ¬ Overlaps a b

/-- pairwise across different stages of the index no two outputs overlap -/
def IndexOK (idx : Index) : Prop := idx.Pairwise NoOverlap

/-- the shape of the outputs map of a stage: clean relative paths, one entry per path -/
structure OutWF (stg : Stage) : Prop where
  clean : ∀ a ∈ stg.outputs, CleanRel a.path
  nodup : (stg.outputs.map (·.path)).Nodup

/-- the shape `stage.FromFile` gives the artifact maps of a stage: every path is clean, relative and
non-escaping, and a map has one entry per path -/
structure StageWF (stg : Stage) : Prop where
  cleanOut : ∀ a ∈ stg.outputs, CleanRel a.path
  cleanIn : ∀ a ∈ stg.inputs, CleanRel a.path
  nodupOut : (stg.outputs.map (·.path)).Nodup
  nodupIn : (stg.inputs.map (·.path)).Nodup

/-- literally what `stage.FromFile` (stage.go) establishes before calling `Validate`: every path
went through `filepath.Clean`, and the two artifact maps have one entry per path.  Together with a
successful `Validate` this yields `StageWF` (`FromFileShape.wf`). -/
structure FromFileShape (stg : Stage) : Prop where
  cleaned : ∀ a ∈ stg.outputs ++ stg.inputs, ∃ q, a.path = Path.clean q
  nodupOut : (stg.outputs.map (·.path)).Nodup
  nodupIn : (stg.inputs.map (·.path)).Nodup

theorem StageWF.out {stg : Stage} (h : StageWF stg) : OutWF stg := ⟨h.cleanOut, h.nodupOut⟩

/-- the conditions of `Stage.Validate` that have nothing to do with overlap -/
structure SideOK (stg : Stage) (stagePath : Bytes) : Prop where
  wdNoDotDot : Path.containsDotDot stg.wd = false
  wdRel : Path.isAbs stg.wd = false
  nonEmpty : ¬ (stg.inputs = [] ∧ stg.outputs = [])
  hasCmd : ¬ (stg.outputs = [] ∧ stg.cmd = [])
  notSelf : ∀ a ∈ stg.outputs ++ stg.inputs, a.path ≠ stagePath
  noDotDot : ∀ a ∈ stg.outputs ++ stg.inputs, Path.containsDotDot a.path = false

/-- no path is both input and output, and no artifact of the stage (input or output) equals or lies
inside another one -/
def NoSelfOverlap (stg : Stage) : Prop :=
  (∀ a ∈ stg.outputs, ∀ b ∈ stg.inputs, a.path ≠ b.path) ∧
  ∀ a ∈ stg.outputs ++ stg.inputs, ∀ b ∈ stg.outputs ++ stg.inputs, a ≠ b → ¬ Overlaps a b

end Dud
