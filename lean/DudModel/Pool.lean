/-!
# Abstract worker-pool protocol of one directory (C13)

dud processes the entries of a directory with the same goroutine scheme in three places:

* `src/cache/commit.go`   — `commitDirArtifact`, `startCommitWorkers`, `commitWorker`
* `src/cache/checkout.go` — `checkoutDir`, `startCheckoutWorkers`, `checkoutWorker`
* `src/cache/status.go`   — `concurrentStatus`, `startStatusWorkers`, `statusWorker`

Per directory instance there is a *feeder* (sends the `n` entries on an unbuffered channel, then
closes it), a *collector* (commit, status: receives exactly `n` results, then closes `ready`;
checkout has none), a *spawn loop* (≤ `n` iterations, each blocking in a `select` on
`ctx.Done`, `ready`, a token of the SHARED pool, a token of this directory's DEDICATED pool of
capacity `D`) and the *workers* (take an entry, process it, send the result, repeat; leave when the
channel is closed and drained).  Everything is joined by an `errgroup`.

The state below counts goroutines per control location.  The shared pool is the *environment*: the
step `spawnS` may fire at any time or never (this over-approximates every capacity `S` and every
contention by ancestors / siblings).  Core Lean only.
-/
namespace Dud.Pool

/-- State of one directory instance. -/
structure P where
  /-- number of entries -/
  n : Nat
  /-- variant: `true` = there is a collector and a `ready` channel and the workers `range` over the
      work channel (commit, status); `false` = checkout (no collector, workers `select` on
      `ctx.Done` while idle). -/
  coll : Bool
  /-- entries handed to workers -/
  fed : Nat
  /-- results received by the collector (checkout: entries completely processed) -/
  got : Nat
  /-- workers blocked on the work channel -/
  idle : Nat
  /-- workers holding an entry (processing it, or blocked on the result send) -/
  busy : Nat
  /-- iterations of the spawn loop that created a worker -/
  spawned : Nat
  /-- dedicated tokens in use -/
  ded : Nat
  /-- workers that returned -/
  exited : Nat
  /-- the spawn loop returned -/
  loopDone : Bool
  /-- the errgroup context is cancelled (a goroutine returned an error, or an ancestor cancelled) -/
  failed : Bool
  /-- the feeder returned on `ctx.Done` before having sent every entry -/
  feedStop : Bool
  /-- the collector returned without closing `ready` (on `ctx.Done`, or short-circuit in status) -/
  collStop : Bool
deriving Repr, DecidableEq

/-- Names of the atomic steps. -/
inductive Label
  /-- spawn loop acquires a dedicated token and starts a worker -/
  | spawnD
  /-- spawn loop acquires a shared token and starts a worker (ENVIRONMENT: may never happen) -/
  | spawnS
  /-- spawn loop: the `for` loop ran `n` iterations -/
  | loopEndN
  /-- spawn loop: `<-ready` (commit/status only) -/
  | loopEndReady
  /-- spawn loop: `<-ctx.Done()` -/
  | loopEndCancel
  /-- feeder hands an entry to an idle worker -/
  | take
  /-- a busy worker finishes its entry and hands the result to the collector -/
  | deliver
  /-- status only: as `deliver`, and the collector returns `shortCircuited{}` (cancels ctx) -/
  | deliverShort
  /-- idle worker sees the closed channel and returns, releasing a shared token -/
  | exitS
  /-- idem, dedicated token -/
  | exitD
  /-- checkout only: idle worker sees `ctx.Done`, shared token -/
  | abortIdleS
  /-- idem, dedicated token -/
  | abortIdleD
  /-- busy worker returns an error (cancels ctx), shared token -/
  | failS
  /-- idem, dedicated token -/
  | failD
  /-- busy worker sees `ctx.Done` instead of sending its result, shared token -/
  | abortBusyS
  /-- idem, dedicated token -/
  | abortBusyD
  /-- ENVIRONMENT: the parent context is cancelled -/
  | cancel
  /-- feeder sees `ctx.Done` -/
  | feedStop
  /-- collector sees `ctx.Done` -/
  | collStop
deriving Repr, DecidableEq

/-- All labels, for enumeration by a driver. -/
def Label.all : List Label :=
  [.spawnD, .spawnS, .loopEndN, .loopEndReady, .loopEndCancel, .take, .deliver, .deliverShort,
   .exitS, .exitD, .abortIdleS, .abortIdleD, .failS, .failD, .abortBusyS, .abortBusyD,
   .cancel, .feedStop, .collStop]

/-- Steps that exist in all three Go variants and depend neither on the shared pool, nor on an
    ancestor, nor on an I/O error.  Progress only ever needs these. -/
def Label.core : Label → Bool
  | .spawnD | .loopEndN | .loopEndCancel | .take | .deliver | .exitS | .exitD
  | .abortBusyS | .abortBusyD | .feedStop | .collStop => true
  | _ => false

/-- The labels progress may need in a tree of instances: the core ones, plus `fail` to propagate
    the error of a nested call to the parent's errgroup. -/
def Label.needed (l : Label) : Bool := l.core || l == .failS || l == .failD

/-- Steps that remove the entry held by a busy worker. -/
def Label.consumes : Label → Bool
  | .deliver | .deliverShort | .failS | .failD | .abortBusyS | .abortBusyD => true
  | _ => false

/-- Guard of every step.  `D` is the capacity of the dedicated pool. -/
def enabled (D : Nat) : Label → P → Bool
  | .spawnD, p => !p.loopDone && decide (p.spawned < p.n) && decide (p.ded < D)
  | .spawnS, p => !p.loopDone && decide (p.spawned < p.n)
  | .loopEndN, p => !p.loopDone && decide (p.spawned = p.n)
  | .loopEndReady, p => !p.loopDone && p.coll && !p.collStop && decide (p.got = p.n)
  | .loopEndCancel, p => !p.loopDone && p.failed
  | .take, p => decide (0 < p.idle) && decide (p.fed < p.n) && !p.feedStop
  | .deliver, p => decide (0 < p.busy) && !p.collStop
  | .deliverShort, p => decide (0 < p.busy) && p.coll && !p.collStop
  | .exitS, p => decide (0 < p.idle) && (decide (p.fed = p.n) || p.feedStop) &&
      decide (p.ded < p.idle + p.busy)
  | .exitD, p => decide (0 < p.idle) && (decide (p.fed = p.n) || p.feedStop) && decide (0 < p.ded)
  | .abortIdleS, p => decide (0 < p.idle) && p.failed && !p.coll && decide (p.ded < p.idle + p.busy)
  | .abortIdleD, p => decide (0 < p.idle) && p.failed && !p.coll && decide (0 < p.ded)
  | .failS, p => decide (0 < p.busy) && decide (p.ded < p.idle + p.busy)
  | .failD, p => decide (0 < p.busy) && decide (0 < p.ded)
  | .abortBusyS, p => decide (0 < p.busy) && p.failed && decide (p.ded < p.idle + p.busy)
  | .abortBusyD, p => decide (0 < p.busy) && p.failed && decide (0 < p.ded)
  | .cancel, p => !p.failed
  | .feedStop, p => p.failed && !p.feedStop && decide (p.fed < p.n)
  | .collStop, p => p.failed && p.coll && !p.collStop && decide (p.got < p.n)

/-- Effect of every step. -/
def fire : Label → P → P
  | .spawnD, p => { p with spawned := p.spawned + 1, ded := p.ded + 1, idle := p.idle + 1 }
  | .spawnS, p => { p with spawned := p.spawned + 1, idle := p.idle + 1 }
  | .loopEndN, p => { p with loopDone := true }
  | .loopEndReady, p => { p with loopDone := true }
  | .loopEndCancel, p => { p with loopDone := true }
  | .take, p => { p with idle := p.idle - 1, busy := p.busy + 1, fed := p.fed + 1 }
  | .deliver, p => { p with busy := p.busy - 1, got := p.got + 1, idle := p.idle + 1 }
  | .deliverShort, p =>
      { p with busy := p.busy - 1, got := p.got + 1, idle := p.idle + 1,
               collStop := true, failed := true }
  | .exitS, p => { p with idle := p.idle - 1, exited := p.exited + 1 }
  | .exitD, p => { p with idle := p.idle - 1, exited := p.exited + 1, ded := p.ded - 1 }
  | .abortIdleS, p => { p with idle := p.idle - 1, exited := p.exited + 1 }
  | .abortIdleD, p => { p with idle := p.idle - 1, exited := p.exited + 1, ded := p.ded - 1 }
  | .failS, p => { p with busy := p.busy - 1, exited := p.exited + 1, failed := true }
  | .failD, p =>
      { p with busy := p.busy - 1, exited := p.exited + 1, ded := p.ded - 1, failed := true }
  | .abortBusyS, p => { p with busy := p.busy - 1, exited := p.exited + 1 }
  | .abortBusyD, p => { p with busy := p.busy - 1, exited := p.exited + 1, ded := p.ded - 1 }
  | .cancel, p => { p with failed := true }
  | .feedStop, p => { p with feedStop := true }
  | .collStop, p => { p with collStop := true }

/-- One atomic step of the instance. -/
inductive Step (D : Nat) : P → P → Prop
  | mk {p : P} (l : Label) : enabled D l p = true → Step D p (fire l p)

/-- Initial state of an instance with `n` entries (`coll` selects the variant). -/
def init (n : Nat) (coll : Bool := true) : P :=
  { n := n, coll := coll, fed := 0, got := 0, idle := 0, busy := 0, spawned := 0, ded := 0,
    exited := 0, loopDone := false, failed := false, feedStop := false, collStop := false }

/-- `errGroup.Wait()` returns: the spawn loop returned, every worker returned, the feeder returned,
    the collector (if any) returned. -/
def Terminal (p : P) : Prop :=
  p.loopDone = true ∧ p.idle = 0 ∧ p.busy = 0 ∧ (p.fed = p.n ∨ p.feedStop = true) ∧
  (p.coll = true → p.got = p.n ∨ p.collStop = true)

instance (p : P) : Decidable (Terminal p) := by unfold Terminal; infer_instance

/-- Bookkeeping invariant. -/
structure WF (p : P) : Prop where
  got_busy_le : p.got + p.busy ≤ p.fed
  fed_eq : p.failed = false → p.fed = p.got + p.busy
  workers : p.idle + p.busy + p.exited = p.spawned
  fed_le : p.fed ≤ p.n
  spawned_le : p.spawned ≤ p.n
  exited_closed : 0 < p.exited → p.fed = p.n ∨ p.failed = true
  ded_le : p.ded ≤ p.idle + p.busy
  loop_done : p.loopDone = true → p.spawned = p.n ∨ p.got = p.n ∨ p.failed = true
  feed_stop : p.feedStop = true → p.failed = true
  coll_stop : p.collStop = true → p.failed = true ∧ p.coll = true

/-- Termination measure: every step decreases it. -/
def mu (p : P) : Nat :=
  2 * (p.n - p.spawned) + 2 * (p.n - p.fed) + 2 * (p.n - p.got) + (p.spawned - p.exited) + p.busy +
  (if p.loopDone then 0 else 1) + (if p.failed then 0 else 1) + (if p.feedStop then 0 else 1) +
  (if p.collStop then 0 else 1)

/-- A canonical enabled step (a scheduler).  Never answers with a non-core label, in particular
    never with `spawnS`. -/
def next (D : Nat) (p : P) : Option Label :=
  if 0 < p.busy then
    if p.collStop then (if 0 < p.ded then some .abortBusyD else some .abortBusyS)
    else some .deliver
  else if 0 < p.idle then
    if p.fed < p.n ∧ p.feedStop = false then some .take
    else if 0 < p.ded then some .exitD else some .exitS
  else if p.loopDone = false then
    if p.spawned = p.n then some .loopEndN
    else if p.failed then some .loopEndCancel
    else if p.ded < D then some .spawnD else none
  else if p.failed = true ∧ p.fed < p.n ∧ p.feedStop = false then some .feedStop
  else if p.failed = true ∧ p.coll = true ∧ p.got < p.n ∧ p.collStop = false then some .collStop
  else none

/-- Executable one-step function following the canonical scheduler. -/
def stepFn (D : Nat) (p : P) : Option P := (next D p).map (fire · p)

/-- Run the canonical scheduler for at most `fuel` steps. -/
def runToEnd (D : Nat) : (fuel : Nat) → P → P
  | 0, p => p
  | fuel + 1, p =>
    match next D p with
    | none => p
    | some l => runToEnd D fuel (fire l p)

/-- Follow a given schedule (list of labels); `none` if some label is not enabled. -/
def runLabels (D : Nat) : List Label → P → Option P
  | [], p => some p
  | l :: ls, p => if enabled D l p then runLabels D ls (fire l p) else none

/-- `Run r a k b`: `b` is reached from `a` by exactly `k` steps of `r`. -/
inductive Run {α : Type} (r : α → α → Prop) : α → Nat → α → Prop
  | refl {a : α} : Run r a 0 a
  | cons {a b c : α} {k : Nat} : r a b → Run r b k c → Run r a (k + 1) c

/-- `k`-step reachability of one instance. -/
abbrev Steps (D : Nat) : P → Nat → P → Prop := Run (Step D)

/-! ## Nesting -/

/-- Shape of a directory tree: a file, or a directory with its entries. -/
inductive Shape
  | leaf
  | dir (children : List Shape)

/-- A transition system for "process one directory of this shape to completion". -/
structure Sys where
  σ : Type
  step : σ → σ → Prop
  /-- the call returned -/
  term : σ → Prop
  /-- … with an error -/
  failed : σ → Bool
  mu : σ → Nat
  inv : σ → Prop
  /-- instance for a directory with these entries -/
  start : List Shape → σ

/-- An invariant and a measure decreasing with every step (hence: all runs are finite). -/
structure Sys.Safe (C : Sys) : Prop where
  inv_start : ∀ cs, C.inv (C.start cs)
  inv_step : ∀ a b, C.inv a → C.step a b → C.inv b
  dec : ∀ a b, C.inv a → C.step a b → C.mu b < C.mu a

/-- … and progress up to termination (hence: no deadlock). -/
structure Sys.Good (C : Sys) : Prop extends Sys.Safe C where
  prog : ∀ a, C.inv a → ¬ C.term a → ∃ b, C.step a b

/-- State of a directory whose sub-directory entries are processed by instances of `σ`. -/
structure DState (σ : Type) where
  p : P
  /-- entries not yet handed to a worker -/
  pend : List Shape
  /-- entries held by busy workers: `none` = a file, `some c` = a running nested instance -/
  act : List (Option σ)

/-- The job a worker runs for an entry. -/
def job (C : Sys) : Shape → Option C.σ
  | .leaf => none
  | .dir cs => some (C.start cs)

def finished (C : Sys) : Option C.σ → Prop
  | none => True
  | some c => C.term c

def jobFailed (C : Sys) : Option C.σ → Bool
  | none => false
  | some c => C.failed c

def jobMu (C : Sys) : Option C.σ → Nat
  | none => 0
  | some c => C.mu c

/-- Steps of a directory over child system `C`.  `ok` restricts the labels that may be used at this
    level and below (`fun _ => true`: everything; `Label.core` plus the two `fail` labels: the shared
    pool never grants a token and nothing fails spontaneously). -/
inductive DStep (D : Nat) (ok : Label → Bool) (C : Sys) : DState C.σ → DState C.σ → Prop
  /-- a step that neither takes nor gives back an entry -/
  | loc {s : DState C.σ} (l : Label) : ok l = true → enabled D l s.p = true →
      l.consumes = false → l ≠ .take → DStep D ok C s { s with p := fire l s.p }
  /-- a worker takes the next entry and starts its job (for a directory: a fresh nested instance) -/
  | take {s : DState C.σ} (sh : Shape) (rest : List Shape) : ok .take = true →
      enabled D .take s.p = true → s.pend = sh :: rest →
      DStep D ok C s ⟨fire .take s.p, rest, job C sh :: s.act⟩
  /-- a worker whose job is finished (nested instance: the call returned) hands the result on, or
      returns an error / aborts.  A plain `deliver` requires that the nested call did not fail.
      (`deliverShort` does not: in status a short-circuited nested call returns `nil` and a status
      with `ContentsMatch = false`, on which the parent's collector short-circuits in turn — this
      over-approximates; progress never uses `deliverShort`.) -/
  | consume {s : DState C.σ} (l : Label) (pre : List (Option C.σ)) (j : Option C.σ)
      (post : List (Option C.σ)) : ok l = true → enabled D l s.p = true → l.consumes = true →
      s.act = pre ++ j :: post → finished C j → (l = .deliver → jobFailed C j = false) →
      DStep D ok C s ⟨fire l s.p, s.pend, pre ++ post⟩
  /-- a nested instance makes a step -/
  | inner {s : DState C.σ} (pre : List (Option C.σ)) (c c' : C.σ) (post : List (Option C.σ)) :
      s.act = pre ++ some c :: post → C.step c c' →
      DStep D ok C s ⟨s.p, s.pend, pre ++ some c' :: post⟩

def listSum : List Nat → Nat
  | [] => 0
  | x :: xs => x + listSum xs

def DMu (C : Sys) (s : DState C.σ) : Nat :=
  mu s.p + listSum (s.pend.map fun sh => jobMu C (job C sh)) + listSum (s.act.map (jobMu C))

structure DInv (C : Sys) (s : DState C.σ) : Prop where
  wf : WF s.p
  pend_len : s.pend.length + s.p.fed = s.p.n
  act_len : s.act.length = s.p.busy
  child : ∀ c, some c ∈ s.act → C.inv c

/-- One more level of directories on top of `C`. -/
def dirSys (D : Nat) (coll : Bool) (ok : Label → Bool) (C : Sys) : Sys where
  σ := DState C.σ
  step := DStep D ok C
  term s := Terminal s.p
  failed s := s.p.failed
  mu := DMu C
  inv := DInv C
  start cs := ⟨init cs.length coll, cs, []⟩

/-- Level 0: sub-directories are atomic (used only below the depth of the tree). -/
def baseSys : Sys where
  σ := Unit
  step _ _ := False
  term _ := True
  failed _ := false
  mu _ := 0
  inv _ := True
  start _ := ()

/-- Trees of instances of depth ≤ `d`. -/
def level (D : Nat) (coll : Bool) (ok : Label → Bool) : Nat → Sys
  | 0 => baseSys
  | d + 1 => dirSys D coll ok (level D coll ok d)

mutual
/-- Bound on the number of steps for a whole tree. -/
def cost : Shape → Nat
  | .leaf => 0
  | .dir cs => mu (init cs.length) + costs cs
def costs : List Shape → Nat
  | [] => 0
  | s :: ss => cost s + costs ss
end

mutual
def depth : Shape → Nat
  | .leaf => 0
  | .dir cs => depths cs + 1
def depths : List Shape → Nat
  | [] => 0
  | s :: ss => max (depth s) (depths ss)
end

/-! ## Content-addressed store -/

/-- Insert (`os.Rename` into the cache: the last writer wins). -/
def put (k : String) (v : Nat) (m : List (String × Nat)) : List (String × Nat) := (k, v) :: m

/-- First-match lookup. -/
def lookup (k : String) : List (String × Nat) → Option Nat
  | [] => none
  | (k', v) :: m => if k = k' then some v else lookup k m

/-- Perform a list of puts in order. -/
def putAll (m : List (String × Nat)) (l : List (String × Nat)) : List (String × Nat) :=
  l.foldl (fun m kv => put kv.1 kv.2 m) m

/-- Content addressing: equal keys carry equal values. -/
def Consistent (l : List (String × Nat)) : Prop :=
  ∀ k v v', (k, v) ∈ l → (k, v') ∈ l → v = v'

end Dud.Pool
