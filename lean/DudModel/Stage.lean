import DudModel.Model
import DudModel.Path
import DudModel.GoJson
/-!
# Stages, validation, ownership (`src/stage/stage.go`, `src/index/index.go`)

`walkAccumulates` is a regenerated fact: `true` when the ancestor walk of
`FindDirArtifactOwnerForPath` assigns the joined directory back to the outer variable
(`dir = filepath.Join(dir, part)`), `false` when it shadows it (`dir := …`), in which case only
one-component directories are ever looked up.
-/
namespace Dud

structure Stage where
  sum : Digest := ""
  cmd : Bytes := []
  wd : Bytes := [Path.dot]
  inputs : List Art := []
  outputs : List Art := []
deriving DecidableEq, Repr, Inhabited

abbrev Index := List (Bytes × Stage)

def findArt (arts : List Art) (p : Bytes) : Option Art := arts.find? (fun a => a.path == p)

/-- the ancestor walk of `FindDirArtifactOwnerForPath` -/
def ownerWalk (walkAccumulates : Bool) (arts : List Art) (fullDir : Bytes) :
    Bytes → List Bytes → Option Art
  | _, [] => none
  | dir, part :: r =>
    let d := Path.join [if walkAccumulates then dir else [], part]
    match findArt arts d with
    | some o =>
      if !o.noRec || d == fullDir then some o
      else ownerWalk walkAccumulates arts fullDir (if walkAccumulates then d else dir) r
    | none => ownerWalk walkAccumulates arts fullDir (if walkAccumulates then d else dir) r

/-- `stage.FindDirArtifactOwnerForPath` -/
def findDirOwner (walkAccumulates : Bool) (relPath : Bytes) (arts : List Art) : Option Art :=
  let fullDir := Path.dir relPath
  ownerWalk walkAccumulates arts fullDir [] (Path.splitSlash fullDir)

/-- `Stage.Validate(stagePath)` -/
def Stage.validate (wa : Bool) (stg : Stage) (stagePath : Bytes) : Bool :=
  let all := stg.outputs ++ stg.inputs
  !Path.containsDotDot stg.wd && !Path.isAbs stg.wd &&
  !(stg.inputs.isEmpty && stg.outputs.isEmpty) &&
  !(stg.outputs.isEmpty && stg.cmd.isEmpty) &&
  stg.outputs.all (fun a => a.path != stagePath && (findArt stg.inputs a.path).isNone) &&
  stg.inputs.all (fun a => a.path != stagePath) &&
  all.all (fun a => !Path.containsDotDot a.path && !Path.isAbs a.path &&
                    (findDirOwner wa a.path all).isNone)

/-- `Index.findOwner`: the stage whose outputs contain the path or a directory owning it -/
def findOwner (wa : Bool) (idx : Index) (p : Bytes) : Option (Bytes × Art) :=
  match idx with
  | [] => none
  | (sp, stg) :: r =>
    match findArt stg.outputs p with
    | some a => some (sp, a)
    | none => match findDirOwner wa p stg.outputs with
      | some a => some (sp, a)
      | none => findOwner wa r p

/-- does some output of `stg` lie inside a directory output of the new stage `nw`?
(the direction `Index.AddStage` checks only when `rev`, a regenerated fact, is true) -/
def ownsExisting (wa : Bool) (idx : Index) (nw : Stage) : Bool :=
  idx.any fun p => p.2.outputs.any fun a =>
    (findArt nw.outputs a.path).isSome || (findDirOwner wa a.path nw.outputs).isSome

/-- `Index.AddStage` -/
def addStage (wa rev : Bool) (idx : Index) (sp : Bytes) (stg : Stage) : Except Err Index :=
  if (alookup idx sp).isSome then .error .invalid
  else if stg.outputs.any (fun a => (findOwner wa idx a.path).isSome) then .error .owned
  else if rev && ownsExisting wa idx stg then .error .owned
  else .ok (idx ++ [(sp, stg)])

/-- `index.FromFile`: validate and add stage by stage in the order of the index file -/
def loadIndex (wa rev : Bool) : List (Bytes × Stage) → Index → Except Err Index
  | [], idx => .ok idx
  | (sp, stg) :: r, idx =>
    if !stg.validate wa sp then .error .invalid
    else match addStage wa rev idx sp stg with
      | .error e => .error e
      | .ok idx' => loadIndex wa rev r idx'

def insertArt (a : Art) : List Art → List Art
  | [] => [a]
  | x :: xs => if a.path == x.path then a :: xs
               else if decide (a.path < x.path) then a :: x :: xs
               else x :: insertArt a xs
def sortArts (as : List Art) : List Art := as.foldr insertArt []

def Art.defArt (a : Art) : GoJson.DefArt := { path := a.path, isDir := a.isDir, noRec := a.noRec, skip := a.skip }

/-- bytes hashed by `Stage.CalculateChecksum` -/
def Stage.defBytes (stg : Stage) : Bytes :=
  GoJson.stageDef stg.cmd stg.wd ((sortArts stg.inputs).map Art.defArt) ((sortArts stg.outputs).map Art.defArt)

end Dud
