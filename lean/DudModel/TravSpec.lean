import DudModel.World
/-!
# Specification vocabulary for the index traversal (`visit`)

`Trav.logged` adds a ghost log of the stages acted on, in order; `Trav.guarded` makes the action
fail unless a precondition holds, so "the guard never fires" can be stated as an equation.
-/
namespace Dud

variable {σ : Type}

/-- ghost log of acted stages, oldest first -/
def Trav.logged (T : Trav σ) : Trav (σ × List Bytes) :=
  { isDone := fun p sp => T.isDone p.1 sp
    owners := fun p sp => T.owners p.1 sp
    act := fun sp p => match T.act sp p.1 with
      | .ok s => .ok (s, p.2 ++ [sp])
      | .error e => .error e }

/-- the action refuses to run unless `P sp st` holds -/
def Trav.guarded (T : Trav σ) (P : Bytes → σ → Bool) : Trav σ :=
  { T with act := fun sp st => if P sp st then T.act sp st else .error .other }

/-- The laws the concrete traversals satisfy: acting marks exactly that stage done and does not
change who owns what. `own` is the (state-independent) owner function. -/
structure Trav.Lawful (T : Trav σ) (own : Bytes → List Bytes) : Prop where
  owners_eq : ∀ st sp os, T.owners st sp = .ok os → os = own sp
  act_done : ∀ sp st st', T.act sp st = .ok st' → ∀ x, T.isDone st' x = (x == sp || T.isDone st x)

/-- all owners of `sp` are finished -/
def ownersDone (T : Trav σ) (own : Bytes → List Bytes) (sp : Bytes) (st : σ) : Bool :=
  (own sp).all (T.isDone st)

/-- upstream reachability: `Reach own a b` iff `b` is `a` or an owner of an owner … of `a` -/
inductive Reach (own : Bytes → List Bytes) : Bytes → Bytes → Prop
  | refl (a) : Reach own a a
  | step {a b c} : b ∈ own a → Reach own b c → Reach own a c

/-- `x` occurs strictly before `y` in `l` -/
def Before (l : List Bytes) (x y : Bytes) : Prop :=
  ∃ l1 l2 l3, l = l1 ++ x :: l2 ++ y :: l3

end Dud
