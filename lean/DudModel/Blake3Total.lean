import DudModel.Blake3
/-!
# BLAKE3, executable and TOTAL

Core-only.  `DudModel/Blake3.lean` is the executable BLAKE3 the driver uses to predict every checksum
dud writes; two of its functions (`leftLen`, a `while` loop, and `subtree`, the tree recursion) are
`partial def`s, and `chunkOutput` is an `Id.run`/`for` loop, so no theorem can talk about `Blake3.hash`.

This file is the same algorithm, line by line, with every function TOTAL (no `partial`, no `unsafe`,
no `implemented_by`):

* `Blake3T.chunkLoop` / `Blake3T.chunkOutput` — the `for` loop over the full blocks of a chunk as an
  explicit tail-recursive loop, structurally recursive on the number of blocks still to do;
* `Blake3T.leftLen` — the `while` loop with a fuel argument (fuel `n` is enough for `n` chunks; the loop
  stops after `log₂ n` steps);
* `Blake3T.subtree` — the tree recursion of the paper by well-founded recursion on the number of chunks
  (the proofs that both recursive calls are on fewer chunks are `leftLenFrom_lt` / `le_leftLenFrom`);
* `Blake3T.hash` — as `Blake3.hash`.

Everything that is already total in `Blake3.lean` is re-used, not copied: `Blake3.compress`,
`Blake3.wordsOfBlock`, `Blake3.Output` (`chaining`, `rootBytes`), `Blake3.parentOutput`, `Blake3.IV`
and the flag constants.  The input stays a `ByteArray` accessed by index; nothing is converted to a list.

`Props/C14total.lean` proves `(Blake3T.hash b).toList = hashSpecReal b.toList` for every `b`.
-/
namespace Blake3T
open Blake3

/-- The `for i in [0:nblocks-1]` loop of `Blake3.chunkOutput`: compress `k` more full 64-byte blocks of
the chunk starting at byte `off`, the next one being block number `i` of the chunk. -/
def chunkLoop (b : ByteArray) (off : Nat) (c : UInt64) : (k i : Nat) → (cv : Array UInt32) → Array UInt32
  | 0, _, cv => cv
  | k + 1, i, cv =>
    let fl := if i = 0 then CHUNK_START else 0
    chunkLoop b off c k (i + 1) ((compress cv (wordsOfBlock b (off + 64*i) 64) c 64 fl).extract 0 8)

/-- chunk [off, off+len) with len ≤ 1024, chunk counter c -/
def chunkOutput (b : ByteArray) (off len : Nat) (c : UInt64) : Output :=
  let nblocks := if len = 0 then 1 else (len + 63) / 64
  let cv := chunkLoop b off c (nblocks - 1) 0 IV
  let i := nblocks - 1
  let bl := len - 64*i
  let fl := (if i = 0 then CHUNK_START else 0) ||| CHUNK_END
  { cv := cv, block := wordsOfBlock b (off + 64*i) bl, counter := c, blockLen := bl.toUInt32, flags := fl }

/-- `leftLenFrom fuel p n`: double `p` while `2 * p < n` (the `while` loop of `Blake3.leftLen`), at most
`fuel` times. -/
def leftLenFrom : (fuel p n : Nat) → Nat
  | 0, p, _ => p
  | fuel + 1, p, n => if 2 * p < n then leftLenFrom fuel (2 * p) n else p

/-- largest power of two strictly less than n chunks (n ≥ 2) -/
def leftLen (n : Nat) : Nat := leftLenFrom n 1 n

theorem le_leftLenFrom (fuel p n : Nat) : p ≤ leftLenFrom fuel p n := by
  induction fuel generalizing p with
  | zero => simp [leftLenFrom]
  | succ fuel ih =>
    simp only [leftLenFrom]
    split
    · have := ih (2 * p); omega
    · omega

theorem leftLenFrom_lt (fuel p n : Nat) (h : p < n) : leftLenFrom fuel p n < n := by
  induction fuel generalizing p with
  | zero => simpa [leftLenFrom] using h
  | succ fuel ih =>
    simp only [leftLenFrom]
    split
    · exact ih (2 * p) (by assumption)
    · exact h

theorem leftLen_pos (n : Nat) : 0 < leftLen n := by
  have := le_leftLenFrom n 1 n
  unfold leftLen; omega

theorem leftLen_lt {n : Nat} (h : 2 ≤ n) : leftLen n < n :=
  leftLenFrom_lt n 1 n (by omega)

/-- recursive tree definition straight from the BLAKE3 paper: subtree over chunks [c0, c0+n) -/
def subtree (b : ByteArray) (c0 n : Nat) (total : Nat) : Output :=
  if h : n ≤ 1 then
    let off := 1024*c0
    chunkOutput b off (min 1024 (total - off)) c0.toUInt64
  else
    let l := leftLen n
    have : l < n := leftLen_lt (by omega)
    have : n - l < n := by have := leftLen_pos n; omega
    parentOutput (subtree b c0 l total).chaining (subtree b (c0+l) (n-l) total).chaining
termination_by n

def hash (b : ByteArray) : ByteArray :=
  let n := if b.size = 0 then 1 else (b.size + 1023) / 1024
  (subtree b 0 n b.size).rootBytes

end Blake3T
