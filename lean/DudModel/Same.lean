import DudModel.Basic
/-!
# Model of `fsutil.SameContents` (src/fsutil/same.go)

Core-only.  The Go function opens both files, allocates TWO buffers of `B` bytes
(`B = 8 MiB` in the source) ONCE, and then loops:

```
nA, errA := fileA.Read(bytesA); eofA := errA == io.EOF
nB, errB := fileB.Read(bytesB); eofB := errB == io.EOF
if nA != nB                      { return false }
if !bytes.Equal(bytesA, bytesB)  { return false }   // WHOLE buffers, stale tails included
if eofA != eofB                  { return false }
else if eofA                     { return true }
```

A regular-file `Read(buf)` with `rem` bytes remaining returns `min (len buf) rem` bytes and a nil
error when that is positive, and `(0, io.EOF)` when `rem = 0` (and `len buf > 0`); bytes of `buf`
beyond `n` are left untouched (stale).  I/O errors other than EOF are out of scope.
-/
namespace Dud.Same

/-- Result of one `(*os.File).Read(buf)`. -/
structure ReadRes where
  n    : Nat     -- bytes read
  eof  : Bool    -- `err == io.EOF`
  buf  : Bytes   -- the buffer after the call (prefix overwritten, tail stale)
  rest : Bytes   -- what remains in the file
deriving Repr, DecidableEq

/-- `f.Read(buf)` where `buf` has `B` bytes and `rem` is the unread remainder of the file.
`os.File.Read` reports `io.EOF` iff `n == 0 && len(buf) > 0`. -/
def fileRead (B : Nat) (buf rem : Bytes) : ReadRes :=
  let n := min B rem.length
  { n := n
    eof := n == 0 && decide (0 < B)
    buf := rem.take n ++ buf.drop n
    rest := rem.drop n }

/-- The `for { … }` loop.  `fuel` bounds the number of iterations; running out of fuel
(impossible for `B > 0`, see `sameContents_eq`) answers `false`. -/
def loop (B : Nat) : Nat → Bytes → Bytes → Bytes → Bytes → Bool
  | 0, _, _, _, _ => false
  | fuel + 1, bufA, bufB, a, b =>
    let rA := fileRead B bufA a
    let rB := fileRead B bufB b
    if rA.n != rB.n then false
    else if rA.buf != rB.buf then false          -- `!bytes.Equal(bytesA, bytesB)`
    else if rA.eof != rB.eof then false
    else if rA.eof then true
    else loop B fuel rA.buf rB.buf rA.rest rB.rest

/-- `make([]byte, B)` -/
def zeros (B : Nat) : Bytes := List.replicate B 0

/-- `fsutil.SameContents` on two readable regular files with contents `a` and `b`. -/
def sameContents (B : Nat) (a b : Bytes) : Bool :=
  loop B (a.length + b.length + 2) (zeros B) (zeros B) a b

end Dud.Same
