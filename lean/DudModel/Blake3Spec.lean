import DudModel.Basic
import DudModel.Blake3
/-!
# BLAKE3 as a total, list-based, recursive specification

Core-only.  `DudModel/Blake3.lean` is the executable BLAKE3 the driver uses; it is written with
`partial def`, `ByteArray` and `Id.run` loops, so nothing can be proved about it.  This file restates
the tree mode of the BLAKE3 paper as TOTAL functions over lists, in two layers:

* **Tree layer** (`Params`, `treeNode`, `treeCV`, `treeHash`, `hashSpec`).  The compression function
  is abstract: a chunk is turned into a chaining value (`chunkCV`) or, when it is the whole input,
  into the digest (`chunkRoot`); two chaining values are combined by `parentCV` / `parentRoot`.
  The input is cut into 1024-byte chunks (`splitChunks`; the empty input is ONE empty chunk) and the
  tree is the left-heavy one of the paper: one chunk is a leaf; `n ≥ 2` chunks are a parent of the
  tree over the first `leftLen n` chunks (largest power of two strictly below `n`) and the tree over
  the rest; ROOT only at the top node.
* **Block layer** (`BlockParams`, `chunkCVOf`, `chunkRootOf`, `BlockParams.toParams`).  A chunk is
  processed in 64-byte blocks over an abstract block compression; only the last block (which may be
  short, and is empty only for the empty input) is finalised with CHUNK_END (and ROOT).
* **Real instance** (`realBlockParams`, `realParams`, `hashSpecReal`): the parameters instantiated
  with `Blake3.compress` (re-used, not copied) — evaluated against the official test vectors and
  against `Blake3.hash` in `Props/C14blake3.lean`.

All recursive functions are structurally recursive on a fuel argument that the public wrappers set
to the input length; the recursion equations of the paper are THEOREMS
(`treeNode_eq`, `splitChunks_eq`, `leftLen_eq`, …), proved once here, and the fuel never appears again.
-/
namespace Dud.Blake3Spec

/-! ## Tree layer -/

/-- The abstract compression interface of the tree layer. -/
structure Params (CV Digest : Type) where
  /-- chaining value of a complete, non-root chunk with chunk counter `counter` -/
  chunkCV : (chunkBytes : Bytes) → (counter : Nat) → CV
  /-- output of a chunk that is the root (the whole input is at most 1024 bytes) -/
  chunkRoot : (chunkBytes : Bytes) → (counter : Nat) → Digest
  /-- chaining value of a non-root parent node -/
  parentCV : CV → CV → CV
  /-- output of the root parent node -/
  parentRoot : CV → CV → Digest

/-- A node whose compression has not been performed yet (the reference implementation's `Output`):
whether it is compressed to a chaining value or, with the ROOT flag, to the digest is decided by
whoever consumes it. -/
inductive Node (CV : Type) where
  | chunk (bytes : Bytes) (counter : Nat)
  | parent (l r : CV)

variable {CV Digest : Type}

/-- Compress a node as an inner node. -/
def Node.cv (P : Params CV Digest) : Node CV → CV
  | .chunk b c => P.chunkCV b c
  | .parent l r => P.parentCV l r

/-- Compress a node as the root. -/
def Node.root (P : Params CV Digest) : Node CV → Digest
  | .chunk b c => P.chunkRoot b c
  | .parent l r => P.parentRoot l r

/-- `leftLenFrom fuel p n`: double `p` while `2 * p < n` (the `while` loop of `Blake3.leftLen`). -/
def leftLenFrom : Nat → Nat → Nat → Nat
  | 0, p, _ => p
  | fuel + 1, p, n => if 2 * p < n then leftLenFrom fuel (2 * p) n else p

/-- The largest power of two strictly below `n` (for `n ≥ 2`): the number of chunks of the left
subtree (theorem `leftLen_eq`). -/
def leftLen (n : Nat) : Nat := leftLenFrom n 1 n

/-- The tree over the chunks `cs`, the first of which has chunk counter `c0`; `fuel + 1` must be at
least the number of chunks. -/
def treeNodeF (P : Params CV Digest) : Nat → Nat → List Bytes → Node CV
  | 0, c0, cs => .chunk (cs.headD []) c0
  | fuel + 1, c0, cs =>
    if cs.length ≤ 1 then .chunk (cs.headD []) c0
    else
      .parent ((treeNodeF P fuel c0 (cs.take (leftLen cs.length))).cv P)
        ((treeNodeF P fuel (c0 + leftLen cs.length) (cs.drop (leftLen cs.length))).cv P)

/-- The (uncompressed) top node of the tree over the chunks `cs` with counters `c0, c0+1, …`.
Recursion equation: `treeNode_eq`. -/
def treeNode (P : Params CV Digest) (c0 : Nat) (cs : List Bytes) : Node CV :=
  treeNodeF P cs.length c0 cs

/-- Chaining value of the subtree over the chunks `cs` with counters `c0, c0+1, …`. -/
def treeCV (P : Params CV Digest) (c0 : Nat) (cs : List Bytes) : CV := (treeNode P c0 cs).cv P

/-- Digest of the whole tree over the chunks `cs` (counters from 0, ROOT at the top node only). -/
def treeHash (P : Params CV Digest) (cs : List Bytes) : Digest := (treeNode P 0 cs).root P

/-- Cut the input into 1024-byte chunks; `fuel` must be at least the input length. -/
def splitChunksF : Nat → Bytes → List Bytes
  | 0, xs => [xs]
  | fuel + 1, xs =>
    if xs.length ≤ 1024 then [xs] else xs.take 1024 :: splitChunksF fuel (xs.drop 1024)

/-- The chunks of an input: all but the last have 1024 bytes, the last has 1..1024 bytes, except
that the empty input is one empty chunk.  Recursion equation: `splitChunks_eq`. -/
def splitChunks (xs : Bytes) : List Bytes := splitChunksF xs.length xs

/-- **The specification**: BLAKE3 of `input` over the abstract compression interface `P`. -/
def hashSpec (P : Params CV Digest) (input : Bytes) : Digest := treeHash P (splitChunks input)

/-! ### `leftLen` -/

theorem le_leftLenFrom (fuel p n : Nat) : p ≤ leftLenFrom fuel p n := by
  induction fuel generalizing p with
  | zero => simp [leftLenFrom]
  | succ fuel ih =>
    simp only [leftLenFrom]
    split
    · have := ih (2 * p); omega
    · omega

theorem leftLenFrom_lt (fuel p n : Nat) (h : p < n) : leftLenFrom fuel p n < n := by
  induction fuel generalizing p with
  | zero => simpa [leftLenFrom] using h
  | succ fuel ih =>
    simp only [leftLenFrom]
    split
    · exact ih (2 * p) (by assumption)
    · exact h

theorem leftLen_pos (n : Nat) : 0 < leftLen n := by
  have := le_leftLenFrom n 1 n
  unfold leftLen; omega

theorem leftLen_lt {n : Nat} (h : 2 ≤ n) : leftLen n < n :=
  leftLenFrom_lt n 1 n (by omega)

theorem leftLenFrom_pow {n k : Nat} (hlo : 2 ^ k < n) (hhi : n ≤ 2 ^ (k + 1)) :
    ∀ (fuel i : Nat), i ≤ k → k - i ≤ fuel → leftLenFrom fuel (2 ^ i) n = 2 ^ k := by
  intro fuel
  induction fuel with
  | zero =>
    intro i hi hf
    have : i = k := by omega
    subst this; rfl
  | succ fuel ih =>
    intro i hi hf
    simp only [leftLenFrom]
    split
    · rename_i h2
      have hik : i < k := by
        rcases Nat.lt_or_ge i k with h | h
        · exact h
        · have : i = k := by omega
          subst this
          rw [Nat.pow_succ] at hhi; omega
      have := ih (i + 1) hik (by omega)
      rw [Nat.pow_succ, Nat.mul_comm] at this
      exact this
    · rename_i h2
      rcases Nat.lt_or_ge i k with h | h
      · have hle : 2 ^ (i + 1) ≤ 2 ^ k := Nat.pow_le_pow_right (by decide) h
        rw [Nat.pow_succ] at hle; omega
      · have : i = k := by omega
        subst this; rfl

/-- `leftLen n` IS the largest power of two strictly below `n`: if `2^k < n ≤ 2^(k+1)` then
`leftLen n = 2^k`. -/
theorem leftLen_eq {n k : Nat} (hlo : 2 ^ k < n) (hhi : n ≤ 2 ^ (k + 1)) : leftLen n = 2 ^ k := by
  have hk : k < 2 ^ k := Nat.lt_two_pow_self
  exact leftLenFrom_pow hlo hhi n 0 (Nat.zero_le _) (by omega)

/-- Every `n ≥ 2` lies in exactly one interval `(2^k, 2^(k+1)]`. -/
theorem exists_pow_interval : ∀ (n : Nat), 2 ≤ n → ∃ k, 2 ^ k < n ∧ n ≤ 2 ^ (k + 1) := by
  intro n
  induction n using Nat.strongRecOn with
  | _ n ih =>
    intro hn
    rcases Nat.lt_or_ge n 3 with h3 | h3
    · exact ⟨0, by omega, by omega⟩
    · -- m = ⌈n/2⌉ ≥ 2
      obtain ⟨k, hlo, hhi⟩ := ih ((n + 1) / 2) (by omega) (by omega)
      refine ⟨k + 1, ?_, ?_⟩
      · rw [Nat.pow_succ]; omega
      · rw [Nat.pow_succ]; omega

/-- `leftLen n` is a power of two, strictly below `n`, and at least half of `n`. -/
theorem leftLen_spec {n : Nat} (h : 2 ≤ n) :
    ∃ k, leftLen n = 2 ^ k ∧ leftLen n < n ∧ n ≤ 2 * leftLen n := by
  obtain ⟨k, hlo, hhi⟩ := exists_pow_interval n h
  refine ⟨k, leftLen_eq hlo hhi, ?_, ?_⟩
  · rw [leftLen_eq hlo hhi]; exact hlo
  · rw [leftLen_eq hlo hhi]; rw [Nat.pow_succ] at hhi; omega

/-! ### Recursion equations of the tree -/

theorem treeNodeF_fuel (P : Params CV Digest) :
    ∀ (f1 f2 c0 : Nat) (cs : List Bytes), cs.length ≤ f1 + 1 → cs.length ≤ f2 + 1 →
      treeNodeF P f1 c0 cs = treeNodeF P f2 c0 cs := by
  intro f1
  induction f1 with
  | zero =>
    intro f2 c0 cs h1 _
    cases f2 with
    | zero => rfl
    | succ f2 => simp only [treeNodeF, h1, if_true]
  | succ f1 ih =>
    intro f2 c0 cs h1 h2
    by_cases hl : cs.length ≤ 1
    · cases f2 with
      | zero => simp only [treeNodeF, hl, if_true]
      | succ f2 => simp only [treeNodeF, hl, if_true]
    · cases f2 with
      | zero => omega
      | succ f2 =>
        have hlt := leftLen_lt (n := cs.length) (by omega)
        have hpos := leftLen_pos cs.length
        simp only [treeNodeF, hl, if_false]
        rw [ih f2 c0 (cs.take (leftLen cs.length))
              (by simp only [List.length_take]; omega) (by simp only [List.length_take]; omega),
            ih f2 (c0 + leftLen cs.length) (cs.drop (leftLen cs.length))
              (by simp only [List.length_drop]; omega) (by simp only [List.length_drop]; omega)]

/-- **Recursion equation of the paper.**  One chunk (or, degenerately, none) is a chunk node; `n ≥ 2`
chunks are the parent of the subtree over the first `leftLen n` chunks and the subtree over the
rest (whose counters continue after the left part). -/
theorem treeNode_eq (P : Params CV Digest) (c0 : Nat) (cs : List Bytes) :
    treeNode P c0 cs =
      if cs.length ≤ 1 then .chunk (cs.headD []) c0
      else .parent (treeCV P c0 (cs.take (leftLen cs.length)))
            (treeCV P (c0 + leftLen cs.length) (cs.drop (leftLen cs.length))) := by
  unfold treeCV treeNode
  cases hlen : cs.length with
  | zero => simp [treeNodeF]
  | succ f =>
    by_cases hl : f + 1 ≤ 1
    · simp only [treeNodeF, hlen, hl, if_true]
    · have hlt := leftLen_lt (n := f + 1) (by omega)
      have hpos := leftLen_pos (f + 1)
      simp only [treeNodeF, hlen, hl, if_false]
      rw [treeNodeF_fuel P f (cs.take (leftLen (f + 1))).length c0 _
            (by simp only [List.length_take]; omega) (by omega),
          treeNodeF_fuel P f (cs.drop (leftLen (f + 1))).length _ _
            (by simp only [List.length_drop]; omega) (by omega)]

theorem treeNode_one (P : Params CV Digest) (c0 : Nat) (c : Bytes) :
    treeNode P c0 [c] = .chunk c c0 := by
  rw [treeNode_eq]; simp

theorem treeCV_one (P : Params CV Digest) (c0 : Nat) (c : Bytes) :
    treeCV P c0 [c] = P.chunkCV c c0 := by
  unfold treeCV; rw [treeNode_one]; rfl

theorem treeHash_one (P : Params CV Digest) (c : Bytes) : treeHash P [c] = P.chunkRoot c 0 := by
  unfold treeHash; rw [treeNode_one]; rfl

/-- The tree over `l ++ r` where `l` has `2^k` chunks and `r` has between 1 and `2^k` chunks. -/
theorem treeNode_append (P : Params CV Digest) (c0 : Nat) {k : Nat} {l r : List Bytes}
    (hl : l.length = 2 ^ k) (hr1 : 1 ≤ r.length) (hr2 : r.length ≤ 2 ^ k) :
    treeNode P c0 (l ++ r) = .parent (treeCV P c0 l) (treeCV P (c0 + 2 ^ k) r) := by
  have hpos : 0 < 2 ^ k := Nat.two_pow_pos k
  have hlen : (l ++ r).length = 2 ^ k + r.length := by rw [List.length_append, hl]
  have hll : leftLen (l ++ r).length = 2 ^ k := by
    rw [hlen]; apply leftLen_eq
    · omega
    · rw [Nat.pow_succ]; omega
  rw [treeNode_eq, hll]
  have h2 : ¬ (l ++ r).length ≤ 1 := by omega
  simp only [h2, if_false]
  rw [← hl, List.take_left, List.drop_left]

theorem treeCV_split (P : Params CV Digest) (c0 : Nat) (cs : List Bytes) (h : 2 ≤ cs.length) :
    treeCV P c0 cs = P.parentCV (treeCV P c0 (cs.take (leftLen cs.length)))
      (treeCV P (c0 + leftLen cs.length) (cs.drop (leftLen cs.length))) := by
  have h2 : ¬ cs.length ≤ 1 := by omega
  conv => lhs; unfold treeCV; rw [treeNode_eq]
  simp only [h2, if_false, Node.cv]

theorem treeHash_split (P : Params CV Digest) (cs : List Bytes) (h : 2 ≤ cs.length) :
    treeHash P cs = P.parentRoot (treeCV P 0 (cs.take (leftLen cs.length)))
      (treeCV P (leftLen cs.length) (cs.drop (leftLen cs.length))) := by
  have h2 : ¬ cs.length ≤ 1 := by omega
  conv => lhs; unfold treeHash; rw [treeNode_eq]
  simp only [h2, if_false, Node.root, Nat.zero_add]

/-! ### Recursion equation of the chunk split -/

theorem splitChunksF_fuel :
    ∀ (f1 f2 : Nat) (xs : Bytes), xs.length ≤ f1 → xs.length ≤ f2 →
      splitChunksF f1 xs = splitChunksF f2 xs := by
  intro f1
  induction f1 with
  | zero =>
    intro f2 xs h1 _
    cases f2 with
    | zero => rfl
    | succ f2 =>
      have : xs.length ≤ 1024 := by omega
      simp only [splitChunksF, this, if_true]
  | succ f1 ih =>
    intro f2 xs h1 h2
    by_cases hl : xs.length ≤ 1024
    · cases f2 with
      | zero => simp only [splitChunksF, hl, if_true]
      | succ f2 => simp only [splitChunksF, hl, if_true]
    · cases f2 with
      | zero => omega
      | succ f2 =>
        simp only [splitChunksF, hl, if_false]
        rw [ih f2 (xs.drop 1024) (by simp only [List.length_drop]; omega)
              (by simp only [List.length_drop]; omega)]

theorem splitChunks_eq (xs : Bytes) :
    splitChunks xs =
      if xs.length ≤ 1024 then [xs] else xs.take 1024 :: splitChunks (xs.drop 1024) := by
  unfold splitChunks
  cases hlen : xs.length with
  | zero => simp [splitChunksF]
  | succ f =>
    by_cases hl : f + 1 ≤ 1024
    · simp only [splitChunksF, hlen, hl, if_true]
    · simp only [splitChunksF, hlen, hl, if_false]
      rw [splitChunksF_fuel f (xs.drop 1024).length _
            (by simp only [List.length_drop]; omega) (Nat.le_refl _)]

/-- The chunks concatenate to the input. -/
theorem splitChunks_flatten : ∀ (n : Nat) (xs : Bytes), xs.length ≤ n →
    (splitChunks xs).flatten = xs := by
  intro n
  induction n with
  | zero =>
    intro xs h
    rw [splitChunks_eq]; simp only [show xs.length ≤ 1024 by omega, if_true]; simp
  | succ n ih =>
    intro xs h
    rw [splitChunks_eq]
    split
    · simp
    · rw [List.flatten_cons, ih (xs.drop 1024) (by simp only [List.length_drop]; omega),
        List.take_append_drop]

/-- If all of `done` are full chunks, `cur` has at most 1024 bytes, and `cur` is empty only if there
is nothing before it, then the chunks of `done.flatten ++ cur` are `done ++ [cur]`. -/
theorem splitChunks_append (done : List Bytes) (cur : Bytes)
    (hfull : ∀ c ∈ done, c.length = 1024) (hcur : cur.length ≤ 1024)
    (hne : done ≠ [] → cur ≠ []) :
    splitChunks (done.flatten ++ cur) = done ++ [cur] := by
  induction done with
  | nil =>
    rw [splitChunks_eq]
    simp only [List.flatten_nil, List.nil_append, hcur, if_true]
  | cons c rest ih =>
    have hc : c.length = 1024 := hfull c (List.mem_cons_self ..)
    have hcurpos : 0 < cur.length := by
      have := hne (by simp)
      exact List.length_pos_iff.mpr this
    rw [splitChunks_eq]
    have hlen : ¬ ((c :: rest).flatten ++ cur).length ≤ 1024 := by
      simp only [List.flatten_cons, List.length_append, hc]; omega
    simp only [hlen, if_false]
    have hflat : (c :: rest).flatten ++ cur = c ++ (rest.flatten ++ cur) := by
      simp only [List.flatten_cons, List.append_assoc]
    rw [hflat, ← hc, List.take_left, List.drop_left,
      ih (fun x hx => hfull x (List.mem_cons_of_mem _ hx)) (fun _ => hne (by simp))]
    rfl

/-! ## Block layer: a chunk is a chain of 64-byte block compressions -/

/-- The abstract compression interface of the block layer.  The `Bool` is the CHUNK_START flag (the
block is the first of its chunk); `Nat` is the chunk counter. -/
structure BlockParams (CV Digest : Type) where
  /-- initial chaining value of every chunk (the key words) -/
  iv : CV
  /-- a full 64-byte block that is NOT the last of its chunk -/
  compressBlock : CV → (block : Bytes) → (counter : Nat) → (start : Bool) → CV
  /-- the last block of a non-root chunk (0..64 bytes, CHUNK_END) -/
  finalCV : CV → (block : Bytes) → (counter : Nat) → (start : Bool) → CV
  /-- the last block of the root chunk (CHUNK_END and ROOT) -/
  finalRoot : CV → (block : Bytes) → (counter : Nat) → (start : Bool) → Digest
  parentCV : CV → CV → CV
  parentRoot : CV → CV → Digest

/-- What is left of a chunk when all blocks but the last have been compressed: the chaining value,
whether the last block is also the first, and the last block itself. -/
structure ChunkTail (CV : Type) where
  cv : CV
  start : Bool
  last : Bytes

/-- One-shot, blockwise processing of a chunk: compress 64-byte blocks while MORE than 64 bytes
remain.  `fuel` must be at least the number of bytes. -/
def chunkTailF (B : BlockParams CV Digest) (ctr : Nat) : Nat → CV → Bool → Bytes → ChunkTail CV
  | 0, cv, start, bs => ⟨cv, start, bs⟩
  | fuel + 1, cv, start, bs =>
    if bs.length ≤ 64 then ⟨cv, start, bs⟩
    else chunkTailF B ctr fuel (B.compressBlock cv (bs.take 64) ctr start) false (bs.drop 64)

def chunkTail (B : BlockParams CV Digest) (ctr : Nat) (bs : Bytes) : ChunkTail CV :=
  chunkTailF B ctr bs.length B.iv true bs

/-- chaining value of a chunk, computed blockwise -/
def chunkCVOf (B : BlockParams CV Digest) (bs : Bytes) (ctr : Nat) : CV :=
  let t := chunkTail B ctr bs
  B.finalCV t.cv t.last ctr t.start

/-- root output of a chunk, computed blockwise -/
def chunkRootOf (B : BlockParams CV Digest) (bs : Bytes) (ctr : Nat) : Digest :=
  let t := chunkTail B ctr bs
  B.finalRoot t.cv t.last ctr t.start

/-- The tree-layer parameters induced by block-layer parameters. -/
def BlockParams.toParams (B : BlockParams CV Digest) : Params CV Digest where
  chunkCV := chunkCVOf B
  chunkRoot := chunkRootOf B
  parentCV := B.parentCV
  parentRoot := B.parentRoot

theorem chunkTailF_fuel (B : BlockParams CV Digest) (ctr : Nat) :
    ∀ (f1 f2 : Nat) (cv : CV) (start : Bool) (bs : Bytes), bs.length ≤ f1 → bs.length ≤ f2 →
      chunkTailF B ctr f1 cv start bs = chunkTailF B ctr f2 cv start bs := by
  intro f1
  induction f1 with
  | zero =>
    intro f2 cv start bs h1 _
    cases f2 with
    | zero => rfl
    | succ f2 =>
      have : bs.length ≤ 64 := by omega
      simp only [chunkTailF, this, if_true]
  | succ f1 ih =>
    intro f2 cv start bs h1 h2
    by_cases hl : bs.length ≤ 64
    · cases f2 with
      | zero => simp only [chunkTailF, hl, if_true]
      | succ f2 => simp only [chunkTailF, hl, if_true]
    · cases f2 with
      | zero => omega
      | succ f2 =>
        simp only [chunkTailF, hl, if_false]
        rw [ih f2 _ _ (bs.drop 64) (by simp only [List.length_drop]; omega)
              (by simp only [List.length_drop]; omega)]

/-- Fuel-free recursion of the blockwise chunk processing. -/
theorem chunkTailF_eq (B : BlockParams CV Digest) (ctr : Nat) (cv : CV) (start : Bool) (bs : Bytes) :
    chunkTailF B ctr bs.length cv start bs =
      if bs.length ≤ 64 then ⟨cv, start, bs⟩
      else chunkTailF B ctr (bs.drop 64).length
            (B.compressBlock cv (bs.take 64) ctr start) false (bs.drop 64) := by
  cases hlen : bs.length with
  | zero => simp [chunkTailF]
  | succ f =>
    by_cases hl : f + 1 ≤ 64
    · simp only [chunkTailF, hlen, hl, if_true]
    · simp only [chunkTailF, hlen, hl, if_false]
      rw [chunkTailF_fuel B ctr f (bs.drop 64).length _ _ _
            (by simp only [List.length_drop]; omega) (Nat.le_refl _)]

/-! ## The real compression function -/

open Blake3 in
/-- The 16 little-endian message words of a block of at most 64 bytes, zero padded. -/
def wordsOfBytes (bs : Bytes) : Array UInt32 :=
  (Array.range 16).map fun w =>
    let byte (k : Nat) : UInt32 := (bs.getD (4 * w + k) 0).toUInt32
    byte 0 ||| (byte 1 <<< 8) ||| (byte 2 <<< 16) ||| (byte 3 <<< 24)

/-- The first 32 output bytes: words 0..7, little endian. -/
def bytesOfWords (w : Array UInt32) : Bytes :=
  (List.range 8).flatMap fun (i : Nat) =>
    let x := w[i]!
    [x.toUInt8, (x >>> 8).toUInt8, (x >>> 16).toUInt8, (x >>> 24).toUInt8]

def startFlag (start : Bool) : UInt32 := if start then Blake3.CHUNK_START else 0

/-- Block-layer parameters of unkeyed BLAKE3 over `Blake3.compress`. -/
def realBlockParams : BlockParams (Array UInt32) Bytes where
  iv := Blake3.IV
  compressBlock := fun cv block ctr start =>
    (Blake3.compress cv (wordsOfBytes block) ctr.toUInt64 64 (startFlag start)).extract 0 8
  finalCV := fun cv block ctr start =>
    (Blake3.compress cv (wordsOfBytes block) ctr.toUInt64 block.length.toUInt32
      (startFlag start ||| Blake3.CHUNK_END)).extract 0 8
  finalRoot := fun cv block _ctr start =>
    bytesOfWords (Blake3.compress cv (wordsOfBytes block) 0 block.length.toUInt32
      (startFlag start ||| Blake3.CHUNK_END ||| Blake3.ROOT))
  parentCV := fun l r => (Blake3.compress Blake3.IV (l ++ r) 0 64 Blake3.PARENT).extract 0 8
  parentRoot := fun l r =>
    bytesOfWords (Blake3.compress Blake3.IV (l ++ r) 0 64 (Blake3.PARENT ||| Blake3.ROOT))

/-- Tree-layer parameters of unkeyed BLAKE3. -/
def realParams : Params (Array UInt32) Bytes := realBlockParams.toParams

/-- BLAKE3 (32-byte digest) of a byte list: the specification instantiated with the real
compression function. -/
def hashSpecReal (input : Bytes) : Bytes := hashSpec realParams input

def hexDigitL (n : UInt8) : Char :=
  if n < 10 then Char.ofNat (48 + n.toNat) else Char.ofNat (87 + n.toNat)

/-- lower-case hex of a byte list -/
def toHex (b : Bytes) : String :=
  String.ofList (b.flatMap fun (x : UInt8) => [hexDigitL (x >>> 4), hexDigitL (x &&& 15)])

/-- The input of the official test vectors: the bytes 0,1,…,250 repeated. -/
def testInput (n : Nat) : Bytes := (List.range n).map fun i => (i % 251).toUInt8

end Dud.Blake3Spec
