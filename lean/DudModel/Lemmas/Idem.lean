import DudModel.Spec
import DudModel.Lemmas.Tree
import DudModel.Lemmas.Holds
/-!
# Operations on an all-links workspace in a store holding the tree

`linked ctx t` is what a link-strategy commit / checkout leaves.  Committing it again skips every
file (`quickStatus` reports `ContentsMatch`) and rewrites the same manifests; checking it out
again with the link strategy changes nothing.
-/
namespace Dud

variable {κ : Type}

theorem setEntry_same : ∀ (es : List (Name × Node κ)) (nm : Name) (n : Node κ),
    alookup es nm = some n → setEntry es nm n = es
  | [], _, _, h => by simp [alookup] at h
  | (k, v) :: r, nm, n, h => by
    by_cases hk : k = nm
    · subst hk
      simp only [alookup, beq_self_eq_true, if_true, Option.some.injEq] at h
      simp [setEntry, h]
    · simp only [alookup, beq_iff_eq, hk, if_false] at h
      simp [setEntry, hk, setEntry_same r nm n h]

theorem linked_isDir (ctx : Ctx κ) (t : Node κ) : (linked ctx t).isDir = t.isDir := by
  cases t <;> simp [linked, Node.isDir]

/-- in a sorted listing every entry is looked up (by name) as itself -/
theorem alookup_linkedList (ctx : Ctx κ) : ∀ (es : List (Name × Node κ)),
    sortedList es = true → ∀ e ∈ es, alookup (linkedList ctx es) e.1 = some (linked ctx e.2)
  | [], _, e, he => by simp at he
  | (nm, n) :: r, h, e, he => by
    rcases List.mem_cons.1 he with rfl | he'
    · simp [linkedList, alookup]
    · have hne : nm ≠ e.1 := sortedList_head_ne h e he'
      simp [linkedList, alookup, hne, alookup_linkedList ctx r (sortedList_cons h).2 e he']

/-! ## commit of the all-links workspace -/

/-- Commit of the all-links workspace in a store holding the tree with manifests of schemas `ch`:
files are skipped, current-format manifests are (re)written; nothing is added if the store held
the current-format version already. -/
def LNodePost (ctx : Ctx κ) (t : Node κ) : Prop :=
  ∀ (ch : Choice) (nm : Bytes) (s : Store κ) (strat : Strat), HoldsNode ctx s ch nm t →
    Consistent ctx s →
    ∃ s', commitNode ctx strat (linked ctx t) ⟨nm, digestAs ctx ch nm t, t.isDir⟩ s =
        .ok (linked ctx t, ⟨nm, treeDigest ctx nm t, t.isDir⟩, s') ∧
      Consistent ctx s' ∧ Store.le ctx s s' ∧ HoldsNode ctx s' newChoice nm t ∧
      (HoldsNode ctx s newChoice nm t → Store.le ctx s' s)

def LEntriesPost (ctx : Ctx κ) (r : List (Name × Node κ)) : Prop :=
  ∀ (ch : Choice) (old : List Child) (s : Store κ) (strat : Strat),
    (∀ e ∈ r, findChild old e.1 =
      some ⟨e.1, digestAs ctx (subChoice ch e.1) e.1 e.2, e.2.isDir⟩) →
    HoldsList ctx s ch r → Consistent ctx s →
    ∃ s', commitEntries ctx strat false (linkedList ctx r) old s =
        .ok (linkedList ctx r, childrenOf ctx r, s') ∧
      Consistent ctx s' ∧ Store.le ctx s s' ∧ HoldsList ctx s' newChoice r ∧
      (HoldsList ctx s newChoice r → Store.le ctx s' s)

theorem lfile_post {ctx : Ctx κ} (g : Good ctx) (x : κ) : LNodePost ctx (.file x) := by
  intro ch nm s strat hh hc
  have hh' : HoldsNode ctx s newChoice nm (.file x) := by simpa [HoldsNode] using hh
  simp only [HoldsNode] at hh
  obtain ⟨o, ho, _⟩ := hh
  have hq : (quick s (ctx.H x) (some (Node.link (.obj (ctx.H x))))).cm = true := by
    simp [quick, hasSum_H g, Store.has_of_get ho]
  refine ⟨s, ?_, hc, Store.le_refl _ _, hh', fun _ => Store.le_refl _ _⟩
  simp [linked, commitNode, commitFile, hq, treeDigest, digestAs, Node.isDir]

theorem lnil_post (ctx : Ctx κ) : LEntriesPost ctx [] := by
  intro ch old s strat _ _ hc
  exact ⟨s, by simp [linkedList, commitEntries, childrenOf], hc, Store.le_refl _ _,
    by simp [HoldsList], fun _ => Store.le_refl _ _⟩

theorem lcons_post {ctx : Ctx κ} {nm : Name} {n : Node κ} {r : List (Name × Node κ)}
    (hnm : ctx.nameOK nm = true) (hn : LNodePost ctx n) (hr : LEntriesPost ctx r) :
    LEntriesPost ctx ((nm, n) :: r) := by
  intro ch old s strat hfind hh hc
  simp only [HoldsList] at hh
  have hf := hfind (nm, n) (by simp)
  obtain ⟨s1, hcn, hc1, hle1, hh1, hback1⟩ := hn (subChoice ch nm) nm s strat hh.1 hc
  obtain ⟨s2, hcr, hc2, hle2, hh2, hback2⟩ := hr ch old s1 strat
    (fun e he => hfind e (by simp [he])) (HoldsList.mono hle1 r _ hh.2) hc1
  refine ⟨s2, ?_, hc2, Store.le_trans hle1 hle2, ?_, ?_⟩
  · simp [linkedList, commitEntries, hnm, hf, linked_isDir, hcn, hcr, childrenOf]
  · simp only [HoldsList]
    exact ⟨HoldsNode.mono hle2 n _ nm hh1, hh2⟩
  · intro h
    simp only [HoldsList] at h
    exact Store.le_trans (hback2 (HoldsList.mono hle1 r _ h.2)) (hback1 h.1)

theorem ldir_post {ctx : Ctx κ} (g : Good ctx) {es : List (Name × Node κ)}
    (hs : sortedList es = true) (hn : NamesOKList ctx es) (he : LEntriesPost ctx es) :
    LNodePost ctx (.dir es) := by
  intro ch nm s strat hh hc
  have hold := oldManifest_holds g hs hn hh
  have hfind := findChild_childrenAs ctx ch es hs
  simp only [HoldsNode] at hh
  obtain ⟨_, hl⟩ := hh
  obtain ⟨s2, hce, hc2, hle2, hh2, hback2⟩ := he ch (childrenAs ctx ch es) s strat hfind hl hc
  let m : Obj κ := .man .new nm (sortChildren (childrenOf ctx es))
  have hlep : Store.le ctx s2 (s2.put (m.digest ctx) m) := Store.le_put g hc2 m
  generalize digestAs ctx ch nm (.dir es) = d at hold ⊢
  refine ⟨s2.put (m.digest ctx) m, ?_, hc2.put m, Store.le_trans hle2 hlep, ?_, ?_⟩
  · simp [linked, commitNode, hold, hce, treeDigest, Node.isDir, m]
  · simp only [HoldsNode, digestAs_new, childrenAs_new]
    refine ⟨⟨m, ?_, rfl⟩, HoldsList.mono hlep es _ hh2⟩
    simp only [treeDigest]
    exact Store.get_put_self _ _ _
  · intro h
    simp only [HoldsNode, digestAs_new, childrenAs_new] at h
    obtain ⟨⟨o, ho, hb⟩, hl'⟩ := h
    simp only [treeDigest] at ho
    exact Store.put_le_of_present (hback2 hl') ho hb

mutual
theorem commitNode_linked {ctx : Ctx κ} (g : Good ctx) : ∀ (t : Node κ),
    t.plain = true → t.sorted = true → NamesOK ctx t → LNodePost ctx t
  | .file x, _, _, _ => lfile_post g x
  | .dir es, hp, hs, hn =>
    have hs' : sortedList es = true := by simpa [Node.sorted] using hs
    ldir_post g hs' (namesOK_dir hn)
      (commitEntries_linked g es (by simpa [Node.plain] using hp) hs' (namesOK_dir hn))
  | .link _, hp, _, _ => by simp [Node.plain] at hp
  | .other, hp, _, _ => by simp [Node.plain] at hp
theorem commitEntries_linked {ctx : Ctx κ} (g : Good ctx) : ∀ (es : List (Name × Node κ)),
    plainList es = true → sortedList es = true → NamesOKList ctx es → LEntriesPost ctx es
  | [], _, _, _ => lnil_post ctx
  | (_, n) :: r, hp, hs, hn =>
    lcons_post (namesOK_head hn).1
      (commitNode_linked g n (plainList_cons hp).1 (sortedList_cons hs).1 (namesOK_node hn))
      (commitEntries_linked g r (plainList_cons hp).2 (sortedList_cons hs).2 (namesOK_tail hn))
end

/-! ## link checkout over the all-links workspace -/

mutual
theorem checkoutNode_linked {ctx : Ctx κ} (g : Good ctx) (s : Store κ) :
    ∀ (t : Node κ) (ch : Choice) (nm : Bytes) (fuel : Nat),
    t.plain = true → t.sorted = true → NamesOK ctx t → HoldsNode ctx s ch nm t →
    depth t ≤ fuel →
      checkoutNode ctx .link s fuel (some (linked ctx t)) ⟨nm, digestAs ctx ch nm t, t.isDir⟩
        = .ok (linked ctx t)
  | .file x, _, nm, fuel, _, _, _, h, hf => by
    simp only [HoldsNode] at h
    obtain ⟨o, ho, _⟩ := h
    obtain ⟨k, rfl⟩ : ∃ k, fuel = k + 1 := ⟨fuel - 1, by simp only [depth] at hf; omega⟩
    simp [checkoutNode, Node.isDir, digestAs, linked, checkoutFile, upToDateCopy, quick, hasSum_H g,
      Store.has_of_get ho, ho]
  | .dir es, ch, nm, fuel, hp, hs, hn, h, hf => by
    have hp' : plainList es = true := by simpa [Node.plain] using hp
    have hs' : sortedList es = true := by simpa [Node.sorted] using hs
    have hn' : NamesOKList ctx es := namesOK_dir hn
    obtain ⟨hhas, hread⟩ := readManifest_holds g hs' hn' h
    obtain ⟨k, rfl⟩ : ∃ k, fuel = k + 1 := ⟨fuel - 1, by simp only [depth] at hf; omega⟩
    have hk : depthList es ≤ k := by simp only [depth] at hf; omega
    simp only [HoldsNode] at h
    have hch := checkoutChildren_linked g s es ch k (linkedList ctx es) hp' hs' hn' h.2 hk
      (alookup_linkedList ctx es hs')
    simp [checkoutNode, Node.isDir, linked, hasSum_digestAs_dir g, hhas, hread, hch]
  | .link _, _, _, _, hp, _, _, _, _ => by simp [Node.plain] at hp
  | .other, _, _, _, hp, _, _, _, _ => by simp [Node.plain] at hp
theorem checkoutChildren_linked {ctx : Ctx κ} (g : Good ctx) (s : Store κ) :
    ∀ (r : List (Name × Node κ)) (ch : Choice) (fuel : Nat) (W : List (Name × Node κ)),
    plainList r = true → sortedList r = true → NamesOKList ctx r → HoldsList ctx s ch r →
    depthList r ≤ fuel → (∀ e ∈ r, alookup W e.1 = some (linked ctx e.2)) →
      checkoutChildren (checkoutNode ctx .link s fuel) W (childrenAs ctx ch r) = .ok W
  | [], _, _, W, _, _, _, _, _, _ => by simp [childrenAs, checkoutChildren]
  | (nm, n) :: r, ch, fuel, W, hp, hs, hn, h, hf, hW => by
    simp only [HoldsList] at h
    have hdn : depth n ≤ fuel := by simp only [depthList] at hf; omega
    have hdr : depthList r ≤ fuel := by simp only [depthList] at hf; omega
    have h1 := checkoutNode_linked g s n (subChoice ch nm) nm fuel (plainList_cons hp).1
      (sortedList_cons hs).1 (namesOK_node hn) h.1 hdn
    have hl := hW (nm, n) (by simp)
    have h2 := checkoutChildren_linked g s r ch fuel W (plainList_cons hp).2
      (sortedList_cons hs).2 (namesOK_tail hn) h.2 hdr (fun e he => hW e (by simp [he]))
    simp only [childrenAs, checkoutChildren, hl, h1, setEntry_same W nm _ hl]
    exact h2
end

/-! ## checkout over a workspace that is already there (any strategy pair) -/

theorem alookup_append_fresh {β : Type} : ∀ (pre : List (Name × β)) (nm : Name) (b : β)
    (rest : List (Name × β)), (∀ p ∈ pre, p.1 ≠ nm) →
      alookup (pre ++ (nm, b) :: rest) nm = some b
  | [], nm, b, rest, _ => by simp [alookup]
  | (k, v) :: r, nm, b, rest, h => by
    have hk : k ≠ nm := h (k, v) (by simp)
    simp only [List.cons_append, alookup, beq_iff_eq, hk, if_false]
    exact alookup_append_fresh r nm b rest (fun p hp => h p (by simp [hp]))

theorem setEntry_append_fresh : ∀ (pre : List (Name × Node κ)) (nm : Name) (b c : Node κ)
    (rest : List (Name × Node κ)), (∀ p ∈ pre, p.1 ≠ nm) →
      setEntry (pre ++ (nm, b) :: rest) nm c = pre ++ (nm, c) :: rest
  | [], nm, b, c, rest, _ => by simp [setEntry]
  | (k, v) :: r, nm, b, c, rest, h => by
    have hk : k ≠ nm := h (k, v) (by simp)
    simp only [List.cons_append, setEntry, beq_iff_eq, hk, if_false]
    rw [setEntry_append_fresh r nm b c rest (fun p hp => h p (by simp [hp]))]

/-- the shape of the workspace after checking out with `strat2` over what `strat1` left: copies
are left alone (they are up to date), exact links follow the second strategy -/
def coStrat : Strat → Strat → Strat
  | .copy, _ => .copy
  | .link, strat2 => strat2

theorem checkoutFile_over {ctx : Ctx κ} (g : Good ctx) {s : Store κ} {x : κ} {o : Obj κ}
    (h : s.get (ctx.H x) = some o) (hb : o.bytes ctx = x) (strat1 strat2 : Strat) :
    checkoutFile ctx strat2 (some (wsAfter ctx strat1 (.file x))) (ctx.H x) s
      = .ok (wsAfter ctx (coStrat strat1 strat2) (.file x)) := by
  have hh := hasSum_H g x
  have hhas := Store.has_of_get h
  cases strat1 <;> cases strat2 <;>
    simp [checkoutFile, upToDateCopy, quick, hh, hhas, h, hb, wsAfter, linked, coStrat]

mutual
/-- `checkoutNode` with `strat2` over the workspace a `strat1` commit / checkout left, from any
store holding the tree: the exact result. -/
theorem checkoutNode_over {ctx : Ctx κ} (g : Good ctx) (s : Store κ) (strat1 strat2 : Strat) :
    ∀ (t : Node κ) (ch : Choice) (nm : Bytes) (fuel : Nat),
    t.plain = true → t.sorted = true → NamesOK ctx t → HoldsNode ctx s ch nm t →
    depth t ≤ fuel →
      checkoutNode ctx strat2 s fuel (some (wsAfter ctx strat1 t))
        ⟨nm, digestAs ctx ch nm t, t.isDir⟩ = .ok (wsAfter ctx (coStrat strat1 strat2) t)
  | .file x, _, nm, fuel, _, _, _, h, hf => by
    simp only [HoldsNode] at h
    obtain ⟨o, ho, hb⟩ := h
    obtain ⟨k, rfl⟩ : ∃ k, fuel = k + 1 := ⟨fuel - 1, by simp only [depth] at hf; omega⟩
    have hco := checkoutFile_over g ho hb strat1 strat2
    cases strat1 <;>
      simpa [checkoutNode, Node.isDir, digestAs, wsAfter, linked] using hco
  | .dir es, ch, nm, fuel, hp, hs, hn, h, hf => by
    have hp' : plainList es = true := by simpa [Node.plain] using hp
    have hs' : sortedList es = true := by simpa [Node.sorted] using hs
    have hn' : NamesOKList ctx es := namesOK_dir hn
    obtain ⟨hhas, hread⟩ := readManifest_holds g hs' hn' h
    have hsum := hasSum_digestAs_dir g ch nm es
    obtain ⟨k, rfl⟩ : ∃ k, fuel = k + 1 := ⟨fuel - 1, by simp only [depth] at hf; omega⟩
    have hk : depthList es ≤ k := by simp only [depth] at hf; omega
    simp only [HoldsNode] at h
    have hch := checkoutChildren_over g s strat1 strat2 es ch k hp' hs' hn' h.2 hk [] (by simp)
    simp only [List.nil_append] at hch
    generalize digestAs ctx ch nm (.dir es) = d at hhas hread hsum ⊢
    simp only [wsAfter_dir, Node.isDir]
    rw [checkoutNode]
    simp only [if_true, hsum, hhas, hread, hch, Bool.not_true, Bool.false_eq_true, if_false]
  | .link _, _, _, _, hp, _, _, _, _ => by simp [Node.plain] at hp
  | .other, _, _, _, hp, _, _, _, _ => by simp [Node.plain] at hp
theorem checkoutChildren_over {ctx : Ctx κ} (g : Good ctx) (s : Store κ) (strat1 strat2 : Strat) :
    ∀ (r : List (Name × Node κ)) (ch : Choice) (fuel : Nat),
    plainList r = true → sortedList r = true → NamesOKList ctx r → HoldsList ctx s ch r →
    depthList r ≤ fuel → ∀ pre : List (Name × Node κ), (∀ p ∈ pre, ∀ e ∈ r, p.1 ≠ e.1) →
      checkoutChildren (checkoutNode ctx strat2 s fuel) (pre ++ wsAfterList ctx strat1 r)
        (childrenAs ctx ch r) = .ok (pre ++ wsAfterList ctx (coStrat strat1 strat2) r)
  | [], _, _, _, _, _, _, _, pre, _ => by
    simp [childrenAs, checkoutChildren, wsAfterList_nil]
  | (nm, n) :: r, ch, fuel, hp, hs, hn, h, hf, pre, hpre => by
    simp only [HoldsList] at h
    have hdn : depth n ≤ fuel := by simp only [depthList] at hf; omega
    have hdr : depthList r ≤ fuel := by simp only [depthList] at hf; omega
    have h1 := checkoutNode_over g s strat1 strat2 n (subChoice ch nm) nm fuel
      (plainList_cons hp).1 (sortedList_cons hs).1 (namesOK_node hn) h.1 hdn
    have hfresh : ∀ p ∈ pre, p.1 ≠ nm := fun p hp' => hpre p hp' (nm, n) (by simp)
    have hpre' : ∀ p ∈ pre ++ [(nm, wsAfter ctx (coStrat strat1 strat2) n)], ∀ e ∈ r,
        p.1 ≠ e.1 := by
      intro p hp' e he
      rcases List.mem_append.1 hp' with hp' | hp'
      · exact hpre p hp' e (by simp [he])
      · simp only [List.mem_singleton] at hp'
        subst hp'
        exact sortedList_head_ne hs e he
    have h2 := checkoutChildren_over g s strat1 strat2 r ch fuel (plainList_cons hp).2
      (sortedList_cons hs).2 (namesOK_tail hn) h.2 hdr _ hpre'
    simp only [List.append_assoc, List.cons_append, List.nil_append] at h2
    simp only [childrenAs, wsAfterList_cons, checkoutChildren,
      alookup_append_fresh pre nm _ _ hfresh, h1, setEntry_append_fresh pre nm _ _ _ hfresh]
    exact h2
end

end Dud
