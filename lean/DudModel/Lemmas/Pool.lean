import DudModel.Pool

/-! # Lemmas about the worker-pool protocol (C13) -/
namespace Dud.Pool

/-! ## One instance -/

theorem wf_init (n : Nat) (c : Bool) : WF (init n c) := by
  constructor <;> simp [init]
theorem wf_fire {D : Nat} {p : P} {l : Label} (h : enabled D l p = true) (w : WF p) :
    WF (fire l p) := by
  obtain ⟨h1, h2, h3, h4, h5, h6, h7, h8, h9, h10⟩ := w
  cases l <;> simp only [enabled, Bool.and_eq_true, Bool.or_eq_true, decide_eq_true_eq,
      Bool.not_eq_true'] at h <;>
    constructor <;> simp only [fire] <;> grind

theorem mu_fire {D : Nat} {p : P} {l : Label} (h : enabled D l p = true) (w : WF p) :
    mu (fire l p) < mu p := by
  obtain ⟨h1, h2, h3, h4, h5, h6, h7, h8, h9, h10⟩ := w
  cases l <;> simp only [enabled, Bool.and_eq_true, Bool.or_eq_true, decide_eq_true_eq,
      Bool.not_eq_true'] at h <;> simp only [fire, mu] <;> grind

/-- The canonical scheduler only proposes enabled steps. -/
theorem next_enabled {D : Nat} {p : P} {l : Label} (w : WF p) (h : next D p = some l) :
    enabled D l p = true := by
  obtain ⟨h1, h2, h3, h4, h5, h6, h7, h8, h9, h10⟩ := w
  unfold next at h
  cases l <;> simp only [enabled, Bool.and_eq_true, Bool.or_eq_true, decide_eq_true_eq,
      Bool.not_eq_true'] <;> grind

/-- … and only core steps: never `spawnS`, `cancel`, `fail*`, nor a variant-specific step. -/
theorem next_core {D : Nat} {p : P} {l : Label} (h : next D p = some l) : l.core = true := by
  unfold next at h
  cases l <;> simp only [Label.core] <;> grind

theorem next_ne_none {D : Nat} {p : P} (hD : 0 < D) (w : WF p) (nt : ¬ Terminal p) :
    next D p ≠ none := by
  obtain ⟨h1, h2, h3, h4, h5, h6, h7, h8, h9, h10⟩ := w
  unfold next
  by_cases hb : 0 < p.busy
  · simp only [hb, if_true]; grind
  by_cases hi : 0 < p.idle
  · simp only [hb, hi, if_true, if_false]; grind
  simp only [hb, hi, if_false]
  cases hl : p.loopDone with
  | false => simp only [if_true]; grind
  | true =>
    simp only [Bool.true_eq_false, if_false]
    cases hf : p.failed with
    | false =>
      exfalso; apply nt
      have hfed : p.fed = p.got + p.busy := h2 hf
      have hs : p.spawned = p.n ∨ p.got = p.n := by
        rcases h8 hl with h | h | h
        · exact Or.inl h
        · exact Or.inr h
        · rw [hf] at h; cases h
      have hfn : p.fed = p.n := by
        rcases hs with h | h
        · by_cases hn : p.n = 0
          · omega
          · rcases h6 (by omega) with h' | h'
            · exact h'
            · rw [hf] at h'; cases h'
        · omega
      exact ⟨hl, by omega, by omega, Or.inl hfn, fun _ => Or.inl (by omega)⟩
    | true =>
      intro hn
      apply nt
      refine ⟨hl, by omega, by omega, ?_, ?_⟩ <;> grind

/-! ## Runs -/

theorem Run.bound {α : Type} {r : α → α → Prop} {inv : α → Prop} {m : α → Nat}
    (hinv : ∀ a b, inv a → r a b → inv b) (hdec : ∀ a b, inv a → r a b → m b < m a)
    {a : α} {k : Nat} {b : α} (ha : inv a) (h : Run r a k b) : inv b ∧ k + m b ≤ m a := by
  induction h with
  | refl => exact ⟨ha, by omega⟩
  | cons s _ ih =>
    have := hdec _ _ ha s
    have ⟨i, le⟩ := ih (hinv _ _ ha s)
    exact ⟨i, by omega⟩

theorem Run.of_seq {α : Type} {r : α → α → Prop} (f : Nat → α) (hf : ∀ i, r (f i) (f (i + 1)))
    (j k : Nat) : Run r (f j) k (f (j + k)) := by
  induction k generalizing j with
  | zero => exact .refl
  | succ k ih =>
    have := ih (j + 1)
    rw [show j + 1 + k = j + (k + 1) by omega] at this
    exact .cons (hf j) this

theorem Run.no_infinite {α : Type} {r : α → α → Prop} {inv : α → Prop} {m : α → Nat}
    (hinv : ∀ a b, inv a → r a b → inv b) (hdec : ∀ a b, inv a → r a b → m b < m a)
    (f : Nat → α) (h0 : inv (f 0)) : ¬ ∀ i, r (f i) (f (i + 1)) := by
  intro hf
  have := (Run.bound hinv hdec h0 (Run.of_seq f hf 0 (m (f 0) + 1))).2
  omega

theorem Run.append {α : Type} {r : α → α → Prop} {a b c : α} {k j : Nat}
    (h1 : Run r a k b) (h2 : Run r b j c) : Run r a (k + j) c := by
  induction h1 with
  | refl => rw [Nat.zero_add]; exact h2
  | cons s _ ih => rw [Nat.add_right_comm]; exact .cons s (ih h2)

/-! ## Content-addressed store -/

theorem lookup_put (k k' : String) (v : Nat) (m : List (String × Nat)) :
    lookup k (put k' v m) = if k = k' then some v else lookup k m := rfl

theorem putAll_cons (m : List (String × Nat)) (kv : String × Nat) (l : List (String × Nat)) :
    putAll m (kv :: l) = putAll (put kv.1 kv.2 m) l := rfl

/-- A key that is not written keeps its old value. -/
theorem lookup_putAll_of_not_mem (k : String) (l : List (String × Nat)) :
    ∀ m, (∀ v, (k, v) ∉ l) → lookup k (putAll m l) = lookup k m := by
  induction l with
  | nil => intro m _; rfl
  | cons kv t ih =>
    intro m h
    obtain ⟨k', v'⟩ := kv
    rw [putAll_cons, ih _ (fun v hv => h v (List.mem_cons_of_mem _ hv)), lookup_put]
    have : k ≠ k' := fun e => h v' (by rw [e]; exact List.mem_cons_self ..)
    simp [this]

/-- A key written (consistently) gets the value written. -/
theorem lookup_putAll_of_mem (k : String) (v : Nat) (l : List (String × Nat)) :
    ∀ m, Consistent l → (k, v) ∈ l → lookup k (putAll m l) = some v := by
  induction l with
  | nil => intro m _ h; cases h
  | cons kv t ih =>
    intro m hc h
    obtain ⟨k', v'⟩ := kv
    have hct : Consistent t := fun a b c hb hc' =>
      hc a b c (List.mem_cons_of_mem _ hb) (List.mem_cons_of_mem _ hc')
    rw [putAll_cons]
    by_cases hex : ∃ w, (k, w) ∈ t
    · obtain ⟨w, hw⟩ := hex
      have : w = v := hc k w v (List.mem_cons_of_mem _ hw) h
      subst this
      exact ih _ hct hw
    · have hno : ∀ w, (k, w) ∉ t := fun w hw => hex ⟨w, hw⟩
      rw [lookup_putAll_of_not_mem k t _ hno, lookup_put]
      rcases List.mem_cons.1 h with e | e
      · cases e; simp
      · exact absurd e (hno v)

theorem Consistent.perm {l1 l2 : List (String × Nat)} (hp : l1.Perm l2) (h : Consistent l1) :
    Consistent l2 := fun k v v' a b => h k v v' (hp.mem_iff.2 a) (hp.mem_iff.2 b)


/-! ## Nesting -/

theorem fire_n (l : Label) (p : P) : (fire l p).n = p.n := by cases l <;> rfl

theorem fire_fed (l : Label) (p : P) (h : l ≠ .take) : (fire l p).fed = p.fed := by
  cases l <;> first | rfl | exact absurd rfl h

theorem fire_busy_loc (l : Label) (p : P) (h : l ≠ .take) (hc : l.consumes = false) :
    (fire l p).busy = p.busy := by
  cases l <;> first | rfl | exact absurd rfl h | cases hc

theorem fire_busy_consumes {D : Nat} (l : Label) (p : P) (hc : l.consumes = true)
    (he : enabled D l p = true) : (fire l p).busy + 1 = p.busy ∧ l ≠ .take := by
  cases l <;> first | cases hc | skip
  all_goals
    simp only [enabled, Bool.and_eq_true, decide_eq_true_eq] at he
    simp only [fire]
    refine ⟨by omega, by simp⟩

theorem fire_take {D : Nat} (p : P) (he : enabled D .take p = true) :
    (fire .take p).busy = p.busy + 1 ∧ (fire .take p).fed = p.fed + 1 ∧ p.fed < p.n := by
  simp only [enabled, Bool.and_eq_true, decide_eq_true_eq] at he
  exact ⟨rfl, rfl, he.1.2⟩

theorem listSum_append (a b : List Nat) : listSum (a ++ b) = listSum a + listSum b := by
  induction a with
  | nil => simp [listSum]
  | cons x xs ih => simp [listSum, ih]; omega

theorem dinv_step {D : Nat} {ok : Label → Bool} {C : Sys} (g : C.Safe) {s t : DState C.σ}
    (i : DInv C s) (h : DStep D ok C s t) : DInv C t := by
  obtain ⟨w, hp, ha, hc⟩ := i
  cases h with
  | loc l _ he hcons hne =>
    exact ⟨wf_fire he w, by simp only [fire_n, fire_fed l _ hne]; exact hp,
      by simp only [fire_busy_loc l _ hne hcons]; exact ha, hc⟩
  | take sh rest _ he hpend =>
    obtain ⟨hb, hf, _⟩ := fire_take _ he
    refine ⟨wf_fire he w, ?_, ?_, ?_⟩
    · simp only [fire_n, hf]; rw [hpend] at hp; simp at hp; omega
    · simp only [hb, List.length_cons, ha]
    · intro c hm
      rcases List.mem_cons.1 hm with e | e
      · cases sh with
        | leaf => cases e
        | dir cs => simp only [job, Option.some.injEq] at e; rw [e]; exact g.inv_start cs
      · exact hc c e
  | consume l pre j post _ he hcons hact _ _ =>
    obtain ⟨hb, hne⟩ := fire_busy_consumes l _ hcons he
    refine ⟨wf_fire he w, by simp only [fire_n, fire_fed l _ hne]; exact hp, ?_, ?_⟩
    · rw [hact] at ha; simp at ha ⊢; omega
    · intro c hm
      apply hc c; rw [hact]
      rcases List.mem_append.1 hm with e | e
      · exact List.mem_append_left _ e
      · exact List.mem_append_right _ (List.mem_cons_of_mem _ e)
  | inner pre c c' post hact hs =>
    refine ⟨w, hp, ?_, ?_⟩
    · rw [hact] at ha; simpa using ha
    · intro x hm
      rcases List.mem_append.1 hm with e | e
      · exact hc x (by rw [hact]; exact List.mem_append_left _ e)
      · rcases List.mem_cons.1 e with e | e
        · cases e
          exact g.inv_step _ _ (hc c (by rw [hact]; simp)) hs
        · exact hc x (by rw [hact]; exact List.mem_append_right _ (List.mem_cons_of_mem _ e))

theorem dmu_step {D : Nat} {ok : Label → Bool} {C : Sys} (g : C.Safe) {s t : DState C.σ}
    (i : DInv C s) (h : DStep D ok C s t) : DMu C t < DMu C s := by
  obtain ⟨w, hp, ha, hc⟩ := i
  cases h with
  | loc l _ he hcons hne =>
    have := mu_fire he w
    simp only [DMu]; omega
  | take sh rest _ he hpend =>
    have := mu_fire he w
    simp only [DMu, hpend, List.map_cons, listSum]; omega
  | consume l pre j post _ he hcons hact _ _ =>
    have := mu_fire he w
    simp only [DMu, hact, List.map_append, List.map_cons, listSum_append, listSum]; omega
  | inner pre c c' post hact hs =>
    have := g.dec _ _ (hc c (by rw [hact]; simp)) hs
    simp only [DMu, hact, List.map_append, List.map_cons, listSum_append, listSum, jobMu]; omega

theorem dprog {D : Nat} {ok : Label → Bool} {C : Sys} (hD : 0 < D)
    (hok : ∀ l, l.needed = true → ok l = true) (g : C.Good) {s : DState C.σ}
    (i : DInv C s) (nt : ¬ Terminal s.p) : ∃ t, DStep D ok C s t := by
  obtain ⟨w, hp, ha, hc⟩ := i
  cases hn : next D s.p with
  | none => exact absurd hn (next_ne_none hD w nt)
  | some l =>
    have he := next_enabled w hn
    have hcore := next_core hn
    have hokl : ok l = true := hok l (by simp [Label.needed, hcore])
    by_cases ht : l = .take
    · subst ht
      obtain ⟨_, _, hlt⟩ := fire_take _ he
      cases hpend : s.pend with
      | nil => rw [hpend] at hp; simp at hp; omega
      | cons sh rest => exact ⟨_, .take sh rest hokl he hpend⟩
    · cases hcons : l.consumes with
      | false => exact ⟨_, .loc l hokl he hcons ht⟩
      | true =>
        obtain ⟨hb, _⟩ := fire_busy_consumes l _ hcons he
        cases hact : s.act with
        | nil => rw [hact] at ha; simp at ha; omega
        | cons j post =>
          have hact' : s.act = [] ++ j :: post := by simpa using hact
          cases j with
          | none => exact ⟨_, .consume l [] none post hokl he hcons hact' trivial (fun _ => rfl)⟩
          | some c =>
            by_cases htc : C.term c
            · cases hfc : C.failed c with
              | false =>
                exact ⟨_, .consume l [] (some c) post hokl he hcons hact' htc (fun _ => hfc)⟩
              | true =>
                -- the nested call returned an error: the worker returns it
                have hbusy : 0 < s.p.busy := by omega
                by_cases hd : 0 < s.p.ded
                · exact ⟨_, .consume .failD [] (some c) post (hok _ rfl)
                    (by simp [enabled, hbusy, hd]) rfl hact' htc (fun h => by cases h)⟩
                · exact ⟨_, .consume .failS [] (some c) post (hok _ rfl)
                    (by simp [enabled, hbusy]; omega) rfl hact' htc (fun h => by cases h)⟩
            · obtain ⟨c', hs⟩ := g.prog c (hc c (by rw [hact]; simp)) htc
              exact ⟨_, .inner [] c c' post hact' hs⟩


theorem dirSys_safe (D : Nat) (coll : Bool) (ok : Label → Bool) {C : Sys} (g : C.Safe) :
    (dirSys D coll ok C).Safe where
  inv_start cs := by
    show DInv C ⟨init cs.length coll, cs, []⟩
    exact ⟨wf_init _ _, Nat.add_zero _, rfl, fun c h => by cases h⟩
  inv_step _ _ i h := dinv_step g i h
  dec _ _ i h := dmu_step g i h

theorem dirSys_good {D : Nat} (hD : 0 < D) (coll : Bool) {ok : Label → Bool}
    (hok : ∀ l, l.needed = true → ok l = true) {C : Sys} (g : C.Good) :
    (dirSys D coll ok C).Good where
  toSafe := dirSys_safe D coll ok g.toSafe
  prog _ i nt := dprog hD hok g i nt

theorem baseSys_safe : baseSys.Safe where
  inv_start _ := trivial
  inv_step _ _ _ h := h.elim
  dec _ _ _ h := h.elim

theorem baseSys_good : baseSys.Good where
  toSafe := baseSys_safe
  prog _ _ nt := (nt trivial).elim

/-- All runs of a tree are finite: no hypothesis on `D`, any set `ok` of permitted labels. -/
theorem level_safe (D : Nat) (coll : Bool) (ok : Label → Bool) : ∀ d, (level D coll ok d).Safe
  | 0 => baseSys_safe
  | d + 1 => dirSys_safe D coll ok (level_safe D coll ok d)

/-- No deadlock in a tree, given `D ≥ 1` at every level and the needed labels. -/
theorem level_good {D : Nat} (hD : 0 < D) (coll : Bool) {ok : Label → Bool}
    (hok : ∀ l, l.needed = true → ok l = true) : ∀ d, (level D coll ok d).Good
  | 0 => baseSys_good
  | d + 1 => dirSys_good hD coll hok (level_good hD coll hok d)

theorem jobMu_job_leaf (C : Sys) : jobMu C (job C .leaf) = 0 := rfl

theorem jobMu_job_dir (C : Sys) (cs : List Shape) :
    jobMu C (job C (.dir cs)) = C.mu (C.start cs) := rfl

theorem mu_init (n : Nat) (c : Bool) : mu (init n c) = 6 * n + 4 := by
  simp [mu, init]; omega

/-- The measure of a fresh tree of instances is bounded by `cost`. -/
theorem level_mu_start_le (D : Nat) (coll : Bool) (ok : Label → Bool) :
    ∀ d cs, (level D coll ok d).mu ((level D coll ok d).start cs) ≤ cost (.dir cs)
  | 0, cs => Nat.zero_le _
  | d + 1, cs => by
    have key : ∀ l : List Shape,
        listSum (l.map fun sh => jobMu (level D coll ok d) (job (level D coll ok d) sh))
          ≤ costs l := by
      intro l
      induction l with
      | nil => simp [listSum, costs]
      | cons sh t ih =>
        simp only [List.map_cons, listSum, costs]
        cases sh with
        | leaf => simp only [jobMu_job_leaf, cost]; omega
        | dir cs' =>
          have := level_mu_start_le D coll ok d cs'
          simp only [jobMu_job_dir]; omega
    have := key cs
    simp only [level, dirSys, DMu, List.map_nil, listSum, cost, mu_init] at *
    omega

/-- … with equality when the tree is not deeper than the tower of systems: every sub-directory is
    then a real nested instance, none is treated as atomic. -/
theorem level_mu_start_eq (D : Nat) (coll : Bool) (ok : Label → Bool) :
    ∀ d cs, depth (.dir cs) ≤ d →
      (level D coll ok d).mu ((level D coll ok d).start cs) = cost (.dir cs)
  | 0, cs, h => by simp [depth] at h
  | d + 1, cs, h => by
    have key : ∀ l : List Shape, depths l ≤ d →
        listSum (l.map fun sh => jobMu (level D coll ok d) (job (level D coll ok d) sh))
          = costs l := by
      intro l
      induction l with
      | nil => intro _; simp [listSum, costs]
      | cons sh t ih =>
        intro hd
        simp only [depths, Nat.max_le] at hd
        simp only [List.map_cons, listSum, costs, ih hd.2]
        cases sh with
        | leaf => simp only [jobMu_job_leaf, cost]
        | dir cs' =>
          have := level_mu_start_eq D coll ok d cs' hd.1
          simp only [jobMu_job_dir]; omega
    have := key cs (by simp only [depth] at h; omega)
    simp only [level, dirSys, DMu, List.map_nil, listSum, cost, mu_init] at *
    omega

/-! ## The executable scheduler -/

theorem runToEnd_terminal {D : Nat} (hD : 0 < D) :
    ∀ (fuel : Nat) (p : P), WF p → mu p ≤ fuel → Terminal (runToEnd D fuel p) ∧ WF (runToEnd D fuel p)
  | 0, p, w, h => by
    refine ⟨?_, w⟩
    apply Classical.byContradiction
    intro nt
    cases hn : next D p with
    | none => exact next_ne_none hD w nt hn
    | some l => have := mu_fire (next_enabled w hn) w; omega
  | fuel + 1, p, w, h => by
    unfold runToEnd
    cases hn : next D p with
    | none =>
      refine ⟨?_, w⟩
      apply Classical.byContradiction
      intro nt
      exact next_ne_none hD w nt hn
    | some l =>
      have he := next_enabled w hn
      have := mu_fire he w
      exact runToEnd_terminal hD fuel _ (wf_fire he w) (by omega)

/-- Core steps never set the `failed` flag. -/
theorem fire_failed_core (l : Label) (p : P) (h : l.core = true) :
    (fire l p).failed = p.failed := by
  cases l <;> first | rfl | cases h

theorem runToEnd_n_failed (D : Nat) :
    ∀ (fuel : Nat) (p : P), (runToEnd D fuel p).n = p.n ∧ (runToEnd D fuel p).failed = p.failed
  | 0, p => ⟨rfl, rfl⟩
  | fuel + 1, p => by
    unfold runToEnd
    cases hn : next D p with
    | none => exact ⟨rfl, rfl⟩
    | some l =>
      have := runToEnd_n_failed D fuel (fire l p)
      simp only [this, fire_n, fire_failed_core l p (next_core hn), and_self]

/-- A schedule accepted by `runLabels` is a run. -/
theorem runLabels_steps {D : Nat} :
    ∀ (ls : List Label) (p q : P), runLabels D ls p = some q → Steps D p ls.length q
  | [], p, q, h => by
    simp only [runLabels, Option.some.injEq] at h
    subst h; exact .refl
  | l :: ls, p, q, h => by
    simp only [runLabels] at h
    split at h
    · rename_i he
      exact .cons (.mk l he) (runLabels_steps ls _ q h)
    · cases h

/-- From every state satisfying the invariant some run reaches termination. -/
theorem Sys.Good.reaches_term {C : Sys} (g : C.Good) :
    ∀ (m : Nat) (a : C.σ), C.mu a ≤ m → C.inv a →
      ∃ k b, Run C.step a k b ∧ C.term b ∧ C.inv b
  | 0, a, hm, i => by
    by_cases t : C.term a
    · exact ⟨0, a, .refl, t, i⟩
    · obtain ⟨b, hb⟩ := g.prog a i t
      have := g.dec a b i hb
      omega
  | m + 1, a, hm, i => by
    by_cases t : C.term a
    · exact ⟨0, a, .refl, t, i⟩
    · obtain ⟨b, hb⟩ := g.prog a i t
      have := g.dec a b i hb
      obtain ⟨k, c, hr, hc⟩ := Sys.Good.reaches_term g m b (by omega) (g.inv_step a b i hb)
      exact ⟨k + 1, c, .cons hb hr, hc⟩

/-- Lift a run of a nested instance to the parent holding it as its only active job. -/
theorem inner_run {D : Nat} {ok : Label → Bool} {C : Sys} (p : P) (pend : List Shape) :
    ∀ {k : Nat} {c c' : C.σ}, Run C.step c k c' →
      Run (DStep D ok C) ⟨p, pend, [some c]⟩ k ⟨p, pend, [some c']⟩ := by
  intro k c c' h
  induction h with
  | refl => exact .refl
  | cons s _ ih => exact .cons (DStep.inner [] _ _ [] rfl s) ih

end Dud.Pool
