import DudModel.Lemmas.CrashTree
/-!
# Interleavings of two disciplined traces (C03, second tier)

Two traces that each follow the `Allowed` discipline when run alone, and that own disjoint sets of
private paths (workspace files, temp files), may be interleaved arbitrarily: every call is still
`Allowed` in the state it meets, hence every prefix of every interleaving is safe.  The only shared
paths are objects (puts onto the same digest carry equal bytes, by collision freedom) and shard
directories (only ever `mkdir`ed).
-/
namespace Dud.Sys

open Dud

variable {κ : Type}

inductive Interleave {α : Type} : List α → List α → List α → Prop
  | nil : Interleave [] [] []
  | left {a : α} {l1 l2 l : List α} : Interleave l1 l2 l → Interleave (a :: l1) l2 (a :: l)
  | right {a : α} {l1 l2 l : List α} : Interleave l1 l2 l → Interleave l1 (a :: l2) (a :: l)

theorem Interleave.nil_left {α : Type} : ∀ (l : List α), Interleave [] l l
  | [] => .nil
  | _ :: l => .right (Interleave.nil_left l)

theorem Interleave.nil_right {α : Type} : ∀ (l : List α), Interleave l [] l
  | [] => .nil
  | _ :: l => .left (Interleave.nil_right l)

/-- sequential composition is one of the interleavings -/
theorem Interleave.append {α : Type} : ∀ (l1 l2 : List α), Interleave l1 l2 (l1 ++ l2)
  | [], l2 => Interleave.nil_left l2
  | _ :: l1, l2 => .left (Interleave.append l1 l2)

/-- a set of private paths: no objects, no shard directories -/
structure Priv (A : P → Prop) : Prop where
  notObj : ∀ p, A p → p.isObj = false
  notShard : ∀ p h, A p → p ≠ .shard h

/-- the call acts on private paths of `A`, except that it may `mkdir` a shard directory, move a
private file onto an object name, and `chmod` an object -/
def Owned (A : P → Prop) : Call κ → Prop
  | .mkdir p => A p ∨ ∃ h, p = .shard h
  | .createExcl p => A p
  | .createTrunc p => A p
  | .writePart p => A p
  | .write p _ => A p
  | .unlink p => A p
  | .symlink _ p => A p
  | .chmod p _ => A p ∨ p.isObj = true
  | .rename s d => A s ∧ (A d ∨ d.isObj = true)

/-- the paths whose content determines the effect of a call on the paths it writes -/
def callReads : Call κ → List P
  | .mkdir p => [p]
  | .createExcl p => [p]
  | .createTrunc _ => []
  | .writePart p => [p]
  | .write p _ => [p]
  | .rename s _ => [s]
  | .chmod p _ => [p]
  | .unlink _ => []
  | .symlink _ p => [p]

/-- the effect of a call at a path depends only on that path and on what the call reads -/
theorem apply_get_congr (emp : κ) {fs fs' : FS κ} (c : Call κ) (q : P)
    (hr : ∀ p ∈ callReads c, fs'.get p = fs.get p) (hq : fs'.get q = fs.get q) :
    (apply emp fs' c).get q = (apply emp fs c).get q := by
  cases c with
  | mkdir p =>
    have hp := hr p (by simp [callReads])
    simp only [apply, hp]
    split <;> simp [FS.get_set, hq]
  | createExcl p =>
    have hp := hr p (by simp [callReads])
    simp only [apply, hp]
    split <;> simp [FS.get_set, hq]
  | symlink t p =>
    have hp := hr p (by simp [callReads])
    simp only [apply, hp]
    split <;> simp [FS.get_set, hq]
  | createTrunc p => simp [apply, FS.get_set, hq]
  | unlink p => simp [apply, FS.get_del, hq]
  | writePart p =>
    have hp := hr p (by simp [callReads])
    simp only [apply, hp]
    split <;> simp [FS.get_set, hq]
  | write p x =>
    have hp := hr p (by simp [callReads])
    simp only [apply, hp]
    split <;> simp [FS.get_set, hq]
  | chmod p m =>
    have hp := hr p (by simp [callReads])
    simp only [apply, hp]
    split <;> simp [FS.get_set, hq]
  | rename s d =>
    have hp := hr s (by simp [callReads])
    simp only [apply, hp]
    split <;> simp [FS.get_set, FS.get_del, hq]

/-- every complete object of `a` is a complete object with the same bytes in `b` -/
def ObjLe (a b : FS κ) : Prop :=
  ∀ d c m, a.get (.obj d) = some (.file c m) → ∃ m', b.get (.obj d) = some (.file c m')

theorem ObjLe.refl (a : FS κ) : ObjLe a a := fun _ _ m h => ⟨m, h⟩

theorem ObjLe.trans {a b c : FS κ} (h1 : ObjLe a b) (h2 : ObjLe b c) : ObjLe a c := by
  intro d x m h
  obtain ⟨m', h'⟩ := h1 d x m h
  exact h2 d x m' h'

theorem Backed.objLe {ctx : Ctx κ} {tracked : List (P × κ)} {a b : FS κ} {p : P}
    (h : Backed ctx tracked a p) (hle : ObjLe a b) : Backed ctx tracked b p := by
  intro c hc
  obtain ⟨m, hm⟩ := h c hc
  exact hle _ _ _ hm

/-- an allowed call never loses or changes the bytes of an object -/
theorem objLe_apply {ctx : Ctx κ} (g : Good ctx) {tracked : List (P × κ)} (emp : κ) {fs : FS κ}
    (hnt : NoTorn ctx fs) {c : Call κ} (ha : Allowed ctx tracked fs c) : ObjLe fs (apply emp fs c) := by
  intro d x m hd
  have keep : ∀ p : P, p.isObj = false → callWrites c = [p] →
      ∃ m', (apply emp fs c).get (.obj d) = some (.file x m') := by
    intro p hp hw
    refine ⟨m, ?_⟩
    rw [apply_get_frame _ _ _ _ (by rw [hw]; simp; exact Ne.symm (P.isObj_false hp d))]
    exact hd
  cases c with
  | mkdir p => exact keep p ha rfl
  | createExcl p => exact keep p ha rfl
  | symlink t p => exact keep p ha rfl
  | createTrunc p => exact keep p ha.1 rfl
  | writePart p => exact keep p ha.1 rfl
  | write p y => exact keep p ha.1 rfl
  | unlink p => exact keep p ha.1 rfl
  | chmod p mm =>
    by_cases hp : p = .obj d
    · subst hp
      exact ⟨mm, by simp [apply, hd, FS.get_set]⟩
    · refine ⟨m, ?_⟩
      rw [apply_get_frame _ _ _ _ (by simp [callWrites, callPaths]; exact Ne.symm hp)]
      exact hd
  | rename s dst =>
    obtain ⟨hso, ha⟩ := ha
    have hsne : s ≠ .obj d := P.isObj_false hso d
    simp only [apply]
    cases hs : fs.get s with
    | none => exact ⟨m, hd⟩
    | some e =>
      by_cases hdst : dst = .obj d
      · subst hdst
        obtain ⟨y, m', he, hH⟩ := (ha e hs).1 d rfl
        subst he
        obtain ⟨x', m2, hx, hH'⟩ := hnt d _ hd
        cases hx
        have : y = x := g.inj _ _ (hH.trans hH'.symm)
        subst this
        exact ⟨m', by simp [FS.get_set]⟩
      · exact ⟨m, by simp [FS.get_set, FS.get_del, hdst, hsne, hd]⟩

/-- the solo state `s` of a trace owning `A` and the interleaved state `f`: they agree on the
private paths, and `f` has at least the objects of `s` -/
structure Rel (A : P → Prop) (s f : FS κ) : Prop where
  priv : ∀ p, A p → f.get p = s.get p
  objs : ObjLe s f

theorem Rel.refl (A : P → Prop) (s : FS κ) : Rel A s s := ⟨fun _ _ => rfl, ObjLe.refl s⟩

/-- Allowed-ness transfers from the solo state to the interleaved state. -/
theorem Allowed.transfer {ctx : Ctx κ} {tracked : List (P × κ)} {A : P → Prop} {s f : FS κ}
    (hr : Rel A s f) {c : Call κ} (ho : Owned A c) (ha : Allowed ctx tracked s c) :
    Allowed ctx tracked f c := by
  cases c with
  | mkdir p => exact ha
  | createExcl p => exact ha
  | symlink t p => exact ha
  | chmod p m => trivial
  | createTrunc p => exact ⟨ha.1, ha.2.objLe hr.objs⟩
  | writePart p => exact ⟨ha.1, ha.2.objLe hr.objs⟩
  | write p x => exact ⟨ha.1, ha.2.objLe hr.objs⟩
  | unlink p => exact ⟨ha.1, ha.2.objLe hr.objs⟩
  | rename src d =>
    refine ⟨ha.1, fun e he => ?_⟩
    rw [hr.priv src ho.1] at he
    obtain ⟨h1, h2⟩ := ha.2 e he
    exact ⟨h1, fun hd => ⟨(h2 hd).1.objLe hr.objs, (h2 hd).2.objLe hr.objs⟩⟩

/-- a call of the owner keeps the relation -/
theorem Rel.step_own {ctx : Ctx κ} (g : Good ctx) {tracked : List (P × κ)} (emp : κ) {A : P → Prop}
    {s f : FS κ} (hr : Rel A s f) (hntf : NoTorn ctx f) {c : Call κ} (ho : Owned A c)
    (has : Allowed ctx tracked s c) (haf : Allowed ctx tracked f c) :
    Rel A (apply emp s c) (apply emp f c) := by
  refine ⟨fun q hq => ?_, ?_⟩
  · -- private paths
    by_cases hw : q ∈ callWrites c
    · apply apply_get_congr emp c q _ (hr.priv q hq)
      intro p hp
      cases c with
      | mkdir p' => simp [callReads] at hp; simp [callWrites, callPaths] at hw; subst hp hw; exact hr.priv _ hq
      | createExcl p' => simp [callReads] at hp; subst hp; exact hr.priv _ ho
      | symlink t p' => simp [callReads] at hp; subst hp; exact hr.priv _ ho
      | createTrunc p' => simp [callReads] at hp
      | unlink p' => simp [callReads] at hp
      | writePart p' => simp [callReads] at hp; subst hp; exact hr.priv _ ho
      | write p' x => simp [callReads] at hp; subst hp; exact hr.priv _ ho
      | chmod p' m => simp [callReads] at hp; simp [callWrites, callPaths] at hw; subst hp hw; exact hr.priv _ hq
      | rename src d => simp [callReads] at hp; subst hp; exact hr.priv _ ho.1
    · rw [apply_get_frame _ _ _ _ hw, apply_get_frame _ _ _ _ hw]
      exact hr.priv q hq
  · -- objects
    intro d x m hd
    -- an object the call leaves alone in the solo run
    have untouched : (apply emp s c).get (.obj d) = s.get (.obj d) →
        ∃ m', (apply emp f c).get (.obj d) = some (.file x m') := by
      intro heq
      rw [heq] at hd
      obtain ⟨m1, h1⟩ := hr.objs d x m hd
      exact objLe_apply g emp hntf haf d x m1 h1
    have frame : ∀ p : P, p.isObj = false → callWrites c = [p] →
        ∃ m', (apply emp f c).get (.obj d) = some (.file x m') := by
      intro p hp hw
      apply untouched
      exact apply_get_frame _ _ _ _ (by rw [hw]; simp; exact Ne.symm (P.isObj_false hp d))
    cases c with
    | mkdir p => exact frame p has rfl
    | createExcl p => exact frame p has rfl
    | symlink t p => exact frame p has rfl
    | createTrunc p => exact frame p has.1 rfl
    | writePart p => exact frame p has.1 rfl
    | write p y => exact frame p has.1 rfl
    | unlink p => exact frame p has.1 rfl
    | chmod p mm =>
      by_cases hp : p = .obj d
      · subst hp
        -- the solo run had a file there before (otherwise no file afterwards)
        simp only [apply] at hd
        cases hsd : s.get (.obj d) with
        | none => simp [hsd] at hd
        | some e =>
          cases e with
          | file y m0 =>
            simp [hsd, FS.get_set] at hd
            obtain ⟨rfl, rfl⟩ := hd
            obtain ⟨m1, h1⟩ := hr.objs d y m0 hsd
            exact ⟨mm, by simp [apply, h1, FS.get_set]⟩
          | torn m0 => simp [hsd, FS.get_set] at hd
          | dir => simp [hsd] at hd
          | link t => simp [hsd] at hd
      · apply untouched
        exact apply_get_frame _ _ _ _ (by simp [callWrites, callPaths]; exact Ne.symm hp)
    | rename src dst =>
      have hsrc : f.get src = s.get src := hr.priv src ho.1
      have hsne : src ≠ .obj d := P.isObj_false has.1 d
      by_cases hdst : dst = .obj d
      · subst hdst
        cases hs : s.get src with
        | none =>
          apply untouched
          simp [apply, hs]
        | some e =>
          have h1 : (apply emp s (.rename src (.obj d))).get (.obj d) = some e := get_rename_dst hs
          rw [h1] at hd
          cases hd
          exact ⟨m, get_rename_dst (by rw [hsrc]; exact hs)⟩
      · apply untouched
        exact apply_get_frame _ _ _ _ (by
          simp [callWrites, callPaths]; exact ⟨Ne.symm hsne, Ne.symm hdst⟩)

/-- a call of the other trace keeps the relation -/
theorem Rel.step_other {ctx : Ctx κ} (g : Good ctx) {tracked : List (P × κ)} (emp : κ)
    {A B : P → Prop} (hA : Priv A) (hdisj : ∀ p, B p → ¬ A p) {s f : FS κ} (hr : Rel A s f)
    (hntf : NoTorn ctx f) {c : Call κ} (ho : Owned B c) (haf : Allowed ctx tracked f c) :
    Rel A s (apply emp f c) := by
  refine ⟨fun q hq => ?_, hr.objs.trans (objLe_apply g emp hntf haf)⟩
  rw [apply_get_frame]
  · exact hr.priv q hq
  · -- the other trace writes no private path of `A`
    have hno : ∀ p, (B p ∨ p.isObj = true ∨ ∃ h, p = .shard h) → q ≠ p := by
      intro p hp heq
      subst heq
      rcases hp with hb | hobj | ⟨h, rfl⟩
      · exact hdisj _ hb hq
      · rw [hA.notObj _ hq] at hobj; cases hobj
      · exact hA.notShard _ h hq rfl
    cases c with
    | mkdir p =>
      simp only [callWrites, callPaths, List.mem_singleton]
      exact hno p (ho.elim Or.inl (fun h => Or.inr (Or.inr h)))
    | createExcl p => simp only [callWrites, callPaths, List.mem_singleton]; exact hno p (Or.inl ho)
    | createTrunc p => simp only [callWrites, callPaths, List.mem_singleton]; exact hno p (Or.inl ho)
    | writePart p => simp only [callWrites, callPaths, List.mem_singleton]; exact hno p (Or.inl ho)
    | write p x => simp only [callWrites, callPaths, List.mem_singleton]; exact hno p (Or.inl ho)
    | unlink p => simp only [callWrites, callPaths, List.mem_singleton]; exact hno p (Or.inl ho)
    | symlink t p => simp only [callWrites, List.mem_singleton]; exact hno p (Or.inl ho)
    | chmod p m =>
      simp only [callWrites, callPaths, List.mem_singleton]
      exact hno p (ho.elim Or.inl (fun h => Or.inr (Or.inl h)))
    | rename src d =>
      simp only [callWrites, callPaths, List.mem_cons, List.not_mem_nil, or_false, not_or]
      exact ⟨hno src (Or.inl ho.1), hno d (ho.2.elim Or.inl (fun h => Or.inr (Or.inl h)))⟩

/-- **Every interleaving of two disciplined traces with disjoint private paths is disciplined.** -/
theorem interleave_allowed {ctx : Ctx κ} (g : Good ctx) {tracked : List (P × κ)} (emp : κ)
    {A1 A2 : P → Prop} (hA1 : Priv A1) (hA2 : Priv A2) (hdisj : ∀ p, A1 p → ¬ A2 p) :
    ∀ {l1 l2 l : List (Call κ)}, Interleave l1 l2 l → ∀ (s1 s2 f : FS κ), Safe ctx tracked f →
      Rel A1 s1 f → Rel A2 s2 f →
      AllowedTrace ctx emp tracked s1 l1 → AllowedTrace ctx emp tracked s2 l2 →
      (∀ c ∈ l1, Owned A1 c) → (∀ c ∈ l2, Owned A2 c) → AllowedTrace ctx emp tracked f l := by
  intro l1 l2 l hi
  induction hi with
  | nil => intros; trivial
  | @left c l1 l2 l _ ih =>
    intro s1 s2 f hsf hr1 hr2 ha1 ha2 ho1 ho2
    have hoc : Owned A1 c := ho1 c (by simp)
    have haf : Allowed ctx tracked f c := Allowed.transfer hr1 hoc ha1.1
    refine ⟨haf, ih (apply emp s1 c) s2 (apply emp f c) (hsf.apply g emp haf)
      (hr1.step_own g emp hsf.2 hoc ha1.1 haf)
      (hr2.step_other g emp hA2 hdisj hsf.2 hoc haf) ha1.2 ha2
      (fun c' hc' => ho1 c' (by simp [hc'])) ho2⟩
  | @right c l1 l2 l _ ih =>
    intro s1 s2 f hsf hr1 hr2 ha1 ha2 ho1 ho2
    have hoc : Owned A2 c := ho2 c (by simp)
    have haf : Allowed ctx tracked f c := Allowed.transfer hr2 hoc ha2.1
    refine ⟨haf, ih s1 (apply emp s2 c) (apply emp f c) (hsf.apply g emp haf)
      (hr1.step_other g emp hA1 (fun p h2 h1 => hdisj p h1 h2) hsf.2 hoc haf)
      (hr2.step_own g emp hsf.2 hoc ha2.1 haf) ha1 ha2.2 ho1
      (fun c' hc' => ho2 c' (by simp [hc']))⟩

/-- **Interleavings are crash-safe**: from a safe state, two traces that are each disciplined when
run alone and own disjoint private paths can be interleaved in any way — the state after every
prefix of the interleaving is safe. -/
theorem interleave_crash_safe {ctx : Ctx κ} (g : Good ctx) {tracked : List (P × κ)} (emp : κ)
    {A1 A2 : P → Prop} (hA1 : Priv A1) (hA2 : Priv A2) (hdisj : ∀ p, A1 p → ¬ A2 p)
    {l1 l2 l : List (Call κ)} (hi : Interleave l1 l2 l) {fs : FS κ} (hs : Safe ctx tracked fs)
    (ha1 : AllowedTrace ctx emp tracked fs l1) (ha2 : AllowedTrace ctx emp tracked fs l2)
    (ho1 : ∀ c ∈ l1, Owned A1 c) (ho2 : ∀ c ∈ l2, Owned A2 c) :
    ∀ k, Safe ctx tracked (replay emp fs (l.take k)) :=
  (interleave_allowed g emp hA1 hA2 hdisj hi fs fs fs hs (Rel.refl _ _) (Rel.refl _ _)
    ha1 ha2 ho1 ho2).prefixSafe g hs


/-! ## the traced commit owns its workspace files and temp names -/

/-- private paths of a (sub)commit: the workspace paths of its regular files and its temp names -/
def PrivOf (wsPaths : List P) (lo hi : Nat) (p : P) : Prop :=
  (∃ q, p = .ws q ∧ p ∈ wsPaths) ∨ (∃ k, p = .ctmp k ∧ lo ≤ k ∧ k < hi)

theorem privOf_priv (wsPaths : List P) (lo hi : Nat) : Priv (PrivOf wsPaths lo hi) := by
  constructor
  · rintro p (⟨q, rfl, -⟩ | ⟨k, rfl, -⟩) <;> rfl
  · rintro p h (⟨q, rfl, -⟩ | ⟨k, rfl, -⟩) <;> simp

theorem PrivOf.mono {ws ws' : List P} {lo hi lo' hi' : Nat} (hws : ∀ p ∈ ws, p ∈ ws')
    (hlo : lo' ≤ lo) (hhi : hi ≤ hi') {p : P} (h : PrivOf ws lo hi p) : PrivOf ws' lo' hi' p := by
  rcases h with ⟨q, rfl, hq⟩ | ⟨k, rfl, h1, h2⟩
  · exact Or.inl ⟨q, rfl, hws _ hq⟩
  · exact Or.inr ⟨k, rfl, by omega, by omega⟩

theorem Owned.mono {A B : P → Prop} (hAB : ∀ p, A p → B p) {c : Call κ} (h : Owned A c) : Owned B c := by
  cases c with
  | mkdir p => exact h.elim (fun h => Or.inl (hAB _ h)) Or.inr
  | createExcl p => exact hAB _ h
  | createTrunc p => exact hAB _ h
  | writePart p => exact hAB _ h
  | write p x => exact hAB _ h
  | unlink p => exact hAB _ h
  | symlink t p => exact hAB _ h
  | chmod p m => exact h.elim (fun h => Or.inl (hAB _ h)) Or.inr
  | rename s d => exact ⟨hAB _ h.1, h.2.elim (fun h => Or.inl (hAB _ h)) Or.inr⟩

def OwnedAll (A : P → Prop) (calls : List (Call κ)) : Prop := ∀ c ∈ calls, Owned A c

theorem OwnedAll.mono {A B : P → Prop} (hAB : ∀ p, A p → B p) {calls : List (Call κ)}
    (h : OwnedAll A calls) : OwnedAll B calls := fun c hc => (h c hc).mono hAB

theorem OwnedAll.append {A : P → Prop} {l1 l2 : List (Call κ)} (h1 : OwnedAll A l1)
    (h2 : OwnedAll A l2) : OwnedAll A (l1 ++ l2) := by
  intro c hc
  rcases List.mem_append.1 hc with h | h
  · exact h1 c h
  · exact h2 c h

theorem copyIntoCache_owned (isEmp : κ → Bool) (n : Nat) (c : κ) (d : Digest) :
    OwnedAll (PrivOf [] n (n + 1)) (copyIntoCache isEmp n c d) := by
  have hn : PrivOf [] n (n + 1) (.ctmp n) := Or.inr ⟨n, rfl, Nat.le_refl _, Nat.lt_succ_self _⟩
  intro call hcall
  unfold copyIntoCache at hcall
  cases he : isEmp c <;> simp [he] at hcall <;>
    rcases hcall with rfl | rfl | rfl | rfl | rfl | rfl <;> simp [Owned, hn, P.isObj]

theorem commitFileCalls_owned (isEmp : κ → Bool) (strat : Strat) (canRename : Bool) (q : List Name)
    (n : Nat) (c : κ) (d : Digest) :
    OwnedAll (PrivOf [.ws q] n (if strat == .link && canRename then n else n + 1))
      (commitFileCalls isEmp strat canRename (.ws q) n c d) := by
  have hw : ∀ lo hi, PrivOf [.ws q] lo hi (.ws q) := fun _ _ => Or.inl ⟨q, rfl, by simp⟩
  cases strat <;> cases canRename <;> simp only [commitFileCalls]
  · refine OwnedAll.append ((copyIntoCache_owned isEmp n c d).mono
      (fun p h => h.mono (by simp) (Nat.le_refl _) (by simp))) ?_
    intro call hcall
    simp at hcall
    rcases hcall with rfl | rfl <;> simp [Owned, hw]
  · intro call hcall
    simp at hcall
    rcases hcall with rfl | rfl | rfl | rfl <;> simp [Owned, hw, P.isObj]
  · exact (copyIntoCache_owned isEmp n c d).mono (fun p h => h.mono (by simp) (Nat.le_refl _) (by simp))
  · exact (copyIntoCache_owned isEmp n c d).mono (fun p h => h.mono (by simp) (Nat.le_refl _) (by simp))

mutual
theorem commitNodeT_owned (t : TCfg κ) : ∀ (nd : Node κ) (pre : List Name) (c : Child) (s : Store κ)
    (n : Nat) (res : Node κ × Child × Store κ) (calls : List (Call κ)) (n' : Nat),
    commitNodeT t pre nd c s n = .ok (res, calls, n') →
      OwnedAll (PrivOf (paths (trackedOf pre nd)) n n') calls
  | .file x, pre, c, s, n, res, calls, n', h => by
    obtain ⟨rfl, rfl⟩ := commitNodeT_file_ok h
    simpa [paths, trackedOf] using commitFileCalls_owned t.isEmp t.strat t.canRename pre n x (t.ctx.H x)
  | .link l, pre, c, s, n, res, calls, n', h => by
    obtain ⟨rfl, rfl⟩ := commitNodeT_link_ok h
    intro c hc; simp at hc
  | .other, pre, c, s, n, res, calls, n', h => by
    obtain ⟨rfl, rfl⟩ := commitNodeT_other_ok h
    intro c hc; simp at hc
  | .dir es, pre, c, s, n, res, calls, n', h => by
    obtain ⟨old, res1, calls1, n1, mb, hT, rfl, rfl⟩ := commitNodeT_dir_ok h
    have hle := (commitEntriesT_foot t es pre false old s n res1 calls1 n1 hT).1
    have ho := commitEntriesT_owned t es pre false old s n res1 calls1 n1 hT
    refine OwnedAll.append ?_ ?_
    · simp only [trackedOf]
      exact ho.mono (fun p h => h.mono (fun _ h => h) (Nat.le_refl _) (by omega))
    · exact (copyIntoCache_owned t.isEmp n1 mb _).mono
        (fun p h => h.mono (by simp) hle (Nat.le_refl _))
theorem commitEntriesT_owned (t : TCfg κ) : ∀ (es : List (Name × Node κ)) (pre : List Name)
    (skipDirs : Bool) (old : List Child) (s : Store κ) (n : Nat)
    (res : List (Name × Node κ) × List Child × Store κ) (calls : List (Call κ)) (n' : Nat),
    commitEntriesT t pre skipDirs es old s n = .ok (res, calls, n') →
      OwnedAll (PrivOf (paths (trackedList pre es)) n n') calls
  | [], pre, skipDirs, old, s, n, res, calls, n', h => by
    simp [commitEntriesT] at h
    obtain ⟨-, rfl, rfl⟩ := h
    intro c hc; simp at hc
  | (nm, nd) :: r, pre, skipDirs, old, s, n, res, calls, n', h => by
    rcases commitEntriesT_cons_ok h with ⟨res', h'⟩ |
      ⟨c0, nd', c', s1, calls1, n1, res2, calls2, h1, h2, rfl⟩
    · exact (commitEntriesT_owned t r pre skipDirs old s n res' calls n' h').mono
        (fun p h => h.mono (paths_cons_right pre nm nd r) (Nat.le_refl _) (Nat.le_refl _))
    · have hle1 := (commitNodeT_foot t nd (pre ++ [nm]) c0 s n _ calls1 n1 h1).1
      have hle2 := (commitEntriesT_foot t r pre skipDirs old s1 n1 res2 calls2 n' h2).1
      refine OwnedAll.append ?_ ?_
      · exact (commitNodeT_owned t nd (pre ++ [nm]) c0 s n _ calls1 n1 h1).mono
          (fun p h => h.mono (paths_cons_left pre nm nd r) (Nat.le_refl _) hle2)
      · exact (commitEntriesT_owned t r pre skipDirs old s1 n1 res2 calls2 n' h2).mono
          (fun p h => h.mono (paths_cons_right pre nm nd r) hle1 (Nat.le_refl _))
end

/-- **Two workers committing sibling entries concurrently.**  The traces of the traced commit of two
entries with different names and disjoint temp names, interleaved in any way, leave a safe state
after every prefix. -/
theorem commit_siblings_interleave_crash_safe {t : TCfg κ} (g : Good t.ctx) {tracked : List (P × κ)}
    (htw : TrackedWs tracked) {emp : κ} (hemp : ∀ c, t.isEmp c = true → c = emp)
    {pre : List Name} {nm1 nm2 : Name} (hne : nm1 ≠ nm2) {nd1 nd2 : Node κ}
    (hu1 : uniqNode nd1) (hu2 : uniqNode nd2)
    {c1 c2 : Child} {s1 s2 : Store κ} {n1 n1' n2 n2' : Nat}
    {r1 r2 : Node κ × Child × Store κ} {calls1 calls2 : List (Call κ)}
    (h1 : commitNodeT t (pre ++ [nm1]) nd1 c1 s1 n1 = .ok (r1, calls1, n1'))
    (h2 : commitNodeT t (pre ++ [nm2]) nd2 c2 s2 n2 = .ok (r2, calls2, n2'))
    (hn : n1' ≤ n2)
    {fs : FS κ} (hs : Safe t.ctx tracked fs)
    (hin1 : ∀ p ∈ trackedOf (pre ++ [nm1]) nd1, ∃ m, fs.get p.1 = some (.file p.2 m))
    (hin2 : ∀ p ∈ trackedOf (pre ++ [nm2]) nd2, ∃ m, fs.get p.1 = some (.file p.2 m))
    (hfr : ∀ k, n1 ≤ k → fs.get (.ctmp k) = none)
    {l : List (Call κ)} (hi : Interleave calls1 calls2 l) :
    ∀ k, Safe t.ctx tracked (replay emp fs (l.take k)) := by
  have hle1 := (commitNodeT_foot t nd1 _ c1 s1 n1 r1 calls1 n1' h1).1
  have ha1 := commitNodeT_allowed g htw hemp nd1 _ c1 s1 n1 r1 calls1 n1' hu1 h1 fs hs hin1 hfr
  have ha2 := commitNodeT_allowed g htw hemp nd2 _ c2 s2 n2 r2 calls2 n2' hu2 h2 fs hs hin2
    (fun k hk => hfr k (by omega))
  refine interleave_crash_safe g emp (privOf_priv _ n1 n1') (privOf_priv _ n2 n2') ?_ hi hs ha1 ha2
    (commitNodeT_owned t nd1 _ c1 s1 n1 r1 calls1 n1' h1)
    (commitNodeT_owned t nd2 _ c2 s2 n2 r2 calls2 n2' h2)
  rintro p (⟨q, rfl, hq⟩ | ⟨k, rfl, hk1, hk2⟩) (⟨q', heq, hq'⟩ | ⟨k', heq, hk1', hk2'⟩)
  · simp only [paths, List.mem_map] at hq hq'
    obtain ⟨p1, hp1, e1⟩ := hq
    obtain ⟨p2, hp2, e2⟩ := hq'
    obtain ⟨names1, hn1, -⟩ := trackedOf_names nd1 _ p1 hp1
    obtain ⟨names2, hn2, -⟩ := trackedOf_names nd2 _ p2 hp2
    rw [hn1] at e1; rw [hn2] at e2
    exact sibling_paths_ne hne (e1.trans e2.symm)
  · cases heq
  · cases heq
  · cases heq; omega

end Dud.Sys
