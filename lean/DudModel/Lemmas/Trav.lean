import DudModel.TravSpec
/-!
# Lemmas about the generic traversal `visit`

The central statement is `visit_trace`: a successful logged traversal from `(st, l)` to
`(st', l')` appends a duplicate-free list `d` of stages to the log such that every stage in `d`
was available, not done before, reachable from the root, done afterwards (and nothing else
changed its done-ness), and — in a recursive traversal — preceded in `d` by each of its owners
unless that owner was already done at the start.
-/
namespace Dud

variable {σ : Type}

/-! ## `Before` on duplicate-free lists -/

theorem Before.mem_left {l : List Bytes} {x y : Bytes} (h : Before l x y) : x ∈ l := by
  obtain ⟨l1, l2, l3, rfl⟩ := h; simp

theorem Before.mem_right {l : List Bytes} {x y : Bytes} (h : Before l x y) : y ∈ l := by
  obtain ⟨l1, l2, l3, rfl⟩ := h; simp

theorem Before.append_left {l : List Bytes} {x y : Bytes} (p : List Bytes) (h : Before l x y) :
    Before (p ++ l) x y := by
  obtain ⟨l1, l2, l3, rfl⟩ := h
  exact ⟨p ++ l1, l2, l3, by simp⟩

theorem Before.append_right {l : List Bytes} {x y : Bytes} (q : List Bytes) (h : Before l x y) :
    Before (l ++ q) x y := by
  obtain ⟨l1, l2, l3, rfl⟩ := h
  exact ⟨l1, l2, l3 ++ q, by simp⟩

theorem Before.of_mem_append {p q : List Bytes} {x y : Bytes} (hx : x ∈ p) (hy : y ∈ q) :
    Before (p ++ q) x y := by
  obtain ⟨p1, p2, rfl⟩ := List.append_of_mem hx
  obtain ⟨q1, q2, rfl⟩ := List.append_of_mem hy
  exact ⟨p1, p2 ++ q1, q2, by simp⟩

/-- in a duplicate-free list an element splits the list in only one way -/
theorem split_unique {α : Type} {b : α} : ∀ {p q p' q' : List α},
    (p ++ b :: q).Nodup → p ++ b :: q = p' ++ b :: q' → p = p' ∧ q = q'
  | [], q, [], q', _, h => by simpa using h
  | [], q, c :: p', q', hn, h => by
    simp only [List.nil_append, List.cons_append, List.cons.injEq] at h
    obtain ⟨rfl, rfl⟩ := h
    simp at hn
  | a :: p, q, [], q', hn, h => by
    simp only [List.nil_append, List.cons_append, List.cons.injEq] at h
    obtain ⟨rfl, rfl⟩ := h
    simp at hn
  | a :: p, q, c :: p', q', hn, h => by
    simp only [List.cons_append, List.cons.injEq] at h
    obtain ⟨rfl, h⟩ := h
    have hn' : (p ++ b :: q).Nodup := by
      simp only [List.cons_append, List.nodup_cons] at hn; exact hn.2
    obtain ⟨rfl, rfl⟩ := split_unique hn' h
    exact ⟨rfl, rfl⟩

theorem Before.trans {l : List Bytes} (hn : l.Nodup) {x y z : Bytes}
    (h1 : Before l x y) (h2 : Before l y z) : Before l x z := by
  obtain ⟨l1, l2, l3, rfl⟩ := h1
  obtain ⟨m1, m2, m3, h⟩ := h2
  have h' : (l1 ++ x :: l2) ++ y :: l3 = m1 ++ y :: (m2 ++ z :: m3) := by simpa using h
  obtain ⟨rfl, rfl⟩ := split_unique (by simpa using hn) h'
  exact ⟨l1, l2 ++ y :: m2, m3, by simp⟩

theorem Before.irrefl {l : List Bytes} (hn : l.Nodup) {x : Bytes} (h : Before l x x) : False := by
  obtain ⟨l1, l2, l3, rfl⟩ := h
  simp [List.nodup_append] at hn

theorem Before.asymm {l : List Bytes} (hn : l.Nodup) {x y : Bytes}
    (h1 : Before l x y) (h2 : Before l y x) : False :=
  Before.irrefl hn (Before.trans hn h1 h2)

/-- if every logged stage is preceded by its owners, everything upstream of a logged stage is
logged, and earlier -/
theorem reach_before {own : Bytes → List Bytes} {l : List Bytes} (hn : l.Nodup)
    (htop : ∀ x, x ∈ l → ∀ o, o ∈ own x → Before l o x) {a b : Bytes} (h : Reach own a b)
    (ha : a ∈ l) : b = a ∨ Before l b a := by
  induction h with
  | refl a => exact .inl rfl
  | step hb _ ih =>
    have hba := htop _ ha _ hb
    rcases ih hba.mem_left with rfl | h
    · exact .inr hba
    · exact .inr (Before.trans hn h hba)

theorem Reach.trans {own : Bytes → List Bytes} {a b c : Bytes} (h1 : Reach own a b)
    (h2 : Reach own b c) : Reach own a c := by
  induction h1 with
  | refl => exact h2
  | step hb _ ih => exact .step hb (ih h2)

/-! ## laws relative to an invariant -/

/-- `Trav.Lawful` restricted to states satisfying an invariant the action preserves; the owner LIST
may depend on the state as long as its set of elements does not (commit re-sorts the inputs) -/
structure Trav.LawfulOn (T : Trav σ) (own : Bytes → List Bytes) (Inv : σ → Prop) : Prop where
  owners_eq : ∀ st sp os, Inv st → T.owners st sp = .ok os → ∀ x, x ∈ os ↔ x ∈ own sp
  act_done : ∀ sp st st', Inv st → T.act sp st = .ok st' →
    ∀ x, T.isDone st' x = (x == sp || T.isDone st x)
  act_inv : ∀ sp st st', Inv st → T.act sp st = .ok st' → Inv st'

theorem Trav.Lawful.lawfulOn {T : Trav σ} {own} (h : T.Lawful own) : T.LawfulOn own (fun _ => True) :=
  ⟨fun st sp os _ ho x => by rw [h.owners_eq st sp os ho], fun sp st st' _ => h.act_done sp st st',
    fun _ _ _ _ _ => trivial⟩

/-! ## erasing the ghost log -/

theorem visitAll_erase {f : Bytes → σ × List Bytes → Except Err (σ × List Bytes)}
    {g : Bytes → σ → Except Err σ} (hfg : ∀ o st l, (f o (st, l)).map (·.1) = g o st) :
    ∀ os st l, (visitAll f os (st, l)).map (·.1) = visitAll g os st
  | [], st, l => rfl
  | o :: os, st, l => by
    have h := hfg o st l
    simp only [visitAll]
    cases hf : f o (st, l) with
    | error e => rw [hf] at h; rw [← h]; rfl
    | ok p =>
      rw [hf] at h; rw [← h]
      exact visitAll_erase hfg os p.1 p.2

theorem visit_erase (T : Trav σ) (r : Bool) : ∀ (fuel : Nat) (avail : List Bytes) (sp : Bytes) (st : σ)
    (l : List Bytes), (visit T.logged r fuel avail sp (st, l)).map (·.1) = visit T r fuel avail sp st
  | 0, _, _, _, _ => rfl
  | fuel+1, avail, sp, st, l => by
    simp only [visit]
    have hd : T.logged.isDone (st, l) sp = T.isDone st sp := rfl
    have ho : T.logged.owners (st, l) sp = T.owners st sp := rfl
    rw [hd, ho]
    split
    · rfl
    split
    · rfl
    cases T.owners st sp with
    | error e => rfl
    | ok os =>
      simp only
      cases r with
      | false =>
        simp only [Bool.false_eq_true, if_false, Trav.logged]
        cases T.act sp st <;> rfl
      | true =>
        simp only [if_true]
        have h := visitAll_erase (fun o st l => visit_erase T true fuel (avail.filter (· != sp)) o st l) os st l
        cases hv : visitAll (visit T.logged true fuel (avail.filter (· != sp))) os (st, l) with
        | error e => rw [hv] at h; rw [← h]; rfl
        | ok p =>
          rw [hv] at h; rw [← h]
          simp only [Except.map, Trav.logged]
          cases T.act sp p.1 <;> rfl

/-! ## the trace invariant -/

/-- what a successful logged traversal from `p` to `p'` did: it appended `d` to the log -/
def Trace (T : Trav σ) (own : Bytes → List Bytes) (Inv : σ → Prop) (r : Bool) (A : Bytes → Prop)
    (P : Bytes → Prop) (p p' : σ × List Bytes) : Prop :=
  ∃ d, p'.2 = p.2 ++ d ∧ Inv p'.1 ∧ d.Nodup ∧
    (∀ x, x ∈ d → A x ∧ T.isDone p.1 x = false ∧ P x) ∧
    (∀ x, T.isDone p'.1 x = (T.isDone p.1 x || d.contains x)) ∧
    (r = true → ∀ x, x ∈ d → ∀ o, o ∈ own x → T.isDone p.1 o = true ∨ Before d o x)

variable {T : Trav σ} {own : Bytes → List Bytes} {Inv : σ → Prop} {r : Bool}

theorem Trace.refl {A : Bytes → Prop} {P : Bytes → Prop} {p : σ × List Bytes} (h : Inv p.1) :
    Trace T own Inv r A P p p :=
  ⟨[], by simp, h, by simp, by simp, by simp, by simp⟩

theorem Trace.mono {A A' : Bytes → Prop} {P P' : Bytes → Prop} {p p' : σ × List Bytes}
    (ha : ∀ x, A x → A' x) (hP : ∀ x, P x → P' x)
    (h : Trace T own Inv r A P p p') : Trace T own Inv r A' P' p p' := by
  obtain ⟨d, h1, h2, h3, h4, h5, h6⟩ := h
  exact ⟨d, h1, h2, h3, fun x hx => ⟨ha _ (h4 x hx).1, (h4 x hx).2.1, hP _ (h4 x hx).2.2⟩, h5, h6⟩

theorem Trace.trans {A : Bytes → Prop} {P : Bytes → Prop} {p p1 p2 : σ × List Bytes}
    (h : Trace T own Inv r A P p p1) (h' : Trace T own Inv r A P p1 p2) :
    Trace T own Inv r A P p p2 := by
  obtain ⟨d, h1, _, h3, h4, h5, h6⟩ := h
  obtain ⟨e, g1, g2, g3, g4, g5, g6⟩ := h'
  have hnew : ∀ x, x ∈ e → T.isDone p.1 x = false ∧ x ∉ d := by
    intro x hx
    have := (g4 x hx).2.1
    rw [h5] at this
    simpa using this
  refine ⟨d ++ e, by rw [g1, h1, List.append_assoc], g2, ?_, ?_, ?_, ?_⟩
  · rw [List.nodup_append]
    exact ⟨h3, g3, fun a ha b hb hab => (hnew b hb).2 (hab ▸ ha)⟩
  · intro x hx
    rcases List.mem_append.1 hx with hx | hx
    · exact h4 x hx
    · exact ⟨(g4 x hx).1, (hnew x hx).1, (g4 x hx).2.2⟩
  · intro x
    rw [g5, h5, List.contains_append, Bool.or_assoc]
  · intro hr x hx o ho
    rcases List.mem_append.1 hx with hx | hx
    · rcases h6 hr x hx o ho with h | h
      · exact .inl h
      · exact .inr (h.append_right e)
    · rcases g6 hr x hx o ho with h | h
      · rw [h5, Bool.or_eq_true] at h
        rcases h with h | h
        · exact .inl h
        · exact .inr (Before.of_mem_append (by simpa using h) hx)
      · exact .inr (h.append_left d)

theorem Trace.done_mono {A : Bytes → Prop} {P : Bytes → Prop} {p p' : σ × List Bytes}
    (h : Trace T own Inv r A P p p') {x : Bytes} (hx : T.isDone p.1 x = true) :
    T.isDone p'.1 x = true := by
  obtain ⟨d, _, _, _, _, h5, _⟩ := h
  rw [h5, hx]; rfl

theorem Trace.inv {A : Bytes → Prop} {P : Bytes → Prop} {p p' : σ × List Bytes}
    (h : Trace T own Inv r A P p p') : Inv p'.1 := by
  obtain ⟨d, _, h2, _⟩ := h
  exact h2

/-- one action -/
theorem Trace.act (hT : T.LawfulOn own Inv) {A : Bytes → Prop} {P : Bytes → Prop} {sp : Bytes}
    {p p' : σ × List Bytes} (hi : Inv p.1) (hnd : T.isDone p.1 sp = false) (ha : A sp)
    (hP : P sp) (hown : r = true → ∀ o, o ∈ own sp → T.isDone p.1 o = true)
    (h : T.logged.act sp p = .ok p') :
    Trace T own Inv r A P p p' ∧ T.isDone p'.1 sp = true := by
  simp only [Trav.logged] at h
  cases hact : T.act sp p.1 with
  | error e => rw [hact] at h; cases h
  | ok s =>
    rw [hact] at h
    cases h
    have hd := hT.act_done sp p.1 s hi hact
    refine ⟨⟨[sp], rfl, hT.act_inv sp p.1 s hi hact, by simp, ?_, ?_, ?_⟩, ?_⟩
    · intro x hx
      rw [List.mem_singleton] at hx
      subst hx
      exact ⟨ha, hnd, hP⟩
    · intro x
      simp only
      rw [hd x, List.contains_cons, List.contains_nil, Bool.or_false, Bool.or_comm]
    · intro hr x hx o ho
      rw [List.mem_singleton] at hx
      subst hx
      exact .inl (hown hr o ho)
    · simp only
      rw [hd sp]; simp

/-- the sequential part: visiting a list of owners one after the other -/
theorem visitAll_trace {f : Bytes → σ × List Bytes → Except Err (σ × List Bytes)} {A : Bytes → Prop}
    (hf : ∀ o p p', Inv p.1 → f o p = .ok p' →
      Trace T own Inv r A (Reach own o) p p' ∧ T.isDone p'.1 o = true) :
    ∀ (os : List Bytes) (p p' : σ × List Bytes), Inv p.1 → visitAll f os p = .ok p' →
      Trace T own Inv r A (fun x => ∃ o, o ∈ os ∧ Reach own o x) p p' ∧
      ∀ o, o ∈ os → T.isDone p'.1 o = true
  | [], p, p', hi, h => by
    simp only [visitAll] at h
    cases h
    exact ⟨Trace.refl hi, by simp⟩
  | o :: os, p, p', hi, h => by
    simp only [visitAll] at h
    cases hfo : f o p with
    | error e => rw [hfo] at h; cases h
    | ok p1 =>
      rw [hfo] at h
      obtain ⟨t1, d1⟩ := hf o p p1 hi hfo
      obtain ⟨t2, d2⟩ := visitAll_trace hf os p1 p' t1.inv h
      refine ⟨Trace.trans (t1.mono (fun _ h => h) fun x hx => ⟨o, by simp, hx⟩)
        (t2.mono (fun _ h => h) fun x ⟨o', ho', hx⟩ => ⟨o', by simp [ho'], hx⟩), ?_⟩
      intro o' ho'
      rcases List.mem_cons.1 ho' with rfl | ho'
      · exact t2.done_mono d1
      · exact d2 o' ho'

/-- **Main invariant.** A successful logged traversal is a `Trace`, and its root ends up done. -/
theorem visit_trace (hT : T.LawfulOn own Inv) : ∀ (fuel : Nat) (avail : List Bytes) (sp : Bytes)
    (p p' : σ × List Bytes), Inv p.1 → visit T.logged r fuel avail sp p = .ok p' →
      Trace T own Inv r (· ∈ avail) (Reach own sp) p p' ∧ T.isDone p'.1 sp = true
  | 0, _, _, _, _, _, h => by simp [visit] at h
  | fuel+1, avail, sp, p, p', hi, h => by
    simp only [visit] at h
    have hd : T.logged.isDone p sp = T.isDone p.1 sp := rfl
    have ho : T.logged.owners p sp = T.owners p.1 sp := rfl
    rw [hd, ho] at h
    split at h
    · cases h
      exact ⟨Trace.refl hi, by assumption⟩
    rename_i hnd
    have hnd : T.isDone p.1 sp = false := by simpa using hnd
    split at h
    · cases h
    rename_i hav
    have hav : sp ∈ avail := by simpa using hav
    cases hos : T.owners p.1 sp with
    | error e => rw [hos] at h; cases h
    | ok os =>
      rw [hos] at h
      have hown := hT.owners_eq p.1 sp os hi hos
      simp only at h
      by_cases hr : r = true
      · rw [if_pos hr] at h
        cases hv : visitAll (visit T.logged r fuel (avail.filter (· != sp))) os p with
        | error e => rw [hv] at h; cases h
        | ok p1 =>
          rw [hv] at h
          simp only at h
          obtain ⟨t1, d1⟩ := visitAll_trace
            (fun o q q' hq hv => visit_trace hT fuel (avail.filter (· != sp)) o q q' hq hv)
            os p p1 hi hv
          have hnd1 : T.isDone p1.1 sp = false := by
            obtain ⟨d, _, _, _, h4, h5, _⟩ := t1
            rw [h5, hnd, Bool.false_or]
            cases hc : d.contains sp with
            | false => rfl
            | true =>
              have := (h4 sp (by simpa using hc)).1
              simp at this
          obtain ⟨t2, d2⟩ := Trace.act (A := (· ∈ avail)) (P := Reach own sp) hT t1.inv hnd1 hav (Reach.refl sp)
            (fun _ o ho => d1 o ((hown o).2 ho)) h
          exact ⟨Trace.trans (t1.mono (fun x hx => (List.mem_filter.1 hx).1)
            fun x ⟨o, ho, hx⟩ => Reach.step ((hown o).1 ho) hx) t2, d2⟩
      · rw [if_neg hr] at h
        exact Trace.act hT hi hnd hav (Reach.refl sp) (fun h => absurd h hr) h

/-! ## invariants along the traversal -/

theorem logged_act_inv {sp : Bytes} {p p' : σ × List Bytes} (h : T.logged.act sp p = .ok p') :
    ∃ s, T.act sp p.1 = .ok s ∧ p' = (s, p.2 ++ [sp]) := by
  simp only [Trav.logged] at h
  cases hact : T.act sp p.1 with
  | error e => rw [hact] at h; cases h
  | ok s => rw [hact] at h; cases h; exact ⟨s, rfl, rfl⟩


/-- inversion of one level of a successful logged traversal -/
theorem visit_succ_inv {fuel : Nat} {avail : List Bytes} {sp : Bytes} {p p' : σ × List Bytes}
    (h : visit T.logged r (fuel+1) avail sp p = .ok p') :
    (T.isDone p.1 sp = true ∧ p' = p) ∨
    (T.isDone p.1 sp = false ∧ sp ∈ avail ∧ ∃ os p1, T.owners p.1 sp = .ok os ∧
      (if r then visitAll (visit T.logged r fuel (avail.filter (· != sp))) os p = .ok p1 else p1 = p) ∧
      T.logged.act sp p1 = .ok p') := by
  simp only [visit] at h
  have hd : T.logged.isDone p sp = T.isDone p.1 sp := rfl
  have ho : T.logged.owners p sp = T.owners p.1 sp := rfl
  rw [hd, ho] at h
  split at h
  · cases h
    exact .inl ⟨by assumption, rfl⟩
  rename_i hnd
  have hnd : T.isDone p.1 sp = false := by simpa using hnd
  split at h
  · cases h
  rename_i hav
  have hav : sp ∈ avail := by simpa using hav
  cases hos : T.owners p.1 sp with
  | error e => rw [hos] at h; cases h
  | ok os =>
    rw [hos] at h
    simp only at h
    refine .inr ⟨hnd, hav, os, ?_⟩
    by_cases hr : r = true
    · rw [if_pos hr] at h
      cases hv : visitAll (visit T.logged r fuel (avail.filter (· != sp))) os p with
      | error e => rw [hv] at h; cases h
      | ok p1 =>
        rw [hv] at h
        exact ⟨p1, rfl, by rw [if_pos hr], h⟩
    · rw [if_neg hr] at h
      exact ⟨p, rfl, by rw [if_neg hr], h⟩

theorem visitAll_preserves {f : Bytes → σ × List Bytes → Except Err (σ × List Bytes)}
    {Q : σ × List Bytes → Prop} :
    ∀ (os : List Bytes), (∀ o, o ∈ os → ∀ p p', Inv p.1 → Q p → f o p = .ok p' → Inv p'.1 ∧ Q p') →
      ∀ (p p' : σ × List Bytes), Inv p.1 → Q p → visitAll f os p = .ok p' → Inv p'.1 ∧ Q p'
  | [], _, p, p', hi, hq, h => by simp only [visitAll] at h; cases h; exact ⟨hi, hq⟩
  | o :: os, hf, p, p', hi, hq, h => by
    simp only [visitAll] at h
    cases hfo : f o p with
    | error e => rw [hfo] at h; cases h
    | ok p1 =>
      rw [hfo] at h
      obtain ⟨hi1, hq1⟩ := hf o List.mem_cons_self p p1 hi hq hfo
      exact visitAll_preserves os (fun o' ho' => hf o' (List.mem_cons_of_mem _ ho')) p1 p' hi1 hq1 h

/-- **Invariant principle.** A property of the logged state that every action preserves — where the
action may assume the invariant, that the stage is not done, that (recursive traversal) all its
owners are done, and that the stage satisfies `R`, a predicate true of the root and inherited by
owners (e.g. "upstream of the root") — holds at the end of a successful traversal. -/
theorem visit_preserves_on (hT : T.LawfulOn own Inv) {Q : σ × List Bytes → Prop} {R : Bytes → Prop}
    (hR : ∀ a o, R a → o ∈ own a → R o)
    (hQ : ∀ sp p p', R sp → Inv p.1 → Q p → T.isDone p.1 sp = false →
      (r = true → ∀ o, o ∈ own sp → T.isDone p.1 o = true) → T.logged.act sp p = .ok p' → Q p') :
    ∀ (fuel : Nat) (avail : List Bytes) (sp : Bytes) (p p' : σ × List Bytes), R sp → Inv p.1 → Q p →
      visit T.logged r fuel avail sp p = .ok p' → Q p'
  | 0, _, _, _, _, _, _, _, h => by simp [visit] at h
  | fuel+1, avail, sp, p, p', hr0, hi, hq, h => by
    rcases visit_succ_inv h with ⟨_, rfl⟩ | ⟨hnd, hav, os, p1, hos, hup, hact⟩
    · exact hq
    have hown := hT.owners_eq p.1 sp os hi hos
    by_cases hr : r = true
    · rw [if_pos hr] at hup
      obtain ⟨t1, d1⟩ := visitAll_trace
        (fun o q q' hq hv => visit_trace hT fuel (avail.filter (· != sp)) o q q' hq hv)
        os p p1 hi hup
      obtain ⟨_, hq1⟩ := visitAll_preserves (Q := Q) os
        (fun o ho q q' hqi hqq hv =>
          ⟨(visit_trace hT fuel (avail.filter (· != sp)) o q q' hqi hv).1.inv,
            visit_preserves_on hT hR hQ fuel (avail.filter (· != sp)) o q q'
              (hR sp o hr0 ((hown o).1 ho)) hqi hqq hv⟩)
        p p1 hi hq hup
      have hnd1 : T.isDone p1.1 sp = false := by
        obtain ⟨d, _, _, _, h4, h5, _⟩ := t1
        rw [h5, hnd, Bool.false_or]
        cases hc : d.contains sp with
        | false => rfl
        | true =>
          have := (h4 sp (by simpa using hc)).1
          simp at this
      exact hQ sp p1 p' hr0 t1.inv hq1 hnd1 (fun _ o ho => d1 o ((hown o).2 ho)) hact
    · rw [if_neg hr] at hup
      subst hup
      exact hQ sp p1 p' hr0 hi hq hnd (fun h => absurd h hr) hact

theorem visit_preserves (hT : T.LawfulOn own Inv) {Q : σ × List Bytes → Prop}
    (hQ : ∀ sp p p', Inv p.1 → Q p → T.isDone p.1 sp = false →
      (r = true → ∀ o, o ∈ own sp → T.isDone p.1 o = true) → T.logged.act sp p = .ok p' → Q p')
    (fuel : Nat) (avail : List Bytes) (sp : Bytes) (p p' : σ × List Bytes) (hi : Inv p.1) (hq : Q p)
    (h : visit T.logged r fuel avail sp p = .ok p') : Q p' :=
  visit_preserves_on (R := fun _ => True) hT (fun _ _ _ _ => trivial)
    (fun sp p p' _ => hQ sp p p') fuel avail sp p p' trivial hi hq h

/-! ## back to the traversal without the ghost log -/

theorem ok_of_map_fst {α β : Type} {x : Except Err (α × β)} {a : α} (h : x.map (·.1) = .ok a) :
    ∃ b, x = .ok (a, b) := by
  cases x with
  | error e => cases h
  | ok p =>
    obtain ⟨a', b⟩ := p
    simp only [Except.map, Except.ok.injEq] at h
    exact ⟨b, by rw [h]⟩

theorem visit_ok_logged {fuel : Nat} {avail : List Bytes} {sp : Bytes} {st st' : σ}
    (h : visit T r fuel avail sp st = .ok st') (l : List Bytes) :
    ∃ l', visit T.logged r fuel avail sp (st, l) = .ok (st', l') :=
  ok_of_map_fst ((visit_erase T r fuel avail sp st l).trans h)

theorem visitAll_ok_logged {fuel : Nat} {avail : List Bytes} {os : List Bytes} {st st' : σ}
    (h : visitAll (visit T r fuel avail) os st = .ok st') (l : List Bytes) :
    ∃ l', visitAll (visit T.logged r fuel avail) os (st, l) = .ok (st', l') :=
  ok_of_map_fst ((visitAll_erase (fun o st l => visit_erase T r fuel avail o st l) os st l).trans h)

/-- a successful traversal keeps the invariant, finishes its root and forgets nothing -/
theorem visit_ok (hT : T.LawfulOn own Inv) {fuel : Nat} {avail : List Bytes} {sp : Bytes} {st st' : σ}
    (hi : Inv st) (h : visit T r fuel avail sp st = .ok st') :
    Inv st' ∧ T.isDone st' sp = true ∧ ∀ x, T.isDone st x = true → T.isDone st' x = true := by
  obtain ⟨l', hl⟩ := visit_ok_logged h []
  obtain ⟨t, d⟩ := visit_trace hT fuel avail sp (st, []) (st', l') hi hl
  exact ⟨t.inv, d, fun x hx => t.done_mono hx⟩

theorem visitAll_ok (hT : T.LawfulOn own Inv) {fuel : Nat} {avail : List Bytes} {os : List Bytes}
    {st st' : σ} (hi : Inv st) (h : visitAll (visit T r fuel avail) os st = .ok st') :
    Inv st' ∧ ∀ o, o ∈ os → T.isDone st' o = true := by
  obtain ⟨l', hl⟩ := visitAll_ok_logged h []
  obtain ⟨t, d⟩ := visitAll_trace (fun o q q' hq hv => visit_trace hT fuel avail o q q' hq hv)
    os (st, []) (st', l') hi hl
  exact ⟨t.inv, d⟩

theorem visitAll_congr_on {f g : Bytes → σ → Except Err σ} {Inv : σ → Prop}
    (hfg : ∀ o st, Inv st → f o st = g o st) (hg : ∀ o st st', Inv st → g o st = .ok st' → Inv st') :
    ∀ (os : List Bytes) (st : σ), Inv st → visitAll f os st = visitAll g os st
  | [], _, _ => rfl
  | o :: os, st, hi => by
    simp only [visitAll]
    rw [hfg o st hi]
    cases hgo : g o st with
    | error e => rfl
    | ok st1 => exact visitAll_congr_on hfg hg os st1 (hg o st st1 hi hgo)

/-- the guard "all owners are done" never fires in a recursive traversal -/
theorem visit_guarded_eq (hT : T.LawfulOn own Inv) : ∀ (fuel : Nat) (avail : List Bytes) (sp : Bytes)
    (st : σ), Inv st →
      visit (T.guarded (ownersDone T own)) true fuel avail sp st = visit T true fuel avail sp st
  | 0, _, _, _, _ => rfl
  | fuel+1, avail, sp, st, hi => by
    simp only [visit]
    have e1 : (T.guarded (ownersDone T own)).isDone = T.isDone := rfl
    have e2 : (T.guarded (ownersDone T own)).owners = T.owners := rfl
    rw [e1, e2]
    split
    · rfl
    split
    · rfl
    cases hos : T.owners st sp with
    | error e => rfl
    | ok os =>
      have hown := hT.owners_eq st sp os hi hos
      simp only [if_true]
      rw [visitAll_congr_on (Inv := Inv)
        (fun o s hs => visit_guarded_eq hT fuel (avail.filter (· != sp)) o s hs)
        (fun o s s' hs h => (visit_ok hT hs h).1) os st hi]
      cases hv : visitAll (visit T true fuel (avail.filter (· != sp))) os st with
      | error e => rfl
      | ok st1 =>
        simp only
        have hd := (visitAll_ok hT hi hv).2
        have : ownersDone T own sp st1 = true := by
          simp only [ownersDone, List.all_eq_true]
          exact fun o ho => hd o ((hown o).2 ho)
        simp only [Trav.guarded, this, if_true]

/-- the logged traversal obeys the same laws (the invariant ignores the log) -/
theorem Trav.LawfulOn.logged (hT : T.LawfulOn own Inv) :
    T.logged.LawfulOn own (fun p => Inv p.1) where
  owners_eq := fun p sp os hi h => hT.owners_eq p.1 sp os hi h
  act_done := by
    intro sp p p' hi h x
    simp only [Trav.logged] at h ⊢
    cases hact : T.act sp p.1 with
    | error e => rw [hact] at h; cases h
    | ok s => rw [hact] at h; cases h; exact hT.act_done sp p.1 s hi hact x
  act_inv := by
    intro sp p p' hi h
    simp only [Trav.logged] at h
    cases hact : T.act sp p.1 with
    | error e => rw [hact] at h; cases h
    | ok s => rw [hact] at h; cases h; exact hT.act_inv sp p.1 s hi hact

/-! ## the fuel is never what stops the traversal -/

theorem visitAll_congr {f g : Bytes → σ → Except Err σ} (hfg : ∀ o st, f o st = g o st) :
    ∀ (os : List Bytes) (st : σ), visitAll f os st = visitAll g os st :=
  fun os st => visitAll_congr_on (Inv := fun _ => True) (fun o st _ => hfg o st)
    (fun _ _ _ _ _ => trivial) os st trivial

/-- with more fuel than available stages the result does not depend on the fuel: the
`.error .cycle` of the fuel-0 case is unreachable -/
theorem visit_fuel_irrelevant (T : Trav σ) (r : Bool) : ∀ (fuel fuel' : Nat) (avail : List Bytes)
    (sp : Bytes) (st : σ), avail.length < fuel → avail.length < fuel' →
      visit T r fuel avail sp st = visit T r fuel' avail sp st
  | 0, _, _, _, _, h, _ => by omega
  | _+1, 0, _, _, _, _, h => by omega
  | fuel+1, fuel'+1, avail, sp, st, h, h' => by
    simp only [visit]
    split
    · rfl
    split
    · rfl
    rename_i hav
    have hav : sp ∈ avail := by simpa using hav
    have hlt : (avail.filter (· != sp)).length < avail.length := by
      have h1 := List.length_filter_lt_length_iff_exists (p := (· != sp)) (l := avail)
      exact h1.2 ⟨sp, hav, by simp⟩
    cases T.owners st sp with
    | error e => rfl
    | ok os =>
      simp only
      rw [visitAll_congr (fun o s => visit_fuel_irrelevant T r fuel fuel' (avail.filter (· != sp)) o s
        (by omega) (by omega))]

/-! ## cycles -/

/-- a duplicate-free log in which owners precede their dependants contains no stage on a cycle -/
theorem no_cycle_in_log {own : Bytes → List Bytes} {l : List Bytes} (hn : l.Nodup)
    (htop : ∀ x, x ∈ l → ∀ o, o ∈ own x → Before l o x) {x y : Bytes} (hx : x ∈ l)
    (hxy : y ∈ own x) (hyx : Reach own y x) : False := by
  have hb := htop x hx y hxy
  rcases reach_before hn htop hyx hb.mem_left with rfl | h
  · exact Before.irrefl hn hb
  · exact Before.asymm hn hb h

theorem reach_mem_log {own : Bytes → List Bytes} {l : List Bytes} (hn : l.Nodup)
    (htop : ∀ x, x ∈ l → ∀ o, o ∈ own x → Before l o x) {a b : Bytes} (h : Reach own a b)
    (ha : a ∈ l) : b ∈ l := by
  rcases reach_before hn htop h ha with rfl | h
  · exact ha
  · exact h.mem_left

/-! ## command level: one traversal per target, shared memo, fresh recursion stack -/

section Cmd
variable {κ : Type}

/-- `perTarget` on states carrying the ghost log -/
def perTargetLogged (f : Bytes → World κ × List Bytes → Except Err (World κ × List Bytes)) :
    List Bytes → World κ × List Bytes → Except Err (World κ × List Bytes)
  | [], p => .ok p
  | t :: r, p =>
    if (alookup p.1.idx t).isNone then .error .unknownStage else
    match f t p with
    | .error e => .error e
    | .ok p' => perTargetLogged f r p'

theorem perTarget_eq_visitAll (f : Bytes → World κ → Except Err (World κ)) : ∀ (ts : List Bytes) (w : World κ),
    perTarget f ts w =
      visitAll (fun t w => if (alookup w.idx t).isNone then .error .unknownStage else f t w) ts w
  | [], _ => rfl
  | t :: r, w => by
    simp only [perTarget, visitAll]
    split
    · rfl
    · cases f t w with
      | error e => rfl
      | ok w' => exact perTarget_eq_visitAll f r w'

theorem perTargetLogged_eq_visitAll (f : Bytes → World κ × List Bytes → Except Err (World κ × List Bytes)) :
    ∀ (ts : List Bytes) (p : World κ × List Bytes),
    perTargetLogged f ts p =
      visitAll (fun t p => if (alookup p.1.idx t).isNone then .error .unknownStage else f t p) ts p
  | [], _ => rfl
  | t :: r, p => by
    simp only [perTargetLogged, visitAll]
    split
    · rfl
    · cases f t p with
      | error e => rfl
      | ok p' => exact perTargetLogged_eq_visitAll f r p'

theorem perTargetLogged_erase {fL : Bytes → World κ × List Bytes → Except Err (World κ × List Bytes)}
    {f : Bytes → World κ → Except Err (World κ)} (h : ∀ t w l, (fL t (w, l)).map (·.1) = f t w)
    (ts : List Bytes) (w : World κ) (l : List Bytes) :
    (perTargetLogged fL ts (w, l)).map (·.1) = perTarget f ts w := by
  rw [perTargetLogged_eq_visitAll, perTarget_eq_visitAll]
  refine visitAll_erase (fun t w l => ?_) ts w l
  simp only
  split
  · rfl
  · exact h t w l

variable {T : Trav (World κ)} {own : Bytes → List Bytes} {Inv : World κ → Prop} {r : Bool}

/-- the whole command is one `Trace`: the targets play the role of the owner list -/
theorem perTarget_trace (hT : T.LawfulOn own Inv) (F : World κ → Nat) (A : World κ → List Bytes)
    (ts : List Bytes) (p p' : World κ × List Bytes) (hi : Inv p.1)
    (h : perTargetLogged (fun t p => visit T.logged r (F p.1) (A p.1) t p) ts p = .ok p') :
    Trace T own Inv r (fun _ => True) (fun x => ∃ t, t ∈ ts ∧ Reach own t x) p p' ∧
      ∀ t, t ∈ ts → T.isDone p'.1 t = true := by
  rw [perTargetLogged_eq_visitAll] at h
  refine visitAll_trace (fun o q q' hq hv => ?_) ts p p' hi h
  split at hv
  · cases hv
  · obtain ⟨t, d⟩ := visit_trace hT _ _ o q q' hq hv
    exact ⟨t.mono (fun _ _ => trivial) (fun _ h => h), d⟩

/-- invariant principle for a whole command; `R` = "upstream of some target" -/
theorem perTarget_preserves (hT : T.LawfulOn own Inv) (F : World κ → Nat) (A : World κ → List Bytes)
    (ts : List Bytes) {Q : World κ × List Bytes → Prop}
    (hQ : ∀ sp p p', (∃ t, t ∈ ts ∧ Reach own t sp) → Inv p.1 → Q p → T.isDone p.1 sp = false →
      (r = true → ∀ o, o ∈ own sp → T.isDone p.1 o = true) → T.logged.act sp p = .ok p' → Q p')
    (p p' : World κ × List Bytes) (hi : Inv p.1) (hq : Q p)
    (h : perTargetLogged (fun t p => visit T.logged r (F p.1) (A p.1) t p) ts p = .ok p') : Q p' := by
  rw [perTargetLogged_eq_visitAll] at h
  refine (visitAll_preserves (Inv := Inv) (Q := Q) ts (fun o ho q q' hqi hqq hv => ?_) p p' hi hq h).2
  split at hv
  · cases hv
  · exact ⟨(visit_trace hT _ _ o q q' hqi hv).1.inv,
      visit_preserves_on (R := fun x => ∃ t, t ∈ ts ∧ Reach own t x) hT
        (fun a o' ⟨t, ht, hr⟩ ho' => ⟨t, ht, hr.trans (.step ho' (.refl _))⟩)
        hQ _ _ o q q' ⟨o, ho, .refl _⟩ hqi hqq hv⟩

end Cmd

end Dud
