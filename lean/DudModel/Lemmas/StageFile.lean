import DudModel.StageFile
import DudModel.Lemmas.Owner
/-!
# Lemmas for C17, second part

1. `sortArts` as a canonical form (sorted, permutation-invariant, commutes with path-preserving maps).
2. `filepath.Clean` is idempotent.
3. `strings.TrimSpace` is idempotent.
4. The stage-file conversions `toDoc` / `fromDoc`.
-/
namespace Dud

/-! ## 1. `sortArts` -/

theorem bytes_lt_of_not (a b : Bytes) (h1 : ¬ a < b) (h2 : a ≠ b) : b < a := by
  rcases List.le_iff_lt_or_eq.1 (List.not_lt.1 h1) with h | h
  · exact h
  · exact absurd h.symm h2

theorem mem_insertArt' {c y : Art} : ∀ {l : List Art}, y ∈ insertArt c l → y = c ∨ y ∈ l
  | [], h => by simpa [insertArt] using h
  | x :: xs, h => by
    simp only [insertArt] at h
    split at h
    · rcases List.mem_cons.1 h with h | h
      · exact Or.inl h
      · exact Or.inr (List.mem_cons_of_mem _ h)
    · split at h
      · rcases List.mem_cons.1 h with h | h
        · exact Or.inl h
        · exact Or.inr h
      · rcases List.mem_cons.1 h with h | h
        · exact Or.inr (by simp [h])
        · rcases mem_insertArt' h with h | h
          · exact Or.inl h
          · exact Or.inr (List.mem_cons_of_mem _ h)

theorem insertArt_sorted (c : Art) : ∀ {l : List Art}, ArtSorted l → ArtSorted (insertArt c l)
  | [], _ => by simp [insertArt, ArtSorted]
  | x :: xs, h => by
    have hx : ∀ y ∈ xs, x.path < y.path := (List.pairwise_cons.1 h).1
    have hxs : ArtSorted xs := (List.pairwise_cons.1 h).2
    simp only [insertArt]
    split
    · next heq =>
      have heq' : c.path = x.path := by simpa using heq
      exact List.pairwise_cons.2 ⟨fun y hy => heq' ▸ hx y hy, hxs⟩
    · next hne =>
      have hne' : c.path ≠ x.path := by simpa using hne
      split
      · next hlt =>
        have hlt' : c.path < x.path := by simpa using hlt
        refine List.pairwise_cons.2 ⟨?_, h⟩
        intro y hy
        rcases List.mem_cons.1 hy with rfl | hy
        · exact hlt'
        · exact List.lt_trans hlt' (hx y hy)
      · next hnlt =>
        have hgt : x.path < c.path := bytes_lt_of_not _ _ (by simpa using hnlt) hne'
        refine List.pairwise_cons.2 ⟨?_, insertArt_sorted c hxs⟩
        intro y hy
        rcases mem_insertArt' hy with rfl | hy
        · exact hgt
        · exact hx y hy

theorem insertArt_perm (c : Art) : ∀ {l : List Art}, (∀ y ∈ l, c.path ≠ y.path) →
    (insertArt c l).Perm (c :: l)
  | [], _ => by simp [insertArt]
  | x :: xs, h => by
    have hne : c.path ≠ x.path := h x (by simp)
    simp only [insertArt, beq_iff_eq, hne, if_false]
    split
    · exact List.Perm.refl _
    · exact ((insertArt_perm c (fun y hy => h y (by simp [hy]))).cons x).trans
        (List.Perm.swap c x xs)

theorem sortArts_cons (c : Art) (l : List Art) : sortArts (c :: l) = insertArt c (sortArts l) := rfl

theorem sortArts_sorted : ∀ (l : List Art), ArtSorted (sortArts l)
  | [] => by simp [sortArts, ArtSorted]
  | c :: cs => by rw [sortArts_cons]; exact insertArt_sorted c (sortArts_sorted cs)

theorem sortArts_perm_self : ∀ (l : List Art), (l.map (·.path)).Nodup → (sortArts l).Perm l
  | [], _ => by simp [sortArts]
  | c :: cs, h => by
    have hnd : c.path ∉ cs.map (·.path) ∧ (cs.map (·.path)).Nodup :=
      List.nodup_cons.1 (by rw [List.map_cons] at h; exact h)
    have ih := sortArts_perm_self cs hnd.2
    rw [sortArts_cons]
    refine (insertArt_perm c ?_).trans (ih.cons c)
    intro y hy heq
    exact hnd.1 (List.mem_map.2 ⟨y, ih.mem_iff.1 hy, heq.symm⟩)

/-- on maps (one entry per path) `sortArts` does not depend on the order of its input -/
theorem sortArts_perm {l1 l2 : List Art} (hp : l1.Perm l2) (hnd : (l1.map (·.path)).Nodup) :
    sortArts l1 = sortArts l2 := by
  have hnd2 : (l2.map (·.path)).Nodup := (hp.map _).nodup_iff.1 hnd
  have hperm : (sortArts l1).Perm (sortArts l2) :=
    ((sortArts_perm_self l1 hnd).trans hp).trans (sortArts_perm_self l2 hnd2).symm
  refine List.Perm.eq_of_pairwise ?_ (sortArts_sorted l1) (sortArts_sorted l2) hperm
  intro a b _ _ hab hba
  exact absurd hba (List.lt_asymm hab)

/-- a sorted list is its own canonical form -/
theorem sortArts_of_sorted : ∀ {l : List Art}, ArtSorted l → sortArts l = l
  | [], _ => rfl
  | x :: xs, h => by
    have hx : ∀ y ∈ xs, x.path < y.path := (List.pairwise_cons.1 h).1
    rw [sortArts_cons, sortArts_of_sorted (List.pairwise_cons.1 h).2]
    cases xs with
    | nil => rfl
    | cons y ys =>
      have hlt : x.path < y.path := hx y (by simp)
      have hne : x.path ≠ y.path := fun e => List.lt_irrefl _ (e ▸ hlt)
      simp [insertArt, hne, hlt]

theorem ArtSorted.nodup {l : List Art} (h : ArtSorted l) : (l.map (·.path)).Nodup := by
  rw [List.Nodup, List.pairwise_map]
  refine h.imp ?_
  intro a b hab e
  rw [e] at hab
  exact List.lt_irrefl _ hab

theorem sortArts_idem (l : List Art) : sortArts (sortArts l) = sortArts l :=
  sortArts_of_sorted (sortArts_sorted l)

theorem mem_of_mem_sortArts' {a : Art} : ∀ {l : List Art}, a ∈ sortArts l → a ∈ l
  | [], h => by simp [sortArts] at h
  | c :: cs, h => by
    rw [sortArts_cons] at h
    rcases mem_insertArt' h with rfl | h
    · simp
    · exact List.mem_cons_of_mem _ (mem_of_mem_sortArts' h)

/-- sorting commutes with maps that keep the path -/
theorem insertArt_map (g : Art → Art) (hg : ∀ a, (g a).path = a.path) (c : Art) :
    ∀ (l : List Art), insertArt (g c) (l.map g) = (insertArt c l).map g
  | [] => rfl
  | x :: xs => by
    simp only [List.map_cons, insertArt, hg]
    split
    · simp
    · split
      · simp
      · simp [insertArt_map g hg c xs]

theorem sortArts_map (g : Art → Art) (hg : ∀ a, (g a).path = a.path) :
    ∀ (l : List Art), sortArts (l.map g) = (sortArts l).map g
  | [] => rfl
  | c :: cs => by
    rw [List.map_cons, sortArts_cons, sortArts_cons, sortArts_map g hg cs, insertArt_map g hg]

/-! the same sort on definition artifacts: `(sortArts l).map Art.defArt` only depends on
`l.map Art.defArt` -/

def insertDef (a : GoJson.DefArt) : List GoJson.DefArt → List GoJson.DefArt
  | [] => [a]
  | x :: xs => if a.path == x.path then a :: xs
               else if decide (a.path < x.path) then a :: x :: xs
               else x :: insertDef a xs
def sortDef (as : List GoJson.DefArt) : List GoJson.DefArt := as.foldr insertDef []

theorem insertArt_defArt (c : Art) : ∀ (l : List Art),
    (insertArt c l).map Art.defArt = insertDef c.defArt (l.map Art.defArt)
  | [] => rfl
  | x :: xs => by
    simp only [List.map_cons, insertArt, insertDef, Art.defArt]
    split
    · simp [Art.defArt]
    · split
      · simp [Art.defArt]
      · have := insertArt_defArt c xs
        simp only [Art.defArt] at this
        simp [Art.defArt, this]

theorem sortArts_defArt : ∀ (l : List Art), (sortArts l).map Art.defArt = sortDef (l.map Art.defArt)
  | [] => rfl
  | c :: cs => by
    rw [sortArts_cons, insertArt_defArt, sortArts_defArt cs]; rfl

/-! ## 2. `filepath.Clean` is idempotent -/

open Path

/-- the shape of a normalised component list, reversed (as the accumulator of `normAux` holds it):
real components on top of a block of leading ".." (none if rooted) -/
def NormdRev (rooted : Bool) (acc : List Bytes) : Prop :=
  ∃ k gs, acc = gs ++ List.replicate k dotdot ∧ (∀ g ∈ gs, GoodComp g) ∧ (rooted = true → k = 0)

theorem goodComp_ne_dotdot {g : Bytes} (h : GoodComp g) : g ≠ dotdot := h.2.2.1

theorem normAux_normd (rooted : Bool) : ∀ (cs acc : List Bytes), NormdRev rooted acc →
    (∀ c ∈ cs, slash ∉ c) → NormdRev rooted (normAux rooted acc cs).reverse
  | [], acc, h, _ => by simpa [normAux] using h
  | c :: cs, acc, h, hc => by
    have hcs : ∀ c ∈ cs, slash ∉ c := fun x hx => hc x (by simp [hx])
    obtain ⟨k, gs, hacc, hgs, hk⟩ := h
    unfold normAux
    split
    · exact normAux_normd rooted cs acc ⟨k, gs, hacc, hgs, hk⟩ hcs
    · rename_i h1
      have h1' : c ≠ [] ∧ c ≠ [dot] := by simpa using h1
      split
      · rename_i hdd
        split
        · split
          · exact normAux_normd rooted cs [] ⟨0, [], rfl, by simp, fun _ => rfl⟩ hcs
          · rename_i hr
            exact normAux_normd rooted cs [dotdot] ⟨1, [], rfl, by simp, fun e => absurd e hr⟩ hcs
        · rename_i a as
          split
          · rename_i ha
            have ha : a = dotdot := by simpa using ha
            -- the top of the accumulator is "..": there are no real components
            cases gs with
            | nil =>
              simp only [List.nil_append] at hacc
              refine normAux_normd rooted cs (dotdot :: a :: as) ⟨k + 1, [], ?_, by simp, ?_⟩ hcs
              · rw [hacc]; simp [List.replicate_succ]
              · intro hr
                have := hk hr
                subst this
                simp at hacc
            | cons g gs' =>
              simp only [List.cons_append, List.cons.injEq] at hacc
              exact absurd (hacc.1.symm.trans ha).symm.symm (by
                intro e; exact goodComp_ne_dotdot (hgs g (by simp)) (by rw [← hacc.1]; exact ha))
          · rename_i ha
            have ha : a ≠ dotdot := by simpa using ha
            cases gs with
            | nil =>
              simp only [List.nil_append] at hacc
              cases k with
              | zero => simp at hacc
              | succ k' =>
                rw [List.replicate_succ] at hacc
                exact absurd (List.cons.inj hacc).1 ha
            | cons g gs' =>
              simp only [List.cons_append, List.cons.injEq] at hacc
              exact normAux_normd rooted cs as
                ⟨k, gs', hacc.2, fun x hx => hgs x (by simp [hx]), hk⟩ hcs
      · rename_i hdd
        have hdd : c ≠ dotdot := by simpa using hdd
        refine normAux_normd rooted cs (c :: acc) ⟨k, c :: gs, by simp [hacc], ?_, hk⟩ hcs
        intro x hx
        rcases List.mem_cons.1 hx with rfl | hx
        · exact ⟨h1'.1, h1'.2, hdd, hc _ (by simp)⟩
        · exact hgs x hx

theorem goodComp_dotdot_flags : dotdot ≠ ([] : Bytes) ∧ dotdot ≠ [dot] ∧ slash ∉ dotdot := by decide

theorem normAux_dd_nil (cs : List Bytes) :
    normAux false [] (dotdot :: cs) = normAux false [dotdot] cs := by
  have h1 : ¬ (dotdot = ([] : Bytes) ∨ dotdot = [dot]) := by decide
  simp [normAux, h1]

theorem normAux_dd_dd (acc cs : List Bytes) :
    normAux false (dotdot :: acc) (dotdot :: cs) = normAux false (dotdot :: dotdot :: acc) cs := by
  have h1 : ¬ (dotdot = ([] : Bytes) ∨ dotdot = [dot]) := by decide
  simp [normAux, h1]

/-- on a block of ".." followed by real components the (unrooted) normaliser changes nothing -/
theorem normAux_dotdots (gs : List Bytes) (hgs : ∀ g ∈ gs, GoodComp g) : ∀ (k j : Nat),
    normAux false (List.replicate j dotdot) (List.replicate k dotdot ++ gs) =
      List.replicate (j + k) dotdot ++ gs
  | 0, j => by
    simp only [List.replicate_zero, List.nil_append, Nat.add_zero]
    rw [normAux_good false gs _ hgs, List.reverse_replicate]
  | k+1, j => by
    rw [List.replicate_succ, List.cons_append]
    cases j with
    | zero =>
      rw [List.replicate_zero, normAux_dd_nil]
      have := normAux_dotdots gs hgs k 1
      simp only [List.replicate_one] at this
      rw [this]
      have : 1 + k = 0 + (k + 1) := by omega
      rw [this]
    | succ j' =>
      rw [List.replicate_succ, normAux_dd_dd]
      have := normAux_dotdots gs hgs k (j' + 2)
      simp only [List.replicate_succ] at this
      rw [this]
      have : j' + 2 + k = j' + 1 + (k + 1) := by omega
      rw [this]

theorem normAux_fix {rooted : Bool} {cs : List Bytes} (h : NormdRev rooted cs.reverse) :
    normAux rooted [] cs = cs := by
  obtain ⟨k, gs, hcs, hgs, hk⟩ := h
  have hcs' : cs = List.replicate k dotdot ++ gs.reverse := by
    have := congrArg List.reverse hcs
    simpa using this
  have hg' : ∀ g ∈ gs.reverse, GoodComp g := fun g hg => hgs g (List.mem_reverse.1 hg)
  cases rooted with
  | true =>
    have := hk rfl
    subst this
    simp only [List.replicate_zero, List.nil_append] at hcs'
    rw [hcs', normAux_good true _ _ hg']; rfl
  | false =>
    have := normAux_dotdots gs.reverse hg' k 0
    simp only [List.replicate_zero, Nat.zero_add] at this
    rw [hcs', this]

theorem NormdRev.noslash {rooted : Bool} {cs : List Bytes} (h : NormdRev rooted cs.reverse) :
    ∀ c ∈ cs, c ≠ [] ∧ slash ∉ c := by
  obtain ⟨k, gs, hcs, hgs, _⟩ := h
  intro c hc
  have : c ∈ gs ++ List.replicate k dotdot := by rw [← hcs]; exact List.mem_reverse.2 hc
  rcases List.mem_append.1 this with h | h
  · exact ⟨(hgs c h).1, (hgs c h).noslash⟩
  · have := (List.mem_replicate.1 h).2
    subst this
    exact ⟨goodComp_dotdot_flags.1, goodComp_dotdot_flags.2.2⟩

theorem isAbs_intercalate' {cs : List Bytes} (hne : cs ≠ []) (h : ∀ c ∈ cs, c ≠ [] ∧ slash ∉ c) :
    isAbs (intercalate cs) = false := by
  cases cs with
  | nil => exact absurd rfl hne
  | cons x r =>
    have hx := h x (by simp)
    cases x with
    | nil => exact absurd rfl hx.1
    | cons b x =>
      have hb : b ≠ slash := fun e => hx.2 (by simp [e])
      cases r with
      | nil => simp [isAbs, intercalate, hb]
      | cons y r => simp [isAbs, intercalate, hb]

theorem clean_render {rooted : Bool} {cs : List Bytes} (h : NormdRev rooted cs.reverse) :
    clean (render ⟨rooted, cs⟩) = render ⟨rooted, cs⟩ := by
  have hfix := normAux_fix h
  have hns := h.noslash
  have hsplit : cs ≠ [] → splitSlash (intercalate cs) = cs := fun hne =>
    splitSlash_intercalate hne fun c hc => (hns c hc).2
  cases rooted with
  | true =>
    have hr : render ⟨true, cs⟩ = slash :: intercalate cs := by simp [render]
    rw [hr]
    have habs : isAbs (slash :: intercalate cs) = true := by simp [isAbs]
    have hsp : splitSlash (slash :: intercalate cs) = [] :: splitSlash (intercalate cs) := by
      simp [splitSlash]
    simp only [clean, norm, parse, habs, hsp]
    have hskip : ∀ L, normAux true [] ([] :: L) = normAux true [] L := fun L => by simp [normAux]
    rw [hskip]
    by_cases hne : cs = []
    · subst hne
      have : normAux true [] (splitSlash (intercalate [])) = [] := by decide
      rw [this]; exact hr
    · rw [hsplit hne, hfix]; exact hr
  | false =>
    by_cases hne : cs = []
    · subst hne
      have : render ⟨false, []⟩ = [dot] := by simp [render]
      rw [this, clean_dot]
    · have hne' : cs.isEmpty = false := by cases cs <;> simp_all
      have hr : render ⟨false, cs⟩ = intercalate cs := by simp [render, hne']
      rw [hr]
      simp only [clean, norm, parse, isAbs_intercalate' hne hns, hsplit hne, hfix]
      exact hr

/-- `filepath.Clean(filepath.Clean(p)) = filepath.Clean(p)` -/
theorem clean_idem (s : Bytes) : clean (clean s) = clean s :=
  clean_render (normAux_normd (isAbs s) (splitSlash s) [] ⟨0, [], rfl, by simp, fun _ => rfl⟩
    (splitSlash_noslash_mem s))

theorem render_ne_nil (rooted : Bool) (cs : List Bytes) (hns : ∀ c ∈ cs, c ≠ [] ∧ slash ∉ c) :
    render ⟨rooted, cs⟩ ≠ [] := by
  simp only [render]
  split
  · simp
  · split
    · simp
    · rename_i he
      have hne : cs ≠ [] := by intro e; simp [e] at he
      cases cs with
      | nil => exact absurd rfl hne
      | cons x r =>
        have hx := (hns x (by simp)).1
        cases r with
        | nil => simpa [intercalate] using hx
        | cons y r => simp [intercalate, hx]

/-- `filepath.Clean` never returns the empty string -/
theorem clean_ne_nil (s : Bytes) : clean s ≠ [] :=
  render_ne_nil _ _ (normAux_normd (isAbs s) (splitSlash s) [] ⟨0, [], rfl, by simp, fun _ => rfl⟩
    (splitSlash_noslash_mem s)).noslash

/-! ## 3. `strings.TrimSpace` is idempotent -/

theorem stripOne_none_iff {ws : List Bytes} {b : Bytes} :
    stripOne ws b = none ↔ ∀ w ∈ ws, ¬ w <+: b := by
  simp only [stripOne, List.findSome?_eq_none_iff]
  constructor
  · intro h w hw hp
    have := h w hw
    rw [if_pos (List.isPrefixOf_iff_prefix.2 hp)] at this
    cases this
  · intro h w hw
    rw [if_neg (fun hp => h w hw (List.isPrefixOf_iff_prefix.1 hp))]

theorem stripOne_some {ws : List Bytes} {b r : Bytes} (h : stripOne ws b = some r) :
    ∃ w ∈ ws, b = w ++ r := by
  simp only [stripOne] at h
  obtain ⟨w, hw, h⟩ := List.exists_of_findSome?_eq_some h
  split at h
  · rename_i hp
    obtain ⟨t, ht⟩ := List.isPrefixOf_iff_prefix.1 hp
    refine ⟨w, hw, ?_⟩
    cases h
    rw [← ht]; simp
  · cases h

theorem trimLeftWith_fix {ws : List Bytes} {b : Bytes} (h : stripOne ws b = none) (n : Nat) :
    trimLeftWith ws n b = b := by
  cases n with
  | zero => rfl
  | succ n => simp [trimLeftWith, h]

/-- the result is a suffix of the input … -/
theorem trimLeftWith_suffix (ws : List Bytes) : ∀ (n : Nat) (b : Bytes),
    ∃ p, b = p ++ trimLeftWith ws n b
  | 0, b => ⟨[], rfl⟩
  | n+1, b => by
    simp only [trimLeftWith]
    cases h : stripOne ws b with
    | none => exact ⟨[], rfl⟩
    | some r =>
      obtain ⟨w, _, hb⟩ := stripOne_some h
      obtain ⟨p, hp⟩ := trimLeftWith_suffix ws n r
      exact ⟨w ++ p, by rw [hb, List.append_assoc, ← hp]⟩

/-- … from which nothing more can be stripped -/
theorem trimLeftWith_nopre {ws : List Bytes} (hws : ∀ w ∈ ws, w ≠ []) : ∀ (n : Nat) (b : Bytes),
    b.length ≤ n → stripOne ws (trimLeftWith ws n b) = none
  | 0, b, h => by
    have : b = [] := List.eq_nil_of_length_eq_zero (by omega)
    subst this
    rw [trimLeftWith, stripOne_none_iff]
    intro w hw hp
    exact hws w hw (List.prefix_nil.1 hp)
  | n+1, b, h => by
    simp only [trimLeftWith]
    cases hs : stripOne ws b with
    | none => exact hs
    | some r =>
      obtain ⟨w, hw, hb⟩ := stripOne_some hs
      have : 0 < w.length := List.length_pos_iff.2 (hws w hw)
      have hl : r.length ≤ n := by
        have := congrArg List.length hb
        simp at this; omega
      exact trimLeftWith_nopre hws n r hl

theorem wsSeqs_ne_nil : ∀ w ∈ wsSeqs, w ≠ [] := by decide
theorem wsSeqsRev_ne_nil : ∀ w ∈ wsSeqs.map List.reverse, w ≠ [] := by decide

theorem trimLeft_nopre (b : Bytes) : stripOne wsSeqs (trimLeft b) = none :=
  trimLeftWith_nopre wsSeqs_ne_nil _ _ (Nat.le_refl _)

theorem trimRight_prefix (b : Bytes) : trimRight b <+: b := by
  obtain ⟨p, hp⟩ := trimLeftWith_suffix (wsSeqs.map List.reverse) b.length b.reverse
  refine ⟨p.reverse, ?_⟩
  have := congrArg List.reverse hp
  simp only [List.reverse_reverse, List.reverse_append] at this
  rw [trimRight]; exact this.symm

theorem trimRight_nosuf (b : Bytes) :
    stripOne (wsSeqs.map List.reverse) (trimRight b).reverse = none := by
  rw [trimRight, List.reverse_reverse]
  exact trimLeftWith_nopre wsSeqsRev_ne_nil _ _ (by simp)

theorem trimRight_fix {b : Bytes} (h : stripOne (wsSeqs.map List.reverse) b.reverse = none) :
    trimRight b = b := by
  rw [trimRight, trimLeftWith_fix h, List.reverse_reverse]

/-- a trimmed string has no white space at either end … -/
theorem trimSpace_trimmed (b : Bytes) :
    stripOne wsSeqs (trimSpace b) = none ∧
    stripOne (wsSeqs.map List.reverse) (trimSpace b).reverse = none := by
  refine ⟨?_, trimRight_nosuf _⟩
  rw [stripOne_none_iff]
  intro w hw hp
  exact stripOne_none_iff.1 (trimLeft_nopre b) w hw (hp.trans (trimRight_prefix _))

/-- … and such a string is left alone -/
theorem trimSpace_fix {b : Bytes} (h1 : stripOne wsSeqs b = none)
    (h2 : stripOne (wsSeqs.map List.reverse) b.reverse = none) : trimSpace b = b := by
  rw [trimSpace, trimLeft, trimLeftWith_fix h1, trimRight_fix h2]

/-- `strings.TrimSpace(strings.TrimSpace(s)) = strings.TrimSpace(s)` -/
theorem trimSpace_idem (b : Bytes) : trimSpace (trimSpace b) = trimSpace b :=
  trimSpace_fix (trimSpace_trimmed b).1 (trimSpace_trimmed b).2

/-! ## 4. `toDoc` / `fromDoc` -/

theorem docArt_path (i : Bool) (e : Bytes × Option FileArt) : (docArt i e).path = clean e.1 := rfl

theorem docArt_artDoc_in {a : Art} (hp : clean a.path = a.path) (hs : a.skip = true) :
    docArt true (artDoc true a) = a := by
  cases a; simp_all [docArt, artDoc]

theorem docArt_artDoc_out {a : Art} (hp : clean a.path = a.path) :
    docArt false (artDoc false a) = a := by
  cases a; simp_all [docArt, artDoc]

theorem fromDoc_normal' (d : StageDoc) : NormalForm (fromDoc d) := by
  refine ⟨trimSpace_idem _, clean_idem _, ?_, ?_, sortArts_sorted _, sortArts_sorted _⟩
  · intro a ha
    have : a ∈ d.inputs.map (docArt true) ∨ a ∈ d.outputs.map (docArt false) := by
      rcases List.mem_append.1 ha with h | h
      · exact Or.inl (mem_of_mem_sortArts' h)
      · exact Or.inr (mem_of_mem_sortArts' h)
    rcases this with h | h <;>
    · obtain ⟨e, _, rfl⟩ := List.mem_map.1 h
      rw [docArt_path]; exact clean_idem _
  · intro a ha
    obtain ⟨e, _, rfl⟩ := List.mem_map.1 (mem_of_mem_sortArts' ha)
    rfl

theorem load_write_id' {stg : Stage} (h : NormalForm stg) : fromDoc (toDoc stg) = stg := by
  have hin : (stg.inputs.map (artDoc true)).map (docArt true) = stg.inputs := by
    rw [List.map_map]
    conv => rhs; rw [← List.map_id stg.inputs]
    apply List.map_congr_left
    intro a ha
    exact docArt_artDoc_in (h.pathsClean a (List.mem_append_left _ ha)) (h.inSkip a ha)
  have hout : (stg.outputs.map (artDoc false)).map (docArt false) = stg.outputs := by
    rw [List.map_map]
    conv => rhs; rw [← List.map_id stg.outputs]
    apply List.map_congr_left
    intro a ha
    exact docArt_artDoc_out (h.pathsClean a (List.mem_append_right _ ha))
  cases stg with
  | mk sum cmd wd inputs outputs =>
    simp only [fromDoc, toDoc] at hin hout ⊢
    rw [hin, hout, sortArts_of_sorted h.inSorted, sortArts_of_sorted h.outSorted]
    have h1 := h.cmdTrim
    have h2 := h.wdClean
    simp only at h1 h2
    rw [h1, h2]

/-- Go's maps have no order: under `KeysOK` the loaded stage does not depend on the order in which
the YAML mapping lists the artifacts, and no entry is lost -/
theorem fromDoc_perm' {d d' : StageDoc} (hs : d.sum = d'.sum) (hc : d.cmd = d'.cmd) (hw : d.wd = d'.wd)
    (hi : d.inputs.Perm d'.inputs) (ho : d.outputs.Perm d'.outputs)
    (hki : KeysOK d.inputs) (hko : KeysOK d.outputs) : fromDoc d = fromDoc d' := by
  have e1 : sortArts (d.inputs.map (docArt true)) = sortArts (d'.inputs.map (docArt true)) :=
    sortArts_perm (hi.map _) (by simpa [KeysOK, List.map_map, Function.comp_def, docArt_path] using hki)
  have e2 : sortArts (d.outputs.map (docArt false)) = sortArts (d'.outputs.map (docArt false)) :=
    sortArts_perm (ho.map _) (by simpa [KeysOK, List.map_map, Function.comp_def, docArt_path] using hko)
  simp only [fromDoc, hs, hc, hw, e1, e2]

theorem fromDoc_keeps_all {d : StageDoc} (hki : KeysOK d.inputs) (hko : KeysOK d.outputs) :
    (fromDoc d).inputs.Perm (d.inputs.map (docArt true)) ∧
    (fromDoc d).outputs.Perm (d.outputs.map (docArt false)) :=
  ⟨sortArts_perm_self _ (by simpa [KeysOK, List.map_map, Function.comp_def, docArt_path] using hki),
   sortArts_perm_self _ (by simpa [KeysOK, List.map_map, Function.comp_def, docArt_path] using hko)⟩

end Dud
