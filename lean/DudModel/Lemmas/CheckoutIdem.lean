import DudModel.World
/-!
# Helpers for the world-level idempotence of `dud checkout` (`Props/C15world.lean`)

Everything here is about ARBITRARY stores and workspaces (no `Good`, `Consistent`, `HoldsNode`,
`plain`, `sorted` hypothesis anywhere), imports only the model, and lives in the namespace
`Dud.CI`, so that it can be imported together with either family of lemma files.

* `Conf ctx strat s fuel n c` — "the node `n` is a checked-out copy of the child artifact `c`":
  the recursive description of the fixed points of `checkoutNode` (`conf_iff_fix`);
* `conf_of_checkout`: whatever a successful `checkoutNode` returns is `Conf` (over any previous
  entry);
* `conf_kept`: a `Conf` node stays `Conf` (for the first artifact) when it is successfully checked
  out over for ANY other artifact — two artifacts can be checked out over each other only if they
  agree wherever they meet;
* `confAt_write`: the same at the level of paths: writing the result of a successful checkout at
  ANY path `q` (above, below, equal to or apart from `p`) keeps "the entry at `p` is `Conf`";
* the world level: `checkoutArtW`, `checkoutArts`, `checkoutAct`; a simulation principle for
  `visit` / `perTarget` (`visit_sim`, `perTarget_sim`).
-/
namespace Dud.CI

variable {κ : Type}

/-! ## `alookup` / `setEntry` -/

theorem alookup_setEntry_ne : ∀ (es : List (Name × Node κ)) (x y : Name) (n : Node κ), x ≠ y →
    alookup (setEntry es x n) y = alookup es y
  | [], x, y, n, h => by simp [setEntry, alookup, h]
  | (k, v) :: r, x, y, n, h => by
    by_cases hk : k = x
    · subst hk
      simp [setEntry, alookup, h]
    · by_cases hy : k = y
      · subst hy
        simp [setEntry, alookup, hk]
      · simp [setEntry, alookup, hk, hy, alookup_setEntry_ne r x y n h]

theorem alookup_setEntry_self : ∀ (es : List (Name × Node κ)) (x : Name) (n : Node κ),
    alookup (setEntry es x n) x = some n
  | [], x, n => by simp [setEntry, alookup]
  | (k, v) :: r, x, n => by
    by_cases hk : k = x
    · subst hk; simp [setEntry, alookup]
    · simp [setEntry, alookup, hk, alookup_setEntry_self r x n]

theorem setEntry_same : ∀ (es : List (Name × Node κ)) (nm : Name) (n : Node κ),
    alookup es nm = some n → setEntry es nm n = es
  | [], _, _, h => by simp [alookup] at h
  | (k, v) :: r, nm, n, h => by
    by_cases hk : k = nm
    · subst hk
      simp only [alookup, beq_self_eq_true, if_true, Option.some.injEq] at h
      simp [setEntry, h]
    · simp only [alookup, beq_iff_eq, hk, if_false] at h
      simp [setEntry, hk, setEntry_same r nm n h]

/-! ## `getPath` / `setPath` -/

theorem getPath_setPath_self : ∀ (p : List Name) (ws ws' v : Node κ),
    setPath ws p v = some ws' → getPath ws' p = some v
  | [], ws, ws', v, h => by
    simp only [setPath, Option.some.injEq] at h
    subst h
    rfl
  | c :: r, .dir es, ws', v, h => by
    rw [setPath] at h
    split at h
    · rename_i n hn
      injection h with h
      subst h
      simp only [getPath]
      rw [alookup_setEntry_self]
      exact getPath_setPath_self r _ n v hn
    · cases h
  | _ :: _, .file _, _, _, h => by simp [setPath] at h
  | _ :: _, .link _, _, _, h => by simp [setPath] at h
  | _ :: _, .other, _, _, h => by simp [setPath] at h

theorem setPath_getPath_same : ∀ (p : List Name) (ws n : Node κ),
    getPath ws p = some n → setPath ws p n = some ws
  | [], ws, n, h => by
    simp only [getPath, Option.some.injEq] at h
    subst h
    simp [setPath]
  | c :: r, .dir es, n, h => by
    rw [getPath] at h
    split at h
    · rename_i m hm
      rw [setPath, hm]
      simp only [Option.getD_some]
      rw [setPath_getPath_same r m n h]
      simp only
      rw [setEntry_same es c m hm]
    · cases h
  | _ :: _, .file _, _, h => by simp [getPath] at h
  | _ :: _, .link _, _, h => by simp [getPath] at h
  | _ :: _, .other, _, h => by simp [getPath] at h

/-- inversion of `getPath` at a non-empty path -/
theorem getPath_cons_inv {x : Name} {r : List Name} {w m : Node κ} (h : getPath w (x :: r) = some m) :
    ∃ es mx, w = .dir es ∧ alookup es x = some mx ∧ getPath mx r = some m := by
  cases w with
  | dir es =>
    rw [getPath] at h
    split at h
    · rename_i mx hmx; exact ⟨es, mx, rfl, hmx, h⟩
    · cases h
  | file _ => simp [getPath] at h
  | link _ => simp [getPath] at h
  | other => simp [getPath] at h

/-- inversion of `setPath` at a non-empty path -/
theorem setPath_cons_inv {x : Name} {r : List Name} {w v w' : Node κ}
    (h : setPath w (x :: r) v = some w') :
    ∃ es k, w = .dir es ∧ setPath ((alookup es x).getD (.dir [])) r v = some k ∧
      w' = .dir (setEntry es x k) := by
  cases w with
  | dir es =>
    rw [setPath] at h
    split at h
    · rename_i k hk
      injection h with h
      exact ⟨es, k, rfl, hk, h.symm⟩
    · cases h
  | file _ => simp [setPath] at h
  | link _ => simp [setPath] at h
  | other => simp [setPath] at h

/-! ## the fixed points of checkout -/

/-- the workspace entry `n` is what a `strat` checkout of a file artifact with checksum `sum`
leaves alone: the object is in the cache and `n` is a regular file with the recorded checksum, or
(link strategy) the link to the object -/
def ConfFile (ctx : Ctx κ) (strat : Strat) (s : Store κ) (n : Node κ) (sum : Digest) : Prop :=
  hasSum sum = true ∧ s.has sum = true ∧
    (upToDateCopy ctx (some n) sum = true ∨ (strat = .link ∧ n = .link (.obj sum)))

/-- `n` is a checked-out copy of the child artifact `c` (within manifest nesting `fuel`): a file
artifact is `ConfFile`; for a directory artifact the manifest is readable, `n` is a directory, and
every manifest entry is found in it, checked out -/
def Conf (ctx : Ctx κ) (strat : Strat) (s : Store κ) : Nat → Node κ → Child → Prop
  | 0, _, _ => False
  | fuel+1, n, c =>
    if c.isDir then
      hasSum c.sum = true ∧ s.has c.sum = true ∧
        ∃ es cs, n = .dir es ∧ readManifest ctx s c.sum = .ok cs ∧
          ∀ k, k ∈ cs → ∃ m, alookup es k.name = some m ∧ Conf ctx strat s fuel m k
    else ConfFile ctx strat s n c.sum

theorem conf_succ_dir {ctx : Ctx κ} {strat : Strat} {s : Store κ} {fuel : Nat} {n : Node κ} {c : Child}
    (hd : c.isDir = true) :
    Conf ctx strat s (fuel+1) n c ↔ (hasSum c.sum = true ∧ s.has c.sum = true ∧
        ∃ es cs, n = .dir es ∧ readManifest ctx s c.sum = .ok cs ∧
          ∀ k, k ∈ cs → ∃ m, alookup es k.name = some m ∧ Conf ctx strat s fuel m k) := by
  simp only [Conf, hd, if_true]

theorem conf_succ_file {ctx : Ctx κ} {strat : Strat} {s : Store κ} {fuel : Nat} {n : Node κ} {c : Child}
    (hd : c.isDir = false) :
    Conf ctx strat s (fuel+1) n c ↔ ConfFile ctx strat s n c.sum := by
  simp only [Conf, hd, Bool.false_eq_true, if_false]

/-- what is checked out with copies is checked out for every strategy -/
theorem ConfFile.of_copy {ctx : Ctx κ} {s : Store κ} {n : Node κ} {sum : Digest}
    (h : ConfFile ctx .copy s n sum) (strat : Strat) : ConfFile ctx strat s n sum := by
  obtain ⟨h1, h2, h3⟩ := h
  refine ⟨h1, h2, ?_⟩
  rcases h3 with h3 | ⟨h3, _⟩
  · exact .inl h3
  · cases h3

theorem Conf.of_copy {ctx : Ctx κ} {s : Store κ} (strat : Strat) : ∀ (fuel : Nat) (n : Node κ) (c : Child),
    Conf ctx .copy s fuel n c → Conf ctx strat s fuel n c
  | 0, _, _, h => by simp [Conf] at h
  | fuel+1, n, c, h => by
    cases hd : c.isDir with
    | true =>
      rw [conf_succ_dir hd] at h ⊢
      obtain ⟨h1, h2, es, cs, h3, h4, h5⟩ := h
      refine ⟨h1, h2, es, cs, h3, h4, fun k hk => ?_⟩
      obtain ⟨m, hm, hc⟩ := h5 k hk
      exact ⟨m, hm, Conf.of_copy strat fuel m k hc⟩
    | false =>
      rw [conf_succ_file hd] at h ⊢
      exact h.of_copy strat

/-- a checked-out copy of a file artifact is a regular file or a link, never a directory -/
theorem ConfFile.not_dir {ctx : Ctx κ} {strat : Strat} {s : Store κ} {es : List (Name × Node κ)}
    {sum : Digest} (h : ConfFile ctx strat s (.dir es) sum) : False := by
  obtain ⟨_, _, h3⟩ := h
  rcases h3 with h3 | ⟨_, h3⟩
  · simp [upToDateCopy] at h3
  · cases h3

/-! ### file artifacts -/

theorem has_get {s : Store κ} {d : Digest} (h : s.has d = true) : ∃ o, s.get d = some o := by
  simp only [Store.has] at h
  cases hg : s.get d with
  | none => rw [hg] at h; cases h
  | some o => exact ⟨o, rfl⟩

/-- `checkoutFile` once the cache lookups are through -/
theorem checkoutFile_inv {ctx : Ctx κ} {strat : Strat} {s : Store κ} {cur : Option (Node κ)}
    {sum : Digest} {r : Node κ} (h : checkoutFile ctx strat cur sum s = .ok r) :
    hasSum sum = true ∧ s.has sum = true ∧ ∃ o, s.get sum = some o := by
  unfold checkoutFile at h
  simp only [quick] at h
  cases h1 : hasSum sum with
  | false => simp [h1] at h
  | true =>
    cases h2 : s.has sum with
    | false => simp [h1, h2] at h
    | true => exact ⟨rfl, rfl, has_get h2⟩

theorem conf_of_checkoutFile {ctx : Ctx κ} {strat : Strat} {s : Store κ} {cur : Option (Node κ)}
    {sum : Digest} {r : Node κ} (h : checkoutFile ctx strat cur sum s = .ok r) :
    ConfFile ctx strat s r sum := by
  obtain ⟨h1, h2, o, ho⟩ := checkoutFile_inv h
  refine ⟨h1, h2, ?_⟩
  unfold checkoutFile at h
  simp only [quick, h1, h2, ho, Bool.not_true, Bool.false_eq_true, if_false, Bool.and_self,
    Bool.true_and] at h
  rcases cur with _ | ⟨x | es | ⟨d | b⟩ | _⟩ <;> cases strat <;>
    simp only [upToDateCopy, Bool.false_eq_true, if_false, Option.getD_some, Option.getD_none,
      reduceCtorEq] at h
  all_goals first
    | (simp only [Except.ok.injEq] at h; subst h; simp [upToDateCopy]; done)
    | (split at h <;> first
        | (cases h; done)
        | (simp only [Except.ok.injEq] at h; subst h; simp_all [upToDateCopy]; done)
        | (split at h <;> first
            | (cases h; done)
            | (simp only [Except.ok.injEq] at h; subst h; simp_all [upToDateCopy]; done)))

theorem checkoutFile_conf {ctx : Ctx κ} {strat : Strat} {s : Store κ} {n : Node κ} {sum : Digest}
    (h : ConfFile ctx strat s n sum) : checkoutFile ctx strat (some n) sum s = .ok n := by
  obtain ⟨h1, h2, h3⟩ := h
  obtain ⟨o, ho⟩ := has_get h2
  rcases h3 with h3 | ⟨rfl, rfl⟩
  · simp [checkoutFile, quick, h1, h2, ho, h3]
  · simp [checkoutFile, quick, h1, h2, ho, upToDateCopy]

theorem checkoutFile_over_conf {ctx : Ctx κ} {strat : Strat} {s : Store κ} {n n' : Node κ}
    {sum sum' : Digest} (hc : ConfFile ctx strat s n sum)
    (h : checkoutFile ctx strat (some n) sum' s = .ok n') : n' = n := by
  obtain ⟨_, _, h3⟩ := hc
  obtain ⟨h1, h2, o, ho⟩ := checkoutFile_inv h
  unfold checkoutFile at h
  simp only [quick, h1, h2, ho, Bool.not_true, Bool.false_eq_true, if_false, Bool.and_self,
    Bool.true_and] at h
  rcases n with x | es | ⟨d | b⟩ | _ <;> cases strat <;>
    simp only [upToDateCopy, Bool.false_eq_true, if_false, Option.getD_some,
      reduceCtorEq, false_and, and_false, or_false, false_or] at h h3
  all_goals first
    | (split at h <;> first
        | (cases h; done)
        | (simp only [Except.ok.injEq] at h; exact h.symm))
    | (cases h3; done)
    | skip

theorem checkoutFile_dir {ctx : Ctx κ} {strat : Strat} {s : Store κ} {es : List (Name × Node κ)}
    {sum : Digest} {r : Node κ} (h : checkoutFile ctx strat (some (.dir es)) sum s = .ok r) : False := by
  obtain ⟨h1, h2, o, ho⟩ := checkoutFile_inv h
  unfold checkoutFile at h
  simp only [quick, h1, h2, ho, Bool.not_true, Bool.false_eq_true, if_false, Bool.and_self,
    upToDateCopy] at h
  cases strat <;> simp at h

/-! ### directory artifacts -/

/-- inversion of a successful `checkoutNode` for a directory artifact -/
theorem checkoutNode_dir_inv {ctx : Ctx κ} {strat : Strat} {s : Store κ} {fuel : Nat}
    {cur : Option (Node κ)} {c : Child} {r : Node κ} (hd : c.isDir = true)
    (h : checkoutNode ctx strat s (fuel+1) cur c = .ok r) :
    hasSum c.sum = true ∧ s.has c.sum = true ∧ ∃ es cs es',
      (cur = some (.dir es) ∨ (cur = none ∧ es = [])) ∧ readManifest ctx s c.sum = .ok cs ∧
      checkoutChildren (checkoutNode ctx strat s fuel) es cs = .ok es' ∧ r = .dir es' := by
  simp only [checkoutNode] at h
  simp only [hd, if_true] at h
  split at h
  · cases h
  rename_i h1
  split at h
  · cases h
  rename_i h2
  refine ⟨by simpa using h1, by simpa using h2, ?_⟩
  split at h
  · rename_i es
    split at h
    · cases h
    rename_i cs hcs
    split at h
    · cases h
    rename_i es' hes
    simp only [Except.ok.injEq] at h
    exact ⟨es, cs, es', .inl rfl, hcs, hes, h.symm⟩
  · split at h
    · cases h
    rename_i cs hcs
    split at h
    · cases h
    rename_i es' hes
    simp only [Except.ok.injEq] at h
    exact ⟨[], cs, es', .inr ⟨rfl, rfl⟩, hcs, hes, h.symm⟩
  · cases h

theorem checkoutNode_file {ctx : Ctx κ} {strat : Strat} {s : Store κ} {fuel : Nat}
    {cur : Option (Node κ)} {c : Child} (hd : c.isDir = false) :
    checkoutNode ctx strat s (fuel+1) cur c = checkoutFile ctx strat cur c.sum s := by
  simp only [checkoutNode]
  simp only [hd, Bool.false_eq_true, if_false]

/-- entries that are left alone one by one are left alone by the loop -/
theorem checkoutChildren_fix {f : Option (Node κ) → Child → Except Err (Node κ)} :
    ∀ (cs : List Child) (es : List (Name × Node κ)),
      (∀ k, k ∈ cs → ∃ m, alookup es k.name = some m ∧ f (some m) k = .ok m) →
      checkoutChildren f es cs = .ok es
  | [], es, _ => by cases es <;> rfl
  | c :: cs, es, h => by
    obtain ⟨m, hm, hf⟩ := h c List.mem_cons_self
    have : checkoutChildren f es (c :: cs) = checkoutChildren f (setEntry es c.name m) cs := by
      cases es <;> simp only [checkoutChildren, hm, hf]
    rw [this, setEntry_same es c.name m hm]
    exact checkoutChildren_fix cs es (fun k hk => h k (List.mem_cons_of_mem _ hk))

theorem checkoutChildren_cons_inv {f : Option (Node κ) → Child → Except Err (Node κ)}
    {c : Child} {cs : List Child} {es es' : List (Name × Node κ)}
    (h : checkoutChildren f es (c :: cs) = .ok es') :
    ∃ n, f (alookup es c.name) c = .ok n ∧ checkoutChildren f (setEntry es c.name n) cs = .ok es' := by
  have e : checkoutChildren f es (c :: cs) = (match f (alookup es c.name) c with
      | .error e => .error e
      | .ok n => checkoutChildren f (setEntry es c.name n) cs) := by
    cases es <;> rfl
  rw [e] at h
  split at h
  · cases h
  · rename_i n hn; exact ⟨n, hn, h⟩

theorem checkoutChildren_nil {f : Option (Node κ) → Child → Except Err (Node κ)}
    (es : List (Name × Node κ)) : checkoutChildren f es [] = .ok es := by
  cases es <;> rfl

/-- a property of the entry called `nm` that every step of the loop keeps is kept by the loop -/
theorem checkoutChildren_keeps {f : Option (Node κ) → Child → Except Err (Node κ)} (Q : Node κ → Prop)
    (hf : ∀ m c n, Q m → f (some m) c = .ok n → Q n) (nm : Name) :
    ∀ (cs : List Child) (es es' : List (Name × Node κ)), checkoutChildren f es cs = .ok es' →
      (∃ m, alookup es nm = some m ∧ Q m) → ∃ m, alookup es' nm = some m ∧ Q m
  | [], es, es', h, hq => by
    rw [checkoutChildren_nil] at h
    cases h
    exact hq
  | c :: cs, es, es', h, hq => by
    obtain ⟨n, hn, hrest⟩ := checkoutChildren_cons_inv h
    refine checkoutChildren_keeps Q hf nm cs _ es' hrest ?_
    obtain ⟨m, hm, hqm⟩ := hq
    by_cases hc : c.name = nm
    · subst hc
      rw [hm] at hn
      exact ⟨n, alookup_setEntry_self _ _ _, hf m c n hqm hn⟩
    · exact ⟨m, by rw [alookup_setEntry_ne _ _ _ _ hc]; exact hm, hqm⟩

/-- **A `Conf` node is a fixed point of checkout.** -/
theorem checkoutNode_conf {ctx : Ctx κ} {strat : Strat} {s : Store κ} : ∀ (fuel : Nat) (n : Node κ)
    (c : Child), Conf ctx strat s fuel n c → checkoutNode ctx strat s fuel (some n) c = .ok n
  | 0, _, _, h => by simp [Conf] at h
  | fuel+1, n, c, h => by
    cases hd : c.isDir with
    | true =>
      rw [conf_succ_dir hd] at h
      obtain ⟨h1, h2, es, cs, rfl, hcs, hall⟩ := h
      have hfix := checkoutChildren_fix (f := checkoutNode ctx strat s fuel) cs es (fun k hk => by
        obtain ⟨m, hm, hc⟩ := hall k hk
        exact ⟨m, hm, checkoutNode_conf fuel m k hc⟩)
      simp only [checkoutNode]
      simp only [hd, if_true, h1, h2, Bool.not_true, Bool.false_eq_true, if_false, hcs, hfix]
    | false =>
      rw [conf_succ_file hd] at h
      rw [checkoutNode_file hd]
      exact checkoutFile_conf h

/-- **A `Conf` node stays `Conf` under any successful checkout over it** (of any other artifact,
with any fuel). -/
theorem conf_kept {ctx : Ctx κ} {strat : Strat} {s : Store κ} : ∀ (f2 f1 : Nat) (n n' : Node κ)
    (c c' : Child), Conf ctx strat s f1 n c → checkoutNode ctx strat s f2 (some n) c' = .ok n' →
      Conf ctx strat s f1 n' c
  | 0, _, _, _, _, _, _, h => by simp [checkoutNode] at h
  | _, 0, _, _, _, _, hc, _ => by simp [Conf] at hc
  | f2+1, f1+1, n, n', c, c', hc, h => by
    cases hd : c.isDir with
    | false =>
      rw [conf_succ_file hd] at hc ⊢
      cases hd' : c'.isDir with
      | false =>
        rw [checkoutNode_file hd'] at h
        rw [checkoutFile_over_conf hc h]
        exact hc
      | true =>
        obtain ⟨_, _, es, cs, es', hcur, _⟩ := checkoutNode_dir_inv hd' h
        rcases hcur with hcur | ⟨hcur, _⟩
        · simp only [Option.some.injEq] at hcur
          subst hcur
          exact hc.not_dir.elim
        · cases hcur
    | true =>
      rw [conf_succ_dir hd] at hc ⊢
      obtain ⟨h1, h2, es, cs, rfl, hcs, hall⟩ := hc
      cases hd' : c'.isDir with
      | false =>
        rw [checkoutNode_file hd'] at h
        exact (checkoutFile_dir h).elim
      | true =>
        obtain ⟨_, _, es0, cs', es', hcur, _, hch, rfl⟩ := checkoutNode_dir_inv hd' h
        rcases hcur with hcur | ⟨hcur, _⟩
        · simp only [Option.some.injEq, Node.dir.injEq] at hcur
          subst hcur
          refine ⟨h1, h2, es', cs, rfl, hcs, fun k hk => ?_⟩
          exact checkoutChildren_keeps (fun m => Conf ctx strat s f1 m k)
            (fun m c2 n2 hm hn => conf_kept f2 f1 m n2 k c2 hm hn) k.name cs' es es' hch (hall k hk)
        · cases hcur

/-- the manifest entries are all checked out after the loop -/
theorem checkoutChildren_conf {ctx : Ctx κ} {strat : Strat} {s : Store κ} {fuel : Nat}
    (ih : ∀ cur c r, checkoutNode ctx strat s fuel cur c = .ok r → Conf ctx strat s fuel r c) :
    ∀ (cs : List Child) (es es' : List (Name × Node κ)),
      checkoutChildren (checkoutNode ctx strat s fuel) es cs = .ok es' →
      ∀ k, k ∈ cs → ∃ m, alookup es' k.name = some m ∧ Conf ctx strat s fuel m k
  | [], _, _, _, k, hk => by cases hk
  | c :: cs, es, es', h, k, hk => by
    obtain ⟨n, hn, hrest⟩ := checkoutChildren_cons_inv h
    rcases List.mem_cons.1 hk with rfl | hk
    · exact checkoutChildren_keeps (fun m => Conf ctx strat s fuel m k)
        (fun m c2 n2 hm hn2 => conf_kept fuel fuel m n2 k c2 hm hn2) k.name cs _ es' hrest
        ⟨n, alookup_setEntry_self _ _ _, ih _ _ _ hn⟩
    · exact checkoutChildren_conf ih cs _ es' hrest k hk

/-- **Whatever a successful checkout returns is `Conf`**, whatever was there before. -/
theorem conf_of_checkout {ctx : Ctx κ} {strat : Strat} {s : Store κ} : ∀ (fuel : Nat)
    (cur : Option (Node κ)) (c : Child) (r : Node κ),
    checkoutNode ctx strat s fuel cur c = .ok r → Conf ctx strat s fuel r c
  | 0, _, _, _, h => by simp [checkoutNode] at h
  | fuel+1, cur, c, r, h => by
    cases hd : c.isDir with
    | false =>
      rw [checkoutNode_file hd] at h
      rw [conf_succ_file hd]
      exact conf_of_checkoutFile h
    | true =>
      obtain ⟨h1, h2, es, cs, es', _, hcs, hch, rfl⟩ := checkoutNode_dir_inv hd h
      rw [conf_succ_dir hd]
      exact ⟨h1, h2, es', cs, rfl, hcs,
        checkoutChildren_conf (fun cur c r => conf_of_checkout fuel cur c r) cs es es' hch⟩

/-- `Conf` = "is a fixed point of checkout" -/
theorem conf_iff_fix {ctx : Ctx κ} {strat : Strat} {s : Store κ} (fuel : Nat) (n : Node κ) (c : Child) :
    Conf ctx strat s fuel n c ↔ checkoutNode ctx strat s fuel (some n) c = .ok n :=
  ⟨checkoutNode_conf fuel n c, conf_of_checkout fuel (some n) c n⟩

/-! ## the same along paths -/

/-- the entry found at path `p` below `w` is a checked-out copy of `c` -/
def ConfAt (ctx : Ctx κ) (strat : Strat) (s : Store κ) (fuel : Nat) (w : Node κ) (p : List Name)
    (c : Child) : Prop :=
  ∃ m, getPath w p = some m ∧ Conf ctx strat s fuel m c

/-- checkout over an ancestor of `p` keeps the entry at `p` checked out -/
theorem confAt_kept {ctx : Ctx κ} {strat : Strat} {s : Store κ} {f1 : Nat} {c : Child} :
    ∀ (p : List Name) (f2 : Nat) (w w' : Node κ) (c' : Child), ConfAt ctx strat s f1 w p c →
      checkoutNode ctx strat s f2 (some w) c' = .ok w' → ConfAt ctx strat s f1 w' p c
  | [], f2, w, w', c', ⟨m, hm, hc⟩, h => by
    simp only [getPath, Option.some.injEq] at hm
    subst hm
    exact ⟨w', rfl, conf_kept f2 f1 _ w' c c' hc h⟩
  | x :: r, f2, w, w', c', ⟨m, hm, hc⟩, h => by
    obtain ⟨es, mx, rfl, hmx, hr⟩ := getPath_cons_inv hm
    cases f2 with
    | zero => simp [checkoutNode] at h
    | succ f2 =>
      cases hd' : c'.isDir with
      | false =>
        rw [checkoutNode_file hd'] at h
        exact (checkoutFile_dir h).elim
      | true =>
        obtain ⟨_, _, es0, cs', es', hcur, _, hch, rfl⟩ := checkoutNode_dir_inv hd' h
        rcases hcur with hcur | ⟨hcur, _⟩
        · simp only [Option.some.injEq, Node.dir.injEq] at hcur
          subst hcur
          obtain ⟨mx', hmx', m', hm', hc'⟩ := checkoutChildren_keeps
            (fun y => ConfAt ctx strat s f1 y r c)
            (fun y c2 n2 hy hn => confAt_kept r f2 y n2 c2 hy hn) x cs' es es' hch
            ⟨mx, hmx, m, hr, hc⟩
          exact ⟨m', by simp only [getPath, hmx']; exact hm', hc'⟩
        · cases hcur

/-- checkout at or below a checked-out node keeps it checked out -/
theorem conf_write_below {ctx : Ctx κ} {strat : Strat} {s : Store κ} {f2 : Nat} {c' : Child}
    {n' : Node κ} : ∀ (q : List Name) (f1 : Nat) (m m' : Node κ) (c : Child),
      Conf ctx strat s f1 m c → checkoutNode ctx strat s f2 (getPath m q) c' = .ok n' →
      setPath m q n' = some m' → Conf ctx strat s f1 m' c
  | [], f1, m, m', c, hc, h, hs => by
    simp only [setPath, Option.some.injEq] at hs
    subst hs
    exact conf_kept f2 f1 m _ c c' hc h
  | x :: r, f1, m, m', c, hc, h, hs => by
    obtain ⟨es, k, rfl, hk, rfl⟩ := setPath_cons_inv hs
    cases f1 with
    | zero => simp [Conf] at hc
    | succ f1 =>
      cases hd : c.isDir with
      | false =>
        rw [conf_succ_file hd] at hc
        exact hc.not_dir.elim
      | true =>
        rw [conf_succ_dir hd] at hc ⊢
        obtain ⟨h1, h2, es0, cs, he, hcs, hall⟩ := hc
        simp only [Node.dir.injEq] at he
        subst he
        refine ⟨h1, h2, _, cs, rfl, hcs, fun kk hkk => ?_⟩
        obtain ⟨mx, hmx, hcx⟩ := hall kk hkk
        by_cases hx : kk.name = x
        · subst hx
          rw [hmx, Option.getD_some] at hk
          have hg : getPath (Node.dir es) (kk.name :: r) = getPath mx r := by
            simp only [getPath, hmx]
          rw [hg] at h
          exact ⟨k, alookup_setEntry_self _ _ _, conf_write_below r f1 mx k kk hcx h hk⟩
        · exact ⟨mx, by rw [alookup_setEntry_ne _ _ _ _ (Ne.symm hx)]; exact hmx, hcx⟩

/-- **Writing the result of a successful checkout at ANY path `q` keeps the entry at `p` checked
out** (`q` above, below, equal to or apart from `p`). -/
theorem confAt_write {ctx : Ctx κ} {strat : Strat} {s : Store κ} {f1 f2 : Nat} {c c' : Child}
    {n' : Node κ} : ∀ (p q : List Name) (w w' : Node κ), ConfAt ctx strat s f1 w p c →
      checkoutNode ctx strat s f2 (getPath w q) c' = .ok n' → setPath w q n' = some w' →
      ConfAt ctx strat s f1 w' p c
  | [], q, w, w', ⟨m, hm, hc⟩, h, hs => by
    simp only [getPath, Option.some.injEq] at hm
    subst hm
    exact ⟨w', rfl, conf_write_below q f1 _ w' c hc h hs⟩
  | x :: p, [], w, w', hc, h, hs => by
    simp only [setPath, Option.some.injEq] at hs
    subst hs
    exact confAt_kept (x :: p) f2 w _ c' hc h
  | x :: p, y :: q, w, w', ⟨m, hm, hc⟩, h, hs => by
    obtain ⟨es, mx, rfl, hmx, hr⟩ := getPath_cons_inv hm
    obtain ⟨es0, k, he, hk, rfl⟩ := setPath_cons_inv hs
    simp only [Node.dir.injEq] at he
    subst he
    by_cases hxy : y = x
    · subst hxy
      rw [hmx, Option.getD_some] at hk
      have hg : getPath (Node.dir es) (y :: q) = getPath mx q := by simp only [getPath, hmx]
      rw [hg] at h
      obtain ⟨m', hm', hc'⟩ := confAt_write p q mx k ⟨m, hr, hc⟩ h hk
      exact ⟨m', by simp only [getPath, alookup_setEntry_self]; exact hm', hc'⟩
    · exact ⟨m, by simp only [getPath, alookup_setEntry_ne _ _ _ _ hxy, hmx]; exact hr, hc⟩

/-! ## the world level: one artifact, the outputs of a stage -/

/-- the artifact `a` is checked out at its path below the workspace root `W` (or is `skip-cache`,
which checkout ignores) -/
def ArtConf (cfg : Cfg κ) (strat : Strat) (s : Store κ) (W : Node κ) (a : Art) : Prop :=
  a.skip = true ∨ ConfAt cfg.ctx strat s cfg.fuel W (Path.comps a.path) a.child

theorem ArtConf.of_copy {cfg : Cfg κ} {s : Store κ} {W : Node κ} {a : Art}
    (h : ArtConf cfg .copy s W a) (strat : Strat) : ArtConf cfg strat s W a := by
  rcases h with h | ⟨m, hm, hc⟩
  · exact .inl h
  · exact .inr ⟨m, hm, Conf.of_copy strat _ _ _ hc⟩

/-- inversion of a successful `checkoutArtW` -/
theorem checkoutArtW_inv {cfg : Cfg κ} {strat : Strat} {a : Art} {w w' : World κ}
    (h : checkoutArtW cfg strat a w = .ok w') :
    (a.skip = true ∧ w' = w) ∨
    (a.skip = false ∧ ∃ n ws', checkoutNode cfg.ctx strat w.store cfg.fuel
        (getPath w.ws (Path.comps a.path)) a.child = .ok n ∧
      setPath w.ws (Path.comps a.path) n = some ws' ∧ w' = { w with ws := ws' }) := by
  unfold checkoutArtW checkoutArt at h
  cases hsk : a.skip with
  | true =>
    left
    simp only [hsk, if_true] at h
    split at h
    · cases h
    · simp only [Except.ok.injEq] at h; exact ⟨rfl, h.symm⟩
    · simp only [Except.ok.injEq] at h; exact ⟨rfl, h.symm⟩
  | false =>
    right
    simp only [hsk, Bool.false_eq_true, if_false] at h
    cases hn : checkoutNode cfg.ctx strat w.store cfg.fuel (getPath w.ws (Path.comps a.path)) a.child with
    | error e => simp [hn] at h
    | ok n =>
      simp only [hn] at h
      cases hs : setPath w.ws (Path.comps a.path) n with
      | none => simp [hs] at h
      | some ws' =>
        simp only [hs, Except.ok.injEq] at h
        exact ⟨rfl, n, ws', rfl, hs, h.symm⟩

/-- an artifact that is checked out is left alone -/
theorem checkoutArtW_noop {cfg : Cfg κ} {strat : Strat} {a : Art} {w : World κ}
    (h : ArtConf cfg strat w.store w.ws a) : checkoutArtW cfg strat a w = .ok w := by
  unfold checkoutArtW checkoutArt
  rcases h with h | ⟨m, hm, hc⟩
  · simp only [h, if_true]
    cases getPath w.ws (Path.comps a.path) <;> rfl
  · cases hsk : a.skip with
    | true =>
      simp only [if_true]
      cases getPath w.ws (Path.comps a.path) <;> rfl
    | false =>
      simp only [Bool.false_eq_true, if_false, hm, checkoutNode_conf _ _ _ hc,
        setPath_getPath_same _ _ _ hm]

/-- a successful `checkoutArtW` changes the workspace only, leaves its artifact checked out and
every artifact that was checked out checked out -/
theorem checkoutArtW_conf {cfg : Cfg κ} {strat : Strat} {a : Art} {w w' : World κ}
    (h : checkoutArtW cfg strat a w = .ok w') :
    w' = { w with ws := w'.ws } ∧ ArtConf cfg strat w.store w'.ws a ∧
      ∀ b, ArtConf cfg strat w.store w.ws b → ArtConf cfg strat w.store w'.ws b := by
  rcases checkoutArtW_inv h with ⟨hsk, rfl⟩ | ⟨_, n, ws', hn, hs, rfl⟩
  · exact ⟨rfl, .inl hsk, fun _ hb => hb⟩
  · refine ⟨rfl, .inr ⟨n, getPath_setPath_self _ _ _ _ hs, conf_of_checkout _ _ _ _ hn⟩, ?_⟩
    intro b hb
    rcases hb with hb | hb
    · exact .inl hb
    · exact .inr (confAt_write _ _ _ _ hb hn hs)

theorem checkoutArts_conf {cfg : Cfg κ} {strat : Strat} : ∀ (as : List Art) {w w' : World κ},
    checkoutArts cfg strat as w = .ok w' →
    w' = { w with ws := w'.ws } ∧ (∀ a, a ∈ as → ArtConf cfg strat w.store w'.ws a) ∧
      ∀ b, ArtConf cfg strat w.store w.ws b → ArtConf cfg strat w.store w'.ws b
  | [], w, w', h => by
    simp only [checkoutArts, Except.ok.injEq] at h
    subst h
    refine ⟨rfl, ?_, fun _ hb => hb⟩
    intro a ha
    cases ha
  | a :: r, w, w', h => by
    rw [checkoutArts] at h
    split at h
    · cases h
    rename_i w1 h1
    obtain ⟨e1, c1, k1⟩ := checkoutArtW_conf h1
    obtain ⟨e2, c2, k2⟩ := checkoutArts_conf r h
    have hst : w1.store = w.store := by rw [e1]
    rw [hst] at c2 k2
    refine ⟨?_, ?_, fun b hb => k2 b (k1 b hb)⟩
    · rw [e2, e1]
    · intro x hx
      rcases List.mem_cons.1 hx with rfl | hx
      · exact k2 _ c1
      · exact c2 x hx

theorem checkoutArts_noop {cfg : Cfg κ} {strat : Strat} : ∀ (as : List Art) {w : World κ},
    (∀ a, a ∈ as → ArtConf cfg strat w.store w.ws a) → checkoutArts cfg strat as w = .ok w
  | [], _, _ => rfl
  | a :: r, w, h => by
    rw [checkoutArts, checkoutArtW_noop (h a List.mem_cons_self)]
    exact checkoutArts_noop r (fun x hx => h x (List.mem_cons_of_mem _ hx))

/-- the (distinct-path) outputs of the stage `sp` are all checked out -/
def StageConf (cfg : Cfg κ) (strat : Strat) (idx : Index) (s : Store κ) (W : Node κ) (sp : Bytes) : Prop :=
  ∀ stg, alookup idx sp = some stg → ∀ a, a ∈ sortArts stg.outputs → ArtConf cfg strat s W a

theorem checkoutAct_inv {cfg : Cfg κ} {strat : Strat} {sp : Bytes} {w w' : World κ}
    (h : checkoutAct cfg strat sp w = .ok w') :
    ∃ stg w1, alookup w.idx sp = some stg ∧
      checkoutArts cfg strat (sortArts stg.outputs) w = .ok w1 ∧
      w' = { w1 with done := sp :: w1.done } := by
  unfold checkoutAct World.stage at h
  cases hl : alookup w.idx sp with
  | none => simp [hl] at h
  | some stg =>
    simp only [hl] at h
    split at h
    · cases h
    rename_i w1 h1
    simp only [Except.ok.injEq] at h
    exact ⟨stg, w1, rfl, h1, h.symm⟩

theorem checkoutAct_of {cfg : Cfg κ} {strat : Strat} {sp : Bytes} {w w1 : World κ} {stg : Stage}
    (hl : alookup w.idx sp = some stg)
    (h1 : checkoutArts cfg strat (sortArts stg.outputs) w = .ok w1) :
    checkoutAct cfg strat sp w = .ok { w1 with done := sp :: w1.done } := by
  unfold checkoutAct World.stage
  simp only [hl, h1]

/-! ## traversal: invariants, backward invariants, simulation -/

section Traversal
variable {σ τ : Type}

theorem visitAll_cons_inv {f : Bytes → σ → Except Err σ} {o : Bytes} {os : List Bytes} {a a' : σ}
    (h : visitAll f (o :: os) a = .ok a') : ∃ am, f o a = .ok am ∧ visitAll f os am = .ok a' := by
  simp only [visitAll] at h
  split at h
  · cases h
  · rename_i am ham; exact ⟨am, ham, h⟩

/-- one level of a successful traversal -/
theorem visit_succ_inv {T : Trav σ} {r : Bool} {fuel : Nat} {avail : List Bytes} {sp : Bytes} {st st' : σ}
    (h : visit T r (fuel+1) avail sp st = .ok st') :
    (T.isDone st sp = true ∧ st' = st) ∨
    (T.isDone st sp = false ∧ avail.contains sp = true ∧ ∃ os st1, T.owners st sp = .ok os ∧
      (if r then visitAll (visit T r fuel (avail.filter (· != sp))) os st else .ok st) = .ok st1 ∧
      T.act sp st1 = .ok st') := by
  simp only [visit] at h
  split at h
  · rename_i hd
    simp only [Except.ok.injEq] at h
    exact .inl ⟨hd, h.symm⟩
  rename_i hd
  split at h
  · cases h
  rename_i hav
  split at h
  · cases h
  rename_i os hos
  split at h
  · cases h
  rename_i st1 h1
  exact .inr ⟨by simpa using hd, by simpa using hav, os, st1, hos, h1, h⟩

theorem visit_succ_of {T : Trav σ} {r : Bool} {fuel : Nat} {avail : List Bytes} {sp : Bytes}
    {st st1 st' : σ} {os : List Bytes} (hd : T.isDone st sp = false) (hav : avail.contains sp = true)
    (hos : T.owners st sp = .ok os)
    (h1 : (if r then visitAll (visit T r fuel (avail.filter (· != sp))) os st else .ok st) = .ok st1)
    (ha : T.act sp st1 = .ok st') : visit T r (fuel+1) avail sp st = .ok st' := by
  simp only [visit, hd, Bool.false_eq_true, if_false, hav, Bool.not_true, hos, h1, ha]

theorem visit_done_of {T : Trav σ} {r : Bool} {fuel : Nat} {avail : List Bytes} {sp : Bytes} {st : σ}
    (hd : T.isDone st sp = true) : visit T r (fuel+1) avail sp st = .ok st := by
  simp only [visit, hd, if_true]

theorem visitAll_keeps (P : σ → Prop) {f : Bytes → σ → Except Err σ}
    (hf : ∀ o a b, P a → f o a = .ok b → P b) : ∀ (os : List Bytes) (a b : σ), P a →
      visitAll f os a = .ok b → P b
  | [], a, b, hp, h => by simp only [visitAll, Except.ok.injEq] at h; exact h ▸ hp
  | o :: os, a, b, hp, h => by
    obtain ⟨am, h1, h2⟩ := visitAll_cons_inv h
    exact visitAll_keeps P hf os am b (hf o a am hp h1) h2

/-- a property every successful stage action keeps is kept by the traversal -/
theorem visit_keeps (T : Trav σ) (r : Bool) (P : σ → Prop)
    (hact : ∀ sp a b, P a → T.act sp a = .ok b → P b) :
    ∀ (fuel : Nat) (avail : List Bytes) (sp : Bytes) (a b : σ), P a →
      visit T r fuel avail sp a = .ok b → P b
  | 0, _, _, _, _, _, h => by simp [visit] at h
  | fuel+1, avail, sp, a, b, hp, h => by
    rcases visit_succ_inv h with ⟨_, rfl⟩ | ⟨_, _, os, a1, _, h1, ha⟩
    · exact hp
    · refine hact sp a1 b ?_ ha
      cases r with
      | false => simp only [Bool.false_eq_true, if_false, Except.ok.injEq] at h1; exact h1 ▸ hp
      | true =>
        simp only [if_true] at h1
        exact visitAll_keeps P (fun o x y hx hv => visit_keeps T true P hact fuel _ o x y hx hv) os a a1 hp h1

theorem visitAll_anti (A : σ → Prop) {f : Bytes → σ → Except Err σ}
    (hf : ∀ o a b, f o a = .ok b → A b → A a) : ∀ (os : List Bytes) (a b : σ),
      visitAll f os a = .ok b → A b → A a
  | [], a, b, h, hb => by simp only [visitAll, Except.ok.injEq] at h; exact h ▸ hb
  | o :: os, a, b, h, hb => by
    obtain ⟨am, h1, h2⟩ := visitAll_cons_inv h
    exact hf o a am h1 (visitAll_anti A hf os am b h2 hb)

/-- a property that holds before a stage action whenever it holds after it holds at the start of
a traversal whenever it holds at its end -/
theorem visit_anti (T : Trav σ) (r : Bool) (A : σ → Prop)
    (hanti : ∀ sp a b, T.act sp a = .ok b → A b → A a) :
    ∀ (fuel : Nat) (avail : List Bytes) (sp : Bytes) (a b : σ),
      visit T r fuel avail sp a = .ok b → A b → A a
  | 0, _, _, _, _, h, _ => by simp [visit] at h
  | fuel+1, avail, sp, a, b, h, hb => by
    rcases visit_succ_inv h with ⟨_, rfl⟩ | ⟨_, _, os, a1, _, h1, ha⟩
    · exact hb
    · have h1a := hanti sp a1 b ha hb
      cases r with
      | false => simp only [Bool.false_eq_true, if_false, Except.ok.injEq] at h1; exact h1 ▸ h1a
      | true =>
        simp only [if_true] at h1
        exact visitAll_anti A (fun o x y hv hy => visit_anti T true A hanti fuel _ o x y hv hy) os a a1 h1 h1a

theorem visitAll_sim (R : σ → τ → Prop) (A : σ → Prop) {f1 : Bytes → σ → Except Err σ}
    {f2 : Bytes → τ → Except Err τ} (hfa : ∀ o a b, f1 o a = .ok b → A b → A a)
    (hf : ∀ o a a' b, f1 o a = .ok a' → A a' → R a b → ∃ b', f2 o b = .ok b' ∧ R a' b') :
    ∀ (os : List Bytes) (a a' : σ) (b : τ), visitAll f1 os a = .ok a' → A a' → R a b →
      ∃ b', visitAll f2 os b = .ok b' ∧ R a' b'
  | [], a, a', b, h, _, hr => by
    simp only [visitAll, Except.ok.injEq] at h
    exact ⟨b, rfl, h ▸ hr⟩
  | o :: os, a, a', b, h, ha', hr => by
    obtain ⟨am, h1, h2⟩ := visitAll_cons_inv h
    have ham := visitAll_anti A hfa os am a' h2 ha'
    obtain ⟨bm, g1, hrm⟩ := hf o a am b h1 ham hr
    obtain ⟨b', g2, hr'⟩ := visitAll_sim R A hfa hf os am a' bm h2 ha' hrm
    exact ⟨b', by simp only [visitAll, g1, g2], hr'⟩

/-- **Simulation.**  If related states agree on done-ness and owners, and every successful action
of `T1` — that leads to a state satisfying the backward invariant `A` — is matched by a successful
action of `T2`, then a successful traversal with `T1` ending in `A` is matched by a successful
traversal with `T2` (same stages, same order). -/
theorem visit_sim (T1 : Trav σ) (T2 : Trav τ) (r : Bool) (R : σ → τ → Prop) (A : σ → Prop)
    (hdone : ∀ a b sp, R a b → T2.isDone b sp = T1.isDone a sp)
    (hown : ∀ a b sp, R a b → T2.owners b sp = T1.owners a sp)
    (hanti : ∀ sp a a', T1.act sp a = .ok a' → A a' → A a)
    (hact : ∀ sp a a' b, R a b → T1.act sp a = .ok a' → A a' → ∃ b', T2.act sp b = .ok b' ∧ R a' b') :
    ∀ (fuel : Nat) (avail : List Bytes) (sp : Bytes) (a a' : σ) (b : τ),
      visit T1 r fuel avail sp a = .ok a' → A a' → R a b →
      ∃ b', visit T2 r fuel avail sp b = .ok b' ∧ R a' b'
  | 0, _, _, _, _, _, h, _, _ => by simp [visit] at h
  | fuel+1, avail, sp, a, a', b, h, ha', hr => by
    rcases visit_succ_inv h with ⟨hd, he⟩ | ⟨hd, hav, os, a1, hos, h1, hact1⟩
    · subst he
      exact ⟨b, visit_done_of (by rw [hdone _ b sp hr]; exact hd), hr⟩
    · have ha1 := hanti sp a1 a' hact1 ha'
      have hd2 : T2.isDone b sp = false := by rw [hdone a b sp hr]; exact hd
      have hos2 : T2.owners b sp = .ok os := by rw [hown a b sp hr]; exact hos
      cases r with
      | false =>
        simp only [Bool.false_eq_true, if_false, Except.ok.injEq] at h1
        subst h1
        obtain ⟨b', hb', hr'⟩ := hact sp a a' b hr hact1 ha'
        exact ⟨b', visit_succ_of hd2 hav hos2 (by simp) hb', hr'⟩
      | true =>
        simp only [if_true] at h1
        obtain ⟨b1, g1, hr1⟩ := visitAll_sim R A
          (fun o x y hv hy => visit_anti T1 true A hanti fuel _ o x y hv hy)
          (fun o x x' y hv hx' hxy =>
            visit_sim T1 T2 true R A hdone hown hanti hact fuel _ o x x' y hv hx' hxy)
          os a a1 b h1 ha1 hr
        obtain ⟨b', hb', hr'⟩ := hact sp a1 a' b1 hr1 hact1 ha'
        exact ⟨b', visit_succ_of hd2 hav hos2 (by simp only [if_true]; exact g1) hb', hr'⟩

end Traversal

theorem perTarget_cons_inv {f : Bytes → World κ → Except Err (World κ)} {t : Bytes} {ts : List Bytes}
    {w w' : World κ} (h : perTarget f (t :: ts) w = .ok w') :
    (alookup w.idx t).isNone = false ∧ ∃ w1, f t w = .ok w1 ∧ perTarget f ts w1 = .ok w' := by
  rw [perTarget] at h
  split at h
  · cases h
  rename_i hn
  split at h
  · cases h
  rename_i w1 h1
  exact ⟨Bool.eq_false_iff.2 hn, w1, h1, h⟩

theorem perTarget_keeps (P : World κ → Prop) {f : Bytes → World κ → Except Err (World κ)}
    (hf : ∀ t a b, P a → f t a = .ok b → P b) : ∀ (ts : List Bytes) (a b : World κ), P a →
      perTarget f ts a = .ok b → P b
  | [], a, b, hp, h => by simp only [perTarget, Except.ok.injEq] at h; exact h ▸ hp
  | t :: ts, a, b, hp, h => by
    obtain ⟨_, w1, h1, h2⟩ := perTarget_cons_inv h
    exact perTarget_keeps P hf ts w1 b (hf t a w1 hp h1) h2

theorem perTarget_anti (A : World κ → Prop) {f : Bytes → World κ → Except Err (World κ)}
    (hf : ∀ t a b, f t a = .ok b → A b → A a) : ∀ (ts : List Bytes) (a b : World κ),
      perTarget f ts a = .ok b → A b → A a
  | [], a, b, h, hb => by simp only [perTarget, Except.ok.injEq] at h; exact h ▸ hb
  | t :: ts, a, b, h, hb => by
    obtain ⟨_, w1, h1, h2⟩ := perTarget_cons_inv h
    exact hf t a w1 h1 (perTarget_anti A hf ts w1 b h2 hb)

theorem perTarget_sim (R : World κ → World κ → Prop) (A : World κ → Prop)
    (hidx : ∀ a b t, R a b → (alookup b.idx t).isNone = (alookup a.idx t).isNone)
    {f1 f2 : Bytes → World κ → Except Err (World κ)}
    (hfa : ∀ t a b, f1 t a = .ok b → A b → A a)
    (hf : ∀ t a a' b, f1 t a = .ok a' → A a' → R a b → ∃ b', f2 t b = .ok b' ∧ R a' b') :
    ∀ (ts : List Bytes) (a a' b : World κ), perTarget f1 ts a = .ok a' → A a' → R a b →
      ∃ b', perTarget f2 ts b = .ok b' ∧ R a' b'
  | [], a, a', b, h, _, hr => by
    simp only [perTarget, Except.ok.injEq] at h
    exact ⟨b, rfl, h ▸ hr⟩
  | t :: ts, a, a', b, h, ha', hr => by
    obtain ⟨hn, am, h1, h2⟩ := perTarget_cons_inv h
    have ham := perTarget_anti A hfa ts am a' h2 ha'
    obtain ⟨bm, g1, hrm⟩ := hf t a am b h1 ham hr
    obtain ⟨b', g2, hr'⟩ := perTarget_sim R A hidx hfa hf ts am a' bm h2 ha' hrm
    refine ⟨b', ?_, hr'⟩
    rw [perTarget, hidx a b t hr, hn]
    simp only [Bool.false_eq_true, if_false, g1, g2]

/-! ## the targets end up done -/

theorem visit_root_done {σ : Type} (T : Trav σ) (r : Bool)
    (hact : ∀ sp a b, T.act sp a = .ok b → T.isDone b sp = true) :
    ∀ (fuel : Nat) (avail : List Bytes) (sp : Bytes) (a b : σ),
      visit T r fuel avail sp a = .ok b → T.isDone b sp = true
  | 0, _, _, _, _, h => by simp [visit] at h
  | fuel+1, avail, sp, a, b, h => by
    rcases visit_succ_inv h with ⟨hd, rfl⟩ | ⟨_, _, os, a1, _, _, ha⟩
    · exact hd
    · exact hact sp a1 b ha

theorem checkoutAct_done {cfg : Cfg κ} {strat : Strat} {sp : Bytes} {a b : World κ}
    (h : checkoutAct cfg strat sp a = .ok b) : b.done = sp :: a.done := by
  obtain ⟨stg, a1, _, harts, rfl⟩ := checkoutAct_inv h
  obtain ⟨e1, _, _⟩ := checkoutArts_conf _ harts
  rw [e1]

/-- the checkout traversals of a target list leave every target done -/
theorem perTarget_checkout_done {cfg : Cfg κ} {strat : Strat} {r : Bool} :
    ∀ (ts : List Bytes) (a b : World κ),
      perTarget (fun t w => visit (checkoutTrav cfg strat) r (w.idx.length + 1) (allStages w) t w) ts a
        = .ok b → ∀ t, t ∈ ts → t ∈ b.done
  | [], _, _, _, t, ht => by cases ht
  | t0 :: ts, a, b, h, t, ht => by
    obtain ⟨_, w1, h1, h2⟩ := perTarget_cons_inv h
    rcases List.mem_cons.1 ht with rfl | ht
    · have hd : t ∈ w1.done := by
        have := visit_root_done (checkoutTrav cfg strat) r
          (fun sp x y hxy => by
            show y.done.contains sp = true
            rw [checkoutAct_done hxy]; simp) _ _ t a w1 h1
        simpa [checkoutTrav] using this
      exact perTarget_keeps (fun x : World κ => t ∈ x.done)
        (fun t' x y hx hv => visit_keeps (checkoutTrav cfg strat) r (fun x : World κ => t ∈ x.done)
          (fun sp x y hx hxy => by
            show t ∈ y.done
            rw [checkoutAct_done hxy]; exact List.mem_cons_of_mem _ hx) _ _ t' x y hx hv)
        ts w1 b hd h2
    · exact perTarget_checkout_done ts w1 b h2 t ht

end Dud.CI
