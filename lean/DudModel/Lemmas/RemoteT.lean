import DudModel.World
import DudModel.RemoteSpec
import DudModel.Lemmas.Tree
/-!
# `Lemmas/Store.lean` + `Lemmas/Remote.lean` once more, on top of `Lemmas/Tree.lean`

`Lemmas/Remote.lean` (the lemmas on `gather`, `copyObjs`, `fetchLevel`, `fetchFix` under
`Props/C11.lean`) imports `Lemmas/Store.lean`, which cannot be imported together with
`Lemmas/Tree.lean` (`Store.get_put_self`, `Store.has_of_get`, `Consistent.put`, `Store.le_put` are
declared in both), hence not with `Props/C01world.lean`.  The world-level lift of C11 has to be
composed with the world-level round trip of C01, so the statements are proved here a second time:
the text of the two files, verbatim (a projection `h.inv` on `Reaches` written `Reaches.inv h`), in
the namespace `Dud.RT`, with the four clashing lemmas taken from `Lemmas/Tree.lean`.
-/
namespace Dud.RT

variable {κ : Type}

/-! ## from `Lemmas/Store.lean` -/

theorem Store.get_put_ne (s : Store κ) {d d' : Digest} (o : Obj κ) (h : d ≠ d') :
    (s.put d o).get d' = s.get d' := by
  simp [Store.get, Store.put, alookup, h]

theorem Store.has_eq_true {s : Store κ} {d : Digest} : s.has d = true ↔ ∃ o, s.get d = some o := by
  simp [Store.has, Option.isSome_iff_exists]

theorem Store.has_eq_false {s : Store κ} {d : Digest} : s.has d = false ↔ s.get d = none := by
  simp [Store.has]

/-- `get`-extension: every binding of `s` is kept verbatim -/
def Store.ext (s s' : Store κ) : Prop := ∀ d o, s.get d = some o → s'.get d = some o

theorem Store.ext.refl (s : Store κ) : Store.ext s s := fun _ _ h => h

theorem Store.ext.trans {s1 s2 s3 : Store κ} (h1 : Store.ext s1 s2) (h2 : Store.ext s2 s3) : Store.ext s1 s3 :=
  fun d o h => h2 d o (h1 d o h)

theorem Store.ext.le (ctx : Ctx κ) {s s' : Store κ} (h : Store.ext s s') : Store.le ctx s s' :=
  fun d o hd => ⟨o, h d o hd, rfl⟩

theorem Store.ext.has {s s' : Store κ} (h : Store.ext s s') {d : Digest} (hd : s.has d = true) : s'.has d = true := by
  obtain ⟨o, ho⟩ := Store.has_eq_true.1 hd
  exact Store.has_of_get (h d o ho)

theorem Store.ext_put_fresh {s : Store κ} {d : Digest} (o : Obj κ) (h : s.has d = false) : Store.ext s (s.put d o) := by
  intro d' o' h'
  by_cases hd : d = d'
  · subst hd; rw [Store.has_eq_false.1 h] at h'; cases h'
  · rw [Store.get_put_ne _ _ hd]; exact h'

theorem readManifest_congr (ctx : Ctx κ) {s s' : Store κ} {d : Digest} (h : s.get d = s'.get d) :
    readManifest ctx s d = readManifest ctx s' d := by
  simp only [readManifest, h]

theorem readManifest_ext (ctx : Ctx κ) {s s' : Store κ} (h : Store.ext s s') {d : Digest} (hd : s.has d = true) :
    readManifest ctx s' d = readManifest ctx s d := by
  obtain ⟨o, ho⟩ := Store.has_eq_true.1 hd
  exact readManifest_congr ctx (by rw [ho, h d o ho])

theorem Consistent.nil (ctx : Ctx κ) : Consistent ctx ([] : Store κ) := by
  intro d o h; simp [Store.get, alookup] at h

/-! ## from `Lemmas/Remote.lean` -/

/-! ## `Reaches` -/

theorem Reaches.inv {ctx : Ctx κ} {s : Store κ} {c : Child} {d : Digest} (h : Reaches ctx s c d) :
    d = c.sum ∨ (c.isDir = true ∧ ∃ cs k, readManifest ctx s c.sum = .ok cs ∧ k ∈ cs ∧ Reaches ctx s k d) := by
  cases h
  · exact .inl rfl
  · rename_i cs k hk hd hm hr
    exact .inr ⟨hd, cs, k, hm, hk, hr⟩

/-- the closure depends on the checksum and the kind only, not on the entry name -/
theorem Reaches.congr {ctx : Ctx κ} {s : Store κ} {c c' : Child} {d : Digest} (hs : c.sum = c'.sum)
    (hk : c.isDir = c'.isDir) (h : Reaches ctx s c d) : Reaches ctx s c' d := by
  rcases Reaches.inv h with rfl | ⟨hd, cs, k, hm, hk', hr⟩
  · rw [hs]; exact .self _
  · exact .child c' cs k d (hk ▸ hd) (hs ▸ hm) hk' hr

theorem readManifest_ok_has {ctx : Ctx κ} {s : Store κ} {d : Digest} {cs : List Child}
    (h : readManifest ctx s d = .ok cs) : s.has d = true := by
  unfold readManifest at h
  split at h
  · cases h
  · rename_i h'; exact Store.has_of_get h'
  · rename_i h'; exact Store.has_of_get h'

/-- a larger store (same bindings) reaches at least as much -/
theorem Reaches.mono {ctx : Ctx κ} {s s' : Store κ} (he : Store.ext s s') {c : Child} {d : Digest}
    (h : Reaches ctx s c d) : Reaches ctx s' c d := by
  induction h with
  | self c => exact .self c
  | child c cs k d hd hm hk _ ih =>
    exact .child c cs k d hd (by rw [readManifest_ext ctx he (readManifest_ok_has hm)]; exact hm) hk ih

/-- a non-directory reaches only itself -/
theorem Reaches.file {ctx : Ctx κ} {s : Store κ} {c : Child} {d : Digest} (hc : c.isDir = false)
    (h : Reaches ctx s c d) : d = c.sum := by
  rcases Reaches.inv h with h | ⟨hd, _⟩
  · exact h
  · rw [hc] at hd; cases hd

/-! ## `gather` -/

theorem mem_addNew {x d : Digest} {acc : List Digest} :
    d ∈ (if acc.contains x then acc else x :: acc) ↔ d = x ∨ d ∈ acc := by
  split
  · rename_i h
    have : x ∈ acc := by simpa using h
    constructor
    · exact .inr
    · rintro (rfl | h) <;> assumption
  · simp

/-- what a successful gathering pass guarantees about the accumulator, for a set `R` of digests -/
def GatherPost (s : Store κ) (R : Digest → Prop) (acc acc' : List Digest) : Prop :=
  (∀ d, d ∈ acc → d ∈ acc') ∧ (∀ d, R d → d ∈ acc' ∧ s.has d = true) ∧
    (∀ d, d ∈ acc' → d ∈ acc ∨ (R d ∧ s.has d = true))

theorem gatherChildren_post {ctx : Ctx κ} {s : Store κ} {f : Child → List Digest → Except Err (List Digest)}
    (hf : ∀ c acc acc', f c acc = .ok acc' → GatherPost s (Reaches ctx s c) acc acc') :
    ∀ (cs : List Child) (acc acc' : List Digest), gatherChildren f cs acc = .ok acc' →
      GatherPost s (fun d => ∃ k, k ∈ cs ∧ Reaches ctx s k d) acc acc' := by
  intro cs
  induction cs with
  | nil =>
    intro acc acc' h
    simp only [gatherChildren, Except.ok.injEq] at h
    subst h
    refine ⟨fun _ h => h, ?_, fun _ h => .inl h⟩
    rintro d ⟨k, hk, _⟩
    cases hk
  | cons c cs ih =>
    intro acc acc' h
    rw [gatherChildren] at h
    split at h
    · cases h
    · rename_i acc1 h1
      obtain ⟨a1, a2, a3⟩ := hf c acc acc1 h1
      obtain ⟨b1, b2, b3⟩ := ih acc1 acc' h
      refine ⟨fun d hd => b1 d (a1 d hd), ?_, ?_⟩
      · rintro d ⟨k, hk, hr⟩
        rcases List.mem_cons.1 hk with rfl | hk
        · exact ⟨b1 d (a2 d hr).1, (a2 d hr).2⟩
        · exact b2 d ⟨k, hk, hr⟩
      · intro d hd
        rcases b3 d hd with h | ⟨⟨k, hk, hr⟩, hh⟩
        · rcases a3 d h with h | ⟨hr, hh⟩
          · exact .inl h
          · exact .inr ⟨⟨c, List.mem_cons_self, hr⟩, hh⟩
        · exact .inr ⟨⟨k, List.mem_cons_of_mem _ hk, hr⟩, hh⟩

theorem gather_post (ctx : Ctx κ) (s : Store κ) : ∀ (fuel : Nat) (c : Child) (acc acc' : List Digest),
    gather ctx s fuel c acc = .ok acc' → GatherPost s (Reaches ctx s c) acc acc' := by
  intro fuel
  induction fuel with
  | zero => intro c acc acc' h; simp [gather] at h
  | succ fuel ih =>
    intro c acc acc' h
    rw [gather] at h
    split at h
    · cases h
    split at h
    · cases h
    rename_i hhas
    have hhas : s.has c.sum = true := by simpa using hhas
    split at h
    · rename_i hdir
      split at h
      · cases h
      rename_i cs hm
      split at h
      · cases h
      rename_i acc1 h1
      simp only [Except.ok.injEq] at h
      subst h
      obtain ⟨a1, a2, a3⟩ := gatherChildren_post ih cs acc acc1 h1
      refine ⟨fun d hd => mem_addNew.2 (.inr (a1 d hd)), ?_, ?_⟩
      · intro d hr
        rcases Reaches.inv hr with rfl | ⟨_, cs', k, hm', hk, hr'⟩
        · exact ⟨mem_addNew.2 (.inl rfl), hhas⟩
        · rw [hm] at hm'; cases hm'
          exact ⟨mem_addNew.2 (.inr (a2 d ⟨k, hk, hr'⟩).1), (a2 d ⟨k, hk, hr'⟩).2⟩
      · intro d hd
        rcases mem_addNew.1 hd with rfl | hd
        · exact .inr ⟨.self c, hhas⟩
        · rcases a3 d hd with h | ⟨⟨k, hk, hr⟩, hh⟩
          · exact .inl h
          · exact .inr ⟨.child c cs k d hdir hm hk hr, hh⟩
    · rename_i hdir
      have hdir : c.isDir = false := by simpa using hdir
      simp only [Except.ok.injEq] at h
      subst h
      refine ⟨fun d hd => mem_addNew.2 (.inr hd), ?_, ?_⟩
      · intro d hr
        rw [Reaches.file hdir hr]
        exact ⟨mem_addNew.2 (.inl rfl), hhas⟩
      · intro d hd
        rcases mem_addNew.1 hd with rfl | hd
        · exact .inr ⟨.self c, hhas⟩
        · exact .inl hd

theorem gatherArts_post (cfg : Cfg κ) (s : Store κ) : ∀ (arts : List Art) (acc acc' : List Digest),
    gatherArts cfg s arts acc = .ok acc' →
      GatherPost s (fun d => ∃ a, a ∈ arts ∧ a.skip = false ∧ Reaches cfg.ctx s a.child d) acc acc' := by
  intro arts
  induction arts with
  | nil =>
    intro acc acc' h
    simp only [gatherArts, Except.ok.injEq] at h
    subst h
    refine ⟨fun _ h => h, ?_, fun _ h => .inl h⟩
    rintro d ⟨k, hk, _⟩
    cases hk
  | cons a r ih =>
    intro acc acc' h
    rw [gatherArts] at h
    split at h
    · rename_i hskip
      obtain ⟨b1, b2, b3⟩ := ih acc acc' h
      refine ⟨b1, ?_, ?_⟩
      · rintro d ⟨k, hk, hs, hr⟩
        rcases List.mem_cons.1 hk with rfl | hk
        · rw [hskip] at hs; cases hs
        · exact b2 d ⟨k, hk, hs, hr⟩
      · intro d hd
        rcases b3 d hd with h | ⟨⟨k, hk, hs, hr⟩, hh⟩
        · exact .inl h
        · exact .inr ⟨⟨k, List.mem_cons_of_mem _ hk, hs, hr⟩, hh⟩
    · rename_i hskip
      have hskip : a.skip = false := by simpa using hskip
      split at h
      · cases h
      rename_i acc1 h1
      obtain ⟨a1, a2, a3⟩ := gather_post cfg.ctx s cfg.fuel a.child acc acc1 h1
      obtain ⟨b1, b2, b3⟩ := ih acc1 acc' h
      refine ⟨fun d hd => b1 d (a1 d hd), ?_, ?_⟩
      · rintro d ⟨k, hk, hs, hr⟩
        rcases List.mem_cons.1 hk with rfl | hk
        · exact ⟨b1 d (a2 d hr).1, (a2 d hr).2⟩
        · exact b2 d ⟨k, hk, hs, hr⟩
      · intro d hd
        rcases b3 d hd with h | ⟨⟨k, hk, hs, hr⟩, hh⟩
        · rcases a3 d h with h | ⟨hr, hh⟩
          · exact .inl h
          · exact .inr ⟨⟨a, List.mem_cons_self, hskip, hr⟩, hh⟩
        · exact .inr ⟨⟨k, List.mem_cons_of_mem _ hk, hs, hr⟩, hh⟩

/-! ## `copyObjs` -/

theorem copyObjs_post (src : Store κ) : ∀ (ds : List Digest) (dst dst' : Store κ),
    copyObjs src dst ds = .ok dst' →
      Store.ext dst dst' ∧ (∀ d, d ∈ ds → dst'.has d = true ∧ src.has d = true) ∧
        (∀ d o, dst'.get d = some o → dst.get d = some o ∨ (d ∈ ds ∧ dst.has d = false ∧ src.get d = some o)) := by
  intro ds
  induction ds with
  | nil =>
    intro dst dst' h
    simp only [copyObjs, Except.ok.injEq] at h
    subst h
    refine ⟨.refl _, ?_, fun d o h => .inl h⟩
    intro d hd
    cases hd
  | cons x r ih =>
    intro dst dst' h
    rw [copyObjs] at h
    split at h
    · cases h
    rename_i o hx
    obtain ⟨b1, b2, b3⟩ := ih _ dst' h
    by_cases hh : dst.has x = true
    · simp only [hh, if_true] at b1 b2 b3
      refine ⟨b1, ?_, ?_⟩
      · intro d hd
        rcases List.mem_cons.1 hd with rfl | hd
        · exact ⟨b1.has hh, Store.has_of_get hx⟩
        · exact b2 d hd
      · intro d o' hd
        rcases b3 d o' hd with h | ⟨h1, h2, h3⟩
        · exact .inl h
        · exact .inr ⟨List.mem_cons_of_mem _ h1, h2, h3⟩
    · have hh : dst.has x = false := by simpa using hh
      simp only [hh, Bool.false_eq_true, if_false] at b1 b2 b3
      have e0 : Store.ext dst (dst.put x o) := Store.ext_put_fresh o hh
      refine ⟨e0.trans b1, ?_, ?_⟩
      · intro d hd
        rcases List.mem_cons.1 hd with rfl | hd
        · exact ⟨b1.has (Store.has_of_get (Store.get_put_self _ _ _)), Store.has_of_get hx⟩
        · exact b2 d hd
      · intro d o' hd
        rcases b3 d o' hd with h | ⟨h1, h2, h3⟩
        · by_cases hxd : x = d
          · subst hxd
            rw [Store.get_put_self] at h; cases h
            exact .inr ⟨List.mem_cons_self, hh, hx⟩
          · rw [Store.get_put_ne _ _ hxd] at h; exact .inl h
        · refine .inr ⟨List.mem_cons_of_mem _ h1, ?_, h3⟩
          by_cases hxd : x = d
          · subst hxd; exact hh
          · rw [Store.has, Store.get_put_ne _ _ hxd] at h2; exact h2

/-- new objects of a copy are consistent when the source is -/
theorem copyObjs_consistent {ctx : Ctx κ} {src dst dst' : Store κ} {ds : List Digest}
    (h : copyObjs src dst ds = .ok dst') (hs : Consistent ctx src) (hd : Consistent ctx dst) :
    Consistent ctx dst' := by
  intro d o ho
  rcases (copyObjs_post src ds dst dst' h).2.2 d o ho with h | ⟨_, _, h⟩
  · exact hd d o h
  · exact hs d o h

/-! ## fetch -/

theorem Occurs.mono {ctx : Ctx κ} {s s' : Store κ} (he : Store.ext s s') {c : Child} (h : Occurs ctx s c) :
    Occurs ctx s' c := by
  obtain ⟨d, cs, hm, hc⟩ := h
  exact ⟨d, cs, by rw [readManifest_ext ctx he (readManifest_ok_has hm)]; exact hm, hc⟩

/-- every manifest readable from a store assembled out of two others is readable from one of them -/
theorem Occurs.of_prov {ctx : Ctx κ} {s a b : Store κ}
    (hp : ∀ d o, s.get d = some o → a.get d = some o ∨ b.get d = some o) {c : Child} (h : Occurs ctx s c) :
    Occurs ctx a c ∨ Occurs ctx b c := by
  obtain ⟨d, cs, hm, hc⟩ := h
  obtain ⟨o, ho⟩ := Store.has_eq_true.1 (readManifest_ok_has hm)
  rcases hp d o ho with h | h
  · exact .inl ⟨d, cs, by rw [← hm]; exact readManifest_congr ctx (by rw [h, ho]), hc⟩
  · exact .inr ⟨d, cs, by rw [← hm]; exact readManifest_congr ctx (by rw [h, ho]), hc⟩

theorem dedupBySum_sub : ∀ (l : List Child) (c : Child), c ∈ dedupBySum l → c ∈ l := by
  intro l
  induction l with
  | nil => intro c h; cases h
  | cons x r ih =>
    intro c h
    rw [dedupBySum] at h
    split at h
    · exact List.mem_cons_of_mem _ (ih c h)
    · rcases List.mem_cons.1 h with rfl | h
      · exact List.mem_cons_self
      · exact List.mem_cons_of_mem _ (ih c h)

/-- every checksum of the level survives the keying by checksum (possibly under another entry) -/
theorem dedupBySum_cover : ∀ (l : List Child) (c : Child), c ∈ l → ∃ c', c' ∈ dedupBySum l ∧ c'.sum = c.sum := by
  intro l
  induction l with
  | nil => intro c h; cases h
  | cons x r ih =>
    intro c h
    rw [dedupBySum]
    split
    · rename_i hany
      rcases List.mem_cons.1 h with rfl | h
      · obtain ⟨y, hy, hys⟩ := List.any_eq_true.1 hany
        obtain ⟨c', hc', hs⟩ := ih y hy
        exact ⟨c', hc', hs.trans (by simpa using hys)⟩
      · exact ih c h
    · rcases List.mem_cons.1 h with rfl | h
      · exact ⟨c, List.mem_cons_self, rfl⟩
      · obtain ⟨c', hc', hs⟩ := ih c h
        exact ⟨c', List.mem_cons_of_mem _ hc', hs⟩

theorem fetchKids_post (ctx : Ctx κ) (s : Store κ) : ∀ (ds : List Digest) (cs : List Child),
    fetchLevel.kids ctx s ds = .ok cs →
      (∀ d, d ∈ ds → ∃ cs0, readManifest ctx s d = .ok cs0 ∧ ∀ k, k ∈ cs0 → k ∈ cs) ∧
      (∀ k, k ∈ cs → ∃ d, d ∈ ds ∧ ∃ cs0, readManifest ctx s d = .ok cs0 ∧ k ∈ cs0) := by
  intro ds
  induction ds with
  | nil =>
    intro cs h
    simp only [fetchLevel.kids, Except.ok.injEq] at h
    subst h
    constructor
    · intro d hd; cases hd
    · intro k hk; cases hk
  | cons x r ih =>
    intro cs h
    rw [fetchLevel.kids] at h
    split at h
    · cases h
    rename_i cs0 hm
    split at h
    · cases h
    rename_i rest hr
    simp only [Except.ok.injEq] at h
    subst h
    obtain ⟨a1, a2⟩ := ih rest hr
    constructor
    · intro d hd
      rcases List.mem_cons.1 hd with rfl | hd
      · exact ⟨cs0, hm, fun k hk => List.mem_append_left _ hk⟩
      · obtain ⟨c1, h1, h2⟩ := a1 d hd
        exact ⟨c1, h1, fun k hk => List.mem_append_right _ (h2 k hk)⟩
    · intro k hk
      rcases List.mem_append.1 hk with hk | hk
      · exact ⟨x, List.mem_cons_self, cs0, hm, hk⟩
      · obtain ⟨d, hd, c1, h1, h2⟩ := a2 k hk
        exact ⟨d, List.mem_cons_of_mem _ hd, c1, h1, h2⟩

/-- one level of fetch: everything the level names is present afterwards, the manifests of its
directories have been read and their entries form the next level -/
theorem fetchLevel_post {ctx : Ctx κ} {remote loc loc1 : Store κ} {arts kids : List Child}
    (h : fetchLevel ctx remote loc arts = .ok (loc1, kids)) :
    Store.ext loc loc1 ∧
    (∀ d o, loc1.get d = some o → loc.get d = some o ∨ remote.get d = some o) ∧
    (∀ a, a ∈ arts → hasSum a.sum = true ∧ loc1.has a.sum = true) ∧
    (∀ a, a ∈ arts → a.isDir = true → ∃ cs0, readManifest ctx loc1 a.sum = .ok cs0 ∧ ∀ k, k ∈ cs0 → k ∈ kids) ∧
    (∀ k, k ∈ kids → ∃ a, a ∈ arts ∧ a.isDir = true ∧ ∃ cs0, readManifest ctx loc1 a.sum = .ok cs0 ∧ k ∈ cs0) := by
  unfold fetchLevel at h
  split at h
  · cases h
  rename_i hsum
  dsimp only at h
  split at h
  · cases h
  rename_i l1 hc
  split at h
  · cases h
  rename_i cs hk
  simp only [Except.ok.injEq, Prod.mk.injEq] at h
  obtain ⟨rfl, rfl⟩ := h
  obtain ⟨c1, c2, c3⟩ := copyObjs_post remote _ loc l1 hc
  obtain ⟨k1, k2⟩ := fetchKids_post ctx l1 _ cs hk
  refine ⟨c1, ?_, ?_, ?_, ?_⟩
  · intro d o ho
    rcases c3 d o ho with h | ⟨_, _, h⟩
    · exact .inl h
    · exact .inr h
  · intro a ha
    constructor
    · have := hsum
      simp only [List.any_eq_true, not_exists, not_and] at this
      simpa using this a ha
    · by_cases hl : loc.has a.sum = true
      · exact c1.has hl
      · refine (c2 a.sum ?_).1
        rw [List.mem_eraseDups]
        exact List.mem_map.2 ⟨a, List.mem_filter.2 ⟨ha, by simpa using hl⟩, rfl⟩
  · intro a ha hd
    refine k1 a.sum ?_
    rw [List.mem_eraseDups]
    exact List.mem_map.2 ⟨a, List.mem_filter.2 ⟨ha, hd⟩, rfl⟩
  · intro k hk
    obtain ⟨d, hd, cs0, hm, hk0⟩ := k2 k hk
    rw [List.mem_eraseDups] at hd
    obtain ⟨a, ha, rfl⟩ := List.mem_map.1 hd
    obtain ⟨ha1, ha2⟩ := List.mem_filter.1 ha
    exact ⟨a, ha1, ha2, cs0, hm, hk0⟩

/-- fetch only adds objects, all taken verbatim from the remote -/
theorem fetchFix_ext (ctx : Ctx κ) (remote : Store κ) : ∀ (fuel : Nat) (loc : Store κ) (arts : List Child)
    (loc' : Store κ), fetchFix ctx remote fuel loc arts = .ok loc' →
      Store.ext loc loc' ∧ ∀ d o, loc'.get d = some o → loc.get d = some o ∨ remote.get d = some o := by
  intro fuel
  induction fuel with
  | zero => intro loc arts loc' h; simp [fetchFix] at h
  | succ fuel ih =>
    intro loc arts loc' h
    rw [fetchFix] at h
    split at h
    · cases h
    rename_i loc1 kids hl
    obtain ⟨e1, p1, _⟩ := fetchLevel_post hl
    split at h
    · simp only [Except.ok.injEq] at h
      subst h
      exact ⟨e1, p1⟩
    · obtain ⟨e2, p2⟩ := ih _ _ _ h
      refine ⟨e1.trans e2, ?_⟩
      intro d o ho
      rcases p2 d o ho with h | h
      · exact p1 d o h
      · exact .inr h

/-- Closure of fetch, given that in the resulting cache no checksum is listed both as a file and as
a directory: the closure of every requested entry is present. -/
theorem fetchFix_closed (ctx : Ctx κ) (remote : Store κ) : ∀ (fuel : Nat) (loc : Store κ) (arts : List Child)
    (loc' : Store κ), fetchFix ctx remote fuel loc arts = .ok loc' → KindsAgree (Occurs ctx loc') →
      ∀ a, a ∈ arts → ∀ d, Reaches ctx loc' a d → loc'.has d = true := by
  intro fuel
  induction fuel with
  | zero => intro loc arts loc' h; simp [fetchFix] at h
  | succ fuel ih =>
    intro loc arts loc' h hka a ha d hr
    rw [fetchFix] at h
    split at h
    · cases h
    rename_i loc1 kids hl
    obtain ⟨e1, p1, q1, q2, q3⟩ := fetchLevel_post hl
    split at h
    · rename_i hemp
      simp only [Except.ok.injEq] at h
      subst h
      rcases Reaches.inv hr with rfl | ⟨hdir, cs, k, hm, hk, _⟩
      · exact (q1 a ha).2
      · obtain ⟨cs0, hm0, hsub⟩ := q2 a ha hdir
        rw [hm] at hm0; cases hm0
        have := hsub k hk
        rw [List.isEmpty_iff.1 hemp] at this
        cases this
    · have e2 := (fetchFix_ext ctx remote fuel _ _ _ h).1
      rcases Reaches.inv hr with rfl | ⟨hdir, cs, k, hm, hk, hrk⟩
      · exact e2.has (q1 a ha).2
      · obtain ⟨cs0, hm0, hsub⟩ := q2 a ha hdir
        rw [readManifest_ext ctx e2 (q1 a ha).2, hm0] at hm
        have hcs : cs0 = cs := by injection hm
        rw [← hcs] at hk
        obtain ⟨k', hk', hs⟩ := dedupBySum_cover kids k (hsub k hk)
        have ok : Occurs ctx loc' k := Occurs.mono e2 ⟨a.sum, cs0, hm0, hk⟩
        have ok' : Occurs ctx loc' k' := by
          obtain ⟨b, _, _, cs1, hm1, hk1⟩ := q3 k' (dedupBySum_sub kids k' hk')
          exact Occurs.mono e2 ⟨b.sum, cs1, hm1, hk1⟩
        have hkind := hka k k' ok ok' hs.symm
        exact ih _ _ _ h hka k' hk' d (Reaches.congr hs.symm hkind hrk)

/-! ## checkout needs only the closure -/

theorem readManifest_not_missing {ctx : Ctx κ} {s : Store κ} {d : Digest} (h : s.has d = true) :
    readManifest ctx s d ≠ .error .missingFromCache := by
  obtain ⟨o, ho⟩ := Store.has_eq_true.1 h
  have hck : ∀ cs : List Child, checkedChildren cs ≠ .error .missingFromCache := by
    intro cs; unfold checkedChildren; split <;> simp
  rw [readManifest_eq, ho]
  cases o with
  | blob c => dsimp only; split
              · exact hck _
              · simp
  | man sch p cs => exact hck _

theorem checkoutFile_not_missing {ctx : Ctx κ} {strat : Strat} {cur : Option (Node κ)} {sum : Digest} {s : Store κ}
    (h : s.has sum = true) : checkoutFile ctx strat cur sum s ≠ .error .missingFromCache := by
  intro hh
  obtain ⟨o, ho⟩ := Store.has_eq_true.1 h
  unfold checkoutFile at hh
  dsimp only at hh
  split at hh
  · cases hh
  rename_i h1
  split at hh
  · rename_i h2
    simp [quick, h] at h1 h2
    simp [h1] at h2
  rw [ho] at hh
  dsimp only at hh
  repeat' split at hh
  all_goals cases hh

theorem checkoutChildren_not_missing {f : Option (Node κ) → Child → Except Err (Node κ)} {P : Child → Prop}
    (hf : ∀ cur c, P c → f cur c ≠ .error .missingFromCache) :
    ∀ (cs : List Child) (es : List (Name × Node κ)), (∀ c, c ∈ cs → P c) →
      checkoutChildren f es cs ≠ .error .missingFromCache := by
  intro cs
  induction cs with
  | nil => intro es _ h; simp [checkoutChildren] at h
  | cons c cs ih =>
    intro es hp h
    rw [checkoutChildren] at h
    split at h
    · rename_i e he
      injection h with h
      subst h
      exact hf _ c (hp c List.mem_cons_self) he
    · exact ih _ (fun k hk => hp k (List.mem_cons_of_mem _ hk)) h

/-- checkout of an entry whose closure is present never reports a missing object -/
theorem checkoutNode_not_missing (ctx : Ctx κ) (strat : Strat) (s : Store κ) :
    ∀ (fuel : Nat) (cur : Option (Node κ)) (c : Child), (∀ d, Reaches ctx s c d → s.has d = true) →
      checkoutNode ctx strat s fuel cur c ≠ .error .missingFromCache := by
  intro fuel
  induction fuel with
  | zero => intro cur c _ h; simp [checkoutNode] at h
  | succ fuel ih =>
    intro cur c hcl h
    have hself := hcl _ (.self c)
    have hkids : ∀ cs, readManifest ctx s c.sum = .ok cs → c.isDir = true →
        ∀ es, checkoutChildren (checkoutNode ctx strat s fuel) es cs ≠ .error .missingFromCache := by
      intro cs hm hd es
      refine checkoutChildren_not_missing (P := fun k => ∀ d, Reaches ctx s k d → s.has d = true)
        (fun cur k hk => ih cur k hk) cs es ?_
      intro k hk d hr
      exact hcl d (.child c cs k d hd hm hk hr)
    unfold checkoutNode at h
    split at h
    · rename_i hd
      split at h
      · cases h
      split at h
      · rename_i h2; simp [hself] at h2
      split at h
      · split at h
        · rename_i e he
          injection h with h
          subst h
          exact readManifest_not_missing hself he
        · rename_i cs hm
          split at h
          · rename_i e he
            injection h with h
            subst h
            exact hkids cs hm hd _ he
          · cases h
      · split at h
        · rename_i e he
          injection h with h
          subst h
          exact readManifest_not_missing hself he
        · rename_i cs hm
          split at h
          · rename_i e he
            injection h with h
            subst h
            exact hkids cs hm hd _ he
          · cases h
      · cases h
    · exact checkoutFile_not_missing hself h

end Dud.RT
