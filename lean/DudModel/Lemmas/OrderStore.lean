import DudModel.Lemmas.Tree
import DudModel.Lemmas.Sort
/-!
# Stores as finite maps up to bytes; blocks of puts (`Δ ++ s`)

Helpers for C13 (order independence).  A commit only ever *prepends* bindings to the store
(`Store.put = cons`), so the store after a commit is `Δ ++ s` for a block `Δ` of new bindings.
Two blocks of content-addressed bindings commute as finite maps (up to the bytes of the objects;
the typed model distinguishes a blob holding the bytes of a manifest from the manifest itself,
the real cache does not).
-/
namespace Dud

variable {κ : Type}

/-- The two stores are the same cache: the same digests are present, with the same bytes. -/
def Store.eqv (ctx : Ctx κ) (s t : Store κ) : Prop :=
  ∀ d, (s.get d).map (Obj.bytes ctx) = (t.get d).map (Obj.bytes ctx)

theorem Store.eqv.refl (ctx : Ctx κ) (s : Store κ) : Store.eqv ctx s s := fun _ => rfl

theorem Store.eqv.symm {ctx : Ctx κ} {s t : Store κ} (h : Store.eqv ctx s t) : Store.eqv ctx t s :=
  fun d => (h d).symm

theorem Store.eqv.trans {ctx : Ctx κ} {s t u : Store κ} (h1 : Store.eqv ctx s t)
    (h2 : Store.eqv ctx t u) : Store.eqv ctx s u := fun d => (h1 d).trans (h2 d)

theorem Store.eqv.le {ctx : Ctx κ} {s t : Store κ} (h : Store.eqv ctx s t) : Store.le ctx s t := by
  intro d o hd
  have := h d
  rw [hd] at this
  cases ht : t.get d with
  | none => rw [ht] at this; cases this
  | some o' =>
    rw [ht] at this
    simp only [Option.map_some, Option.some.injEq] at this
    exact ⟨o', rfl, this.symm⟩

/-- `eqv` is mutual `Store.le` -/
theorem Store.eqv_iff_le (ctx : Ctx κ) (s t : Store κ) :
    Store.eqv ctx s t ↔ Store.le ctx s t ∧ Store.le ctx t s := by
  constructor
  · exact fun h => ⟨h.le, h.symm.le⟩
  · rintro ⟨h1, h2⟩ d
    cases hs : s.get d with
    | some o =>
      obtain ⟨o', h', hb⟩ := h1 d o hs
      simp [h', hb]
    | none =>
      cases ht : t.get d with
      | none => rfl
      | some o' =>
        obtain ⟨o, h', _⟩ := h2 d o' ht
        rw [hs] at h'; cases h'

theorem Store.eqv.has {ctx : Ctx κ} {s t : Store κ} (h : Store.eqv ctx s t) (d : Digest) :
    s.has d = t.has d := by
  have := congrArg Option.isSome (h d)
  simpa [Store.has] using this

theorem Store.eqv.readManifest {ctx : Ctx κ} (g : Good ctx) {s t : Store κ}
    (h : Store.eqv ctx s t) (d : Digest) : readManifest ctx s d = readManifest ctx t d := by
  cases hs : s.get d with
  | some o =>
    obtain ⟨o', h', hb⟩ := h.le d o hs
    exact (readManifest_bytes g hs h' hb).symm
  | none =>
    have ht : t.get d = none := by
      have := h d
      rw [hs] at this
      cases ht : t.get d with
      | none => rfl
      | some o' => rw [ht] at this; cases this
    simp [readManifest_eq, hs, ht]

theorem Store.eqv.oldManifest {ctx : Ctx κ} (g : Good ctx) {s t : Store κ}
    (h : Store.eqv ctx s t) (d : Digest) : oldManifest ctx s d = oldManifest ctx t d := by
  simp only [Dud.oldManifest, h.has d, h.readManifest g d]

/-! ## blocks of new bindings -/

/-- every binding of the block sits under the digest of its object -/
def DeltaOK (ctx : Ctx κ) (Δ : Store κ) : Prop := ∀ p ∈ Δ, p.2.digest ctx = p.1

theorem DeltaOK.nil (ctx : Ctx κ) : DeltaOK ctx ([] : Store κ) := fun _ h => by cases h

theorem DeltaOK.cons {ctx : Ctx κ} {Δ : Store κ} (o : Obj κ) (h : DeltaOK ctx Δ) :
    DeltaOK ctx ((o.digest ctx, o) :: Δ) := by
  intro p hp
  rcases List.mem_cons.1 hp with rfl | hp
  · rfl
  · exact h p hp

theorem DeltaOK.append {ctx : Ctx κ} {Δ1 Δ2 : Store κ} (h1 : DeltaOK ctx Δ1) (h2 : DeltaOK ctx Δ2) :
    DeltaOK ctx (Δ1 ++ Δ2) := by
  intro p hp
  rcases List.mem_append.1 hp with hp | hp
  · exact h1 p hp
  · exact h2 p hp

theorem Store.get_append (Δ s : Store κ) (d : Digest) :
    Store.get (Δ ++ s) d = match Store.get Δ d with
      | some o => some o
      | none => Store.get s d := by
  induction Δ with
  | nil => simp [Store.get, alookup]
  | cons p Δ ih =>
    obtain ⟨k, v⟩ := p
    simp only [Store.get] at ih ⊢
    simp only [List.cons_append, alookup]
    split
    · rfl
    · exact ih

theorem DeltaOK.get {ctx : Ctx κ} {Δ : Store κ} (h : DeltaOK ctx Δ) {d : Digest} {o : Obj κ}
    (hd : Store.get Δ d = some o) : o.digest ctx = d :=
  h (d, o) (alookup_mem hd)

theorem Consistent.append {ctx : Ctx κ} {Δ s : Store κ} (hΔ : DeltaOK ctx Δ)
    (hs : Consistent ctx s) : Consistent ctx (Δ ++ s) := by
  intro d o h
  rw [Store.get_append] at h
  split at h
  · next o' ho' => cases h; exact hΔ.get ho'
  · exact hs d o h

/-- a block of content-addressed bindings loses nothing of a consistent store -/
theorem Store.le_append {ctx : Ctx κ} (g : Good ctx) {Δ s : Store κ} (hΔ : DeltaOK ctx Δ)
    (hs : Consistent ctx s) : Store.le ctx s (Δ ++ s) := by
  intro d o h
  rw [Store.get_append]
  cases hd : Store.get Δ d with
  | none => exact ⟨o, h, rfl⟩
  | some o' =>
    refine ⟨o', rfl, ?_⟩
    exact g.inj _ _ ((hΔ.get hd).trans (hs d o h).symm)

theorem Store.le_append_congr {ctx : Ctx κ} (Δ : Store κ) {s t : Store κ} (h : Store.le ctx s t) :
    Store.le ctx (Δ ++ s) (Δ ++ t) := by
  intro d o hd
  rw [Store.get_append] at hd
  rw [Store.get_append]
  cases hΔ : Store.get Δ d with
  | none => rw [hΔ] at hd; exact h d o hd
  | some o' => rw [hΔ] at hd; cases hd; exact ⟨o, rfl, rfl⟩

theorem Store.eqv_append_congr {ctx : Ctx κ} (Δ : Store κ) {s t : Store κ}
    (h : Store.eqv ctx s t) : Store.eqv ctx (Δ ++ s) (Δ ++ t) := by
  intro d
  rw [Store.get_append, Store.get_append]
  cases hΔ : Store.get Δ d with
  | none => exact h d
  | some o' => rfl

/-- two blocks of content-addressed bindings commute (collision freedom of the hash) -/
theorem Store.eqv_append_comm {ctx : Ctx κ} (g : Good ctx) {Δ1 Δ2 : Store κ}
    (h1 : DeltaOK ctx Δ1) (h2 : DeltaOK ctx Δ2) (s : Store κ) :
    Store.eqv ctx (Δ1 ++ (Δ2 ++ s)) (Δ2 ++ (Δ1 ++ s)) := by
  intro d
  simp only [Store.get_append]
  cases hd1 : Store.get Δ1 d with
  | none => rfl
  | some o1 =>
    cases hd2 : Store.get Δ2 d with
    | none => rfl
    | some o2 =>
      have : o1.bytes ctx = o2.bytes ctx := g.inj _ _ ((h1.get hd1).trans (h2.get hd2).symm)
      simp [this]

theorem Store.eqv_put_congr {ctx : Ctx κ} {s t : Store κ} (h : Store.eqv ctx s t) (d : Digest)
    (o : Obj κ) : Store.eqv ctx (s.put d o) (t.put d o) :=
  Store.eqv_append_congr [(d, o)] h

theorem Consistent.of_le_nil (ctx : Ctx κ) : Consistent ctx ([] : Store κ) := by
  intro d o h; simp [Store.get, alookup] at h

end Dud
