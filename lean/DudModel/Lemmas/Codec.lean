import DudModel.Spec
/-!
# A concrete context satisfying `Good` (non-vacuity witness)

Contents are a small inductive type `K` (raw bytes given as a string, or a typed manifest); the
"hash" is an injective printing of `K` into strings, prefixed by `"xxx"`.  Injectivity is proved by
showing that the printing is a prefix-free code.
-/
namespace Dud.Example

/-- prefix-free code: equal concatenations have equal heads and equal rests -/
def PF {α : Type} (enc : α → List Char) : Prop :=
  ∀ a b r1 r2, enc a ++ r1 = enc b ++ r2 → a = b ∧ r1 = r2

theorem PF.inj {α : Type} {enc : α → List Char} (h : PF enc) {a b : α} (e : enc a = enc b) :
    a = b := (h a b [] [] (by simp [e])).1

def encNat : Nat → List Char
  | 0 => ['0']
  | n+1 => '1' :: encNat n

theorem pf_encNat : PF encNat := by
  intro a
  induction a with
  | zero =>
    intro b r1 r2 h
    cases b with
    | zero => simpa [encNat] using h
    | succ b => simp [encNat] at h
  | succ a ih =>
    intro b r1 r2 h
    cases b with
    | zero => simp [encNat] at h
    | succ b =>
      simp only [encNat, List.cons_append, List.cons.injEq, true_and] at h
      obtain ⟨h1, h2⟩ := ih b r1 r2 h
      exact ⟨by rw [h1], h2⟩

def encBool : Bool → List Char
  | false => ['0']
  | true => ['1']

theorem pf_encBool : PF encBool := by
  intro a b r1 r2 h
  cases a <;> cases b <;> simp [encBool] at h ⊢ <;> exact h

def encChar (c : Char) : List Char := [c]

theorem pf_encChar : PF encChar := by
  intro a b r1 r2 h
  simpa [encChar] using h

def encList {α : Type} (enc : α → List Char) : List α → List Char
  | [] => ['0']
  | a :: l => '1' :: (enc a ++ encList enc l)

theorem pf_encList {α : Type} {enc : α → List Char} (h : PF enc) : PF (encList enc) := by
  intro a
  induction a with
  | nil =>
    intro b r1 r2 e
    cases b with
    | nil => simpa [encList] using e
    | cons y ys => simp [encList] at e
  | cons x xs ih =>
    intro b r1 r2 e
    cases b with
    | nil => simp [encList] at e
    | cons y ys =>
      simp only [encList, List.cons_append, List.cons.injEq, true_and, List.append_assoc] at e
      obtain ⟨h1, h2⟩ := h x y _ _ e
      obtain ⟨h3, h4⟩ := ih ys r1 r2 h2
      exact ⟨by rw [h1, h3], h4⟩

/-- composing an injection with a prefix-free code -/
theorem pf_comp {α β : Type} {enc : β → List Char} (h : PF enc) (f : α → β)
    (hf : ∀ a b, f a = f b → a = b) : PF (fun a => enc (f a)) := by
  intro a b r1 r2 e
  obtain ⟨h1, h2⟩ := h (f a) (f b) r1 r2 e
  exact ⟨hf a b h1, h2⟩

def encU8 (u : UInt8) : List Char := encNat u.toNat

theorem pf_encU8 : PF encU8 :=
  pf_comp pf_encNat UInt8.toNat (fun _ _ h => UInt8.toNat_inj.1 h)

def encBytes : Bytes → List Char := encList encU8

theorem pf_encBytes : PF encBytes := pf_encList pf_encU8

def encString (s : String) : List Char := encList encChar s.toList

theorem pf_encString : PF encString :=
  pf_comp (pf_encList pf_encChar) String.toList (fun _ _ h => String.toList_inj.1 h)

def encSchema : Schema → List Char
  | .new => ['0']
  | .old => ['1']

theorem pf_encSchema : PF encSchema := by
  intro a b r1 r2 h
  cases a <;> cases b <;> simp [encSchema] at h ⊢ <;> exact h

def encChild (c : Child) : List Char := encBytes c.name ++ (encString c.sum ++ encBool c.isDir)

theorem pf_encChild : PF encChild := by
  intro a b r1 r2 h
  simp only [encChild, List.append_assoc] at h
  obtain ⟨h1, h⟩ := pf_encBytes _ _ _ _ h
  obtain ⟨h2, h⟩ := pf_encString _ _ _ _ h
  obtain ⟨h3, h⟩ := pf_encBool _ _ _ _ h
  cases a; cases b; simp_all

/-- file contents of the example: raw data or a typed manifest -/
inductive K where
  | raw (s : String)
  | man (sch : Schema) (p : Bytes) (cs : List Child)
deriving DecidableEq, Repr, Inhabited

def encK : K → List Char
  | .raw s => '0' :: encString s
  | .man sch p cs => '1' :: (encSchema sch ++ (encBytes p ++ encList encChild cs))

theorem pf_encK : PF encK := by
  intro a b r1 r2 h
  cases a with
  | raw s =>
    cases b with
    | raw s' =>
      simp only [encK, List.cons_append, List.cons.injEq, true_and] at h
      obtain ⟨h1, h⟩ := pf_encString _ _ _ _ h
      exact ⟨by rw [h1], h⟩
    | man _ _ _ => simp [encK] at h
  | man sch p cs =>
    cases b with
    | raw _ => simp [encK] at h
    | man sch' p' cs' =>
      simp only [encK, List.cons_append, List.cons.injEq, true_and, List.append_assoc] at h
      obtain ⟨h1, h⟩ := pf_encSchema _ _ _ _ h
      obtain ⟨h2, h⟩ := pf_encBytes _ _ _ _ h
      obtain ⟨h3, h⟩ := pf_encList pf_encChild _ _ _ _ h
      exact ⟨by rw [h1, h2, h3], h⟩

/-- the example context: injective "hash", typed manifests as their own bytes, honest decoder -/
def ctx : Ctx K where
  H := fun k => String.ofList ('x' :: 'x' :: 'x' :: encK k)
  encMan := K.man
  decBlob := fun k => match k with
    | .man _ _ cs => some cs
    | .raw _ => none
  reload := fun _ c => c
  nameOK := fun _ => true

theorem good : Good ctx where
  inj := by
    intro a b h
    have h' := String.ofList_injective h
    simp only [List.cons.injEq, true_and] at h'
    exact pf_encK.inj h'
  len := by
    intro a
    show 3 ≤ (String.ofList ('x' :: 'x' :: 'x' :: encK a)).length
    rw [String.length_ofList]
    simp only [List.length_cons]
    omega
  dec := by
    intro sch p cs
    simp [ctx]

end Dud.Example
