import DudModel.Blake3Spec
import DudModel.Blake3Total
/-!
# Lemmas: the total executable BLAKE3 (`Blake3T`) computes the list specification

Core-only.  Helper lemmas for `Props/C14total.lean`.

* `ByteArray` plumbing: `toList_eq` (`b.toList = b.data.toList`), `get!_eq_getD`, and `slice b off len`,
  the sub-list of the array's bytes that the executable code reads by index.
* Word layer: `wordsOfBlock_eq` (the 16 message words read from the array = `wordsOfBytes` of the
  slice, unconditionally) and `rootBytes_toList` (the `for` loop of `Output.rootBytes` = `bytesOfWords`).
* Chunk layer: `chunkLoop_spec` (the block loop = the spec's `chunkTailF`), `chunkOutput_spec`.
* Hex: `foldl_eq_data` (`ByteArray.foldl` = list fold), `toHex_eq_spec` (`Blake3.toHex` = spec `toHex`).
* Tree layer: `leftLen_eq_spec`, `splitChunks_eq_map` (the spec's chunk list is `chunkBytes b` mapped over
  the chunk indices), `subtree_spec`.
-/
namespace Dud.Blake3Total
open Dud Dud.Blake3Spec

/-! ## `ByteArray` plumbing -/

theorem size_eq_length (b : ByteArray) : b.size = b.data.toList.length := by
  rw [← ByteArray.size_data, Array.length_toList]

theorem get!_eq_getD (b : ByteArray) (i : Nat) : b.get! i = b.data.toList.getD i 0 := by
  cases b with
  | mk d =>
    show d[i]! = d.toList.getD i 0
    rw [List.getD_eq_getElem?_getD, Array.getElem?_toList, getElem!_def]
    cases d[i]? <;> rfl

theorem toList_loop_eq (b : ByteArray) (i : Nat) (r : List UInt8) :
    ByteArray.toList.loop b i r = r.reverse ++ b.data.toList.drop i := by
  fun_induction ByteArray.toList.loop b i r with
  | case1 i r h ih =>
    rw [ih]
    have hi : i < b.data.toList.length := by rw [← size_eq_length]; exact h
    rw [List.drop_eq_getElem_cons hi, get!_eq_getD, List.getD_eq_getElem?_getD,
      List.getElem?_eq_getElem hi]
    simp
  | case2 i r h =>
    have : b.data.toList.length ≤ i := by rw [← size_eq_length]; omega
    simp [List.drop_eq_nil_of_le this]

/-- Core's `ByteArray.toList` (a loop over indices) is the list of the underlying array. -/
theorem toList_eq (b : ByteArray) : b.toList = b.data.toList := by
  unfold ByteArray.toList
  rw [toList_loop_eq]; simp

/-- The bytes `[off, off+len)` of the array (fewer if the array ends before). -/
def slice (b : ByteArray) (off len : Nat) : Bytes := (b.data.toList.drop off).take len

theorem slice_length (b : ByteArray) (off len : Nat) :
    (slice b off len).length = min len (b.size - off) := by
  unfold slice
  rw [List.length_take, List.length_drop, size_eq_length]

theorem slice_length_of_le (b : ByteArray) {off len : Nat} (h : off + len ≤ b.size) :
    (slice b off len).length = len := by
  rw [slice_length]; omega

theorem slice_drop (b : ByteArray) (off len k : Nat) :
    (slice b off len).drop k = slice b (off + k) (len - k) := by
  unfold slice
  rw [List.drop_take, List.drop_drop]

theorem slice_take (b : ByteArray) (off len k : Nat) :
    (slice b off len).take k = slice b off (min k len) := by
  unfold slice
  rw [List.take_take]

theorem slice_getD (b : ByteArray) (off len i : Nat) :
    (slice b off len).getD i 0 = if i < len then b.get! (off + i) else 0 := by
  unfold slice
  rw [List.getD_eq_getElem?_getD, List.getElem?_take, get!_eq_getD, List.getD_eq_getElem?_getD]
  split
  · rw [List.getElem?_drop]
  · rfl

/-! ## Word layer -/

/-- The message words the executable code reads from the array by index are the spec's words of the
corresponding sub-list (no side condition: reads beyond the array yield 0 on both sides). -/
theorem wordsOfBlock_eq (b : ByteArray) (off len : Nat) :
    Blake3.wordsOfBlock b off len = wordsOfBytes (slice b off len) := by
  unfold Blake3.wordsOfBlock wordsOfBytes
  simp only [slice_getD]
  have h0 : (0 : UInt8).toUInt32 = 0 := rfl
  simp only [apply_ite UInt8.toUInt32, h0]

/-- The `for` loop of `Blake3.Output.rootBytes` produces the spec's `bytesOfWords`. -/
theorem rootBytes_toList (o : Blake3.Output) :
    o.rootBytes.data.toList
      = bytesOfWords (Blake3.compress o.cv o.block 0 o.blockLen (o.flags ||| Blake3.ROOT)) := by
  unfold Blake3.Output.rootBytes bytesOfWords
  simp [Std.Legacy.Range.forIn_eq_forIn_range', Std.Legacy.Range.size, List.range', List.range_succ]

theorem bytesOfWords_length (w : Array UInt32) : (bytesOfWords w).length = 32 := by
  unfold bytesOfWords
  simp [List.range_succ]

/-! ## Chunk layer -/

/-- The executable block loop is the spec's blockwise chunk processing: with `rem` bytes of the chunk
left from block `i` on, `k` full blocks to compress before the last one. -/
theorem chunkLoop_spec (b : ByteArray) (off ctr : Nat) :
    ∀ (k i : Nat) (cv : Array UInt32) (rem : Nat), off + 64 * i + rem ≤ b.size →
      (64 * k < rem ∨ k = 0) → rem ≤ 64 * (k + 1) →
      chunkTailF realBlockParams ctr (slice b (off + 64 * i) rem).length cv (decide (i = 0))
          (slice b (off + 64 * i) rem)
        = ⟨Blake3T.chunkLoop b off ctr.toUInt64 k i cv, decide (i + k = 0),
            slice b (off + 64 * (i + k)) (rem - 64 * k)⟩ := by
  intro k
  induction k with
  | zero =>
    intro i cv rem hsz _ hle
    rw [chunkTailF_eq]
    have hl : (slice b (off + 64 * i) rem).length ≤ 64 := by
      rw [slice_length_of_le b hsz]; omega
    simp only [hl, if_true, Blake3T.chunkLoop, Nat.add_zero, Nat.mul_zero, Nat.sub_zero]
  | succ k ih =>
    intro i cv rem hsz hlo hhi
    rw [chunkTailF_eq]
    have hl : ¬ (slice b (off + 64 * i) rem).length ≤ 64 := by
      rw [slice_length_of_le b hsz]; omega
    simp only [hl, if_false]
    rw [slice_drop, slice_take]
    have e1 : off + 64 * i + 64 = off + 64 * (i + 1) := by omega
    have e2 : min 64 rem = 64 := by omega
    have e3 : (false : Bool) = decide (i + 1 = 0) := by simp
    rw [e1, e2, e3, ih (i + 1) _ (rem - 64) (by omega) (by omega) (by omega)]
    have e4 : i + 1 + k = i + (k + 1) := by omega
    have e5 : rem - 64 - 64 * k = rem - 64 * (k + 1) := by omega
    rw [e4, e5]
    simp only [Blake3T.chunkLoop, realBlockParams, wordsOfBlock_eq, startFlag, decide_eq_true_eq]

/-- The last block of a chunk and the chaining value before it, as the spec's `chunkTail`. -/
theorem chunkTail_slice (b : ByteArray) (off len ctr : Nat) (h : off + len ≤ b.size) :
    chunkTail realBlockParams ctr (slice b off len)
      = ⟨Blake3T.chunkLoop b off ctr.toUInt64 ((if len = 0 then 1 else (len + 63) / 64) - 1) 0
            Blake3.IV,
          decide ((if len = 0 then 1 else (len + 63) / 64) - 1 = 0),
          slice b (off + 64 * ((if len = 0 then 1 else (len + 63) / 64) - 1))
            (len - 64 * ((if len = 0 then 1 else (len + 63) / 64) - 1))⟩ := by
  have key := chunkLoop_spec b off ctr ((if len = 0 then 1 else (len + 63) / 64) - 1) 0 Blake3.IV len
    (by omega) (by split <;> omega) (by split <;> omega)
  simp only [Nat.mul_zero, Nat.add_zero, Nat.zero_add, decide_true] at key
  exact key

/-- **Chunk layer.**  `Blake3T.chunkOutput` over the slice `[off, off+len)` of the array (any length,
the slice inside the array) is the spec's chunk: compressed as an inner node it is `chunkCVOf`, compressed
as the root it is `chunkRootOf` of the corresponding sub-list. -/
theorem chunkOutput_spec (b : ByteArray) (off len ctr : Nat) (h : off + len ≤ b.size) :
    (Blake3T.chunkOutput b off len ctr.toUInt64).chaining
        = chunkCVOf realBlockParams (slice b off len) ctr ∧
    (Blake3T.chunkOutput b off len ctr.toUInt64).rootBytes.data.toList
        = chunkRootOf realBlockParams (slice b off len) ctr := by
  have hlast : (slice b (off + 64 * ((if len = 0 then 1 else (len + 63) / 64) - 1))
      (len - 64 * ((if len = 0 then 1 else (len + 63) / 64) - 1))).length
        = len - 64 * ((if len = 0 then 1 else (len + 63) / 64) - 1) :=
    slice_length_of_le b (by split <;> omega)
  constructor
  · unfold chunkCVOf
    simp only [chunkTail_slice b off len ctr h]
    simp only [Blake3.Output.chaining, Blake3T.chunkOutput, realBlockParams, wordsOfBlock_eq, hlast,
      startFlag, decide_eq_true_eq]
  · rw [rootBytes_toList]
    unfold chunkRootOf
    simp only [chunkTail_slice b off len ctr h]
    simp only [Blake3T.chunkOutput, realBlockParams, wordsOfBlock_eq, hlast,
      startFlag, decide_eq_true_eq]

/-! ## Tree layer -/

theorem leftLenFrom_eq_spec (fuel p n : Nat) :
    Blake3T.leftLenFrom fuel p n = Blake3Spec.leftLenFrom fuel p n := by
  induction fuel generalizing p with
  | zero => rfl
  | succ fuel ih => simp only [Blake3T.leftLenFrom, Blake3Spec.leftLenFrom, ih]

/-- The executable `leftLen` is the spec's (hence the largest power of two strictly below `n`). -/
theorem leftLen_eq_spec (n : Nat) : Blake3T.leftLen n = Blake3Spec.leftLen n :=
  leftLenFrom_eq_spec n 1 n

/-- Number of chunks of an input of `size` bytes, as `Blake3T.hash` computes it. -/
def numChunks (size : Nat) : Nat := if size = 0 then 1 else (size + 1023) / 1024

/-- Chunk number `c` of the array: the bytes `[1024 c, 1024 c + min 1024 (size - 1024 c))`. -/
def chunkBytes (b : ByteArray) (c : Nat) : Bytes := slice b (1024 * c) (min 1024 (b.size - 1024 * c))

theorem splitChunks_drop (b : ByteArray) :
    ∀ (k c : Nat), (1024 * k < b.size - 1024 * c ∨ k = 0) → b.size - 1024 * c ≤ 1024 * (k + 1) →
      splitChunks (b.data.toList.drop (1024 * c)) = (List.range' c (k + 1)).map (chunkBytes b) := by
  intro k
  induction k with
  | zero =>
    intro c _ hhi
    rw [splitChunks_eq]
    have hl : (b.data.toList.drop (1024 * c)).length ≤ 1024 := by
      rw [List.length_drop, ← size_eq_length]; omega
    simp only [hl, if_true]
    have : chunkBytes b c = b.data.toList.drop (1024 * c) := by
      unfold chunkBytes slice
      apply List.take_of_length_le
      rw [List.length_drop, ← size_eq_length]; omega
    simp [List.range', this]
  | succ k ih =>
    intro c hlo hhi
    rw [splitChunks_eq]
    have hl : ¬ (b.data.toList.drop (1024 * c)).length ≤ 1024 := by
      rw [List.length_drop, ← size_eq_length]; omega
    simp only [hl, if_false]
    have hc : chunkBytes b c = (b.data.toList.drop (1024 * c)).take 1024 := by
      unfold chunkBytes slice
      have : min 1024 (b.size - 1024 * c) = 1024 := by omega
      rw [this]
    have e1 : 1024 * c + 1024 = 1024 * (c + 1) := by omega
    rw [List.drop_drop, e1, ih (c + 1) (by omega) (by omega), ← hc]
    rw [List.range'_succ (n := k + 1), List.map_cons]

/-- The spec's chunk list of the array's bytes is `chunkBytes b` mapped over the chunk indices. -/
theorem splitChunks_eq_map (b : ByteArray) :
    splitChunks b.data.toList = (List.range' 0 (numChunks b.size)).map (chunkBytes b) := by
  have key := splitChunks_drop b (numChunks b.size - 1) 0
    (by unfold numChunks; split <;> omega) (by unfold numChunks; split <;> omega)
  have e : numChunks b.size - 1 + 1 = numChunks b.size := by unfold numChunks; split <;> omega
  rw [e] at key
  simpa using key

/-- An executable lazy output and a spec node that compress to the same values. -/
def OutRel (o : Blake3.Output) (nd : Node (Array UInt32)) : Prop :=
  o.chaining = nd.cv realParams ∧ o.rootBytes.data.toList = nd.root realParams

/-- **Tree layer.**  `Blake3T.subtree` over the chunks `[c0, c0+n)` of the array is the spec's
`treeNode` over the corresponding chunk list (`n ≥ 1`, all `n` chunks start inside the array). -/
theorem subtree_spec (b : ByteArray) :
    ∀ (n c0 : Nat), 1 ≤ n → 1024 * (c0 + n - 1) ≤ b.size →
      OutRel (Blake3T.subtree b c0 n b.size)
        (treeNode realParams c0 ((List.range' c0 n).map (chunkBytes b))) := by
  intro n
  induction n using Nat.strongRecOn with
  | _ n ih =>
    intro c0 h1 hsz
    rw [Blake3T.subtree, treeNode_eq]
    simp only [List.length_map, List.length_range']
    by_cases hn : n ≤ 1
    · have hn1 : n = 1 := by omega
      subst hn1
      simp only [Nat.le_refl, dite_true, if_true]
      have hin : 1024 * c0 + min 1024 (b.size - 1024 * c0) ≤ b.size := by omega
      obtain ⟨hcv, hroot⟩ := chunkOutput_spec b (1024 * c0) (min 1024 (b.size - 1024 * c0)) c0 hin
      refine ⟨?_, ?_⟩
      · rw [hcv]; rfl
      · rw [hroot]; rfl
    · simp only [hn, dite_false, if_false]
      have hlt := Blake3Spec.leftLen_lt (n := n) (by omega)
      have hpos := Blake3Spec.leftLen_pos n
      rw [leftLen_eq_spec]
      rw [← List.map_take, ← List.map_drop, List.take_range'_of_length_ge (by omega),
        List.drop_range', Nat.mul_one]
      obtain ⟨hl, _⟩ := ih (Blake3Spec.leftLen n) hlt c0 hpos (by omega)
      obtain ⟨hr, _⟩ := ih (n - Blake3Spec.leftLen n) (by omega) (c0 + Blake3Spec.leftLen n)
        (by omega) (by
          have : c0 + Blake3Spec.leftLen n + (n - Blake3Spec.leftLen n) - 1 = c0 + n - 1 := by omega
          rw [this]; exact hsz)
      refine ⟨?_, ?_⟩
      · show (Blake3.parentOutput _ _).chaining = realParams.parentCV (treeCV _ _ _) (treeCV _ _ _)
        unfold treeCV
        rw [hl, hr]; rfl
      · rw [rootBytes_toList]
        show _ = realParams.parentRoot (treeCV _ _ _) (treeCV _ _ _)
        unfold treeCV
        simp only [Blake3.parentOutput]
        rw [hl, hr]; rfl

/-! ## Hex rendering -/

theorem foldlM_loop_eq {β : Type} (f : β → UInt8 → β) (b : ByteArray) (h : b.size ≤ b.size) :
    ∀ (i j : Nat) (acc : β), b.size - j ≤ i →
      ByteArray.foldlM.loop (m := Id) (fun x1 x2 => pure (f x1 x2)) b b.size h i j acc
        = pure ((b.data.toList.drop j).foldl f acc) := by
  intro i
  induction i with
  | zero =>
    intro j acc hj
    unfold ByteArray.foldlM.loop
    have : ¬ j < b.size := by omega
    simp only [this, dite_false]
    rw [List.drop_eq_nil_of_le (by rw [← size_eq_length]; omega)]; rfl
  | succ i ih =>
    intro j acc hj
    unfold ByteArray.foldlM.loop
    by_cases hlt : j < b.size
    · simp only [hlt, dite_true]
      have hi : j < b.data.toList.length := by rw [← size_eq_length]; exact hlt
      rw [List.drop_eq_getElem_cons hi, List.foldl_cons]
      simp only [pure_bind]
      rw [ih (j+1) _ (by omega)]
      rfl
    · simp only [hlt, dite_false]
      rw [List.drop_eq_nil_of_le (by rw [← size_eq_length]; omega)]; rfl

/-- Core's `ByteArray.foldl` (an index loop) is the list fold over the underlying array. -/
theorem foldl_eq_data {β : Type} (f : β → UInt8 → β) (init : β) (b : ByteArray) :
    b.foldl f init = b.data.toList.foldl f init := by
  unfold ByteArray.foldl ByteArray.foldlM
  simp only [Nat.le_refl, dite_true]
  rw [foldlM_loop_eq f b _ _ _ _ (by omega)]
  rfl

theorem foldl_hex (l : Bytes) (s : String) :
    (l.foldl (fun s x => s.push (Blake3.hexDigit (x >>> 4)) |>.push (Blake3.hexDigit (x &&& 15))) s).toList
      = s.toList ++ l.flatMap fun (x : UInt8) => [hexDigitL (x >>> 4), hexDigitL (x &&& 15)] := by
  induction l generalizing s with
  | nil => simp
  | cons x xs ih =>
    rw [List.foldl_cons, ih, String.toList_push, String.toList_push, List.flatMap_cons]
    simp only [List.append_assoc]
    rfl

/-- The driver's hex rendering of a byte array is the spec's hex rendering of its byte list. -/
theorem toHex_eq_spec (b : ByteArray) : Blake3.toHex b = Blake3Spec.toHex b.data.toList := by
  unfold Blake3.toHex Blake3Spec.toHex
  rw [foldl_eq_data, ← String.ofList_toList (s := List.foldl _ _ _), foldl_hex]
  simp

end Dud.Blake3Total
