import DudModel.PathSpec
/-!
# Lemmas about the model of Go's `path/filepath` (`DudModel/Path.lean`) in the vocabulary of
`DudModel/PathSpec.lean`

All lemma names live in `Dud.PathSpec`, so that this file can be imported next to either lemma
family.
-/
namespace Dud.PathSpec
open Dud.Path

/-! ## `splitSlash` and `intercalate` -/

theorem splitSlash_cons_slash (r : Bytes) : splitSlash (slash :: r) = [] :: splitSlash r := by
  simp [splitSlash]

theorem splitSlash_ne_nil : ∀ s : Bytes, splitSlash s ≠ []
  | [] => by simp [splitSlash]
  | b :: r => by
    unfold splitSlash
    split
    · simp
    · split <;> simp

theorem splitSlash_cons_ne {b : UInt8} (hb : b ≠ slash) {r : Bytes} {x : Bytes} {xs : List Bytes}
    (h : splitSlash r = x :: xs) : splitSlash (b :: r) = (b :: x) :: xs := by
  have : (b == slash) = false := by simpa using hb
  rw [splitSlash, this, h]; rfl

theorem splitSlash_append_slash : ∀ a b : Bytes,
    splitSlash (a ++ slash :: b) = splitSlash a ++ splitSlash b
  | [], b => by simp [splitSlash]
  | x :: a, b => by
    have ih := splitSlash_append_slash a b
    by_cases hx : x = slash
    · subst hx
      rw [List.cons_append, splitSlash_cons_slash, splitSlash_cons_slash, ih]; rfl
    · obtain ⟨y, ys, hy⟩ : ∃ y ys, splitSlash a = y :: ys := by
        cases h : splitSlash a with
        | nil => exact absurd h (splitSlash_ne_nil a)
        | cons y ys => exact ⟨y, ys, rfl⟩
      rw [List.cons_append, splitSlash_cons_ne hx (x := y) (xs := ys ++ splitSlash b),
        splitSlash_cons_ne hx hy]
      · rfl
      · rw [ih, hy]; rfl

theorem splitSlash_noslash : ∀ {c : Bytes}, slash ∉ c → splitSlash c = [c]
  | [], _ => rfl
  | x :: c, h => by
    have hx : x ≠ slash := fun e => h (by simp [e])
    have hc : slash ∉ c := fun e => h (by simp [e])
    exact splitSlash_cons_ne hx (splitSlash_noslash hc)

theorem intercalate_cons_cons (x y : Bytes) (r : List Bytes) :
    intercalate (x :: y :: r) = x ++ slash :: intercalate (y :: r) := by
  simp [intercalate]

theorem intercalate_singleton (x : Bytes) : intercalate [x] = x := rfl

theorem intercalate_cons_of_ne_nil (x : Bytes) : ∀ {r : List Bytes}, r ≠ [] →
    intercalate (x :: r) = x ++ slash :: intercalate r
  | [], h => absurd rfl h
  | y :: r, _ => intercalate_cons_cons x y r

theorem intercalate_append : ∀ {cs ds : List Bytes}, cs ≠ [] → ds ≠ [] →
    intercalate (cs ++ ds) = intercalate cs ++ slash :: intercalate ds
  | [], _, h, _ => absurd rfl h
  | [x], ds, _, hd => by
    rw [intercalate_singleton]; exact intercalate_cons_of_ne_nil x hd
  | x :: y :: r, ds, _, hd => by
    have ih := intercalate_append (cs := y :: r) (ds := ds) (by simp) hd
    have : (x :: y :: r) ++ ds = x :: ((y :: r) ++ ds) := rfl
    rw [this, intercalate_cons_of_ne_nil x (by simp), ih, intercalate_cons_cons]; simp

/-- `strings.Split` undoes `strings.Join` when no element contains the separator -/
theorem splitSlash_intercalate : ∀ {cs : List Bytes}, cs ≠ [] → SlashFree cs →
    splitSlash (intercalate cs) = cs
  | [], h, _ => absurd rfl h
  | [x], _, h => splitSlash_noslash (h x (by simp))
  | x :: y :: r, _, h => by
    have ih := splitSlash_intercalate (cs := y :: r) (by simp) (fun c hc => h c (by simp [hc]))
    rw [intercalate_cons_cons, splitSlash_append_slash, ih, splitSlash_noslash (h x (by simp))]
    rfl

/-- `strings.Join(strings.Split(s, "/"), "/") = s` -/
theorem intercalate_splitSlash : ∀ s : Bytes, intercalate (splitSlash s) = s
  | [] => rfl
  | b :: r => by
    have ih := intercalate_splitSlash r
    obtain ⟨y, ys, hy⟩ : ∃ y ys, splitSlash r = y :: ys := by
      cases h : splitSlash r with
      | nil => exact absurd h (splitSlash_ne_nil r)
      | cons y ys => exact ⟨y, ys, rfl⟩
    by_cases hb : b = slash
    · subst hb
      rw [splitSlash_cons_slash, intercalate_cons_of_ne_nil _ (splitSlash_ne_nil r), ih]; rfl
    · rw [splitSlash_cons_ne hb hy]
      rw [hy] at ih
      cases ys with
      | nil => rw [intercalate_singleton] at ih ⊢; rw [ih]
      | cons z zs =>
        rw [intercalate_cons_cons] at ih ⊢; rw [← ih]; rfl

theorem splitSlash_slashFree : ∀ s : Bytes, SlashFree (splitSlash s)
  | [] => by intro c hc; simp [splitSlash] at hc; subst hc; simp
  | b :: r => by
    have ih := splitSlash_slashFree r
    obtain ⟨y, ys, hy⟩ : ∃ y ys, splitSlash r = y :: ys := by
      cases h : splitSlash r with
      | nil => exact absurd h (splitSlash_ne_nil r)
      | cons y ys => exact ⟨y, ys, rfl⟩
    rw [hy] at ih
    by_cases hb : b = slash
    · subst hb
      rw [splitSlash_cons_slash, hy]
      intro c hc
      rcases List.mem_cons.1 hc with rfl | hc
      · simp
      · exact ih c hc
    · rw [splitSlash_cons_ne hb hy]
      intro c hc
      rcases List.mem_cons.1 hc with rfl | hc
      · intro hm
        rcases List.mem_cons.1 hm with e | hm
        · exact hb e.symm
        · exact ih y (by simp) hm
      · exact ih c (by simp [hc])

/-- two lists of slash-free segments with the same joined string are equal -/
theorem intercalate_inj {cs ds : List Bytes} (hc : cs ≠ []) (hd : ds ≠ []) (h1 : SlashFree cs)
    (h2 : SlashFree ds) (e : intercalate cs = intercalate ds) : cs = ds := by
  rw [← splitSlash_intercalate hc h1, ← splitSlash_intercalate hd h2, e]

/-! ## good components -/

theorem GoodComp.noise {c : Bytes} (h : GoodComp c) : (c == [] || c == [dot]) = false := by
  have h1 := h.1; have h2 := h.2.1
  simp [h1, h2]

theorem GoodComp.ne_dotdot {c : Bytes} (h : GoodComp c) : (c == dotdot) = false := by
  have := h.2.2.1
  simpa using this

theorem Good.slashFree {cs : Comps} (h : Good cs) : SlashFree cs := fun c hc => (h c hc).2.2.2

theorem Good.append {a b : Comps} (ha : Good a) (hb : Good b) : Good (a ++ b) := by
  intro c hc
  rcases List.mem_append.1 hc with h | h
  · exact ha c h
  · exact hb c h

theorem Good.left {a b : Comps} (h : Good (a ++ b)) : Good a := fun c hc => h c (by simp [hc])
theorem Good.right {a b : Comps} (h : Good (a ++ b)) : Good b := fun c hc => h c (by simp [hc])

theorem Good.take {a : Comps} (h : Good a) (n : Nat) : Good (a.take n) :=
  fun c hc => h c (List.mem_of_mem_take hc)

theorem Good.drop {a : Comps} (h : Good a) (n : Nat) : Good (a.drop n) :=
  fun c hc => h c (List.mem_of_mem_drop hc)

theorem good_nil : Good [] := by intro c hc; simp at hc

theorem dotdot_slashFree : slash ∉ dotdot := by decide

theorem ups_slashFree (k : Nat) : SlashFree (ups k) := by
  intro c hc
  rw [ups, List.mem_replicate] at hc
  rw [hc.2]; exact dotdot_slashFree

theorem SlashFree.append {a b : List Bytes} (ha : SlashFree a) (hb : SlashFree b) :
    SlashFree (a ++ b) := by
  intro c hc
  rcases List.mem_append.1 hc with h | h
  · exact ha c h
  · exact hb c h

theorem ups_succ (k : Nat) : ups (k + 1) = dotdot :: ups k := rfl

theorem ups_length (k : Nat) : (ups k).length = k := by simp [ups]

/-! ## `normAux` is a left fold of `step` -/

theorem normAux_cons (rooted : Bool) (acc : List Bytes) (c : Bytes) (cs : List Bytes) :
    normAux rooted acc (c :: cs) = normAux rooted (step rooted acc c) cs := by
  conv => lhs; rw [normAux.eq_def]
  unfold step
  dsimp only
  split
  · rfl
  · split
    · cases acc with
      | nil => cases rooted <;> rfl
      | cons a as => dsimp only; split <;> rfl
    · rfl

theorem normAux_eq_foldl (rooted : Bool) : ∀ (cs acc : List Bytes),
    normAux rooted acc cs = (cs.foldl (step rooted) acc).reverse
  | [], acc => by rw [normAux]; rfl
  | c :: cs, acc => by
    rw [List.foldl_cons, ← normAux_eq_foldl rooted cs, normAux_cons]

theorem step_noise (rooted : Bool) (acc : List Bytes) {c : Bytes} (h : noise c = true) :
    step rooted acc c = acc := by
  unfold noise at h
  simp only [step, h, if_true]

theorem step_good (rooted : Bool) (acc : List Bytes) {c : Bytes} (h : GoodComp c) :
    step rooted acc c = c :: acc := by
  unfold step
  rw [if_neg (by rw [h.noise]; exact Bool.false_ne_true),
    if_neg (by rw [h.ne_dotdot]; exact Bool.false_ne_true)]

theorem step_dotdot_nil : step true [] dotdot = [] := by decide

theorem step_dotdot_cons (rooted : Bool) {a : Bytes} (as : List Bytes) (h : a ≠ dotdot) :
    step rooted (a :: as) dotdot = as := by
  have h1 : (dotdot == [] || dotdot == [dot]) = false := by decide
  have h2 : (a == dotdot) = false := by simpa using h
  unfold step
  rw [if_neg (by rw [h1]; exact Bool.false_ne_true), if_pos (by decide)]
  dsimp only
  rw [if_neg (by rw [h2]; exact Bool.false_ne_true)]

theorem foldl_step_good (rooted : Bool) : ∀ {cs : Comps} (acc : List Bytes), Good cs →
    cs.foldl (step rooted) acc = cs.reverse ++ acc
  | [], _, _ => rfl
  | c :: cs, acc, h => by
    rw [List.foldl_cons, step_good rooted acc (h c (by simp)),
      foldl_step_good rooted (c :: acc) (fun x hx => h x (by simp [hx]))]
    simp

theorem foldl_step_ups : ∀ (k : Nat) {acc : List Bytes}, (∀ a ∈ acc, a ≠ dotdot) →
    (ups k).foldl (step true) acc = acc.drop k
  | 0, _, _ => rfl
  | k + 1, [], _ => by
    rw [ups_succ, List.foldl_cons, step_dotdot_nil, foldl_step_ups k (by simp)]; simp
  | k + 1, a :: as, h => by
    rw [ups_succ, List.foldl_cons, step_dotdot_cons true as (h a (by simp)),
      foldl_step_ups k (fun x hx => h x (by simp [hx]))]; rfl

theorem foldl_step_filter (rooted : Bool) : ∀ (cs acc : List Bytes),
    cs.foldl (step rooted) acc = (cs.filter (fun c => !noise c)).foldl (step rooted) acc
  | [], _ => rfl
  | c :: cs, acc => by
    cases h : noise c with
    | true =>
      rw [List.foldl_cons, step_noise rooted acc h, List.filter_cons_of_neg (by simp [h])]
      exact foldl_step_filter rooted cs acc
    | false =>
      rw [List.foldl_cons, List.filter_cons_of_pos (by simp [h]), List.foldl_cons]
      exact foldl_step_filter rooted cs _

/-- with a rooted path the stack only ever holds good components -/
theorem step_true_good {acc : List Bytes} {c : Bytes} (ha : Good acc) (hc : slash ∉ c) :
    Good (step true acc c) := by
  unfold step
  split
  · exact ha
  · rename_i hn
    split
    · cases acc with
      | nil => exact good_nil
      | cons a as =>
        dsimp only
        have : (a == dotdot) = false := (ha a (by simp)).ne_dotdot
        rw [this, if_neg Bool.false_ne_true]
        exact fun x hx => ha x (List.mem_cons_of_mem _ hx)
    · rename_i hd
      intro x hx
      rcases List.mem_cons.1 hx with rfl | hx
      · simp only [Bool.or_eq_true, beq_iff_eq, not_or] at hn
        exact ⟨hn.1, hn.2, by simpa using hd, hc⟩
      · exact ha x hx

theorem foldl_step_true_good : ∀ {segs acc : List Bytes}, Good acc → SlashFree segs →
    Good (segs.foldl (step true) acc)
  | [], _, ha, _ => ha
  | c :: segs, acc, ha, hs => by
    rw [List.foldl_cons]
    exact foldl_step_true_good (step_true_good ha (hs c (by simp)))
      (fun x hx => hs x (by simp [hx]))

theorem Good.reverse {a : Comps} (h : Good a) : Good a.reverse :=
  fun c hc => h c (List.mem_reverse.1 hc)

/-! ## the lexical walk `resolve` -/

theorem resolve_nil (base : Comps) : resolve base [] = base := by simp [resolve]

theorem resolve_append (base : Comps) (xs ys : List Bytes) :
    resolve base (xs ++ ys) = resolve (resolve base xs) ys := by
  simp [resolve, List.foldl_append]

theorem resolve_cons (base : Comps) (x : Bytes) (ys : List Bytes) :
    resolve base (x :: ys) = resolve (resolve base [x]) ys :=
  resolve_append base [x] ys

theorem resolve_good (base : Comps) {c : Comps} (h : Good c) : resolve base c = base ++ c := by
  simp [resolve, foldl_step_good true _ h]

theorem resolve_noise (base : Comps) {c : Bytes} (h : noise c = true) : resolve base [c] = base := by
  simp [resolve, step_noise true _ h]

theorem resolve_ups {base : Comps} (h : Good base) (k : Nat) :
    resolve base (ups k) = dropLastN k base := by
  have : ∀ a ∈ base.reverse, a ≠ dotdot := fun a ha => (h a (List.mem_reverse.1 ha)).2.2.1
  rw [resolve, foldl_step_ups k this, dropLastN, List.drop_reverse, List.reverse_reverse]

/-- noise segments ("" from doubled / trailing slashes, ".") do not matter -/
theorem resolve_filter (base : Comps) (segs : List Bytes) :
    resolve base segs = resolve base (segs.filter (fun c => !noise c)) := by
  rw [resolve, resolve, foldl_step_filter]

theorem resolve_isGood {base : Comps} {segs : List Bytes} (h : Good base) (hs : SlashFree segs) :
    Good (resolve base segs) :=
  (foldl_step_true_good h.reverse hs).reverse

/-- the walk along `k` times ".." followed by good components -/
theorem resolve_updown {base : Comps} (h : Good base) (k : Nat) {c : Comps} (hc : Good c) :
    resolve base (ups k ++ c) = dropLastN k base ++ c := by
  rw [resolve_append, resolve_ups h, resolve_good _ hc]

theorem dropLastN_append {r d : List Bytes} {k : Nat} (hk : k ≤ d.length) :
    dropLastN k (r ++ d) = r ++ dropLastN k d := by
  unfold dropLastN
  rw [List.take_append, List.length_append]
  have h1 : r.length + d.length - k - r.length = d.length - k := by omega
  have h2 : r.length ≤ r.length + d.length - k := by omega
  rw [h1, List.take_of_length_le h2]

theorem dropLastN_length (d : List Bytes) : dropLastN d.length d = [] := by
  simp [dropLastN]

theorem dropLastN_zero (d : List Bytes) : dropLastN 0 d = d := by
  simp [dropLastN]

theorem denote_isGood {cwd : Comps} (h : Good cwd) (arg : Bytes) : Good (denote cwd arg) := by
  unfold denote
  split
  · exact resolve_isGood good_nil (splitSlash_slashFree arg)
  · exact resolve_isGood h (splitSlash_slashFree arg)

/-! ## `isAbs`, `parse`, `norm`, `clean` -/

theorem isAbs_cons_slash (s : Bytes) : isAbs (slash :: s) = true := by simp [isAbs]

theorem isAbs_absOf (cs : Comps) : isAbs (absOf cs) = true := isAbs_cons_slash _

theorem isAbs_nil : isAbs [] = false := rfl

theorem isAbs_cons_ne {b : UInt8} (h : b ≠ slash) (s : Bytes) : isAbs (b :: s) = false := by
  simp [isAbs, h]

theorem isAbs_iff {s : Bytes} : isAbs s = true ↔ ∃ t, s = slash :: t := by
  cases s with
  | nil => simp [isAbs]
  | cons b t =>
    by_cases h : b = slash
    · subst h; simp [isAbs]
    · simp [isAbs, h]

/-- a non-empty first segment without '/' makes the joined string relative -/
theorem isAbs_intercalate_cons {x : Bytes} (r : List Bytes) (h1 : x ≠ []) (h2 : slash ∉ x) :
    isAbs (intercalate (x :: r)) = false := by
  obtain ⟨b, x', rfl⟩ := List.exists_cons_of_ne_nil h1
  have hb : b ≠ slash := fun e => h2 (by simp [e])
  cases r with
  | nil => exact isAbs_cons_ne hb _
  | cons y r => rw [intercalate_cons_cons]; exact isAbs_cons_ne hb _

theorem isAbs_relOf {cs : List Bytes} (h : ∀ c ∈ cs, c ≠ [] ∧ slash ∉ c) :
    isAbs (relOf cs) = false := by
  cases cs with
  | nil => decide
  | cons x r => exact isAbs_intercalate_cons r (h x (by simp)).1 (h x (by simp)).2

theorem norm_parse (s : Bytes) :
    norm (parse s) = ⟨isAbs s, normAux (isAbs s) [] (splitSlash s)⟩ := rfl

theorem clean_eq (s : Bytes) : clean s = render ⟨isAbs s, normAux (isAbs s) [] (splitSlash s)⟩ := rfl

theorem render_rooted (cs : List Bytes) : render ⟨true, cs⟩ = absOf cs := rfl

theorem render_relative (cs : List Bytes) : render ⟨false, cs⟩ = relOf cs := rfl

theorem normAux_true_nil (segs : List Bytes) : normAux true [] segs = resolve [] segs := by
  rw [normAux_eq_foldl]; rfl

/-- an absolute string normalises to the walk from "/" along its segments -/
theorem norm_parse_abs {s : Bytes} (h : isAbs s = true) :
    norm (parse s) = ⟨true, resolve [] (splitSlash s)⟩ := by
  rw [norm_parse, h, normAux_true_nil]

theorem clean_abs {s : Bytes} (h : isAbs s = true) :
    clean s = absOf (resolve [] (splitSlash s)) := by
  rw [clean, norm_parse_abs h, render_rooted]

theorem splitSlash_absOf_cons (x : Bytes) (r : List Bytes) (hs : SlashFree (x :: r)) :
    splitSlash (absOf (x :: r)) = [] :: x :: r := by
  rw [absOf, splitSlash_cons_slash, splitSlash_intercalate (by simp) hs]

theorem resolve_nil_absOf {cs : Comps} (h : Good cs) : resolve [] (splitSlash (absOf cs)) = cs := by
  cases cs with
  | nil => decide
  | cons x r =>
    rw [splitSlash_absOf_cons x r h.slashFree, resolve_cons, resolve_noise [] (by decide),
      resolve_good [] h]; rfl

theorem resolve_absOf_slash {base : Comps} (h : Good base) (s : Bytes) :
    resolve [] (splitSlash (absOf base ++ slash :: s)) = resolve base (splitSlash s) := by
  rw [splitSlash_append_slash, resolve_append, resolve_nil_absOf h]

theorem norm_parse_absOf {cs : Comps} (h : Good cs) : norm (parse (absOf cs)) = ⟨true, cs⟩ := by
  rw [norm_parse_abs (isAbs_absOf cs), resolve_nil_absOf h]

/-- `Clean` leaves an absolute clean path alone -/
theorem clean_absOf {cs : Comps} (h : Good cs) : clean (absOf cs) = absOf cs := by
  rw [clean_abs (isAbs_absOf cs), resolve_nil_absOf h]

theorem denote_abs {cwd : Comps} {arg : Bytes} (h : isAbs arg = true) :
    denote cwd arg = resolve [] (splitSlash arg) := by
  simp [denote, h]

theorem denote_rel {cwd : Comps} {arg : Bytes} (h : isAbs arg = false) :
    denote cwd arg = resolve cwd (splitSlash arg) := by
  simp [denote, h]

theorem denote_absOf (cwd : Comps) {cs : Comps} (h : Good cs) : denote cwd (absOf cs) = cs := by
  rw [denote_abs (isAbs_absOf cs), resolve_nil_absOf h]

/-- `Clean` of an absolute string is the absolute clean path of what the string denotes -/
theorem clean_abs_denote (cwd : Comps) {s : Bytes} (h : isAbs s = true) :
    clean s = absOf (denote cwd s) := by
  rw [clean_abs h, denote_abs h]

/-! ## `Join` -/

theorem join_pair {a s : Bytes} (ha : a ≠ []) (hs : s ≠ []) :
    join [a, s] = clean (a ++ slash :: s) := by
  obtain ⟨x, a', rfl⟩ := List.exists_cons_of_ne_nil ha
  obtain ⟨y, s', rfl⟩ := List.exists_cons_of_ne_nil hs
  simp [join, intercalate]

theorem join_pair_nil {a : Bytes} (ha : a ≠ []) : join [a, []] = clean a := by
  obtain ⟨x, a', rfl⟩ := List.exists_cons_of_ne_nil ha
  simp [join, intercalate]

/-- `Join(dir, s)` for an absolute clean `dir` and ANY string `s` (empty, with "..", doubled
slashes, …): the walk from `dir` along the segments of `s` -/
theorem join_absOf {base : Comps} (h : Good base) (s : Bytes) :
    join [absOf base, s] = absOf (resolve base (splitSlash s)) := by
  have hne : absOf base ≠ [] := by simp [absOf]
  by_cases hs : s = []
  · subst hs
    rw [join_pair_nil hne, clean_absOf h]
    have : splitSlash [] = [[]] := rfl
    rw [this, resolve_noise base (by decide)]
  · rw [join_pair hne hs, clean_abs (by exact isAbs_cons_slash _), resolve_absOf_slash h]

/-- `Join(root, rel)` for a clean relative path with good components -/
theorem join_absOf_rel {r c : Comps} (hr : Good r) (hc : Good c) :
    join [absOf r, intercalate c] = absOf (r ++ c) := by
  rw [join_absOf hr]
  cases c with
  | nil =>
    have : splitSlash (intercalate []) = [[]] := rfl
    rw [this, resolve_noise r (by decide), List.append_nil]
  | cons x c => rw [splitSlash_intercalate (by simp) hc.slashFree, resolve_good r hc]

theorem splitSlash_intercalate_updown (k : Nat) {c : Comps} (hc : Good c) (base : Comps) :
    resolve base (splitSlash (intercalate (ups k ++ c))) = resolve base (ups k ++ c) := by
  by_cases hne : ups k ++ c = []
  · rw [hne]
    have : splitSlash (intercalate []) = [[]] := rfl
    rw [this, resolve_noise base (by decide), resolve_nil]
  · rw [splitSlash_intercalate hne ((ups_slashFree k).append hc.slashFree)]

/-- `..` segments: `k` levels up from `base` (stopping at "/"), then down along `c` -/
theorem join_absOf_updown' {base c : Comps} (hb : Good base) (hc : Good c) (k : Nat) :
    join [absOf base, intercalate (ups k ++ c)] = absOf (dropLastN k base ++ c) := by
  rw [join_absOf hb, splitSlash_intercalate_updown k hc, resolve_updown hb k hc]

/-- `..` segments that stay inside the root -/
theorem join_absOf_updown {r d c : Comps} (hr : Good r) (hd : Good d) (hc : Good c) {k : Nat}
    (hk : k ≤ d.length) :
    join [absOf (r ++ d), intercalate (List.replicate k dotdot ++ c)] =
      absOf (r ++ dropLastN k d ++ c) := by
  have := join_absOf_updown' (hr.append hd) hc k
  rw [dropLastN_append hk] at this
  exact this

/-! ## relative paths: the normal form `ups k ++ good`, and `clean_idem` -/

/-- the stack of `normAux false`: (reversed) good components on top of a run of ".." -/
def RelAcc (acc : List Bytes) : Prop := ∃ k g, Good g ∧ acc = g ++ ups k

theorem mem_ups {a : Bytes} {k : Nat} (h : a ∈ ups k) : a = dotdot := (List.mem_replicate.1 h).2

theorem step_false_relAcc {acc : List Bytes} {c : Bytes} (ha : RelAcc acc) (hc : slash ∉ c) :
    RelAcc (step false acc c) := by
  obtain ⟨k, g, hg, rfl⟩ := ha
  unfold step
  split
  · exact ⟨k, g, hg, rfl⟩
  · rename_i hn
    split
    · cases g with
      | nil =>
        cases k with
        | zero => exact ⟨1, [], good_nil, rfl⟩
        | succ k =>
          refine ⟨k + 2, [], good_nil, ?_⟩
          simp only [List.nil_append, ups_succ]
          rw [if_pos (by decide)]
      | cons b g =>
        have hb : (b == dotdot) = false := (hg b (by simp)).ne_dotdot
        simp only [List.cons_append]
        rw [hb, if_neg Bool.false_ne_true]
        exact ⟨k, g, fun x hx => hg x (List.mem_cons_of_mem _ hx), rfl⟩
    · rename_i hd
      refine ⟨k, c :: g, ?_, rfl⟩
      intro x hx
      rcases List.mem_cons.1 hx with rfl | hx
      · simp only [Bool.or_eq_true, beq_iff_eq, not_or] at hn
        exact ⟨hn.1, hn.2, by simpa using hd, hc⟩
      · exact hg x hx

theorem foldl_step_false_relAcc : ∀ {segs acc : List Bytes}, RelAcc acc → SlashFree segs →
    RelAcc (segs.foldl (step false) acc)
  | [], _, ha, _ => ha
  | c :: segs, acc, ha, hs => by
    rw [List.foldl_cons]
    exact foldl_step_false_relAcc (step_false_relAcc ha (hs c (by simp)))
      (fun x hx => hs x (by simp [hx]))

theorem ups_reverse (k : Nat) : (ups k).reverse = ups k := by simp [ups]

/-- a relative string normalises to some `..`s followed by good components -/
theorem norm_parse_rel {s : Bytes} (h : isAbs s = false) :
    ∃ k g, Good g ∧ norm (parse s) = ⟨false, ups k ++ g⟩ := by
  obtain ⟨k, g, hg, e⟩ := foldl_step_false_relAcc (acc := []) ⟨0, [], good_nil, rfl⟩
    (splitSlash_slashFree s)
  refine ⟨k, g.reverse, hg.reverse, ?_⟩
  rw [norm_parse, h, normAux_eq_foldl, e, List.reverse_append, ups_reverse]

theorem foldl_step_false_ups : ∀ (k j : Nat), (ups k).foldl (step false) (ups j) = ups (k + j)
  | 0, j => by simp [ups]
  | k + 1, j => by
    have : step false (ups j) dotdot = ups (j + 1) := by
      cases j with
      | zero => decide
      | succ j =>
        rw [ups_succ, ups_succ]
        unfold step
        rw [if_neg (by decide), if_pos (by decide)]
        dsimp only
        rw [if_pos (by decide)]
        rfl
    rw [ups_succ, List.foldl_cons, this, foldl_step_false_ups k (j + 1)]
    congr 1; omega

theorem updown_seg {k : Nat} {g : Comps} (hg : Good g) :
    ∀ c ∈ ups k ++ g, c ≠ [] ∧ slash ∉ c := by
  intro c hc
  rcases List.mem_append.1 hc with h | h
  · rw [mem_ups h]; decide
  · exact ⟨(hg c h).1, (hg c h).2.2.2⟩

theorem norm_parse_relOf_updown (k : Nat) {g : Comps} (hg : Good g) :
    norm (parse (relOf (ups k ++ g))) = ⟨false, ups k ++ g⟩ := by
  rw [norm_parse, isAbs_relOf (updown_seg hg), normAux_eq_foldl]
  by_cases hne : ups k ++ g = []
  · rw [hne]; decide
  · have : relOf (ups k ++ g) = intercalate (ups k ++ g) := by
      cases h : ups k ++ g with
      | nil => exact absurd h hne
      | cons x r => rfl
    rw [this, splitSlash_intercalate hne ((ups_slashFree k).append hg.slashFree),
      List.foldl_append]
    have h0 := foldl_step_false_ups k 0
    have : ups 0 = [] := rfl
    rw [this] at h0
    rw [h0, foldl_step_good false _ hg]
    simp [ups_reverse]

/-- `Clean` leaves a clean relative path alone -/
theorem clean_relOf_updown (k : Nat) {g : Comps} (hg : Good g) :
    clean (relOf (ups k ++ g)) = relOf (ups k ++ g) := by
  rw [clean, norm_parse_relOf_updown k hg, render_relative]

/-- `Clean` leaves a clean relative path with good components alone -/
theorem clean_relOf {g : Comps} (hg : Good g) : clean (relOf g) = relOf g :=
  clean_relOf_updown 0 hg

/-- shape of every value of `Clean`: "/"-rooted good components, or `..`s then good components -/
theorem clean_shape (s : Bytes) :
    (∃ g, Good g ∧ clean s = absOf g) ∨ (∃ k g, Good g ∧ clean s = relOf (ups k ++ g)) := by
  cases h : isAbs s with
  | true =>
    exact .inl ⟨_, resolve_isGood good_nil (splitSlash_slashFree s), clean_abs h⟩
  | false =>
    obtain ⟨k, g, hg, e⟩ := norm_parse_rel h
    exact .inr ⟨k, g, hg, by rw [clean, e, render_relative]⟩

/-- `Clean` is idempotent (for every byte string) -/
theorem clean_idem (s : Bytes) : clean (clean s) = clean s := by
  rcases clean_shape s with ⟨g, hg, e⟩ | ⟨k, g, hg, e⟩
  · rw [e, clean_absOf hg]
  · rw [e, clean_relOf_updown k hg]

/-- `Rel`, `Join` clean their arguments first: a re-spelling that `Clean` identifies is invisible -/
theorem norm_parse_clean (s : Bytes) : norm (parse (clean s)) = norm (parse s) := by
  cases h : isAbs s with
  | true =>
    rw [clean_abs h, norm_parse_absOf (resolve_isGood good_nil (splitSlash_slashFree s)),
      norm_parse_abs h]
  | false =>
    obtain ⟨k, g, hg, e⟩ := norm_parse_rel h
    rw [clean, e, render_relative, norm_parse_relOf_updown k hg]

theorem rel_clean_left (a b : Bytes) : rel (clean a) b = rel a b := by
  unfold rel; rw [norm_parse_clean]

theorem rel_clean_right (a b : Bytes) : rel a (clean b) = rel a b := by
  unfold rel; rw [norm_parse_clean]

/-! ## `stripCommon` and `Rel` -/

theorem stripCommon_nil_left (b : List Bytes) : stripCommon [] b = ([], b) := by
  cases b <;> rfl

theorem stripCommon_nil_right (a : List Bytes) : stripCommon a [] = (a, []) := by
  cases a <;> rfl

theorem stripCommon_cons_self (x : Bytes) (a b : List Bytes) :
    stripCommon (x :: a) (x :: b) = stripCommon a b := by
  rw [stripCommon]; simp

theorem stripCommon_cons_ne {x y : Bytes} (h : x ≠ y) (a b : List Bytes) :
    stripCommon (x :: a) (y :: b) = (x :: a, y :: b) := by
  rw [stripCommon]; simp [h]

theorem stripCommon_append_left : ∀ r a b : List Bytes,
    stripCommon (r ++ a) (r ++ b) = stripCommon a b
  | [], _, _ => rfl
  | x :: r, a, b => by
    rw [List.cons_append, List.cons_append, stripCommon_cons_self]
    exact stripCommon_append_left r a b

/-- `stripCommon` drops a common prefix (the longest one) from both lists -/
theorem stripCommon_spec : ∀ a b : List Bytes, ∃ n, stripCommon a b = (a.drop n, b.drop n) ∧
    a.take n = b.take n ∧ n ≤ a.length ∧ n ≤ b.length
  | [], b => ⟨0, by rw [stripCommon_nil_left]; rfl, rfl, Nat.le_refl _, Nat.zero_le _⟩
  | x :: a, [] => ⟨0, by rw [stripCommon_nil_right]; rfl, rfl, Nat.zero_le _, Nat.le_refl _⟩
  | x :: a, y :: b => by
    by_cases h : x = y
    · subst h
      obtain ⟨n, h1, h2, h3, h4⟩ := stripCommon_spec a b
      refine ⟨n + 1, ?_, ?_, ?_, ?_⟩
      · rw [stripCommon_cons_self, h1]; rfl
      · simp [h2]
      · simp; omega
      · simp; omega
    · exact ⟨0, by rw [stripCommon_cons_ne h]; rfl, rfl, Nat.zero_le _, Nat.zero_le _⟩

theorem stripCommon_fst_nil_iff : ∀ {r t : List Bytes}, (stripCommon r t).1 = [] ↔ r <+: t
  | [], t => by rw [stripCommon_nil_left]; simp
  | x :: r, [] => by rw [stripCommon_nil_right]; simp
  | x :: r, y :: t => by
    by_cases h : x = y
    · subst h
      rw [stripCommon_cons_self, stripCommon_fst_nil_iff (r := r) (t := t)]
      simp [List.cons_prefix_cons]
    · rw [stripCommon_cons_ne h]
      simp [List.cons_prefix_cons, h]

theorem map_const_ups (l : List Bytes) : l.map (fun _ => dotdot) = ups l.length := by
  induction l with
  | nil => rfl
  | cons x l ih => rw [List.map_cons, ih]; rfl

theorem contains_dotdot_of_good {l : List Bytes} (h : Good l) : l.contains dotdot = false := by
  cases hc : l.contains dotdot with
  | false => rfl
  | true =>
    rw [List.contains_iff_mem] at hc
    exact absurd rfl (h _ hc).2.2.1

/-- `Rel` between two absolute clean paths never fails: strip the common prefix, go up once for
every remaining component of the base, then down along the rest of the target -/
theorem rel_absOf_absOf {r t : Comps} (hr : Good r) (ht : Good t) :
    rel (absOf r) (absOf t) =
      some (relOf (ups (stripCommon r t).1.length ++ (stripCommon r t).2)) := by
  obtain ⟨n, h1, -, -, -⟩ := stripCommon_spec r t
  unfold rel
  rw [norm_parse_absOf hr, norm_parse_absOf ht]
  simp only [h1, bne_self_eq_false, Bool.false_eq_true, if_false, contains_dotdot_of_good (hr.drop n),
    Bool.not_true, Bool.false_and, map_const_ups]
  rfl

/-- the argument lies in the root directory: `Rel` returns its root-relative path -/
theorem rel_absOf' {r c : Comps} (hr : Good r) (hc : Good c) :
    rel (absOf r) (absOf (r ++ c)) = some (relOf c) := by
  rw [rel_absOf_absOf hr (hr.append hc)]
  have := stripCommon_append_left r [] c
  rw [List.append_nil, stripCommon_nil_left] at this
  rw [this]; rfl

/-- `Rel(root, root/c) = c` for a non-empty `c` -/
theorem rel_absOf {r c : Comps} (hr : Good r) (hc : Good c) (hne : c ≠ []) :
    rel (absOf r) (absOf (r ++ c)) = some (intercalate c) := by
  rw [rel_absOf' hr hc]
  cases c with
  | nil => exact absurd rfl hne
  | cons x c => rfl

/-- `Rel(root, root) = "."` -/
theorem rel_absOf_self {r : Comps} (hr : Good r) : rel (absOf r) (absOf r) = some [dot] := by
  have := rel_absOf' hr good_nil
  rwa [List.append_nil] at this

/-! ## injectivity: a clean path determines its components -/

theorem absOf_inj {a b : Comps} (ha : Good a) (hb : Good b) (e : absOf a = absOf b) : a = b := by
  have := resolve_nil_absOf ha
  rw [e, resolve_nil_absOf hb] at this
  exact this.symm

/-- segments of a clean relative path: no '/', not "" and not "." -/
def RelSeg (l : List Bytes) : Prop := ∀ c ∈ l, slash ∉ c ∧ noise c = false

theorem GoodComp.noise' {c : Bytes} (h : GoodComp c) : PathSpec.noise c = false := h.noise

theorem updown_relSeg (k : Nat) {g : Comps} (hg : Good g) : RelSeg (ups k ++ g) := by
  intro c hc
  rcases List.mem_append.1 hc with h | h
  · rw [mem_ups h]; decide
  · exact ⟨(hg c h).2.2.2, (hg c h).noise'⟩

theorem relOf_cons (x : Bytes) (l : List Bytes) : relOf (x :: l) = intercalate (x :: l) := rfl

theorem relOf_inj {a b : List Bytes} (ha : RelSeg a) (hb : RelSeg b) (e : relOf a = relOf b) :
    a = b := by
  have sf : ∀ {l : List Bytes}, RelSeg l → SlashFree l := fun h c hc => (h c hc).1
  have nodot : ∀ {x : Bytes} {l : List Bytes}, RelSeg (x :: l) → relOf [] ≠ relOf (x :: l) := by
    intro x l h e
    have e2 := congrArg splitSlash e
    rw [relOf_cons, splitSlash_intercalate (by simp) (sf h)] at e2
    have : x = [dot] := by
      have : [[dot]] = x :: l := e2
      injection this with h1 _; exact h1.symm
    have := (h x (by simp)).2
    subst x; revert this; decide
  cases a with
  | nil =>
    cases b with
    | nil => rfl
    | cons y b => exact absurd e (nodot hb)
  | cons x a =>
    cases b with
    | nil => exact absurd e.symm (nodot ha)
    | cons y b =>
      rw [relOf_cons, relOf_cons] at e
      exact intercalate_inj (by simp) (by simp) (sf ha) (sf hb) e

theorem ups_append_inj : ∀ {k1 k2 : Nat} {g1 g2 : List Bytes}, (∀ c ∈ g1, c ≠ dotdot) →
    (∀ c ∈ g2, c ≠ dotdot) → ups k1 ++ g1 = ups k2 ++ g2 → k1 = k2 ∧ g1 = g2
  | 0, 0, _, _, _, _, e => ⟨rfl, e⟩
  | 0, k2 + 1, g1, _, h1, _, e => by
    have : dotdot ∈ g1 := by
      have e' : g1 = dotdot :: (ups k2 ++ _) := e
      rw [e']; simp
    exact absurd rfl (h1 _ this)
  | k1 + 1, 0, _, g2, _, h2, e => by
    have : dotdot ∈ g2 := by
      have e' : dotdot :: (ups k1 ++ _) = g2 := e
      rw [← e']; simp
    exact absurd rfl (h2 _ this)
  | k1 + 1, k2 + 1, g1, g2, h1, h2, e => by
    have e' : dotdot :: (ups k1 ++ g1) = dotdot :: (ups k2 ++ g2) := e
    injection e' with _ e''
    obtain ⟨hk, hg⟩ := ups_append_inj h1 h2 e''
    exact ⟨by omega, hg⟩

theorem Good.no_dotdot {g : Comps} (h : Good g) : ∀ c ∈ g, c ≠ dotdot := fun c hc => (h c hc).2.2.1

/-- `Rel` from a fixed absolute clean base is injective in the (absolute clean) target -/
theorem rel_absOf_inj {r t1 t2 : Comps} (hr : Good r) (h1 : Good t1) (h2 : Good t2)
    (e : rel (absOf r) (absOf t1) = rel (absOf r) (absOf t2)) : t1 = t2 := by
  obtain ⟨n1, s1, p1, l1, -⟩ := stripCommon_spec r t1
  obtain ⟨n2, s2, p2, l2, -⟩ := stripCommon_spec r t2
  rw [rel_absOf_absOf hr h1, rel_absOf_absOf hr h2, s1, s2] at e
  simp only [List.length_drop] at e
  have e1 := relOf_inj (updown_relSeg _ (h1.drop n1)) (updown_relSeg _ (h2.drop n2))
    (Option.some.inj e)
  obtain ⟨hk, hg⟩ := ups_append_inj (h1.drop n1).no_dotdot (h2.drop n2).no_dotdot e1
  have hn : n1 = n2 := by omega
  subst hn
  rw [← List.take_append_drop n1 t1, ← List.take_append_drop n1 t2, ← p1, ← p2, hg]

/-! ## `Join(base, Rel(base, targ)) = targ` -/

theorem resolve_splitSlash_relOf_updown (base : Comps) (k : Nat) {c : Comps} (hc : Good c) :
    resolve base (splitSlash (relOf (ups k ++ c))) = resolve base (ups k ++ c) := by
  cases h : ups k ++ c with
  | nil =>
    have : splitSlash (relOf []) = [[dot]] := rfl
    rw [this, resolve_noise base (by decide), resolve_nil]
  | cons x l =>
    rw [relOf_cons, ← h, splitSlash_intercalate (by simp [h])
      ((ups_slashFree k).append hc.slashFree)]

/-- what `Rel(base, targ)` returns is relative and leads from `base` back to `targ` -/
theorem rel_roundtrip {a b : Comps} (ha : Good a) (hb : Good b) {arg : Bytes}
    (h : rel (absOf a) (absOf b) = some arg) :
    isAbs arg = false ∧ resolve a (splitSlash arg) = b := by
  obtain ⟨n, s, p, l, -⟩ := stripCommon_spec a b
  rw [rel_absOf_absOf ha hb, s] at h
  simp only [List.length_drop] at h
  have h := (Option.some.inj h).symm
  subst h
  refine ⟨isAbs_relOf (updown_seg (hb.drop n)), ?_⟩
  rw [resolve_splitSlash_relOf_updown a _ (hb.drop n), resolve_updown ha _ (hb.drop n), dropLastN]
  have : a.length - (a.length - n) = n := by omega
  rw [this, p, List.take_append_drop]

/-- the documented law of `filepath.Rel`: `Join(base, Rel(base, targ)) = targ` -/
theorem join_rel {a b : Comps} (ha : Good a) (hb : Good b) {arg : Bytes}
    (h : rel (absOf a) (absOf b) = some arg) : join [absOf a, arg] = absOf b := by
  rw [join_absOf ha, (rel_roundtrip ha hb h).2]

/-! ## targets outside the base -/

/-- a target outside the base: the result begins with the component ".." -/
theorem rel_absOf_outside {r t : Comps} (hr : Good r) (ht : Good t) (h : ¬ r <+: t) :
    ∃ rest, RelSeg rest ∧ rel (absOf r) (absOf t) = some (intercalate (dotdot :: rest)) := by
  obtain ⟨n, s, p, l, -⟩ := stripCommon_spec r t
  have hne : (stripCommon r t).1 ≠ [] := fun e => h (stripCommon_fst_nil_iff.1 e)
  rw [rel_absOf_absOf hr ht]
  rw [s] at hne ⊢
  obtain ⟨m, hm⟩ : ∃ m, (r.drop n).length = m + 1 := by
    cases hd : r.drop n with
    | nil => exact absurd hd hne
    | cons x l => exact ⟨l.length, rfl⟩
  simp only [hm]
  refine ⟨ups m ++ t.drop n, updown_relSeg m (ht.drop n), rfl⟩

/-! ## re-spellings: noise segments and what an argument denotes -/

/-- what an argument denotes depends only on whether it is absolute and on its non-noise segments -/
theorem denote_congr (cwd : Comps) {a b : Bytes} (h1 : isAbs a = isAbs b)
    (h2 : segsOf a = segsOf b) : denote cwd a = denote cwd b := by
  unfold denote
  unfold segsOf at h2
  rw [h1, resolve_filter _ (splitSlash a), resolve_filter _ (splitSlash b), h2]

theorem isAbs_append {a : Bytes} (h : a ≠ []) (b : Bytes) : isAbs (a ++ b) = isAbs a := by
  obtain ⟨x, a', rfl⟩ := List.exists_cons_of_ne_nil h
  rfl

theorem segsOf_append_slash (a b : Bytes) : segsOf (a ++ slash :: b) = segsOf a ++ segsOf b := by
  simp [segsOf, splitSlash_append_slash]

theorem segsOf_nil : segsOf [] = [] := rfl

theorem segsOf_dot : segsOf [dot] = [] := by decide

/-- a trailing slash -/
theorem segsOf_trailing_slash (a : Bytes) : segsOf (a ++ [slash]) = segsOf a := by
  rw [segsOf_append_slash, segsOf_nil, List.append_nil]

/-- a leading "./" -/
theorem segsOf_dot_slash (a : Bytes) : segsOf (dot :: slash :: a) = segsOf a := by
  have : dot :: slash :: a = [dot] ++ slash :: a := rfl
  rw [this, segsOf_append_slash, segsOf_dot, List.nil_append]

/-- a doubled slash -/
theorem segsOf_double_slash (a b : Bytes) :
    segsOf (a ++ slash :: slash :: b) = segsOf (a ++ slash :: b) := by
  have : slash :: b = [] ++ slash :: b := rfl
  rw [segsOf_append_slash, segsOf_append_slash, this, segsOf_append_slash, segsOf_nil,
    List.nil_append]

/-- a "/./" in the middle -/
theorem segsOf_dot_segment (a b : Bytes) :
    segsOf (a ++ slash :: dot :: slash :: b) = segsOf (a ++ slash :: b) := by
  rw [segsOf_append_slash, segsOf_append_slash, segsOf_dot_slash]

theorem isAbs_dot_slash (a : Bytes) : isAbs (dot :: slash :: a) = false :=
  isAbs_cons_ne (by decide) _

/-! ## `Join` / `Clean` for arbitrary absolute strings -/

/-- `Join(cwd, arg)` for ANY absolute string `cwd`: the walk from what `cwd` denotes -/
theorem join_abs {cwd : Bytes} (h : isAbs cwd = true) (arg : Bytes) :
    join [cwd, arg] = absOf (resolve (resolve [] (splitSlash cwd)) (splitSlash arg)) := by
  have hne : cwd ≠ [] := by rintro rfl; simp [isAbs] at h
  by_cases hs : arg = []
  · subst hs
    have : splitSlash [] = [[]] := rfl
    rw [join_pair_nil hne, clean_abs h, this, resolve_noise _ (by decide)]
  · rw [join_pair hne hs, clean_abs (by rw [isAbs_append hne]; exact h), splitSlash_append_slash,
      resolve_append]

/-! ## `Dir`: one step of the walk towards "/" (`getProjectRootDir`) -/

theorem dir_absOf_snoc {cs : Comps} {c : Bytes} (h : Good (cs ++ [c])) :
    dir (absOf (cs ++ [c])) = absOf cs := by
  have hcs : Good cs := h.left
  have hsp : splitSlash (absOf (cs ++ [c])) = [] :: (cs ++ [c]) := by
    rw [absOf, splitSlash_cons_slash, splitSlash_intercalate (by simp) h.slashFree]
  unfold dir
  rw [hsp]
  simp only [List.reverse_cons, List.reverse_append, List.reverse_nil, List.nil_append,
    List.cons_append]
  cases cs with
  | nil => decide
  | cons x cs =>
    have e : intercalate ([] :: x :: cs) = absOf (x :: cs) := by
      rw [intercalate_cons_cons]; rfl
    simp only [List.reverse_cons, List.reverse_reverse, List.append_assoc, List.nil_append,
      List.cons_append, List.reverse_append, List.reverse_nil, e]
    have hne : (absOf (x :: cs) == []) = false := by simp [absOf]
    simp [hne, clean_absOf hcs]

/-! ## when `Rel` fails -/

theorem norm_rooted (s : Bytes) : (norm (parse s)).rooted = isAbs s := rfl

/-- one path absolute, the other relative: `Rel` fails ("can't make … relative to …") -/
theorem rel_mixed {a b : Bytes} (h : isAbs a ≠ isAbs b) : rel a b = none := by
  have : (isAbs a != isAbs b) = true := by simpa using h
  unfold rel
  simp only [norm_rooted, this, if_true]

/-- two absolute strings (any spelling): `Rel` is `Rel` of the clean paths they denote -/
theorem rel_abs_abs {a b : Bytes} (ha : isAbs a = true) (hb : isAbs b = true) :
    rel a b = rel (absOf (resolve [] (splitSlash a))) (absOf (resolve [] (splitSlash b))) := by
  rw [← rel_clean_left a, ← rel_clean_right _ b, clean_abs ha, clean_abs hb]

/-- for an absolute base `Rel` fails exactly on relative targets -/
theorem rel_abs_eq_none_iff {base targ : Bytes} (hb : isAbs base = true) :
    rel base targ = none ↔ isAbs targ = false := by
  constructor
  · intro h
    cases ht : isAbs targ with
    | false => rfl
    | true =>
      rw [rel_abs_abs hb ht, rel_absOf_absOf (resolve_isGood good_nil (splitSlash_slashFree _))
        (resolve_isGood good_nil (splitSlash_slashFree _))] at h
      exact absurd h (by simp)
  · intro ht
    exact rel_mixed (by rw [hb, ht]; decide)

theorem relOf_eq_intercalate {l : List Bytes} (h : l ≠ []) : relOf l = intercalate l := by
  cases l with
  | nil => exact absurd rfl h
  | cons x l => rfl

/-- the walk along the clean relative path `ups k ++ c` from `base` -/
theorem denote_updown {base : Comps} (hb : Good base) (k : Nat) {c : Comps} (hc : Good c) :
    denote base (relOf (ups k ++ c)) = dropLastN k base ++ c := by
  rw [denote_rel (isAbs_relOf (updown_seg hc)), resolve_splitSlash_relOf_updown base k hc,
    resolve_updown hb k hc]

end Dud.PathSpec
