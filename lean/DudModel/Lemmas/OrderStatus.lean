import DudModel.Lemmas.OrderCheckout
/-!
# Status of a directory does not depend on the processing order (helpers for C13)

`childStatuses` / `untrackedStatuses` are maps over the manifest entries / the untracked listing
entries with no shared state: any order gives the same statuses up to order.  `dirStatusS` is
`dirStatus` with an arbitrary processing order in every directory; `StatusPerm` relates statuses
that agree on every field and whose children agree up to order, recursively.
-/
namespace Dud

variable {κ : Type}

/-- map with errors: the first error (in list order) wins -/
def mapE {α β : Type} (g : α → Except Err β) : List α → Except Err (List β)
  | [] => .ok []
  | a :: l =>
    match g a with
    | .error e => .error e
    | .ok b =>
      match mapE g l with
      | .error e => .error e
      | .ok bs => .ok (b :: bs)

/-- pointwise relation of two lists -/
inductive Forall2 {α β : Type} (R : α → β → Prop) : List α → List β → Prop
  | nil : Forall2 R [] []
  | cons {a b l l'} : R a b → Forall2 R l l' → Forall2 R (a :: l) (b :: l')

theorem Forall2.all_eq {α β : Type} {R : α → β → Prop} {p : α → Bool} {q : β → Bool}
    (hpq : ∀ a b, R a b → p a = q b) {l : List α} {l' : List β} (h : Forall2 R l l') :
    l.all p = l'.all q := by
  induction h with
  | nil => rfl
  | cons hab _ ih => simp only [List.all_cons, hpq _ _ hab, ih]

theorem Forall2.length_eq {α β : Type} {R : α → β → Prop} {l : List α} {l' : List β}
    (h : Forall2 R l l') : l.length = l'.length := by
  induction h with
  | nil => rfl
  | cons _ _ ih => simp only [List.length_cons, ih]

theorem Forall2.append {α β : Type} {R : α → β → Prop} {l1 l2 : List α} {m1 m2 : List β}
    (h1 : Forall2 R l1 m1) (h2 : Forall2 R l2 m2) : Forall2 R (l1 ++ l2) (m1 ++ m2) := by
  induction h1 with
  | nil => exact h2
  | cons hab _ ih => exact Forall2.cons hab ih

/-- related pointwise, then reordered -/
def PermRel {α β : Type} (R : α → β → Prop) (l : List α) (l' : List β) : Prop :=
  ∃ mid, Forall2 R l mid ∧ mid.Perm l'

theorem mapE_pointwise {α β β' : Type} (R : β → β' → Prop) {g : α → Except Err β}
    {g' : α → Except Err β'} :
    ∀ (l : List α), (∀ a ∈ l, ExRel R (g a) (g' a)) → ExRel (Forall2 R) (mapE g l) (mapE g' l)
  | [], _ => Forall2.nil
  | a :: l, h => by
    have ha := h a (List.mem_cons_self ..)
    have ih := mapE_pointwise R l (fun b hb => h b (List.mem_cons_of_mem _ hb))
    simp only [mapE]
    cases hA : g a with
    | error e =>
      cases hB : g' a with
      | error e' => trivial
      | ok b' => rw [hA, hB] at ha; exact ha.elim
    | ok b =>
      cases hB : g' a with
      | error e' => rw [hA, hB] at ha; exact ha.elim
      | ok b' =>
        rw [hA, hB] at ha
        simp only
        cases hC : mapE g l with
        | error e =>
          cases hD : mapE g' l with
          | error e' => trivial
          | ok bs' => rw [hC, hD] at ih; exact ih.elim
        | ok bs =>
          cases hD : mapE g' l with
          | error e' => rw [hC, hD] at ih; exact ih.elim
          | ok bs' =>
            rw [hC, hD] at ih
            exact Forall2.cons ha ih

theorem ExRel.trans_perm {β : Type} {x y z : Except Err (List β)}
    (h1 : ExRel List.Perm x y) (h2 : ExRel List.Perm y z) : ExRel List.Perm x z := by
  cases x with
  | error e =>
    cases y with
    | error e' =>
      cases z with
      | error _ => trivial
      | ok _ => exact h2
    | ok _ => exact h1.elim
  | ok a =>
    cases y with
    | error e' => exact h1.elim
    | ok b =>
      cases z with
      | error _ => exact h2.elim
      | ok c => exact List.Perm.trans h1 h2

theorem mapE_perm {α β : Type} (g : α → Except Err β) {l l' : List α} (hp : l.Perm l') :
    ExRel List.Perm (mapE g l) (mapE g l') := by
  induction hp with
  | nil => exact List.Perm.refl _
  | cons a hp' ih =>
    rename_i l1 l2
    simp only [mapE]
    cases g a with
    | error e => trivial
    | ok b =>
      simp only
      cases hA : mapE g l1 with
      | error e =>
        cases hB : mapE g l2 with
        | error e' => trivial
        | ok bs' => rw [hA, hB] at ih; exact ih.elim
      | ok bs =>
        cases hB : mapE g l2 with
        | error e' => rw [hA, hB] at ih; exact ih.elim
        | ok bs' =>
          rw [hA, hB] at ih
          exact List.Perm.cons b ih
  | swap x y l =>
    simp only [mapE]
    cases g x with
    | error e =>
      cases g y with
      | error e' => trivial
      | ok b => trivial
    | ok a =>
      cases g y with
      | error e' => trivial
      | ok b =>
        simp only
        cases mapE g l with
        | error e => trivial
        | ok bs => exact List.Perm.swap _ _ _
  | trans _ _ ih1 ih2 => exact ih1.trans_perm ih2

/-- **Order independence of a map with errors.** -/
theorem mapE_perm_rel {α β β' : Type} (R : β → β' → Prop) {g : α → Except Err β}
    {g' : α → Except Err β'} {l l' : List α} (hp : l.Perm l')
    (h : ∀ a ∈ l, ExRel R (g a) (g' a)) : ExRel (PermRel R) (mapE g l) (mapE g' l') := by
  have h1 := mapE_pointwise R l h
  have h2 := mapE_perm g' hp
  cases hA : mapE g l with
  | error e =>
    cases hB : mapE g' l with
    | ok _ => rw [hA, hB] at h1; exact h1.elim
    | error e' =>
      cases hC : mapE g' l' with
      | ok _ => rw [hB, hC] at h2; exact h2.elim
      | error _ => trivial
  | ok bs =>
    cases hB : mapE g' l with
    | error _ => rw [hA, hB] at h1; exact h1.elim
    | ok mid =>
      cases hC : mapE g' l' with
      | error _ => rw [hB, hC] at h2; exact h2.elim
      | ok bs' =>
        rw [hA, hB] at h1
        rw [hB, hC] at h2
        exact ⟨mid, h1, h2⟩

/-! ## the two loops of `dirStatus` as maps -/

section
variable [DecidableEq κ]

/-- status of one manifest entry -/
def trackedOne (ctx : Ctx κ) (s : Store κ)
    (fd : Bytes → Digest → Option (Node κ) → Except Err Status) (es : List (Name × Node κ))
    (c : Child) : Except Err Status :=
  if c.isDir then fd c.name c.sum (alookup es c.name)
  else .ok (fileStatus ctx s c.name false c.sum (alookup es c.name))

/-- status of one untracked listing entry -/
def untrackedOne (ctx : Ctx κ) (s : Store κ)
    (fd : Bytes → Digest → Option (Node κ) → Except Err Status) (e : Name × Node κ) :
    Except Err Status :=
  if e.2.isDir then fd e.1 "" (some e.2)
  else .ok (fileStatus ctx s e.1 false "" (some e.2))

theorem childStatuses_eq_mapE (ctx : Ctx κ) (s : Store κ)
    (fd : Bytes → Digest → Option (Node κ) → Except Err Status) (es : List (Name × Node κ)) :
    ∀ cs, childStatuses ctx s fd es cs = mapE (trackedOne ctx s fd es) cs
  | [] => rfl
  | c :: cs => by
    simp only [childStatuses, mapE, trackedOne]
    rw [childStatuses_eq_mapE ctx s fd es cs]
    cases (if c.isDir = true then fd c.name c.sum (alookup es c.name)
      else Except.ok (fileStatus ctx s c.name false c.sum (alookup es c.name))) with
    | error e => rfl
    | ok st =>
      simp only
      cases mapE (trackedOne ctx s fd es) cs with
      | error e => rfl
      | ok r => rfl

theorem untrackedStatuses_eq_mapE (ctx : Ctx κ) (s : Store κ)
    (fd : Bytes → Digest → Option (Node κ) → Except Err Status) :
    ∀ es, untrackedStatuses ctx s fd es = mapE (untrackedOne ctx s fd) es
  | [] => rfl
  | (nm, n) :: r => by
    simp only [untrackedStatuses, mapE, untrackedOne]
    rw [untrackedStatuses_eq_mapE ctx s fd r]
    cases (if n.isDir = true then fd nm "" (some n)
      else Except.ok (fileStatus ctx s nm false "" (some n))) with
    | error e => rfl
    | ok st =>
      simp only
      cases mapE (untrackedOne ctx s fd) r with
      | error e => rfl
      | ok rs => rfl

/-- **Order independence of `childStatuses`** (manifest entries reordered, listing reordered). -/
theorem childStatuses_perm (ctx : Ctx κ) (s : Store κ)
    (fd : Bytes → Digest → Option (Node κ) → Except Err Status) {es es' : List (Name × Node κ)}
    (hes : ∀ nm, alookup es nm = alookup es' nm) {cs cs' : List Child} (hp : cs.Perm cs') :
    ExRel List.Perm (childStatuses ctx s fd es cs) (childStatuses ctx s fd es' cs') := by
  rw [childStatuses_eq_mapE, childStatuses_eq_mapE]
  have : trackedOne ctx s fd es = trackedOne ctx s fd es' := by
    funext c
    simp only [trackedOne, hes]
  rw [this]
  exact mapE_perm _ hp

/-- **Order independence of `untrackedStatuses`.** -/
theorem untrackedStatuses_perm (ctx : Ctx κ) (s : Store κ)
    (fd : Bytes → Digest → Option (Node κ) → Except Err Status) {es es' : List (Name × Node κ)}
    (hp : es.Perm es') :
    ExRel List.Perm (untrackedStatuses ctx s fd es) (untrackedStatuses ctx s fd es') := by
  rw [untrackedStatuses_eq_mapE, untrackedStatuses_eq_mapE]
  exact mapE_perm _ hp

end

/-- a listing with pairwise distinct names is the same finite map in every order -/
theorem alookup_perm {β : Type} {es es' : List (Name × β)} (hp : es.Perm es')
    (hnd : (es.map (·.1)).Nodup) (nm : Name) : alookup es nm = alookup es' nm := by
  induction hp with
  | nil => rfl
  | cons x _ ih =>
    obtain ⟨k, v⟩ := x
    simp only [List.map_cons, List.nodup_cons] at hnd
    simp only [alookup, ih hnd.2]
  | swap x y l =>
    obtain ⟨k, v⟩ := x
    obtain ⟨k', v'⟩ := y
    simp only [List.map_cons, List.nodup_cons, List.mem_cons, not_or] at hnd
    have hne : k' ≠ k := hnd.1.1
    simp only [alookup]
    by_cases h1 : k' = nm
    · have h2 : k ≠ nm := fun e => hne (h1.trans e.symm)
      simp [h1, h2]
    · simp [h1]
  | trans hp1 _ ih1 ih2 =>
    exact (ih1 hnd).trans (ih2 ((hp1.map _).nodup_iff.1 hnd))

theorem Forall2.eq {α : Type} {l l' : List α} (h : Forall2 (fun a b => a = b) l l') : l = l' := by
  induction h with
  | nil => rfl
  | cons hab _ ih => rw [hab, ih]

/-! ## every directory in any order -/

/-- agree on every field, children related by `R` up to order -/
def StatusRel (R : Status → Status → Prop) (a b : Status) : Prop :=
  a.name = b.name ∧ a.isDir = b.isDir ∧ a.skip = b.skip ∧ a.ws = b.ws ∧ a.has = b.has ∧
    a.inCache = b.inCache ∧ a.cm = b.cm ∧ PermRel R a.children b.children

/-- agree on every field; children agree up to order, recursively -/
inductive StatusPerm : Status → Status → Prop
  | mk (a b : Status) (mid : List Status) :
      a.name = b.name → a.isDir = b.isDir → a.skip = b.skip → a.ws = b.ws → a.has = b.has →
      a.inCache = b.inCache → a.cm = b.cm → Forall2 StatusPerm a.children mid →
      mid.Perm b.children → StatusPerm a b

theorem StatusPerm.of_rel {a b : Status} (h : StatusRel StatusPerm a b) : StatusPerm a b := by
  obtain ⟨h1, h2, h3, h4, h5, h6, h7, mid, h8, h9⟩ := h
  exact StatusPerm.mk a b mid h1 h2 h3 h4 h5 h6 h7 h8 h9

theorem StatusPerm.rel {a b : Status} (h : StatusPerm a b) : StatusRel StatusPerm a b := by
  cases h with
  | mk _ _ mid h1 h2 h3 h4 h5 h6 h7 h8 h9 => exact ⟨h1, h2, h3, h4, h5, h6, h7, mid, h8, h9⟩

theorem StatusPerm.leaf (a : Status) (h : a.children = []) : StatusPerm a a :=
  StatusPerm.mk a a [] rfl rfl rfl rfl rfl rfl rfl (by rw [h]; exact Forall2.nil)
    (by rw [h])

section
variable [DecidableEq κ]

theorem fileStatus_children (ctx : Ctx κ) (s : Store κ) (nm : Bytes) (skip : Bool) (sum : Digest)
    (cur : Option (Node κ)) : (fileStatus ctx s nm skip sum cur).children = [] := by
  unfold fileStatus
  dsimp only
  repeat' split
  all_goals rfl

/-- the listing entries the manifest does not mention (`noRec`: sub-directories are left out) -/
def untrackedOf (noRec : Bool) (es : List (Name × Node κ)) (cs : List Child) :
    List (Name × Node κ) :=
  (if noRec then es.filter (fun e => !e.2.isDir) else es).filter
    (fun e => (findChild cs e.1).isNone)

/-- the part of `dirStatus` after the manifest has been read, with the processing orders
(`ord1` for the manifest entries, `ord2` for the untracked listing entries) as parameters -/
def dirBody (ctx : Ctx κ) (s : Store κ)
    (fd : Bytes → Digest → Option (Node κ) → Except Err Status)
    (ord1 : List Child → List Child)
    (ord2 : List (Name × Node κ) → List (Name × Node κ))
    (base : Status) (q : Quick) (noRec : Bool) (es : List (Name × Node κ)) (cs : List Child) :
    Except Err Status :=
  match childStatuses ctx s fd es (ord1 cs) with
  | .error e => .error e
  | .ok tracked =>
    let listing := if noRec then es.filter (fun e => !e.2.isDir) else es
    let untracked := listing.filter (fun e => (findChild cs e.1).isNone)
    match untrackedStatuses ctx s fd (ord2 untracked) with
    | .error e => .error e
    | .ok un =>
      .ok { base with cm := q.has && q.inCache && tracked.all (·.cm) && untracked.isEmpty,
                      children := tracked ++ un }

/-- **Order independence of the body of `dirStatus`**, in the general form needed for the
recursion: two processing orders, two listings that are permutations of each other and equal
as finite maps, two functions for the sub-directories whose results are related by `R`. -/
theorem dirBody_rel (ctx : Ctx κ) (s : Store κ) (R : Status → Status → Prop)
    (hR : ∀ a, a.children = [] → R a a) (hcm : ∀ a b, R a b → a.cm = b.cm)
    {fd fd' : Bytes → Digest → Option (Node κ) → Except Err Status}
    (hfd : ∀ nm sm cu, ExRel R (fd nm sm cu) (fd' nm sm cu))
    {ord1 ord1' : List Child → List Child}
    {ord2 ord2' : List (Name × Node κ) → List (Name × Node κ)}
    (base : Status) (q : Quick) (noRec : Bool) {es es' : List (Name × Node κ)}
    (hes : es.Perm es') (hlook : ∀ nm, alookup es nm = alookup es' nm) (cs : List Child)
    (h1 : (ord1 cs).Perm cs) (h1' : (ord1' cs).Perm cs)
    (h2 : (ord2 (untrackedOf noRec es cs)).Perm (untrackedOf noRec es cs))
    (h2' : (ord2' (untrackedOf noRec es' cs)).Perm (untrackedOf noRec es' cs)) :
    ExRel (StatusRel R) (dirBody ctx s fd ord1 ord2 base q noRec es cs)
      (dirBody ctx s fd' ord1' ord2' base q noRec es' cs) := by
  -- tracked
  have ht : ExRel (PermRel R) (childStatuses ctx s fd es (ord1 cs))
      (childStatuses ctx s fd' es' (ord1' cs)) := by
    rw [childStatuses_eq_mapE, childStatuses_eq_mapE]
    refine mapE_perm_rel R (h1.trans h1'.symm) (fun c _ => ?_)
    simp only [trackedOne, hlook]
    split
    · exact hfd _ _ _
    · exact hR _ (fileStatus_children ..)
  -- untracked
  have hun : ((if noRec then es.filter (fun e => !e.2.isDir) else es).filter
        (fun e => (findChild cs e.1).isNone)).Perm
      ((if noRec then es'.filter (fun e => !e.2.isDir) else es').filter
        (fun e => (findChild cs e.1).isNone)) := by
    refine List.Perm.filter _ ?_
    split
    · exact hes.filter _
    · exact hes
  have hu : ExRel (PermRel R)
      (untrackedStatuses ctx s fd (ord2 ((if noRec then es.filter (fun e => !e.2.isDir)
        else es).filter (fun e => (findChild cs e.1).isNone))))
      (untrackedStatuses ctx s fd' (ord2' ((if noRec then es'.filter (fun e => !e.2.isDir)
        else es').filter (fun e => (findChild cs e.1).isNone)))) := by
    rw [untrackedStatuses_eq_mapE, untrackedStatuses_eq_mapE]
    unfold untrackedOf at h2 h2'
    refine mapE_perm_rel R ((h2.trans hun).trans h2'.symm) (fun e _ => ?_)
    simp only [untrackedOne]
    split
    · exact hfd _ _ _
    · exact hR _ (fileStatus_children ..)
  unfold dirBody
  cases hA : childStatuses ctx s fd es (ord1 cs) with
  | error e =>
    cases hB : childStatuses ctx s fd' es' (ord1' cs) with
    | error e' => trivial
    | ok _ => rw [hA, hB] at ht; exact ht.elim
  | ok tr =>
    cases hB : childStatuses ctx s fd' es' (ord1' cs) with
    | error e' => rw [hA, hB] at ht; exact ht.elim
    | ok tr' =>
      rw [hA, hB] at ht
      simp only
      cases hC : untrackedStatuses ctx s fd (ord2 ((if noRec then es.filter (fun e => !e.2.isDir)
          else es).filter (fun e => (findChild cs e.1).isNone))) with
      | error e =>
        cases hD : untrackedStatuses ctx s fd' (ord2' ((if noRec then
            es'.filter (fun e => !e.2.isDir) else es').filter
            (fun e => (findChild cs e.1).isNone))) with
        | error e' => trivial
        | ok _ => rw [hC, hD] at hu; exact hu.elim
      | ok un =>
        cases hD : untrackedStatuses ctx s fd' (ord2' ((if noRec then
            es'.filter (fun e => !e.2.isDir) else es').filter
            (fun e => (findChild cs e.1).isNone))) with
        | error e' => rw [hC, hD] at hu; exact hu.elim
        | ok un' =>
          rw [hC, hD] at hu
          obtain ⟨m1, f1, p1⟩ := ht
          obtain ⟨m2, f2, p2⟩ := hu
          have hall : tr.all (·.cm) = tr'.all (·.cm) :=
            (Forall2.all_eq hcm f1).trans p1.all_eq
          refine ⟨rfl, rfl, rfl, rfl, rfl, rfl, ?_, m1 ++ m2, f1.append f2, p1.append p2⟩
          simp only [hall, hun.isEmpty_eq]

/-- `dirStatus` with the manifest entries of every directory processed in the order `σ` chooses
and the untracked listing entries in the order `τ` chooses -/
def dirStatusS (ctx : Ctx κ) (s : Store κ) (σ : Nat → Bytes → List Child → List Child)
    (τ : Nat → Bytes → List (Name × Node κ) → List (Name × Node κ)) :
    Nat → Bytes → Bool → Digest → Option (Node κ) → Except Err Status
  | 0, _, _, _, _ => .error .other
  | fuel+1, name, noRec, sum, cur =>
    let q := quick s sum cur
    let base : Status := { name := name, isDir := true, skip := false, ws := q.ws, has := q.has,
                           inCache := q.inCache, cm := q.cm, children := [] }
    match cur with
    | some (.dir es) =>
      let man : Except Err (List Child) := if q.inCache then readManifest ctx s sum else .ok []
      match man with
      | .error e => .error e
      | .ok cs =>
        dirBody ctx s (fun nm sm cu => dirStatusS ctx s σ τ fuel nm false sm cu)
          (σ fuel name) (τ fuel name) base q noRec es cs
    | _ => .ok base

/-- `dirStatus` in terms of `dirBody` -/
theorem dirStatus_succ (ctx : Ctx κ) (s : Store κ) (fuel : Nat) (name : Bytes) (noRec : Bool)
    (sum : Digest) (cur : Option (Node κ)) :
    dirStatus ctx s (fuel+1) name noRec sum cur =
      (let q := quick s sum cur
       let base : Status := { name := name, isDir := true, skip := false, ws := q.ws, has := q.has,
                              inCache := q.inCache, cm := q.cm, children := [] }
       match cur with
       | some (.dir es) =>
         let man : Except Err (List Child) := if q.inCache then readManifest ctx s sum else .ok []
         match man with
         | .error e => .error e
         | .ok cs =>
           dirBody ctx s (fun nm sm cu => dirStatus ctx s fuel nm false sm cu) id id base q noRec
             es cs
       | _ => .ok base) := by
  cases cur with
  | none => rfl
  | some nd =>
    cases nd with
    | dir es =>
      simp only [dirStatus, dirBody, id]
      cases (if (quick s sum (some (Node.dir es))).inCache = true then readManifest ctx s sum
        else Except.ok []) with
      | error e => rfl
      | ok cs => rfl
    | file x => rfl
    | link l => rfl
    | other => rfl

theorem StatusPerm.cm_eq {a b : Status} (h : StatusPerm a b) : a.cm = b.cm := h.rel.2.2.2.2.2.2.1

/-- **Order independence of `dirStatus` at every level.**  Whatever order is used for the manifest
entries and for the untracked entries of each directory, the status call fails iff the sequential
one does, and otherwise the two statuses agree on every field, the children up to order,
recursively. -/
theorem dirStatusS_perm (ctx : Ctx κ) (s : Store κ) (σ : Nat → Bytes → List Child → List Child)
    (τ : Nat → Bytes → List (Name × Node κ) → List (Name × Node κ))
    (hσ : ∀ k nm l, (σ k nm l).Perm l) (hτ : ∀ k nm l, (τ k nm l).Perm l) :
    ∀ (fuel : Nat) (name : Bytes) (noRec : Bool) (sum : Digest) (cur : Option (Node κ)),
      ExRel StatusPerm (dirStatusS ctx s σ τ fuel name noRec sum cur)
        (dirStatus ctx s fuel name noRec sum cur)
  | 0, _, _, _, _ => trivial
  | fuel+1, name, noRec, sum, cur => by
    rw [dirStatus_succ]
    simp only [dirStatusS]
    cases cur with
    | none => exact StatusPerm.leaf _ rfl
    | some nd =>
      cases nd with
      | dir es =>
        simp only
        cases (if (quick s sum (some (Node.dir es))).inCache = true then readManifest ctx s sum
          else Except.ok []) with
        | error e => trivial
        | ok cs =>
          simp only
          refine ExRel.mono (fun a b h => StatusPerm.of_rel h)
            (dirBody_rel ctx s StatusPerm StatusPerm.leaf (fun a b h => h.cm_eq)
              (fun nm sm cu => dirStatusS_perm ctx s σ τ hσ hτ fuel nm false sm cu)
              _ _ noRec (List.Perm.refl es) (fun _ => rfl) cs (hσ fuel name cs)
              (List.Perm.refl _) (hτ fuel name _) (List.Perm.refl _))
      | file x => exact StatusPerm.leaf _ rfl
      | link l => exact StatusPerm.leaf _ rfl
      | other => exact StatusPerm.leaf _ rfl

theorem StatusRel.children_perm {a b : Status} (h : StatusRel (fun x y => x = y) a b) :
    a.children.Perm b.children := by
  obtain ⟨mid, h1, h2⟩ := h.2.2.2.2.2.2.2
  rw [h1.eq]
  exact h2

/-- **`dirStatus` does not depend on the order of the listing** (names pairwise distinct): same
error status, same fields, the same children statuses up to order. -/
theorem dirStatus_listing_perm (ctx : Ctx κ) (s : Store κ) {es es' : List (Name × Node κ)}
    (hes : es.Perm es') (hnd : (es.map (·.1)).Nodup) (fuel : Nat) (name : Bytes) (noRec : Bool)
    (sum : Digest) :
    ExRel (StatusRel (fun x y => x = y)) (dirStatus ctx s fuel name noRec sum (some (.dir es)))
      (dirStatus ctx s fuel name noRec sum (some (.dir es'))) := by
  cases fuel with
  | zero => trivial
  | succ fuel =>
    rw [dirStatus_succ, dirStatus_succ]
    have hq : quick s sum (some (Node.dir es')) = quick s sum (some (Node.dir es)) := rfl
    simp only [hq]
    cases (if (quick s sum (some (Node.dir es))).inCache = true then readManifest ctx s sum
      else Except.ok []) with
    | error e => trivial
    | ok cs =>
      simp only
      exact dirBody_rel ctx s (fun x y => x = y) (fun _ _ => rfl) (fun a b h => by rw [h])
        (fun nm sm cu => ExRel.refl (fun _ => rfl) _)
        (ord1 := id) (ord1' := id) (ord2 := id) (ord2' := id)
        _ _ noRec hes (alookup_perm hes hnd) cs (List.Perm.refl _) (List.Perm.refl _)
        (List.Perm.refl _) (List.Perm.refl _)

end

end Dud
