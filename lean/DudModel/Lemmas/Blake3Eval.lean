import DudModel.Blake3Spec
/-!
# Lemmas: evaluating the BLAKE3 specification one compression at a time

Core-only.  Kernel evaluation (`decide +kernel`) of `Blake3.compress` costs about two seconds per
compression, so a whole multi-chunk test vector cannot be checked in ONE declaration within a
reasonable time.  These lemmas let `Props/C14blake3Vectors.lean` check a vector as a chain of small
theorems, one per compression: the chaining value after `i` blocks of a chunk (`chainCV`), the chunk
outputs in terms of it (`chunkCVOf_chain`, `chunkRootOf_chain`), and the tree over 1–4 explicit
chunks (`treeHash_1` … `treeHash_4`).
-/
namespace Dud.Blake3Spec

variable {CV Digest : Type}

/-- the `i`-th 64-byte block of a chunk -/
def blockAt (bs : Bytes) (i : Nat) : Bytes := (bs.drop (64 * i)).take 64

/-- the `j`-th 1024-byte chunk of an input -/
def chunkAt (xs : Bytes) (j : Nat) : Bytes := (xs.drop (1024 * j)).take 1024

/-- chaining value after compressing the first `i` blocks of the chunk `bs` (none of them final) -/
def chainCV (B : BlockParams CV Digest) (ctr : Nat) (bs : Bytes) : Nat → CV
  | 0 => B.iv
  | i + 1 => B.compressBlock (chainCV B ctr bs i) (blockAt bs i) ctr (i == 0)

theorem chunkTailF_chain (B : BlockParams CV Digest) (ctr : Nat) (bs : Bytes) :
    ∀ (n i : Nat), (bs.drop (64 * i)).length ≤ n →
      chunkTailF B ctr (bs.drop (64 * i)).length (chainCV B ctr bs i) (i == 0) (bs.drop (64 * i)) =
        ⟨chainCV B ctr bs (i + ((bs.drop (64 * i)).length - 1) / 64),
          (i + ((bs.drop (64 * i)).length - 1) / 64 == 0),
          bs.drop (64 * (i + ((bs.drop (64 * i)).length - 1) / 64))⟩ := by
  intro n
  induction n using Nat.strongRecOn with
  | _ n ih =>
    intro i hn
    rw [chunkTailF_eq]
    by_cases hle : (bs.drop (64 * i)).length ≤ 64
    · have hk : ((bs.drop (64 * i)).length - 1) / 64 = 0 := by omega
      simp only [hle, if_true, hk, Nat.add_zero]
    · simp only [hle, if_false]
      have hdd : (bs.drop (64 * i)).drop 64 = bs.drop (64 * (i + 1)) := by
        rw [List.drop_drop]; congr 1
      have hstep : B.compressBlock (chainCV B ctr bs i) ((bs.drop (64 * i)).take 64) ctr (i == 0)
          = chainCV B ctr bs (i + 1) := rfl
      have hfalse : false = (i + 1 == 0) := by simp
      rw [hstep, hdd, hfalse]
      have hlen : (bs.drop (64 * (i + 1))).length = (bs.drop (64 * i)).length - 64 := by
        rw [← hdd, List.length_drop]
      have := ih ((bs.drop (64 * (i + 1))).length) (by omega) (i + 1) (Nat.le_refl _)
      rw [this]
      have hk : i + 1 + ((bs.drop (64 * (i + 1))).length - 1) / 64
          = i + ((bs.drop (64 * i)).length - 1) / 64 := by omega
      rw [hk]

/-- The blockwise chunk processing, indexed: all blocks but the last are chained, the last block
(`k = (|bs| - 1) / 64` blocks precede it) is left for finalisation. -/
theorem chunkTail_chain (B : BlockParams CV Digest) (ctr : Nat) (bs : Bytes) (k : Nat)
    (hk : k = (bs.length - 1) / 64) :
    chunkTail B ctr bs = ⟨chainCV B ctr bs k, (k == 0), bs.drop (64 * k)⟩ := by
  have := chunkTailF_chain B ctr bs bs.length 0 (by simp)
  simp only [Nat.mul_zero, List.drop_zero, Nat.zero_add] at this
  unfold chunkTail
  rw [hk]
  exact this

theorem chunkCVOf_chain (B : BlockParams CV Digest) (ctr : Nat) (bs : Bytes) (k : Nat)
    (hk : k = (bs.length - 1) / 64) :
    chunkCVOf B bs ctr = B.finalCV (chainCV B ctr bs k) (bs.drop (64 * k)) ctr (k == 0) := by
  unfold chunkCVOf; rw [chunkTail_chain B ctr bs k hk]

theorem chunkRootOf_chain (B : BlockParams CV Digest) (ctr : Nat) (bs : Bytes) (k : Nat)
    (hk : k = (bs.length - 1) / 64) :
    chunkRootOf B bs ctr = B.finalRoot (chainCV B ctr bs k) (bs.drop (64 * k)) ctr (k == 0) := by
  unfold chunkRootOf; rw [chunkTail_chain B ctr bs k hk]

/-! The tree over 1–4 explicit chunks, by unfolding the definition. -/

theorem treeHash_1 (P : Params CV Digest) (a : Bytes) : treeHash P [a] = P.chunkRoot a 0 := rfl

theorem treeHash_2 (P : Params CV Digest) (a b : Bytes) :
    treeHash P [a, b] = P.parentRoot (P.chunkCV a 0) (P.chunkCV b 1) := rfl

theorem treeHash_3 (P : Params CV Digest) (a b c : Bytes) :
    treeHash P [a, b, c] =
      P.parentRoot (P.parentCV (P.chunkCV a 0) (P.chunkCV b 1)) (P.chunkCV c 2) := rfl

theorem treeHash_4 (P : Params CV Digest) (a b c d : Bytes) :
    treeHash P [a, b, c, d] =
      P.parentRoot (P.parentCV (P.chunkCV a 0) (P.chunkCV b 1))
        (P.parentCV (P.chunkCV c 2) (P.chunkCV d 3)) := rfl

/-- The longest official test input used in `Props/C14blake3Vectors.lean` (3073 bytes: 0,1,…,250
repeated); its first three chunks are shared by all vectors checked there. -/
abbrev Vectors.X : Bytes := testInput 3073

end Dud.Blake3Spec
