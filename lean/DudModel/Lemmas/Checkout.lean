import DudModel.FrameSpec
/-!
# Lemmas about `checkoutFile` / `checkoutChildren` / `checkoutNode`
-/
namespace Dud

variable {κ : Type}

/-! ## `Keeps` is a preorder -/

mutual
theorem Keeps_refl (ctx : Ctx κ) (s : Store κ) (strat : Strat) : ∀ n : Node κ, Keeps ctx s strat n n
  | .dir es => by unfold Keeps; exact ⟨es, rfl, KeepsList_refl ctx s strat es⟩
  | .link (.obj d) => by unfold Keeps; exact Or.inl rfl
  | .link (.foreign l) => by unfold Keeps; rfl
  | .file c => by unfold Keeps; rfl
  | .other => by unfold Keeps; rfl
theorem KeepsList_refl (ctx : Ctx κ) (s : Store κ) (strat : Strat) :
    ∀ es : List (Name × Node κ), KeepsList ctx s strat es es
  | [] => by unfold KeepsList; trivial
  | (nm, n) :: r => by
    unfold KeepsList; exact ⟨n, r, rfl, Keeps_refl ctx s strat n, KeepsList_refl ctx s strat r⟩
end

mutual
theorem Keeps_trans (ctx : Ctx κ) (s : Store κ) (strat : Strat) :
    ∀ (a b c : Node κ), Keeps ctx s strat a b → Keeps ctx s strat b c → Keeps ctx s strat a c
  | .dir es, b, c, h1, h2 => by
    unfold Keeps at h1
    obtain ⟨es1, rfl, h1⟩ := h1
    unfold Keeps at h2
    obtain ⟨es2, rfl, h2⟩ := h2
    unfold Keeps
    exact ⟨es2, rfl, KeepsList_trans ctx s strat es es1 es2 h1 h2⟩
  | .link (.obj d), b, c, h1, h2 => by
    unfold Keeps at h1
    rcases h1 with rfl | ⟨hs, o, ho, rfl⟩
    · exact h2
    · unfold Keeps at h2; subst h2; unfold Keeps; exact Or.inr ⟨hs, o, ho, rfl⟩
  | .link (.foreign l), b, c, h1, h2 => by unfold Keeps at h1; subst h1; exact h2
  | .file x, b, c, h1, h2 => by unfold Keeps at h1; subst h1; exact h2
  | .other, b, c, h1, h2 => by unfold Keeps at h1; subst h1; exact h2
theorem KeepsList_trans (ctx : Ctx κ) (s : Store κ) (strat : Strat) :
    ∀ (a b c : List (Name × Node κ)),
      KeepsList ctx s strat a b → KeepsList ctx s strat b c → KeepsList ctx s strat a c
  | [], _, _, _, _ => by unfold KeepsList; trivial
  | (nm, n) :: r, b, c, h1, h2 => by
    unfold KeepsList at h1
    obtain ⟨n1, r1, rfl, hn1, hr1⟩ := h1
    unfold KeepsList at h2
    obtain ⟨n2, r2, rfl, hn2, hr2⟩ := h2
    unfold KeepsList
    exact ⟨n2, r2, rfl, Keeps_trans ctx s strat n n1 n2 hn1 hn2,
      KeepsList_trans ctx s strat r r1 r2 hr1 hr2⟩
end

/-! ## listings -/

theorem alookup_setEntry_self (es : List (Name × Node κ)) (nm : Name) (n : Node κ) :
    alookup (setEntry es nm n) nm = some n := by
  induction es with
  | nil => simp [setEntry, alookup]
  | cons e r ih =>
    obtain ⟨k, v⟩ := e
    by_cases h : k = nm
    · subst h; simp [setEntry, alookup]
    · simp [setEntry, alookup, h, ih]

theorem alookup_setEntry_ne (es : List (Name × Node κ)) {k nm : Name} (n : Node κ) (h : k ≠ nm) :
    alookup (setEntry es k n) nm = alookup es nm := by
  induction es with
  | nil => simp [setEntry, alookup, h]
  | cons e r ih =>
    obtain ⟨k', v⟩ := e
    by_cases h' : k' = k
    · subst h'; simp [setEntry, alookup, h]
    · by_cases h'' : k' = nm
      · subst h''; simp [setEntry, alookup, h']
      · simp [setEntry, alookup, h', h'', ih]

/-- replacing (or appending) one entry keeps the listing, provided the replaced node is kept -/
theorem KeepsList_setEntry (ctx : Ctx κ) (s : Store κ) (strat : Strat)
    (es : List (Name × Node κ)) (nm : Name) (n : Node κ)
    (h : ∀ old, alookup es nm = some old → Keeps ctx s strat old n) :
    KeepsList ctx s strat es (setEntry es nm n) := by
  induction es with
  | nil => unfold KeepsList; trivial
  | cons e r ih =>
    obtain ⟨k, v⟩ := e
    by_cases hk : k = nm
    · subst hk
      simp only [setEntry, beq_self_eq_true, if_true]
      unfold KeepsList
      exact ⟨n, r, rfl, h v (by simp [alookup]), KeepsList_refl ctx s strat r⟩
    · simp only [setEntry, beq_iff_eq, hk, if_false]
      unfold KeepsList
      refine ⟨v, _, rfl, Keeps_refl ctx s strat v, ih ?_⟩
      intro old ho; exact h old (by simp [alookup, hk, ho])

/-- the finite-map reading of `KeepsList` (no duplicate-freeness needed) -/
theorem KeepsList_alookup {ctx : Ctx κ} {s : Store κ} {strat : Strat} :
    ∀ {es es' : List (Name × Node κ)}, KeepsList ctx s strat es es' →
      ∀ {nm n}, alookup es nm = some n → ∃ n', alookup es' nm = some n' ∧ Keeps ctx s strat n n'
  | [], _, _, _, _, h => by simp [alookup] at h
  | (k, v) :: r, es', hk, nm, n, h => by
    unfold KeepsList at hk
    obtain ⟨v', r', rfl, hv, hr⟩ := hk
    by_cases hkn : k = nm
    · subst hkn; simp only [alookup, beq_self_eq_true, if_true, Option.some.injEq] at h ⊢
      subst h; exact ⟨v', rfl, hv⟩
    · simp only [alookup, beq_iff_eq, hkn, if_false] at h ⊢
      exact KeepsList_alookup hr h

theorem KeepsList_length {ctx : Ctx κ} {s : Store κ} {strat : Strat} :
    ∀ {es es' : List (Name × Node κ)}, KeepsList ctx s strat es es' → es.length ≤ es'.length
  | [], _, _ => Nat.zero_le _
  | (k, v) :: r, es', hk => by
    unfold KeepsList at hk
    obtain ⟨v', r', rfl, _, hr⟩ := hk
    simp only [List.length_cons]; exact Nat.succ_le_succ (KeepsList_length hr)

/-! ## `checkoutFile` -/

theorem quick_cm_some {s : Store κ} {sum : Digest} {n : Node κ}
    (h : (quick s sum (some n)).cm = true) :
    n = .link (.obj sum) ∧ hasSum sum = true ∧ s.has sum = true := by
  unfold quick at h
  simp only at h
  split at h
  · rename_i d heq
    simp only [Option.some.injEq] at heq; subst heq
    simp only [Bool.and_eq_true, beq_iff_eq] at h
    obtain ⟨⟨h1, h2⟩, rfl⟩ := h
    exact ⟨rfl, h1, h2⟩
  · cases h

theorem upToDateCopy_some {ctx : Ctx κ} {sum : Digest} {n : Node κ}
    (h : upToDateCopy ctx (some n) sum = true) : ∃ c, n = .file c ∧ ctx.H c = sum := by
  unfold upToDateCopy at h
  split at h
  · rename_i c heq
    simp only [Option.some.injEq] at heq; subst heq
    exact ⟨c, rfl, by simpa using h⟩
  · cases h

theorem upToDateCopy_none (ctx : Ctx κ) (sum : Digest) : upToDateCopy ctx none sum = false := rfl

/-- exact description of the successful runs of `checkoutFile` on an occupied path: either the
entry is a regular file hashing to `sum` (kept as is), or it is a link to exactly `sum` -/
theorem checkoutFile_some_ok {ctx : Ctx κ} {strat : Strat} {n n' : Node κ} {sum : Digest}
    {s : Store κ} (h : checkoutFile ctx strat (some n) sum s = .ok n') :
    (upToDateCopy ctx (some n) sum = true ∧ n' = n) ∨
    (upToDateCopy ctx (some n) sum = false ∧
      n = .link (.obj sum) ∧ (quick s sum (some n)).cm = true ∧
      ((strat = .link ∧ n' = n) ∨
       (strat = .copy ∧ ∃ o, s.get sum = some o ∧ n' = .file (o.bytes ctx) ∧
          ctx.H (o.bytes ctx) = sum))) := by
  unfold checkoutFile at h
  simp only at h
  split at h; · cases h
  split at h; · cases h
  split at h; · cases h
  rename_i o ho
  by_cases hup : upToDateCopy ctx (some n) sum = true
  · simp only [hup, if_true, Option.getD_some, Except.ok.injEq] at h
    exact Or.inl ⟨hup, h.symm⟩
  · have hup' : upToDateCopy ctx (some n) sum = false := by simpa using hup
    simp only [hup', Bool.false_eq_true, if_false] at h
    refine Or.inr ⟨hup', ?_⟩
    cases strat with
    | copy =>
      simp only at h
      by_cases hcm : (quick s sum (some n)).cm = true
      · simp only [hcm, if_true] at h
        split at h
        · simp only [Except.ok.injEq] at h
          rename_i hH
          exact ⟨(quick_cm_some hcm).1, hcm, Or.inr ⟨rfl, o, ho, h.symm, by simpa using hH⟩⟩
        · cases h
      · simp only [hcm] at h; cases h
    | link =>
      simp only at h
      by_cases hcm : (quick s sum (some n)).cm = true
      · simp only [hcm, if_true, Option.getD_some, Except.ok.injEq] at h
        exact ⟨(quick_cm_some hcm).1, hcm, Or.inl ⟨rfl, h.symm⟩⟩
      · simp only [hcm] at h; cases h

theorem checkoutFile_keeps {ctx : Ctx κ} {strat : Strat} {n n' : Node κ} {sum : Digest}
    {s : Store κ} (h : checkoutFile ctx strat (some n) sum s = .ok n') :
    Keeps ctx s strat n n' := by
  rcases checkoutFile_some_ok h with ⟨_, rfl⟩ | ⟨_, rfl, _, h⟩
  · exact Keeps_refl ctx s strat _
  · unfold Keeps
    rcases h with ⟨_, rfl⟩ | ⟨hs, o, ho, rfl, _⟩
    · exact Or.inl rfl
    · exact Or.inr ⟨hs, o, ho, rfl⟩

/-! ## `checkoutChildren` / `checkoutNode` -/

/-- the worker loop keeps the listing if the per-entry function keeps the node it finds -/
theorem checkoutChildren_keeps {ctx : Ctx κ} {s : Store κ} {strat : Strat}
    {f : Option (Node κ) → Child → Except Err (Node κ)}
    (hf : ∀ n c n', f (some n) c = .ok n' → Keeps ctx s strat n n') :
    ∀ (cs : List Child) (es es' : List (Name × Node κ)),
      checkoutChildren f es cs = .ok es' → KeepsList ctx s strat es es' := by
  intro cs
  induction cs with
  | nil =>
    intro es es' h
    simp only [checkoutChildren, Except.ok.injEq] at h
    subst h; exact KeepsList_refl ctx s strat es
  | cons c cs ih =>
    intro es es' h
    simp only [checkoutChildren] at h
    split at h
    · cases h
    · rename_i n hn
      refine KeepsList_trans ctx s strat _ _ _ (KeepsList_setEntry ctx s strat es c.name n ?_)
        (ih _ _ h)
      intro old ho
      rw [ho] at hn
      exact hf old c n hn

theorem checkoutNode_keeps (ctx : Ctx κ) (strat : Strat) (s : Store κ) :
    ∀ (fuel : Nat) (n : Node κ) (c : Child) (n' : Node κ),
      checkoutNode ctx strat s fuel (some n) c = .ok n' → Keeps ctx s strat n n' := by
  intro fuel
  induction fuel with
  | zero => intro n c n' h; simp [checkoutNode] at h
  | succ fuel ih =>
    intro n c n' h
    simp only [checkoutNode] at h
    split at h
    · split at h; · cases h
      split at h; · cases h
      split at h
      · rename_i es heq
        simp only [Option.some.injEq] at heq; subst heq
        split at h; · cases h
        rename_i cs _
        split at h; · cases h
        rename_i es' hes
        simp only [Except.ok.injEq] at h; subst h
        unfold Keeps
        exact ⟨es', rfl, checkoutChildren_keeps ih cs es es' hes⟩
      · rename_i heq; cases heq
      · cases h
    · exact checkoutFile_keeps h

/-- entries the manifest does not name are not touched -/
theorem checkoutChildren_untracked {f : Option (Node κ) → Child → Except Err (Node κ)} :
    ∀ (cs : List Child) (es es' : List (Name × Node κ)) (nm : Name),
      checkoutChildren f es cs = .ok es' → (∀ k ∈ cs, k.name ≠ nm) →
      alookup es' nm = alookup es nm := by
  intro cs
  induction cs with
  | nil =>
    intro es es' nm h _
    simp only [checkoutChildren, Except.ok.injEq] at h; subst h; rfl
  | cons c cs ih =>
    intro es es' nm h hnm
    simp only [checkoutChildren] at h
    split at h
    · cases h
    · rename_i n _
      rw [ih _ _ nm h (fun k hk => hnm k (List.mem_cons_of_mem _ hk)),
        alookup_setEntry_ne es n (hnm c (List.mem_cons_self ..))]

/-- every manifest entry was processed successfully (on whatever was there at that moment) -/
theorem checkoutChildren_each {f : Option (Node κ) → Child → Except Err (Node κ)} :
    ∀ (cs : List Child) (es es' : List (Name × Node κ)),
      checkoutChildren f es cs = .ok es' → ∀ k ∈ cs, ∃ cur n, f cur k = .ok n := by
  intro cs
  induction cs with
  | nil => intro _ _ _ k hk; cases hk
  | cons c cs ih =>
    intro es es' h k hk
    simp only [checkoutChildren] at h
    split at h
    · cases h
    · rename_i n hn
      rcases List.mem_cons.mp hk with rfl | hk
      · exact ⟨_, n, hn⟩
      · exact ih _ _ h k hk

/-- manifests list every name once (in Go `directoryManifest.Contents` is a map) -/
def ManifestsNodup (ctx : Ctx κ) (s : Store κ) : Prop :=
  ∀ d cs, readManifest ctx s d = .ok cs → (cs.map (·.name)).Nodup

/-- with duplicate-free manifest names and a listing that has none of them, every manifest entry
is processed on an absent path -/
theorem checkoutChildren_fresh_each {f : Option (Node κ) → Child → Except Err (Node κ)} :
    ∀ (cs : List Child) (acc es' : List (Name × Node κ)), (cs.map (·.name)).Nodup →
      (∀ k ∈ cs, alookup acc k.name = none) → checkoutChildren f acc cs = .ok es' →
      ∀ k ∈ cs, ∃ n, f none k = .ok n := by
  intro cs
  induction cs with
  | nil => intro _ _ _ _ _ k hk; cases hk
  | cons c cs ih =>
    intro acc es' hnd hfresh h k hk
    simp only [List.map_cons, List.nodup_cons, List.mem_map, not_exists, not_and] at hnd
    simp only [checkoutChildren] at h
    rw [hfresh c (List.mem_cons_self ..)] at h
    split at h; · cases h
    rename_i n hn
    rcases List.mem_cons.mp hk with rfl | hk
    · exact ⟨n, hn⟩
    · refine ih _ _ hnd.2 ?_ h k hk
      intro k' hk'
      rw [alookup_setEntry_ne acc n (fun e => hnd.1 k' hk' e.symm)]
      exact hfresh k' (List.mem_cons_of_mem _ hk')

end Dud
