import DudModel.Spec
import DudModel.Lemmas.Tree
import DudModel.Lemmas.Sort
/-!
# A store *holds* a tree

`HoldsNode ctx s ch nm t`: the store contains, up to bytes, every object a commit of the plain
tree `t` under the name `nm` writes, where the manifest of the directory at path `p` (below `t`)
is written with schema `ch p` (`ch = newChoice`: what the current dud writes).  From a store
holding a tree, checkout rebuilds it (`checkoutNode_holds`), and the old manifests found by a
recommit are compatible with it (`compat_of_holds`).
-/
namespace Dud

variable {κ : Type}

/-- which schema the manifest of the directory at a path (entry names from the root) has -/
abbrev Choice := List Name → Schema

def subChoice (ch : Choice) (nm : Name) : Choice := fun p => ch (nm :: p)
def newChoice : Choice := fun _ => .new
def oldChoice : Choice := fun _ => .old

mutual
/-- the checksum of a tree whose manifests are written with the schemas `ch` -/
def digestAs (ctx : Ctx κ) : Choice → Bytes → Node κ → Digest
  | _, _, .file c => ctx.H c
  | ch, nm, .dir es =>
    (Obj.man (ch []) nm (sortChildren (childrenAs ctx ch es)) : Obj κ).digest ctx
  | _, _, .link _ => ""
  | _, _, .other => ""
def childrenAs (ctx : Ctx κ) : Choice → List (Name × Node κ) → List Child
  | _, [] => []
  | ch, (nm, n) :: r =>
    { name := nm, sum := digestAs ctx (subChoice ch nm) nm n, isDir := n.isDir } ::
      childrenAs ctx ch r
end

mutual
theorem digestAs_new (ctx : Ctx κ) : ∀ (nm : Bytes) (t : Node κ),
    digestAs ctx newChoice nm t = treeDigest ctx nm t
  | _, .file c => by simp [digestAs, treeDigest]
  | nm, .dir es => by
    simp only [digestAs, treeDigest]
    rw [childrenAs_new ctx es]
    rfl
  | _, .link _ => by simp [digestAs, treeDigest]
  | _, .other => by simp [digestAs, treeDigest]
theorem childrenAs_new (ctx : Ctx κ) : ∀ (es : List (Name × Node κ)),
    childrenAs ctx newChoice es = childrenOf ctx es
  | [] => by simp [childrenAs, childrenOf]
  | (nm, n) :: r => by
    simp only [childrenAs, childrenOf]
    have : subChoice newChoice nm = newChoice := rfl
    rw [this, digestAs_new ctx nm n, childrenAs_new ctx r]
end

theorem childrenAs_eq_map (ctx : Ctx κ) (ch : Choice) : ∀ (es : List (Name × Node κ)),
    childrenAs ctx ch es =
      es.map (fun e => ⟨e.1, digestAs ctx (subChoice ch e.1) e.1 e.2, e.2.isDir⟩)
  | [] => by simp [childrenAs]
  | (nm, n) :: r => by simp [childrenAs, childrenAs_eq_map ctx ch r]

/-- `sortChildren` is the identity on the children of a sorted listing. -/
theorem sortChildren_childrenAs (ctx : Ctx κ) (ch : Choice) : ∀ (es : List (Name × Node κ)),
    sortedList es = true → sortChildren (childrenAs ctx ch es) = childrenAs ctx ch es
  | [], _ => by simp [childrenAs, sortChildren]
  | (nm, n) :: r, h => by
    have ih := sortChildren_childrenAs ctx ch r (sortedList_cons h).2
    have hstep : sortChildren (childrenAs ctx ch ((nm, n) :: r)) =
        insertChild ⟨nm, digestAs ctx (subChoice ch nm) nm n, n.isDir⟩
          (sortChildren (childrenAs ctx ch r)) := by
      simp [childrenAs, sortChildren]
    rw [hstep, ih]
    match r, h with
    | [], _ => simp [childrenAs, insertChild]
    | (nm2, n2) :: r2, h =>
      have hlt : nm < nm2 := sortedList_head_lt _ nm n h (nm2, n2) (by simp)
      simp only [childrenAs]
      exact insertChild_lt _ _ _ hlt

theorem map_reload_childrenAs (ctx : Ctx κ) (ch : Choice) (sch : Schema) :
    ∀ (es : List (Name × Node κ)),
    (∀ e ∈ es, ∀ sum isDir, ctx.reload sch ⟨e.1, sum, isDir⟩ = ⟨e.1, sum, isDir⟩) →
      (childrenAs ctx ch es).map (ctx.reload sch) = childrenAs ctx ch es
  | [], _ => by simp [childrenAs]
  | (nm, n) :: r, h => by
    simp only [childrenAs, List.map_cons]
    rw [h (nm, n) (by simp), map_reload_childrenAs ctx ch sch r (fun e he => h e (by simp [he]))]

/-- in a sorted listing every entry is found (by name) as its own child -/
theorem findChild_childrenAs (ctx : Ctx κ) (ch : Choice) : ∀ (es : List (Name × Node κ)),
    sortedList es = true → ∀ e ∈ es, findChild (childrenAs ctx ch es) e.1 =
      some ⟨e.1, digestAs ctx (subChoice ch e.1) e.1 e.2, e.2.isDir⟩
  | [], _, e, he => by simp at he
  | (nm, n) :: r, h, e, he => by
    rcases List.mem_cons.1 he with rfl | he'
    · simp [childrenAs, findChild]
    · have hne : nm ≠ e.1 := sortedList_head_ne h e he'
      have ih := findChild_childrenAs ctx ch r (sortedList_cons h).2 e he'
      simp only [findChild] at ih
      simp [childrenAs, findChild, hne, ih]

/-! ## holding a tree -/

mutual
def HoldsNode (ctx : Ctx κ) (s : Store κ) : Choice → Bytes → Node κ → Prop
  | _, _, .file x => ∃ o, s.get (ctx.H x) = some o ∧ o.bytes ctx = x
  | ch, nm, .dir es =>
    (∃ o, s.get (digestAs ctx ch nm (.dir es)) = some o ∧
      o.bytes ctx = ctx.encMan (ch []) nm (sortChildren (childrenAs ctx ch es))) ∧
    HoldsList ctx s ch es
  | _, _, .link _ => True
  | _, _, .other => True
def HoldsList (ctx : Ctx κ) (s : Store κ) : Choice → List (Name × Node κ) → Prop
  | _, [] => True
  | ch, (nm, n) :: r => HoldsNode ctx s (subChoice ch nm) nm n ∧ HoldsList ctx s ch r
end

mutual
theorem HoldsNode.mono {ctx : Ctx κ} {s s1 : Store κ} (hle : Store.le ctx s s1) :
    ∀ (t : Node κ) (ch : Choice) (nm : Bytes), HoldsNode ctx s ch nm t → HoldsNode ctx s1 ch nm t
  | .file x, _, _, h => by
    simp only [HoldsNode] at h ⊢
    obtain ⟨o, ho, hb⟩ := h
    obtain ⟨o1, h1, hb1⟩ := hle _ o ho
    exact ⟨o1, h1, hb1.trans hb⟩
  | .dir es, ch, nm, h => by
    simp only [HoldsNode] at h ⊢
    obtain ⟨⟨o, ho, hb⟩, hl⟩ := h
    obtain ⟨o1, h1, hb1⟩ := hle _ o ho
    exact ⟨⟨o1, h1, hb1.trans hb⟩, HoldsList.mono hle es ch hl⟩
  | .link _, _, _, _ => by simp [HoldsNode]
  | .other, _, _, _ => by simp [HoldsNode]
theorem HoldsList.mono {ctx : Ctx κ} {s s1 : Store κ} (hle : Store.le ctx s s1) :
    ∀ (es : List (Name × Node κ)) (ch : Choice), HoldsList ctx s ch es → HoldsList ctx s1 ch es
  | [], _, _ => by simp [HoldsList]
  | (nm, n) :: r, ch, h => by
    simp only [HoldsList] at h ⊢
    exact ⟨HoldsNode.mono hle n _ nm h.1, HoldsList.mono hle r ch h.2⟩
end

/-- the children of a listing with valid names are accepted by `readManifest` -/
theorem childrenOK_childrenAs {ctx : Ctx κ} (ch : Choice) : ∀ {es : List (Name × Node κ)},
    NamesOKList ctx es → ChildrenOK (childrenAs ctx ch es)
  | [], _ => by simpa [childrenAs] using ChildrenOK.nil
  | (_, _) :: _, h => by
    simp only [childrenAs]
    exact ChildrenOK.cons (namesOK_head_entry h) (childrenOK_childrenAs ch (namesOK_tail h))

/-- the manifest of a held directory reads back as its children -/
theorem readManifest_holds {ctx : Ctx κ} (g : Good ctx) {s : Store κ} {ch : Choice} {nm : Bytes}
    {es : List (Name × Node κ)} (hs : sortedList es = true) (hn : NamesOKList ctx es)
    (h : HoldsNode ctx s ch nm (.dir es)) :
    s.has (digestAs ctx ch nm (.dir es)) = true ∧
      readManifest ctx s (digestAs ctx ch nm (.dir es)) = .ok (childrenAs ctx ch es) := by
  simp only [HoldsNode] at h
  obtain ⟨⟨o, ho, hb⟩, _⟩ := h
  refine ⟨Store.has_of_get ho, ?_⟩
  have hmap := map_reload_childrenAs ctx ch (ch []) es
    (fun e he sum isDir => (hn e.1 (mem_allNamesList_of_mem he)).2.1 _ sum isDir)
  rw [sortChildren_childrenAs ctx ch es hs] at hb
  have hok : ChildrenOK ((childrenAs ctx ch es).map (ctx.reload (ch []))) := by
    rw [hmap]; exact childrenOK_childrenAs ch hn
  rw [readManifest_of_bytes g ho hb hok, hmap]

theorem hasSum_digestAs_dir {ctx : Ctx κ} (g : Good ctx) (ch : Choice) (nm : Bytes)
    (es : List (Name × Node κ)) : hasSum (digestAs ctx ch nm (.dir es)) = true := by
  simp only [digestAs]
  exact hasSum_H g _

theorem oldManifest_holds {ctx : Ctx κ} (g : Good ctx) {s : Store κ} {ch : Choice} {nm : Bytes}
    {es : List (Name × Node κ)} (hs : sortedList es = true) (hn : NamesOKList ctx es)
    (h : HoldsNode ctx s ch nm (.dir es)) :
    oldManifest ctx s (digestAs ctx ch nm (.dir es)) = .ok (childrenAs ctx ch es) := by
  obtain ⟨hhas, hread⟩ := readManifest_holds g hs hn h
  simp [oldManifest, hasSum_digestAs_dir g, hhas, hread]

/-! ## the workspace after commit / checkout -/

mutual
/-- every regular file replaced by the link into the cache -/
def linked (ctx : Ctx κ) : Node κ → Node κ
  | .file x => .link (.obj (ctx.H x))
  | .dir es => .dir (linkedList ctx es)
  | .link l => .link l
  | .other => .other
def linkedList (ctx : Ctx κ) : List (Name × Node κ) → List (Name × Node κ)
  | [] => []
  | (nm, n) :: r => (nm, linked ctx n) :: linkedList ctx r
end

/-- the workspace a commit / checkout with the given strategy leaves for a plain tree -/
def wsAfter (ctx : Ctx κ) : Strat → Node κ → Node κ
  | .link, t => linked ctx t
  | .copy, t => t

def wsAfterList (ctx : Ctx κ) : Strat → List (Name × Node κ) → List (Name × Node κ)
  | .link, es => linkedList ctx es
  | .copy, es => es

theorem wsAfter_dir (ctx : Ctx κ) (strat : Strat) (es : List (Name × Node κ)) :
    wsAfter ctx strat (.dir es) = .dir (wsAfterList ctx strat es) := by
  cases strat <;> simp [wsAfter, wsAfterList, linked]

theorem wsAfterList_cons (ctx : Ctx κ) (strat : Strat) (nm : Name) (n : Node κ)
    (r : List (Name × Node κ)) :
    wsAfterList ctx strat ((nm, n) :: r) = (nm, wsAfter ctx strat n) :: wsAfterList ctx strat r := by
  cases strat <;> simp [wsAfter, wsAfterList, linkedList]

theorem wsAfterList_nil (ctx : Ctx κ) (strat : Strat) : wsAfterList ctx strat [] = [] := by
  cases strat <;> simp [wsAfterList, linkedList]

mutual
theorem deref_linked {ctx : Ctx κ} {s : Store κ} : ∀ (t : Node κ) (ch : Choice) (nm : Bytes),
    t.plain = true → HoldsNode ctx s ch nm t → deref ctx s (linked ctx t) = t
  | .file x, _, _, _, h => by
    simp only [HoldsNode] at h
    obtain ⟨o, ho, hb⟩ := h
    simp [linked, deref, ho, hb]
  | .dir es, ch, nm, hp, h => by
    simp only [HoldsNode] at h
    simp only [Node.plain] at hp
    simp only [linked, deref]
    rw [derefList_linked es ch hp h.2]
  | .link _, _, _, hp, _ => by simp [Node.plain] at hp
  | .other, _, _, hp, _ => by simp [Node.plain] at hp
theorem derefList_linked {ctx : Ctx κ} {s : Store κ} : ∀ (es : List (Name × Node κ))
    (ch : Choice), plainList es = true → HoldsList ctx s ch es →
      derefList ctx s (linkedList ctx es) = es
  | [], _, _, _ => by simp [linkedList, derefList]
  | (nm, n) :: r, ch, hp, h => by
    simp only [HoldsList] at h
    simp only [linkedList, derefList]
    rw [deref_linked n _ nm (plainList_cons hp).1 h.1, derefList_linked r ch (plainList_cons hp).2 h.2]
end

/-- the workspace after commit / checkout has the logical content of the tree -/
theorem deref_wsAfter {ctx : Ctx κ} {s : Store κ} {t : Node κ} {ch : Choice} {nm : Bytes}
    (hp : t.plain = true) (h : HoldsNode ctx s ch nm t) (strat : Strat) :
    deref ctx s (wsAfter ctx strat t) = t := by
  cases strat with
  | link => exact deref_linked t ch nm hp h
  | copy => exact deref_plain ctx s t hp

/-! ## checkout from a store holding the tree -/

theorem checkoutFile_holds {ctx : Ctx κ} (g : Good ctx) {s : Store κ} {x : κ} {o : Obj κ}
    (h : s.get (ctx.H x) = some o) (hb : o.bytes ctx = x) (strat : Strat) :
    checkoutFile ctx strat none (ctx.H x) s = .ok (wsAfter ctx strat (.file x)) := by
  have hh := hasSum_H g x
  have hhas := Store.has_of_get h
  cases strat with
  | link => simp [checkoutFile, upToDateCopy, quick, hh, hhas, h, wsAfter, linked]
  | copy => simp [checkoutFile, upToDateCopy, quick, hh, hhas, h, hb, wsAfter]

mutual
/-- `checkoutNode` into an absent place from any store holding the tree: the exact result. -/
theorem checkoutNode_holds {ctx : Ctx κ} (g : Good ctx) (s : Store κ) (strat : Strat) :
    ∀ (t : Node κ) (ch : Choice) (nm : Bytes) (fuel : Nat),
    t.plain = true → t.sorted = true → NamesOK ctx t → HoldsNode ctx s ch nm t →
    depth t ≤ fuel →
      checkoutNode ctx strat s fuel none ⟨nm, digestAs ctx ch nm t, t.isDir⟩
        = .ok (wsAfter ctx strat t)
  | .file x, _, nm, fuel, _, _, _, h, hf => by
    simp only [HoldsNode] at h
    obtain ⟨o, ho, hb⟩ := h
    obtain ⟨k, rfl⟩ : ∃ k, fuel = k + 1 := ⟨fuel - 1, by simp only [depth] at hf; omega⟩
    simp only [checkoutNode, Node.isDir, Bool.false_eq_true, if_false, digestAs]
    exact checkoutFile_holds g ho hb strat
  | .dir es, ch, nm, fuel, hp, hs, hn, h, hf => by
    have hp' : plainList es = true := by simpa [Node.plain] using hp
    have hs' : sortedList es = true := by simpa [Node.sorted] using hs
    have hn' : NamesOKList ctx es := namesOK_dir hn
    obtain ⟨hhas, hread⟩ := readManifest_holds g hs' hn' h
    obtain ⟨k, rfl⟩ : ∃ k, fuel = k + 1 := ⟨fuel - 1, by simp only [depth] at hf; omega⟩
    have hk : depthList es ≤ k := by simp only [depth] at hf; omega
    simp only [HoldsNode] at h
    have hch := checkoutChildren_holds g s strat es ch k hp' hs' hn' h.2 hk [] (by simp)
    simp only [List.nil_append] at hch
    simp [checkoutNode, Node.isDir, hasSum_digestAs_dir g, hhas, hread, hch, wsAfter_dir]
  | .link _, _, _, _, hp, _, _, _, _ => by simp [Node.plain] at hp
  | .other, _, _, _, hp, _, _, _, _ => by simp [Node.plain] at hp
theorem checkoutChildren_holds {ctx : Ctx κ} (g : Good ctx) (s : Store κ) (strat : Strat) :
    ∀ (es : List (Name × Node κ)) (ch : Choice) (fuel : Nat),
    plainList es = true → sortedList es = true → NamesOKList ctx es → HoldsList ctx s ch es →
    depthList es ≤ fuel → ∀ acc : List (Name × Node κ), (∀ p ∈ acc, ∀ e ∈ es, p.1 ≠ e.1) →
      checkoutChildren (checkoutNode ctx strat s fuel) acc (childrenAs ctx ch es)
        = .ok (acc ++ wsAfterList ctx strat es)
  | [], _, _, _, _, _, _, _, acc, _ => by
    simp [childrenAs, checkoutChildren, wsAfterList_nil]
  | (nm, n) :: r, ch, fuel, hp, hs, hn, h, hf, acc, hacc => by
    simp only [HoldsList] at h
    have hdn : depth n ≤ fuel := by simp only [depthList] at hf; omega
    have hdr : depthList r ≤ fuel := by simp only [depthList] at hf; omega
    have h1 := checkoutNode_holds g s strat n (subChoice ch nm) nm fuel (plainList_cons hp).1
      (sortedList_cons hs).1 (namesOK_node hn) h.1 hdn
    have hfresh : ∀ p ∈ acc, p.1 ≠ nm := fun p hp' => hacc p hp' (nm, n) (by simp)
    have hacc' : ∀ p ∈ acc ++ [(nm, wsAfter ctx strat n)], ∀ e ∈ r, p.1 ≠ e.1 := by
      intro p hp' e he
      rcases List.mem_append.1 hp' with hp' | hp'
      · exact hacc p hp' e (by simp [he])
      · simp only [List.mem_singleton] at hp'
        subst hp'
        exact sortedList_head_ne hs e he
    have h2 := checkoutChildren_holds g s strat r ch fuel (plainList_cons hp).2
      (sortedList_cons hs).2 (namesOK_tail hn) h.2 hdr _ hacc'
    simp only [childrenAs]
    rw [checkoutChildren_cons_fresh _ acc _ _ _ hfresh h1, h2, wsAfterList_cons]
    simp
end

end Dud
