import DudModel.Lemmas.CrashCheckoutStep
/-!
# Crash safety of `dud checkout`: one artifact with its `MkdirAll`, a stage, the traversal

See `Lemmas/CrashCheckout.lean` for the vocabulary.
-/
namespace Dud.Sys
open Dud
variable {κ : Type}

/-! ## the ancestors of a path -/

theorem parentDirs_split {comps p : List Name} (h : p ∈ parentDirs comps) :
    p ≠ [] ∧ ∃ y r, comps = p ++ y :: r := by
  simp only [parentDirs, List.mem_map, List.mem_range] at h
  obtain ⟨k, hk, rfl⟩ := h
  have hlen : k + 1 < comps.length := by omega
  constructor
  · intro h0
    have := congrArg List.length h0
    rw [List.length_take, List.length_nil] at this
    omega
  · have hd : comps.drop (k + 1) ≠ [] := by
      intro h0
      have := congrArg List.length h0
      rw [List.length_drop, List.length_nil] at this
      omega
    cases hdr : comps.drop (k + 1) with
    | nil => exact absurd hdr hd
    | cons y r => exact ⟨y, r, by rw [← hdr, List.take_append_drop]⟩

theorem mem_parentDirs_of_split {comps q : List Name} {y : Name} {r : List Name} (hq : q ≠ [])
    (h : comps = q ++ y :: r) : q ∈ parentDirs comps := by
  simp only [parentDirs, List.mem_map, List.mem_range]
  have hl : 1 ≤ q.length := by
    cases q with
    | nil => exact absurd rfl hq
    | cons _ _ => simp
  refine ⟨q.length - 1, ?_, ?_⟩
  · subst h; simp; omega
  · have : q.length - 1 + 1 = q.length := by omega
    rw [this]
    subst h
    simp

/-- below a path that can be written there is nothing or a directory -/
theorem setPath_above_dir : ∀ (q : List Name) (y : Name) (r : List Name) (ws ws' v : Node κ),
    setPath ws (q ++ y :: r) v = some ws' →
    getPath ws q = none ∨ ∃ es, getPath ws q = some (.dir es)
  | [], y, r, .dir es, ws', v, _ => .inr ⟨es, rfl⟩
  | [], _, _, .file _, _, _, h => by simp [setPath] at h
  | [], _, _, .link _, _, _, h => by simp [setPath] at h
  | [], _, _, .other, _, _, h => by simp [setPath] at h
  | c :: q, y, r, .dir es, ws', v, h => by
    simp only [List.cons_append, setPath] at h
    simp only [getPath]
    cases hm : alookup es c with
    | none => exact .inl rfl
    | some m =>
      rw [hm] at h
      simp only [Option.getD_some] at h
      split at h
      · rename_i n hn
        exact setPath_above_dir q y r m n v hn
      · cases h
  | _ :: _, _, _, .file _, _, _, h => by simp [setPath] at h
  | _ :: _, _, _, .link _, _, _, h => by simp [setPath] at h
  | _ :: _, _, _, .other, _, _, h => by simp [setPath] at h

/-! ## a run of `mkdir`s -/

theorem replay_mkdirs_mem (emp : κ) : ∀ (ps : List (List Name)) (fs : FS κ),
    (∀ p ∈ ps, fs.get (.ws p) = none ∨ fs.get (.ws p) = some .dir) →
    ∀ p ∈ ps, (replay emp fs (ps.map (fun p => Call.mkdir (.ws p)))).get (.ws p) = some .dir
  | [], _, _, _, hp => by cases hp
  | a :: rest, fs, h, p, hp => by
    simp only [List.map_cons, replay_cons]
    have ha : (apply emp fs (.mkdir (.ws a))).get (.ws a) = some .dir := by
      rcases h a List.mem_cons_self with h0 | h0 <;> simp [apply, h0, FS.get_set]
    have hother : ∀ q, q ≠ a → (apply emp fs (.mkdir (.ws a))).get (.ws q) = fs.get (.ws q) := by
      intro q hq
      exact apply_get_frame emp fs _ _ (by simpa [callWrites, callPaths] using hq)
    have h' : ∀ p ∈ rest, (apply emp fs (.mkdir (.ws a))).get (.ws p) = none ∨
        (apply emp fs (.mkdir (.ws a))).get (.ws p) = some .dir := by
      intro p hp
      by_cases hpa : p = a
      · subst hpa; exact .inr ha
      · rw [hother p hpa]; exact h p (List.mem_cons_of_mem _ hp)
    by_cases hpr : p ∈ rest
    · exact replay_mkdirs_mem emp rest _ h' p hpr
    · have hpa : p = a := by
        rcases List.mem_cons.1 hp with h | h
        · exact h
        · exact absurd h hpr
      subst hpa
      rw [replay_get_frame]
      · exact ha
      · intro c hc hmem
        simp only [List.mem_map] at hc
        obtain ⟨p', hp', rfl⟩ := hc
        simp only [callWrites, callPaths, List.mem_singleton, P.ws.injEq] at hmem
        exact hpr (hmem ▸ hp')

theorem replay_mkdirs_not_mem (emp : κ) (ps : List (List Name)) (fs : FS κ) {x : P}
    (hx : ∀ p ∈ ps, x ≠ .ws p) :
    (replay emp fs (ps.map (fun p => Call.mkdir (.ws p)))).get x = fs.get x := by
  refine replay_get_frame emp _ _ fs (fun c hc hmem => ?_)
  simp only [List.mem_map] at hc
  obtain ⟨p', hp', rfl⟩ := hc
  simp only [callWrites, callPaths, List.mem_singleton] at hmem
  exact hx p' hp' hmem

/-! ## one `LocalCache.Checkout` inside the command -/

/-- **One traced `LocalCache.Checkout`** (the `MkdirAll` of the ancestors, then the artifact): from a state
that agrees with the logical workspace, the state afterwards agrees with the new logical workspace; after
every prefix the entries the workspace held before the command are kept (`KeptP`); all writes are
workspace paths; the cache and the index of the world are unchanged. -/
theorem checkoutArtWT_step {c : CmdCfg κ} {strat : Strat} {emp : κ}
    (hemp : ∀ x, c.isEmp x = true → x = emp) {a : Art} {w w' : World κ} {calls : List (Call κ)}
    (h : checkoutArtWT c strat a w = .ok (w', calls)) {fs0 fs : FS κ}
    (hobj : ObjIn c.cfg.ctx w.store fs0) (ha : AbsAt [] (some w.ws) fs) (hk : KeptB strat fs0 fs)
    (hu : uniqNode w.ws) :
    StepRes strat emp fs0 [] w'.ws fs calls ∧ uniqNode w'.ws ∧ w'.store = w.store ∧ w'.idx = w.idx ∧
      w'.done = w.done := by
  unfold checkoutArtWT at h
  simp only at h
  cases hT : checkoutNodeT (c.tc strat) w.store c.cfg.fuel (Path.comps a.path)
      (getPath w.ws (Path.comps a.path)) a.child with
  | error e => rw [hT] at h; cases h
  | ok v =>
    obtain ⟨n, ncalls⟩ := v
    rw [hT] at h
    simp only at h
    cases hset : setPath w.ws (Path.comps a.path) n with
    | none => rw [hset] at h; cases h
    | some ws' =>
      rw [hset] at h
      simp only [Except.ok.injEq, Prod.mk.injEq] at h
      obtain ⟨rfl, rfl⟩ := h
      generalize hcomps : Path.comps a.path = comps at hT hset
      -- the ancestors that have to be created
      have hmk : parentMkdirs (κ := κ) w.ws comps =
          ((parentDirs comps).filter (fun p => (getPath w.ws p).isNone)).map
            (fun p => Call.mkdir (.ws p)) := rfl
      generalize hps : (parentDirs comps).filter (fun p => (getPath w.ws p).isNone) = ps at hmk
      have hps1 : ∀ p ∈ ps, getPath w.ws p = none ∧ p ≠ [] ∧ ∃ y r, comps = p ++ y :: r := by
        intro p hp
        rw [← hps, List.mem_filter] at hp
        obtain ⟨hne, hsp⟩ := parentDirs_split hp.1
        exact ⟨by simpa using hp.2, hne, hsp⟩
      have hps2 : ∀ q, q ≠ [] → (∃ y r, comps = q ++ y :: r) → getPath w.ws q = none → q ∈ ps := by
        intro q hq ⟨y, r, hsp⟩ hg
        rw [← hps, List.mem_filter]
        exact ⟨mem_parentDirs_of_split hq hsp, by simp [hg]⟩
      have hfsnone : ∀ p ∈ ps, fs.get (.ws p) = none := by
        intro p hp
        have := ha p
        rw [getOpt_some, (hps1 p hp).1] at this
        simpa [EntOK] using this
      rw [hmk]
      obtain ⟨pm, km⟩ := pref_keptP_of_absent hk emp (ps.map (fun p => Call.mkdir (.ws p))) (by
        intro x hx p hp
        simp only [List.mem_map] at hx
        obtain ⟨p', hp', rfl⟩ := hx
        simp only [callWrites, callPaths, List.mem_singleton] at hp
        exact ⟨p', hp, hk.absent0 (hfsnone p' hp')⟩)
      have hm_in := replay_mkdirs_mem emp ps fs (fun p hp => .inl (hfsnone p hp))
      have hm_out : ∀ q, q ∉ ps →
          (replay emp fs (ps.map (fun p => Call.mkdir (.ws p)))).get (.ws q) = fs.get (.ws q) := by
        intro q hq
        exact replay_mkdirs_not_mem emp ps fs (fun p hp h => hq (by injection h with h; exact h ▸ hp))
      obtain ⟨fsm, hfsm⟩ : ∃ fsm, replay emp fs (ps.map (fun p => Call.mkdir (.ws p))) = fsm := ⟨_, rfl⟩
      rw [hfsm] at km hm_in hm_out
      -- the state the artifact's own trace starts from agrees with the workspace below the path
      have hnotin : ∀ r, comps ++ r ∉ ps := by
        intro r hmem
        obtain ⟨-, -, y, r', hsp⟩ := hps1 _ hmem
        have := congrArg List.length hsp
        simp only [List.length_append, List.length_cons] at this
        omega
      have habs : AbsAt comps (getPath w.ws comps) fsm := by
        intro r
        rw [hm_out _ (hnotin r)]
        have := ha (comps ++ r)
        rw [getOpt_some, getPath_append] at this
        simpa [getOpt] using this
      obtain ⟨r1, hun⟩ := checkoutNodeT_step (t := c.tc strat) (st := strat) hemp id hobj c.cfg.fuel comps
        (getPath w.ws comps) a.child n ncalls hT fsm habs km (uniqOpt_getPath comps w.ws hu)
      have hfr1 : ∀ q, ¬ comps <+: q → (replay emp fsm ncalls).get (.ws q) = fsm.get (.ws q) := by
        intro q hq
        refine replay_get_frame emp ncalls _ fsm (fun x hx hmem => ?_)
        obtain ⟨rel, hrel⟩ := r1.below x hx _ hmem
        injection hrel with hrel
        exact hq ⟨rel, hrel.symm⟩
      refine ⟨⟨?_, Pref.append pm (by rw [hfsm]; exact r1.pref),
          by rw [replay_append, hfsm]; exact r1.kept, ?_⟩,
        uniqNode_setPath comps w.ws ws' n hu hun hset, rfl, rfl, rfl⟩
      · -- the new workspace
        intro q
        rw [replay_append, hfsm, getOpt_some]
        simp only [List.nil_append]
        by_cases h1 : comps <+: q
        · obtain ⟨r, rfl⟩ := h1
          rw [getPath_append, WT.getPath_setPath_self comps w.ws ws' n hset]
          exact r1.abs r
        · rw [hfr1 q h1]
          by_cases h2 : q <+: comps
          · obtain ⟨t, ht⟩ := h2
            cases t with
            | nil => exact absurd ⟨[], by simpa using ht.symm⟩ h1
            | cons y r =>
              obtain ⟨es, hes⟩ := getPath_setPath_above q y r w.ws ws' n (by rw [ht]; exact hset)
              rw [hes]
              show fsm.get (.ws q) = some .dir
              cases hg : getPath w.ws q with
              | none =>
                have hq : q ≠ [] := by
                  intro h0; subst h0; simp [getPath] at hg
                exact hm_in q (hps2 q hq ⟨y, r, ht.symm⟩ hg)
              | some x =>
                have hnot : q ∉ ps := fun hmem => by rw [(hps1 q hmem).1] at hg; cases hg
                rw [hm_out q hnot]
                rcases setPath_above_dir q y r w.ws ws' n (by rw [ht]; exact hset) with h0 | ⟨es0, h0⟩
                · rw [h0] at hg; cases hg
                · have := ha q
                  rw [getOpt_some, h0] at this
                  simpa [EntOK] using this
          · have hnot : q ∉ ps := fun hmem => by
              obtain ⟨-, -, y, r, hsp⟩ := hps1 q hmem
              exact h2 ⟨y :: r, hsp.symm⟩
            rw [hm_out q hnot, WT.getPath_setPath_apart ⟨h1, h2⟩ hset]
            have := ha q
            rw [getOpt_some] at this
            simpa using this
      · intro x hx p hp
        rcases List.mem_append.1 hx with hx | hx
        · simp only [List.mem_map] at hx
          obtain ⟨p', -, rfl⟩ := hx
          simp only [callWrites, callPaths, List.mem_singleton] at hp
          exact ⟨p', by simpa using hp⟩
        · obtain ⟨rel, hrel⟩ := r1.below x hx p hp
          exact ⟨comps ++ rel, by simpa using hrel⟩

/-! ## the outputs of a stage -/

/-- what a sequence of traced artifact checkouts guarantees -/
structure WRes (strat : Strat) (emp : κ) (fs0 : FS κ) (w w' : World κ) (fs : FS κ) (calls : List (Call κ)) : Prop where
  step : StepRes strat emp fs0 [] w'.ws fs calls
  uniq : uniqNode w'.ws
  store : w'.store = w.store
  idx : w'.idx = w.idx

theorem checkoutArtsT_step {c : CmdCfg κ} {strat : Strat} {emp : κ}
    (hemp : ∀ x, c.isEmp x = true → x = emp) {fs0 : FS κ} :
    ∀ (as : List Art) (w w' : World κ) (segs : List (List (Call κ))),
      checkoutArtsT c strat as w = .ok (w', segs) → ObjIn c.cfg.ctx w.store fs0 →
      ∀ (fs : FS κ), AbsAt [] (some w.ws) fs → KeptB strat fs0 fs → uniqNode w.ws →
      WRes strat emp fs0 w w' fs segs.flatten ∧ w'.done = w.done
  | [], w, w', segs, h, _, fs, ha, hk, hu => by
    simp only [checkoutArtsT, Except.ok.injEq, Prod.mk.injEq] at h
    obtain ⟨rfl, rfl⟩ := h
    exact ⟨⟨⟨ha, Pref.nil (hk.toP emp), hk, by intro x hx; cases hx⟩, hu, rfl, rfl⟩, rfl⟩
  | a :: r, w, w', segs, h, hobj, fs, ha, hk, hu => by
    simp only [checkoutArtsT] at h
    by_cases hs : a.skip = true
    · rw [if_pos hs] at h
      exact checkoutArtsT_step hemp r w w' segs h hobj fs ha hk hu
    · rw [if_neg hs] at h
      cases h1 : checkoutArtWT c strat a w with
      | error e => rw [h1] at h; cases h
      | ok v =>
        obtain ⟨w1, calls1⟩ := v
        rw [h1] at h
        simp only at h
        cases h2 : checkoutArtsT c strat r w1 with
        | error e => rw [h2] at h; cases h
        | ok v =>
          obtain ⟨w2, segs2⟩ := v
          rw [h2] at h
          simp only [Except.ok.injEq, Prod.mk.injEq] at h
          obtain ⟨rfl, rfl⟩ := h
          obtain ⟨r1, hu1, hst1, hidx1, hd1⟩ := checkoutArtWT_step hemp h1 hobj ha hk hu
          obtain ⟨r2, hd2⟩ := checkoutArtsT_step hemp r w1 w2 segs2 h2 (by rw [hst1]; exact hobj) _
            r1.abs r1.kept hu1
          simp only [List.flatten_cons]
          refine ⟨⟨⟨?_, Pref.append r1.pref r2.step.pref, ?_, Below.append r1.below r2.step.below⟩,
            r2.uniq, by rw [r2.store, hst1], by rw [r2.idx, hidx1]⟩, by rw [hd2, hd1]⟩
          · rw [replay_append]; exact r2.step.abs
          · rw [replay_append]; exact r2.step.kept

theorem checkoutActT_step {c : CmdCfg κ} {strat : Strat} {emp : κ}
    (hemp : ∀ x, c.isEmp x = true → x = emp) {fs0 : FS κ} {sp : Bytes} {w w' : World κ}
    {segs : List (List (Call κ))} (h : checkoutActT c strat sp w = .ok (w', segs))
    (hobj : ObjIn c.cfg.ctx w.store fs0) {fs : FS κ} (ha : AbsAt [] (some w.ws) fs) (hk : KeptB strat fs0 fs)
    (hu : uniqNode w.ws) : WRes strat emp fs0 w w' fs segs.flatten := by
  unfold checkoutActT at h
  cases hst : w.stage sp with
  | error e => rw [hst] at h; cases h
  | ok stg =>
    rw [hst] at h
    simp only at h
    cases h1 : checkoutArtsT c strat (sortArts stg.outputs) w with
    | error e => rw [h1] at h; cases h
    | ok v =>
      obtain ⟨w1, segs1⟩ := v
      rw [h1] at h
      simp only [Except.ok.injEq, Prod.mk.injEq] at h
      obtain ⟨rfl, rfl⟩ := h
      obtain ⟨r1, -⟩ := checkoutArtsT_step hemp _ w w1 _ h1 hobj fs ha hk hu
      exact ⟨r1.step, r1.uniq, r1.store, r1.idx⟩

/-! ## the traversal -/

/-- invariant of the traced traversal, relative to the state `fsb` the artifact phase starts from and the
state `fs0` before the command -/
structure CInv (strat : Strat) (emp : κ) (fs0 fsb : FS κ) (s0 : Store κ) (idx0 : Index)
    (p : World κ × List (List (Call κ))) : Prop where
  pref : Pref (KeptP strat emp fs0) emp fsb p.2.flatten
  kept : KeptB strat fs0 (replay emp fsb p.2.flatten)
  abs : AbsAt [] (some p.1.ws) (replay emp fsb p.2.flatten)
  uniq : uniqNode p.1.ws
  wsOnly : Below [] p.2.flatten
  store : p.1.store = s0
  idx : p.1.idx = idx0

theorem checkoutTravT_inv {c : CmdCfg κ} {strat : Strat} {emp : κ}
    (hemp : ∀ x, c.isEmp x = true → x = emp) {fs0 fsb : FS κ} {s0 : Store κ} {idx0 : Index}
    (hobj : ObjIn c.cfg.ctx s0 fs0) (sp : Bytes) (p p' : World κ × List (List (Call κ)))
    (hi : CInv strat emp fs0 fsb s0 idx0 p) (h : (checkoutTravT c strat).act sp p = .ok p') :
    CInv strat emp fs0 fsb s0 idx0 p' := by
  simp only [checkoutTravT] at h
  cases hT : checkoutActT c strat sp p.1 with
  | error e => rw [hT] at h; cases h
  | ok v =>
    obtain ⟨w', segs⟩ := v
    rw [hT] at h
    simp only [Except.ok.injEq] at h
    subst h
    have r := checkoutActT_step hemp hT (by rw [hi.store]; exact hobj) hi.abs hi.kept hi.uniq
    refine ⟨?_, ?_, ?_, r.uniq, ?_, by rw [r.store, hi.store], by rw [r.idx, hi.idx]⟩
    · simp only [List.flatten_append]; exact Pref.append hi.pref r.step.pref
    · simp only [List.flatten_append, replay_append]; exact r.step.kept
    · simp only [List.flatten_append, replay_append]; exact r.step.abs
    · simp only [List.flatten_append]; exact Below.append hi.wsOnly r.step.below

/-- the invariant holds after the artifact phase of the whole command -/
theorem checkout_traversal_inv {c : CmdCfg κ} {strat : Strat} {emp : κ}
    (hemp : ∀ x, c.isEmp x = true → x = emp) {fs0 fsb : FS κ} {s0 : Store κ} {idx0 : Index}
    (hobj : ObjIn c.cfg.ctx s0 fs0) (rec : Bool) (ts : List Bytes)
    (p p' : World κ × List (List (Call κ))) (hi : CInv strat emp fs0 fsb s0 idx0 p)
    (h : perTargetP (fun t (p : World κ × List (List (Call κ))) =>
          visit (checkoutTravT c strat) rec (p.1.idx.length + 1) (allStages p.1) t p) ts p = .ok p') :
    CInv strat emp fs0 fsb s0 idx0 p' :=
  perTargetP_inv (Q := CInv strat emp fs0 fsb s0 idx0)
    (fun t q q' hq hv => visit_inv (checkoutTravT c strat)
      (fun sp a b ha hb => checkoutTravT_inv hemp hobj sp a b ha hb) rec _ _ t q q' hq hv)
    ts p p' hi h

/-! ## Boolean checkers for the hypotheses (for concrete instances) -/

def consistentB (ctx : Ctx κ) (s : Store κ) : Bool := s.all (fun e => e.2.digest ctx == e.1)

theorem consistent_of_consistentB {ctx : Ctx κ} {s : Store κ} (h : consistentB ctx s = true) :
    Consistent ctx s := by
  intro d o hg
  have hm := alookup_mem hg
  simp only [consistentB, List.all_eq_true] at h
  simpa using h _ hm

mutual
def uniqNodeB : Node κ → Bool
  | .dir es => uniqListB es
  | _ => true
def uniqListB : List (Name × Node κ) → Bool
  | [] => true
  | (nm, n) :: r => uniqNodeB n && r.all (fun e => e.1 != nm) && uniqListB r
end

mutual
theorem uniqNode_of_B : ∀ (n : Node κ), uniqNodeB n = true → uniqNode n
  | .dir es, h => by
    simp only [uniqNodeB] at h
    simp only [uniqNode]
    exact uniqList_of_B es h
  | .file _, _ => by simp [uniqNode]
  | .link _, _ => by simp [uniqNode]
  | .other, _ => by simp [uniqNode]
theorem uniqList_of_B : ∀ (es : List (Name × Node κ)), uniqListB es = true → uniqList es
  | [], _ => by simp [uniqList]
  | (nm, n) :: r, h => by
    simp only [uniqListB, Bool.and_eq_true, List.all_eq_true, bne_iff_ne] at h
    simp only [uniqList]
    exact ⟨uniqNode_of_B n h.1.1, fun e he => h.1.2 e he, uniqList_of_B r h.2⟩
end

end Dud.Sys
