import DudModel.Lemmas.Stored
import DudModel.Lemmas.Status
import DudModel.Lemmas.Checkout
/-!
# `UpToDate` ⇔ "the logical workspace tree equals the stored tree" (C05 (b), (c))
-/
namespace Dud

variable {κ : Type}

theorem fileOK_sameTree {ctx : Ctx κ} {s : Store κ} {fuel : Nat} {c : Child} {n t : Node κ}
    (hc : c.isDir = false) (hu : FileOK ctx s c.sum n) (ht : stored ctx s fuel c = some t) :
    SameTree (deref ctx s n) t := by
  obtain ⟨_, o, ho, hn⟩ := hu
  obtain ⟨_, o', ho', rfl⟩ := stored_file hc ht
  rw [ho] at ho'; cases ho'
  rcases hn with rfl | rfl
  · simp [deref, SameTree]
  · simp [deref, ho, SameTree]

/-- **sound**: an up-to-date node, read through its links, IS the stored tree (as a finite map) -/
theorem upToDate_sameTree (ctx : Ctx κ) (s : Store κ) :
    ∀ (fuel : Nat) (c : Child) (n t : Node κ), UpToDate ctx s fuel c.isDir c.sum n →
      stored ctx s fuel c = some t → n.sorted = true → SameTree (deref ctx s n) t := by
  intro fuel
  induction fuel with
  | zero =>
    intro c n t hu ht _
    cases hc : c.isDir with
    | true => rw [hc] at hu; simp [UpToDate] at hu
    | false => rw [hc, UpToDate_file] at hu; exact fileOK_sameTree hc hu ht
  | succ fuel ih =>
    intro c n t hu ht hs
    cases hc : c.isDir with
    | false => rw [hc, UpToDate_file] at hu; exact fileOK_sameTree hc hu ht
    | true =>
      rw [hc] at hu
      simp only [UpToDate, if_true] at hu
      obtain ⟨es, cs, rfl, _, hm, hall, hun⟩ := hu
      obtain ⟨cs', ts, _, hm', hts, rfl⟩ := stored_dir hc ht
      rw [hm] at hm'; cases hm'
      have hs' : sortedList es = true := by simpa [Node.sorted] using hs
      simp only [deref, SameTree, Node.dir.injEq, exists_eq_left']
      refine ⟨SameList_intro ctx s ts es ?_, ?_⟩
      · intro e he
        obtain ⟨halk, hsn⟩ := sortedList_mem es hs' e he
        obtain ⟨k, hfk⟩ := Option.isSome_iff_exists.mp (hun e he)
        obtain ⟨hk, hkn⟩ := findChild_some hfk
        obtain ⟨nk, hnk, huk⟩ := hall k hk
        rw [hkn, halk] at hnk
        cases hnk
        obtain ⟨tk, htk, _⟩ := (storedChildren_mem cs ts hts).2 k hk
        refine ⟨tk, ?_, ih k e.2 tk huk htk hsn⟩
        rw [storedChildren_alookup e.1 cs ts hts, hfk]; exact htk
      · intro e' he'
        obtain ⟨k, hk, hkn⟩ := (storedChildren_mem cs ts hts).1 e' he'
        obtain ⟨nk, hnk, _⟩ := hall k hk
        rw [alookup_derefList, ← hkn, hnk]; rfl

theorem sameTree_fileOK {ctx : Ctx κ} {s : Store κ} (hcons : Consistent ctx s) {fuel : Nat}
    {c : Child} {n t : Node κ} (hc : c.isDir = false) (hst : SameTree (deref ctx s n) t)
    (ht : stored ctx s fuel c = some t) : FileOK ctx s c.sum n := by
  obtain ⟨hh, o, ho, rfl⟩ := stored_file hc ht
  refine ⟨hh, o, ho, ?_⟩
  cases n with
  | file b =>
    simp only [deref, SameTree, Node.file.injEq] at hst
    exact Or.inl (by rw [hst])
  | link l =>
    cases l with
    | obj d =>
      simp only [deref] at hst
      cases hd : s.get d with
      | none => rw [hd] at hst; simp [SameTree] at hst
      | some o' =>
        rw [hd] at hst
        simp only [SameTree, Node.file.injEq] at hst
        have h1 := hcons d o' hd
        have h2 := hcons c.sum o ho
        simp only [Obj.digest] at h1 h2
        rw [← hst, h2] at h1
        exact Or.inr (by rw [h1])
    | foreign b => simp [deref, SameTree] at hst
  | other => simp [deref, SameTree] at hst
  | dir es => simp [deref, SameTree] at hst

/-- **complete**: if the workspace, read through its links, equals the stored tree, it is up to
date (the cache is consistent, manifests list every name once) -/
theorem sameTree_upToDate (ctx : Ctx κ) (s : Store κ) (hcons : Consistent ctx s)
    (hnd : ManifestsNodup ctx s) :
    ∀ (fuel : Nat) (c : Child) (n t : Node κ), SameTree (deref ctx s n) t →
      stored ctx s fuel c = some t → UpToDate ctx s fuel c.isDir c.sum n := by
  intro fuel
  induction fuel with
  | zero =>
    intro c n t hst ht
    cases hc : c.isDir with
    | true => simp [stored, hc] at ht
    | false => rw [UpToDate_file]; exact sameTree_fileOK hcons hc hst ht
  | succ fuel ih =>
    intro c n t hst ht
    cases hc : c.isDir with
    | false => rw [UpToDate_file]; exact sameTree_fileOK hcons hc hst ht
    | true =>
      have hin := stored_dir_inCache hc ht
      obtain ⟨cs, ts, _, hread, hts, rfl⟩ := stored_dir hc ht
      cases n with
      | file b => simp [deref, SameTree] at hst
      | other => simp [deref, SameTree] at hst
      | link l =>
        cases l with
        | foreign b => simp [deref, SameTree] at hst
        | obj d =>
          simp only [deref] at hst
          cases hd : s.get d with
          | none => rw [hd] at hst; simp [SameTree] at hst
          | some o' => rw [hd] at hst; simp [SameTree] at hst
      | dir es =>
        simp only [deref, SameTree, Node.dir.injEq, exists_eq_left'] at hst
        obtain ⟨hsl, hrev⟩ := hst
        simp only [UpToDate, if_true]
        refine ⟨es, cs, rfl, hin, hread, ?_, ?_⟩
        · intro k hk
          obtain ⟨tk, htk, hmem⟩ := (storedChildren_mem cs ts hts).2 k hk
          have h1 := hrev (k.name, tk) hmem
          rw [alookup_derefList] at h1
          cases hnk : alookup es k.name with
          | none => rw [hnk] at h1; cases h1
          | some nk =>
            have hmem' := mem_derefList ctx s es (k.name, nk) (alookup_mem hnk)
            obtain ⟨t', ht', hst'⟩ := SameList_elim hsl _ hmem'
            rw [storedChildren_alookup k.name cs ts hts,
              findChild_of_nodup (hnd _ _ hread) k hk] at ht'
            exact ⟨nk, rfl, ih k nk t' hst' ht'⟩
        · intro e he
          have hmem' := mem_derefList ctx s es e he
          obtain ⟨t', ht', _⟩ := SameList_elim hsl _ hmem'
          rw [storedChildren_alookup e.1 cs ts hts] at ht'
          cases hf : findChild cs e.1 with
          | none => rw [hf] at ht'; cases ht'
          | some k => rfl

end Dud
