import DudModel.PipeSpec
import DudModel.Lemmas.PipeRun
import DudModel.Lemmas.PipeCommit
/-!
# Lemmas for the `Hence` clause of C09: recorded checksums that describe an `F`-consistent snapshot

* `HashRec cfg w stg`: the checksums `stg` records are the hashes of the files found in `w`;
* `SoundStage cfg F stg`: in EVERY world in which the recorded checksums are those of the files
  found, the outputs are what `F` yields from the inputs; `SoundIdx`: this holds for every command
  stage of the index whose definition checksum is current. `SoundIdx` mentions neither workspace nor
  cache: it is untouched by `dud run` and by any edit of the workspace, established by a commit that
  follows a run, and survives every edit of the index that changes definition checksums;
* `RecordedD`: `UpToDate` without the sorting; `hashRec_of_direct`: a stage that is unchanged since
  its last commit, all of whose owners are too, has `HashRec`;
* `commit_package`: everything `dud commit` (all stages, pipeline of files) guarantees.
-/
namespace Dud

open WT

variable {κ : Type}

/-- the checksums recorded by `stg` are the hashes of the regular files found (logically) in `w` at
its inputs and outputs -/
def HashRec (cfg : Cfg κ) (w : World κ) (stg : Stage) : Prop :=
  (∀ a, a ∈ stg.inputs → ∃ c, FileAt cfg w a.path c ∧ cfg.ctx.H c = a.sum) ∧
  (∀ b, b ∈ stg.outputs → ∃ c, FileAt cfg w b.path c ∧ cfg.ctx.H c = b.sum)

/-- the checksums recorded by `stg` are those of a snapshot consistent with `F` -/
def SoundStage (cfg : Cfg κ) (F : Fun κ) (stg : Stage) : Prop :=
  ∀ w2 : World κ, HashRec cfg w2 stg → FreshStage cfg F w2 stg

/-- every command stage of the index with a current definition checksum is `SoundStage` -/
def SoundIdx (cfg : Cfg κ) (F : Fun κ) (idx : Index) : Prop :=
  ∀ x stg, alookup idx x = some stg → stg.hasCmd = true → stg.sumOk cfg = true →
    SoundStage cfg F stg

/-- a fresh stage whose recorded checksums are those of the files found is sound (the hash is
injective) -/
theorem soundStage_of_fresh (cfg : Cfg κ) (g : Good cfg.ctx) (F : Fun κ)
    (w : World κ) (stg : Stage) (hfr : FreshStage cfg F w stg) (hh : HashRec cfg w stg) :
    SoundStage cfg F stg := by
  intro w2 hh2
  have hin : ∀ a, a ∈ stg.inputs → logicalAt cfg w2 a.path = logicalAt cfg w a.path := by
    intro a ha
    obtain ⟨c, h1, e1⟩ := hh.1 a ha
    obtain ⟨c2, h2, e2⟩ := hh2.1 a ha
    have : c2 = c := g.inj _ _ (e2.trans e1.symm)
    subst this
    exact h2.trans h1.symm
  have hout : ∀ b, b ∈ stg.outputs → logicalAt cfg w2 b.path = logicalAt cfg w b.path := by
    intro b hb
    obtain ⟨c, h1, e1⟩ := hh.2 b hb
    obtain ⟨c2, h2, e2⟩ := hh2.2 b hb
    have : c2 = c := g.inj _ _ (e2.trans e1.symm)
    subst this
    exact h2.trans h1.symm
  exact FreshStage.congr hin hout hfr

variable [DecidableEq κ]

/-! ## `UpToDate` without the sorting -/

/-- `UpToDate` (`Props/C09.lean`) stated for all artifacts of the stage -/
def RecordedD (cfg : Cfg κ) (w : World κ) (stg : Stage) : Prop :=
  stg.sumOk cfg = true ∧
  (∀ a, a ∈ stg.inputs → findOwner cfg.walkAccumulates w.idx a.path = none →
    matchShort cfg w a = .ok true) ∧
  (∀ b, b ∈ stg.outputs → matchShort cfg w b = .ok true) ∧
  (∀ a, a ∈ stg.inputs → ∀ o oa, findOwner cfg.walkAccumulates w.idx a.path = some (o, oa) →
    a.sum = oa.sum)

theorem upToDate_of_direct {cfg : Cfg κ} {w : World κ} {stg : Stage} (h : RecordedD cfg w stg) :
    UpToDate cfg w stg := by
  obtain ⟨h1, h2, h3, h4⟩ := h
  refine ⟨h1, ?_, fun a ha => h3 a (mem_of_mem_sortArts ha), h4⟩
  intro a ha
  obtain ⟨hin, hn⟩ := List.mem_filter.1 (mem_of_mem_sortArts ha)
  exact h2 a hin (by simpa using hn)

theorem direct_of_upToDate {cfg : Cfg κ} {w : World κ} (hok : PipeOK cfg w.idx) (hfp : FilePipe cfg w.idx)
    {x : Bytes} {stg : Stage} (hsx : alookup w.idx x = some stg) (h : UpToDate cfg w stg) :
    RecordedD cfg w stg := by
  obtain ⟨h1, h2, h3, h4⟩ := h
  refine ⟨h1, ?_, ?_, h4⟩
  · intro a ha hn
    refine h2 a (mem_sortArts_of_mem ((hfp.ins_nodup x stg hsx).filter _) ?_)
    exact List.mem_filter.2 ⟨ha, by simp [hn]⟩
  · intro b hb
    exact h3 b (mem_sortArts_of_mem (hok.apart_in x stg hsx).paths_ne hb)

/-- **A stage that is unchanged since its last commit, and whose owners are too, records the hashes
of the files found** (pipeline of files, consistent cache). -/
theorem hashRec_of_direct {cfg : Cfg κ} {w : World κ} (hok : PipeOK cfg w.idx) (hfp : FilePipe cfg w.idx)
    (hc : Consistent cfg.ctx w.store) {x : Bytes} {stg : Stage} (hsx : alookup w.idx x = some stg)
    (h : RecordedD cfg w stg)
    (hown : ∀ o stgo, o ∈ ownIdx cfg w.idx x → alookup w.idx o = some stgo → RecordedD cfg w stgo) :
    HashRec cfg w stg := by
  obtain ⟨_, h2, h3, h4⟩ := h
  refine ⟨?_, fun b hb => matchShort_content cfg w hc b (hfp.outs_files x stg hsx b hb) (h3 b hb)⟩
  intro a ha
  cases ho : findOwner cfg.walkAccumulates w.idx a.path with
  | none => exact matchShort_content cfg w hc a (hfp.ins_files x stg hsx a ha) (h2 a ha ho)
  | some r =>
    obtain ⟨o, oa⟩ := r
    obtain ⟨stgo, hso, hoa⟩ := owner_lookup hok ho
    have hro := hown o stgo (owner_mem_ownIdx hsx ha ho) hso
    obtain ⟨c, hf, he⟩ := matchShort_content cfg w hc oa (hfp.outs_files o stgo hso oa hoa)
      (hro.2.2.1 oa hoa)
    refine ⟨c, ?_, by rw [he, h4 a ha o oa ho]⟩
    have hcomps := hfp.owner_same x stg hsx a ha o oa ho
    simp only [FileAt, logicalAt] at hf ⊢
    rw [← hcomps]
    exact hf

/-! ## what `dud commit` guarantees on a pipeline of files -/

/-- **`dud commit` (all stages) on a pipeline of files** in which every output and every un-owned
input is, logically, a regular file: the index keeps its shape and stays a well-formed pipeline of
files; the cache stays consistent; the logical content at every input and every output is
unchanged; every stage is recorded as it is (`RecordedD`) and records the hashes of the files found
(`HashRec`); and `Fresh` is preserved for a `Stable` function. -/
theorem commit_package (cfg : Cfg κ) (g : Good cfg.ctx) (F : Fun κ) (hF : F.Stable) (strat : Strat)
    (w0 w' : World κ) (hc : Consistent cfg.ctx w0.store) (hok : PipeOK cfg w0.idx)
    (hfp : FilePipe cfg w0.idx) (hfiles : AllFilesAt cfg w0)
    (h : cmdCommit cfg strat [] w0 = .ok w') :
    SameShape w'.idx w0.idx ∧ Consistent cfg.ctx w'.store ∧ PipeOK cfg w'.idx ∧ FilePipe cfg w'.idx ∧
    (∀ sp stg, alookup w0.idx sp = some stg →
      (∀ a, a ∈ stg.inputs → logicalAt cfg w' a.path = logicalAt cfg w0 a.path) ∧
      (∀ b, b ∈ stg.outputs → logicalAt cfg w' b.path = logicalAt cfg w0 b.path)) ∧
    (∀ x stg', alookup w'.idx x = some stg' → RecordedD cfg w' stg' ∧ HashRec cfg w' stg') ∧
    (Fresh cfg F w0 → Fresh cfg F w') := by
  obtain ⟨hsh, hinv, hall⟩ := cmdCommit_files cfg g strat w0 w' hc hok hfp h
  have hstage : ∀ x stg', alookup w'.idx x = some stg' → ∃ stg, alookup w0.idx x = some stg ∧
      StageSim stg' stg ∧ StageRec cfg w0.idx w' stg stg' := by
    intro x stg' hs'
    rcases alookup_sim hsh x with ⟨h1, _⟩ | ⟨s, s0, h1, h0, hs⟩
    · rw [h1] at hs'; cases hs'
    · rw [hs'] at h1
      cases h1
      obtain ⟨stg, stg2, e0, e1, hrec⟩ := hinv.finished x (hall x s0 h0)
      rw [h0] at e0
      cases e0
      rw [hs'] at e1
      cases e1
      exact ⟨s0, h0, hs, hrec⟩
  have hok' : PipeOK cfg w'.idx := by
    refine ⟨by rw [hsh.keys]; exact hok.keys, ?_, ?_, ?_, ?_⟩
    · intro sp stg' hs'
      obtain ⟨stg, hs0, _, hrec⟩ := hstage sp stg' hs'
      exact (hok.apart_in sp stg hs0).sortArts.of_paths hrec.outPaths
    · intro sp1 sp2 s1 s2 hne h1 h2 a' ha' b' hb'
      obtain ⟨stg1, e1, _, r1⟩ := hstage sp1 s1 h1
      obtain ⟨stg2, e2, _, r2⟩ := hstage sp2 s2 h2
      obtain ⟨_, ⟨a, ha, hpa⟩, _⟩ := r1.outs a' ha'
      obtain ⟨_, ⟨b, hb, hpb⟩, _⟩ := r2.outs b' hb'
      rw [hpa, hpb]
      exact hok.apart_across sp1 sp2 stg1 stg2 hne e1 e2 a ha b hb
    · intro sp s1 h1 a' ha' hn sp' s2 h2 b' hb'
      obtain ⟨stg1, e1, _, r1⟩ := hstage sp s1 h1
      obtain ⟨stg2, e2, _, r2⟩ := hstage sp' s2 h2
      obtain ⟨_, ⟨a, ha, hpa⟩, _⟩ := r1.ins a' ha'
      obtain ⟨_, ⟨b, hb, hpb⟩, _⟩ := r2.outs b' hb'
      have hn0 : findOwner cfg.walkAccumulates w0.idx a.path = none := by
        rw [← hpa]; exact (findOwner_none_sim _ hsh _).1 hn
      rw [hpa, hpb]
      exact hok.plain_apart sp stg1 e1 a ha hn0 sp' stg2 e2 b hb
    · intro sp s1 h1 a' ha' o oa ho
      obtain ⟨stg1, e1, _, r1⟩ := hstage sp s1 h1
      obtain ⟨_, ⟨a, ha, hpa⟩, _⟩ := r1.ins a' ha'
      obtain ⟨oa0, ho0, hp0⟩ := findOwner_some_sim _ hsh ho
      rw [← hp0, hpa]
      exact hok.owner_contains sp stg1 e1 a ha o oa0 (hpa ▸ ho0)
  have hfp' : FilePipe cfg w'.idx := by
    refine ⟨?_, ?_, ?_, ?_⟩
    · intro sp s1 h1
      obtain ⟨_, _, _, r1⟩ := hstage sp s1 h1
      exact r1.insNodup
    · intro sp s1 h1 a' ha'
      obtain ⟨_, _, _, r1⟩ := hstage sp s1 h1
      exact (r1.ins a' ha').1
    · intro sp s1 h1 a' ha'
      obtain ⟨_, _, _, r1⟩ := hstage sp s1 h1
      exact (r1.outs a' ha').1
    · intro sp s1 h1 a' ha' o oa ho
      obtain ⟨stg1, e1, _, r1⟩ := hstage sp s1 h1
      obtain ⟨_, ⟨a, ha, hpa⟩, _⟩ := r1.ins a' ha'
      obtain ⟨oa0, ho0, hp0⟩ := findOwner_some_sim _ hsh ho
      rw [← hp0, hpa]
      exact hfp.owner_same sp stg1 e1 a ha o oa0 (hpa ▸ ho0)
  have hrd : ∀ x stg', alookup w'.idx x = some stg' → RecordedD cfg w' stg' := by
    intro x stg' hs'
    obtain ⟨_, _, _, r⟩ := hstage x stg' hs'
    exact ⟨r.sumOk, fun a' ha' hn => (r.ins a' ha').2.2.1 ((findOwner_none_sim _ hsh _).1 hn),
      fun b' hb' => (r.outs b' hb').2.2, fun a' ha' => (r.ins a' ha').2.2.2⟩
  have hlog_out : ∀ sp stg, alookup w0.idx sp = some stg → ∀ b, b ∈ stg.outputs →
      logicalAt cfg w' b.path = logicalAt cfg w0 b.path := by
    intro sp stg hs0 b hb
    obtain ⟨c, hf⟩ := (hfiles sp stg hs0).1 b hb
    have := hinv.files (Path.comps b.path) c ⟨sp, stg, hs0, .inl ⟨b, hb, rfl⟩⟩ hf
    exact ((fileAt_iff cfg w' b.path c).2 this).trans hf.symm
  have hlog_in : ∀ sp stg, alookup w0.idx sp = some stg → ∀ a, a ∈ stg.inputs →
      logicalAt cfg w' a.path = logicalAt cfg w0 a.path := by
    intro sp stg hs0 a ha
    cases ho : findOwner cfg.walkAccumulates w0.idx a.path with
    | none =>
      obtain ⟨c, hf⟩ := (hfiles sp stg hs0).2 a ha ho
      have := hinv.files (Path.comps a.path) c ⟨sp, stg, hs0, .inr ⟨a, ha, ho, rfl⟩⟩ hf
      exact ((fileAt_iff cfg w' a.path c).2 this).trans hf.symm
    | some r =>
      obtain ⟨o, oa⟩ := r
      obtain ⟨stgo, hso, hoa⟩ := owner_lookup hok ho
      have h1 := hlog_out o stgo hso oa hoa
      have hcomps := hfp.owner_same sp stg hs0 a ha o oa ho
      simp only [logicalAt, hcomps] at h1 ⊢
      exact h1
  refine ⟨hsh, hinv.cons, hok', hfp', fun sp stg hs0 => ⟨hlog_in sp stg hs0, hlog_out sp stg hs0⟩,
    ?_, ?_⟩
  · intro x stg' hs'
    refine ⟨hrd x stg' hs', ?_⟩
    exact hashRec_of_direct hok' hfp' hinv.cons hs' (hrd x stg' hs') (fun o stgo _ hso => hrd o stgo hso)
  · intro hfr x stg' hs' hcmd'
    obtain ⟨stg, hs0, hsim, hrec⟩ := hstage x stg' hs'
    have hcmd : stg.hasCmd = true := by
      rw [Stage.hasCmd, ← hrec.cmd]; exact hcmd'
    have h0 := hfr x stg hs0 hcmd
    intro a' ha'
    obtain ⟨_, ⟨a, ha, hpa⟩, _⟩ := hrec.outs a' ha'
    rw [hpa, hlog_out x stg hs0 a ha, h0 a ha]
    refine hF stg stg' _ _ hrec.cmd.symm hrec.wd.symm (fun p => ?_) a.path
    rw [alookup_insOf, alookup_insOf]
    by_cases hp : p ∈ stg.inputs.map (·.path)
    · have hp' : p ∈ stg'.inputs.map (·.path) := (hsim.1 p).2 hp
      rw [if_pos hp, if_pos hp']
      obtain ⟨a1, ha1, rfl⟩ := List.mem_map.1 hp
      exact (hlog_in x stg hs0 a1 ha1).symm
    · have hp' : ¬ p ∈ stg'.inputs.map (·.path) := fun h => hp ((hsim.1 p).1 h)
      rw [if_neg hp, if_neg hp']

end Dud
