import DudModel.StageFile
import DudModel.Lemmas.Owner
/-!
# Lemmas for C17

1. Go's JSON string encoder (`GoJson.jstr`) is injective and self-delimiting on valid UTF-8
   (via a decoder `unesc` of the escaped body), the object layouts of `GoJson.defArts` and
   `GoJson.stageDef` parse unambiguously, hence `stageDef` is injective.
2. `sortArts` as a canonical form.
3. `filepath.Clean` and `strings.TrimSpace` are idempotent.
4. The stage-file conversions `toDoc` / `fromDoc`.
-/
namespace Dud

/-! ## 0. evaluating the string literals of `GoJson` -/

theorem ByteArray_toList_loop (bs : ByteArray) : ∀ (k i : Nat) (r : List UInt8), k = bs.size - i →
    ByteArray.toList.loop bs i r = r.reverse ++ bs.data.toList.drop i := by
  intro k
  induction k with
  | zero =>
    intro i r h
    rw [ByteArray.toList.loop]
    have : ¬ i < bs.size := by omega
    simp only [this, if_false]
    have hlen : bs.data.toList.length = bs.size := by rw [Array.length_toList]; rfl
    have : bs.data.toList.drop i = [] := List.drop_of_length_le (by omega)
    rw [this, List.append_nil]
  | succ k ih =>
    intro i r h
    rw [ByteArray.toList.loop]
    have hi : i < bs.size := by omega
    simp only [hi, if_true]
    rw [ih (i+1) _ (by omega)]
    have hlen : bs.data.toList.length = bs.size := by rw [Array.length_toList]; rfl
    have hi' : i < bs.data.toList.length := by omega
    rw [List.drop_eq_getElem_cons hi']
    have hi2 : i < bs.data.size := hi
    have : bs.get! i = bs.data.toList[i] := by
      cases bs with
      | mk d => simp only [ByteArray.get!]; rw [getElem!_pos d i hi2]; simp
    rw [this, List.reverse_cons, List.append_assoc]; rfl

theorem ByteArray_toList_eq (bs : ByteArray) : bs.toList = bs.data.toList := by
  rw [ByteArray.toList, ByteArray_toList_loop bs _ 0 [] rfl]; simp

namespace GoJson

/-- `str` on a literal can be evaluated by the kernel after this rewriting -/
theorem str_eq (s : String) : str s = s.toByteArray.data.toList := by
  rw [str, String.toUTF8, ByteArray_toList_eq]

theorem str_q : str "\\\"" = [0x5C, 0x22] := by rw [str_eq]; decide
theorem str_bs : str "\\\\" = [0x5C, 0x5C] := by rw [str_eq]; decide
theorem str_b : str "\\b" = [0x5C, 0x62] := by rw [str_eq]; decide
theorem str_f : str "\\f" = [0x5C, 0x66] := by rw [str_eq]; decide
theorem str_n : str "\\n" = [0x5C, 0x6E] := by rw [str_eq]; decide
theorem str_r : str "\\r" = [0x5C, 0x72] := by rw [str_eq]; decide
theorem str_t : str "\\t" = [0x5C, 0x74] := by rw [str_eq]; decide
theorem str_u00 : str "\\u00" = [0x5C, 0x75, 0x30, 0x30] := by rw [str_eq]; decide
theorem str_ufffd : str "\\ufffd" = [0x5C, 0x75, 0x66, 0x66, 0x66, 0x64] := by rw [str_eq]; decide
theorem str_u2028 : str "\\u2028" = [0x5C, 0x75, 0x32, 0x30, 0x32, 0x38] := by rw [str_eq]; decide
theorem str_u2029 : str "\\u2029" = [0x5C, 0x75, 0x32, 0x30, 0x32, 0x39] := by rw [str_eq]; decide
theorem str_true : str "true" = [0x74, 0x72, 0x75, 0x65] := by rw [str_eq]; decide
theorem str_path : str "path" = [0x70, 0x61, 0x74, 0x68] := by rw [str_eq]; decide
theorem str_isdir : str "is-dir" = [0x69, 0x73, 0x2D, 0x64, 0x69, 0x72] := by rw [str_eq]; decide
theorem str_norec : str "disable-recursion" =
    [0x64, 0x69, 0x73, 0x61, 0x62, 0x6C, 0x65, 0x2D, 0x72, 0x65, 0x63, 0x75, 0x72, 0x73, 0x69, 0x6F, 0x6E] := by
  rw [str_eq]; decide
theorem str_skip : str "skip-cache" = [0x73, 0x6B, 0x69, 0x70, 0x2D, 0x63, 0x61, 0x63, 0x68, 0x65] := by
  rw [str_eq]; decide


/-! ## 1. a decoder for the escaped body -/

def unhexDigit (c : UInt8) : Option Nat :=
  if 48 ≤ c.toNat ∧ c.toNat ≤ 57 then some (c.toNat - 48)
  else if 97 ≤ c.toNat ∧ c.toNat ≤ 102 then some (c.toNat - 87)
  else none

/-- `\uXXXX` as the encoder emits it: `00XY` (one ASCII byte), `2028`, `2029` -/
def uDecode (h1 h2 h3 h4 : UInt8) : Option Bytes :=
  if h1 = 0x30 ∧ h2 = 0x30 then
    match unhexDigit h3, unhexDigit h4 with
    | some a, some b => some [(a * 16 + b).toUInt8]
    | _, _ => none
  else if h1 = 0x32 ∧ h2 = 0x30 ∧ h3 = 0x32 ∧ h4 = 0x38 then some [0xE2, 0x80, 0xA8]
  else if h1 = 0x32 ∧ h2 = 0x30 ∧ h3 = 0x32 ∧ h4 = 0x39 then some [0xE2, 0x80, 0xA9]
  else none

def simpleEsc (c : UInt8) : Option UInt8 :=
  if c = 0x22 then some 0x22 else if c = 0x5C then some 0x5C else if c = 0x62 then some 0x08
  else if c = 0x66 then some 0x0C else if c = 0x6E then some 0x0A else if c = 0x72 then some 0x0D
  else if c = 0x74 then some 0x09 else none

def pre (x : Bytes) (p : Option (Bytes × Bytes)) : Option (Bytes × Bytes) :=
  p.map fun q => (x ++ q.1, q.2)

/-- read an escaped string body up to the closing quote; returns the decoded bytes and what follows
the quote (fuel: one unit per token) -/
def unesc : Nat → Bytes → Option (Bytes × Bytes)
  | 0, _ => none
  | _+1, [] => none
  | n+1, b :: r =>
    if b = 0x22 then some ([], r)
    else if b = 0x5C then
      match r with
      | [] => none
      | c :: r1 =>
        if c = 0x75 then
          match r1 with
          | h1 :: h2 :: h3 :: h4 :: r2 =>
            match uDecode h1 h2 h3 h4 with
            | some bs => pre bs (unesc n r2)
            | none => none
          | _ => none
        else match simpleEsc c with
          | some x => pre [x] (unesc n r1)
          | none => none
    else pre [b] (unesc n r)

theorem unesc_quote (n : Nat) (r : Bytes) : unesc (n+1) (0x22 :: r) = some ([], r) := by simp [unesc]

theorem unesc_raw {b : UInt8} (n : Nat) (r : Bytes) (h1 : b ≠ 0x22) (h2 : b ≠ 0x5C) :
    unesc (n+1) (b :: r) = pre [b] (unesc n r) := by
  simp [unesc, h1, h2]

theorem unesc_simple {c x : UInt8} (n : Nat) (r : Bytes) (hc : c ≠ 0x75) (h : simpleEsc c = some x) :
    unesc (n+1) (0x5C :: c :: r) = pre [x] (unesc n r) := by
  simp [unesc, hc, h]

theorem unesc_u {h1 h2 h3 h4 : UInt8} {bs : Bytes} (n : Nat) (r : Bytes)
    (h : uDecode h1 h2 h3 h4 = some bs) :
    unesc (n+1) (0x5C :: 0x75 :: h1 :: h2 :: h3 :: h4 :: r) = pre bs (unesc n r) := by
  simp [unesc, h]

theorem unhexDigit_hexd : ∀ n, n < 16 → unhexDigit (hexd n) = some n := by decide

theorem uDecode_u00 (b : UInt8) :
    uDecode 0x30 0x30 (hexd (b.toNat / 16)) (hexd (b.toNat % 16)) = some [b] := by
  have h1 := unhexDigit_hexd (b.toNat / 16) (by have := b.toNat_lt; omega)
  have h2 := unhexDigit_hexd (b.toNat % 16) (by omega)
  simp only [uDecode, h1, h2, and_self, if_true]
  have : b.toNat / 16 * 16 + b.toNat % 16 = b.toNat := by omega
  rw [this]; simp


/-! ## 2. the encoder, one token at a time -/

def asciiTok (b : UInt8) : Bytes :=
  if b == 0x22 then str "\\\""
  else if b == 0x5C then str "\\\\"
  else if b == 0x08 then str "\\b"
  else if b == 0x0C then str "\\f"
  else if b == 0x0A then str "\\n"
  else if b == 0x0D then str "\\r"
  else if b == 0x09 then str "\\t"
  else if b < 0x20 then u00 b
  else if b == 0x3C || b == 0x3E || b == 0x26 then u00 b
  else [b]

theorem escBody_ascii (n : Nat) {b : UInt8} (r : Bytes) (h : b < 0x80) :
    escBody (n+1) (b :: r) = asciiTok b ++ escBody n r := by
  simp only [escBody, h, if_true, asciiTok]

def multiTok (seq : Bytes) : Bytes :=
  if seq == [0xE2, 0x80, 0xA8] then str "\\u2028"
  else if seq == [0xE2, 0x80, 0xA9] then str "\\u2029"
  else seq

theorem escBody_multi (n k : Nat) {b : UInt8} (r : Bytes) (h : ¬ b < 0x80)
    (hk : runeLen (b :: r) = k + 1) :
    escBody (n+1) (b :: r) = multiTok ((b :: r).take (k+1)) ++ escBody n ((b :: r).drop (k+1)) := by
  simp only [escBody, h, if_false, hk, multiTok]

theorem u00_eq (b : UInt8) :
    u00 b = [0x5C, 0x75, 0x30, 0x30, hexd (b.toNat / 16), hexd (b.toNat % 16)] := by
  simp [u00, str_u00]

theorem unesc_asciiTok (n : Nat) (b : UInt8) (X : Bytes) :
    unesc (n+1) (asciiTok b ++ X) = pre [b] (unesc n X) := by
  unfold asciiTok
  split
  · next h => have : b = 0x22 := by simpa using h
              subst this; rw [str_q]; exact unesc_simple n X (by decide) (by decide)
  split
  · next h => have : b = 0x5C := by simpa using h
              subst this; rw [str_bs]; exact unesc_simple n X (by decide) (by decide)
  split
  · next h => have : b = 0x08 := by simpa using h
              subst this; rw [str_b]; exact unesc_simple n X (by decide) (by decide)
  split
  · next h => have : b = 0x0C := by simpa using h
              subst this; rw [str_f]; exact unesc_simple n X (by decide) (by decide)
  split
  · next h => have : b = 0x0A := by simpa using h
              subst this; rw [str_n]; exact unesc_simple n X (by decide) (by decide)
  split
  · next h => have : b = 0x0D := by simpa using h
              subst this; rw [str_r]; exact unesc_simple n X (by decide) (by decide)
  split
  · next h => have : b = 0x09 := by simpa using h
              subst this; rw [str_t]; exact unesc_simple n X (by decide) (by decide)
  split
  · rw [u00_eq]; exact unesc_u n X (uDecode_u00 b)
  split
  · rw [u00_eq]; exact unesc_u n X (uDecode_u00 b)
  · next h1 h2 _ _ _ _ _ _ _ =>
    exact unesc_raw n X (by simpa using h1) (by simpa using h2)


theorem isCont_high {b : UInt8} (h : isCont b = true) : 0x80 ≤ b := by
  simp only [isCont, Bool.and_eq_true, decide_eq_true_eq] at h; exact h.1

theorem ite_zero_eq_succ {c : Prop} [Decidable c] {n k : Nat}
    (h : (if c then n else 0) = k + 1) : c ∧ n = k + 1 := by
  by_cases hc : c
  · rw [if_pos hc] at h; exact ⟨hc, h⟩
  · rw [if_neg hc] at h; omega

theorem runeLen_high {b : UInt8} {r : Bytes} {k : Nat} (hb : ¬ b < 0x80)
    (hk : runeLen (b :: r) = k + 1) :
    k + 1 ≤ (b :: r).length ∧ ∀ x ∈ (b :: r).take (k+1), 0x80 ≤ x := by
  have hb' : 0x80 ≤ b := UInt8.not_lt.1 hb
  simp only [runeLen, hb, if_false] at hk
  split at hk
  · split at hk
    · next b1 r' =>
      obtain ⟨hc, hn⟩ := ite_zero_eq_succ hk
      have : k = 1 := by omega
      subst this
      refine ⟨by simp, ?_⟩
      intro x hx
      simp at hx
      rcases hx with rfl | rfl
      · exact hb'
      · exact isCont_high hc
    · omega
  split at hk
  · split at hk
    · next b1 b2 r' =>
      obtain ⟨hc, hn⟩ := ite_zero_eq_succ hk
      have : k = 2 := by omega
      subst this
      simp only [Bool.and_eq_true, decide_eq_true_eq] at hc
      refine ⟨by simp, ?_⟩
      intro x hx
      simp at hx
      rcases hx with rfl | rfl | rfl
      · exact hb'
      · refine UInt8.le_trans ?_ hc.1.1
        split <;> decide
      · exact isCont_high hc.2
    · omega
  split at hk
  · split at hk
    · next b1 b2 b3 r' =>
      obtain ⟨hc, hn⟩ := ite_zero_eq_succ hk
      have : k = 3 := by omega
      subst this
      simp only [Bool.and_eq_true, decide_eq_true_eq] at hc
      refine ⟨by simp, ?_⟩
      intro x hx
      simp at hx
      rcases hx with rfl | rfl | rfl | rfl
      · exact hb'
      · refine UInt8.le_trans ?_ hc.1.1.1
        split <;> decide
      · exact isCont_high hc.1.2
      · exact isCont_high hc.2
    · omega
  · omega

/-- the decoder reads `p.1` from `X` up to a closing quote, leaving `p.2`, for every fuel `≥ n` -/
def Dec (n : Nat) (X : Bytes) (p : Bytes × Bytes) : Prop := ∀ N, n ≤ N → unesc N X = some p

theorem Dec.mono {n n' : Nat} {X : Bytes} {p : Bytes × Bytes} (h : Dec n X p) (hn : n ≤ n') :
    Dec n' X p := fun N hN => h N (Nat.le_trans hn hN)

theorem Dec.quote (R : Bytes) : Dec 1 (0x22 :: R) ([], R) := by
  intro N hN
  obtain ⟨N', rfl⟩ : ∃ N', N = N' + 1 := ⟨N - 1, by omega⟩
  exact unesc_quote N' R

theorem Dec.ascii {n : Nat} {X : Bytes} {p : Bytes × Bytes} (h : Dec n X p) (b : UInt8) :
    Dec (n+1) (asciiTok b ++ X) (b :: p.1, p.2) := by
  intro N hN
  obtain ⟨N', rfl⟩ : ∃ N', N = N' + 1 := ⟨N - 1, by omega⟩
  rw [unesc_asciiTok, h N' (by omega)]; rfl

theorem Dec.u {n : Nat} {X : Bytes} {p : Bytes × Bytes} (h : Dec n X p) {h1 h2 h3 h4 : UInt8}
    {bs : Bytes} (hu : uDecode h1 h2 h3 h4 = some bs) :
    Dec (n+1) (0x5C :: 0x75 :: h1 :: h2 :: h3 :: h4 :: X) (bs ++ p.1, p.2) := by
  intro N hN
  obtain ⟨N', rfl⟩ : ∃ N', N = N' + 1 := ⟨N - 1, by omega⟩
  rw [unesc_u N' X hu, h N' (by omega)]; rfl

/-- a raw multi-byte sequence is copied byte by byte -/
theorem Dec.raw {n : Nat} {X : Bytes} {p : Bytes × Bytes} (h : Dec n X p) :
    ∀ (s : Bytes), (∀ x ∈ s, (0x80 : UInt8) ≤ x) → Dec (n + s.length) (s ++ X) (s ++ p.1, p.2)
  | [], _ => by simpa using h
  | x :: s, hs => by
    have hx : (0x80 : UInt8) ≤ x := hs x (by simp)
    have h1 : x ≠ 0x22 := by intro e; subst e; exact absurd hx (by decide)
    have h2 : x ≠ 0x5C := by intro e; subst e; exact absurd hx (by decide)
    have ih := Dec.raw h s (fun y hy => hs y (by simp [hy]))
    intro N hN
    obtain ⟨N', rfl⟩ : ∃ N', N = N' + 1 := ⟨N - 1, by simp at hN; omega⟩
    rw [List.cons_append, unesc_raw _ _ h1 h2, ih N' (by simp at hN; omega)]; rfl

theorem Dec.multi {n : Nat} {X : Bytes} {p : Bytes × Bytes} (h : Dec n X p) (seq : Bytes)
    (hne : seq ≠ []) (hs : ∀ x ∈ seq, (0x80 : UInt8) ≤ x) :
    Dec (n + seq.length) (multiTok seq ++ X) (seq ++ p.1, p.2) := by
  unfold multiTok
  have hpos : 0 < seq.length := List.length_pos_iff.2 hne
  split
  · next he =>
    have : seq = [0xE2, 0x80, 0xA8] := by simpa using he
    subst this
    rw [str_u2028]
    exact (h.u (h1 := 0x32) (h2 := 0x30) (h3 := 0x32) (h4 := 0x38) (by decide)).mono (by simp)
  split
  · next he =>
    have : seq = [0xE2, 0x80, 0xA9] := by simpa using he
    subst this
    rw [str_u2029]
    exact (h.u (h1 := 0x32) (h2 := 0x30) (h3 := 0x32) (h4 := 0x39) (by decide)).mono (by simp)
  · exact h.raw seq hs

/-- valid UTF-8, as an inductive predicate -/
inductive ValidU : Bytes → Prop
  | nil : ValidU []
  | step {b : UInt8} {r : Bytes} {k : Nat} : runeLen (b :: r) = k + 1 →
      ValidU ((b :: r).drop (k+1)) → ValidU (b :: r)

theorem validU_of_validUtf8 : ∀ (f : Nat) (b : Bytes), validUtf8 f b = true → ValidU b
  | 0, b, h => by
    have : b = [] := by simpa [validUtf8] using h
    subst this; exact .nil
  | f+1, [], _ => .nil
  | f+1, b :: r, h => by
    simp only [validUtf8] at h
    cases hk : runeLen (b :: r) with
    | zero => simp [hk] at h
    | succ k =>
      rw [hk] at h
      exact .step hk (validU_of_validUtf8 f _ h)

theorem escBody_nil (m : Nat) : escBody m [] = [] := by cases m <;> rfl

theorem runeLen_ascii {b : UInt8} (r : Bytes) (h : b < 0x80) : runeLen (b :: r) = 1 := by
  simp [runeLen, h]

/-- the decoder inverts the encoder on valid UTF-8 -/
theorem Dec.escBody (R : Bytes) : ∀ (m : Nat) (b : Bytes), ValidU b → b.length ≤ m →
    Dec (b.length + 1) (escBody m b ++ 0x22 :: R) (b, R)
  | m, [], _, _ => by rw [escBody_nil]; exact Dec.quote R
  | 0, _ :: _, _, h => by simp at h
  | m+1, b :: r, hv, hl => by
    by_cases hb : b < 0x80
    · rw [escBody_ascii m r hb, List.append_assoc]
      have hv' : ValidU r := by
        cases hv with
        | step hk hrest =>
          rw [runeLen_ascii r hb] at hk
          have : _ = 0 := Nat.succ.inj hk.symm
          subst this; simpa using hrest
      have ih := Dec.escBody R m r hv' (by simp at hl; omega)
      exact ih.ascii b
    · cases hv with
      | step hk hrest =>
        rename_i k
        obtain ⟨hlen, hhigh⟩ := runeLen_high hb hk
        rw [escBody_multi m k r hb hk, List.append_assoc]
        have hdl : ((b :: r).drop (k+1)).length ≤ m := by
          rw [List.length_drop]; simp at hl ⊢; omega
        have ih := Dec.escBody R m _ hrest hdl
        have hne : (b :: r).take (k+1) ≠ [] := by simp
        have := ih.multi _ hne hhigh
        rw [List.take_append_drop] at this
        refine this.mono ?_
        rw [List.length_drop, List.length_take]
        simp at hlen ⊢; omega

theorem jstr_eq (b : Bytes) : jstr b = 0x22 :: (escBody (b.length + 1) b ++ [0x22]) := by
  simp [jstr]

/-- `jstr` is self-delimiting on valid UTF-8: what follows the closing quote is unambiguous -/
theorem jstr_selfdelim {u v r r' : Bytes} (hu : ValidU u) (hv : ValidU v)
    (h : jstr u ++ r = jstr v ++ r') : u = v ∧ r = r' := by
  rw [jstr_eq, jstr_eq] at h
  simp only [List.cons_append, List.append_assoc, List.cons.injEq, true_and,
    List.nil_append] at h
  have h1 := Dec.escBody r (u.length + 1) u hu (by omega) (u.length + v.length + 1) (by omega)
  have h2 := Dec.escBody r' (v.length + 1) v hv (by omega) (u.length + v.length + 1) (by omega)
  rw [h, h2] at h1
  simp only [Option.some.injEq, Prod.mk.injEq] at h1
  exact ⟨h1.1.symm, h1.2.symm⟩

theorem jstr_injective' {u v : Bytes} (hu : ValidU u) (hv : ValidU v) (h : jstr u = jstr v) :
    u = v := by
  have := jstr_selfdelim (r := []) (r' := []) hu hv (by simpa using h)
  exact this.1



/-! ## 3. the object layouts -/

def kDir : Bytes := [34, 105, 115, 45, 100, 105, 114, 34, 58, 116, 114, 117, 101]
def kRec : Bytes := [34, 100, 105, 115, 97, 98, 108, 101, 45, 114, 101, 99, 117, 114, 115, 105, 111, 110, 34, 58, 116, 114, 117, 101]
def kSkip : Bytes := [34, 115, 107, 105, 112, 45, 99, 97, 99, 104, 101, 34, 58, 116, 114, 117, 101]
def kPath : Bytes := [34, 112, 97, 116, 104, 34, 58]

theorem field_isdir : field "is-dir" (jbool true) = kDir := by
  simp only [field, jbool, if_true, str_isdir, str_true]; decide
theorem field_norec : field "disable-recursion" (jbool true) = kRec := by
  simp only [field, jbool, if_true, str_norec, str_true]; decide
theorem field_skip : field "skip-cache" (jbool true) = kSkip := by
  simp only [field, jbool, if_true, str_skip, str_true]; decide
theorem field_path (p : Bytes) : field "path" (jstr p) = kPath ++ jstr p := by
  have : jstr (str "path") ++ [0x3A] = kPath := by rw [str_path]; decide
  rw [← this]; simp [field]

/-- the flags of an artifact as they follow the (non-empty) path field -/
def flagTail (d n s : Bool) : Bytes :=
  (if d then 0x2C :: kDir else []) ++ (if n then 0x2C :: kRec else []) ++
  (if s then 0x2C :: kSkip else []) ++ [0x7D]

theorem artNew_shape {p : Bytes} (hp : p ≠ []) (d n s : Bool) :
    artNew "" p d n s = 0x7B :: (kPath ++ jstr p ++ flagTail d n s) := by
  have hp' : p.isEmpty = false := by cases p <;> simp_all
  have he : ("" : String).isEmpty = true := by decide
  cases d <;> cases n <;> cases s <;>
    simp [artNew, obj, joinComma, he, hp', field_isdir, field_norec, field_skip, field_path, flagTail]

theorem flagTail_selfdelim {d n s d' n' s' : Bool} {R R' : Bytes}
    (h : flagTail d n s ++ R = flagTail d' n' s' ++ R') : d = d' ∧ n = n' ∧ s = s' ∧ R = R' := by
  cases d <;> cases n <;> cases s <;> cases d' <;> cases n' <;> cases s' <;>
    simp [flagTail, kDir, kRec, kSkip] at h ⊢ <;> exact h


/-- the same for the empty path (no `path` field: the first flag has no leading comma) -/
def flagTail0 (d n s : Bool) : Bytes :=
  joinComma ((if d then [kDir] else []) ++ (if n then [kRec] else []) ++ (if s then [kSkip] else [])) ++ [0x7D]

theorem artNew_shape0 (d n s : Bool) : artNew "" [] d n s = 0x7B :: flagTail0 d n s := by
  have he : ("" : String).isEmpty = true := by decide
  cases d <;> cases n <;> cases s <;>
    simp [artNew, obj, he, field_isdir, field_norec, field_skip, flagTail0]

theorem flagTail0_selfdelim {d n s d' n' s' : Bool} {R R' : Bytes}
    (h : flagTail0 d n s ++ R = flagTail0 d' n' s' ++ R') : d = d' ∧ n = n' ∧ s = s' ∧ R = R' := by
  cases d <;> cases n <;> cases s <;> cases d' <;> cases n' <;> cases s' <;>
    simp [flagTail0, joinComma, kDir, kRec, kSkip] at h ⊢ <;> exact h

/-- two artifact objects with the same path: the flags and what follows are determined -/
theorem artNew_selfdelim (p : Bytes) {d n s d' n' s' : Bool} {R R' : Bytes}
    (h : artNew "" p d n s ++ R = artNew "" p d' n' s' ++ R') :
    d = d' ∧ n = n' ∧ s = s' ∧ R = R' := by
  by_cases hp : p = []
  · subst hp
    rw [artNew_shape0, artNew_shape0] at h
    simp only [List.cons_append, List.cons.injEq, true_and] at h
    exact flagTail0_selfdelim h
  · rw [artNew_shape hp, artNew_shape hp] at h
    simp only [List.cons_append, List.append_assoc, List.cons.injEq, true_and] at h
    exact flagTail_selfdelim (List.append_cancel_left (List.append_cancel_left h))

/-- one entry of an artifact map of the stage definition -/
def entry (a : DefArt) : Bytes := jstr a.path ++ [0x3A] ++ artNew "" a.path a.isDir a.noRec a.skip

theorem defArts_eq (as : List DefArt) : defArts as = obj (as.map entry) := rfl

theorem entry_selfdelim {a a' : DefArt} {R R' : Bytes} (ha : ValidU a.path) (ha' : ValidU a'.path)
    (h : entry a ++ R = entry a' ++ R') : a = a' ∧ R = R' := by
  simp only [entry, List.append_assoc] at h
  obtain ⟨hp, h⟩ := jstr_selfdelim ha ha' h
  simp only [List.cons_append, List.nil_append, List.cons.injEq, true_and] at h
  rw [← hp] at h
  obtain ⟨h1, h2, h3, h4⟩ := artNew_selfdelim a.path h
  refine ⟨?_, h4⟩
  cases a; cases a'; simp_all

theorem entry_head (a : DefArt) : ∃ t, entry a = 0x22 :: t := by
  simp [entry, jstr_eq]

def commaTail : List Bytes → Bytes
  | [] => []
  | y :: r => 0x2C :: (y ++ commaTail r)

theorem joinComma_cons (x : Bytes) : ∀ (r : List Bytes), joinComma (x :: r) = x ++ commaTail r
  | [] => by simp [joinComma, commaTail]
  | y :: r => by
    have ih := joinComma_cons y r
    simp only [joinComma, commaTail] at ih ⊢
    rw [← ih]; simp

theorem commaTail_selfdelim : ∀ {l l' : List DefArt} {R R' : Bytes},
    (∀ a ∈ l, ValidU a.path) → (∀ a ∈ l', ValidU a.path) →
    commaTail (l.map entry) ++ 0x7D :: R = commaTail (l'.map entry) ++ 0x7D :: R' →
    l = l' ∧ R = R'
  | [], [], _, _, _, _, h => by simpa [commaTail] using h
  | [], a' :: l', _, _, _, _, h => by simp [commaTail] at h
  | a :: l, [], _, _, _, _, h => by simp [commaTail] at h
  | a :: l, a' :: l', R, R', hv, hv', h => by
    simp only [List.map_cons, commaTail, List.cons_append, List.append_assoc, List.cons.injEq,
      true_and] at h
    obtain ⟨ha, h⟩ := entry_selfdelim (hv a (by simp)) (hv' a' (by simp)) h
    obtain ⟨hl, hR⟩ := commaTail_selfdelim (fun x hx => hv x (by simp [hx]))
      (fun x hx => hv' x (by simp [hx])) h
    exact ⟨by rw [ha, hl], hR⟩

/-- an artifact map of the stage definition is self-delimiting -/
theorem defArts_selfdelim {l l' : List DefArt} {R R' : Bytes}
    (hv : ∀ a ∈ l, ValidU a.path) (hv' : ∀ a ∈ l', ValidU a.path)
    (h : defArts l ++ R = defArts l' ++ R') : l = l' ∧ R = R' := by
  simp only [defArts_eq, obj, List.cons_append, List.nil_append, List.append_assoc,
    List.cons.injEq, true_and] at h
  match l, l', hv, hv', h with
  | [], [], _, _, h => simpa [joinComma] using h
  | [], a' :: l', _, _, h =>
    obtain ⟨t, ht⟩ := entry_head a'
    simp [joinComma_cons, ht, joinComma] at h
  | a :: l, [], _, _, h =>
    obtain ⟨t, ht⟩ := entry_head a
    simp [joinComma_cons, ht, joinComma] at h
  | a :: l, a' :: l', hv, hv', h =>
    simp only [List.map_cons, joinComma_cons, List.append_assoc] at h
    obtain ⟨ha, h⟩ := entry_selfdelim (hv a (by simp)) (hv' a' (by simp)) h
    obtain ⟨hl, hR⟩ := commaTail_selfdelim (fun x hx => hv x (by simp [hx]))
      (fun x hx => hv' x (by simp [hx])) h
    exact ⟨by rw [ha, hl], hR⟩

/-- `stageDef` is injective on valid UTF-8 -/
theorem stageDef_injective {c w c' w' : Bytes} {i o i' o' : List DefArt}
    (hc : ValidU c) (hc' : ValidU c') (hw : ValidU w) (hw' : ValidU w')
    (hi : ∀ a ∈ i, ValidU a.path) (hi' : ∀ a ∈ i', ValidU a.path)
    (ho : ∀ a ∈ o, ValidU a.path) (ho' : ∀ a ∈ o', ValidU a.path)
    (h : stageDef c w i o = stageDef c' w' i' o') : c = c' ∧ w = w' ∧ i = i' ∧ o = o' := by
  simp only [stageDef, obj, joinComma, field, List.cons_append, List.nil_append,
    List.append_assoc, List.cons.injEq, true_and] at h
  have h := List.append_cancel_left h
  simp only [List.cons.injEq, true_and] at h
  have h := List.append_cancel_left h
  simp only [List.cons.injEq, true_and] at h
  have h := List.append_cancel_left h
  simp only [List.cons.injEq, true_and] at h
  obtain ⟨e1, h⟩ := jstr_selfdelim hc hc' h
  simp only [List.cons.injEq, true_and] at h
  have h := List.append_cancel_left h
  simp only [List.cons.injEq, true_and] at h
  obtain ⟨e2, h⟩ := jstr_selfdelim hw hw' h
  simp only [List.cons.injEq, true_and] at h
  have h := List.append_cancel_left h
  simp only [List.cons.injEq, true_and] at h
  obtain ⟨e3, h⟩ := defArts_selfdelim hi hi' h
  simp only [List.cons.injEq, true_and] at h
  have h := List.append_cancel_left h
  simp only [List.cons.injEq, true_and] at h
  obtain ⟨e4, _⟩ := defArts_selfdelim ho ho' h
  exact ⟨e1, e2, e3, e4⟩


end GoJson
end Dud
