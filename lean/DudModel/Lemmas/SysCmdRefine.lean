import DudModel.SysCmd
import DudModel.Lemmas.CrashTree
/-!
# Erasing the trace of the traced `dud commit` gives the logical command

* generic: a traversal on richer states whose `isDone` / `owners` / `act` commute with a projection
  commutes with the projection (`visit_lift`, `perTargetP_lift`); an invariant every action preserves
  holds at the end of a successful traversal (`visit_inv`, `perTargetP_inv`)
* `commitArtWT_refines`, `commitArtsT_refines`, `commitActT_refines`, `cmdCommitSegs_erase`,
  `cmdCommitT_erase`
-/
namespace Dud.Sys
open Dud
variable {κ : Type}

/-! ## generic: projections and invariants along `visit` -/

section Generic
variable {σ σ' : Type}

theorem visitAll_lift (π : σ' → σ) {f' : Bytes → σ' → Except Err σ'} {f : Bytes → σ → Except Err σ}
    (hf : ∀ o s, (f' o s).map π = f o (π s)) :
    ∀ (os : List Bytes) (s : σ'), (visitAll f' os s).map π = visitAll f os (π s)
  | [], _ => rfl
  | o :: os, s => by
    have h := hf o s
    simp only [visitAll]
    cases hfo : f' o s with
    | error e => rw [hfo] at h; rw [← h]; rfl
    | ok s1 =>
      rw [hfo] at h; rw [← h]
      exact visitAll_lift π hf os s1

/-- a traversal on richer states that commutes with the projection `π` step by step commutes with it as a
whole -/
theorem visit_lift (π : σ' → σ) (T' : Trav σ') (T : Trav σ)
    (hd : ∀ s sp, T'.isDone s sp = T.isDone (π s) sp)
    (ho : ∀ s sp, T'.owners s sp = T.owners (π s) sp)
    (ha : ∀ sp s, (T'.act sp s).map π = T.act sp (π s)) (r : Bool) :
    ∀ (fuel : Nat) (avail : List Bytes) (sp : Bytes) (s : σ'),
      (visit T' r fuel avail sp s).map π = visit T r fuel avail sp (π s)
  | 0, _, _, _ => rfl
  | fuel+1, avail, sp, s => by
    simp only [visit]
    rw [hd, ho]
    split
    · rfl
    split
    · rfl
    cases T.owners (π s) sp with
    | error e => rfl
    | ok os =>
      simp only
      cases r with
      | false =>
        simp only [Bool.false_eq_true, if_false]
        exact ha sp s
      | true =>
        simp only [if_true]
        have h := visitAll_lift π (fun o s => visit_lift π T' T hd ho ha true fuel (avail.filter (· != sp)) o s) os s
        cases hv : visitAll (visit T' true fuel (avail.filter (· != sp))) os s with
        | error e => rw [hv] at h; rw [← h]; rfl
        | ok s1 =>
          rw [hv] at h; rw [← h]
          exact ha sp s1

theorem visitAll_inv {f : Bytes → σ → Except Err σ} {Q : σ → Prop}
    (hf : ∀ o s s', Q s → f o s = .ok s' → Q s') :
    ∀ (os : List Bytes) (s s' : σ), Q s → visitAll f os s = .ok s' → Q s'
  | [], s, s', hq, h => by simp only [visitAll] at h; cases h; exact hq
  | o :: os, s, s', hq, h => by
    simp only [visitAll] at h
    cases hfo : f o s with
    | error e => rw [hfo] at h; cases h
    | ok s1 =>
      rw [hfo] at h
      exact visitAll_inv hf os s1 s' (hf o s s1 hq hfo) h

/-- a property every action preserves holds at the end of a successful traversal -/
theorem visit_inv (T : Trav σ) {Q : σ → Prop} (hact : ∀ sp s s', Q s → T.act sp s = .ok s' → Q s')
    (r : Bool) : ∀ (fuel : Nat) (avail : List Bytes) (sp : Bytes) (s s' : σ), Q s →
      visit T r fuel avail sp s = .ok s' → Q s'
  | 0, _, _, _, _, _, h => by simp [visit] at h
  | fuel+1, avail, sp, s, s', hq, h => by
    simp only [visit] at h
    split at h
    · cases h; exact hq
    split at h
    · cases h
    cases hos : T.owners s sp with
    | error e => rw [hos] at h; cases h
    | ok os =>
      rw [hos] at h
      simp only at h
      cases r with
      | false =>
        simp only [Bool.false_eq_true, if_false] at h
        exact hact sp s s' hq h
      | true =>
        simp only [if_true] at h
        cases hv : visitAll (visit T true fuel (avail.filter (· != sp))) os s with
        | error e => rw [hv] at h; cases h
        | ok s1 =>
          rw [hv] at h
          simp only at h
          exact hact sp s1 s'
            (visitAll_inv (fun o a b ha hb => visit_inv T hact true fuel (avail.filter (· != sp)) o a b ha hb)
              os s s1 hq hv) h

end Generic

theorem perTargetP_lift {β : Type} {f' : Bytes → World κ × β → Except Err (World κ × β)}
    {f : Bytes → World κ → Except Err (World κ)} (hf : ∀ t p, (f' t p).map (·.1) = f t p.1) :
    ∀ (ts : List Bytes) (p : World κ × β), (perTargetP f' ts p).map (·.1) = perTarget f ts p.1
  | [], _ => rfl
  | t :: r, p => by
    simp only [perTargetP, perTarget]
    split
    · rfl
    · have h := hf t p
      cases hfo : f' t p with
      | error e => rw [hfo] at h; rw [← h]; rfl
      | ok p1 =>
        rw [hfo] at h; rw [← h]
        exact perTargetP_lift hf r p1

theorem perTargetP_inv {β : Type} {f : Bytes → World κ × β → Except Err (World κ × β)}
    {Q : World κ × β → Prop} (hf : ∀ t p p', Q p → f t p = .ok p' → Q p') :
    ∀ (ts : List Bytes) (p p' : World κ × β), Q p → perTargetP f ts p = .ok p' → Q p'
  | [], p, p', hq, h => by simp only [perTargetP] at h; cases h; exact hq
  | t :: r, p, p', hq, h => by
    simp only [perTargetP] at h
    split at h
    · cases h
    · cases hfo : f t p with
      | error e => rw [hfo] at h; cases h
      | ok p1 =>
        rw [hfo] at h
        exact perTargetP_inv hf r p1 p' (hf t p p1 hq hfo) h

/-! ## refinement -/

theorem commitArtWT_refines (c : CmdCfg κ) (strat : Strat) (a : Art) (w : World κ) :
    (commitArtWT c strat a w).map (·.1) = commitArtW c.cfg strat a w := by
  have ih := map_fst_eq (commitArtT_refines (c.tc strat) a (Path.comps a.path)
    (getPath w.ws (Path.comps a.path)) w.store)
  simp only [CmdCfg.tc] at ih
  unfold commitArtWT commitArtW
  simp only [CmdCfg.tc]
  cases hT : commitArtT { ctx := c.cfg.ctx, isEmp := c.isEmp, strat := strat, canRename := c.canRename } a
      (Path.comps a.path) (getPath w.ws (Path.comps a.path)) w.store with
  | error e => simp [ih.1 e hT, Except.map]
  | ok v =>
    obtain ⟨⟨n, d, s⟩, calls⟩ := v
    simp only [ih.2 _ _ hT]
    cases setPath w.ws (Path.comps a.path) n <;> rfl

theorem commitArtsT_refines (c : CmdCfg κ) (strat : Strat) : ∀ (as : List Art) (w : World κ),
    (commitArtsT c strat as w).map (·.1) = commitArts c.cfg strat as w
  | [], w => rfl
  | a :: r, w => by
    have ih := map_fst_eq (commitArtWT_refines c strat a w)
    simp only [commitArtsT, commitArts]
    cases hT : commitArtWT c strat a w with
    | error e => simp [ih.1 e hT, Except.map]
    | ok v =>
      obtain ⟨⟨a', w1⟩, calls1⟩ := v
      simp only [ih.2 _ _ hT]
      have ih2 := map_fst_eq (commitArtsT_refines c strat r w1)
      cases hT2 : commitArtsT c strat r w1 with
      | error e => simp [ih2.1 e hT2, Except.map]
      | ok v =>
        obtain ⟨⟨r', w2⟩, segs⟩ := v
        simp [ih2.2 _ _ hT2, Except.map]

theorem commitActT_refines (c : CmdCfg κ) (strat : Strat) (sp : Bytes) (w : World κ) :
    (commitActT c strat sp w).map (·.1) = commitAct c.cfg strat sp w := by
  unfold commitActT commitAct
  cases w.stage sp with
  | error e => rfl
  | ok stg =>
    simp only
    have ih1 := map_fst_eq (commitArtsT_refines c strat
      (sortArts ((stg.inputs.filter (fun a => (findOwner c.cfg.walkAccumulates w.idx a.path).isNone)).map
        (fun a => { a with skip := true }))) w)
    cases hT1 : commitArtsT c strat
      (sortArts ((stg.inputs.filter (fun a => (findOwner c.cfg.walkAccumulates w.idx a.path).isNone)).map
        (fun a => { a with skip := true }))) w with
    | error e => simp [ih1.1 e hT1, Except.map]
    | ok v =>
      obtain ⟨⟨plain', w1⟩, segs1⟩ := v
      simp only [ih1.2 _ _ hT1]
      have ih2 := map_fst_eq (commitArtsT_refines c strat (sortArts stg.outputs) w1)
      cases hT2 : commitArtsT c strat (sortArts stg.outputs) w1 with
      | error e => simp [ih2.1 e hT2, Except.map]
      | ok v =>
        obtain ⟨⟨outs', w2⟩, segs2⟩ := v
        simp only [ih2.2 _ _ hT2]
        rfl

theorem commitTravT_act_refines (c : CmdCfg κ) (strat : Strat) (sp : Bytes)
    (p : World κ × List (List (Call κ))) :
    ((commitTravT c strat).act sp p).map (·.1) = (commitTrav c.cfg strat).act sp p.1 := by
  have ih := map_fst_eq (commitActT_refines c strat sp p.1)
  simp only [commitTravT, commitTrav]
  cases hT : commitActT c strat sp p.1 with
  | error e => simp [ih.1 e hT, Except.map]
  | ok v =>
    obtain ⟨w', segs⟩ := v
    simp [ih.2 _ _ hT, Except.map]

/-- the traced traversal of one target refines the logical one -/
theorem visit_commitTravT_refines (c : CmdCfg κ) (strat : Strat) (r : Bool) (fuel : Nat)
    (avail : List Bytes) (sp : Bytes) (p : World κ × List (List (Call κ))) :
    (visit (commitTravT c strat) r fuel avail sp p).map (·.1) =
      visit (commitTrav c.cfg strat) r fuel avail sp p.1 :=
  visit_lift (·.1) (commitTravT c strat) (commitTrav c.cfg strat) (fun _ _ => rfl) (fun _ _ => rfl)
    (commitTravT_act_refines c strat) r fuel avail sp p

/-- **Refinement, segmented form.** -/
theorem cmdCommitSegs_erase (c : CmdCfg κ) (strat : Strat) (targets : List Bytes) (w : World κ) :
    (cmdCommitSegs c strat targets w).map (·.1) = cmdCommit c.cfg strat targets w := by
  unfold cmdCommitSegs cmdCommit
  simp only
  generalize (if targets.isEmpty then allStages w else targets) = ts
  by_cases hts : ts.isEmpty = true
  · rw [if_pos hts, if_pos hts]; rfl
  · rw [if_neg hts, if_neg hts]
    have h := perTargetP_lift
      (f' := fun t (p : World κ × List (List (Call κ))) =>
        visit (commitTravT c strat) true (p.1.idx.length + 1) (allStages p.1) t p)
      (f := fun t w => visit (commitTrav c.cfg strat) true (w.idx.length + 1) (allStages w) t w)
      (fun t p => visit_commitTravT_refines c strat true _ _ t p)
      ts (fresh w, [])
    cases hv : perTargetP (fun t (p : World κ × List (List (Call κ))) =>
        visit (commitTravT c strat) true (p.1.idx.length + 1) (allStages p.1) t p)
        ts (fresh w, []) with
    | error e => rw [hv] at h; rw [← h]; rfl
    | ok p1 =>
      rw [hv] at h; rw [← h]
      rfl

/-- **Refinement.** Erasing the trace of `cmdCommitT` gives exactly `cmdCommit`. -/
theorem cmdCommitT_erase (c : CmdCfg κ) (strat : Strat) (targets : List Bytes) (w : World κ) :
    (cmdCommitT c strat targets w).map (·.1) = cmdCommit c.cfg strat targets w := by
  rw [← cmdCommitSegs_erase]
  unfold cmdCommitT
  cases cmdCommitSegs c strat targets w with
  | error e => rfl
  | ok v => rfl

/-- inversion of a successful traced command -/
theorem cmdCommitT_ok_inv {c : CmdCfg κ} {strat : Strat} {targets : List Bytes} {w w' : World κ}
    {calls : List (Call κ)} (h : cmdCommitT c strat targets w = .ok (w', calls)) :
    ∃ arts, perTargetP (fun t (p : World κ × List (List (Call κ))) =>
          visit (commitTravT c strat) true (p.1.idx.length + 1) (allStages p.1) t p)
        (if targets.isEmpty then allStages w else targets) (fresh w, []) = .ok (w', arts) ∧
      calls = [.createExcl .lock] ++ arts.flatten ++
        (w'.done.reverse.map (stageWriteCalls c w'.idx)).flatten ++ [.unlink .lock] := by
  unfold cmdCommitT at h
  cases hs : cmdCommitSegs c strat targets w with
  | error e => rw [hs] at h; cases h
  | ok v =>
    obtain ⟨w1, t⟩ := v
    rw [hs] at h
    simp only [Except.ok.injEq, Prod.mk.injEq] at h
    obtain ⟨rfl, rfl⟩ := h
    unfold cmdCommitSegs at hs
    simp only at hs
    generalize (if targets.isEmpty then allStages w else targets) = ts at hs ⊢
    by_cases hts : ts.isEmpty = true
    · rw [if_pos hts] at hs; cases hs
    · rw [if_neg hts] at hs
      cases hv : perTargetP (fun t (p : World κ × List (List (Call κ))) =>
          visit (commitTravT c strat) true (p.1.idx.length + 1) (allStages p.1) t p)
          ts (fresh w, []) with
      | error e => rw [hv] at hs; cases hs
      | ok p1 =>
        obtain ⟨w2, arts⟩ := p1
        rw [hv] at hs
        simp only [Except.ok.injEq, Prod.mk.injEq] at hs
        obtain ⟨rfl, rfl⟩ := hs
        exact ⟨arts, rfl, rfl⟩

end Dud.Sys
