import DudModel.Lemmas.InterleaveCheckout
/-!
# Concurrent checkout: runs that fail, are cancelled or are killed

`ParCheckoutTrace` (`Lemmas/InterleaveCheckout.lean`) holds the COMPLETE traces of successful concurrent
checkouts.  When a worker fails (an entry in the way, an object missing, a manifest unreadable), the Go
`errgroup` cancels its siblings: the real trace of such a run is an interleaving of PARTIAL traces of the
workers, and there is no complete trace to be a prefix of.  `CheckoutRun` is that larger, prefix-closed set:

* any worker may contribute nothing (it has not started, it failed before its first call, it was
  cancelled);
* a file worker contributes any prefix of the calls of its `checkoutFile` (if that succeeds at all);
* a directory worker whose manifest is readable contributes the `mkdir` of the directory (if absent), then
  any interleaving of runs of its entries.

`parTrace_run`: complete concurrent traces are runs; `CheckoutRun.take`: a prefix of a run is a run;
`checkoutRun_keptP`: after EVERY run the pre-existing workspace entries are kept (`KeptP`) — proved path
by path: a path is acted on by the worker of one file entry only (or by the `mkdir` of one directory that was
absent), so what a run leaves there is what that worker alone leaves there.
-/
namespace Dud.Sys
open Dud
variable {κ : Type}

/-- the traces of concurrent checkouts that may fail, be cancelled or be killed at any point -/
def CheckoutRun (t : TCfg κ) (s : Store κ) :
    Nat → List Name → Option (Node κ) → Child → List (Call κ) → Prop
  | 0, _, _, _, calls => calls = []
  | fuel + 1, pre, cur, c, calls =>
    calls = [] ∨
    (c.isDir = true ∧
      ∃ cs es head ts l, readManifest t.ctx s c.sum = .ok cs ∧
        ((cur = some (.dir es) ∧ head = []) ∨ (cur = none ∧ es = [] ∧ head = [.mkdir (.ws pre)])) ∧
        All2 (fun (c' : Child) tr =>
          CheckoutRun t s fuel (pre ++ [c'.name]) (alookup es c'.name) c' tr) cs ts ∧
        ShuffleN ts l ∧ calls = head ++ l) ∨
    (c.isDir = false ∧ ∃ r full k, checkoutFileT t (.ws pre) cur c.sum s = .ok (r, full) ∧ calls = full.take k)

theorem CheckoutRun.nil (t : TCfg κ) (s : Store κ) : ∀ (fuel : Nat) (pre : List Name)
    (cur : Option (Node κ)) (c : Child), CheckoutRun t s fuel pre cur c []
  | 0, _, _, _ => by simp [CheckoutRun]
  | _ + 1, _, _, _ => by simp [CheckoutRun]

/-- introduction: a directory worker -/
theorem CheckoutRun.dir {t : TCfg κ} {s : Store κ} {fuel : Nat} {pre : List Name} {cur : Option (Node κ)}
    {c : Child} {calls : List (Call κ)} (hd : c.isDir = true) {cs : List Child} {es : List (Name × Node κ)}
    {head : List (Call κ)} {ts : List (List (Call κ))} {l : List (Call κ)}
    (hm : readManifest t.ctx s c.sum = .ok cs)
    (hcur : (cur = some (.dir es) ∧ head = []) ∨ (cur = none ∧ es = [] ∧ head = [.mkdir (.ws pre)]))
    (hall : All2 (fun (c' : Child) tr =>
      CheckoutRun t s fuel (pre ++ [c'.name]) (alookup es c'.name) c' tr) cs ts)
    (hs : ShuffleN ts l) (hc : calls = head ++ l) : CheckoutRun t s (fuel + 1) pre cur c calls := by
  simp only [CheckoutRun]
  exact .inr (.inl ⟨hd, cs, es, head, ts, l, hm, hcur, hall, hs, hc⟩)

/-- introduction: a file worker, cut short after `k` calls -/
theorem CheckoutRun.file {t : TCfg κ} {s : Store κ} {fuel : Nat} {pre : List Name} {cur : Option (Node κ)}
    {c : Child} {calls : List (Call κ)} (hd : c.isDir = false) {r : Node κ} {full : List (Call κ)}
    (h : checkoutFileT t (.ws pre) cur c.sum s = .ok (r, full)) (k : Nat) (hc : calls = full.take k) :
    CheckoutRun t s (fuel + 1) pre cur c calls := by
  simp only [CheckoutRun]
  exact .inr (.inr ⟨hd, r, full, k, h, hc⟩)

/-- every complete concurrent trace is a run -/
theorem parTrace_run {t : TCfg κ} {s : Store κ} :
    ∀ (fuel : Nat) (pre : List Name) (cur : Option (Node κ)) (c : Child) (calls : List (Call κ)),
      ParCheckoutTrace t s fuel pre cur c calls → CheckoutRun t s fuel pre cur c calls
  | 0, _, _, _, _, h => by simp [CheckoutTraces] at h
  | fuel + 1, pre, cur, c, calls, h => by
    simp only [CheckoutTraces] at h
    simp only [CheckoutRun]
    rcases h with ⟨hd, -, -, cs, es, head, ts, l, hm, hcur, hall, hc, rfl⟩ | ⟨hd, r, h⟩
    · exact .inr (.inl ⟨hd, cs, es, head, ts, l, hm, hcur,
        hall.imp (fun c' tr h' => parTrace_run fuel _ _ _ _ h'), hc, rfl⟩)
    · exact .inr (.inr ⟨hd, r, calls, calls.length, h, by simp⟩)

/-- **a prefix of a run is a run**: the set is closed under killing the process at any point -/
theorem CheckoutRun.take {t : TCfg κ} {s : Store κ} :
    ∀ (fuel : Nat) (pre : List Name) (cur : Option (Node κ)) (c : Child) (calls : List (Call κ)),
      CheckoutRun t s fuel pre cur c calls → ∀ k, CheckoutRun t s fuel pre cur c (calls.take k)
  | 0, _, _, _, _, h, k => by
    simp only [CheckoutRun] at h ⊢
    subst h; simp
  | fuel + 1, pre, cur, c, calls, h, k => by
    simp only [CheckoutRun] at h ⊢
    rcases h with rfl | ⟨hd, cs, es, head, ts, l, hm, hcur, hall, hc, rfl⟩ | ⟨hd, r, full, j, h, rfl⟩
    · exact .inl (by simp)
    · cases k with
      | zero => exact .inl (by simp)
      | succ k =>
        have key : ∀ k', ∃ ts' , All2 (fun (c' : Child) tr =>
            CheckoutRun t s fuel (pre ++ [c'.name]) (alookup es c'.name) c' tr) cs ts' ∧
            ShuffleN ts' (l.take k') := by
          intro k'
          obtain ⟨ts', hpre, hs'⟩ := hc.take k'
          refine ⟨ts', (hall.comp hpre).imp (fun c' tr' ⟨tr, hrun, j, hj⟩ => ?_), hs'⟩
          subst hj
          exact CheckoutRun.take fuel _ _ _ _ hrun j
        rcases hcur with ⟨rfl, rfl⟩ | ⟨rfl, rfl, rfl⟩
        · obtain ⟨ts', hall', hs'⟩ := key (k + 1)
          exact .inr (.inl ⟨hd, cs, es, [], ts', _, hm, .inl ⟨rfl, rfl⟩, hall', hs', by simp⟩)
        · obtain ⟨ts', hall', hs'⟩ := key k
          exact .inr (.inl ⟨hd, cs, [], [.mkdir (.ws pre)], ts', _, hm, .inr ⟨rfl, rfl, rfl⟩, hall', hs',
            by simp [List.take_succ_cons]⟩)
    · exact .inr (.inr ⟨hd, r, full, min k j, h, by rw [List.take_take]⟩)

/-! ## what a run leaves at a path -/

/-- workers below other entry names do not act on a path below `pre ++ [a]` -/
theorem flatten_filter_nil_of_other {pre : List Name} {R : Child → List (Call κ) → Prop}
    (hR : ∀ c t, R c t → BelowS (pre ++ [c.name]) t) {cs : List Child} {ts : List (List (Call κ))}
    (hall : All2 R cs ts) {a : Name} (hne : ∀ c' ∈ cs, a ≠ c'.name) (rel : List Name) :
    ts.flatten.filter (onPath (.ws (pre ++ a :: rel))) = [] := by
  rw [List.filter_eq_nil_iff]
  intro y hy hon
  obtain ⟨t', ht', hyt'⟩ := List.mem_flatten.1 hy
  obtain ⟨c', hc', hr'⟩ := hall.mem_right t' ht'
  have := filter_eq_nil_of_below (hne c' hc') (hR _ _ hr') rel
  rw [List.filter_eq_nil_iff] at this
  exact this y hyt' hon

/-- **at most one worker acts on a path**: the calls of all workers at `q` are the calls of one worker at
`q`, or there are none -/
theorem flatten_filter_owner {pre : List Name} {R : Child → List (Call κ) → Prop}
    (hR : ∀ c t, R c t → BelowS (pre ++ [c.name]) t) {cs : List Child} {ts : List (List (Call κ))}
    (hall : All2 R cs ts) : NamesDistinct cs → ∀ q,
      ts.flatten.filter (onPath q) = [] ∨
      ∃ c t, R c t ∧ ts.flatten.filter (onPath q) = t.filter (onPath q) := by
  induction hall with
  | nil => intro _ q; exact .inl rfl
  | @cons c t cs ts hr hrest ih =>
    intro hnd q
    rw [List.flatten_cons, List.filter_append]
    by_cases ht : t.filter (onPath q) = []
    · rw [ht, List.nil_append]
      exact ih (List.pairwise_cons.1 hnd).2 q
    · obtain ⟨x, hx⟩ := List.exists_mem_of_ne_nil _ ht
      obtain ⟨hxt, hxq⟩ := List.mem_filter.1 hx
      obtain ⟨rel, hrel⟩ := hR _ _ hr x hxt
      have hq : q = .ws (pre ++ c.name :: rel) := by
        rw [← onPath_iff.1 hxq, hrel]; simp
      have := flatten_filter_nil_of_other hR hrest (List.pairwise_cons.1 hnd).1 rel
      rw [← hq] at this
      rw [this, List.append_nil]
      exact .inr ⟨c, t, hr, rfl⟩

/-- the calls of a run act on single workspace paths below the entry's path -/
theorem checkoutRun_single_below {t : TCfg κ} {s : Store κ} :
    ∀ (fuel : Nat) (pre : List Name) (cur : Option (Node κ)) (c : Child) (calls : List (Call κ)),
      CheckoutRun t s fuel pre cur c calls → AllSingle calls ∧ BelowS pre calls
  | 0, _, _, _, _, h => by
    simp only [CheckoutRun] at h; subst h
    exact ⟨fun c hc => (by cases hc), fun c hc => (by cases hc)⟩
  | fuel + 1, pre, cur, c, calls, h => by
    simp only [CheckoutRun] at h
    rcases h with rfl | ⟨-, cs, es, head, ts, l, -, hcur, hall, hc, rfl⟩ | ⟨-, r, full, j, h, rfl⟩
    · exact ⟨fun c hc => (by cases hc), fun c hc => (by cases hc)⟩
    · have hhead : AllSingle head ∧ BelowS pre head := by
        rcases hcur with ⟨-, rfl⟩ | ⟨-, -, rfl⟩
        · exact ⟨fun c hc => (by cases hc), fun c hc => (by cases hc)⟩
        · refine ⟨fun c hc => ?_, fun c hc => ?_⟩
          · simp only [List.mem_singleton] at hc; subst hc; rfl
          · simp only [List.mem_singleton] at hc; subst hc; exact ⟨[], by simp [cpath]⟩
      have hl : AllSingle l ∧ BelowS pre l := by
        refine ⟨fun x hx => ?_, fun x hx => ?_⟩
        · obtain ⟨tr, htr, hxt⟩ := (ShuffleN.mem hc x).1 hx
          obtain ⟨c', -, hpar⟩ := hall.mem_right tr htr
          exact (checkoutRun_single_below fuel _ _ _ _ hpar).1 x hxt
        · obtain ⟨tr, htr, hxt⟩ := (ShuffleN.mem hc x).1 hx
          obtain ⟨c', -, hpar⟩ := hall.mem_right tr htr
          exact (checkoutRun_single_below fuel _ _ _ _ hpar).2.child x hxt
      exact ⟨hhead.1.append hl.1, hhead.2.append hl.2⟩
    · refine ⟨fun x hx => (checkoutFileT_single_path h x (List.mem_of_mem_take hx)).1, fun x hx => ?_⟩
      exact ⟨[], by rw [(checkoutFileT_single_path h x (List.mem_of_mem_take hx)).2]; simp⟩

/-- **After every run — complete, failed, cancelled or killed — the entries the workspace held before are
kept**, up to a link to the very object being copied (`KeptP`).  From any state `fs` that agrees with the
logical workspace below the path. -/
theorem checkoutRun_keptP {t : TCfg κ} {emp : κ} (hemp : ∀ x, t.isEmp x = true → x = emp) {s : Store κ}
    (hman : ManUniq t.ctx s) {fs : FS κ} (hobj : ObjIn t.ctx s fs) :
    ∀ (fuel : Nat) (pre : List Name) (cur : Option (Node κ)) (c : Child) (calls : List (Call κ)),
      CheckoutRun t s fuel pre cur c calls → AbsAt pre cur fs → uniqOpt cur →
      KeptP t.strat emp fs (replay emp fs calls)
  | 0, _, _, _, _, h, _, _ => by
    simp only [CheckoutRun] at h; subst h
    exact (KeptB.refl _ fs).toP emp
  | fuel + 1, pre, cur, c, calls, h, ha, hu => by
    have hsb := checkoutRun_single_below (fuel + 1) pre cur c calls h
    simp only [CheckoutRun] at h
    rcases h with rfl | ⟨-, cs, es, head, ts, l, hm, hcur, hall, hc, rfl⟩ | ⟨-, r, full, j, h, rfl⟩
    · exact (KeptB.refl _ fs).toP emp
    · -- a directory: the state at a path is the state its owner leaves there
      have hnd := hman _ _ hm
      have hR : ∀ (c' : Child) tr, CheckoutRun t s fuel (pre ++ [c'.name]) (alookup es c'.name) c' tr →
          BelowS (pre ++ [c'.name]) tr := fun c' tr h' => (checkoutRun_single_below fuel _ _ _ _ h').2
      have hlist : AbsList pre es fs ∧ uniqList es := by
        rcases hcur with ⟨rfl, -⟩ | ⟨rfl, rfl, -⟩
        · exact ⟨AbsList.of_dir ha, hu⟩
        · refine ⟨fun nm r => ?_, by simp [uniqList]⟩
          simpa [alookup, getOpt] using ha (nm :: r)
      have hl : SamePerPath l ts.flatten :=
        shuffleN_samePerPath_flatten (hall.imp hR) hnd hc
      intro q e he
      -- the calls of the whole run at `.ws q`
      have hget : (replay emp fs (head ++ l)).get (.ws q) =
          (replay emp fs ((head ++ l).filter (onPath (.ws q)))).get (.ws q) :=
        replay_get_filter emp _ _ fs hsb.1
      have hhead : q = pre ∧ fs.get (.ws pre) = none ∨ head.filter (onPath (.ws q)) = [] := by
        rcases hcur with ⟨-, rfl⟩ | ⟨rfl, -, rfl⟩
        · exact .inr rfl
        · by_cases hq : q = pre
          · exact .inl ⟨hq, by simpa [getOpt, EntOK] using ha []⟩
          · refine .inr ?_
            rw [List.filter_eq_nil_iff]
            intro y hy hon
            simp only [List.mem_singleton] at hy; subst hy
            rw [onPath_iff] at hon
            simp only [cpath, P.ws.injEq] at hon
            exact hq hon.symm
      rcases hhead with ⟨rfl, hnone⟩ | hhead
      · rw [hnone] at he; cases he
      · rw [List.filter_append, hhead, List.nil_append, hl (.ws q)] at hget
        rcases flatten_filter_owner hR hall hnd (.ws q) with hnil | ⟨c', tr, hrun, hown⟩
        · rw [hnil] at hget
          rw [hget]; exact .inl he
        · rw [hown, ← replay_get_filter emp _ _ fs (checkoutRun_single_below fuel _ _ _ _ hrun).1] at hget
          rw [hget]
          exact checkoutRun_keptP hemp hman hobj fuel _ _ _ _ hrun (hlist.1.child c'.name)
            (uniqOpt_alookup hlist.2 c'.name) q e he
    · -- a file worker, cut short anywhere
      obtain ⟨res, -⟩ := checkoutFileT_step (st := t.strat) hemp h id hobj ha (KeptB.refl _ fs) hu
      exact res.pref j

end Dud.Sys
