import DudModel.Lemmas.CrashTree
/-!
# Post-conditions of one traced `LocalCache.Commit` (for the command-level argument of C03)

What the NEXT artifact of the command needs to know about the file system after the complete trace of
one artifact:

* `…_ctmp_free` — the cache temp names are free again;
* `…_kept` — every regular file of the tree the commit leaves in the workspace was a regular file of the
  tree before, at the same path with the same bytes, and no call of the trace writes that path;
* `…_uniq` — the tree left in the workspace has duplicate-free entry names if the tree before had;
* `commitArtT_cacheOnly` — the trace mentions workspace, cache and probe paths only (neither the lock nor
  stage files nor the index).
-/
namespace Dud.Sys
open Dud
variable {κ : Type}

/-! ## temp names are free again -/

/-- the cache temp names from `n` on are unused -/
def CtmpFree (n : Nat) (fs : FS κ) : Prop := ∀ k, n ≤ k → fs.get (.ctmp k) = none

theorem CtmpFree.mono {n n' : Nat} {fs : FS κ} (h : CtmpFree n fs) (hle : n ≤ n') : CtmpFree n' fs :=
  fun k hk => h k (by omega)

/-- `copyIntoCache` renames its temp file away -/
theorem copyIntoCache_ctmp_self (emp : κ) (isEmp : κ → Bool) (n : Nat) (c : κ) (d : Digest) (fs : FS κ) :
    (replay emp fs (copyIntoCache isEmp n c d)).get (.ctmp n) = none := by
  have hsplit : copyIntoCache isEmp n c d =
      ([.createExcl (.ctmp n)] ++ (if isEmp c then [] else [.writePart (.ctmp n), .write (.ctmp n) c]) ++
        [.mkdir (.shard (shardOf d))]) ++ [.rename (.ctmp n) (.obj d), .chmod (.obj d) 0o444] := by
    simp [copyIntoCache]
  rw [hsplit, replay_append]
  generalize replay emp fs _ = fs1
  rw [replay_cons, replay_cons, replay_nil,
    apply_get_frame _ _ _ _ (by simp [callWrites, callPaths])]
  exact get_rename_src (by simp)

theorem copyIntoCache_ctmp_free (emp : κ) (isEmp : κ → Bool) (n : Nat) (c : κ) (d : Digest) {lo : Nat}
    {fs : FS κ} (h : CtmpFree lo fs) : CtmpFree lo (replay emp fs (copyIntoCache isEmp n c d)) := by
  intro k hk
  by_cases hkn : k = n
  · subst hkn; exact copyIntoCache_ctmp_self emp isEmp k c d fs
  · rw [replay_get_frame]
    · exact h k hk
    · intro call hcall hmem
      rcases copyIntoCache_paths isEmp n c d call hcall _ (callWrites_sub _ _ hmem) with h | h | h
      · simp at h; exact hkn h
      · cases h
      · cases h

theorem commitFileCalls_ctmp_free (emp : κ) (isEmp : κ → Bool) (strat : Strat) (canRename : Bool)
    (q : List Name) (n : Nat) (c : κ) (d : Digest) {lo : Nat} {fs : FS κ} (h : CtmpFree lo fs) :
    CtmpFree lo (replay emp fs (commitFileCalls isEmp strat canRename (.ws q) n c d)) := by
  cases strat with
  | copy => cases canRename <;> exact copyIntoCache_ctmp_free emp isEmp n c d h
  | link =>
    cases canRename with
    | false =>
      simp only [commitFileCalls]
      rw [replay_append]
      have h1 := copyIntoCache_ctmp_free emp isEmp n c d h
      intro k hk
      rw [replay_get_frame]
      · exact h1 k hk
      · intro call hcall
        simp at hcall
        rcases hcall with rfl | rfl <;> simp [callWrites, callPaths]
    | true =>
      intro k hk
      rw [replay_get_frame]
      · exact h k hk
      · intro call hcall
        simp [commitFileCalls] at hcall
        rcases hcall with rfl | rfl | rfl | rfl <;> simp [callWrites, callPaths]

theorem commitFileT_ctmp_free {t : TCfg κ} (emp : κ) {skip : Bool} {q : List Name} {nd : Option (Node κ)}
    {sum : Digest} {s : Store κ} {n : Nat} {res : Node κ × Digest × Store κ} {calls : List (Call κ)}
    {k : Nat} (h : commitFileT t skip (.ws q) nd sum s n = .ok (res, calls, k))
    {lo : Nat} {fs : FS κ} (hfr : CtmpFree lo fs) : CtmpFree lo (replay emp fs calls) := by
  unfold commitFileT at h
  cases hcf : commitFile t.ctx t.strat skip nd sum s with
  | error e => simp [hcf] at h
  | ok r =>
    simp only [hcf] at h
    split at h
    · split at h
      · simp at h; obtain ⟨-, rfl, -⟩ := h; exact hfr
      · simp at h
        obtain ⟨-, rfl, -⟩ := h
        exact commitFileCalls_ctmp_free emp _ _ _ _ _ _ _ hfr
    · simp at h; obtain ⟨-, rfl, -⟩ := h; exact hfr

mutual
theorem commitNodeT_ctmp_free (t : TCfg κ) (emp : κ) : ∀ (nd : Node κ) (pre : List Name) (c : Child)
    (s : Store κ) (n : Nat) (res : Node κ × Child × Store κ) (calls : List (Call κ)) (n' : Nat),
    commitNodeT t pre nd c s n = .ok (res, calls, n') →
    ∀ (lo : Nat) (fs : FS κ), CtmpFree lo fs → CtmpFree lo (replay emp fs calls)
  | .file x, pre, c, s, n, res, calls, n', h, lo, fs, hfr => by
    obtain ⟨rfl, -⟩ := commitNodeT_file_ok h
    exact commitFileCalls_ctmp_free emp _ _ _ _ _ _ _ hfr
  | .link l, pre, c, s, n, res, calls, n', h, lo, fs, hfr => by
    obtain ⟨rfl, -⟩ := commitNodeT_link_ok h
    exact hfr
  | .other, pre, c, s, n, res, calls, n', h, lo, fs, hfr => by
    obtain ⟨rfl, -⟩ := commitNodeT_other_ok h
    exact hfr
  | .dir es, pre, c, s, n, res, calls, n', h, lo, fs, hfr => by
    obtain ⟨old, res1, calls1, n1, mb, hT, rfl, rfl⟩ := commitNodeT_dir_ok h
    rw [replay_append]
    exact copyIntoCache_ctmp_free emp _ _ _ _
      (commitEntriesT_ctmp_free t emp es pre false old s n res1 calls1 n1 hT lo fs hfr)
theorem commitEntriesT_ctmp_free (t : TCfg κ) (emp : κ) : ∀ (es : List (Name × Node κ)) (pre : List Name)
    (skipDirs : Bool) (old : List Child) (s : Store κ) (n : Nat)
    (res : List (Name × Node κ) × List Child × Store κ) (calls : List (Call κ)) (n' : Nat),
    commitEntriesT t pre skipDirs es old s n = .ok (res, calls, n') →
    ∀ (lo : Nat) (fs : FS κ), CtmpFree lo fs → CtmpFree lo (replay emp fs calls)
  | [], pre, skipDirs, old, s, n, res, calls, n', h, lo, fs, hfr => by
    simp [commitEntriesT] at h
    obtain ⟨-, rfl, -⟩ := h
    exact hfr
  | (nm, nd) :: r, pre, skipDirs, old, s, n, res, calls, n', h, lo, fs, hfr => by
    rcases commitEntriesT_cons_ok h with ⟨res', h'⟩ |
      ⟨c0, nd', c', s1, calls1, n1, res2, calls2, h1, h2, rfl⟩
    · exact commitEntriesT_ctmp_free t emp r pre skipDirs old s n res' calls n' h' lo fs hfr
    · rw [replay_append]
      exact commitEntriesT_ctmp_free t emp r pre skipDirs old s1 n1 res2 calls2 n' h2 lo _
        (commitNodeT_ctmp_free t emp nd (pre ++ [nm]) c0 s n _ calls1 n1 h1 lo fs hfr)
end

/-! ## inversion of `commitArtT` that also names the node left in the workspace -/

theorem commitArtT_ok_inv' {t : TCfg κ} {a : Art} {pre : List Name} {nd : Option (Node κ)} {s : Store κ}
    {res : Node κ × Digest × Store κ} {calls : List (Call κ)}
    (h : commitArtT t a pre nd s = .ok (res, calls)) :
    (∃ es old res1 calls1 n1 mb, nd = some (.dir es) ∧
        commitEntriesT t pre a.noRec es old s 1 = .ok (res1, calls1, n1) ∧
        calls = headCalls ++ calls1 ++ copyIntoCache t.isEmp n1 mb (t.ctx.H mb) ∧
        res.1 = .dir res1.1) ∨
    (∃ calls1 k, commitFileT t a.skip (.ws pre) nd a.sum s 1 = .ok (res, calls1, k) ∧
        calls = headCalls ++ calls1) := by
  unfold commitArtT at h
  split at h
  · left
    cases nd with
    | none => simp at h
    | some x =>
      cases x with
      | file _ => simp at h
      | link _ => simp at h
      | other => simp at h
      | dir es =>
        simp only at h
        cases hold : oldManifest t.ctx s a.sum with
        | error e => simp [hold] at h
        | ok old =>
          simp only [hold] at h
          cases hT : commitEntriesT t pre a.noRec es old s 1 with
          | error e => simp [hT] at h
          | ok v =>
            obtain ⟨⟨es', cs, s'⟩, calls1, n1⟩ := v
            simp [hT] at h
            obtain ⟨rfl, rfl⟩ := h
            exact ⟨es, old, _, calls1, n1, (Obj.man .new a.path (sortChildren cs) : Obj κ).bytes t.ctx, rfl, hT,
              by simp [headCalls, Obj.digest], rfl⟩
  · right
    cases hT : commitFileT t a.skip (.ws pre) nd a.sum s 1 with
    | error e => simp [hT] at h
    | ok v =>
      obtain ⟨r, calls1, k⟩ := v
      simp [hT] at h
      obtain ⟨rfl, rfl⟩ := h
      exact ⟨calls1, k, rfl, by simp [headCalls]⟩

theorem headCalls_ctmp_free (emp : κ) {fs : FS κ} (h : CtmpFree 1 fs) :
    CtmpFree 1 (replay emp fs (headCalls : List (Call κ))) := by
  intro k hk
  rw [headCalls_frame_ctmp emp fs hk]; exact h k hk

/-- **after the complete trace of one artifact the temp names `1, 2, …` are free again** -/
theorem commitArtT_ctmp_free {t : TCfg κ} (emp : κ) {a : Art} {pre : List Name} {nd : Option (Node κ)}
    {s : Store κ} {res : Node κ × Digest × Store κ} {calls : List (Call κ)}
    (h : commitArtT t a pre nd s = .ok (res, calls)) {fs : FS κ} (hfr : CtmpFree 1 fs) :
    CtmpFree 1 (replay emp fs calls) := by
  rcases commitArtT_ok_inv' h with ⟨es, old, res1, calls1, n1, mb, rfl, hT, rfl, -⟩ | ⟨calls1, k, hT, rfl⟩
  · rw [replay_append, replay_append]
    exact copyIntoCache_ctmp_free emp _ _ _ _
      (commitEntriesT_ctmp_free t emp es pre a.noRec old s 1 res1 calls1 n1 hT 1 _ (headCalls_ctmp_free emp hfr))
  · rw [replay_append]
    exact commitFileT_ctmp_free emp hT (headCalls_ctmp_free emp hfr)

/-! ## the node left in the workspace -/

/-- what `commitFileArtifact` leaves at the path: the node it found, or a link in place of a regular file -/
theorem commitFile_node {ctx : Ctx κ} {strat : Strat} {skip : Bool} {nd : Option (Node κ)} {sum : Digest}
    {s : Store κ} {n' : Node κ} {d : Digest} {s' : Store κ}
    (h : commitFile ctx strat skip nd sum s = .ok (n', d, s')) :
    (∃ x, nd = some (.file x) ∧ (n' = .file x ∧ (skip = true ∨ strat = .copy) ∨ ∃ d', n' = .link (.obj d'))) ∨
    (∃ l, nd = some (.link l) ∧ n' = .link l) := by
  unfold commitFile at h
  cases nd with
  | none => simp at h
  | some x =>
    cases x with
    | file c =>
      left
      simp only [quick, Bool.false_eq_true, if_false] at h
      refine ⟨c, rfl, ?_⟩
      cases skip with
      | true => simp at h; exact .inl ⟨h.1.symm, .inl rfl⟩
      | false =>
        cases strat with
        | link => simp at h; exact .inr ⟨_, h.1.symm⟩
        | copy => simp at h; exact .inl ⟨h.1.symm, .inr rfl⟩
    | link l =>
      right
      refine ⟨l, rfl, ?_⟩
      simp only at h
      split at h
      · simp at h; exact h.1.symm
      · cases l with
        | obj d0 =>
          simp only at h
          split at h
          · simp at h; exact h.1.symm
          · cases h
        | foreign _ => simp at h
    | dir es =>
      simp only [quick, Bool.false_eq_true, if_false] at h
      cases h
    | other =>
      simp only [quick, Bool.false_eq_true, if_false] at h
      cases h

/-- the regular file `commitFileT` leaves at the path was there before and no call writes it; the node
left has duplicate-free names (it is not a directory) -/
theorem commitFileT_kept {t : TCfg κ} {skip : Bool} {q : List Name} {nd : Option (Node κ)} {sum : Digest}
    {s : Store κ} {n : Nat} {res : Node κ × Digest × Store κ} {calls : List (Call κ)} {k : Nat}
    (h : commitFileT t skip (.ws q) nd sum s n = .ok (res, calls, k)) :
    (∀ p ∈ trackedOf q res.1, p ∈ trackedOpt q nd ∧ ∀ call ∈ calls, p.1 ∉ callWrites call) ∧
      uniqNode res.1 := by
  unfold commitFileT at h
  cases hcf : commitFile t.ctx t.strat skip nd sum s with
  | error e => simp [hcf] at h
  | ok r =>
    obtain ⟨n', d, s'⟩ := r
    simp only [hcf] at h
    rcases commitFile_node hcf with ⟨x, rfl, hx⟩ | ⟨l, rfl, rfl⟩
    · simp only at h
      split at h
      · -- no calls
        simp at h
        obtain ⟨rfl, rfl, -⟩ := h
        rcases hx with ⟨rfl, -⟩ | ⟨d', rfl⟩
        · exact ⟨fun p hp => ⟨by simpa [trackedOpt] using hp, by simp⟩, by simp [uniqNode]⟩
        · exact ⟨fun p hp => by simp [trackedOf] at hp, by simp [uniqNode]⟩
      · rename_i hns
        simp at h
        obtain ⟨rfl, rfl, -⟩ := h
        rcases hx with ⟨rfl, hsc⟩ | ⟨d', rfl⟩
        · refine ⟨fun p hp => ⟨by simpa [trackedOpt] using hp, ?_⟩, by simp [uniqNode]⟩
          simp only [trackedOf, List.mem_singleton] at hp
          subst hp
          have hcopy : t.strat = .copy := by
            rcases hsc with h1 | h1
            · simp [h1] at hns
            · exact h1
          intro call hcall hmem
          rw [hcopy] at hcall
          simp only [commitFileCalls] at hcall
          rcases copyIntoCache_paths _ _ _ _ call hcall _ (callWrites_sub _ _ hmem) with h | h | h <;> cases h
        · exact ⟨fun p hp => by simp [trackedOf] at hp, by simp [uniqNode]⟩
    · simp at h
      obtain ⟨rfl, rfl, -⟩ := h
      exact ⟨fun p hp => by simp [trackedOf] at hp, by simp [uniqNode]⟩

/-- a path outside the footprint is written by no call -/
theorem not_written_of_foot {ws : List P} {lo hi : Nat} {calls : List (Call κ)}
    (hf : FootOK ws lo hi calls) {p : P} (hp : ¬ InFoot ws lo hi p) :
    ∀ call ∈ calls, p ∉ callWrites call :=
  fun call hc hmem => hp (hf call hc p (callWrites_sub call p hmem))

/-- files below an earlier entry are outside the footprint of the later siblings -/
theorem not_inFoot_rest {pre : List Name} {nm : Name} {nd : Node κ} {r : List (Name × Node κ)}
    (hne : ∀ e ∈ r, e.1 ≠ nm) {p : P × κ} (hp : p ∈ trackedOf (pre ++ [nm]) nd) (lo hi : Nat) :
    ¬ InFoot (paths (trackedList pre r)) lo hi p.1 := by
  obtain ⟨names, hpe, -⟩ := trackedOf_names nd (pre ++ [nm]) p hp
  rw [hpe]
  simp only [InFoot, paths, List.mem_map]
  rintro ⟨p', hp', heq⟩
  obtain ⟨e, he, names', hpe', -⟩ := trackedList_names r pre p' hp'
  rw [hpe'] at heq
  exact sibling_paths_ne (hne e he) heq

theorem not_written_by_copyIntoCache (isEmp : κ → Bool) (n : Nat) (c : κ) (d : Digest) (q : List Name) :
    ∀ call ∈ copyIntoCache isEmp n c d, P.ws q ∉ callWrites call := by
  intro call hcall hmem
  rcases copyIntoCache_paths isEmp n c d call hcall _ (callWrites_sub _ _ hmem) with h | h | h <;> cases h

theorem tracked_is_ws {pre : List Name} {nd : Node κ} {p : P × κ} (hp : p ∈ trackedOf pre nd) :
    ∃ q, p.1 = .ws q := by
  obtain ⟨names, hn, -⟩ := trackedOf_names nd pre p hp
  exact ⟨_, hn⟩

theorem trackedList_is_ws {pre : List Name} {es : List (Name × Node κ)} {p : P × κ}
    (hp : p ∈ trackedList pre es) : ∃ q, p.1 = .ws q := by
  obtain ⟨e, -, names, hn, -⟩ := trackedList_names es pre p hp
  exact ⟨_, hn⟩

mutual
/-- **Kept files.** Every regular file of the tree left in the workspace was a regular file of the tree
before (same path, same bytes), no call of the trace writes its path; names stay duplicate-free. -/
theorem commitNodeT_kept (t : TCfg κ) : ∀ (nd : Node κ) (pre : List Name) (c : Child) (s : Store κ)
    (n : Nat) (res : Node κ × Child × Store κ) (calls : List (Call κ)) (n' : Nat),
    uniqNode nd → commitNodeT t pre nd c s n = .ok (res, calls, n') →
      (∀ p ∈ trackedOf pre res.1, p ∈ trackedOf pre nd ∧ ∀ call ∈ calls, p.1 ∉ callWrites call) ∧
        uniqNode res.1
  | .file x, pre, c, s, n, res, calls, n', _, h => by
    simp only [commitNodeT] at h
    split at h
    · cases h
    · cases hT : commitFileT t false (.ws pre) (some (.file x)) c.sum s n with
      | error e => simp [hT] at h
      | ok v =>
        obtain ⟨⟨n0, d, s'⟩, calls', k'⟩ := v
        simp [hT] at h
        obtain ⟨rfl, rfl, rfl⟩ := h
        exact commitFileT_kept hT
  | .link l, pre, c, s, n, res, calls, n', _, h => by
    simp only [commitNodeT] at h
    split at h
    · cases h
    · cases hT : commitFileT t false (.ws pre) (some (.link l)) c.sum s n with
      | error e => simp [hT] at h
      | ok v =>
        obtain ⟨⟨n0, d, s'⟩, calls', k'⟩ := v
        simp [hT] at h
        obtain ⟨rfl, rfl, rfl⟩ := h
        exact commitFileT_kept hT
  | .other, pre, c, s, n, res, calls, n', _, h => by
    simp only [commitNodeT] at h
    split at h
    · cases h
    · cases hT : commitFileT t false (.ws pre) (some .other) c.sum s n with
      | error e => simp [hT] at h
      | ok v =>
        obtain ⟨⟨n0, d, s'⟩, calls', k'⟩ := v
        simp [hT] at h
        obtain ⟨rfl, rfl, rfl⟩ := h
        exact commitFileT_kept hT
  | .dir es, pre, c, s, n, res, calls, n', hu, h => by
    simp only [commitNodeT] at h
    split at h
    · cases hold : oldManifest t.ctx s c.sum with
      | error e => simp [hold] at h
      | ok old =>
        simp only [hold] at h
        cases hT : commitEntriesT t pre false es old s n with
        | error e => simp [hT] at h
        | ok v =>
          obtain ⟨⟨es', cs, s'⟩, calls1, n1⟩ := v
          simp [hT] at h
          obtain ⟨rfl, rfl, rfl⟩ := h
          simp only [uniqNode] at hu
          obtain ⟨hk, -, hu'⟩ := commitEntriesT_kept t es pre false old s n _ calls1 n1 hu hT
          refine ⟨fun p hp => ?_, by simpa [uniqNode] using hu'⟩
          simp only [trackedOf] at hp ⊢
          obtain ⟨hin, hnw⟩ := hk p hp
          refine ⟨hin, fun call hcall => ?_⟩
          rcases List.mem_append.1 hcall with hc | hc
          · exact hnw call hc
          · obtain ⟨q, hq⟩ := trackedList_is_ws hp
            rw [hq]
            exact not_written_by_copyIntoCache _ _ _ _ q call hc
    · cases h
theorem commitEntriesT_kept (t : TCfg κ) : ∀ (es : List (Name × Node κ)) (pre : List Name)
    (skipDirs : Bool) (old : List Child) (s : Store κ) (n : Nat)
    (res : List (Name × Node κ) × List Child × Store κ) (calls : List (Call κ)) (n' : Nat),
    uniqList es → commitEntriesT t pre skipDirs es old s n = .ok (res, calls, n') →
      (∀ p ∈ trackedList pre res.1, p ∈ trackedList pre es ∧ ∀ call ∈ calls, p.1 ∉ callWrites call) ∧
        res.1.map (·.1) = es.map (·.1) ∧ uniqList res.1
  | [], pre, skipDirs, old, s, n, res, calls, n', _, h => by
    simp [commitEntriesT] at h
    obtain ⟨rfl, rfl, -⟩ := h
    exact ⟨fun p hp => by simp [trackedList] at hp, rfl, by simp [uniqList]⟩
  | (nm, nd) :: r, pre, skipDirs, old, s, n, res, calls, n', hu, h => by
    simp only [uniqList] at hu
    obtain ⟨hun, hne, hur⟩ := hu
    obtain ⟨c0, hT0, -⟩ := commitEntries_cons_both t pre skipDirs nm nd r old s n
    rw [hT0] at h
    split at h
    · -- the directory entry is skipped
      cases hT : commitEntriesT t pre skipDirs r old s n with
      | error e => simp [hT] at h
      | ok v =>
        obtain ⟨⟨r', cs, s'⟩, calls', k'⟩ := v
        simp [hT] at h
        obtain ⟨rfl, rfl, rfl⟩ := h
        obtain ⟨hk, hnames, hu'⟩ := commitEntriesT_kept t r pre skipDirs old s n _ calls' k' hur hT
        obtain ⟨-, hf⟩ := commitEntriesT_foot t r pre skipDirs old s n _ calls' k' hT
        refine ⟨fun p hp => ?_, by simp [hnames], ?_⟩
        · simp only [trackedList, List.mem_append] at hp ⊢
          rcases hp with hp | hp
          · exact ⟨.inl hp, not_written_of_foot hf (not_inFoot_rest hne hp _ _)⟩
          · exact ⟨.inr (hk p hp).1, (hk p hp).2⟩
        · simp only [uniqList]
          refine ⟨hun, fun e he => ?_, hu'⟩
          have : e.1 ∈ r'.map (·.1) := List.mem_map_of_mem he
          rw [show r'.map (·.1) = r.map (·.1) from hnames] at this
          obtain ⟨e', he', heq⟩ := List.mem_map.1 this
          rw [← heq]; exact hne e' he'
    · split at h
      · cases h
      · cases hT : commitNodeT t (pre ++ [nm]) nd c0 s n with
        | error e => simp [hT] at h
        | ok v =>
          obtain ⟨⟨nd', c', s1⟩, calls1, n1⟩ := v
          simp only [hT] at h
          cases hT2 : commitEntriesT t pre skipDirs r old s1 n1 with
          | error e => simp [hT2] at h
          | ok v =>
            obtain ⟨⟨r', cs, s2⟩, calls2, n2⟩ := v
            simp [hT2] at h
            obtain ⟨rfl, rfl, rfl⟩ := h
            obtain ⟨hk1, hu1⟩ := commitNodeT_kept t nd (pre ++ [nm]) c0 s n _ calls1 n1 hun hT
            obtain ⟨hk2, hnames, hu2⟩ := commitEntriesT_kept t r pre skipDirs old s1 n1 _ calls2 n2 hur hT2
            obtain ⟨-, hf1⟩ := commitNodeT_foot t nd (pre ++ [nm]) c0 s n _ calls1 n1 hT
            obtain ⟨-, hf2⟩ := commitEntriesT_foot t r pre skipDirs old s1 n1 _ calls2 n2 hT2
            refine ⟨fun p hp => ?_, by simp [hnames], ?_⟩
            · simp only [trackedList, List.mem_append] at hp ⊢
              rcases hp with hp | hp
              · obtain ⟨hin, hnw⟩ := hk1 p hp
                refine ⟨.inl hin, fun call hcall => ?_⟩
                rcases hcall with hc | hc
                · exact hnw call hc
                · exact not_written_of_foot hf2 (not_inFoot_rest hne hin _ _) call hc
              · obtain ⟨hin, hnw⟩ := hk2 p hp
                refine ⟨.inr hin, fun call hcall => ?_⟩
                rcases hcall with hc | hc
                · exact not_written_of_foot hf1 (not_inFoot_sibling hne hin _ _) call hc
                · exact hnw call hc
            · simp only [uniqList]
              refine ⟨hu1, fun e he => ?_, hu2⟩
              have : e.1 ∈ r'.map (·.1) := List.mem_map_of_mem he
              rw [show r'.map (·.1) = r.map (·.1) from hnames] at this
              obtain ⟨e', he', heq⟩ := List.mem_map.1 this
              rw [← heq]; exact hne e' he'
end

theorem not_written_by_headCalls (q : List Name) :
    ∀ call ∈ (headCalls : List (Call κ)), P.ws q ∉ callWrites call := by
  intro call hcall hmem
  rcases headCalls_paths call hcall _ (callWrites_sub _ _ hmem) with h | h | h <;> cases h

/-- **Kept files, whole `LocalCache.Commit`.** -/
theorem commitArtT_kept {t : TCfg κ} {a : Art} {pre : List Name} {nd : Option (Node κ)} {s : Store κ}
    {res : Node κ × Digest × Store κ} {calls : List (Call κ)}
    (hu : uniqOpt nd) (h : commitArtT t a pre nd s = .ok (res, calls)) :
    (∀ p ∈ trackedOf pre res.1, p ∈ trackedOpt pre nd ∧ ∀ call ∈ calls, p.1 ∉ callWrites call) ∧
      uniqNode res.1 := by
  rcases commitArtT_ok_inv' h with ⟨es, old, res1, calls1, n1, mb, rfl, hT, rfl, hres⟩ | ⟨calls1, k, hT, rfl⟩
  · simp only [uniqOpt, uniqNode] at hu
    obtain ⟨hk, -, hu'⟩ := commitEntriesT_kept t es pre a.noRec old s 1 res1 calls1 n1 hu hT
    rw [hres]
    refine ⟨fun p hp => ?_, by simpa [uniqNode] using hu'⟩
    simp only [trackedOf] at hp
    obtain ⟨hin, hnw⟩ := hk p hp
    refine ⟨by simpa [trackedOpt, trackedOf] using hin, fun call hcall => ?_⟩
    obtain ⟨q, hq⟩ := trackedList_is_ws hp
    simp only [List.mem_append] at hcall
    rcases hcall with (hc | hc) | hc
    · rw [hq]; exact not_written_by_headCalls q call hc
    · exact hnw call hc
    · rw [hq]; exact not_written_by_copyIntoCache _ _ _ _ q call hc
  · obtain ⟨hk, hu'⟩ := commitFileT_kept hT
    refine ⟨fun p hp => ?_, hu'⟩
    obtain ⟨hin, hnw⟩ := hk p hp
    refine ⟨hin, fun call hcall => ?_⟩
    obtain ⟨q, hq⟩ := tracked_is_ws hp
    rcases List.mem_append.1 hcall with hc | hc
    · rw [hq]; exact not_written_by_headCalls q call hc
    · exact hnw call hc

/-! ## the trace of an artifact stays inside workspace and cache -/

/-- lock, stage files, index and their temp files -/
def P.isMeta : P → Bool
  | .lock => true
  | .stageFile _ => true
  | .stageTmp _ => true
  | .index => true
  | .indexTmp => true
  | _ => false

/-- a call that mentions no metadata path -/
def CacheOnly (c : Call κ) : Prop := ∀ p ∈ callPaths c, p.isMeta = false

theorem not_meta_of_inFoot {ws : List P} {lo hi : Nat} {p : P} (h : InFoot ws lo hi p) :
    p.isMeta = false := by
  cases p <;> simp [InFoot] at h <;> rfl

/-- the trace of one artifact mentions neither the lock nor a stage file nor the index -/
theorem commitArtT_cacheOnly {t : TCfg κ} {a : Art} {pre : List Name} {nd : Option (Node κ)} {s : Store κ}
    {res : Node κ × Digest × Store κ} {calls : List (Call κ)}
    (h : commitArtT t a pre nd s = .ok (res, calls)) : ∀ c ∈ calls, CacheOnly c := by
  obtain ⟨hi, hf⟩ := commitArtT_foot h
  intro c hc p hp
  rcases hf c hc p hp with (rfl | rfl | rfl) | h
  · rfl
  · rfl
  · rfl
  · exact not_meta_of_inFoot h

/-- the workspace paths an artifact trace writes are those of the regular files of the tree -/
theorem commitArtT_ws_writes {t : TCfg κ} {a : Art} {pre : List Name} {nd : Option (Node κ)} {s : Store κ}
    {res : Node κ × Digest × Store κ} {calls : List (Call κ)}
    (h : commitArtT t a pre nd s = .ok (res, calls)) {q : List Name}
    (hq : P.ws q ∉ paths (trackedOpt pre nd)) : ∀ c ∈ calls, P.ws q ∉ callWrites c := by
  obtain ⟨hi, hf⟩ := commitArtT_foot h
  intro c hc hmem
  rcases hf c hc _ (callWrites_sub _ _ hmem) with (h | h | h) | h
  · cases h
  · cases h
  · cases h
  · exact hq h

end Dud.Sys
