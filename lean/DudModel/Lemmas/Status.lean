import DudModel.StatusSpec
/-!
# Lemmas about `fileStatus` / `childStatuses` / `dirStatus`
-/
namespace Dud

variable {κ : Type} [DecidableEq κ]

omit [DecidableEq κ] in
theorem UpToDate_file {ctx : Ctx κ} {s : Store κ} {fuel : Nat} {sum : Digest} {n : Node κ} :
    UpToDate ctx s fuel false sum n ↔ FileOK ctx s sum n := by
  cases fuel <;> simp [UpToDate]

theorem Status.typed_eq (st : Status) :
    st.typed = ((!st.isDir || st.ws == .directory) && typedList st.children) := by
  cases st; simp [Status.typed]

theorem typedList_append (a b : List Status) : typedList (a ++ b) = (typedList a && typedList b) := by
  induction a with
  | nil => simp [typedList]
  | cons c r ih => simp [typedList, ih, Bool.and_assoc]

omit [DecidableEq κ] in
theorem Store.has_eq_true_iff {s : Store κ} {d : Digest} : s.has d = true ↔ ∃ o, s.get d = some o := by
  simp [Store.has, Option.isSome_iff_exists]

/-- `fileArtifactStatus` (not skipped): exact meaning of `ContentsMatch` -/
theorem fileStatus_cm_iff (ctx : Ctx κ) (s : Store κ) (nm : Bytes) (sum : Digest)
    (cur : Option (Node κ)) :
    (fileStatus ctx s nm false sum cur).cm = true ↔ ∃ n, cur = some n ∧ FileOK ctx s sum n := by
  cases cur with
  | none => simp [fileStatus, quick]
  | some n =>
    simp only [Option.some.injEq, exists_eq_left']
    cases n with
    | file c =>
      simp only [fileStatus, Bool.false_eq_true, if_false, FileOK]
      by_cases hin : (quick s sum (some (Node.file c))).inCache = true
      · have hin' := hin
        simp only [quick, Bool.and_eq_true] at hin'
        obtain ⟨hh, hhas⟩ := hin'
        obtain ⟨o, ho⟩ := Store.has_eq_true_iff.mp hhas
        simp [hin, ho, hh]
      · have hin' := hin
        simp only [quick, Bool.and_eq_true, not_and] at hin'
        simp only [hin, Bool.not_false, if_true]
        constructor
        · intro h; simp [quick] at h
        · rintro ⟨hh, o, ho, _⟩
          exact absurd (Store.has_eq_true_iff.mpr ⟨o, ho⟩) (hin' hh)
    | link l =>
      cases l with
      | obj d =>
        simp only [fileStatus, quick, FileOK, Bool.and_eq_true, beq_iff_eq]
        constructor
        · rintro ⟨⟨hh, hhas⟩, rfl⟩
          obtain ⟨o, ho⟩ := Store.has_eq_true_iff.mp hhas
          exact ⟨hh, o, ho, Or.inr rfl⟩
        · rintro ⟨hh, o, ho, h | h⟩
          · cases h
          · simp only [Node.link.injEq, Link.obj.injEq] at h
            exact ⟨⟨hh, Store.has_eq_true_iff.mpr ⟨o, ho⟩⟩, h⟩
      | foreign b => simp [fileStatus, quick, FileOK]
    | dir es => simp [fileStatus, quick, FileOK]
    | other => simp [fileStatus, quick, FileOK]

theorem fileStatus_typed (ctx : Ctx κ) (s : Store κ) (nm : Bytes) (skip : Bool) (sum : Digest)
    (cur : Option (Node κ)) : (fileStatus ctx s nm skip sum cur).typed = true := by
  have h1 : (fileStatus ctx s nm skip sum cur).isDir = false := by
    unfold fileStatus; simp only; split
    · split
      · split <;> rfl
      · split
        · rfl
        · split <;> rfl
    · rfl
  have h2 : (fileStatus ctx s nm skip sum cur).children = [] := by
    unfold fileStatus; simp only; split
    · split
      · split <;> rfl
      · split
        · rfl
        · split <;> rfl
    · rfl
  rw [Status.typed_eq, h1, h2]; rfl

/-- what one manifest entry contributes -/
def ChildOK (ctx : Ctx κ) (s : Store κ) (fuel : Nat) (es : List (Name × Node κ)) (k : Child) : Prop :=
  ∃ nk, alookup es k.name = some nk ∧ UpToDate ctx s fuel k.isDir k.sum nk

/-- the statement proved by induction on the fuel -/
def DirIff (ctx : Ctx κ) (s : Store κ) (fuel : Nat) : Prop :=
  ∀ (nm : Bytes) (sum : Digest) (cur : Option (Node κ)) (st : Status),
    dirStatus ctx s fuel nm false sum cur = .ok st →
      ((st.cm = true ∧ st.typed = true) ↔ ∃ n, cur = some n ∧ UpToDate ctx s fuel true sum n)

theorem childStatuses_iff {ctx : Ctx κ} {s : Store κ} {fuel : Nat} (ih : DirIff ctx s fuel)
    (es : List (Name × Node κ)) :
    ∀ (cs : List Child) (tracked : List Status),
      childStatuses ctx s (fun nm sm cu => dirStatus ctx s fuel nm false sm cu) es cs = .ok tracked →
      ((tracked.all (·.cm) = true ∧ typedList tracked = true) ↔ ∀ k ∈ cs, ChildOK ctx s fuel es k) := by
  intro cs
  induction cs with
  | nil =>
    intro tracked h
    simp only [childStatuses, Except.ok.injEq] at h
    subst h; simp [typedList]
  | cons c cs ihcs =>
    intro tracked h
    simp only [childStatuses] at h
    split at h; · cases h
    rename_i st hst
    split at h; · cases h
    rename_i r hr
    simp only [Except.ok.injEq] at h; subst h
    have hone : (st.cm = true ∧ st.typed = true) ↔ ChildOK ctx s fuel es c := by
      unfold ChildOK
      by_cases hd : c.isDir = true
      · simp only [hd, if_true] at hst
        have := ih c.name c.sum (alookup es c.name) st hst
        rw [this, hd]
      · have hd' : c.isDir = false := by simpa using hd
        simp only [hd', Bool.false_eq_true, if_false, Except.ok.injEq] at hst
        subst hst
        rw [fileStatus_typed, fileStatus_cm_iff, hd']
        simp only [and_true, UpToDate_file]
    have hrest := ihcs r hr
    simp only [List.all_cons, Bool.and_eq_true, typedList, List.mem_cons, forall_eq_or_imp]
    rw [← hone, ← hrest]
    constructor
    · rintro ⟨⟨a, b⟩, c', d⟩; exact ⟨⟨a, c'⟩, b, d⟩
    · rintro ⟨⟨a, c'⟩, b, d⟩; exact ⟨⟨a, b⟩, c', d⟩

omit [DecidableEq κ] in
theorem filter_untracked_nil_iff (es : List (Name × Node κ)) (cs : List Child) :
    (es.filter (fun e => (findChild cs e.1).isNone)).isEmpty = true ↔
      ∀ e ∈ es, (findChild cs e.1).isSome = true := by
  rw [List.isEmpty_iff, List.filter_eq_nil_iff]
  constructor
  · intro h e he
    have := h e he
    cases hf : findChild cs e.1 <;> simp_all
  · intro h e he
    have := h e he
    cases hf : findChild cs e.1 <;> simp_all

omit [DecidableEq κ] in
theorem statusManifest_eq (ctx : Ctx κ) (s : Store κ) (sum : Digest) (cur : Option (Node κ)) :
    (if (quick s sum cur).inCache = true then readManifest ctx s sum else .ok [])
      = statusManifest ctx s sum := by
  simp [quick, statusManifest]

omit [DecidableEq κ] in
/-- with the manifest recorded and in the cache, the manifest walked is the stored one -/
theorem statusManifest_of_inCache {ctx : Ctx κ} {s : Store κ} {sum : Digest}
    (hh : hasSum sum = true) (hhas : s.has sum = true) :
    statusManifest ctx s sum = readManifest ctx s sum := by
  simp [statusManifest, hh, hhas]

/-- **Exact meaning of `ContentsMatch` for a directory artifact.** -/
theorem dirStatus_iff (ctx : Ctx κ) (s : Store κ) : ∀ fuel, DirIff ctx s fuel := by
  intro fuel
  induction fuel with
  | zero => intro nm sum cur st h; simp [dirStatus] at h
  | succ fuel ih =>
    intro nm sum cur st h
    simp only [dirStatus] at h
    split at h
    · -- a directory in the workspace
      rename_i es
      rw [statusManifest_eq] at h
      split at h; · cases h
      rename_i cs hcs
      split at h; · cases h
      rename_i tracked htr
      simp only [Bool.false_eq_true, if_false] at h
      split at h; · cases h
      rename_i un hun
      simp only [Except.ok.injEq] at h
      subst h
      have hch := childStatuses_iff ih es cs tracked htr
      have hunt := filter_untracked_nil_iff es cs
      simp only [Status.typed_eq, quick, wsOf, Bool.not_true, Bool.false_or, beq_self_eq_true,
        Bool.true_and, Bool.and_eq_true, Option.some.injEq, exists_eq_left', UpToDate, if_true,
        Node.dir.injEq]
      constructor
      · rintro ⟨⟨⟨⟨hh, -, hhas⟩, hall⟩, hemp⟩, hty⟩
        rw [typedList_append, Bool.and_eq_true] at hty
        rw [statusManifest_of_inCache hh hhas] at hcs
        exact ⟨es, cs, rfl, ⟨hh, hhas⟩, hcs, hch.mp ⟨hall, hty.1⟩, hunt.mp hemp⟩
      · rintro ⟨es', cs', rfl, ⟨hh, hhas⟩, hcs', hall, hun'⟩
        rw [statusManifest_of_inCache hh hhas, hcs'] at hcs; cases hcs
        have hemp := hunt.mpr hun'
        have hnil : es.filter (fun e => (findChild cs e.1).isNone) = [] := List.isEmpty_iff.mp hemp
        rw [hnil] at hun
        simp only [untrackedStatuses, Except.ok.injEq] at hun
        subst hun
        obtain ⟨h1, h2⟩ := hch.mpr hall
        exact ⟨⟨⟨⟨hh, hh, hhas⟩, h1⟩, hemp⟩, by rw [List.append_nil]; exact h2⟩
    · -- anything else: never up to date *and* typed
      rename_i hnd
      simp only [Except.ok.injEq] at h
      subst h
      constructor
      · rintro ⟨_, hty⟩
        exfalso
        simp only [Status.typed_eq, quick, Bool.not_true, Bool.false_or, Bool.and_eq_true,
          beq_iff_eq] at hty
        cases cur with
        | none => simp [wsOf] at hty
        | some n =>
          cases n with
          | dir es => exact hnd es rfl
          | file _ => simp [wsOf] at hty
          | link _ => simp [wsOf] at hty
          | other => simp [wsOf] at hty
      · rintro ⟨n, rfl, hu⟩
        simp only [UpToDate, if_true] at hu
        obtain ⟨es, _, rfl, _⟩ := hu
        exact (hnd es rfl).elim

theorem childStatuses_ok {ctx : Ctx κ} {s : Store κ} {fuel : Nat}
    (ih : ∀ (nm : Bytes) (sum : Digest) (n : Node κ), UpToDate ctx s fuel true sum n →
      ∃ st, dirStatus ctx s fuel nm false sum (some n) = .ok st)
    (es : List (Name × Node κ)) :
    ∀ (cs : List Child), (∀ k ∈ cs, ChildOK ctx s fuel es k) →
      ∃ tracked,
        childStatuses ctx s (fun nm sm cu => dirStatus ctx s fuel nm false sm cu) es cs = .ok tracked := by
  intro cs
  induction cs with
  | nil => intro _; exact ⟨[], rfl⟩
  | cons c cs ihcs =>
    intro h
    obtain ⟨r, hr⟩ := ihcs (fun k hk => h k (List.mem_cons_of_mem _ hk))
    obtain ⟨nk, hnk, hu⟩ := h c (List.mem_cons_self ..)
    by_cases hd : c.isDir = true
    · rw [hd] at hu
      obtain ⟨st, hst⟩ := ih c.name c.sum nk hu
      exact ⟨st :: r, by simp only [childStatuses, hd, if_true, hnk, hst, hr]⟩
    · have hd' : c.isDir = false := by simpa using hd
      exact ⟨fileStatus ctx s c.name false c.sum (alookup es c.name) :: r,
        by simp only [childStatuses, hd', Bool.false_eq_true, if_false, hr]⟩

/-- an up-to-date directory never makes `dirStatus` fail -/
theorem dirStatus_ok_of_upToDate (ctx : Ctx κ) (s : Store κ) :
    ∀ (fuel : Nat) (nm : Bytes) (sum : Digest) (n : Node κ), UpToDate ctx s fuel true sum n →
      ∃ st, dirStatus ctx s fuel nm false sum (some n) = .ok st := by
  intro fuel
  induction fuel with
  | zero => intro nm sum n h; simp [UpToDate] at h
  | succ fuel ih =>
    intro nm sum n h
    simp only [UpToDate, if_true] at h
    obtain ⟨es, cs, rfl, ⟨hh, hhas⟩, hcs, hall, hun⟩ := h
    rw [← statusManifest_of_inCache hh hhas] at hcs
    obtain ⟨tracked, htr⟩ := childStatuses_ok ih es cs hall
    have hnil : es.filter (fun e => (findChild cs e.1).isNone) = [] :=
      List.isEmpty_iff.mp ((filter_untracked_nil_iff es cs).mpr hun)
    simp only [dirStatus, statusManifest_eq, hcs, htr, Bool.false_eq_true, if_false, hnil,
      untrackedStatuses]
    exact ⟨_, rfl⟩

/-- **complete**: an up-to-date directory gets `ContentsMatch = true` (and no type complaint) -/
theorem dirStatus_of_upToDate {ctx : Ctx κ} {s : Store κ} {fuel : Nat} {sum : Digest} {n : Node κ}
    (nm : Bytes) (h : UpToDate ctx s fuel true sum n) :
    ∃ st, dirStatus ctx s fuel nm false sum (some n) = .ok st ∧ st.cm = true ∧ st.typed = true := by
  obtain ⟨st, hst⟩ := dirStatus_ok_of_upToDate ctx s fuel nm sum n h
  exact ⟨st, hst, (dirStatus_iff ctx s fuel nm sum (some n) st hst).mpr ⟨n, rfl, h⟩⟩

/-! ## one-step unfolding of `ContentsMatch` (no typing side condition) -/

/-- the status `childStatuses` computes for one manifest entry -/
def childStatus (ctx : Ctx κ) (s : Store κ) (fuel : Nat) (es : List (Name × Node κ)) (k : Child) :
    Except Err Status :=
  if k.isDir then dirStatus ctx s fuel k.name false k.sum (alookup es k.name)
  else .ok (fileStatus ctx s k.name false k.sum (alookup es k.name))

theorem childStatuses_all (ctx : Ctx κ) (s : Store κ) (fuel : Nat) (es : List (Name × Node κ)) :
    ∀ (cs : List Child) (tracked : List Status),
      childStatuses ctx s (fun nm sm cu => dirStatus ctx s fuel nm false sm cu) es cs = .ok tracked →
      (tracked.all (·.cm) = true ↔
        ∀ k ∈ cs, ∃ st, childStatus ctx s fuel es k = .ok st ∧ st.cm = true) := by
  intro cs
  induction cs with
  | nil =>
    intro tracked h
    simp only [childStatuses, Except.ok.injEq] at h
    subst h; simp
  | cons c cs ih =>
    intro tracked h
    simp only [childStatuses] at h
    split at h; · cases h
    rename_i st hst
    split at h; · cases h
    rename_i r hr
    simp only [Except.ok.injEq] at h; subst h
    have hst' : childStatus ctx s fuel es c = .ok st := by
      unfold childStatus
      by_cases hd : c.isDir = true
      · simpa [hd] using hst
      · simpa [hd] using hst
    simp only [List.all_cons, Bool.and_eq_true, List.mem_cons, forall_eq_or_imp, ih r hr, hst',
      Except.ok.injEq, exists_eq_left']

/-- **`ContentsMatch` of a directory, one level**: the manifest is recorded and in the cache, all
manifest entries match and the listing has no entry the manifest does not name. -/
theorem dirStatus_cm_step {ctx : Ctx κ} {s : Store κ} {fuel : Nat} {nm : Bytes} {sum : Digest}
    {es : List (Name × Node κ)} {st : Status}
    (h : dirStatus ctx s (fuel + 1) nm false sum (some (.dir es)) = .ok st) :
    ∃ cs, statusManifest ctx s sum = .ok cs ∧
      (st.cm = true ↔
        (hasSum sum = true ∧ s.has sum = true) ∧
        (∀ k ∈ cs, ∃ st', childStatus ctx s fuel es k = .ok st' ∧ st'.cm = true) ∧
        (∀ e ∈ es, (findChild cs e.1).isSome = true)) := by
  simp only [dirStatus] at h
  rw [statusManifest_eq] at h
  split at h; · cases h
  rename_i cs hcs
  split at h; · cases h
  rename_i tracked htr
  simp only [Bool.false_eq_true, if_false] at h
  split at h; · cases h
  simp only [Except.ok.injEq] at h
  subst h
  refine ⟨cs, hcs, ?_⟩
  simp only [Bool.and_eq_true, childStatuses_all ctx s fuel es cs tracked htr,
    filter_untracked_nil_iff, quick]
  constructor
  · rintro ⟨⟨⟨hh, -, hhas⟩, h1⟩, h2⟩; exact ⟨⟨hh, hhas⟩, h1, h2⟩
  · rintro ⟨⟨hh, hhas⟩, h1, h2⟩; exact ⟨⟨⟨hh, hh, hhas⟩, h1⟩, h2⟩

end Dud
